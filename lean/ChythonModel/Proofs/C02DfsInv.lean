import ChythonModel.Proofs.C02DfsBase
/-!
# C02 — the invariant of the writer's DFS stack machine (`dfsStep`)

`InvG` speaks about the graph part of the state (visited atoms `V`, tree bonds `T`, `disconnected` `D`, closure records
`C`, the cycle counter), `InvS` about the stack.  Both are stated on plain lists with membership / `Nodup` only, so they
are invariant under permutations of `T` and `C` (`alAppend` inserts in the middle of the association list).
-/
namespace ChythonModel.Proofs.C02
open ChythonModel.Model ChythonModel.Model.SmilesWriter

structure InvG (m : Mol) (S : List Nat) (start c0 : Nat) (V : List Nat) (T D : List (Nat × Nat))
    (C : List (Nat × Nat × Nat)) (cyc : Nat) : Prop where
  visNodup : V.Nodup
  visSub : ∀ a ∈ V, a ∈ S
  startVis : start ∈ V
  treeSnd : (T.map (·.2)).Nodup
  treeMem : ∀ p c, (p, c) ∈ T → p ∈ V ∧ c ∈ V ∧ c ≠ start ∧ c ∈ nk m p
  visChild : ∀ a ∈ V, a = start ∨ a ∈ T.map (·.2)
  treeAsym : ∀ a b, (a, b) ∈ T → (b, a) ∉ T
  discSymm : ∀ a b, (a, b) ∈ D → (b, a) ∈ D
  discNodup : D.Nodup
  discMem : ∀ a b, (a, b) ∈ D → a ∈ V ∧ b ∈ V ∧ b ∈ nk m a ∧ (a, b) ∉ T
  cycNodup : C.Nodup
  cycMem : ∀ a b c, (a, b, c) ∈ C → (b, a, c) ∈ C ∧ c0 < c ∧ c ≤ cyc ∧ (a, b) ∈ D
  cycId : ∀ a b a' b' c, (a, b, c) ∈ C → (a', b', c) ∈ C → (a' = a ∧ b' = b) ∨ (a' = b ∧ b' = a)
  cycPair : ∀ a b c c', (a, b, c) ∈ C → (a, b, c') ∈ C → c = c'
  discCyc : ∀ a b, (a, b) ∈ D → ∃ c, (a, b, c) ∈ C
  cycLe : c0 ≤ cyc

def depthOk (n : Nat) : List Frame → Prop
  | [] => True
  | f :: rest => f.depth + rest.length = n ∧ depthOk n rest

structure InvS (m : Mol) (S : List Nat) (V : List Nat) (T D : List (Nat × Nat)) (stack : List Frame) : Prop where
  stackNodup : (stack.map (·.parent)).Nodup
  stackVis : ∀ f ∈ stack, f.parent ∈ V
  stackDepth : depthOk S.length stack
  frameCh : ∀ f ∈ stack, f.children.Nodup ∧
    ∀ c ∈ f.children, c ∈ nk m f.parent ∧ (f.parent, c) ∉ T ∧ (c, f.parent) ∉ T
  cover : ∀ a ∈ V, ∀ b ∈ nk m a,
    ((a, b) ∈ T ∨ (b, a) ∈ T ∨ (a, b) ∈ D) ∨ ∃ f ∈ stack, f.parent = a ∧ b ∈ f.children

/-! ## permutation invariance -/

theorem InvG.perm {m S start c0 V T T' D C C' cyc} (h : InvG m S start c0 V T D C cyc) (hT : T.Perm T') (hC : C.Perm C') :
    InvG m S start c0 V T' D C' cyc where
  visNodup := h.visNodup
  visSub := h.visSub
  startVis := h.startVis
  treeSnd := (hT.map _).nodup_iff.1 h.treeSnd
  treeMem := fun p c hp => h.treeMem p c (hT.mem_iff.2 hp)
  visChild := fun a ha => (h.visChild a ha).imp id fun x => (hT.map _).mem_iff.1 x
  treeAsym := fun a b hab x => h.treeAsym a b (hT.mem_iff.2 hab) (hT.mem_iff.2 x)
  discSymm := h.discSymm
  discNodup := h.discNodup
  discMem := fun a b hab => by
    obtain ⟨h1, h2, h3, h4⟩ := h.discMem a b hab
    exact ⟨h1, h2, h3, fun x => h4 (hT.mem_iff.2 x)⟩
  cycNodup := hC.nodup_iff.1 h.cycNodup
  cycMem := fun a b c hc => by
    obtain ⟨h1, h2, h3, h4⟩ := h.cycMem a b c (hC.mem_iff.2 hc)
    exact ⟨hC.mem_iff.1 h1, h2, h3, h4⟩
  cycId := fun a b a' b' c h1 h2 => h.cycId a b a' b' c (hC.mem_iff.2 h1) (hC.mem_iff.2 h2)
  cycPair := fun a b c c' h1 h2 => h.cycPair a b c c' (hC.mem_iff.2 h1) (hC.mem_iff.2 h2)
  discCyc := fun a b hab => by
    obtain ⟨c, hc⟩ := h.discCyc a b hab
    exact ⟨c, hC.mem_iff.1 hc⟩
  cycLe := h.cycLe

theorem InvS.perm {m S V T T' D stack} (h : InvS m S V T D stack) (hT : T.Perm T') : InvS m S V T' D stack where
  stackNodup := h.stackNodup
  stackVis := h.stackVis
  stackDepth := h.stackDepth
  frameCh := fun f hf => by
    obtain ⟨h1, h2⟩ := h.frameCh f hf
    refine ⟨h1, fun c hc => ?_⟩
    obtain ⟨a1, a2, a3⟩ := h2 c hc
    exact ⟨a1, fun x => a2 (hT.mem_iff.2 x), fun x => a3 (hT.mem_iff.2 x)⟩
  cover := fun a ha b hb => by
    rcases h.cover a ha b hb with (h1 | h1 | h1) | h1
    · exact Or.inl (Or.inl (hT.mem_iff.1 h1))
    · exact Or.inl (Or.inr (Or.inl (hT.mem_iff.1 h1)))
    · exact Or.inl (Or.inr (Or.inr h1))
    · exact Or.inr h1

/-! ## the graph part under the two state-changing steps -/

theorem InvG.tree {m S start c0 V T D C cyc} (h : InvG m S start c0 V T D C cyc) {p c : Nat}
    (hp : p ∈ V) (hc : c ∉ V) (hcS : c ∈ S) (hcp : c ∈ nk m p) :
    InvG m S start c0 (V ++ [c]) (T ++ [(p, c)]) D C cyc where
  visNodup := List.Nodup.append h.visNodup (by simp) (by simpa using hc)
  visSub := fun a ha => by
    rcases List.mem_append.1 ha with ha | ha
    · exact h.visSub a ha
    · simp at ha; subst ha; exact hcS
  startVis := List.mem_append_left _ h.startVis
  treeSnd := by
    simp only [List.map_append, List.map_cons, List.map_nil]
    refine List.Nodup.append h.treeSnd (by simp) ?_
    intro x hx hx'
    simp at hx'
    subst hx'
    obtain ⟨⟨p', c'⟩, hm, rfl⟩ := List.mem_map.1 hx
    exact hc (h.treeMem p' c' hm).2.1
  treeMem := fun p' c' hpc => by
    rcases List.mem_append.1 hpc with hpc | hpc
    · obtain ⟨a1, a2, a3, a4⟩ := h.treeMem p' c' hpc
      exact ⟨List.mem_append_left _ a1, List.mem_append_left _ a2, a3, a4⟩
    · simp only [List.mem_singleton, Prod.mk.injEq] at hpc
      obtain ⟨rfl, rfl⟩ := hpc
      refine ⟨List.mem_append_left _ hp, by simp, ?_, hcp⟩
      intro e; subst e; exact hc h.startVis
  visChild := fun a ha => by
    rcases List.mem_append.1 ha with ha | ha
    · rcases h.visChild a ha with h1 | h1
      · exact Or.inl h1
      · exact Or.inr (by simp only [List.map_append]; exact List.mem_append_left _ h1)
    · simp at ha; subst ha; exact Or.inr (by simp)
  treeAsym := fun a b hab x => by
    rcases List.mem_append.1 hab with hab | hab
    · rcases List.mem_append.1 x with x | x
      · exact h.treeAsym a b hab x
      · simp only [List.mem_singleton, Prod.mk.injEq] at x
        exact hc (x.2 ▸ (h.treeMem a b hab).1)
    · simp only [List.mem_singleton, Prod.mk.injEq] at hab
      obtain ⟨rfl, rfl⟩ := hab
      rcases List.mem_append.1 x with x | x
      · exact hc (h.treeMem _ _ x).1
      · simp only [List.mem_singleton, Prod.mk.injEq] at x
        exact hc (x.1 ▸ hp)
  discSymm := h.discSymm
  discNodup := h.discNodup
  discMem := fun a b hab => by
    obtain ⟨h1, h2, h3, h4⟩ := h.discMem a b hab
    refine ⟨List.mem_append_left _ h1, List.mem_append_left _ h2, h3, ?_⟩
    intro x
    rcases List.mem_append.1 x with x | x
    · exact h4 x
    · simp only [List.mem_singleton, Prod.mk.injEq] at x
      obtain ⟨rfl, rfl⟩ := x
      exact hc h2
  cycNodup := h.cycNodup
  cycMem := h.cycMem
  cycId := h.cycId
  cycPair := h.cycPair
  discCyc := h.discCyc
  cycLe := h.cycLe

theorem InvG.cycle {m S start c0 V T D C cyc} (h : InvG m S start c0 V T D C cyc) {p c : Nat}
    (hp : p ∈ V) (hc : c ∈ V) (hcp : c ∈ nk m p) (hpc : p ∈ nk m c) (hne : p ≠ c)
    (ht1 : (p, c) ∉ T) (ht2 : (c, p) ∉ T) (hd : (c, p) ∉ D) :
    InvG m S start c0 V T ((c, p) :: (p, c) :: D) (C ++ [(p, c, cyc + 1)] ++ [(c, p, cyc + 1)]) (cyc + 1) := by
  have hd' : (p, c) ∉ D := fun x => hd (h.discSymm _ _ x)
  have hfresh : ∀ a b, (a, b, cyc + 1) ∉ C := by
    intro a b x
    have := (h.cycMem a b _ x).2.2.1
    omega
  have memC : ∀ a b k, (a, b, k) ∈ C ++ [(p, c, cyc + 1)] ++ [(c, p, cyc + 1)] ↔
      (a, b, k) ∈ C ∨ (a = p ∧ b = c ∧ k = cyc + 1) ∨ (a = c ∧ b = p ∧ k = cyc + 1) := by
    intro a b k
    simp only [List.mem_append, List.mem_singleton, Prod.mk.injEq, or_assoc]
  have memD : ∀ a b, (a, b) ∈ (c, p) :: (p, c) :: D ↔ (a = c ∧ b = p) ∨ (a = p ∧ b = c) ∨ (a, b) ∈ D := by
    intro a b
    simp only [List.mem_cons, Prod.mk.injEq]
  exact {
    visNodup := h.visNodup
    visSub := h.visSub
    startVis := h.startVis
    treeSnd := h.treeSnd
    treeMem := h.treeMem
    visChild := h.visChild
    treeAsym := h.treeAsym
    discSymm := fun a b hab => by
      rw [memD] at hab ⊢
      rcases hab with ⟨rfl, rfl⟩ | ⟨rfl, rfl⟩ | hab
      · exact Or.inr (Or.inl ⟨rfl, rfl⟩)
      · exact Or.inl ⟨rfl, rfl⟩
      · exact Or.inr (Or.inr (h.discSymm a b hab))
    discNodup := by
      refine List.nodup_cons.2 ⟨?_, List.nodup_cons.2 ⟨hd', h.discNodup⟩⟩
      intro x
      rcases List.mem_cons.1 x with x | x
      · simp only [Prod.mk.injEq] at x; exact hne x.2
      · exact hd x
    discMem := fun a b hab => by
      rw [memD] at hab
      rcases hab with ⟨rfl, rfl⟩ | ⟨rfl, rfl⟩ | hab
      · exact ⟨hc, hp, hpc, ht2⟩
      · exact ⟨hp, hc, hcp, ht1⟩
      · exact h.discMem a b hab
    cycNodup := by
      refine List.Nodup.append (List.Nodup.append h.cycNodup (by simp) ?_) (by simp) ?_
      · intro x hx hx'
        simp only [List.mem_singleton] at hx'
        subst hx'
        exact hfresh _ _ hx
      · intro x hx hx'
        simp only [List.mem_singleton] at hx'
        subst hx'
        rcases List.mem_append.1 hx with hx | hx
        · exact hfresh _ _ hx
        · simp only [List.mem_singleton, Prod.mk.injEq] at hx
          exact hne hx.1.symm
    cycMem := fun a b k hk => by
      rw [memC] at hk
      rw [memC, memD]
      rcases hk with hk | ⟨rfl, rfl, rfl⟩ | ⟨rfl, rfl, rfl⟩
      · obtain ⟨a1, a2, a3, a4⟩ := h.cycMem a b k hk
        exact ⟨Or.inl a1, a2, by omega, Or.inr (Or.inr a4)⟩
      · exact ⟨Or.inr (Or.inr ⟨rfl, rfl, rfl⟩), by have := h.cycLe; omega, Nat.le_refl _, Or.inr (Or.inl ⟨rfl, rfl⟩)⟩
      · exact ⟨Or.inr (Or.inl ⟨rfl, rfl, rfl⟩), by have := h.cycLe; omega, Nat.le_refl _, Or.inl ⟨rfl, rfl⟩⟩
    cycId := fun a b a' b' k h1 h2 => by
      rw [memC] at h1 h2
      rcases h1 with h1 | ⟨rfl, rfl, rfl⟩ | ⟨rfl, rfl, rfl⟩
      · rcases h2 with h2 | ⟨rfl, rfl, rfl⟩ | ⟨rfl, rfl, rfl⟩
        · exact h.cycId a b a' b' k h1 h2
        · exact absurd h1 (hfresh _ _)
        · exact absurd h1 (hfresh _ _)
      · rcases h2 with h2 | ⟨rfl, rfl, _⟩ | ⟨rfl, rfl, _⟩
        · exact absurd h2 (hfresh _ _)
        · exact Or.inl ⟨rfl, rfl⟩
        · exact Or.inr ⟨rfl, rfl⟩
      · rcases h2 with h2 | ⟨rfl, rfl, _⟩ | ⟨rfl, rfl, _⟩
        · exact absurd h2 (hfresh _ _)
        · exact Or.inr ⟨rfl, rfl⟩
        · exact Or.inl ⟨rfl, rfl⟩
    cycPair := fun a b k k' h1 h2 => by
      rw [memC] at h1 h2
      rcases h1 with h1 | ⟨rfl, rfl, rfl⟩ | ⟨rfl, rfl, rfl⟩
      · rcases h2 with h2 | ⟨rfl, rfl, rfl⟩ | ⟨rfl, rfl, rfl⟩
        · exact h.cycPair a b k k' h1 h2
        · exact absurd (h.cycMem _ _ _ h1).2.2.2 hd'
        · exact absurd (h.cycMem _ _ _ h1).2.2.2 hd
      · rcases h2 with h2 | ⟨_, _, rfl⟩ | ⟨_, _, rfl⟩
        · exact absurd (h.cycMem _ _ _ h2).2.2.2 hd'
        · rfl
        · rfl
      · rcases h2 with h2 | ⟨_, _, rfl⟩ | ⟨_, _, rfl⟩
        · exact absurd (h.cycMem _ _ _ h2).2.2.2 hd
        · rfl
        · rfl
    discCyc := fun a b hab => by
      rw [memD] at hab
      rcases hab with ⟨rfl, rfl⟩ | ⟨rfl, rfl⟩ | hab
      · exact ⟨cyc + 1, (memC _ _ _).2 (Or.inr (Or.inr ⟨rfl, rfl, rfl⟩))⟩
      · exact ⟨cyc + 1, (memC _ _ _).2 (Or.inr (Or.inl ⟨rfl, rfl, rfl⟩))⟩
      · obtain ⟨k, hk⟩ := h.discCyc a b hab
        exact ⟨k, (memC _ _ _).2 (Or.inl hk)⟩
    cycLe := by have := h.cycLe; omega }

/-! ## the stack part -/

theorem InvS.pop {m S V T D} {f : Frame} {rest : List Frame} (h : InvS m S V T D (f :: rest)) (hc : f.children = []) :
    InvS m S V T D rest where
  stackNodup := by have := h.stackNodup; simp only [List.map_cons, List.nodup_cons] at this; exact this.2
  stackVis := fun g hg => h.stackVis g (List.mem_cons_of_mem _ hg)
  stackDepth := h.stackDepth.2
  frameCh := fun g hg => h.frameCh g (List.mem_cons_of_mem _ hg)
  cover := fun a ha b hb => by
    rcases h.cover a ha b hb with h1 | ⟨g, hg, hga, hgb⟩
    · exact Or.inl h1
    · rcases List.mem_cons.1 hg with rfl | hg
      · rw [hc] at hgb; simp at hgb
      · exact Or.inr ⟨g, hg, hga, hgb⟩

/-- consuming one child of the top frame whose bond is (now) covered -/
theorem InvS.consume {m S V T D D'} {f : Frame} {rest : List Frame} {child : Nat} {cs : List Nat}
    (h : InvS m S V T D (f :: rest)) (hc : f.children = child :: cs) (hD : ∀ x ∈ D, x ∈ D')
    (hcov : (f.parent, child) ∈ T ∨ (child, f.parent) ∈ T ∨ (f.parent, child) ∈ D') :
    InvS m S V T D' ({ f with children := cs } :: rest) where
  stackNodup := h.stackNodup
  stackVis := fun g hg => by
    rcases List.mem_cons.1 hg with rfl | hg
    · exact h.stackVis f (by simp)
    · exact h.stackVis g (List.mem_cons_of_mem _ hg)
  stackDepth := ⟨h.stackDepth.1, h.stackDepth.2⟩
  frameCh := fun g hg => by
    rcases List.mem_cons.1 hg with rfl | hg
    · obtain ⟨h1, h2⟩ := h.frameCh f (by simp)
      rw [hc] at h1 h2
      exact ⟨(List.nodup_cons.1 h1).2, fun c hcc => h2 c (List.mem_cons_of_mem _ hcc)⟩
    · exact h.frameCh g (List.mem_cons_of_mem _ hg)
  cover := fun a ha b hb => by
    rcases h.cover a ha b hb with (h1 | h1 | h1) | ⟨g, hg, hga, hgb⟩
    · exact Or.inl (Or.inl h1)
    · exact Or.inl (Or.inr (Or.inl h1))
    · exact Or.inl (Or.inr (Or.inr (hD _ h1)))
    · rcases List.mem_cons.1 hg with rfl | hg
      · rw [hc] at hgb
        rcases List.mem_cons.1 hgb with rfl | hgb
        · subst hga; exact Or.inl hcov
        · exact Or.inr ⟨{ g with children := cs }, by simp, hga, hgb⟩
      · exact Or.inr ⟨g, List.mem_cons_of_mem _ hg, hga, hgb⟩

/-- visiting a new atom: the tree bond is added, and either a frame for the child is pushed (children = a permutation of
    its neighbours without the parent) or the child has no other neighbour; the depth limit is never the reason -/
theorem InvS.tree {m S start c0 V T D C cyc} {f : Frame} {rest : List Frame} {child : Nat} {cs : List Nat} {newF : List Frame}
    (hwf : m.WF = true) (hS : ∀ a ∈ S, ∀ b ∈ nk m a, b ∈ S)
    (hG : InvG m S start c0 V T D C cyc) (h : InvS m S V T D (f :: rest)) (hc : f.children = child :: cs)
    (hv : child ∉ V)
    (hnew : (newF = [] ∧ (f.depth ≤ 1 ∨ wantOf m child f.parent = [])) ∨
            (1 < f.depth ∧ ∃ ch, (wantOf m child f.parent).Perm ch ∧
               newF = [{ parent := child, depth := f.depth - 1, children := ch }])) :
    InvS m S (V ++ [child]) (T ++ [(f.parent, child)]) D (newF ++ { f with children := cs } :: rest) := by
  have hpV : f.parent ∈ V := h.stackVis f (by simp)
  obtain ⟨hfn, hfc⟩ := h.frameCh f (by simp)
  rw [hc] at hfn hfc
  have hcp : child ∈ nk m f.parent := (hfc child (by simp)).1
  have hcS : child ∈ S := hS _ (hG.visSub _ hpV) _ hcp
  have hne : child ≠ f.parent := fun e => hv (e ▸ hpV)
  have hcc : child ∉ cs := (List.nodup_cons.1 hfn).1
  have hparents : ∀ g ∈ rest, g.parent ≠ f.parent := by
    intro g hg e
    have := h.stackNodup
    simp only [List.map_cons, List.nodup_cons] at this
    exact this.1 (e ▸ List.mem_map.2 ⟨g, hg, rfl⟩)
  -- the depth limit is not reached
  have hdepth : 1 < f.depth := by
    have hl : (child :: (f :: rest).map (·.parent)).Nodup := by
      refine List.nodup_cons.2 ⟨?_, h.stackNodup⟩
      intro x
      obtain ⟨g, hg, hge⟩ := List.mem_map.1 x
      exact hv (hge ▸ h.stackVis g hg)
    have hsub : ∀ x ∈ child :: (f :: rest).map (·.parent), x ∈ S := by
      intro x hx
      rcases List.mem_cons.1 hx with rfl | hx
      · exact hcS
      · obtain ⟨g, hg, rfl⟩ := List.mem_map.1 hx
        exact hG.visSub _ (h.stackVis g hg)
    have := nodup_subset_length_le hl hsub
    have hd := h.stackDepth.1
    simp only [List.length_cons, List.length_map] at this
    omega
  have hwn : (wantOf m child f.parent).Nodup := ((wf_nbrs hwf child).1).filter _
  have hwmem : ∀ b, b ∈ wantOf m child f.parent ↔ b ∈ nk m child ∧ b ≠ f.parent := by
    intro b; simp [wantOf]
  have memT : ∀ a b, (a, b) ∈ T ++ [(f.parent, child)] ↔ (a, b) ∈ T ∨ (a = f.parent ∧ b = child) := by
    intro a b; simp
  have hTV : ∀ a b, (a, b) ∈ T → a ∈ V ∧ b ∈ V := fun a b x => ⟨(hG.treeMem a b x).1, (hG.treeMem a b x).2.1⟩
  -- facts about the frames below newF
  have hold : ∀ g ∈ { f with children := cs } :: rest, g.parent ∈ V ∧ g.children.Nodup ∧
      ∀ c ∈ g.children, c ∈ nk m g.parent ∧ (g.parent, c) ∉ T ++ [(f.parent, child)] ∧ (c, g.parent) ∉ T ++ [(f.parent, child)] := by
    intro g hg
    rcases List.mem_cons.1 hg with rfl | hg
    · refine ⟨hpV, (List.nodup_cons.1 hfn).2, fun c hcm => ?_⟩
      obtain ⟨a1, a2, a3⟩ := hfc c (List.mem_cons_of_mem _ hcm)
      refine ⟨a1, ?_, ?_⟩
      · rw [memT]; rintro (x | ⟨_, x⟩)
        · exact a2 x
        · exact hcc (x ▸ hcm)
      · rw [memT]; rintro (x | ⟨_, x⟩)
        · exact a3 x
        · exact hne x.symm
    · obtain ⟨b1, b2⟩ := h.frameCh g (List.mem_cons_of_mem _ hg)
      refine ⟨h.stackVis g (List.mem_cons_of_mem _ hg), b1, fun c hcm => ?_⟩
      obtain ⟨a1, a2, a3⟩ := b2 c hcm
      refine ⟨a1, ?_, ?_⟩
      · rw [memT]; rintro (x | ⟨x, _⟩)
        · exact a2 x
        · exact hparents g hg x
      · rw [memT]; rintro (x | ⟨_, x⟩)
        · exact a3 x
        · exact hv (x ▸ h.stackVis g (List.mem_cons_of_mem _ hg))
  have hnewF : ∀ g ∈ newF, g.parent = child ∧ g.depth = f.depth - 1 ∧ (wantOf m child f.parent).Perm g.children := by
    intro g hg
    rcases hnew with ⟨rfl, _⟩ | ⟨_, ch, hch, rfl⟩
    · simp at hg
    · simp only [List.mem_singleton] at hg; subst hg; exact ⟨rfl, rfl, hch⟩
  have hlen : newF.length ≤ 1 := by
    rcases hnew with ⟨rfl, _⟩ | ⟨_, ch, _, rfl⟩ <;> simp
  exact {
    stackNodup := by
      simp only [List.map_append, List.map_cons]
      refine List.Nodup.append ?_ h.stackNodup ?_
      · rcases hnew with ⟨rfl, _⟩ | ⟨_, ch, _, rfl⟩ <;> simp
      · intro x hx hx'
        obtain ⟨g, hg, rfl⟩ := List.mem_map.1 hx
        rw [(hnewF g hg).1] at hx'
        obtain ⟨g', hg', hge⟩ := List.mem_map.1 (show child ∈ (f :: rest).map (·.parent) from hx')
        exact hv (hge ▸ h.stackVis g' hg')
    stackVis := fun g hg => by
      rcases List.mem_append.1 hg with hg | hg
      · rw [(hnewF g hg).1]; simp
      · exact List.mem_append_left _ (hold g hg).1
    stackDepth := by
      rcases hnew with ⟨rfl, _⟩ | ⟨_, ch, _, rfl⟩
      · exact ⟨h.stackDepth.1, h.stackDepth.2⟩
      · refine ⟨?_, h.stackDepth.1, h.stackDepth.2⟩
        have := h.stackDepth.1
        show f.depth - 1 + (rest.length + 1) = S.length
        omega
    frameCh := fun g hg => by
      rcases List.mem_append.1 hg with hg | hg
      · obtain ⟨e1, _, e3⟩ := hnewF g hg
        refine ⟨e3.nodup_iff.1 hwn, fun c hcm => ?_⟩
        have hcw := (hwmem c).1 (e3.mem_iff.2 hcm)
        rw [e1]
        refine ⟨hcw.1, ?_, ?_⟩
        · rw [memT]; rintro (x | ⟨x, _⟩)
          · exact hv (hTV _ _ x).1
          · exact hne x
        · rw [memT]; rintro (x | ⟨x, _⟩)
          · exact hv (hTV _ _ x).2
          · exact hcw.2 x
      · exact ⟨(hold g hg).2.1, (hold g hg).2.2⟩
    cover := fun a ha b hb => by
      rcases List.mem_append.1 ha with ha | ha
      · rcases h.cover a ha b hb with (h1 | h1 | h1) | ⟨g, hg, hga, hgb⟩
        · exact Or.inl (Or.inl (List.mem_append_left _ h1))
        · exact Or.inl (Or.inr (Or.inl (List.mem_append_left _ h1)))
        · exact Or.inl (Or.inr (Or.inr h1))
        · rcases List.mem_cons.1 hg with rfl | hg
          · rw [hc] at hgb
            rcases List.mem_cons.1 hgb with rfl | hgb
            · subst hga; exact Or.inl (Or.inl (by simp))
            · exact Or.inr ⟨{ g with children := cs }, by simp, hga, hgb⟩
          · exact Or.inr ⟨g, List.mem_append_right _ (List.mem_cons_of_mem _ hg), hga, hgb⟩
      · simp only [List.mem_singleton] at ha
        subst ha
        by_cases hbp : b = f.parent
        · subst hbp; exact Or.inl (Or.inr (Or.inl (by simp)))
        · have hbw : b ∈ wantOf m a f.parent := (hwmem b).2 ⟨hb, hbp⟩
          rcases hnew with ⟨_, hx | hx⟩ | ⟨_, ch, hch, rfl⟩
          · omega
          · rw [hx] at hbw; simp at hbw
          · exact Or.inr ⟨{ parent := a, depth := f.depth - 1, children := ch }, by simp, rfl, hch.mem_iff.1 hbw⟩ }

end ChythonModel.Proofs.C02
