import ChythonModel.Proofs.C11V3000
import ChythonModel.Spec.CtfileData
/-!
# C11 — V3000 continuation lines: the reader's joining loop inverts the specification's line splitting
-/
namespace ChythonModel.Proofs.C11
open ChythonModel.Model.C11 ChythonModel.Spec.CtfileData

theorem lstrip_append_of_blank (p c : Str) (h : lstrip p = []) : lstrip (p ++ c) = lstrip c := by
  unfold lstrip at h ⊢
  rw [List.dropWhile_append, h]; rfl

theorem lstrip_append_of_ne (p c : Str) (h : lstrip p ≠ []) : lstrip (p ++ c) = lstrip p ++ c := by
  unfold lstrip at h ⊢
  rw [List.dropWhile_append]
  cases hd : List.dropWhile isSpace p with
  | nil => exact absurd hd h
  | cons _ _ => rfl

theorem rstrip_snoc_nl (c : Str) : rstrip (c ++ ['\n']) = rstrip c := by
  unfold rstrip
  have : isSpace '\n' = true := by decide
  simp [List.reverse_append, this]

theorem rstrip_append_of_ne (a c : Str) (h : rstrip c ≠ []) : rstrip (a ++ c) = a ++ rstrip c := by
  unfold rstrip at h ⊢
  rw [List.reverse_append, List.dropWhile_append]
  cases hd : List.dropWhile isSpace c.reverse with
  | nil => rw [hd] at h; exact absurd rfl h
  | cons x xs => simp

theorem rstrip_ne_of_last {c : Str} {x : Char} (h : c.getLast? = some x) (hx : isSpace x = false) : rstrip c ≠ [] := by
  unfold rstrip
  have hr : c.reverse.head? = some x := by rw [List.head?_reverse]; exact h
  cases hc : c.reverse with
  | nil => rw [hc] at hr; cases hr
  | cons y ys =>
    rw [hc] at hr
    simp only [List.head?_cons, Option.some.injEq] at hr
    subst hr
    simp [hx]

theorem endsWith_dash (k : Str) : endsWith (v30 ++ k ++ sL "-\n") ['-', '\n'] = true := by
  unfold endsWith
  simp [sL, List.reverse_append, List.isPrefixOf]

theorem pySlice_dash (k : Str) : pySlice (v30 ++ k ++ sL "-\n") 7 (-2) = k := by
  have hl : (v30 ++ k ++ sL "-\n").length = k.length + 9 := by simp [v30, sL]
  have e0 : ¬ ((7 : Int) < 0) := by decide
  have e1 : ¬ ((7 : Int) > ((k.length + 9 : Nat) : Int)) := by omega
  have e2 : ¬ ((-2 : Int) + ((k.length + 9 : Nat) : Int) < 0) := by omega
  have e3 : (-2 : Int) < 0 := by decide
  have h2 : ((-2 : Int) + ((k.length + 9 : Nat) : Int)).toNat = k.length + 7 := by omega
  have h1 : (7 : Int).toNat = 7 := rfl
  simp only [pySlice, hl, e0, e1, e2, e3, if_true, if_false, h1, h2, slice]
  have : v30 ++ k ++ sL "-\n" = v30 ++ (k ++ sL "-\n") := by simp
  rw [this, List.drop_append_of_le_length (by simp [v30, sL])]
  simp [v30, sL]

theorem not_endsWith_dash (c : Str) (x : Char) (h : c.getLast? = some x) (hx : x ≠ '-') :
    endsWith (v30 ++ c ++ sL "\n") ['-', '\n'] = false := by
  unfold endsWith
  have hr : c.reverse.head? = some x := by rw [List.head?_reverse]; exact h
  cases hc : c.reverse with
  | nil => rw [hc] at hr; cases hr
  | cons y ys =>
    rw [hc] at hr
    simp only [List.head?_cons, Option.some.injEq] at hr
    subst hr
    simp [sL, List.reverse_append, hc, List.isPrefixOf, Ne.symm hx]

/-- the joining loop over continued chunks: `keep` is the left-stripped text so far -/
theorem joinLines_chunks (c : Str) (x : Char) (rest : List Str) (hlast : c.getLast? = some x)
    (hsp : isSpace x = false) (hdash : x ≠ '-') :
    ∀ (cs : List Str) (pre : Str),
      joinLines (physLines cs c ++ rest) (lstrip pre) = strip (pre ++ cs.flatten ++ c) :: joinLines rest [] := by
  intro cs
  induction cs with
  | nil =>
    intro pre
    have hd : (v30 ++ c ++ sL "\n").drop 7 = c ++ ['\n'] := by simp [v30, sL]
    simp only [physLines, List.map_nil, List.nil_append, List.cons_append, joinLines,
      not_endsWith_dash c x hlast hdash, Bool.false_eq_true, if_false, hd, List.flatten_nil, List.append_nil]
    by_cases hk : lstrip pre = []
    · simp only [hk, List.isEmpty_nil, Bool.not_true, Bool.false_eq_true, if_false]
      rw [strip_snoc_newline]
      unfold strip
      rw [lstrip_append_of_blank pre c hk]
    · have hke : (lstrip pre).isEmpty = false := by
        cases h : lstrip pre with
        | nil => exact absurd h hk
        | cons _ _ => rfl
      simp only [hke, Bool.not_false, if_true, rstrip_snoc_nl]
      unfold strip
      rw [lstrip_append_of_ne pre c hk, rstrip_append_of_ne _ c (rstrip_ne_of_last hlast hsp)]
  | cons k ks ih =>
    intro pre
    simp only [physLines, List.map_cons, List.cons_append, joinLines, endsWith_dash, if_true, pySlice_dash]
    have hkeep : (if !(lstrip pre).isEmpty then lstrip pre ++ k else lstrip k) = lstrip (pre ++ k) := by
      by_cases hk : lstrip pre = []
      · simp [hk, lstrip_append_of_blank pre k hk]
      · have hke : (lstrip pre).isEmpty = false := by
          cases h : lstrip pre with
          | nil => exact absurd h hk
          | cons _ _ => rfl
        simp [hke, lstrip_append_of_ne pre k hk]
    rw [hkeep]
    have := ih (pre ++ k)
    simp only [physLines] at this
    rw [this]
    simp [List.append_assoc]

theorem chunks_flatten (w : Nat) : ∀ (fuel : Nat) (s : Str), (chunks w fuel s).flatten = s := by
  intro fuel
  induction fuel with
  | zero => intro s; simp [chunks]
  | succ n ih =>
    intro s
    unfold chunks
    split
    · simp
    · simp [ih, List.take_append_drop]

theorem chunks_ne (w : Nat) : ∀ (fuel : Nat) (s : Str), chunks w fuel s ≠ [] := by
  intro fuel s
  cases fuel <;> unfold chunks
  · simp
  · split <;> simp

/-- the last chunk of a non-empty text ends with the last character of the text -/
theorem chunks_last (w : Nat) : ∀ (fuel : Nat) (s : Str) (x : Char), s.getLast? = some x →
    ∃ c, (chunks w fuel s).getLast? = some c ∧ c.getLast? = some x := by
  intro fuel
  induction fuel with
  | zero => intro s x h; exact ⟨s, by simp [chunks], h⟩
  | succ n ih =>
    intro s x h
    unfold chunks
    split
    · exact ⟨s, by simp, h⟩
    · rename_i hlen
      have hd : (s.drop w).getLast? = some x := by
        have hne : s.drop w ≠ [] := by
          intro he
          have := List.drop_eq_nil_iff.mp he
          omega
        rw [List.getLast?_drop]
        have : ¬ s.length ≤ w := hlen
        simp [this, h]
      obtain ⟨c, hc1, hc2⟩ := ih (s.drop w) x hd
      refine ⟨c, ?_, hc2⟩
      rw [List.getLast?_cons, hc1]
      rfl

/-- every chunk has at most `w` characters when `w ≥ 1` and the fuel is the length of the text -/
theorem chunks_width (w : Nat) (hw : 1 ≤ w) : ∀ (fuel : Nat) (s : Str), s.length ≤ fuel →
    ∀ c ∈ chunks w fuel s, c.length ≤ w := by
  intro fuel
  induction fuel with
  | zero =>
    intro s hs c hc
    simp only [chunks, List.mem_singleton] at hc
    subst hc; omega
  | succ n ih =>
    intro s hs c hc
    unfold chunks at hc
    split at hc
    · simp only [List.mem_singleton] at hc
      subst hc; assumption
    · simp only [List.mem_cons] at hc
      rcases hc with h | h
      · subst h; simp [List.length_take]; omega
      · exact ih (s.drop w) (by simp [List.length_drop]; omega) c h

/-- **join ∘ split = strip**: for every width and every text whose last character is neither white space nor a dash, the
    joining loop of `parse_mol_v3000` turns the physical lines of the specification back into the logical line -/
theorem joinLines_splitV30 (w : Nat) (body : Str) (x : Char) (rest : List Str) (hlast : body.getLast? = some x)
    (hsp : isSpace x = false) (hdash : x ≠ '-') :
    joinLines (splitV30 w body ++ rest) [] = strip body :: joinLines rest [] := by
  unfold splitV30
  obtain ⟨c, hc1, hc2⟩ := chunks_last w body.length body x hlast
  have hsplit : chunks w body.length body = (chunks w body.length body).dropLast ++ [c] := by
    have hne := chunks_ne w body.length body
    have h1 := List.dropLast_concat_getLast hne
    have h2 : (chunks w body.length body).getLast hne = c := by
      have := List.getLast?_eq_some_getLast hne
      rw [hc1] at this
      exact (Option.some.inj this).symm
    rw [h2] at h1
    exact h1.symm
  simp only [hc1, Option.getD_some]
  have h0 : lstrip ([] : Str) = [] := rfl
  have := joinLines_chunks c x rest hc2 hsp hdash (chunks w body.length body).dropLast []
  rw [h0] at this
  rw [this]
  congr 2
  have hf := chunks_flatten w body.length body
  rw [hsplit, List.flatten_append] at hf
  simpa using hf

/-- every physical line has at most `w + 9` characters (prefix 7, at most `w` of the text, dash, line end) -/
theorem splitV30_width (w : Nat) (hw : 1 ≤ w) (body : Str) : ∀ l ∈ splitV30 w body, l.length ≤ w + 9 := by
  intro l hl
  unfold splitV30 physLines at hl
  have hcw := chunks_width w hw body.length body (Nat.le_refl _)
  simp only [List.mem_append, List.mem_map, List.mem_singleton] at hl
  rcases hl with ⟨k, hk, rfl⟩ | rfl
  · have := hcw k (List.dropLast_subset _ hk)
    simp [v30, sL]; omega
  · have hne := chunks_ne w body.length body
    have hlast : (chunks w body.length body).getLast? = some ((chunks w body.length body).getLast hne) :=
      List.getLast?_eq_some_getLast hne
    rw [hlast]
    have := hcw _ (List.getLast_mem hne)
    simp [v30, sL]; omega

/-- the physical lines carry exactly the text: dropping prefix, dash and line end and concatenating gives `body` -/
theorem splitV30_text (w : Nat) (body : Str) :
    ((chunks w body.length body).dropLast ++ [(chunks w body.length body).getLast?.getD []]).flatten = body := by
  have hne := chunks_ne w body.length body
  rw [List.getLast?_eq_some_getLast hne]
  simp only [Option.getD_some]
  rw [List.dropLast_concat_getLast hne]
  exact chunks_flatten w body.length body

end ChythonModel.Proofs.C11
