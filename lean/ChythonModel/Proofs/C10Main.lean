import ChythonModel.Proofs.C10Ct
/-!
# C10: decode ∘ encode on well-formed molecules (assembly of the block lemmas)
-/
namespace ChythonModel.Proofs.C10
open ChythonModel.Model.Pack

/-- the format limits (decidable facts about `_atoms`, `_bonds`, `_stereo_cis_trans_terminals`) -/
structure WF (m : PMol) : Prop where
  nonempty : m.atoms ≠ []
  count : m.atoms.length ≤ 4095
  atomsOK : ∀ a ∈ m.atoms, AtomOK a
  graph : GraphOK m.atoms
  ctLimit : ctCount m.atoms ≤ 4095
  terminals : ∀ p ∈ firstSeen [] m.atoms, p.2.stereo.isSome →
    ∃ tn tm, m.terminals.lookup p.1 = some (tn, tm) ∧ tn < 4096 ∧ tm < 4096

theorem WF.nbrRange {m : PMol} (h : WF m) : ∀ a ∈ m.atoms, ∀ nb ∈ a.nbrs, nb.m < 4096 := by
  intro a ha nb hnb
  obtain ⟨b, hb, hbn, _⟩ := h.graph.sym a ha nb hnb
  rw [← hbn]; exact (h.atomsOK b hb).num

theorem WF.handshake {m : PMol} (h : WF m) :
    2 * (firstSeen [] m.atoms).length = (m.atoms.map (·.nbrs.length)).sum :=
  Proofs.C10.handshake h.graph

theorem flatNbrs_eq (atoms : List PAtom) (h : ∀ a ∈ atoms, ∀ nb ∈ a.nbrs, nb.m < 4096) :
    flatNbrs atoms = flatM atoms := by
  induction atoms with
  | nil => rfl
  | cons a rest ih =>
    simp only [flatNbrs, flatM, List.flatMap_cons] at ih ⊢
    rw [ih (fun x hx => h x (by simp [hx]))]
    congr 1
    apply List.map_congr_left
    intro nb hnb
    exact u16_id (Nat.lt_trans (h a (by simp) nb hnb) (by decide))

theorem flatM_length (atoms : List PAtom) : (flatM atoms).length = (atoms.map (·.nbrs.length)).sum := by
  induction atoms with
  | nil => rfl
  | cons a rest ih => simp [flatM] at ih ⊢

theorem sum_map_le {α : Type} (l : List α) (f : α → Nat) (k : Nat) (h : ∀ a ∈ l, f a ≤ k) :
    (l.map f).sum ≤ k * l.length := by
  induction l with
  | nil => simp
  | cons a rest ih =>
    have := h a (by simp)
    have := ih (fun x hx => h x (by simp [hx]))
    simp only [List.map_cons, List.sum_cons, List.length_cons, Nat.mul_add]; omega

theorem flatM_lt (atoms : List PAtom) (h : ∀ a ∈ atoms, ∀ nb ∈ a.nbrs, nb.m < 4096) : ∀ x ∈ flatM atoms, x < 4096 := by
  intro x hx
  simp only [flatM, List.mem_flatMap, List.mem_map] at hx
  obtain ⟨a, ha, nb, hnb, rfl⟩ := hx
  exact h a ha nb hnb

theorem all_zero_of_sum_zero : ∀ (l : List Nat), l.sum = 0 → ∀ x ∈ l, x = 0
  | [], _, x, hx => by simp at hx
  | y :: l, h, x, hx => by
    simp only [List.sum_cons] at h
    rcases List.mem_cons.mp hx with rfl | hx'
    · omega
    · exact all_zero_of_sum_zero l (by omega) x hx'

theorem firstSeen_mem : ∀ (seen : List Nat) (atoms : List PAtom) (p : Nat × PNbr), p ∈ firstSeen seen atoms →
    ∃ a ∈ atoms, p.2 ∈ a.nbrs
  | _, [], p, hp => by simp [firstSeen] at hp
  | seen, a :: rest, p, hp => by
    simp only [firstSeen, List.mem_append, List.mem_map, List.mem_filter] at hp
    rcases hp with ⟨nb, ⟨hnb, _⟩, rfl⟩ | hp
    · exact ⟨a, by simp, hnb⟩
    · obtain ⟨b, hb, h⟩ := firstSeen_mem (a.num :: seen) rest p hp
      exact ⟨b, by simp [hb], h⟩

theorem checkLimits_ok {m : PMol} (h : WF m) : checkLimits m.atoms = .ok () := by
  have h1 : m.atoms.isEmpty = false := by
    cases hm : m.atoms with
    | nil => exact absurd hm h.nonempty
    | cons _ _ => rfl
  have h2 : m.atoms.any (fun a => decide (a.num > 4095)) = false := by
    rw [List.any_eq_false]; intro a ha; have := (h.atomsOK a ha).num; simp; omega
  have h3 : m.atoms.any (fun a => decide (a.nbrs.length > 15)) = false := by
    rw [List.any_eq_false]; intro a ha; have := (h.atomsOK a ha).deg; simp; omega
  simp [checkLimits, h1, h2, h3]


theorem decode_encode_aux (m : PMol) (h : WF m) (rest : List Nat) :
    ∃ bytes, encode m = .ok bytes ∧ bytes.length = packSize m.atoms ∧
      decode (bytes ++ rest) =
        .ok ⟨m.atoms.map eraseSt, ctListOf m.terminals (firstSeen [] m.atoms), bytes.length⟩ := by
  obtain ⟨ct, hct, hctlen, hctdec⟩ := ct_roundtrip m.terminals (firstSeen [] m.atoms) h.terminals
  obtain ⟨ab, hab, hablen, habdec⟩ := decodeAtoms_atomBlock m.atoms
    (pairEnc true 0 (flatM m.atoms) ++ (orderEnc 0 0 (orderCodes m.atoms) ++ (ct ++ rest))) h.atomsOK
  -- names
  obtain ⟨F, hF⟩ : ∃ F, (firstSeen [] m.atoms).length = F := ⟨_, rfl⟩
  have hT : (m.atoms.map (·.nbrs.length)).sum = 2 * F := by rw [← hF]; exact h.handshake.symm
  have hTle : 2 * F ≤ 15 * m.atoms.length := by
    rw [← hT]; exact sum_map_le _ _ 15 (fun a ha => by have := (h.atomsOK a ha).deg; omega)
  have hcount := h.count
  have hu1 : u16 (2 * F) = 2 * F := u16_id (by omega)
  have hu2 : u16 m.atoms.length = m.atoms.length := u16_id (by omega)
  have hu3 : u16 (ctCount m.atoms) = ctCount m.atoms := u16_id (by have := h.ctLimit; omega)
  have hF2 : 2 * F / 2 = F := by omega
  have hoc : (if (F * 3 % 8 != 0) = true then F * 3 / 8 + 1 else F * 3 / 8) = (3 * F + 7) / 8 := by
    split
    · rename_i hz; simp only [bne_iff_ne, ne_eq] at hz; omega
    · rename_i hz; simp only [bne_iff_ne, ne_eq, Decidable.not_not] at hz; omega
  have hflat := flatNbrs_eq m.atoms h.nbrRange
  have hflen : (flatM m.atoms).length = 2 * F := by rw [flatM_length, hT]
  have hpairs_len : (pairEnc true 0 (flatM m.atoms)).length = 3 * F := by
    rw [pairEnc_length _ _ (by omega), hflen]; omega
  have hpairs_dec : pairDec (pairEnc true 0 (flatM m.atoms)) = flatM m.atoms :=
    pairDec_pairEnc _ _ (flatM_lt _ h.nbrRange) (by omega)
  have hcodes_len : (orderCodes m.atoms).length = F := by simp [orderCodes, hF]
  have hords_len : (orderEnc 0 0 (orderCodes m.atoms)).length = (3 * F + 7) / 8 := by
    rw [orderEnc_length, hcodes_len]
  have hcc : ctCount m.atoms = (stereoBonds (firstSeen [] m.atoms)).length := rfl
  have henc : encode m = .ok (header m.atoms ++ ab ++ pairEnc true 0 (flatM m.atoms) ++
      orderEnc 0 0 (orderCodes m.atoms) ++ ct) := by
    simp only [encode, checkLimits_ok h, encodeRaw, hab, hct, hflat]; rfl
  refine ⟨_, henc, ?_, ?_⟩
  · simp only [List.length_append, hablen, hpairs_len, hords_len, hctlen, header, List.length_cons, List.length_nil]
    simp only [packSize, packOffsets, bondsCount, hT, ← hcc, hu1, hu2, hu3, hF2, hoc]
    omega
  obtain ⟨p1, p2⟩ := pair12' m.atoms.length (ctCount m.atoms) (by omega) (by have := h.ctLimit; omega)
  have hdata : header m.atoms ++ ab ++ pairEnc true 0 (flatM m.atoms) ++ orderEnc 0 0 (orderCodes m.atoms) ++ ct ++ rest
      = 2 :: u8 (m.atoms.length >>> 4) :: u8 (m.atoms.length <<< 4 ||| ctCount m.atoms >>> 8) :: u8 (ctCount m.atoms) ::
        (ab ++ (pairEnc true 0 (flatM m.atoms) ++ (orderEnc 0 0 (orderCodes m.atoms) ++ (ct ++ rest)))) := by
    simp [header, hu2, hu3]
  rw [hdata]
  simp only [decode, decodeRaw]
  have hv : ((2 : Nat) == 0) = true ∨ ((2 : Nat) == 2) = true := Or.inr rfl
  rw [p1, p2, hu2, hu3, habdec, if_pos hv]
  show (do
    let __x ← (Except.ok (List.map stripNbrs m.atoms,
              pairEnc true 0 (flatM m.atoms) ++ (orderEnc 0 0 (orderCodes m.atoms) ++ (ct ++ rest))) : Except PErr _)
    _) = _
  simp only [Bind.bind, Except.bind]
  have hsum : (List.map (fun x : PAtom × Nat => x.snd) (List.map stripNbrs m.atoms)).sum = 2 * F := by
    rw [List.map_map, ← hT]; rfl
  have hocof : orderCountOf 2 F = (3 * F + 7) / 8 := by
    simp only [orderCountOf]
    have h22 : ((2 : Nat) == 2) = true := rfl
    rw [if_pos h22, ← hoc]
  rw [hsum, hu1, hF2, hocof]
  -- the data as prefix ++ order bytes ++ (cis/trans ++ rest)
  have hsplit : (2 :: u8 (m.atoms.length >>> 4) :: u8 (m.atoms.length <<< 4 ||| ctCount m.atoms >>> 8) ::
        u8 (ctCount m.atoms) :: (ab ++ (pairEnc true 0 (flatM m.atoms) ++ (orderEnc 0 0 (orderCodes m.atoms) ++ (ct ++ rest)))))
      = ([2, u8 (m.atoms.length >>> 4), u8 (m.atoms.length <<< 4 ||| ctCount m.atoms >>> 8), u8 (ctCount m.atoms)] ++ ab ++
          pairEnc true 0 (flatM m.atoms)) ++ orderEnc 0 0 (orderCodes m.atoms) ++ (ct ++ rest) := by simp
  have hprelen : ([2, u8 (m.atoms.length >>> 4), u8 (m.atoms.length <<< 4 ||| ctCount m.atoms >>> 8), u8 (ctCount m.atoms)] ++ ab ++
          pairEnc true 0 (flatM m.atoms)).length = 4 + 9 * m.atoms.length + 3 * F := by
    simp [hablen, hpairs_len]; omega
  have hdrop : List.drop ((3 * F + 7) / 8 + (4 + 9 * m.atoms.length + 3 * F))
      (2 :: u8 (m.atoms.length >>> 4) :: u8 (m.atoms.length <<< 4 ||| ctCount m.atoms >>> 8) ::
        u8 (ctCount m.atoms) :: (ab ++ (pairEnc true 0 (flatM m.atoms) ++ (orderEnc 0 0 (orderCodes m.atoms) ++ (ct ++ rest)))))
      = ct ++ rest := by
    rw [hsplit]
    exact List.drop_left' (by rw [List.length_append, hprelen, hords_len]; omega)
  have hread : readRange (2 :: u8 (m.atoms.length >>> 4) :: u8 (m.atoms.length <<< 4 ||| ctCount m.atoms >>> 8) ::
        u8 (ctCount m.atoms) :: (ab ++ (pairEnc true 0 (flatM m.atoms) ++ (orderEnc 0 0 (orderCodes m.atoms) ++ (ct ++ rest)))))
      (4 + 9 * m.atoms.length + 3 * F) ((3 * F + 7) / 8) = .ok (orderEnc 0 0 (orderCodes m.atoms)) := by
    rw [hsplit, ← hprelen, ← hords_len]
    exact readRange_mid _ _ _
  have hcodes : ∀ c ∈ orderCodes m.atoms, c < 8 := by
    intro c hc
    simp only [orderCodes, List.mem_map] at hc
    obtain ⟨p, hp, rfl⟩ := hc
    obtain ⟨a, ha, hnb⟩ := firstSeen_mem [] m.atoms p hp
    exact (code_roundtrip (h.graph.order a ha p.2 hnb)).1
  obtain ⟨pad, hpad⟩ := orderDec_orderEnc (orderCodes m.atoms) 0 0 hcodes
  have hreb := rebuild_spec h.graph m.atoms [] pad rfl
  have hbonds : decodeBonds (2 :: u8 (m.atoms.length >>> 4) :: u8 (m.atoms.length <<< 4 ||| ctCount m.atoms >>> 8) ::
        u8 (ctCount m.atoms) :: (ab ++ (pairEnc true 0 (flatM m.atoms) ++ (orderEnc 0 0 (orderCodes m.atoms) ++ (ct ++ rest)))))
      2 F (4 + 9 * m.atoms.length + 3 * F) ((3 * F + 7) / 8) (List.map stripNbrs m.atoms)
      (pairEnc true 0 (flatM m.atoms) ++ (orderEnc 0 0 (orderCodes m.atoms) ++ (ct ++ rest))) = .ok (m.atoms.map eraseSt) := by
    have hl : ¬ ((pairEnc true 0 (flatM m.atoms) ++ (orderEnc 0 0 (orderCodes m.atoms) ++ (ct ++ rest))).length < 3 * F) := by
      rw [List.length_append, hpairs_len]; omega
    have htake : (pairEnc true 0 (flatM m.atoms) ++ (orderEnc 0 0 (orderCodes m.atoms) ++ (ct ++ rest))).take (3 * F)
        = pairEnc true 0 (flatM m.atoms) := List.take_left' hpairs_len
    have h22 : ((2 : Nat) == 2) = true := rfl
    simp only [decodeBonds, readOrderBytes, if_neg hl, hread, htake, hpairs_dec, if_pos h22]
    show rebuild [] [] (List.map stripNbrs m.atoms) (flatM m.atoms) (orderDec 0 0 (orderEnc 0 0 (orderCodes m.atoms))) = _
    rw [hpad]
    exact hreb
  rw [hbonds, hdrop, hcc, hctdec rest]
  have hbl : (header m.atoms ++ ab ++ pairEnc true 0 (flatM m.atoms) ++ orderEnc 0 0 (orderCodes m.atoms) ++ ct).length
      = (3 * F + 7) / 8 + (4 + 9 * m.atoms.length + 3 * F) + 4 * (stereoBonds (firstSeen [] m.atoms)).length := by
    simp only [List.length_append, hablen, hpairs_len, hords_len, hctlen, header, List.length_cons, List.length_nil]
    omega
  rw [hbl]
  by_cases hz : F = 0
  · have hne : (F != 0) = false := by simp [hz]
    rw [hne]
    have hempty : ∀ a ∈ m.atoms, a.nbrs = [] := by
      intro a ha
      have := all_zero_of_sum_zero _ (by rw [hT, hz]) a.nbrs.length (List.mem_map_of_mem (f := fun x : PAtom => x.nbrs.length) ha)
      exact List.eq_nil_of_length_eq_zero this
    have : List.map (fun x : PAtom × Nat => x.fst) (List.map stripNbrs m.atoms) = m.atoms.map eraseSt := by
      rw [List.map_map]
      apply List.map_congr_left
      intro a ha
      simp [stripNbrs, eraseSt, hempty a ha]
    rw [this]; rfl
  · have hne : (F != 0) = true := by simp [hz]
    rw [hne]; rfl

end ChythonModel.Proofs.C10
