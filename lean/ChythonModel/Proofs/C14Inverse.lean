import ChythonModel.Proofs.C14Implicify
/-!
# C14 — `implicify_hydrogens ∘ explicify_hydrogens = id` at molecule level

Closed form of the adjacency after `explicify`, what `implicify` collects, scans, removes and restores on it.
-/
namespace ChythonModel.Proofs.C14
open ChythonModel.Model ChythonModel.Model.Std ChythonModel.Gen.Rules

def bond1 : Bond := { order := 1 }

/-- the entries `explicify` appends to the neighbour dict of old atom `x`: one per occurrence of `x` in `to_add` -/
def attach : List Nat → Nat → Nat → List (Nat × Bond)
  | [], _, _ => []
  | n :: rest, k, x => (if x == n then [(k, bond1)] else []) ++ attach rest (k + 1) x

/-- the neighbour dicts of the new hydrogens -/
def rowsOf : List Nat → Nat → List (Nat × List (Nat × Bond))
  | [], _ => []
  | n :: rest, k => (k, [(n, bond1)]) :: rowsOf rest (k + 1)

theorem attach_nil_of_not_mem : ∀ (l : List Nat) (k x : Nat), x ∉ l → attach l k x = [] := by
  intro l
  induction l with
  | nil => intro k x _; rfl
  | cons n rest ih =>
    intro k x h
    simp only [List.mem_cons, not_or] at h
    have : (x == n) = false := beq_false_of_ne h.1
    simp [attach, this, ih (k + 1) x h.2]

/-- **closed form** of the adjacency after the `for n in to_add` loop -/
theorem addHLoop_adj : ∀ (l : List Nat) (k : Nat) (m : Mol), (∀ n ∈ l, n < k) → (∀ x ∈ m.adj.map (·.1), x < k) →
    (addHLoop l k m).adj = m.adj.map (fun xr => (xr.1, xr.2 ++ attach l k xr.1)) ++ rowsOf l k := by
  intro l
  induction l with
  | nil =>
    intro k m _ _
    simp only [addHLoop, attach, rowsOf, List.append_nil]
    rw [List.map_congr_left (g := id)]; simp
    intro xr _; rfl
  | cons n rest ih =>
    intro k m hk hadj
    have hrest : ∀ x ∈ rest, x < k + 1 := fun x hx => Nat.lt_succ_of_lt (hk x (List.mem_cons_of_mem _ hx))
    rw [addHLoop]
    simp only
    rw [ih (k + 1) _ hrest]
    · simp only [zeroH, updAtom, List.map_append, List.map_map, List.map_cons, List.map_nil, rowsOf, attach]
      rw [List.append_assoc]
      congr 1
      · apply List.map_congr_left
        intro xr _
        simp only [Function.comp]
        split <;> simp [List.append_assoc, bond1]
      · -- the fresh row `(k, [(n, 1)])` gets nothing attached later
        have : attach rest (k + 1) k = [] := by
          apply attach_nil_of_not_mem
          intro hc; have := hk k (List.mem_cons_of_mem _ hc); omega
        simp [this, bond1]
    · intro x hx
      simp only [zeroH, updAtom, List.map_append, List.map_map, List.map_cons, List.map_nil, List.mem_append,
        List.mem_map, List.mem_singleton] at hx
      rcases hx with ⟨xr, hxr, rfl⟩ | rfl
      · have := hadj xr.1 (List.mem_map.mpr ⟨xr, hxr, rfl⟩)
        simp only [Function.comp]
        split <;> (simp only; omega)
      · omega

/-! ## lookups in the explicified molecule -/

theorem lookup_map_key {β γ : Type} (f : Nat × β → Nat × γ) (hf : ∀ p, (f p).1 = p.1) :
    ∀ (l : List (Nat × β)) (x : Nat), (l.map f).lookup x = (l.lookup x).map fun b => (f (x, b)).2 := by
  intro l
  induction l with
  | nil => intro x; rfl
  | cons p tl ih =>
    intro x
    obtain ⟨k, b⟩ := p
    have hk : (f (k, b)).1 = k := hf (k, b)
    have : f (k, b) = (k, (f (k, b)).2) := Prod.ext hk rfl
    rw [List.map_cons, this, List.lookup_cons, List.lookup_cons]
    by_cases hx : (x == k) = true
    · have : x = k := by simpa using hx
      subst this
      simp
    · have hx' : (x == k) = false := by simpa using hx
      simp only [hx']
      exact ih x

theorem lookup_none_of_forall_ne {β : Type} (l : List (Nat × β)) (x : Nat) (h : ∀ p ∈ l, p.1 ≠ x) : l.lookup x = none := by
  apply List.lookup_eq_none_iff.mpr
  intro p hp
  have := h p hp
  simp only [bne_iff_ne, ne_eq]
  exact fun e => this e.symm

theorem lookup_rowsOf : ∀ (l : List Nat) (k j : Nat) (n : Nat), l[j]? = some n →
    (rowsOf l k).lookup (k + j) = some [(n, bond1)] := by
  intro l
  induction l with
  | nil => intro k j n h; simp at h
  | cons a rest ih =>
    intro k j n h
    cases j with
    | zero =>
      simp only [List.getElem?_cons_zero, Option.some.injEq] at h
      subst h
      simp [rowsOf, List.lookup_cons]
    | succ j =>
      simp only [List.getElem?_cons_succ] at h
      rw [rowsOf, List.lookup_cons]
      have : (k + (j + 1) == k) = false := by apply beq_false_of_ne; omega
      simp only [this]
      have := ih (k + 1) j n h
      rw [show k + 1 + j = k + (j + 1) by omega] at this
      exact this

theorem rowsOf_keys_ge : ∀ (l : List Nat) (k : Nat), ∀ p ∈ rowsOf l k, k ≤ p.1 := by
  intro l
  induction l with
  | nil => intro k p hp; simp [rowsOf] at hp
  | cons a rest ih =>
    intro k p hp
    rw [rowsOf] at hp
    rcases List.mem_cons.mp hp with rfl | hp
    · exact Nat.le_refl _
    · exact Nat.le_of_succ_le (ih (k + 1) p hp)

theorem newHs_keys_ge (k cnt : Nat) : ∀ p ∈ newHs k cnt, k ≤ p.1 := by
  intro p hp
  unfold newHs at hp
  simp only [List.mem_map] at hp
  obtain ⟨i, _, rfl⟩ := hp
  omega

/-- what the proof needs to know about `e = explicify m` -/
structure Shape (m e : Mol) (l : List Nat) (k : Nat) : Prop where
  atoms : e.atoms = m.atoms.map (zeroIn l) ++ newHs k l.length
  adj : e.adj = m.adj.map (fun xr => (xr.1, xr.2 ++ attach l k xr.1)) ++ rowsOf l k
  idsLt : ∀ x ∈ m.ids, x < k
  adjKeys : m.adj.map (·.1) = m.ids
  nodup : m.ids.Nodup

theorem Shape.atom_old {m e : Mol} {l : List Nat} {k : Nat} (S : Shape m e l k) (x : Nat) (a : Atom)
    (h : m.atom? x = some a) : e.atom? x = some (zeroIn l (x, a)).2 := by
  unfold Mol.atom? at h ⊢
  rw [S.atoms, List.lookup_append, lookup_map_key (zeroIn l) (zeroIn_fst l), h]
  rfl

theorem Shape.row_old {m e : Mol} {l : List Nat} {k : Nat} (S : Shape m e l k) (x : Nat) (row : List (Nat × Bond))
    (h : m.adj.lookup x = some row) : e.adj.lookup x = some (row ++ attach l k x) := by
  rw [S.adj, List.lookup_append,
    lookup_map_key (fun xr : Nat × List (Nat × Bond) => (xr.1, xr.2 ++ attach l k xr.1)) (fun _ => rfl), h]
  rfl

theorem Shape.row_new {m e : Mol} {l : List Nat} {k : Nat} (S : Shape m e l k) (j n : Nat) (h : l[j]? = some n) :
    e.adj.lookup (k + j) = some [(n, bond1)] := by
  rw [S.adj, List.lookup_append]
  have : (m.adj.map (fun xr : Nat × List (Nat × Bond) => (xr.1, xr.2 ++ attach l k xr.1))).lookup (k + j) = none := by
    apply lookup_none_of_forall_ne
    intro p hp
    simp only [List.mem_map] at hp
    obtain ⟨xr, hxr, rfl⟩ := hp
    have : xr.1 ∈ m.ids := by rw [← S.adjKeys]; exact List.mem_map.mpr ⟨xr, hxr, rfl⟩
    have := S.idsLt _ this
    simp only; omega
  rw [this, lookup_rowsOf l k j n h]
  rfl

/-! ## what `implicify` collects -/

/-- `explicit` after the first loop: hydrogen `k+j` appended under its parent `l[j]`, in order -/
def exOf : List Nat → Nat → List (Nat × List Nat) → List (Nat × List Nat)
  | [], _, ex => ex
  | n :: rest, k, ex => exOf rest (k + 1) (dlAppend ex n k)

theorem collectExplicit_skip (e : Mol) : ∀ (as bs : List (Nat × Atom)) (ex : List (Nat × List Nat)),
    (∀ p ∈ as, p.2.z ≠ 1) → collectExplicit e (as ++ bs) ex = collectExplicit e bs ex := by
  intro as
  induction as with
  | nil => intro bs ex _; rfl
  | cons p tl ih =>
    intro bs ex h
    obtain ⟨n, a⟩ := p
    have hz : a.z ≠ 1 := h (n, a) (List.mem_cons_self)
    have : isPlainH a = false := by simp [isPlainH, hz]
    rw [List.cons_append, collectExplicit]
    simp only [this, Bool.false_eq_true, if_false]
    exact ih bs ex (fun q hq => h q (List.mem_cons_of_mem _ hq))

theorem isPlainH_hydrogen : isPlainH hydrogen = true := by decide

theorem collectExplicit_new {m e : Mol} {l : List Nat} {k : Nat} (S : Shape m e l k)
    (hmem : ∀ n ∈ l, ∃ a, m.atom? n = some a ∧ a.z ≠ 1) :
    ∀ (rest pre : List Nat) (ex : List (Nat × List Nat)), l = pre ++ rest →
    collectExplicit e (newHs (k + pre.length) rest.length) ex = .ok (exOf rest (k + pre.length) ex) := by
  intro rest
  induction rest with
  | nil => intro pre ex _; simp [newHs, collectExplicit, exOf]
  | cons n rest ih =>
    intro pre ex hl
    rw [List.length_cons, newHs_succ, collectExplicit]
    simp only [isPlainH_hydrogen, if_true]
    have hj : l[pre.length]? = some n := by rw [hl]; simp
    rw [S.row_new pre.length n hj]
    simp only [List.length_singleton, Nat.lt_irrefl, if_false, gt_iff_lt]
    obtain ⟨a, ha, hz⟩ := hmem n (by rw [hl]; simp)
    have hz' : (zeroIn l (n, a)).2.z ≠ 1 := by rw [zeroIn_z]; exact hz
    have hrow : collectRow e (k + pre.length) [(n, bond1)] ex = .ok (dlAppend ex n (k + pre.length)) := by
      rw [collectRow]
      simp only [bond1, beq_self_eq_true, if_true]
      rw [S.atom_old n a ha]
      simp only [hz', ne_eq, not_false_eq_true, if_true, collectRow]
      simp [hz']
    rw [hrow]
    simp only
    have := ih (pre ++ [n]) (dlAppend ex n (k + pre.length)) (by rw [hl]; simp)
    rw [List.length_append, List.length_singleton] at this
    rw [show k + pre.length + 1 = k + (pre.length + 1) by omega, exOf]
    rw [show k + pre.length + 1 = k + (pre.length + 1) by omega]
    exact this

/-! ## `to_add` is grouped by atom: the collected dict is one block per atom with hydrogens -/

/-- `to_add` for `(atom, count)` pairs -/
def flat : List (Nat × Nat) → List Nat
  | [] => []
  | (n, h) :: tl => List.replicate h n ++ flat tl

/-- the dict `explicit` for them: atom ↦ its block of fresh numbers -/
def blocks : List (Nat × Nat) → Nat → List (Nat × List Nat)
  | [], _ => []
  | (n, h) :: tl, k => (if h = 0 then [] else [(n, List.range' k h)]) ++ blocks tl (k + h)

theorem dlAppend_not_mem : ∀ (ex : List (Nat × List Nat)) (n v : Nat), n ∉ ex.map (·.1) →
    dlAppend ex n v = ex ++ [(n, [v])] := by
  intro ex
  induction ex with
  | nil => intro n v _; rfl
  | cons e tl ih =>
    intro n v h
    obtain ⟨k, vs⟩ := e
    simp only [List.map_cons, List.mem_cons, not_or] at h
    have : (k == n) = false := beq_false_of_ne (fun e => h.1 e.symm)
    rw [dlAppend]
    simp only [this, Bool.false_eq_true, if_false, List.cons_append]
    rw [ih n v h.2]

theorem dlAppend_last : ∀ (ex : List (Nat × List Nat)) (n v : Nat) (vs : List Nat), n ∉ ex.map (·.1) →
    dlAppend (ex ++ [(n, vs)]) n v = ex ++ [(n, vs ++ [v])] := by
  intro ex
  induction ex with
  | nil => intro n v vs _; simp [dlAppend]
  | cons e tl ih =>
    intro n v vs h
    obtain ⟨k, ws⟩ := e
    simp only [List.map_cons, List.mem_cons, not_or] at h
    have : (k == n) = false := beq_false_of_ne (fun e => h.1 e.symm)
    rw [List.cons_append, dlAppend]
    simp only [this, Bool.false_eq_true, if_false, List.cons_append]
    rw [ih n v vs h.2]

theorem exOf_replicate_last : ∀ (h : Nat) (n k : Nat) (rest : List Nat) (ex : List (Nat × List Nat)) (vs : List Nat),
    n ∉ ex.map (·.1) →
    exOf (List.replicate h n ++ rest) k (ex ++ [(n, vs)]) = exOf rest (k + h) (ex ++ [(n, vs ++ List.range' k h)]) := by
  intro h
  induction h with
  | zero => intro n k rest ex vs _; simp
  | succ h ih =>
    intro n k rest ex vs hn
    rw [List.replicate_succ, List.cons_append, exOf, dlAppend_last ex n k vs hn, ih n (k + 1) rest ex (vs ++ [k]) hn]
    rw [List.range'_succ, List.append_assoc]
    congr 1
    omega

theorem exOf_flat : ∀ (ps : List (Nat × Nat)) (k : Nat) (ex : List (Nat × List Nat)),
    (ps.map (·.1)).Nodup → (∀ p ∈ ps, p.1 ∉ ex.map (·.1)) →
    exOf (flat ps) k ex = ex ++ blocks ps k := by
  intro ps
  induction ps with
  | nil => intro k ex _ _; simp [flat, blocks, exOf]
  | cons p tl ih =>
    intro k ex hnd hdis
    obtain ⟨n, h⟩ := p
    simp only [List.map_cons, List.nodup_cons] at hnd
    have hn : n ∉ ex.map (·.1) := hdis (n, h) (List.mem_cons_self)
    rw [flat, blocks]
    cases h with
    | zero =>
      simp only [List.replicate_zero, List.nil_append, if_true, Nat.add_zero]
      exact ih k ex hnd.2 (fun q hq => hdis q (List.mem_cons_of_mem _ hq))
    | succ h =>
      rw [List.replicate_succ, List.cons_append, exOf, dlAppend_not_mem ex n k hn,
        exOf_replicate_last h n (k + 1) (flat tl) ex [k] hn]
      have e1 : [k] ++ List.range' (k + 1) h = List.range' k (h + 1) := by rw [List.range'_succ]; rfl
      rw [e1, ih (k + 1 + h) (ex ++ [(n, List.range' k (h + 1))]) hnd.2]
      · rw [show k + 1 + h = k + (h + 1) by omega]
        simp [List.append_assoc]
      · intro q hq
        simp only [List.map_append, List.map_cons, List.map_nil, List.mem_append, List.mem_singleton, not_or]
        refine ⟨hdis q (List.mem_cons_of_mem _ hq), ?_⟩
        intro e
        exact hnd.1 (e ▸ List.mem_map.mpr ⟨q, hq, rfl⟩)

/-- the `(atom, count)` pairs of a molecule -/
def countsOf (atoms : List (Nat × Atom)) : List (Nat × Nat) := atoms.map fun p => (p.1, p.2.implH.getD 0)

theorem toAdd_eq_flat : ∀ (atoms : List (Nat × Atom)) (l : List Nat), toAdd atoms = .ok l → l = flat (countsOf atoms) := by
  intro atoms
  induction atoms with
  | nil => intro l h; simp only [toAdd, Except.ok.injEq] at h; subst h; rfl
  | cons p tl ih =>
    obtain ⟨n, a⟩ := p
    intro l h
    rw [toAdd] at h
    cases hh : a.implH with
    | none => simp [hh] at h
    | some k =>
      simp only [hh] at h
      cases ht : toAdd tl with
      | error e => simp [ht] at h
      | ok tl' =>
        simp only [ht, Except.ok.injEq] at h
        subst h
        simp only [countsOf, List.map_cons, flat, hh, Option.getD_some]
        rw [ih tl' ht]; rfl

theorem mem_flat : ∀ (ps : List (Nat × Nat)) (x : Nat), x ∈ flat ps → x ∈ ps.map (·.1) := by
  intro ps
  induction ps with
  | nil => intro x h; simp [flat] at h
  | cons p tl ih =>
    obtain ⟨n, h⟩ := p
    intro x hx
    rw [flat] at hx
    rcases List.mem_append.mp hx with hx | hx
    · have := (List.mem_replicate.mp hx).2; simp [this]
    · simp only [List.map_cons, List.mem_cons]; exact Or.inr (ih x hx)

theorem attach_replicate : ∀ (h : Nat) (a k x : Nat) (rest : List Nat),
    attach (List.replicate h a ++ rest) k x =
      (if x == a then (List.range' k h).map (·, bond1) else []) ++ attach rest (k + h) x := by
  intro h
  induction h with
  | zero => intro a k x rest; simp
  | succ h ih =>
    intro a k x rest
    rw [List.replicate_succ, List.cons_append, attach, ih a (k + 1) x rest, List.range'_succ]
    by_cases hx : (x == a) = true
    · simp only [hx, if_true, List.map_cons, List.singleton_append, List.cons_append]
      rw [show k + 1 + h = k + (h + 1) by omega]
      simp
    · have hx' : (x == a) = false := by simpa using hx
      simp only [hx', Bool.false_eq_true, if_false, List.nil_append]
      rw [show k + 1 + h = k + (h + 1) by omega]

/-- the entries appended to atom `x`'s neighbour dict are exactly its block -/
theorem attach_flat : ∀ (ps : List (Nat × Nat)) (k x : Nat) (hs : List Nat), (ps.map (·.1)).Nodup →
    (blocks ps k).lookup x = some hs → attach (flat ps) k x = hs.map (·, bond1) := by
  intro ps
  induction ps with
  | nil => intro k x hs _ h; simp [blocks] at h
  | cons p tl ih =>
    obtain ⟨a, h⟩ := p
    intro k x hs hnd hl
    simp only [List.map_cons, List.nodup_cons] at hnd
    rw [flat, attach_replicate]
    rw [blocks, List.lookup_append] at hl
    by_cases hx : (x == a) = true
    · have hxa : x = a := by simpa using hx
      subst hxa
      have hnil : attach (flat tl) (k + h) x = [] :=
        attach_nil_of_not_mem _ _ _ (fun hc => hnd.1 (mem_flat tl x hc))
      simp only [hx, if_true, hnil, List.append_nil]
      cases h with
      | zero =>
        -- the block list has no entry for `x` at all
        simp only [if_true, List.lookup_nil, Option.none_or] at hl
        have : (blocks tl (k + 0)).lookup x = none := by
          apply lookup_none_of_forall_ne
          intro q hq hqx
          have : ∀ (ps : List (Nat × Nat)) (k : Nat), ∀ q ∈ blocks ps k, q.1 ∈ ps.map (·.1) := by
            intro ps
            induction ps with
            | nil => intro k q hq; simp [blocks] at hq
            | cons p tl ih2 =>
              obtain ⟨b, g⟩ := p
              intro k q hq
              rw [blocks] at hq
              rcases List.mem_append.mp hq with hq | hq
              · split at hq
                · simp at hq
                · simp only [List.mem_singleton] at hq; subst hq; simp
              · simp only [List.map_cons, List.mem_cons]; exact Or.inr (ih2 _ q hq)
          exact hnd.1 (hqx ▸ this tl _ q hq)
        rw [this] at hl; simp at hl
      | succ h =>
        simp only [Nat.succ_ne_zero, if_false, List.lookup_cons, beq_self_eq_true, List.lookup_nil] at hl
        simp only [Option.some_or, Option.some.injEq] at hl
        rw [← hl]
    · have hx' : (x == a) = false := by simpa using hx
      simp only [hx', Bool.false_eq_true, if_false, List.nil_append]
      have : (if h = 0 then ([] : List (Nat × List Nat)) else [(a, List.range' k h)]).lookup x = none := by
        split
        · rfl
        · simp [List.lookup_cons, hx']
      rw [this, Option.none_or] at hl
      exact ih (k + h) x hs hnd.2 hl

/-! ## the scan over the blocks -/

theorem any_key_false (fx : List (Nat × Nat)) (n : Nat) (h : n ∉ fx.map (·.1)) : fx.any (fun p => p.1 == n) = false := by
  apply Bool.eq_false_iff.mpr
  intro hc
  obtain ⟨p, hp, he⟩ := List.any_eq_true.mp hc
  have : p.1 = n := by simpa using he
  exact h (this ▸ List.mem_map.mpr ⟨p, hp, rfl⟩)

theorem scanAll_blocks (e : Mol) (hOf : Nat → Nat) : ∀ (bl : List (Nat × List Nat)) (rm : List Nat) (fx : List (Nat × Nat)),
    (∀ b ∈ bl, ∃ a row t, e.atom? b.1 = some a ∧ e.adj.lookup b.1 = some row ∧ Valence.tableOf a.z = some t ∧
        scan t a e row b.2 b.2.length = .remove b.2 (hOf b.1)) →
    (bl.map (·.1)).Nodup → (∀ b ∈ bl, b.1 ∉ fx.map (·.1)) →
    scanAll e bl rm fx = some (bl.foldl (fun r b => setUnion r b.2) rm, fx ++ bl.map fun b => (b.1, hOf b.1)) := by
  intro bl
  induction bl with
  | nil => intro rm fx _ _ _; simp [scanAll]
  | cons b tl ih =>
    intro rm fx hb hnd hdis
    obtain ⟨n, hs⟩ := b
    obtain ⟨a, row, t, h1, h2, h3, h4⟩ := hb (n, hs) (List.mem_cons_self)
    simp only [List.map_cons, List.nodup_cons] at hnd
    have hn : n ∉ fx.map (·.1) := hdis (n, hs) (List.mem_cons_self)
    rw [scanAll]
    simp only at h1 h2 h4
    simp only [h1, h2, h3, bind, Option.bind, h4, any_key_false fx n hn, Bool.false_eq_true, if_false]
    rw [ih (setUnion rm hs) (fx ++ [(n, hOf n)]) (fun q hq => hb q (List.mem_cons_of_mem _ hq)) hnd.2]
    · simp [List.append_assoc]
    · intro q hq
      simp only [List.map_append, List.map_cons, List.map_nil, List.mem_append, List.mem_singleton, not_or]
      refine ⟨hdis q (List.mem_cons_of_mem _ hq), ?_⟩
      intro e'
      exact hnd.1 (e' ▸ List.mem_map.mpr ⟨q, hq, rfl⟩)

theorem setAdd_not_mem (s : List Nat) (x : Nat) (h : x ∉ s) : setAdd s x = s ++ [x] := by
  unfold setAdd
  have : s.contains x = false := by
    apply Bool.eq_false_iff.mpr; intro hc; exact h (List.contains_iff_mem.mp hc)
  rw [this]; rfl

theorem setUnion_disjoint : ∀ (xs s : List Nat), xs.Nodup → (∀ x ∈ xs, x ∉ s) → setUnion s xs = s ++ xs := by
  intro xs
  induction xs with
  | nil => intro s _ _; simp [setUnion]
  | cons x tl ih =>
    intro s hnd hdis
    simp only [List.nodup_cons] at hnd
    unfold setUnion
    simp only [List.foldl_cons]
    rw [setAdd_not_mem s x (hdis x (List.mem_cons_self))]
    have := ih (s ++ [x]) hnd.2 (by
      intro y hy
      simp only [List.mem_append, List.mem_singleton, not_or]
      exact ⟨hdis y (List.mem_cons_of_mem _ hy), fun e => hnd.1 (e ▸ hy)⟩)
    unfold setUnion at this
    rw [this]; simp

/-- the removed set after all blocks: the whole range of fresh numbers, in order -/
theorem fold_blocks : ∀ (ps : List (Nat × Nat)) (k : Nat) (rm : List Nat), (∀ x ∈ rm, x < k) →
    (blocks ps k).foldl (fun r b => setUnion r b.2) rm = rm ++ List.range' k (flat ps).length := by
  intro ps
  induction ps with
  | nil => intro k rm _; simp [blocks, flat]
  | cons p tl ih =>
    obtain ⟨n, h⟩ := p
    intro k rm hrm
    rw [blocks, flat, List.foldl_append]
    have hstep : (if h = 0 then ([] : List (Nat × List Nat)) else [(n, List.range' k h)]).foldl
        (fun r b => setUnion r b.2) rm = rm ++ List.range' k h := by
      split
      · rename_i h0; subst h0; simp
      · simp only [List.foldl_cons, List.foldl_nil]
        apply setUnion_disjoint
        · exact List.nodup_range'
        · intro x hx hc
          have := hrm x hc
          have := (List.mem_range'.mp hx)
          obtain ⟨i, _, rfl⟩ := this
          omega
    rw [hstep, ih (k + h) (rm ++ List.range' k h)]
    · rw [List.length_append, List.length_replicate, List.append_assoc]
      congr 1
      have := @List.range'_append k h (flat tl).length 1
      simpa using this
    · intro x hx
      rcases List.mem_append.mp hx with hx | hx
      · have := hrm x hx; omega
      · obtain ⟨i, hi, rfl⟩ := List.mem_range'.mp hx; omega

/-! ## one block: the scan restores the count -/

theorem mapM_filter_some {α β : Type} (f : α → Option β) (p : α → Bool) (q : β → Bool) :
    ∀ (l : List α) (ys : List β), l.mapM f = some ys → (∀ x ∈ l, ∀ y, f x = some y → q y = p x) →
    (l.filter p).mapM f = some (ys.filter q) := by
  intro l
  induction l with
  | nil => intro ys h _; simp only [List.mapM_nil, Option.pure_def, Option.some.injEq] at h; subst h; rfl
  | cons x tl ih =>
    intro ys h hq
    rw [List.mapM_cons] at h
    cases hx : f x with
    | none => simp [hx] at h
    | some y =>
      cases ht : tl.mapM f with
      | none => simp [hx, ht] at h
      | some ys' =>
        simp only [hx, ht, Option.pure_def, Option.bind_eq_bind, Option.bind_some, Option.some.injEq] at h
        subst h
        have hqy := hq x (List.mem_cons_self) y hx
        have := ih ys' ht (fun z hz => hq z (List.mem_cons_of_mem _ hz))
        rw [List.filter_cons, List.filter_cons, hqy]
        split
        · rw [List.mapM_cons, hx, this]; rfl
        · exact this

theorem mapM_congr_some {α β : Type} (f g : α → Option β) : ∀ (l : List α) (ys : List β), l.mapM f = some ys →
    (∀ x ∈ l, g x = f x) → l.mapM g = some ys := by
  intro l
  induction l with
  | nil => intro ys h _; exact h
  | cons x tl ih =>
    intro ys h hg
    rw [List.mapM_cons] at h ⊢
    rw [hg x (List.mem_cons_self)]
    cases hx : f x with
    | none => simp [hx] at h
    | some y =>
      cases ht : tl.mapM f with
      | none => simp [hx, ht] at h
      | some ys' =>
        rw [ih ys' ht (fun z hz => hg z (List.mem_cons_of_mem _ hz))]
        simpa [hx, ht] using h

/-- special bonds never enter `calc_implicit`: dropping them from the context changes nothing -/
theorem calcWith_drop8 (t : Valence.Rules) (z : Nat) (c : Int) (r : Bool) (bs : List Valence.BE) :
    Valence.calcWith t ⟨z, c, r, bs.filter fun b => b.1 != 8⟩ = Valence.calcWith t ⟨z, c, r, bs⟩ := by
  have hc : Valence.counted (bs.filter fun b => b.1 != 8) = Valence.counted bs := by
    unfold Valence.counted
    rw [List.filter_filter]
    apply List.filter_congr
    intro b _
    cases h8 : (b.1 != 8) <;> simp [h8]
  have ha : Valence.aromaCount (bs.filter fun b => b.1 != 8) = Valence.aromaCount bs := by
    unfold Valence.aromaCount
    rw [List.filter_filter]
    congr 1
    apply List.filter_congr
    intro b _
    by_cases h4 : b.1 = 4
    · simp [h4]
    · have : (b.1 == 4) = false := by simpa using h4
      simp [this]
  unfold Valence.calcWith Valence.explicitSum Valence.explicitDict
  simp only [hc, ha]

theorem mapM_some_mem {α β : Type} (f : α → Option β) : ∀ (l : List α) (ys : List β), l.mapM f = some ys →
    ∀ x ∈ l, ∃ y, f x = some y := by
  intro l
  induction l with
  | nil => intro ys _ x hx; simp at hx
  | cons a tl ih =>
    intro ys h x hx
    rw [List.mapM_cons] at h
    cases ha : f a with
    | none => simp [ha] at h
    | some y =>
      cases ht : tl.mapM f with
      | none => simp [ha, ht] at h
      | some ys' =>
        rcases List.mem_cons.mp hx with rfl | hx
        · exact ⟨y, ha⟩
        · exact ih ys' ht x hx

theorem mem_keys_of_lookup {β : Type} : ∀ (l : List (Nat × β)) (x : Nat) (b : β), l.lookup x = some b → x ∈ l.map (·.1) := by
  intro l
  induction l with
  | nil => intro x b h; simp at h
  | cons p tl ih =>
    intro x b h
    obtain ⟨k, c⟩ := p
    rw [List.lookup_cons] at h
    by_cases hx : (x == k) = true
    · have : x = k := by simpa using hx
      simp [this]
    · have hx' : (x == k) = false := by simpa using hx
      simp only [hx'] at h
      simp only [List.map_cons, List.mem_cons]
      exact Or.inr (ih x b h)

/-- what the theorem assumes about the molecule that is made explicit -/
structure Consistent (m : Mol) : Prop where
  nodup : m.ids.Nodup
  adjKeys : m.adj.map (·.1) = m.ids
  noH : ∀ p ∈ m.atoms, p.2.z ≠ 1
  noArom : ∀ xr ∈ m.adj, ∀ kb ∈ xr.2, kb.2.order ≠ 4
  /-- every stored count is the one `calc_implicit` gives (and there is one) -/
  counts : ∀ p ∈ m.atoms, ∃ h, p.2.implH = some h ∧ Valence.calcImplicitMol m p.1 = some (some h)

theorem lookup_of_mem_nodup {β : Type} : ∀ (l : List (Nat × β)), (l.map (·.1)).Nodup → ∀ p ∈ l, l.lookup p.1 = some p.2 := by
  intro l
  induction l with
  | nil => intro _ p hp; simp at hp
  | cons q tl ih =>
    intro hnd p hp
    obtain ⟨k, b⟩ := q
    simp only [List.map_cons, List.nodup_cons] at hnd
    rw [List.lookup_cons]
    rcases List.mem_cons.mp hp with rfl | hp
    · simp
    · have : (p.1 == k) = false := by
        apply beq_false_of_ne
        intro e
        exact hnd.1 (e ▸ List.mem_map.mpr ⟨p, hp, rfl⟩)
      simp only [this]
      exact ih hnd.2 p hp

theorem block_scan {m e : Mol} {l : List Nat} {k : Nat} (S : Shape m e l k) (C : Consistent m)
    (n : Nat) (a : Atom) (hmem : (n, a) ∈ m.atoms) (h : Nat) (hh : a.implH = some h) (hpos : 0 < h)
    (hs : List Nat) (hlen : hs.length = h) (hge : ∀ x ∈ hs, k ≤ x)
    (hatt : attach l k n = hs.map (·, bond1)) :
    ∃ a' row t, e.atom? n = some a' ∧ e.adj.lookup n = some row ∧ Valence.tableOf a'.z = some t ∧
      scan t a' e row hs hs.length = .remove hs h := by
  have hat : m.atom? n = some a := lookup_of_mem_nodup m.atoms C.nodup (n, a) hmem
  obtain ⟨h', hh', hcalc⟩ := C.counts (n, a) hmem
  rw [hh] at hh'
  simp only [Option.some.injEq] at hh'
  subst hh'
  -- the neighbour dict of `n`
  have hnid : n ∈ m.adj.map (·.1) := by rw [C.adjKeys]; exact List.mem_map.mpr ⟨(n, a), hmem, rfl⟩
  obtain ⟨xr, hxr, hxn⟩ := List.mem_map.mp hnid
  have hrow : m.adj.lookup n = some xr.2 := by
    have := lookup_of_mem_nodup m.adj (by rw [C.adjKeys]; exact C.nodup) xr hxr
    rw [hxn] at this; exact this
  -- unfold `calc_implicit`
  unfold Valence.calcImplicitMol Valence.ctxOf at hcalc
  have hat' : m.atoms.lookup n = some a := hat
  simp only [hat', hrow] at hcalc
  cases hbs : xr.2.mapM (Valence.nbrEntry m.atoms) with
  | none => simp [hbs] at hcalc
  | some bsAll =>
    simp only [hbs, Option.map_some, Option.bind_some, Valence.calcImplicit] at hcalc
    cases ht : Valence.tableOf a.z with
    | none => simp [ht] at hcalc
    | some t =>
      simp only [ht, Option.map_some, Option.some.injEq] at hcalc
      refine ⟨(zeroIn l (n, a)).2, xr.2 ++ attach l k n, t, S.atom_old n a hat, S.row_old n xr.2 hrow, ?_, ?_⟩
      · rw [zeroIn_z]; exact ht
      · -- every drawn neighbour is an old atom: its number is below the fresh numbers
        have hnb : ∀ kb ∈ xr.2, ∃ x, m.atoms.lookup kb.1 = some x := by
          intro kb hkb
          obtain ⟨y, hy⟩ := mapM_some_mem (Valence.nbrEntry m.atoms) xr.2 bsAll hbs kb hkb
          unfold Valence.nbrEntry at hy
          cases hl : m.atoms.lookup kb.1 with
          | none => simp [hl] at hy
          | some x => exact ⟨x, rfl⟩
        have hold : ∀ kb ∈ xr.2, kb.1 < k := by
          intro kb hkb
          obtain ⟨x, hx⟩ := hnb kb hkb
          exact S.idsLt kb.1 (mem_keys_of_lookup m.atoms kb.1 x hx)
        -- the filter keeps the old bonds that are not special and drops every new hydrogen
        have hfilter : (xr.2 ++ attach l k n).filter (fun kb => !hs.contains kb.1 && kb.2.order != 8) =
            xr.2.filter (fun kb => kb.2.order != 8) := by
          rw [List.filter_append, hatt]
          have h2 : (hs.map (·, bond1)).filter (fun kb => !hs.contains kb.1 && kb.2.order != 8) = [] := by
            apply List.filter_eq_nil_iff.mpr
            intro kb hkb
            simp only [List.mem_map] at hkb
            obtain ⟨x, hx, rfl⟩ := hkb
            have : hs.contains x = true := List.contains_iff_mem.mpr hx
            simp only [this, Bool.not_true, Bool.false_and]
            exact Bool.false_ne_true
          rw [h2, List.append_nil]
          apply List.filter_congr
          intro kb hkb
          have : hs.contains kb.1 = false := by
            apply Bool.eq_false_iff.mpr
            intro hc
            have := hge kb.1 (List.contains_iff_mem.mp hc)
            have := hold kb hkb
            omega
          rw [this]; rfl
        -- the same `(order, Z)` pairs as in `m`, without the special bonds
        have hkept : keptBonds e (xr.2 ++ attach l k n) hs = some (bsAll.filter fun b => b.1 != 8) := by
          unfold keptBonds
          rw [hfilter]
          apply mapM_filter_some (Valence.nbrEntry e.atoms) (fun kb => kb.2.order != 8) (fun b => b.1 != 8)
          · apply mapM_congr_some (Valence.nbrEntry m.atoms) (Valence.nbrEntry e.atoms) xr.2 bsAll hbs
            intro kb hkb
            obtain ⟨x, hx⟩ := hnb kb hkb
            have he : e.atoms.lookup kb.1 = some (zeroIn l (kb.1, x)).2 := S.atom_old kb.1 x hx
            unfold Valence.nbrEntry
            rw [he, hx]
            simp [zeroIn_z]
          · intro kb _ y hy
            unfold Valence.nbrEntry at hy
            cases hl : e.atoms.lookup kb.1 with
            | none => simp [hl] at hy
            | some x => simp only [hl, Option.map_some, Option.some.injEq] at hy; rw [← hy]
        have hna : ∀ b ∈ bsAll.filter (fun b => b.1 != 8), b.1 ≠ 4 := by
          intro b hb
          have hb' := (List.mem_filter.mp hb).1
          have ho := mapM_nbrEntry_orders m.atoms xr.2 bsAll hbs
          have : b.1 ∈ xr.2.map (·.2.order) := by rw [← ho]; exact List.mem_map.mpr ⟨b, hb', rfl⟩
          obtain ⟨kb, hkb, e1⟩ := List.mem_map.mp this
          rw [← e1]
          exact C.noArom xr hxr kb hkb
        have hz : (zeroIn l (n, a)).2.z ≠ 1 := by rw [zeroIn_z]; exact C.noH (n, a) hmem
        have hc' : Valence.calcWith t ⟨(zeroIn l (n, a)).2.z, (zeroIn l (n, a)).2.charge, (zeroIn l (n, a)).2.radical,
            bsAll.filter fun b => b.1 != 8⟩ = some h := by
          rw [calcWith_drop8, zeroIn_z, zeroIn_charge]
          have : (zeroIn l (n, a)).2.radical = a.radical := by unfold zeroIn; split <;> rfl
          rw [this]
          exact hcalc
        exact scan_inverts_calc t _ e _ hs _ h hkept hna hz hc' hlen hpos

/-! ## facts about the blocks -/

theorem mem_blocks : ∀ (ps : List (Nat × Nat)) (k : Nat) (b : Nat × List Nat), b ∈ blocks ps k →
    ∃ h off, (b.1, h) ∈ ps ∧ 0 < h ∧ b.2 = List.range' (k + off) h := by
  intro ps
  induction ps with
  | nil => intro k b hb; simp [blocks] at hb
  | cons p tl ih =>
    obtain ⟨n, h⟩ := p
    intro k b hb
    rw [blocks] at hb
    rcases List.mem_append.mp hb with hb | hb
    · split at hb
      · simp at hb
      · rename_i h0
        simp only [List.mem_singleton] at hb
        subst hb
        exact ⟨h, 0, List.mem_cons_self, Nat.pos_of_ne_zero h0, by simp⟩
    · obtain ⟨h', off, h1, h2, h3⟩ := ih (k + h) b hb
      exact ⟨h', h + off, List.mem_cons_of_mem _ h1, h2, by rw [h3]; congr 1; omega⟩

theorem blocks_keys_sublist : ∀ (ps : List (Nat × Nat)) (k : Nat), ((blocks ps k).map (·.1)).Sublist (ps.map (·.1)) := by
  intro ps
  induction ps with
  | nil => intro k; simp [blocks]
  | cons p tl ih =>
    obtain ⟨n, h⟩ := p
    intro k
    rw [blocks, List.map_append, List.map_cons]
    split
    · simp only [List.map_nil, List.nil_append]
      exact List.Sublist.cons _ (ih (k + h))
    · simp only [List.map_cons, List.map_nil, List.singleton_append]
      exact List.Sublist.cons₂ _ (ih (k + h))

theorem mem_flat_pos : ∀ (ps : List (Nat × Nat)) (x : Nat), x ∈ flat ps → ∃ h, 0 < h ∧ (x, h) ∈ ps := by
  intro ps
  induction ps with
  | nil => intro x h; simp [flat] at h
  | cons p tl ih =>
    obtain ⟨n, h⟩ := p
    intro x hx
    rw [flat] at hx
    rcases List.mem_append.mp hx with hx | hx
    · obtain ⟨h0, rfl⟩ := List.mem_replicate.mp hx
      exact ⟨h, Nat.pos_of_ne_zero h0, List.mem_cons_self⟩
    · obtain ⟨h', hp, hm⟩ := ih x hx
      exact ⟨h', hp, List.mem_cons_of_mem _ hm⟩

theorem blocks_lookup_none : ∀ (ps : List (Nat × Nat)) (k x : Nat), (∀ h, (x, h) ∈ ps → h = 0) →
    (blocks ps k).lookup x = none := by
  intro ps k x hx
  apply lookup_none_of_forall_ne
  intro b hb hbx
  obtain ⟨h, off, h1, h2, _⟩ := mem_blocks ps k b hb
  have := hx h (hbx ▸ h1)
  omega

/-! ## removing the hydrogens again -/

theorem removeAtoms_shape {m e : Mol} {l : List Nat} {k : Nat} (S : Shape m e l k)
    (hnb : ∀ xr ∈ m.adj, ∀ kb ∈ xr.2, kb.1 < k)
    (hatt : ∀ x, ∀ kb ∈ attach l k x, k ≤ kb.1 ∧ kb.1 < k + l.length) :
    removeAtoms e (List.range' k l.length) = ⟨m.atoms.map (zeroIn l), m.adj⟩ := by
  have hin : ∀ x, (List.range' k l.length).contains x = true ↔ k ≤ x ∧ x < k + l.length := by
    intro x
    rw [List.contains_iff_mem, List.mem_range']
    constructor
    · rintro ⟨i, hi, rfl⟩; omega
    · intro ⟨h1, h2⟩; exact ⟨x - k, by omega, by omega⟩
  have hout : ∀ x, x < k → (List.range' k l.length).contains x = false := by
    intro x hx
    apply Bool.eq_false_iff.mpr
    intro hc
    have := (hin x).mp hc
    omega
  unfold removeAtoms
  congr 1
  · rw [S.atoms, List.filter_append]
    have h1 : (m.atoms.map (zeroIn l)).filter (fun p => !(List.range' k l.length).contains p.1) = m.atoms.map (zeroIn l) := by
      apply List.filter_eq_self.mpr
      intro p hp
      simp only [List.mem_map] at hp
      obtain ⟨q, hq, rfl⟩ := hp
      rw [zeroIn_fst, hout q.1 (S.idsLt q.1 (List.mem_map.mpr ⟨q, hq, rfl⟩))]
      rfl
    have h2 : (newHs k l.length).filter (fun p => !(List.range' k l.length).contains p.1) = [] := by
      apply List.filter_eq_nil_iff.mpr
      intro p hp
      unfold newHs at hp
      simp only [List.mem_map, List.mem_range] at hp
      obtain ⟨i, hi, rfl⟩ := hp
      have : (List.range' k l.length).contains (k + i) = true := (hin (k + i)).mpr ⟨by omega, by omega⟩
      simp only [this, Bool.not_true]; exact Bool.false_ne_true
    rw [h1, h2, List.append_nil]
  · rw [S.adj, List.filter_append, List.map_append]
    have h2 : (rowsOf l k).filter (fun p => !(List.range' k l.length).contains p.1) = [] := by
      apply List.filter_eq_nil_iff.mpr
      intro p hp
      have hge := rowsOf_keys_ge l k p hp
      have hlt : p.1 < k + l.length := by
        have : ∀ (l : List Nat) (k : Nat), ∀ p ∈ rowsOf l k, p.1 < k + l.length := by
          intro l
          induction l with
          | nil => intro k p hp; simp [rowsOf] at hp
          | cons a rest ih =>
            intro k p hp
            rw [rowsOf] at hp
            rcases List.mem_cons.mp hp with rfl | hp
            · simp
            · have := ih (k + 1) p hp
              simp only [List.length_cons]; omega
        exact this l k p hp
      have : (List.range' k l.length).contains p.1 = true := (hin p.1).mpr ⟨hge, hlt⟩
      simp only [this, Bool.not_true]; exact Bool.false_ne_true
    rw [h2, List.map_nil, List.append_nil]
    have h1 : (m.adj.map (fun xr => (xr.1, xr.2 ++ attach l k xr.1))).filter
        (fun p => !(List.range' k l.length).contains p.1) = m.adj.map (fun xr => (xr.1, xr.2 ++ attach l k xr.1)) := by
      apply List.filter_eq_self.mpr
      intro p hp
      simp only [List.mem_map] at hp
      obtain ⟨xr, hxr, rfl⟩ := hp
      have : xr.1 ∈ m.ids := by rw [← S.adjKeys]; exact List.mem_map.mpr ⟨xr, hxr, rfl⟩
      simp only
      rw [hout xr.1 (S.idsLt xr.1 this)]
      rfl
    rw [h1, List.map_map]
    have : m.adj = m.adj.map id := by simp
    conv => rhs; rw [this]
    apply List.map_congr_left
    intro xr hxr
    simp only [Function.comp, id]
    rw [List.filter_append]
    have ha : (attach l k xr.1).filter (fun kb => !(List.range' k l.length).contains kb.1) = [] := by
      apply List.filter_eq_nil_iff.mpr
      intro kb hkb
      have := hatt xr.1 kb hkb
      have : (List.range' k l.length).contains kb.1 = true := (hin kb.1).mpr this
      simp only [this, Bool.not_true]; exact Bool.false_ne_true
    have hr : xr.2.filter (fun kb => !(List.range' k l.length).contains kb.1) = xr.2 := by
      apply List.filter_eq_self.mpr
      intro kb hkb
      rw [hout kb.1 (hnb xr hxr kb hkb)]
      rfl
    rw [ha, hr, List.append_nil]

theorem attach_bounds : ∀ (l : List Nat) (k x : Nat), ∀ kb ∈ attach l k x, k ≤ kb.1 ∧ kb.1 < k + l.length := by
  intro l
  induction l with
  | nil => intro k x kb h; simp [attach] at h
  | cons n rest ih =>
    intro k x kb h
    rw [attach] at h
    rcases List.mem_append.mp h with h | h
    · split at h
      · simp only [List.mem_singleton] at h; subst h; simp
      · simp at h
    · have := ih (k + 1) x kb h
      simp only [List.length_cons]; omega

/-! ## restoring the counts -/

/-- what `applyFixed` does to one atom entry -/
def restore (fx : List (Nat × Nat)) (p : Nat × Atom) : Nat × Atom :=
  match fx.lookup p.1 with
  | some h => (p.1, { p.2 with implH := some h })
  | none => p

theorem applyFixed_atoms : ∀ (fx : List (Nat × Nat)) (M : Mol), (fx.map (·.1)).Nodup →
    (applyFixed fx M).atoms = M.atoms.map (restore fx) ∧ (applyFixed fx M).adj = M.adj := by
  intro fx
  induction fx with
  | nil =>
    intro M _
    refine ⟨?_, rfl⟩
    simp only [applyFixed]
    rw [List.map_congr_left (g := id)]; simp
    intro p _; rfl
  | cons e tl ih =>
    obtain ⟨n, h⟩ := e
    intro M hnd
    simp only [List.map_cons, List.nodup_cons] at hnd
    rw [applyFixed]
    obtain ⟨h1, h2⟩ := ih (updAtom M n fun a => { a with implH := some h }) hnd.2
    refine ⟨?_, h2⟩
    rw [h1]
    unfold updAtom
    simp only [List.map_map]
    apply List.map_congr_left
    intro p _
    simp only [Function.comp, setAtomEntry, restore]
    by_cases hp : (p.1 == n) = true
    · have hpn : p.1 = n := by simpa using hp
      have hnone : tl.lookup p.1 = none := by
        apply lookup_none_of_forall_ne
        intro q hq hqe
        exact hnd.1 (hpn ▸ hqe ▸ List.mem_map.mpr ⟨q, hq, rfl⟩)
      simp only [hp, if_true, hnone, List.lookup_cons]
    · have hp' : (p.1 == n) = false := by simpa using hp
      simp only [hp', Bool.false_eq_true, if_false, List.lookup_cons]

theorem filter_const_true {α : Type} (l : List α) : l.filter (fun _ => true) = l :=
  List.filter_eq_self.mpr (fun _ _ => rfl)

theorem removeAtoms_nil (m : Mol) : removeAtoms m [] = m := by
  unfold removeAtoms
  simp only [List.contains_nil, Bool.not_false, filter_const_true]
  cases m with
  | mk atoms adj =>
    simp only [Mol.mk.injEq, true_and]
    rw [List.map_congr_left (g := id)]; simp
    intro p _; rfl

/-! ## the theorem -/

theorem nbrs_are_atoms {m : Mol} (C : Consistent m) : ∀ xr ∈ m.adj, ∀ kb ∈ xr.2, kb.1 ∈ m.ids := by
  intro xr hxr kb hkb
  have hid : xr.1 ∈ m.ids := by rw [← C.adjKeys]; exact List.mem_map.mpr ⟨xr, hxr, rfl⟩
  obtain ⟨p, hp, hpe⟩ := List.mem_map.mp hid
  obtain ⟨h, _, hcalc⟩ := C.counts p hp
  have hat : m.atoms.lookup xr.1 = some p.2 := by
    have := lookup_of_mem_nodup m.atoms C.nodup p hp
    rw [hpe] at this; exact this
  have hrow : m.adj.lookup xr.1 = some xr.2 := lookup_of_mem_nodup m.adj (by rw [C.adjKeys]; exact C.nodup) xr hxr
  unfold Valence.calcImplicitMol Valence.ctxOf at hcalc
  rw [hpe] at hcalc
  simp only [hat, hrow] at hcalc
  cases hbs : xr.2.mapM (Valence.nbrEntry m.atoms) with
  | none => simp [hbs] at hcalc
  | some bsAll =>
    obtain ⟨y, hy⟩ := mapM_some_mem (Valence.nbrEntry m.atoms) xr.2 bsAll hbs kb hkb
    unfold Valence.nbrEntry at hy
    cases hl : m.atoms.lookup kb.1 with
    | none => simp [hl] at hy
    | some x => exact mem_keys_of_lookup m.atoms kb.1 x hl

theorem explicify_adj (m e : Mol) (cnt : Nat) (l : List Nat) (C : Consistent m) (he : explicify m = .ok (e, cnt))
    (ht : toAdd m.atoms = .ok l) :
    e.adj = m.adj.map (fun xr => (xr.1, xr.2 ++ attach l (nextNumber m) xr.1)) ++ rowsOf l (nextNumber m) := by
  unfold explicify at he
  rw [ht] at he
  have hlt : ∀ n ∈ l, n < nextNumber m := fun n hn => lt_nextNumber m n ((toAdd_spec _ _ ht).2.2.1 n hn)
  have hadj : ∀ x ∈ m.adj.map (·.1), x < nextNumber m := by
    intro x hx; rw [C.adjKeys] at hx; exact lt_nextNumber m x hx
  cases l with
  | nil =>
    simp only [Except.ok.injEq, Prod.mk.injEq] at he
    rw [← he.1]
    simp only [attach, rowsOf, List.append_nil]
    rw [List.map_congr_left (g := id)]; simp
    intro xr _; rfl
  | cons n rest =>
    simp only [Except.ok.injEq, Prod.mk.injEq] at he
    rw [← he.1]
    exact addHLoop_adj (n :: rest) (nextNumber m) m hlt hadj

theorem countsOf_keys (atoms : List (Nat × Atom)) : (countsOf atoms).map (·.1) = atoms.map (·.1) := by
  unfold countsOf; simp [List.map_map, Function.comp_def]

theorem blocks_lookup_some : ∀ (ps : List (Nat × Nat)) (k x h : Nat), (ps.map (·.1)).Nodup → (x, h) ∈ ps → 0 < h →
    ∃ hs, (blocks ps k).lookup x = some hs ∧ hs.length = h ∧ ∀ y ∈ hs, k ≤ y := by
  intro ps
  induction ps with
  | nil => intro k x h _ hm; simp at hm
  | cons p tl ih =>
    obtain ⟨n, g⟩ := p
    intro k x h hnd hm hpos
    simp only [List.map_cons, List.nodup_cons] at hnd
    rw [blocks, List.lookup_append]
    rcases List.mem_cons.mp hm with he | hm
    · obtain ⟨rfl, rfl⟩ := Prod.mk.inj he
      have : h ≠ 0 := by omega
      simp only [this, if_false, List.lookup_cons, beq_self_eq_true, Option.some_or]
      refine ⟨_, rfl, by simp, ?_⟩
      intro y hy
      obtain ⟨i, _, rfl⟩ := List.mem_range'.mp hy
      omega
    · have hxn : (x == n) = false := by
        apply beq_false_of_ne
        intro e
        exact hnd.1 (e ▸ List.mem_map.mpr ⟨(x, h), hm, rfl⟩)
      have : (if g = 0 then ([] : List (Nat × List Nat)) else [(n, List.range' k g)]).lookup x = none := by
        split
        · rfl
        · simp [List.lookup_cons, hxn]
      rw [this, Option.none_or]
      obtain ⟨hs, h1, h2, h3⟩ := ih (k + g) x h hnd.2 hm hpos
      exact ⟨hs, h1, h2, fun y hy => by have := h3 y hy; omega⟩

theorem atom_with_implH (a : Atom) (h : Nat) (ha : a.implH = some h) : { a with implH := some h } = a := by
  cases a; simp_all

/-- **`implicify_hydrogens` undoes `explicify_hydrogens`** on a molecule without explicit hydrogens and aromatic bonds whose
    counts are the ones `calc_implicit` gives: the same molecule comes back (atoms, counts, neighbour dicts, all in the same
    order), and the number of removed atoms is the number that was added. -/
theorem implicify_explicify (m e : Mol) (cnt : Nat) (C : Consistent m) (he : explicify m = .ok (e, cnt)) :
    ∃ fx, implicify e = .ok (m, cnt, fx) := by
  obtain ⟨l, ht, hc, ha⟩ := explicify_atoms m e cnt he
  have hadj := explicify_adj m e cnt l C he ht
  have hflat := toAdd_eq_flat m.atoms l ht
  have hkeys : (countsOf m.atoms).map (·.1) = m.ids := countsOf_keys m.atoms
  have hpsnd : ((countsOf m.atoms).map (·.1)).Nodup := by rw [hkeys]; exact C.nodup
  have S : Shape m e l (nextNumber m) :=
    ⟨ha, hadj, fun x hx => lt_nextNumber m x hx, C.adjKeys, C.nodup⟩
  -- the pair list and the atoms
  have hps : ∀ p ∈ m.atoms, ∀ h, p.2.implH = some h → (p.1, h) ∈ countsOf m.atoms := by
    intro p hp h hh
    unfold countsOf
    exact List.mem_map.mpr ⟨p, hp, by simp [hh]⟩
  have hps' : ∀ x h, (x, h) ∈ countsOf m.atoms → ∃ a, (x, a) ∈ m.atoms ∧ a.implH.getD 0 = h := by
    intro x h hm
    unfold countsOf at hm
    obtain ⟨p, hp, he'⟩ := List.mem_map.mp hm
    obtain ⟨rfl, rfl⟩ := Prod.mk.inj he'
    exact ⟨p.2, hp, rfl⟩
  -- 1. what is collected
  have hcol : collectExplicit e e.atoms [] = .ok (blocks (countsOf m.atoms) (nextNumber m)) := by
    rw [S.atoms, collectExplicit_skip e _ _ [] (by
      intro p hp
      simp only [List.mem_map] at hp
      obtain ⟨q, hq, rfl⟩ := hp
      rw [zeroIn_z]; exact C.noH q hq)]
    have hmem : ∀ n ∈ l, ∃ a, m.atom? n = some a ∧ a.z ≠ 1 := by
      intro n hn
      have hid : n ∈ m.ids := (toAdd_spec _ _ ht).2.2.1 n hn
      obtain ⟨p, hp, rfl⟩ := List.mem_map.mp hid
      exact ⟨p.2, lookup_of_mem_nodup m.atoms C.nodup p hp, C.noH p hp⟩
    have := collectExplicit_new S hmem l [] [] rfl
    simp only [List.length_nil, Nat.add_zero] at this
    rw [this, hflat, exOf_flat _ _ [] hpsnd (by intro p _; simp)]
    rfl
  -- 2. the scan
  let hOf : Nat → Nat := fun n => ((countsOf m.atoms).lookup n).getD 0
  have hblk : ∀ b ∈ blocks (countsOf m.atoms) (nextNumber m), ∃ a row t, e.atom? b.1 = some a ∧ e.adj.lookup b.1 = some row ∧
      Valence.tableOf a.z = some t ∧ scan t a e row b.2 b.2.length = .remove b.2 (hOf b.1) := by
    intro b hb
    obtain ⟨h, off, h1, h2, h3⟩ := mem_blocks _ _ b hb
    obtain ⟨a, hma, hah⟩ := hps' b.1 h h1
    obtain ⟨h', hh', _⟩ := C.counts (b.1, a) hma
    have hhe : h' = h := by simp only at hh'; rw [hh'] at hah; simpa using hah
    subst hhe
    have hlook : (blocks (countsOf m.atoms) (nextNumber m)).lookup b.1 = some b.2 :=
      lookup_of_mem_nodup _ (List.Nodup.sublist (blocks_keys_sublist _ _) hpsnd) b hb
    have hatt : attach l (nextNumber m) b.1 = b.2.map (·, bond1) := by
      rw [hflat]; exact attach_flat _ _ _ _ hpsnd hlook
    have hOfb : hOf b.1 = h' := by
      show ((countsOf m.atoms).lookup b.1).getD 0 = h'
      have := lookup_of_mem_nodup (countsOf m.atoms) hpsnd (b.1, h') h1
      simp only at this
      rw [this]; rfl
    rw [hOfb]
    exact block_scan S C b.1 a hma h' hh' h2 b.2 (by rw [h3]; simp)
      (by intro x hx; rw [h3] at hx; obtain ⟨i, _, rfl⟩ := List.mem_range'.mp hx; omega) hatt
  have hscan := scanAll_blocks e hOf (blocks (countsOf m.atoms) (nextNumber m)) [] [] hblk
    (List.Nodup.sublist (blocks_keys_sublist _ _) hpsnd) (by intro b _; simp)
  rw [fold_blocks _ _ [] (by intro x hx; simp at hx), List.nil_append, List.nil_append, ← hflat] at hscan
  -- 3. assemble
  unfold implicify
  rw [hcol]
  simp only [hscan]
  refine ⟨((blocks (countsOf m.atoms) (nextNumber m)).map fun b => (b.1, hOf b.1)).map (·.1), ?_⟩
  have hrem := removeAtoms_shape S (fun xr hxr kb hkb => lt_nextNumber m kb.1 (nbrs_are_atoms C xr hxr kb hkb))
    (attach_bounds l (nextNumber m))
  rw [hrem]
  have hfxnd : (((blocks (countsOf m.atoms) (nextNumber m)).map fun b => (b.1, hOf b.1)).map (·.1)).Nodup := by
    rw [List.map_map]
    exact List.Nodup.sublist (blocks_keys_sublist _ _) hpsnd
  obtain ⟨hat, hadj'⟩ := applyFixed_atoms _ ⟨m.atoms.map (zeroIn l), m.adj⟩ hfxnd
  have hatoms : (m.atoms.map (zeroIn l)).map (restore ((blocks (countsOf m.atoms) (nextNumber m)).map fun b => (b.1, hOf b.1))) =
      m.atoms := by
    rw [List.map_map]
    conv => rhs; rw [← List.map_id m.atoms]
    apply List.map_congr_left
    intro p hp
    simp only [Function.comp, id]
    obtain ⟨h, hh, _⟩ := C.counts p hp
    have hpin := hps p hp h hh
    have hfx : ((blocks (countsOf m.atoms) (nextNumber m)).map fun b => (b.1, hOf b.1)).lookup p.1 =
        ((blocks (countsOf m.atoms) (nextNumber m)).lookup p.1).map fun _ => hOf p.1 :=
      lookup_map_key (fun b : Nat × List Nat => (b.1, hOf b.1)) (fun _ => rfl) _ p.1
    unfold restore
    rw [zeroIn_fst, hfx]
    by_cases h0 : h = 0
    · subst h0
      have hnone : (blocks (countsOf m.atoms) (nextNumber m)).lookup p.1 = none := by
        apply blocks_lookup_none
        intro h' hm'
        have e1 := lookup_of_mem_nodup (countsOf m.atoms) hpsnd (p.1, h') hm'
        have e2 := lookup_of_mem_nodup (countsOf m.atoms) hpsnd (p.1, 0) hpin
        simp only at e1 e2
        rw [e1] at e2
        simpa using e2
      rw [hnone]
      simp only [Option.map_none]
      -- `p` is not named in `to_add`
      unfold zeroIn
      have : l.contains p.1 = false := by
        apply Bool.eq_false_iff.mpr
        intro hc
        rw [hflat] at hc
        obtain ⟨h', hpos, hm'⟩ := mem_flat_pos _ _ (List.contains_iff_mem.mp hc)
        have e1 := lookup_of_mem_nodup (countsOf m.atoms) hpsnd (p.1, h') hm'
        have e2 := lookup_of_mem_nodup (countsOf m.atoms) hpsnd (p.1, 0) hpin
        simp only at e1 e2
        rw [e1] at e2
        have : h' = 0 := by simpa using e2
        omega
      rw [this]; rfl
    · obtain ⟨hs, hl, _, _⟩ := blocks_lookup_some (countsOf m.atoms) (nextNumber m) p.1 h hpsnd hpin (Nat.pos_of_ne_zero h0)
      rw [hl]
      have hOfp : hOf p.1 = h := by
        show ((countsOf m.atoms).lookup p.1).getD 0 = h
        have := lookup_of_mem_nodup (countsOf m.atoms) hpsnd (p.1, h) hpin
        simp only at this
        rw [this]; rfl
      simp only [Option.map_some, hOfp]
      unfold zeroIn
      split
      · simp only
        have : ({ ({ p.2 with implH := some 0 } : Atom) with implH := some h } : Atom) = p.2 := by
          cases hp2 : p.2; simp_all
        rw [this]
      · rw [atom_with_implH p.2 h hh]
  have hfinal : applyFixed ((blocks (countsOf m.atoms) (nextNumber m)).map fun b => (b.1, hOf b.1))
      ⟨m.atoms.map (zeroIn l), m.adj⟩ = m := by
    cases hm : applyFixed ((blocks (countsOf m.atoms) (nextNumber m)).map fun b => (b.1, hOf b.1))
        ⟨m.atoms.map (zeroIn l), m.adj⟩ with
    | mk at' adj' =>
      rw [hm] at hat hadj'
      simp only at hat hadj'
      rw [hat, hadj', hatoms]
  rw [hfinal, List.length_range', hc]

end ChythonModel.Proofs.C14
