import ChythonModel.Model.C20Bridge
import Mathlib.Data.List.Perm.Basic
import ChythonModel.Proofs.C12Perm
/-!
# Helper lemmas for C20: `Graph.bonds()` lists every bond exactly once

For a well-formed adjacency (unique keys, no loops, neighbours are keys, symmetric) the "other ends" of the bonds that touch
atom `x`, read off the list `Mol.bonds` yields, are a permutation of the neighbour keys of `x`.
-/
set_option linter.unusedSimpArgs false
namespace ChythonModel.Proofs.C20
open ChythonModel.Model ChythonModel.Model.Stereo ChythonModel.Model.C20 ChythonModel.Proofs.C12 ChythonModel.Gen.C20

abbrev Adj := List (Nat × List (Nat × Bond))

/-- the end of bond `e` that is not `x` (`none` if `e` does not touch `x`) -/
def otherEnd (x : Nat) (e : Nat × Nat × Bond) : Option Nat :=
  if e.1 = x then some e.2.1 else if e.2.1 = x then some e.1 else none

def nbrKeys (adj : Adj) (x : Nat) : List Nat := ((adj.lookup x).getD []).map (·.1)

/-- well-formedness of `_bonds` as a proposition -/
structure AdjWF (adj : Adj) : Prop where
  keys : (adj.map (·.1)).Nodup
  nodup : ∀ p ∈ adj, (p.2.map (·.1)).Nodup
  noloop : ∀ p ∈ adj, p.1 ∉ p.2.map (·.1)
  closed : ∀ p ∈ adj, ∀ k ∈ p.2.map (·.1), k ∈ adj.map (·.1)
  symm : ∀ n k, k ∈ nbrKeys adj n → n ∈ nbrKeys adj k

theorem lookup_of_mem {adj : Adj} (h : (adj.map (·.1)).Nodup) {n : Nat} {ms : List (Nat × Bond)} (hm : (n, ms) ∈ adj) :
    adj.lookup n = some ms := by
  induction adj with
  | nil => cases hm
  | cons p ps ih =>
    obtain ⟨a, b⟩ := p
    simp only [List.map_cons, List.nodup_cons] at h
    rcases List.mem_cons.mp hm with e | e
    · injection e with e1 e2; subst e1; subst e2; simp [List.lookup]
    · have hne : n ≠ a := by
        intro e'; subst e'
        exact h.1 (List.mem_map.mpr ⟨(n, ms), e, rfl⟩)
      simp only [List.lookup]
      have : (n == a) = false := by simp [hne]
      rw [this]
      exact ih h.2 e

theorem nbrKeys_of_mem {adj : Adj} (h : (adj.map (·.1)).Nodup) {n : Nat} {ms : List (Nat × Bond)} (hm : (n, ms) ∈ adj) :
    nbrKeys adj n = ms.map (·.1) := by
  simp [nbrKeys, lookup_of_mem h hm]

theorem nbrKeys_not_key {adj : Adj} {x : Nat} (h : x ∉ adj.map (·.1)) : nbrKeys adj x = [] := by
  have : adj.lookup x = none := by
    rw [List.lookup_eq_none_iff]
    intro p hp
    have : x ≠ p.1 := fun e => h (List.mem_map.mpr ⟨p, hp, e.symm⟩)
    simpa using this
  simp [nbrKeys, this]

/-- "not yet visited" (kept opaque so `simp` does not rewrite it into another normal form) -/
def unseen (seen : List Nat) (k : Nat) : Bool := !(seen.contains k)

theorem unseen_iff (seen : List Nat) (k : Nat) : unseen seen k = true ↔ k ∉ seen := by simp [unseen]
theorem unseen_false_iff (seen : List Nat) (k : Nat) : unseen seen k = false ↔ k ∈ seen := by simp [unseen]

theorem unseen_cons (n : Nat) (seen : List Nat) (k : Nat) : unseen (n :: seen) k = (decide (k ≠ n) && unseen seen k) := by
  by_cases h1 : k = n <;> by_cases h2 : k ∈ seen <;> simp [unseen, h1, h2]

/-- splitting a filter of a duplicate-free list at one element -/
theorem filter_split (l : List Nat) (hl : l.Nodup) (n : Nat) (seen : List Nat) (hn : n ∉ seen) :
    (l.filter (unseen seen)).Perm ((if n ∈ l then [n] else []) ++ l.filter (unseen (n :: seen))) := by
  induction l with
  | nil => simp
  | cons a as ih =>
    rw [List.nodup_cons] at hl
    have ih' := ih hl.2
    by_cases han : a = n
    · subst han
      have hna : a ∉ as := hl.1
      have e1 : as.filter (unseen (a :: seen)) = as.filter (unseen seen) := by
        apply List.filter_congr
        intro k hk
        have : k ≠ a := fun e => hna (e ▸ hk)
        rw [unseen_cons]; simp [this]
      have ha1 : unseen seen a = true := (unseen_iff seen a).mpr hn
      have ha2 : unseen (a :: seen) a = false := (unseen_false_iff _ a).mpr (List.mem_cons_self)
      rw [List.filter_cons_of_pos ha1, List.filter_cons_of_neg (by simp [ha2]), e1]
      simp
    · have hne : n ≠ a := fun e => han e.symm
      have hmem : (n ∈ a :: as) ↔ n ∈ as := by simp [hne]
      by_cases hs : a ∈ seen
      · have ha1 : unseen seen a = false := (unseen_false_iff seen a).mpr hs
        have ha2 : unseen (n :: seen) a = false := (unseen_false_iff _ a).mpr (List.mem_cons_of_mem _ hs)
        rw [List.filter_cons_of_neg (by simp [ha1]), List.filter_cons_of_neg (by simp [ha2])]
        simp only [hmem]
        exact ih'
      · have ha1 : unseen seen a = true := (unseen_iff seen a).mpr hs
        have ha2 : unseen (n :: seen) a = true := (unseen_iff _ a).mpr (by simp [han, hs])
        rw [List.filter_cons_of_pos ha1, List.filter_cons_of_pos ha2]
        simp only [hmem]
        by_cases hnas : n ∈ as
        · simp only [hnas, if_true] at ih' ⊢
          exact (List.Perm.cons a ih').trans (List.Perm.swap n a _)
        · simp only [hnas, if_false, List.nil_append] at ih' ⊢
          exact List.Perm.cons a ih'

/-- one entry's emission in `Mol.bonds.go` with the visited test written through `unseen` -/
def emit (n : Nat) (ms : List (Nat × Bond)) (seen' : List Nat) : List (Nat × Nat × Bond) :=
  ms.filterMap fun (mb : Nat × Bond) => if unseen seen' mb.1 then some (n, mb.1, mb.2) else none

/-- the bonds emitted for one adjacency entry, seen from atom `x` -/
theorem emit_other (n : Nat) (ms : List (Nat × Bond)) (seen' : List Nat) (x : Nat)
    (hnd : (ms.map (·.1)).Nodup) (hloop : n ∉ ms.map (·.1)) :
    (emit n ms seen').filterMap (otherEnd x) =
      if x = n then (ms.map (·.1)).filter (unseen seen')
      else if x ∈ ms.map (·.1) ∧ unseen seen' x = true then [n] else [] := by
  induction ms with
  | nil => by_cases h : x = n <;> simp [h, emit]
  | cons p ps ih =>
    obtain ⟨k, b⟩ := p
    rw [List.map_cons, List.nodup_cons] at hnd
    rw [List.map_cons, List.mem_cons, not_or] at hloop
    have ih' := ih hnd.2 hloop.2
    have hkn : k ≠ n := fun e => hloop.1 e.symm
    unfold emit at ih' ⊢
    by_cases hx : x = n
    · subst hx
      rw [if_pos rfl] at ih' ⊢
      cases hs : unseen seen' k with
      | false =>
        rw [List.filterMap_cons]
        simp only [hs, Bool.false_eq_true, if_false]
        rw [ih', List.map_cons, List.filter_cons_of_neg (by simp [hs])]
      | true =>
        rw [List.filterMap_cons]
        simp only [hs, if_true]
        rw [List.filterMap_cons]
        have : otherEnd x (x, k, b) = some k := by simp [otherEnd]
        rw [this, ih', List.map_cons, List.filter_cons_of_pos (by simp [hs])]
    · rw [if_neg hx] at ih' ⊢
      have hnx : n ≠ x := fun e => hx e.symm
      cases hs : unseen seen' k with
      | false =>
        rw [List.filterMap_cons]
        simp only [hs, Bool.false_eq_true, if_false]
        rw [ih']
        by_cases hxk : x = k
        · subst hxk
          have : x ∉ List.map (·.1) ps := hnd.1
          simp [this, hs]
        · have hm : (x ∈ List.map (·.1) ((k, b) :: ps)) ↔ x ∈ List.map (·.1) ps := by simp [hxk]
          simp only [hm]
      | true =>
        rw [List.filterMap_cons]
        simp only [hs, if_true]
        rw [List.filterMap_cons]
        by_cases hxk : x = k
        · subst hxk
          have h1 : otherEnd x (n, x, b) = some n := by simp [otherEnd, hnx]
          have h2 : x ∉ List.map (·.1) ps := hnd.1
          rw [h1, ih']
          simp [h2, hs]
        · have hkx : k ≠ x := fun e => hxk e.symm
          have h1 : otherEnd x (n, k, b) = none := by simp [otherEnd, hnx, hkx]
          have hm : (x ∈ List.map (·.1) ((k, b) :: ps)) ↔ x ∈ List.map (·.1) ps := by simp [hxk]
          rw [h1, ih']
          simp only [hm]

theorem go_cons (n : Nat) (ms : List (Nat × Bond)) (tl : Adj) (seen : List Nat) :
    Mol.bonds.go ((n, ms) :: tl) seen = emit n ms (n :: seen) ++ Mol.bonds.go tl (n :: seen) := by
  rw [Mol.bonds.go]
  congr 1
  unfold emit
  apply List.filterMap_congr
  intro mb _
  have hc : (n :: seen).contains mb.1 = !unseen (n :: seen) mb.1 := by unfold unseen; rw [Bool.not_not]
  rw [hc]
  cases unseen (n :: seen) mb.1 <;> rfl

theorem nbrKeys_sub {adj : Adj} (wf : AdjWF adj) (x : Nat) : ∀ k ∈ nbrKeys adj x, k ∈ adj.map (·.1) := by
  intro k hk
  by_cases hx : x ∈ adj.map (·.1)
  · obtain ⟨p, hp, rfl⟩ := List.mem_map.mp hx
    rw [nbrKeys_of_mem wf.keys (show (p.1, p.2) ∈ adj from hp)] at hk
    exact wf.closed p hp k hk
  · rw [nbrKeys_not_key hx] at hk; cases hk

theorem nbrKeys_nodup {adj : Adj} (wf : AdjWF adj) (x : Nat) : (nbrKeys adj x).Nodup := by
  by_cases hx : x ∈ adj.map (·.1)
  · obtain ⟨p, hp, rfl⟩ := List.mem_map.mp hx
    rw [nbrKeys_of_mem wf.keys (show (p.1, p.2) ∈ adj from hp)]
    exact wf.nodup p hp
  · rw [nbrKeys_not_key hx]; exact List.nodup_nil

/-- the invariant of `Mol.bonds.go`: seen from atom `x`, the bonds still to be emitted reach exactly the unvisited neighbours -/
theorem go_other (adj : Adj) (wf : AdjWF adj) : ∀ (rest : Adj) (seen : List Nat),
    (∀ p ∈ rest, p ∈ adj) → (rest.map (·.1)).Nodup →
    (∀ k ∈ adj.map (·.1), k ∈ seen ∨ k ∈ rest.map (·.1)) → (∀ k ∈ seen, k ∉ rest.map (·.1)) →
    ∀ x, ((Mol.bonds.go rest seen).filterMap (otherEnd x)).Perm
          (if x ∈ seen then [] else (nbrKeys adj x).filter (unseen seen)) := by
  intro rest
  induction rest with
  | nil =>
    intro seen _ _ hcov _ x
    rw [Mol.bonds.go]
    by_cases hx : x ∈ seen
    · simp [hx]
    · simp only [hx, if_false, List.filterMap_nil]
      have : (nbrKeys adj x).filter (unseen seen) = [] := by
        rw [List.filter_eq_nil_iff]
        intro k hk
        have := hcov k (nbrKeys_sub wf x k hk)
        simp only [List.map_nil, List.not_mem_nil, or_false] at this
        simp [(unseen_false_iff seen k).mpr this]
      rw [this]
  | cons p tl ih =>
    intro seen hsub hnd hcov hdis x
    obtain ⟨n, ms⟩ := p
    have hp : (n, ms) ∈ adj := hsub _ List.mem_cons_self
    rw [List.map_cons, List.nodup_cons] at hnd
    have hn_seen : n ∉ seen := fun h => hdis n h (by simp)
    have hms : nbrKeys adj n = ms.map (·.1) := nbrKeys_of_mem wf.keys hp
    have ih' := ih (n :: seen) (fun q hq => hsub q (List.mem_cons_of_mem _ hq)) hnd.2
      (by
        intro k hk
        rcases hcov k hk with h | h
        · exact Or.inl (List.mem_cons_of_mem _ h)
        · rw [List.map_cons, List.mem_cons] at h
          rcases h with h | h
          · exact Or.inl (by rw [h]; exact List.mem_cons_self)
          · exact Or.inr h)
      (by
        intro k hk
        rcases List.mem_cons.mp hk with h | h
        · rw [h]; exact hnd.1
        · intro hk'
          exact hdis k h (by rw [List.map_cons]; exact List.mem_cons_of_mem _ hk'))
      x
    rw [go_cons, List.filterMap_append, emit_other n ms (n :: seen) x (wf.nodup _ hp) (wf.noloop _ hp)]
    by_cases hxs : x ∈ seen
    · -- already visited: nothing is emitted towards x
      have hxn : x ≠ n := fun e => hn_seen (e ▸ hxs)
      have hx' : x ∈ n :: seen := List.mem_cons_of_mem _ hxs
      have hu : unseen (n :: seen) x = false := (unseen_false_iff _ x).mpr hx'
      simp only [hxn, if_false, hu, Bool.false_eq_true, and_false, hxs, if_true, hx', List.nil_append] at ih' ⊢
      exact ih'
    · by_cases hxn : x = n
      · subst hxn
        have hx' : x ∈ x :: seen := List.mem_cons_self
        simp only [if_true, hx', hxs, if_false, List.append_nil] at ih' ⊢
        have hperm := ih'.length_eq
        have hnil : List.filterMap (otherEnd x) (Mol.bonds.go tl (x :: seen)) = [] := List.eq_nil_of_length_eq_zero (by simpa using hperm)
        rw [hnil, List.append_nil, hms]
        have : (ms.map (·.1)).filter (unseen (x :: seen)) = (ms.map (·.1)).filter (unseen seen) := by
          apply List.filter_congr
          intro k hk
          have : k ≠ x := fun e => wf.noloop _ hp (e ▸ hk)
          rw [unseen_cons]; simp [this]
        rw [this]
      · have hx' : x ∉ n :: seen := by simp [hxn, hxs]
        have hu : unseen (n :: seen) x = true := (unseen_iff _ x).mpr hx'
        simp only [hxn, if_false, hu, and_true, hx', hxs] at ih' ⊢
        have hiff : x ∈ ms.map (·.1) ↔ n ∈ nbrKeys adj x := by
          rw [← hms]
          exact ⟨fun h => wf.symm n x h, fun h => wf.symm x n h⟩
        have split := filter_split (nbrKeys adj x) (nbrKeys_nodup wf x) n seen hn_seen
        simp only [hiff]
        exact (List.Perm.append_left _ ih').trans split.symm

/-- **every bond once**: for a well-formed adjacency, the other ends of the `bonds()` entries touching `x` are a permutation
of the neighbour keys of `x` -/
theorem bonds_other_perm (m : Mol) (wf : AdjWF m.adj) (x : Nat) :
    ((m.bonds).filterMap (otherEnd x)).Perm (nbrKeys m.adj x) := by
  have h := go_other m.adj wf m.adj [] (fun _ hp => hp) wf.keys (fun k hk => Or.inr hk) (fun _ h => by cases h) x
  simp only [List.not_mem_nil, if_false] at h
  have : (nbrKeys m.adj x).filter (unseen []) = nbrKeys m.adj x := by
    rw [List.filter_eq_self]
    intro k _
    simp [unseen]
  rw [this] at h
  exact h

/-! ## RDKit's neighbour lists after the bond loop of `to_rdkit_molecule` -/

theorem orient_cases (m : Mol) (n k : Nat) : orient m n k = (n, k) ∨ orient m n k = (k, n) := by
  unfold orient; split <;> simp

theorem index?_getElem : ∀ (l : List Nat) (x i : Nat), index? l x = some i → l[i]? = some x := by
  intro l
  induction l with
  | nil => intro x i h; simp [index?] at h
  | cons y ys ih =>
    intro x i h
    by_cases hy : y = x
    · simp [index?, hy] at h; subst h; simp [hy]
    · simp only [index?, hy, if_false, Option.map_eq_some_iff] at h
      obtain ⟨j, hj, rfl⟩ := h
      simpa using ih x j hj

theorem idxOf_ok {ids : List Nat} {n i : Nat} (h : idxOf ids n = .ok i) : index? ids n = some i := by
  unfold idxOf at h
  split at h
  · injection h with h; subst h; assumption
  · cases h

/-- what `toBond` produces: the two ends (possibly exchanged by the direction rule) at their indices -/
theorem toBond_ends (m : Mol) (ids : List Nat) (n k : Nat) (b : Bond) (rb : RBond) (h : toBond m ids (n, k, b) = .ok rb) :
    (index? ids n = some rb.bgn ∧ index? ids k = some rb.end_) ∨ (index? ids k = some rb.bgn ∧ index? ids n = some rb.end_) := by
  simp only [toBond, bind, Except.bind] at h
  split at h
  · cases h
  · split at h
    · cases h
    · split at h
      · cases h
      · rename_i _ i hi _ j hj
        simp only [pure, Except.pure, Except.ok.injEq] at h
        subst h
        rcases orient_cases m n k with ho | ho <;> rw [ho] at hi hj
        · exact Or.inl ⟨idxOf_ok hi, idxOf_ok hj⟩
        · exact Or.inr ⟨idxOf_ok hi, idxOf_ok hj⟩

/-- `[inverted[x.GetIdx()] for x in ra.GetNeighbors()]` after the bond loop = the other ends of the `bonds()` entries that
touch the atom, in `bonds()` order -/
theorem to_neighbours (m : Mol) (ids : List Nat) : ∀ (cb : List (Nat × Nat × Bond)) (bonds0 : List RBond),
    cb.mapM (toBond m ids) = .ok bonds0 → (∀ e ∈ cb, e.1 ≠ e.2.1) → ∀ (x i : Nat), index? ids x = some i →
    nbrNumbers ids bonds0 i = .ok (cb.filterMap (otherEnd x)) := by
  intro cb
  induction cb with
  | nil =>
    intro bonds0 h _ x i _
    simp [List.mapM_nil, pure, Except.pure] at h
    subst h
    simp [nbrNumbers, rNbrs, List.mapM_nil, pure, Except.pure]
  | cons e es ih =>
    intro bonds0 h hnl x i hx
    obtain ⟨n, k, b⟩ := e
    rw [List.mapM_cons] at h
    simp only [bind, Except.bind] at h
    split at h
    · cases h
    · rename_i rb hrb
      split at h
      · cases h
      · rename_i rbs hrbs
        simp only [pure, Except.pure, Except.ok.injEq] at h
        subst h
        have ih' := ih rbs hrbs (fun e he => hnl e (List.mem_cons_of_mem _ he)) x i hx
        have hne : n ≠ k := hnl (n, k, b) List.mem_cons_self
        unfold nbrNumbers at ih' ⊢
        -- which end of this bond (if any) is x?
        have key : (if rb.bgn = i then some rb.end_ else if rb.end_ = i then some rb.bgn else none).bind (fun j => ids[j]?) =
            otherEnd x (n, k, b) ∧
            ((if rb.bgn = i then some rb.end_ else if rb.end_ = i then some rb.bgn else none) = none ↔ otherEnd x (n, k, b) = none) := by
          have inj : ∀ a c, index? ids a = some c → (c = i ↔ a = x) := by
            intro a c ha
            constructor
            · intro hc; subst hc; exact index?_inj ids a x c ha hx
            · intro hax; subst hax; rw [ha] at hx; injection hx
          rcases toBond_ends m ids n k b rb hrb with ⟨h1, h2⟩ | ⟨h1, h2⟩
          · have e1 := inj n rb.bgn h1
            have e2 := inj k rb.end_ h2
            by_cases hn : n = x
            · have : rb.bgn = i := e1.mpr hn
              simp [otherEnd, hn, this, index?_getElem ids k rb.end_ h2]
            · have hb : ¬ rb.bgn = i := fun h => hn (e1.mp h)
              by_cases hk : k = x
              · have : rb.end_ = i := e2.mpr hk
                simp [otherEnd, hn, hk, hb, this, index?_getElem ids n rb.bgn h1]
              · have he : ¬ rb.end_ = i := fun h => hk (e2.mp h)
                simp [otherEnd, hn, hk, hb, he]
          · have e1 := inj k rb.bgn h1
            have e2 := inj n rb.end_ h2
            by_cases hn : n = x
            · have hkx : k ≠ x := fun e => hne (hn.trans e.symm)
              have hb : ¬ rb.bgn = i := fun h => hkx (e1.mp h)
              have : rb.end_ = i := e2.mpr hn
              simp [otherEnd, hn, hb, this, index?_getElem ids k rb.bgn h1]
            · have he : ¬ rb.end_ = i := fun h => hn (e2.mp h)
              by_cases hk : k = x
              · have : rb.bgn = i := e1.mpr hk
                simp [otherEnd, hn, hk, this, index?_getElem ids n rb.end_ h2]
              · have hb : ¬ rb.bgn = i := fun h => hk (e1.mp h)
                simp [otherEnd, hn, hk, hb, he]
        simp only [rNbrs, List.filterMap_cons] at ih' ⊢
        cases hsel : (if rb.bgn = i then some rb.end_ else if rb.end_ = i then some rb.bgn else none) with
        | none =>
          have hnone := key.2.mp hsel
          simp only [hnone]
          exact ih'
        | some j =>
          have hk1 := key.1
          rw [hsel] at hk1
          simp only [Option.bind_some] at hk1
          rw [← hk1]
          rw [List.mapM_cons]
          cases hj : ids[j]? with
          | none => rw [hj] at hk1; exact absurd hk1.symm (by
              intro h0
              have := key.2.mpr h0
              rw [hsel] at this; cases this)
          | some y =>
            simp only [bind, Except.bind, ih', pure, Except.pure]

theorem emit_mem (n : Nat) (ms : List (Nat × Bond)) (seen' : List Nat) (e : Nat × Nat × Bond) (h : e ∈ emit n ms seen') :
    e.1 = n ∧ (e.2.1, e.2.2) ∈ ms := by
  unfold emit at h
  rw [List.mem_filterMap] at h
  obtain ⟨mb, hmb, hx⟩ := h
  split at hx
  · injection hx with hx; subst hx; exact ⟨rfl, hmb⟩
  · cases hx

theorem go_mem : ∀ (rest : Adj) (seen : List Nat) (e : Nat × Nat × Bond), e ∈ Mol.bonds.go rest seen →
    ∃ p ∈ rest, e.1 = p.1 ∧ (e.2.1, e.2.2) ∈ p.2 := by
  intro rest
  induction rest with
  | nil => intro seen e h; rw [Mol.bonds.go] at h; cases h
  | cons p tl ih =>
    intro seen e h
    obtain ⟨n, ms⟩ := p
    rw [go_cons, List.mem_append] at h
    rcases h with h | h
    · exact ⟨(n, ms), List.mem_cons_self, emit_mem n ms _ e h⟩
    · obtain ⟨q, hq, hh⟩ := ih _ e h
      exact ⟨q, List.mem_cons_of_mem _ hq, hh⟩

/-- no entry of `bonds()` is a loop -/
theorem bonds_noloop (m : Mol) (wf : AdjWF m.adj) : ∀ e ∈ m.bonds, e.1 ≠ e.2.1 := by
  intro e he
  obtain ⟨p, hp, h1, h2⟩ := go_mem m.adj [] e he
  intro heq
  apply wf.noloop p hp
  rw [← h1, heq]
  exact List.mem_map.mpr ⟨(e.2.1, e.2.2), h2, rfl⟩

end ChythonModel.Proofs.C20
