import ChythonModel.Proofs.C03Strings
import ChythonModel.Proofs.C03Bracket
/-!
# C03 — strings with bracket atoms: the lexer round trip and the way from the characters to the graph

`C03Lexer`/`C03Strings` treat the organic subset (no `[...]`), `C03Bracket` a lone bracket atom.  Here the two are put
together: token lists and spelled syntax trees whose atoms are organic-subset spellings *or* structured bracket atoms
(`BSpell`).

* `smilesTokenize_renderB`: `smiles_tokenize` inverts rendering on every accepted token list with bracket atoms;
* `text_to_graphB`: the text of a well-formed spelled tree (bracket atoms included) whose denotation exists is tokenized
  and parsed to exactly the denoted graph.
-/
set_option linter.unusedSimpArgs false
set_option linter.unusedVariables false
namespace ChythonModel.Proofs.C03
open ChythonModel.Model.C03 ChythonModel.Gen.C03 ChythonModel.Spec.Smiles

/-! ## Target 1: lexical tokens with bracket atoms -/

/-- lexical tokens: those of the organic subset, and bracket atoms (`v` is the charge the spelling means) -/
inductive LTokB
  | plain (t : LTok)
  | brk (b : BSpell) (v : Int)

def LTokB.render : LTokB → Str
  | .plain t => t.render
  | .brk b _ => [91] ++ b.body ++ [93]

/-- the raw token `_tokenize` is expected to produce -/
def LTokB.raw : LTokB → RTok
  | .plain t => t.raw
  | .brk b _ => ⟨5, .str b.body⟩

/-- the typed token `smiles_tokenize` hands to the parser -/
def LTokB.tok : LTokB → Tok
  | .plain t => t.tok
  | .brk b v => .atom (b.tok v).1 (b.tok v).2

def LTokB.wf : LTokB → Prop
  | .plain t => t.wf
  | .brk b v => b.wf ∧ ((b.chg = [] ∧ v = 0) ∨ lookupStr b.chg chargeDict = some v)

/-- tokens that may directly follow `(` (a bracket atom may) -/
def LTokB.afterOpenOK : LTokB → Bool
  | .plain t => t.afterOpenOK
  | .brk _ _ => true

/-- the token is `(` -/
def LTokB.isOpen : LTokB → Bool
  | .plain t => t == .lpar
  | .brk _ _ => false

/-- a token list the tokenizer accepts: class conditions, and no `(` directly followed by `(`, `)` or a ring number -/
def LexOKB : Bool → List LTokB → Prop
  | _, [] => True
  | afterOpen, t :: tl => t.wf ∧ (afterOpen = true → t.afterOpenOK = true) ∧ LexOKB t.isOpen tl

/-- reading one token (organic-subset token or bracket atom) -/
theorem run_tokenB (st : TState) (t : LTokB) (h : Clean st) (hwf : t.wf) (hop : st.ttype = 2 → t.afterOpenOK = true) :
    ∃ st', run st t.render = .ok st' ∧ Clean st' ∧ st'.flush.toks = t.raw :: st.flush.toks ∧
      (st'.ttype == 2) = t.isOpen := by
  cases t with
  | plain t =>
    obtain ⟨st1, e1, c1, f1, o1⟩ := run_token st t h hwf hop
    refine ⟨st1, e1, c1, f1, ?_⟩
    show (st1.ttype == 2) = (t == LTok.lpar)
    by_cases ht : t = .lpar
    · simp [ht, o1.mpr ht]
    · have hne2 : st1.ttype ≠ 2 := fun e => ht (o1.mp e)
      have e1' : (st1.ttype == 2) = false := by simpa using hne2
      have e2' : (t == LTok.lpar) = false := by simpa using ht
      rw [e1', e2']
  | brk b v =>
    obtain ⟨st1, e1, c1, f1, t1, _⟩ := run_bspell st b h hwf.1
    refine ⟨st1, e1, c1, f1, ?_⟩
    rw [t1]; rfl

theorem run_tokensB : ∀ (ts : List LTokB) (st : TState), Clean st → LexOKB (st.ttype == 2) ts →
    ∃ st', run st (ts.flatMap LTokB.render) = .ok st' ∧ Clean st' ∧
      st'.flush.toks = (ts.map LTokB.raw).reverse ++ st.flush.toks
  | [], st, h, _ => ⟨st, rfl, h, by simp⟩
  | t :: tl, st, h, hl => by
    obtain ⟨hwf, hop, hrest⟩ := hl
    obtain ⟨st1, e1, c1, f1, o1⟩ := run_tokenB st t h hwf (fun e => hop (by simp [e]))
    have hrest' : LexOKB (st1.ttype == 2) tl := by rw [o1]; exact hrest
    obtain ⟨st2, e2, c2, f2⟩ := run_tokensB tl st1 c1 hrest'
    refine ⟨st2, ?_, c2, ?_⟩
    · show run st (t.render ++ tl.flatMap LTokB.render) = .ok st2
      rw [run_append, e1]
      exact e2
    · rw [f2, f1]; simp

/-- **`_tokenize` inverts rendering**, bracket atoms included -/
theorem tokenizeRaw_renderB (ts : List LTokB) (h : LexOKB false ts) :
    tokenizeRaw (ts.flatMap LTokB.render) = .ok (ts.map LTokB.raw) := by
  have hc : Clean {} := ⟨Or.inl rfl, Or.inl rfl⟩
  obtain ⟨st, e, c, f⟩ := run_tokensB ts {} hc (by have : (({} : TState).ttype == 2) = false := by decide
                                                   rw [this]; exact h)
  unfold tokenizeRaw
  rw [e]
  dsimp only
  obtain ⟨h12, h5, h7, _, h11⟩ := c.ne st
  unfold finish
  dsimp only
  rw [if_neg (by simpa using h5), if_neg (by simpa using h7), if_neg (by simp [h11, h12])]
  rw [f]
  simp [TState.flush, Pend.truthy]

theorem lexOKB_wf : ∀ (ts : List LTokB) (b : Bool), LexOKB b ts → ∀ t ∈ ts, t.wf
  | [], _, _, t, ht => by cases ht
  | x :: tl, b, h, t, ht => by
    rcases List.mem_cons.mp ht with rfl | ht
    · exact h.1
    · exact lexOKB_wf tl _ h.2.2 t ht

theorem convTok_rawB (t : LTokB) (h : t.wf) : convTok t.raw = .ok t.tok := by
  cases t with
  | plain t => exact convTok_raw t
  | brk b v => exact convTok_body b h.1 v h.2

theorem convToks_rawB : ∀ (ts : List LTokB), (∀ t ∈ ts, t.wf) → convToks (ts.map LTokB.raw) = .ok (ts.map LTokB.tok)
  | [], _ => rfl
  | t :: tl, h => by
    simp only [List.map_cons, convToks, convTok_rawB t (h t (by simp)),
      convToks_rawB tl (fun x hx => h x (by simp [hx]))]

/-- **`smiles_tokenize` inverts rendering** on token lists with bracket atoms -/
theorem smilesTokenize_renderB (ts : List LTokB) (h : LexOKB false ts) :
    smilesTokenize (ts.flatMap LTokB.render) = .ok (ts.map LTokB.tok) := by
  unfold smilesTokenize
  rw [tokenizeRaw_renderB ts h]
  exact convToks_rawB ts (lexOKB_wf ts false h)

/-! ### token lists without bracket atoms are the special case -/

/-- organic-subset tokens as tokens of the extended language -/
def liftT (ts : List LTok) : List LTokB := ts.map .plain

theorem liftT_tok (ts : List LTok) : (liftT ts).map LTokB.tok = ts.map LTok.tok := by
  simp [liftT, LTokB.tok]

theorem liftT_render (ts : List LTok) : (liftT ts).flatMap LTokB.render = ts.flatMap LTok.render := by
  simp [liftT, List.flatMap_map, LTokB.render]

theorem lexOKB_lift : ∀ (ts : List LTok) (b : Bool), LexOKB b (liftT ts) ↔ LexOK b ts
  | [], _ => Iff.rfl
  | t :: tl, b => by
    have ih := lexOKB_lift tl (t == .lpar)
    show (t.wf ∧ (b = true → t.afterOpenOK = true) ∧ LexOKB (t == .lpar) (liftT tl)) ↔ _
    rw [ih]
    rfl

/-- `smilesTokenize_render` (no bracket atoms) is the special case of `smilesTokenize_renderB` -/
theorem smilesTokenize_render_fromB (ts : List LTok) (h : LexOK false ts) :
    smilesTokenize (ts.flatMap LTok.render) = .ok (ts.map LTok.tok) := by
  rw [← liftT_render, ← liftT_tok]
  exact smilesTokenize_renderB _ ((lexOKB_lift ts false).mpr h)

/-! ## Target 2: spelled syntax trees with bracket atoms -/

/-- an atom as it is spelled: organic-subset spelling or bracket atom -/
inductive SAtomB
  | plain (a : SAtom)
  | brk (b : BSpell) (v : Int)

def SAtomB.ltok : SAtomB → LTokB
  | .plain a => .plain a.ltok
  | .brk b v => .brk b v

/-- the atom token it denotes: (aromatic?, the dict `_atom_parse` returns) -/
def SAtomB.toA : SAtomB → A
  | .plain a => a.toA
  | .brk b v => (aromaticBracket.contains b.sym, (b.tok v).2)

def SAtomB.wf : SAtomB → Prop
  | .plain a => a.wf
  | .brk b v => b.wf ∧ ((b.chg = [] ∧ v = 0) ∨ lookupStr b.chg chargeDict = some v)

/-- the parser type (0 aliphatic / 8 aromatic) of a bracket atom is the one `_atom_parse` returns -/
theorem tyOf_brk (b : BSpell) (v : Int) : tyOf (SAtomB.brk b v).toA = (b.tok v).1 := rfl

/-- spelled syntax tree (continuation form, like `Spec.K`) -/
inductive KSB
  | done
  | side (l : SLink) (a : SAtomB) (r : List SRing) (inner rest : KSB)
  | next (l : SLink) (a : SAtomB) (r : List SRing) (rest : KSB)

structure SChainB where
  start : SAtomB
  rings : List SRing
  k : KSB

def payloadB (a : SAtomB) (r : List SRing) : B := (a.toA, r.map SRing.toRB)

def KSB.toK : KSB → K B
  | .done => .done
  | .side l a r inner rest => .side l.toLink (payloadB a r) inner.toK rest.toK
  | .next l a r rest => .next l.toLink (payloadB a r) rest.toK

def SChainB.toChain (c : SChainB) : Chain B := ⟨payloadB c.start c.rings, c.k.toK⟩

def KSB.spell : KSB → List LTokB
  | .done => []
  | .side l a r inner rest =>
    .plain .lpar :: (liftT l.ltoks ++ (a.ltok :: (liftT (ringsToks r) ++ (inner.spell ++ (.plain .rpar :: rest.spell)))))
  | .next l a r rest => liftT l.ltoks ++ (a.ltok :: (liftT (ringsToks r) ++ rest.spell))

def SChainB.spell (c : SChainB) : List LTokB := c.start.ltok :: (liftT (ringsToks c.rings) ++ c.k.spell)

/-- the characters -/
def SChainB.text (c : SChainB) : Str := c.spell.flatMap LTokB.render

def KSB.wf : KSB → Prop
  | .done => True
  | .side l a r inner rest => l.wf ∧ a.wf ∧ (∀ x ∈ r, x.wf) ∧ inner.wf ∧ rest.wf
  | .next l a r rest => l.wf ∧ a.wf ∧ (∀ x ∈ r, x.wf) ∧ rest.wf

def SChainB.wf (c : SChainB) : Prop := c.start.wf ∧ (∀ x ∈ c.rings, x.wf) ∧ c.k.wf

/-! ### the spelled tokens are the printed symbols of the spec tree -/

theorem tok_atomB (a : SAtomB) (r : List SRing) : symTokB (.atom (payloadB a r)) = a.ltok.tok := by
  cases a with
  | plain a => exact tok_atom a r
  | brk b v => rfl

theorem tok_atomRB (a : SAtomB) (r : List SRing) :
    toToksB (printAtomR (·.2) (payloadB a r)) = (a.ltok :: liftT (ringsToks r)).map LTokB.tok := by
  have h := tok_rings r
  have ha := tok_atomB a r
  simp only [toToksB] at h
  simp only [printAtomR, toToksB, List.map_cons, ha, liftT_tok]
  rw [show (payloadB a r).2 = r.map SRing.toRB from rfl, h]

theorem tok_spellB : ∀ (k : KSB), toToksB (printKR (·.2) k.toK) = k.spell.map LTokB.tok
  | .done => rfl
  | .side l a r inner rest => by
    have h1 := tok_link l
    have h2 := tok_atomRB a r
    have h3 := tok_spellB inner
    have h4 := tok_spellB rest
    simp only [toToksB] at h1 h2 h3 h4
    simp only [KSB.toK, KSB.spell, printKR, toToksB, List.map_cons, List.map_append, liftT_tok] at h2 ⊢
    rw [h1, h2, h3, h4]
    simp [symTokB, LTokB.tok, LTok.tok]
  | .next l a r rest => by
    have h1 := tok_link l
    have h2 := tok_atomRB a r
    have h4 := tok_spellB rest
    simp only [toToksB] at h1 h2 h4
    simp only [KSB.toK, KSB.spell, printKR, toToksB, List.map_cons, List.map_append, liftT_tok] at h2 ⊢
    rw [h1, h2, h4]
    simp

theorem tok_chainB (c : SChainB) : toToksB (printR (·.2) c.toChain) = c.spell.map LTokB.tok := by
  have h2 := tok_atomRB c.start c.rings
  have h4 := tok_spellB c.k
  simp only [toToksB] at h2 h4
  simp only [SChainB.toChain, SChainB.spell, printR, toToksB, List.map_cons, List.map_append, liftT_tok] at h2 ⊢
  rw [h2, h4]
  rfl

/-! ### the spelling is a token list the tokenizer accepts -/

/-- whether the last token is `(` (`b` for the empty list) -/
def endsOpenB : Bool → List LTokB → Bool
  | b, [] => b
  | _, t :: tl => endsOpenB t.isOpen tl

theorem lexOKB_append : ∀ (xs ys : List LTokB) (b : Bool),
    LexOKB b (xs ++ ys) ↔ LexOKB b xs ∧ LexOKB (endsOpenB b xs) ys
  | [], ys, b => by simp [LexOKB, endsOpenB]
  | t :: tl, ys, b => by
    simp only [List.cons_append, LexOKB, endsOpenB, lexOKB_append tl ys t.isOpen]
    constructor
    · rintro ⟨h1, h2, h3, h4⟩; exact ⟨⟨h1, h2, h3⟩, h4⟩
    · rintro ⟨⟨h1, h2, h3⟩, h4⟩; exact ⟨h1, h2, h3, h4⟩

theorem endsOpenB_append : ∀ (xs ys : List LTokB) (b : Bool),
    endsOpenB b (xs ++ ys) = endsOpenB (endsOpenB b xs) ys
  | [], _, _ => rfl
  | t :: tl, ys, b => by simp only [List.cons_append, endsOpenB, endsOpenB_append tl ys]

theorem endsOpenB_lift : ∀ (ts : List LTok) (b : Bool), endsOpenB b (liftT ts) = endsOpen b ts
  | [], _ => rfl
  | t :: tl, b => by
    show endsOpenB (t == .lpar) (liftT tl) = endsOpen (t == .lpar) tl
    exact endsOpenB_lift tl _

theorem atomB_ltok_facts (a : SAtomB) (h : a.wf) :
    a.ltok.wf ∧ a.ltok.afterOpenOK = true ∧ a.ltok.isOpen = false := by
  cases a with
  | plain a => exact atom_ltok_facts a h
  | brk b v => exact ⟨h, rfl, rfl⟩

/-- `atom ringbond*` after a token that may be `(` -/
theorem lex_atom_ringsB (a : SAtomB) (r : List SRing) (ha : a.wf) (hr : ∀ x ∈ r, x.wf) (b : Bool) (rest : List LTokB)
    (hrest : LexOKB false rest) : LexOKB b (a.ltok :: (liftT (ringsToks r) ++ rest)) := by
  obtain ⟨f1, f2, f3⟩ := atomB_ltok_facts a ha
  obtain ⟨g1, g2⟩ := lex_rings r hr
  refine ⟨f1, fun _ => f2, ?_⟩
  rw [f3]
  exact (lexOKB_append _ _ _).mpr ⟨(lexOKB_lift _ _).mpr g1, by rw [endsOpenB_lift, g2]; exact hrest⟩

theorem endsOpenB_atom_rings (a : SAtomB) (r : List SRing) (ha : a.wf) (hr : ∀ x ∈ r, x.wf) (b : Bool) :
    endsOpenB b (a.ltok :: liftT (ringsToks r)) = false := by
  obtain ⟨_, _, f3⟩ := atomB_ltok_facts a ha
  obtain ⟨_, g2⟩ := lex_rings r hr
  simp only [endsOpenB, f3, endsOpenB_lift]
  exact g2

theorem lex_spellB : ∀ (k : KSB), k.wf → LexOKB false k.spell ∧ endsOpenB false k.spell = false
  | .done, _ => ⟨trivial, rfl⟩
  | .next l a r rest, h => by
    obtain ⟨hl, ha, hr, hrest⟩ := h
    obtain ⟨i1, i2⟩ := lex_spellB rest hrest
    obtain ⟨l1, l2⟩ := lex_link l hl false
    have hE : endsOpenB false (liftT l.ltoks) = false := by
      rw [endsOpenB_lift]
      cases hk : endsOpen false l.ltoks with
      | false => rfl
      | true => exact absurd (l2 hk) (by decide)
    refine ⟨?_, ?_⟩
    · simp only [KSB.spell]
      exact (lexOKB_append _ _ _).mpr ⟨(lexOKB_lift _ _).mpr l1, lex_atom_ringsB a r ha hr _ _ i1⟩
    · simp only [KSB.spell]
      rw [endsOpenB_append,
        show a.ltok :: (liftT (ringsToks r) ++ rest.spell) = (a.ltok :: liftT (ringsToks r)) ++ rest.spell from rfl,
        endsOpenB_append, endsOpenB_atom_rings a r ha hr]
      exact i2
  | .side l a r inner rest, h => by
    obtain ⟨hl, ha, hr, hinner, hrest⟩ := h
    obtain ⟨i1, i2⟩ := lex_spellB inner hinner
    obtain ⟨j1, j2⟩ := lex_spellB rest hrest
    obtain ⟨l1, _⟩ := lex_link l hl true
    have hclose : LexOKB false (inner.spell ++ (LTokB.plain .rpar :: rest.spell)) :=
      (lexOKB_append _ _ _).mpr ⟨i1, by rw [i2]; exact ⟨trivial, (fun h => by cases h), j1⟩⟩
    refine ⟨?_, ?_⟩
    · simp only [KSB.spell]
      refine ⟨trivial, (fun h => by cases h), ?_⟩
      exact (lexOKB_append _ _ _).mpr ⟨(lexOKB_lift _ _).mpr l1, lex_atom_ringsB a r ha hr _ _ hclose⟩
    · simp only [KSB.spell, endsOpenB]
      rw [endsOpenB_append,
        show a.ltok :: (liftT (ringsToks r) ++ (inner.spell ++ (LTokB.plain .rpar :: rest.spell))) =
          (a.ltok :: liftT (ringsToks r)) ++ (inner.spell ++ (LTokB.plain .rpar :: rest.spell)) from rfl,
        endsOpenB_append, endsOpenB_atom_rings a r ha hr, endsOpenB_append, i2]
      simp only [endsOpenB]
      exact j2

theorem lex_chainB (c : SChainB) (h : c.wf) : LexOKB false c.spell := by
  obtain ⟨ha, hr, hk⟩ := h
  exact lex_atom_ringsB c.start c.rings ha hr false _ (lex_spellB c.k hk).1

/-- the text is tokenized to the printed symbols of the spec tree -/
theorem text_tokens (c : SChainB) (h : c.wf) :
    smilesTokenize c.text = .ok (toToksB (printR (·.2) c.toChain)) := by
  rw [tok_chainB c]
  exact smilesTokenize_renderB c.spell (lex_chainB c h)

/-- **from the characters to the graph, bracket atoms included**: the spelling of a well-formed tree whose ring bonds the
    spec accepts is tokenized to the printed symbols and parsed to exactly the denoted graph -/
theorem text_to_graphB (c : SChainB) (h : c.wf) (g : Graph B) (hd : denoteR aromB (·.2) c.toChain = some g) :
    ∃ toks st, smilesTokenize c.text = .ok toks ∧ parse false toks = .ok st ∧
      st.atoms = g.atoms.map (fun b => strip b.1) ∧ st.types = g.atoms.map (fun b => tyOf b.1) ∧ st.bonds = g.bonds := by
  obtain ⟨st, hp, h1, h2, h3⟩ := parse_printR c.toChain g hd
  exact ⟨_, st, text_tokens c h, hp, h1, h2, h3⟩

/-! ## the statements are not vacuous: `c1cc[nH]c1` and `[13CH3][C@H](N)C(=O)[O-]` -/

/-- `c1cc[nH]c1` (pyrrole): a bracket atom inside an aromatic ring -/
def exPyrrole : SChainB :=
  ⟨.plain (.aro 99), [⟨.none, 1⟩],
    .next .implicit (.plain (.aro 99)) [] (.next .implicit (.plain (.aro 99)) [] (.next .implicit (.brk exB 0) []
      (.next .implicit (.plain (.aro 99)) [⟨.none, 1⟩] .done)))⟩

example : exPyrrole.text = [99, 49, 99, 99, 91, 110, 72, 93, 99, 49] := rfl

theorem ring1_wf : ∀ x ∈ [(⟨.none, 1⟩ : SRing)], x.wf := by
  intro x hx
  simp only [List.mem_singleton] at hx
  subst hx
  exact ⟨by decide, by decide, trivial⟩

theorem noRing_wf : ∀ x ∈ ([] : List SRing), x.wf := fun x hx => by cases hx

theorem aroC_wf : (SAtomB.plain (.aro 99)).wf := by
  show 99 ∈ aromaticChars
  decide

theorem exPyrrole_wf : exPyrrole.wf :=
  ⟨aroC_wf, ring1_wf, trivial, aroC_wf, noRing_wf, trivial, aroC_wf, noRing_wf, trivial,
    ⟨exB_wf, Or.inl ⟨rfl, rfl⟩⟩, noRing_wf, trivial, aroC_wf, ring1_wf, trivial⟩

/-- the denoted graph: five aromatic bonds, the last one closing the ring -/
theorem exPyrrole_denote : ∃ g, denoteR aromB (·.2) exPyrrole.toChain = some g ∧
    g.bonds = [(1, 0, 4), (2, 1, 4), (3, 2, 4), (4, 3, 4), (4, 0, 4)] ∧
    g.atoms.map (fun b => strip b.1) =
      [{ element := [67] }, { element := [67] }, { element := [67] },
       { element := [78], bracket := true, hyd := some 1 }, { element := [67] }] ∧
    g.atoms.map (fun b => tyOf b.1) = [8, 8, 8, 8, 8] :=
  ⟨_, rfl, rfl, rfl, rfl⟩

/-- from the ten characters of `c1cc[nH]c1` to the parser state -/
example : ∃ toks st, smilesTokenize [99, 49, 99, 99, 91, 110, 72, 93, 99, 49] = .ok toks ∧ parse false toks = .ok st ∧
    st.bonds = [(1, 0, 4), (2, 1, 4), (3, 2, 4), (4, 3, 4), (4, 0, 4)] ∧ st.types = [8, 8, 8, 8, 8] ∧
    st.atoms = [{ element := [67] }, { element := [67] }, { element := [67] },
       { element := [78], bracket := true, hyd := some 1 }, { element := [67] }] := by
  obtain ⟨g, hd, hb, ha, ht⟩ := exPyrrole_denote
  obtain ⟨toks, st, h1, h2, h3, h4, h5⟩ := text_to_graphB exPyrrole exPyrrole_wf g hd
  exact ⟨toks, st, h1, h2, by rw [h5, hb], by rw [h4, ht], by rw [h3, ha]⟩

/-- `[13CH3]`, `[C@H]`, `[O-]` -/
def exMe : BSpell := ⟨[49, 51], [67], 0, some (some 3), [], []⟩
def exCa : BSpell := ⟨[], [67], 1, some none, [], []⟩
def exOm : BSpell := ⟨[], [79], 0, none, [45], []⟩

theorem exMe_wf : exMe.wf :=
  ⟨Or.inr ⟨49, [51], rfl, by decide, by decide, by decide, by decide⟩, ⟨67, [], rfl, by decide, by decide, by decide, by decide⟩,
   by decide, (by intro n hn; cases hn; decide), Or.inl rfl, by decide, by decide⟩
theorem exCa_wf : exCa.wf :=
  ⟨Or.inl rfl, ⟨67, [], rfl, by decide, by decide, by decide, by decide⟩, by decide, (by intro n hn; cases hn),
   Or.inl rfl, by decide, by decide⟩
theorem exOm_wf : exOm.wf :=
  ⟨Or.inl rfl, ⟨79, [], rfl, by decide, by decide, by decide, by decide⟩, by decide, (by intro n hn; cases hn),
   Or.inr ⟨45, [], rfl, by decide, by decide, by decide, by decide⟩, by decide, by decide⟩

/-- `[13CH3][C@H](N)C(=O)[O-]` (alanine anion, labelled): isotope, chirality, hydrogens, charge, two branches -/
def exAla : SChainB :=
  ⟨.brk exMe 0, [],
    .next .implicit (.brk exCa 0) []
      (.side .implicit (.plain (.org 78)) [] .done
        (.next .implicit (.plain .cC) []
          (.side (.bond 61) (.plain (.org 79)) [] .done
            (.next .implicit (.brk exOm (-1)) [] .done))))⟩

example : exAla.text = [91, 49, 51, 67, 72, 51, 93, 91, 67, 64, 72, 93, 40, 78, 41, 67, 40, 61, 79, 41, 91, 79, 45, 93] := rfl

theorem orgN_wf : (SAtomB.plain (.org 78)).wf := by
  show 78 ∈ organicChars
  decide

theorem orgO_wf : (SAtomB.plain (.org 79)).wf := by
  show 79 ∈ organicChars
  decide

theorem dbl_wf : (SLink.bond 61).wf := by
  show 61 ∈ bondChars
  decide

theorem exAla_wf : exAla.wf :=
  ⟨⟨exMe_wf, Or.inl ⟨rfl, rfl⟩⟩, noRing_wf,
    trivial, ⟨exCa_wf, Or.inl ⟨rfl, rfl⟩⟩, noRing_wf,
    trivial, orgN_wf, noRing_wf, trivial,
    trivial, trivial, noRing_wf,
    dbl_wf, orgO_wf, noRing_wf, trivial,
    trivial, ⟨exOm_wf, Or.inr (by decide)⟩, noRing_wf, trivial⟩

theorem exAla_denote : ∃ g, denoteR aromB (·.2) exAla.toChain = some g ∧
    g.bonds = [(1, 0, 1), (2, 1, 1), (3, 1, 1), (4, 3, 2), (5, 3, 1)] ∧
    g.atoms.map (fun b => strip b.1) =
      [{ element := [67], bracket := true, isotope := some 13, hyd := some 3 },
       { element := [67], bracket := true, hyd := some 1 }, { element := [78] }, { element := [67] }, { element := [79] },
       { element := [79], bracket := true, charge := -1, hyd := some 0 }] ∧
    g.atoms.map (fun b => tyOf b.1) = [0, 0, 0, 0, 0, 0] ∧
    g.atoms.map (fun b => b.1.2.stereo) = [none, some true, none, none, none, none] :=
  ⟨_, rfl, rfl, rfl, rfl, rfl⟩

/-- from the 24 characters of `[13CH3][C@H](N)C(=O)[O-]` to the parser state -/
example : ∃ toks st,
    smilesTokenize [91, 49, 51, 67, 72, 51, 93, 91, 67, 64, 72, 93, 40, 78, 41, 67, 40, 61, 79, 41, 91, 79, 45, 93] = .ok toks ∧
    parse false toks = .ok st ∧ st.bonds = [(1, 0, 1), (2, 1, 1), (3, 1, 1), (4, 3, 2), (5, 3, 1)] ∧
    st.atoms = [{ element := [67], bracket := true, isotope := some 13, hyd := some 3 },
       { element := [67], bracket := true, hyd := some 1 }, { element := [78] }, { element := [67] }, { element := [79] },
       { element := [79], bracket := true, charge := -1, hyd := some 0 }] := by
  obtain ⟨g, hd, hb, ha, _, _⟩ := exAla_denote
  obtain ⟨toks, st, h1, h2, h3, _, h5⟩ := text_to_graphB exAla exAla_wf g hd
  exact ⟨toks, st, h1, h2, by rw [h5, hb], by rw [h3, ha]⟩

end ChythonModel.Proofs.C03
