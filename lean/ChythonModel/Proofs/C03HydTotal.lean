import ChythonModel.Proofs.C03BuildBonds
import ChythonModel.Model.C03Hydrogens
/-!
# C03 — the hydrogen loop of `create_molecule` is total on every molecule the structural part builds

`molHydrogens` (model of the second half of `create_molecule`) can only fail with `KeyError` (an atom without adjacency
entry, a neighbour that is not an atom) or `ValenceTable` (an element without compiled valence rules).  Neither can
happen on the output of `buildMol`: atomic numbers come from the regenerated element table (every one of which has a
compiled valence table), adjacency keys are the atom numbers, and the bond loop only stores neighbours that are keys.
-/
namespace ChythonModel.Proofs.C03
open ChythonModel.Model.C03 ChythonModel.Gen.C03 ChythonModel.Model.Valence

/-! ## every element symbol resolves to an atomic number with a compiled valence table -/

theorem elements_have_tables : ∀ p ∈ elements, (tableOf p.2.1).isSome = true := by decide +kernel

theorem lookupStr_mem {β} (k : Str) : ∀ (l : List (Str × β)) (v : β), lookupStr k l = some v → (k, v) ∈ l
  | [], v, h => by simp [lookupStr] at h
  | (a, b) :: tl, v, h => by
    unfold lookupStr at h
    split at h
    · rename_i hk
      have : a = k := by simpa using hk
      cases h; subst this; simp
    · exact List.mem_cons_of_mem _ (lookupStr_mem k tl v h)

theorem atomCheck_table (a : AtomTok) (z : Nat) (h : atomCheck a = .ok z) : (tableOf z).isSome = true := by
  unfold atomCheck at h
  split at h
  · cases h
  · rename_i z' isos hl
    split at h
    · cases h
    · split at h
      · cases h
      · cases h
        exact elements_have_tables _ (lookupStr_mem _ _ _ hl)

theorem buildAtoms_tables : ∀ (ns : List Nat) (as : List AtomTok) (out), buildAtoms ns as = .ok out →
    ∀ a ∈ out, (tableOf a.2.1).isSome = true
  | [], _, out, h => by simp [buildAtoms] at h; subst h; simp
  | _ :: _, [], out, h => by simp [buildAtoms] at h; subst h; simp
  | n :: ns, a :: as, out, h => by
    unfold buildAtoms at h
    split at h
    · cases h
    · rename_i z hz
      split at h
      · cases h
      · rename_i tl htl
        cases h
        intro x hx
        simp only [List.mem_cons] at hx
        rcases hx with rfl | hx
        · exact atomCheck_table a z hz
        · exact buildAtoms_tables ns as tl htl x hx

/-! ## the bond loop only stores neighbours that are keys of the adjacency -/

/-- every stored neighbour number is a key of the adjacency -/
def NbClosed (adj : List (Nat × List (Nat × Nat))) : Prop :=
  ∀ p ∈ adj, ∀ kb ∈ p.2, kb.1 ∈ adj.map (·.1)

theorem adjAdd_mem (n m b : Nat) : ∀ (adj : List (Nat × List (Nat × Nat))) (p : Nat × List (Nat × Nat)),
    p ∈ adjAdd adj n m b → p ∈ adj ∨ ∃ l, (p.1, l) ∈ adj ∧ p.2 = l ++ [(m, b)]
  | [], p, h => by simp [adjAdd] at h
  | (a, l) :: tl, p, h => by
    unfold adjAdd at h
    split at h
    · simp only [List.mem_cons] at h
      rcases h with rfl | h
      · exact Or.inr ⟨l, by simp, rfl⟩
      · exact Or.inl (by simp [h])
    · simp only [List.mem_cons] at h
      rcases h with rfl | h
      · exact Or.inl (by simp)
      · rcases adjAdd_mem n m b tl p h with h | ⟨l', h1, h2⟩
        · exact Or.inl (by simp [h])
        · exact Or.inr ⟨l', by simp [h1], h2⟩

theorem NbClosed_adjAdd (adj : List (Nat × List (Nat × Nat))) (n m b : Nat) (hc : NbClosed adj)
    (hm : m ∈ adj.map (·.1)) : NbClosed (adjAdd adj n m b) := by
  intro p hp kb hkb
  rw [adjAdd_keys]
  rcases adjAdd_mem n m b adj p hp with h | ⟨l, h1, h2⟩
  · exact hc p h kb hkb
  · rw [h2] at hkb
    simp only [List.mem_append, List.mem_singleton] at hkb
    rcases hkb with hkb | rfl
    · exact hc _ h1 kb hkb
    · exact hm

theorem key_of_lookupNat {β} (k : Nat) (l : List (Nat × β)) (v : β) (h : lookupNat k l = some v) :
    k ∈ l.map (·.1) :=
  List.mem_map.mpr ⟨(k, v), lookupNat_mem k l v h, rfl⟩

theorem buildBonds_closed (mapping : List Nat) : ∀ (bs : List (Nat × Nat × Nat))
    (adj out : List (Nat × List (Nat × Nat))), NbClosed adj → buildBonds mapping bs adj = .ok out →
    NbClosed out ∧ out.map (·.1) = adj.map (·.1)
  | [], adj, out, hc, h => by simp [buildBonds] at h; subst h; exact ⟨hc, rfl⟩
  | (i, j, b) :: tl, adj, out, hc, h => by
    unfold buildBonds at h
    split at h
    · rename_i n m _ _
      split at h
      · cases h
      · split at h
        · rename_i nl ml hn hm
          split at h
          · cases h
          · split at h
            · cases h
            · have hnk := key_of_lookupNat n adj nl hn
              have hmk := key_of_lookupNat m adj ml hm
              have c1 := NbClosed_adjAdd adj n m b hc hmk
              have c2 := NbClosed_adjAdd (adjAdd adj n m b) m n b c1 (by rw [adjAdd_keys]; exact hnk)
              obtain ⟨r1, r2⟩ := buildBonds_closed mapping tl _ out c2 h
              exact ⟨r1, by rw [r2, adjAdd_keys, adjAdd_keys]⟩
        · cases h
    · cases h

/-! ## well-formed built molecules -/

/-- what the hydrogen loop relies on -/
structure HydWF (m : MolOut) : Prop where
  tables : ∀ a ∈ m.atoms, (tableOf a.2.1).isSome = true
  keys : m.adj.map (·.1) = m.atoms.map (·.1)
  closed : NbClosed m.adj

/-- **the structural part of `create_molecule` only builds well-formed molecules** -/
theorem buildMol_wf (r : MolRec) (m : MolOut) (h : buildMol r = .ok m) : HydWF m := by
  unfold buildMol at h
  split at h
  · cases h
  · rename_i atoms ha
    split at h
    · cases h
    · rename_i adj hb
      cases h
      have hinit : NbClosed (atoms.map fun a => (a.1, ([] : List (Nat × Nat)))) := by
        intro p hp kb hkb
        simp only [List.mem_map] at hp
        obtain ⟨a, _, rfl⟩ := hp
        simp at hkb
      obtain ⟨c, k⟩ := buildBonds_closed r.mapping r.bonds _ adj hinit hb
      exact ⟨buildAtoms_tables _ _ atoms ha, by rw [k, List.map_map]; rfl, c⟩

/-! ## the hydrogen loop on a well-formed molecule -/

theorem mapM_some_of_forall {α β} (f : α → Option β) : ∀ (l : List α), (∀ x ∈ l, ∃ y, f x = some y) →
    ∃ ys, l.mapM f = some ys
  | [], _ => ⟨[], by simp⟩
  | x :: tl, h => by
    obtain ⟨y, hy⟩ := h x (by simp)
    obtain ⟨ys, hys⟩ := mapM_some_of_forall f tl (fun z hz => h z (by simp [hz]))
    exact ⟨y :: ys, by simp [List.mapM_cons, hy, hys]⟩

theorem zOfAtom_some (m : MolOut) (k : Nat) (h : k ∈ m.atoms.map (·.1)) : ∃ z, zOfAtom m k = some z := by
  unfold zOfAtom
  simp only [List.mem_map] at h
  obtain ⟨a, ha, rfl⟩ := h
  have : (m.atoms.find? (·.1 == a.1)).isSome = true := by
    rw [List.find?_isSome]
    exact ⟨a, ha, by simp⟩
  obtain ⟨x, hx⟩ := Option.isSome_iff_exists.mp this
  exact ⟨x.2.1, by simp [hx]⟩

theorem hCtx_some (m : MolOut) (wf : HydWF m) (a : Nat × Nat × Option Nat × Int × Bool × Option Nat)
    (ha : a ∈ m.atoms) : ∃ c, hCtx m a = some c ∧ c.z = a.2.1 := by
  obtain ⟨nb, hnb⟩ := lookupNat_of_key a.1 m.adj (by rw [wf.keys]; exact List.mem_map.mpr ⟨a, ha, rfl⟩)
  have hmem := lookupNat_mem _ _ _ hnb
  obtain ⟨bs, hbs⟩ := mapM_some_of_forall (fun (kb : Nat × Nat) => (zOfAtom m kb.1).map fun z => (kb.2, z)) nb (by
    intro kb hkb
    have hk : kb.1 ∈ m.atoms.map (·.1) := by rw [← wf.keys]; exact wf.closed _ hmem kb hkb
    obtain ⟨z, hz⟩ := zOfAtom_some m kb.1 hk
    exact ⟨(kb.2, z), by simp [hz]⟩)
  refine ⟨⟨a.2.1, a.2.2.2.1, a.2.2.2.2.1, bs⟩, ?_, rfl⟩
  unfold hCtx
  rw [hnb]
  dsimp only
  rw [hbs]
  rfl

theorem hydLoop_total (m : MolOut) (wf : HydWF m) :
    ∀ (as : List (Nat × Nat × Option Nat × Int × Bool × Option Nat)), (∀ a ∈ as, a ∈ m.atoms) →
    ∃ l, hydLoop m as = .ok l ∧ l.map (·.1) = as.map (·.1)
  | [], _ => ⟨[], rfl, rfl⟩
  | a :: tl, h => by
    obtain ⟨c, hc, hz⟩ := hCtx_some m wf a (h a (by simp))
    have ht := wf.tables a (h a (by simp))
    rw [← hz] at ht
    obtain ⟨t, htt⟩ := Option.isSome_iff_exists.mp ht
    obtain ⟨rest, hr, hm⟩ := hydLoop_total m wf tl (fun x hx => h x (by simp [hx]))
    refine ⟨(a.1, (assignWith (calcWith t) (checkWith t) c a.2.2.2.2.2).1,
      (assignWith (calcWith t) (checkWith t) c a.2.2.2.2.2).2) :: rest, ?_, by simp [hm]⟩
    unfold hydLoop
    rw [hc]
    dsimp only
    simp only [assignH, htt, Option.map_some]
    rw [hr]

/-- the hydrogen loop raises nothing on a well-formed molecule and yields one entry per atom, in atom order -/
theorem molHydrogens_total_of_wf (m : MolOut) (wf : HydWF m) :
    ∃ l, molHydrogens m = .ok l ∧ l.map (·.1) = m.atoms.map (·.1) :=
  hydLoop_total m wf m.atoms (fun _ h => h)

/-- **On every molecule the structural part of `create_molecule` builds, the hydrogen loop raises nothing** (no
    `KeyError`, every element has a compiled valence table) **and yields one entry per atom, in atom order.** -/
theorem molHydrogens_total (r : MolRec) (m : MolOut) (h : buildMol r = .ok m) :
    ∃ l, molHydrogens m = .ok l ∧ l.map (·.1) = m.atoms.map (·.1) :=
  molHydrogens_total_of_wf m (buildMol_wf r m h)

end ChythonModel.Proofs.C03
