import ChythonModel.Proofs.C11Meta
import ChythonModel.Proofs.C11Record
import ChythonModel.Proofs.C11RdfFrame
import ChythonModel.Proofs.C11V3000
import ChythonModel.Spec.CtfileData
/-!
# C11 — SD data items: read ∘ write = the documented normalisation, for raw (padded, blank-line containing) values and
padded names; mol-block and record boundaries are unaffected by the data items
-/
namespace ChythonModel.Proofs.C11
open ChythonModel.Model.C11 ChythonModel.Gen.Mdl ChythonModel.Spec.CtfileData

/-- a value line as the writer receives it (not normalised): one line, not shaped like a data header -/
structure RawLine (v : Str) : Prop where
  oneLine : '\n' ∉ v
  notKey : matchMeta (v ++ ['\n']) = none

/-- a field name as the writer receives it (possibly padded): no `< > &`, one line, not blank -/
structure RawKey (k : Str) : Prop where
  plain : ∀ c ∈ k, c ≠ '<' ∧ c ≠ '>' ∧ c ≠ '&' ∧ c ≠ '\n'
  notBlank : strip k ≠ []

theorem mem_of_mem_strip {c : Char} {s : Str} (h : c ∈ strip s) : c ∈ s := by
  unfold strip rstrip lstrip at h
  have h1 : c ∈ (s.dropWhile isSpace).reverse.dropWhile isSpace := List.mem_reverse.mp h
  have h2 : c ∈ (s.dropWhile isSpace).reverse := (List.dropWhile_sublist _).subset h1
  have h3 : c ∈ s.dropWhile isSpace := List.mem_reverse.mp h2
  exact (List.dropWhile_sublist _).subset h3

theorem rawKey_ne {k : Str} (h : RawKey k) : k ≠ [] := by
  intro hk; subst hk; exact h.notBlank (by decide)

theorem dictAppend_acc (d : List (Str × List Str)) (k v : Str) (acc : List Str) (hd : (d.any (·.1 == k)) = false) :
    dictAppend (if acc.isEmpty then d else d ++ [(k, acc)]) k v =
      (if (acc ++ [v]).isEmpty then d else d ++ [(k, acc ++ [v])]) := by
  cases hacc : acc with
  | nil =>
    simp only [List.isEmpty_nil, if_true, List.nil_append, List.isEmpty_cons, Bool.false_eq_true, if_false]
    unfold dictAppend
    simp [hd]
  | cons a as =>
    simp only [List.isEmpty_cons, Bool.false_eq_true, if_false, List.cons_append]
    unfold dictAppend
    have hany : (d ++ [(k, a :: as)]).any (·.1 == k) = true := by simp
    simp only [hany, if_true, List.map_append, List.map_cons, List.map_nil]
    have hmap : d.map (fun kv => if (kv.1 == k) = true then (kv.1, kv.2 ++ [v]) else kv) = d := by
      have hd' := List.any_eq_false.mp hd
      refine (List.map_congr_left (fun kv hkv => ?_)).trans (List.map_id _)
      have := hd' kv hkv
      simp only [Bool.not_eq_true] at this
      simp [this]
    have hmap' : d.map (fun kv => if kv.1 = k then (kv.1, kv.2 ++ [v]) else kv) = d := by
      simpa using hmap
    simp [hmap']

/-- the value lines of one data item, raw: blank lines are skipped, the others are stored stripped -/
theorem readMetaLoop_rawvalues (k : Str) (hk : k ≠ []) :
    ∀ (vs : List Str) (rest : List Str) (d : List (Str × List Str)) (acc : List Str),
      (∀ v ∈ vs, RawLine v) → (d.any (·.1 == k)) = false →
      readMetaLoop (vs.map (· ++ ['\n']) ++ rest) (some k) (if acc.isEmpty then d else d ++ [(k, acc)]) =
      readMetaLoop rest (some k)
        (if (acc ++ normLines vs).isEmpty then d else d ++ [(k, acc ++ normLines vs)]) := by
  intro vs
  induction vs with
  | nil => intro rest d acc _ _; simp [normLines]
  | cons v vs ih =>
    intro rest d acc hv hd
    have hw := hv v (by simp)
    have hs : strip (v ++ ['\n']) = strip v := strip_snoc_newline v
    have hkne : k.isEmpty = false := by
      cases hk' : k with
      | nil => exact absurd hk' hk
      | cons _ _ => rfl
    have ih' := fun acc' => ih rest d acc' (fun x hx => hv x (by simp [hx])) hd
    simp only [List.map_cons, List.cons_append, readMetaLoop, hw.notKey, hkne, Bool.not_false, if_true, hs]
    by_cases hb : (strip v).isEmpty = true
    · have hn : normLines (v :: vs) = normLines vs := by
        simp [normLines, hb]
      simp only [hb, if_true, hn]
      exact ih' acc
    · have hb' : (strip v).isEmpty = false := by simpa using hb
      have hn : normLines (v :: vs) = strip v :: normLines vs := by
        simp [normLines, hb']
      simp only [hb', Bool.false_eq_true, if_false, hn]
      rw [dictAppend_acc d k (strip v) acc hd]
      have := ih' (acc ++ [strip v])
      simpa [List.append_assoc] using this

/-- the key line written for a raw key matches the pattern with groups `"  "`, key, `"\n"` -/
theorem matchMeta_rawkeyline {k : Str} (h : RawKey k) :
    matchMeta (sL ">  <" ++ k ++ sL ">\n") = some (sL "  ", k, sL "\n") := by
  have hk : '>' ∉ k := fun hm => (h.plain _ hm).2.1 rfl
  have hline : sL ">  <" ++ k ++ sL ">\n" = '>' :: (sL "  " ++ '<' :: (k ++ '>' :: sL "\n")) := by simp [sL]
  rw [hline]
  obtain ⟨a1, a2⟩ := takeWhile_absent (c := '<') (s := sL "  ") (k ++ '>' :: sL "\n") (by decide)
  obtain ⟨b1, b2⟩ := takeWhile_absent (c := '>') (s := k) (sL "\n") hk
  unfold matchMeta
  simp only [a1, a2, b1, b2]
  have hne : k.isEmpty = false := by
    cases hk' : k with
    | nil => exact absurd hk' (rawKey_ne h)
    | cons _ _ => rfl
  simp [hne, sL]

theorem unescape_id_of_strip {k : Str} (h : RawKey k) : applyEscapes sdfReadEscape (strip k) = strip k := by
  have h1 : '&' ∉ strip k := fun hm => (h.plain _ (mem_of_mem_strip hm)).2.2.1 rfl
  show replace "&lt;".toList "<".toList (replace "&gt;".toList ">".toList (strip k)) = strip k
  rw [replace_absent "&gt;".toList ">".toList '&' "gt;".toList rfl _ h1,
    replace_absent "&lt;".toList "<".toList '&' "lt;".toList rfl _ h1]

theorem escape_id_of_raw {k : Str} (h : RawKey k) : applyEscapes sdfWriteEscape k = k := by
  have h1 : '>' ∉ k := fun hm => (h.plain _ hm).2.1 rfl
  have h2 : '<' ∉ k := fun hm => (h.plain _ hm).1 rfl
  show replace "<".toList "&lt;".toList (replace ">".toList "&gt;".toList k) = k
  rw [replace_absent ">".toList "&gt;".toList '>' [] rfl k h1, replace_absent "<".toList "&lt;".toList '<' [] rfl k h2]

/-- the dictionary after one more data item whose normalised name is new -/
def pushItem (d : List (Str × List Str)) (k : Str) (vs : List Str) : List (Str × List Str) :=
  if (normLines vs).isEmpty then d else d ++ [(strip k, normLines vs)]

theorem readMetaLoop_rawchunk (k : Str) (vs : List Str) (rest : List Str) (mkey : Option Str) (d : List (Str × List Str))
    (hk : RawKey k) (hv : ∀ v ∈ vs, RawLine v) (hd : (d.any (·.1 == strip k)) = false) :
    readMetaLoop (chunkLines k vs ++ rest) mkey d = readMetaLoop rest (some (strip k)) (pushItem d k vs) := by
  unfold chunkLines
  have hshape : (sL ">  <" ++ k ++ sL ">\n") :: (vs.map (· ++ ['\n'])) ++ [sL "\n"] ++ rest =
      (sL ">  <" ++ k ++ sL ">\n") :: (vs.map (· ++ ['\n']) ++ ([sL "\n"] ++ rest)) := by
    simp only [List.cons_append, List.append_assoc]
  rw [hshape]
  simp only [readMetaLoop, matchMeta_rawkeyline hk]
  have hskne : (strip k).isEmpty = false := by
    cases hk' : strip k with
    | nil => exact absurd hk' hk.notBlank
    | cons _ _ => rfl
  have hparts : (([sL "  ", k, sL "\n"].map strip).filter fun y => !y.isEmpty) = [strip k] := by
    have e1 : strip (sL "  ") = [] := by decide
    have e2 : strip (sL "\n") = [] := by decide
    simp [e1, e2, hskne]
  simp only [hparts, joinWith, unescape_id_of_strip hk]
  have := readMetaLoop_rawvalues (strip k) hk.notBlank vs ([sL "\n"] ++ rest) d [] hv hd
  simp only [List.isEmpty_nil, if_true, List.nil_append] at this
  rw [this]
  have hm : matchMeta (sL "\n") = none := by decide
  have hs : strip (sL "\n") = [] := by decide
  simp [readMetaLoop, hm, hskne, hs, pushItem]

/-- the dictionary `read_metadata` builds from the items, in order -/
def pushItems (d : List (Str × List Str)) : List (Str × List Str) → List (Str × List Str)
  | [] => d
  | kv :: kvs => pushItems (pushItem d kv.1 kv.2) kvs

theorem pushItem_keys (d : List (Str × List Str)) (k : Str) (vs : List Str) (x : Str)
    (h : x ∈ (pushItem d k vs).map (·.1)) : x ∈ d.map (·.1) ∨ x = strip k := by
  unfold pushItem at h
  split at h
  · exact Or.inl h
  · simp only [List.map_append, List.map_cons, List.map_nil, List.mem_append, List.mem_cons, List.not_mem_nil,
      or_false] at h
    exact h

theorem readMetaLoop_rawchunks :
    ∀ (kvs : List (Str × List Str)) (mkey : Option Str) (d : List (Str × List Str)),
      (∀ kv ∈ kvs, RawKey kv.1 ∧ (∀ v ∈ kv.2, RawLine v)) →
      (kvs.map fun kv => strip kv.1).Nodup → (∀ kv ∈ kvs, strip kv.1 ∉ d.map (·.1)) →
      readMetaLoop ((kvs.map fun kv => chunkLines kv.1 kv.2).flatten) mkey d = pushItems d kvs := by
  intro kvs
  induction kvs with
  | nil => intro mkey d _ _ _; simp [readMetaLoop, pushItems]
  | cons kv kvs ih =>
    intro mkey d hwf hnd hfresh
    obtain ⟨k, vs⟩ := kv
    obtain ⟨hk, hv⟩ := hwf (k, vs) (by simp)
    have hd : (d.any (·.1 == strip k)) = false := by
      rw [List.any_eq_false]
      intro x hx hxk
      simp only [beq_iff_eq] at hxk
      exact hfresh (k, vs) (by simp) (by rw [← hxk]; exact List.mem_map_of_mem hx)
    simp only [List.map_cons, List.flatten_cons, pushItems]
    rw [readMetaLoop_rawchunk k vs _ mkey d hk hv hd]
    simp only [List.map_cons, List.nodup_cons] at hnd
    apply ih (some (strip k)) (pushItem d k vs) (fun x hx => hwf x (by simp [hx])) hnd.2
    intro kv hkv hmem
    rcases pushItem_keys d k vs _ hmem with h | h
    · exact hfresh kv (by simp [hkv]) h
    · exact hnd.1 (by rw [← h]; exact List.mem_map_of_mem (f := fun kv => strip kv.1) hkv)

theorem pushItems_eq (kvs : List (Str × List Str)) : ∀ (d : List (Str × List Str)),
    (pushItems d kvs).map (fun kv => (kv.1, joinWith ['\n'] kv.2)) =
      d.map (fun kv => (kv.1, joinWith ['\n'] kv.2)) ++ normMeta kvs := by
  induction kvs with
  | nil => intro d; simp [pushItems, normMeta]
  | cons kv kvs ih =>
    intro d
    simp only [pushItems]
    rw [ih]
    unfold pushItem normMeta
    by_cases hb : normLines kv.2 = []
    · simp [hb]
    · simp [hb]

theorem rawchunk_text (k : Str) (vs : List Str) (hk : RawKey k) (hne : vs ≠ []) :
    writeMetaChunk (k, joinWith ['\n'] vs) = (chunkLines k vs).flatten := by
  unfold writeMetaChunk chunkLines
  simp only [escape_id_of_raw hk, List.flatten_cons, List.flatten_append, List.flatten_nil, List.append_nil]
  have h2 : sL "\n\n" = ['\n'] ++ sL "\n" := rfl
  rw [h2, ← List.append_assoc _ ['\n'], List.append_assoc (sL ">  <" ++ k ++ sL ">\n"), joinWith_nl vs hne]

theorem rawChunkLines_isLine (k : Str) (vs : List Str) (hk : RawKey k) (hv : ∀ v ∈ vs, RawLine v) :
    ∀ l ∈ chunkLines k vs, IsLine l := by
  intro l hl
  unfold chunkLines at hl
  simp only [List.cons_append, List.mem_cons, List.mem_append, List.mem_map, List.not_mem_nil, or_false] at hl
  rcases hl with h | ⟨v, hvm, h⟩ | h
  · subst h
    refine ⟨sL ">  <" ++ k ++ ['>'], by simp [sL], ?_⟩
    intro hm
    simp only [sL, List.mem_append, List.mem_cons, List.not_mem_nil, or_false] at hm
    rcases hm with (hm | hm) | hm
    · revert hm; decide
    · exact (hk.plain _ hm).2.2.2 rfl
    · cases hm
  · subst h
    exact ⟨v, rfl, (hv v hvm).oneLine⟩
  · subst h
    exact ⟨[], rfl, by simp⟩

/-- **read ∘ write = normalise** for SD data items -/
theorem sdf_meta_norm_roundtrip (kvs : List (Str × List Str))
    (hwf : ∀ kv ∈ kvs, RawKey kv.1 ∧ (∀ v ∈ kv.2, RawLine v) ∧ kv.2 ≠ [])
    (hnd : (kvs.map fun kv => strip kv.1).Nodup) :
    readMeta (splitLinesKeep ((kvs.map fun kv => writeMetaChunk (kv.1, joinWith ['\n'] kv.2)).flatten)) =
      normMeta kvs := by
  have htext : (kvs.map fun kv => writeMetaChunk (kv.1, joinWith ['\n'] kv.2)).flatten =
      ((kvs.map fun kv => chunkLines kv.1 kv.2).flatten).flatten := by
    rw [List.flatten_flatten, List.map_map]
    congr 1
    apply List.map_congr_left
    intro kv hkv
    obtain ⟨h1, _, h3⟩ := hwf kv hkv
    exact rawchunk_text kv.1 kv.2 h1 h3
  rw [htext, splitLinesKeep_flatten]
  · unfold readMeta
    rw [readMetaLoop_rawchunks kvs none [] (fun kv hkv => ⟨(hwf kv hkv).1, (hwf kv hkv).2.1⟩) hnd (by simp)]
    have := pushItems_eq kvs []
    simpa using this
  · intro l hl
    simp only [List.mem_flatten, List.mem_map] at hl
    obtain ⟨ls, ⟨kv, hkv, rfl⟩, hl⟩ := hl
    obtain ⟨h1, h2, _⟩ := hwf kv hkv
    exact rawChunkLines_isLine kv.1 kv.2 h1 h2 l hl

/-! ## the specification's domain is inside the proved domain -/

theorem not_nl_of_printable {l : Str} (h : l.all printable = true) : '\n' ∉ l := by
  intro hm
  have := List.all_eq_true.mp h _ hm
  revert this; decide

theorem rawLine_of_spec {l : Str} (h : sdDataLineOk l = true) : RawLine l ∧ isSep (l ++ ['\n']) = false := by
  unfold sdDataLineOk at h
  simp only [Bool.and_eq_true, Bool.not_eq_true'] at h
  obtain ⟨⟨hp, hgt⟩, hsep⟩ := h
  refine ⟨⟨not_nl_of_printable hp, ?_⟩, ?_⟩
  · cases l with
    | nil => decide
    | cons c cs =>
      have hc : c ≠ '>' := by
        intro hc; subst hc; simp [firstIs] at hgt
      unfold matchMeta
      simp only [List.cons_append]
      split
      · rename_i heq
        simp only [List.cons.injEq] at heq
        exact absurd heq.1 hc
      · rfl
  · unfold isSep
    rw [startsWith_snoc_nl (by decide)]
    exact hsep

theorem rawKey_of_spec {k : Str} (h : sdNameOk k = true) : RawKey k := by
  unfold sdNameOk at h
  simp only [Bool.and_eq_true, Bool.not_eq_true', List.all_eq_true, bne_iff_ne, ne_eq] at h
  obtain ⟨hall, hne⟩ := h
  refine ⟨fun c hc => ?_, ?_⟩
  · obtain ⟨⟨⟨hp, h1⟩, h2⟩, h3⟩ := hall c hc
    refine ⟨h1, h2, h3, ?_⟩
    intro hnl; subst hnl; revert hp; decide
  · intro he; rw [he] at hne; simp at hne

/-! ## boundaries -/

/-- the end of the MOL block (`__m_end`: first line starting with `M  END`) is decided by the MOL lines alone: whatever
    follows — any data items, inside or outside any domain — does not move it -/
theorem firstMEnd_append (ls ml : List Str) (k : Nat) (h : firstMEnd ls = some k) : firstMEnd (ls ++ ml) = some k := by
  unfold firstMEnd at h ⊢
  cases hf : ls.findIdx? isMEnd with
  | none => rw [hf] at h; simp at h
  | some i =>
    rw [hf] at h
    have : (ls ++ ml).findIdx? isMEnd = some i := by
      rw [List.findIdx?_append, hf]; rfl
    rw [this]; exact h

/-- no line of a written data item starts with `$$$$` when no value line does: the record delimiter search of
    `_read_block` is unaffected by the data items -/
theorem chunkLines_noSep (k : Str) (vs : List Str) (hv : ∀ v ∈ vs, isSep (v ++ ['\n']) = false) :
    ∀ l ∈ chunkLines k vs, isSep l = false := by
  intro l hl
  unfold chunkLines at hl
  simp only [List.cons_append, List.mem_cons, List.mem_append, List.mem_map, List.not_mem_nil, or_false] at hl
  rcases hl with h | ⟨v, hvm, h⟩ | h
  · subst h
    unfold isSep
    rw [List.append_assoc, startsWith_append_of_le _ _ _ (by decide)]; decide
  · subst h; exact hv v hvm
  · subst h; decide

/-- **the MOL part of a record does not depend on what follows it**: for a block that consists of the written MOL lines
    followed by *arbitrary* lines `ml` (any data items, in or outside any domain, any garbage), `read_structure` cuts the
    MOL block at the same place, parses the same molecule and numbers, and hands exactly `ml` to `read_metadata` -/
theorem sdf_record_any_meta (g : WMol) (h : WFMol g) (ml : List Str)
    (hname : isMEnd (g.name ++ sL "\n") = false)
    (hnums : (g.atoms.map fun a => (a.num : Int)).Nodup) (hnum0 : ∀ a ∈ g.atoms, a.num ≠ 0)
    (ls : List Str) (hw : writeMol2000 true g = .ok ls) :
    firstMEnd (ls ++ ml) = some ls.length ∧
    readStructure ⟨ls ++ ml, firstMEnd (ls ++ ml)⟩ =
      .ok { mol := .v2 (expectedMol true g), mapping := g.atoms.map fun a => (a.num : Int), md := readMeta ml } := by
  obtain ⟨pre, hls, hlen, hpre, hp0, l4, hp4, hl4⟩ := writeMol2000_shape true g h ls hw
  have hpreAll : ∀ l ∈ pre, isMEnd l = false := by
    intro l hl
    cases pre with
    | nil => cases hl
    | cons p0 ptl =>
      simp only [List.mem_cons] at hl
      rcases hl with h1 | h1
      · subst h1
        simp only [List.getElem?_cons_zero, Option.some.injEq] at hp0
        rw [hp0]; exact hname
      · exact hpre l (by simpa using h1)
  have hblock : ls ++ ml = pre ++ sL "M  END\n" :: ml := by rw [hls]; simp
  have hfm : firstMEnd (ls ++ ml) = some ls.length := by
    rw [hblock, firstMEnd_block pre ml hpreAll, hls]; simp
  refine ⟨hfm, ?_⟩
  have hmol : blockMol ⟨ls ++ ml, firstMEnd (ls ++ ml)⟩ = .ok ls := by
    simp [blockMol, hfm, pure, Except.pure]
  have hmt : blockMeta ⟨ls ++ ml, firstMEnd (ls ++ ml)⟩ = .ok ml := by
    simp [blockMeta, hfm, pure, Except.pure]
  have hv3 : isV3000 ls = .ok false := by
    have : ls[4]? = some l4 := by
      rw [hls, List.getElem?_append_left (by omega)]; exact hp4
    simp only [isV3000, lineAt, this, bind, Except.bind, pure, Except.pure]
    have : startsWith l4 (sL "M  V30 BEGIN CTAB") = false := not_startsWith_M hl4 _
    rw [this]
  have hparse := molblock_roundtrip true g h ls hw
  have hmaps : (AnyMol.v2 (expectedMol true g)).maps = g.atoms.map fun a => (a.num : Int) := by
    simp only [AnyMol.maps, expectedMol, List.map_map]
    apply List.map_congr_left
    intro a _
    simp only [Function.comp, withProps, expectedAtom]
    split <;> split <;> split <;> simp
  have hmapping : postprocessMapping (g.atoms.map fun a => (a.num : Int)) = .ok (g.atoms.map fun a => (a.num : Int)) := by
    apply mapping_preserved
    · intro hnil
      exact h.atomsNe (List.map_eq_nil_iff.mp hnil)
    · intro m hm
      simp only [List.mem_map] at hm
      obtain ⟨a, ha, rfl⟩ := hm
      have := hnum0 a ha
      omega
    · exact hnums
  simp only [readStructure, hmol, hmt, hv3, hparse, hmaps, hmapping, bind, Except.bind, pure, Except.pure,
    Bool.false_eq_true, if_false, Functor.map, Except.map]

/-- `read_metadata` on the lines of the written data items = the normalised dictionary -/
theorem readMeta_rawchunks (kvs : List (Str × List Str))
    (hwf : ∀ kv ∈ kvs, RawKey kv.1 ∧ (∀ v ∈ kv.2, RawLine v))
    (hnd : (kvs.map fun kv => strip kv.1).Nodup) :
    readMeta ((kvs.map fun kv => chunkLines kv.1 kv.2).flatten) = normMeta kvs := by
  unfold readMeta
  rw [readMetaLoop_rawchunks kvs none [] hwf hnd (by simp)]
  have := pushItems_eq kvs []
  simpa using this

/-- `_read_block` on a file: the record made of MOL lines and data items in the domain ends at its own `$$$$` line and
    its `__m_end` is the one of the MOL lines alone -/
theorem sdf_block_boundary (bufSize : Nat) (ls ml rest : List Str) (k : Nat) (hm : firstMEnd ls = some k)
    (hwf : WFBlock bufSize (ls ++ ml)) :
    readBlock bufSize (ls ++ ml ++ sepLine :: rest) = .ok (⟨ls ++ ml, some k⟩, rest) := by
  rw [readBlock_render bufSize (ls ++ ml) rest hwf, firstMEnd_append ls ml k hm]

/-! ## RDF `$DTYPE/$DATUM`: read ∘ write = the documented normalisation -/

/-- a datum line as the writer receives it: one line, not starting with a `$DTYPE` / `$DATUM` marker -/
structure RawRdfLine (v : Str) : Prop where
  oneLine : '\n' ∉ v
  notDtype : startsWith v (sL "$DTYPE") = false
  notDatum : startsWith v (sL "$DATUM") = false

structure RawRdfKey (k : Str) : Prop where
  oneLine : '\n' ∉ k
  notBlank : strip k ≠ []

theorem strip_cons_space (s : Str) : strip (' ' :: s) = strip s := by
  unfold strip lstrip
  have : isSpace ' ' = true := by decide
  simp [this]

theorem rdfMetaLoop_rawvalues (k : Str) (hk : k ≠ []) :
    ∀ (vs : List Str) (rest : List Str) (d : List (Str × List Str)) (acc : List Str),
      (∀ v ∈ vs, RawRdfLine v) → (d.any (·.1 == k)) = false →
      rdfMetaLoop datumStrip (vs.map (· ++ ['\n']) ++ rest) k (if acc.isEmpty then d else d ++ [(k, acc)]) =
      rdfMetaLoop datumStrip rest k (if (acc ++ normLines vs).isEmpty then d else d ++ [(k, acc ++ normLines vs)]) := by
  intro vs
  induction vs with
  | nil => intro rest d acc _ _; simp [normLines]
  | cons v vs ih =>
    intro rest d acc hv hd
    have hw := hv v (by simp)
    have h1 : startsWith (v ++ ['\n']) (sL "$DTYPE") = false := by
      rw [startsWith_snoc_nl (by decide)]; exact hw.notDtype
    have h2 : datumStrip (v ++ ['\n']) = v ++ ['\n'] := by
      unfold datumStrip removePrefix
      have : (sL "$DATUM").isPrefixOf (v ++ ['\n']) = false := by
        have := startsWith_snoc_nl (v := v) (p := sL "$DATUM") (by decide)
        unfold startsWith at this
        rw [this]; exact hw.notDatum
      simp [this]
    have hs : strip (v ++ ['\n']) = strip v := strip_snoc_newline v
    have hkne : k.isEmpty = false := by
      cases hk' : k with
      | nil => exact absurd hk' hk
      | cons _ _ => rfl
    have ih' := fun acc' => ih rest d acc' (fun x hx => hv x (by simp [hx])) hd
    simp only [List.map_cons, List.cons_append, rdfMetaLoop, h1, Bool.false_eq_true, if_false, hkne, Bool.not_false,
      if_true, h2, hs]
    by_cases hb : (strip v).isEmpty = true
    · have hn : normLines (v :: vs) = normLines vs := by simp [normLines, hb]
      simp only [hb, if_true, hn]
      exact ih' acc
    · have hb' : (strip v).isEmpty = false := by simpa using hb
      have hn : normLines (v :: vs) = strip v :: normLines vs := by simp [normLines, hb']
      simp only [hb', Bool.false_eq_true, if_false, hn]
      rw [dictAppend_acc d k (strip v) acc hd]
      have := ih' (acc ++ [strip v])
      simpa [List.append_assoc] using this

theorem rdfMetaLoop_rawchunk (k : Str) (v : Str) (vs : List Str) (rest : List Str) (mkey : Str) (d : List (Str × List Str))
    (hk : RawRdfKey k) (_hv1 : '\n' ∉ v) (hv : ∀ x ∈ vs, RawRdfLine x) (hd : (d.any (·.1 == strip k)) = false) :
    rdfMetaLoop datumStrip (rdfChunkLines k (v :: vs) ++ rest) mkey d =
      rdfMetaLoop datumStrip rest (strip k) (pushItem d k (v :: vs)) := by
  have hskne : (strip k).isEmpty = false := by
    cases hk' : strip k with
    | nil => exact absurd hk' hk.notBlank
    | cons _ _ => rfl
  have l1 : startsWith (sL "$DTYPE " ++ k ++ sL "\n") (sL "$DTYPE") = true := by
    rw [List.append_assoc, startsWith_append_of_le _ _ _ (by decide)]; decide
  have l1k : strip ((sL "$DTYPE " ++ k ++ sL "\n").drop 7) = strip k := by
    have : (sL "$DTYPE " ++ k ++ sL "\n").drop 7 = k ++ ['\n'] := by simp [sL]
    rw [this, strip_snoc_newline]
  have l2 : startsWith (sL "$DATUM " ++ v ++ sL "\n") (sL "$DTYPE") = false := by
    rw [List.append_assoc, startsWith_append_of_le _ _ _ (by decide)]; decide
  have l2d : strip (datumStrip (sL "$DATUM " ++ v ++ sL "\n")) = strip v := by
    have : datumStrip (sL "$DATUM " ++ v ++ sL "\n") = ' ' :: (v ++ ['\n']) := by
      unfold datumStrip removePrefix
      have hp : (sL "$DATUM").isPrefixOf (sL "$DATUM " ++ v ++ sL "\n") = true := by
        have := startsWith_append_of_le (sL "$DATUM") (sL "$DATUM ") (v ++ sL "\n") (by decide)
        unfold startsWith at this
        rw [List.append_assoc, this]; decide
      simp [sL]
    rw [this, strip_cons_space, strip_snoc_newline]
  unfold rdfChunkLines
  simp only [List.cons_append, rdfMetaLoop, l1, if_true, l1k, hskne, Bool.false_eq_true, if_false, l2, Bool.not_false,
    l2d]
  have hvals := fun acc => rdfMetaLoop_rawvalues (strip k) hk.notBlank vs rest d acc hv hd
  by_cases hb : (strip v).isEmpty = true
  · have hn : normLines (v :: vs) = normLines vs := by simp [normLines, hb]
    simp only [hb, if_true, pushItem, hn]
    have := hvals []
    simpa using this
  · have hb' : (strip v).isEmpty = false := by simpa using hb
    have hn : normLines (v :: vs) = strip v :: normLines vs := by simp [normLines, hb']
    simp only [hb', Bool.false_eq_true, if_false, pushItem, hn]
    have hstep : dictAppend d (strip k) (strip v) = d ++ [(strip k, [strip v])] := by
      unfold dictAppend; simp [hd]
    rw [hstep]
    have := hvals [strip v]
    simpa using this

theorem rdfMetaLoop_rawchunks :
    ∀ (kvs : List (Str × Str × List Str)) (mkey : Str) (d : List (Str × List Str)),
      (∀ kv ∈ kvs, RawRdfKey kv.1 ∧ '\n' ∉ kv.2.1 ∧ (∀ v ∈ kv.2.2, RawRdfLine v)) →
      (kvs.map fun kv => strip kv.1).Nodup → (∀ kv ∈ kvs, strip kv.1 ∉ d.map (·.1)) →
      rdfMetaLoop datumStrip ((kvs.map fun kv => rdfChunkLines kv.1 (kv.2.1 :: kv.2.2)).flatten) mkey d =
        pushItems d (kvs.map fun kv => (kv.1, kv.2.1 :: kv.2.2)) := by
  intro kvs
  induction kvs with
  | nil => intro mkey d _ _ _; simp [rdfMetaLoop, pushItems]
  | cons kv kvs ih =>
    intro mkey d hwf hnd hfresh
    obtain ⟨k, v, vs⟩ := kv
    obtain ⟨hk, hv1, hv⟩ := hwf (k, v, vs) (by simp)
    have hd : (d.any (·.1 == strip k)) = false := by
      rw [List.any_eq_false]
      intro x hx hxk
      simp only [beq_iff_eq] at hxk
      exact hfresh (k, v, vs) (by simp) (by rw [← hxk]; exact List.mem_map_of_mem hx)
    simp only [List.map_cons, List.flatten_cons, pushItems]
    rw [rdfMetaLoop_rawchunk k v vs _ mkey d hk hv1 hv hd]
    simp only [List.map_cons, List.nodup_cons] at hnd
    apply ih (strip k) (pushItem d k (v :: vs)) (fun x hx => hwf x (by simp [hx])) hnd.2
    intro kv hkv hmem
    rcases pushItem_keys d k (v :: vs) _ hmem with h | h
    · exact hfresh kv (by simp [hkv]) h
    · exact hnd.1 (by rw [← h]; exact List.mem_map_of_mem (f := fun kv => strip kv.1) hkv)

theorem rawRdfChunkLines_isLine (k v : Str) (vs : List Str) (hk : RawRdfKey k) (hv1 : '\n' ∉ v)
    (hv : ∀ x ∈ vs, RawRdfLine x) : ∀ l ∈ rdfChunkLines k (v :: vs), IsLine l := by
  intro l hl
  unfold rdfChunkLines at hl
  simp only [List.mem_cons, List.mem_map] at hl
  rcases hl with h | h | ⟨x, hx, h⟩
  · subst h
    refine ⟨sL "$DTYPE " ++ k, by simp [sL], ?_⟩
    intro hm
    simp only [List.mem_append] at hm
    rcases hm with hm | hm
    · revert hm; decide
    · exact hk.oneLine hm
  · subst h
    refine ⟨sL "$DATUM " ++ v, by simp [sL], ?_⟩
    intro hm
    simp only [List.mem_append] at hm
    rcases hm with hm | hm
    · revert hm; decide
    · exact hv1 hm
  · subst h
    exact ⟨x, rfl, (hv x hx).oneLine⟩

/-- **read ∘ write = normalise** for RDF data: first line of the value after `$DATUM `, continuation lines below -/
theorem rdf_meta_norm_roundtrip (kvs : List (Str × Str × List Str))
    (hwf : ∀ kv ∈ kvs, RawRdfKey kv.1 ∧ '\n' ∉ kv.2.1 ∧ (∀ v ∈ kv.2.2, RawRdfLine v))
    (hnd : (kvs.map fun kv => strip kv.1).Nodup) :
    rdfReadMeta (splitLinesKeep ((kvs.map fun kv => rdfMetaChunk (kv.1, joinWith ['\n'] (kv.2.1 :: kv.2.2))).flatten)) =
      normMeta (kvs.map fun kv => (kv.1, kv.2.1 :: kv.2.2)) := by
  have htext : (kvs.map fun kv => rdfMetaChunk (kv.1, joinWith ['\n'] (kv.2.1 :: kv.2.2))).flatten =
      ((kvs.map fun kv => rdfChunkLines kv.1 (kv.2.1 :: kv.2.2)).flatten).flatten := by
    rw [List.flatten_flatten, List.map_map]
    congr 1
    apply List.map_congr_left
    intro kv _
    exact rdf_chunk_text kv.1 kv.2.1 kv.2.2
  rw [htext, splitLinesKeep_flatten]
  · unfold rdfReadMeta rdfReadMetaWith
    rw [rdfMetaLoop_rawchunks kvs [] [] hwf hnd (by simp)]
    have := pushItems_eq (kvs.map fun kv => (kv.1, kv.2.1 :: kv.2.2)) []
    simpa using this
  · intro l hl
    simp only [List.mem_flatten, List.mem_map] at hl
    obtain ⟨ls, ⟨kv, hkv, rfl⟩, hl⟩ := hl
    obtain ⟨h1, h2, h3⟩ := hwf kv hkv
    exact rawRdfChunkLines_isLine kv.1 kv.2.1 kv.2.2 h1 h2 h3 l hl

theorem rawRdfLine_of_spec {l : Str} (h : rdDataLineOk l = true) : RawRdfLine l := by
  unfold rdDataLineOk at h
  simp only [Bool.and_eq_true, Bool.not_eq_true'] at h
  obtain ⟨hp, hd⟩ := h
  refine ⟨not_nl_of_printable hp, ?_, ?_⟩ <;>
  · cases l with
    | nil => decide
    | cons c cs =>
      have hc : c ≠ '$' := by intro hc; subst hc; simp [firstIs] at hd
      simp [startsWith, sL, List.isPrefixOf, Ne.symm hc]

/-! ## RDF: where the data of a record start does not depend on the data -/

theorem mStartFrom_set : ∀ (ls : List Str) (i ms : Nat), ms ≠ 0 → mStartFrom i ms ls = ms := by
  intro ls
  induction ls with
  | nil => intro i ms _; rfl
  | cons l ls ih =>
    intro i ms h
    have : (ms == 0) = false := by simpa using h
    simp only [mStartFrom, this, Bool.false_and, Bool.false_eq_true, if_false]
    exact ih (i + 1) ms h

theorem mStartFrom_skip : ∀ (ls rest : List Str) (i : Nat), (∀ l ∈ ls, isDtype l = false) →
    mStartFrom i 0 (ls ++ rest) = mStartFrom (i + ls.length) 0 rest := by
  intro ls
  induction ls with
  | nil => intro rest i _; simp
  | cons l ls ih =>
    intro rest i h
    have hl : isDtype l = false := h l (by simp)
    simp only [List.cons_append, mStartFrom, hl, Bool.and_false, Bool.false_eq_true, if_false, List.length_cons]
    rw [ih rest (i + 1) (fun x hx => h x (by simp [hx]))]
    congr 1; omega

/-- `__m_start` of an RDF record = number of structure lines, whatever data lines follow the first `$DTYPE` line -/
theorem rdfMStart_data (ls : List Str) (d : Str) (ml : List Str) (hne : ls ≠ [])
    (hls : ∀ l ∈ ls, isDtype l = false) (hd : isDtype d = true) :
    rdfMStart (ls ++ d :: ml) = ls.length ∧
      rdfBlockMeta ⟨ls ++ d :: ml, rdfMStart (ls ++ d :: ml)⟩ = d :: ml := by
  have hlen : ls.length ≠ 0 := by
    cases ls with
    | nil => exact absurd rfl hne
    | cons _ _ => simp
  have h1 : rdfMStart (ls ++ d :: ml) = ls.length := by
    unfold rdfMStart
    rw [mStartFrom_skip ls (d :: ml) 0 hls]
    simp only [mStartFrom, hd, Nat.zero_add, beq_self_eq_true, Bool.and_self, if_true]
    exact mStartFrom_set ml _ _ hlen
  refine ⟨h1, ?_⟩
  rw [h1]
  unfold rdfBlockMeta
  have : (ls.length == 0) = false := by simpa using hlen
  simp [this]

theorem nodup_of_distinct : ∀ (ks : List Str), distinct ks = true → ks.Nodup := by
  intro ks
  induction ks with
  | nil => intro _; exact List.nodup_nil
  | cons a as ih =>
    intro h
    simp only [distinct, Bool.and_eq_true, Bool.not_eq_true', List.contains_eq_mem, decide_eq_false_iff_not] at h
    exact List.nodup_cons.mpr ⟨h.1, ih h.2⟩

/-- the SD specification's domain implies the hypotheses of the round-trip theorems -/
theorem sdMeta_of_spec (md : Meta) (h : sdMetaOk md = true) :
    (∀ kv ∈ md, RawKey kv.1 ∧ (∀ v ∈ kv.2, RawLine v) ∧ kv.2 ≠ []) ∧ (md.map fun kv => strip kv.1).Nodup ∧
    (∀ kv ∈ md, ∀ v ∈ kv.2, isSep (v ++ ['\n']) = false) := by
  unfold sdMetaOk namesDistinct at h
  simp only [Bool.and_eq_true, List.all_eq_true, Bool.not_eq_true'] at h
  obtain ⟨hall, hd⟩ := h
  refine ⟨fun kv hkv => ?_, nodup_of_distinct _ hd, fun kv hkv v hv => ?_⟩
  · obtain ⟨⟨hk, hne⟩, hv⟩ := hall kv hkv
    refine ⟨rawKey_of_spec hk, fun v hvm => (rawLine_of_spec (hv v hvm)).1, ?_⟩
    intro he; rw [he] at hne; simp at hne
  · exact (rawLine_of_spec ((hall kv hkv).2 v hv)).2

theorem rdMeta_of_spec (md : List (Str × Str × List Str))
    (h : rdMetaOk (md.map fun kv => (kv.1, kv.2.1 :: kv.2.2)) = true) :
    (∀ kv ∈ md, RawRdfKey kv.1 ∧ '\n' ∉ kv.2.1 ∧ (∀ v ∈ kv.2.2, RawRdfLine v)) ∧ (md.map fun kv => strip kv.1).Nodup := by
  unfold rdMetaOk namesDistinct at h
  simp only [Bool.and_eq_true, List.all_eq_true, Bool.not_eq_true', List.map_map] at h
  obtain ⟨hall, hd⟩ := h
  refine ⟨fun kv hkv => ?_, ?_⟩
  · have := hall (kv.1, kv.2.1 :: kv.2.2) (List.mem_map_of_mem (f := fun kv => (kv.1, kv.2.1 :: kv.2.2)) hkv)
    obtain ⟨⟨hk, _⟩, hv⟩ := this
    unfold rdNameOk at hk
    simp only [Bool.and_eq_true, Bool.not_eq_true'] at hk
    refine ⟨⟨not_nl_of_printable hk.1, ?_⟩, ?_, ?_⟩
    · intro he; have := hk.2; rw [he] at this; simp at this
    · exact (rawRdfLine_of_spec (hv kv.2.1 (by simp))).oneLine
    · intro v hvm; exact rawRdfLine_of_spec (hv v (by simp [hvm]))
  · have := nodup_of_distinct _ hd
    have he : (List.map ((fun kv : Str × List Str => strip kv.fst) ∘ fun kv : Str × Str × List Str =>
        (kv.fst, kv.snd.fst :: kv.snd.snd)) md) = List.map (fun kv => strip kv.fst) md := rfl
    rw [he] at this
    exact this

theorem not_fmt_of_not_dollar (l t : Str) (h : firstIs '$' l = false) (ht : firstIs '$' t = false ∨ l ≠ []) :
    isFmt (l ++ t) = false := by
  cases l with
  | nil =>
    rcases ht with ht | ht
    · cases t with
      | nil => decide
      | cons c cs =>
        have hc : c ≠ '$' := by intro hc; subst hc; simp [firstIs] at ht
        simp [isFmt, startsWith, sL, List.isPrefixOf, Ne.symm hc]
    · exact absurd rfl ht
  | cons c cs =>
    have hc : c ≠ '$' := by intro hc; subst hc; simp [firstIs] at h
    simp [isFmt, startsWith, sL, List.isPrefixOf, Ne.symm hc]

/-- no line written for RDF data in the specification's domain is taken for a record marker (`$RFMT` / `$MFMT`) -/
theorem rdfChunkLines_noFmt (k v : Str) (vs : List Str) (hv : ∀ x ∈ vs, firstIs '$' x = false) :
    ∀ l ∈ rdfChunkLines k (v :: vs), isFmt l = false := by
  intro l hl
  unfold rdfChunkLines at hl
  simp only [List.mem_cons, List.mem_map] at hl
  rcases hl with h | h | ⟨x, hx, h⟩
  · subst h
    unfold isFmt
    rw [List.append_assoc, startsWith_append_of_le _ _ _ (by decide), startsWith_append_of_le _ _ _ (by decide)]; decide
  · subst h
    unfold isFmt
    rw [List.append_assoc, startsWith_append_of_le _ _ _ (by decide), startsWith_append_of_le _ _ _ (by decide)]; decide
  · subst h
    exact not_fmt_of_not_dollar x ['\n'] (hv x hx) (Or.inl (by decide))

/-! ## V3000 SD records: the `M  END` of the block is found whatever data follow -/

theorem not_mend_of_v30 (x : Str) : isMEnd (sL "M  V30 " ++ x) = false := by
  unfold isMEnd
  rw [startsWith_append_of_le _ _ _ (by decide)]; decide

theorem writeMol3000_notMEnd (mapping : Bool) (g : WMol) (ls : List Str) (hw : writeMol3000 mapping g = .ok ls) :
    ∀ l ∈ ls, isMEnd l = false := by
  unfold writeMol3000 at hw
  simp only [bind, Except.bind] at hw
  cases hwl : mapM' (writeWedge3 g.atoms) (enumFrom 1 g.wedge) with
  | error e => rw [hwl] at hw; cases hw
  | ok wl =>
    rw [hwl] at hw
    simp only at hw
    cases hbl : mapM' (writeBond3 g.atoms)
        (enumFrom (g.wedge.length + 1) ((bondsIter g.atoms []).filter fun b => !inWedge g.wedge b.1 b.2.1)) with
    | error e => rw [hbl] at hw; cases hw
    | ok bl =>
      rw [hbl] at hw
      simp only [pure, Except.pure, Except.ok.injEq] at hw
      subst hw
      have hW : ∀ l ∈ wl, isMEnd l = false := by
        apply mapM'_all (P := fun l => isMEnd l = false) hwl
        intro p l hl
        obtain ⟨i, n, m, s⟩ := p
        simp only [writeWedge3, bind, Except.bind] at hl
        cases h1 : bondOrder g.atoms n m with
        | error e => rw [h1] at hl; cases hl
        | ok o =>
          rw [h1] at hl
          cases h2 : atomIndex g.atoms n with
          | error e => rw [h2] at hl; cases hl
          | ok a =>
            rw [h2] at hl
            cases h3 : atomIndex g.atoms m with
            | error e => rw [h3] at hl; cases hl
            | ok b =>
              rw [h3] at hl
              simp only [pure, Except.pure, Except.ok.injEq] at hl
              subst hl
              simp only [List.append_assoc]
              exact not_mend_of_v30 _
      have hB : ∀ l ∈ bl, isMEnd l = false := by
        apply mapM'_all (P := fun l => isMEnd l = false) hbl
        intro p l hl
        obtain ⟨i, n, m, o⟩ := p
        simp only [writeBond3, bind, Except.bind] at hl
        cases h2 : atomIndex g.atoms n with
        | error e => rw [h2] at hl; cases hl
        | ok a =>
          rw [h2] at hl
          cases h3 : atomIndex g.atoms m with
          | error e => rw [h3] at hl; cases hl
          | ok b =>
            rw [h3] at hl
            simp only [pure, Except.pure, Except.ok.injEq] at hl
            subst hl
            simp only [List.append_assoc]
            exact not_mend_of_v30 _
      intro l hl
      simp only [List.mem_append] at hl
      rcases hl with ((((hl | hl) | hl) | hl) | hl) | hl
      · simp only [List.mem_cons, List.not_mem_nil, or_false] at hl
        rcases hl with h | h | h
        · subst h; decide
        · subst h; simp only [List.append_assoc]; exact not_mend_of_v30 _
        · subst h; decide
      · simp only [List.mem_map] at hl
        obtain ⟨p, _, h⟩ := hl
        subst h; unfold writeAtom3; simp only [List.append_assoc]; exact not_mend_of_v30 _
      · simp only [List.mem_cons, List.not_mem_nil, or_false] at hl
        rcases hl with h | h <;> subst h <;> decide
      · exact hW l hl
      · exact hB l hl
      · simp only [List.mem_cons, List.not_mem_nil, or_false] at hl
        rcases hl with h | h <;> subst h <;> decide

/-- the block `ESDFWrite.write` emits before the data items, followed by arbitrary lines: `__m_end` is its own `M  END` -/
theorem esdf_mend_any_data (mapping : Bool) (g : WMol) (ls ml : List Str) (hw : writeMol3000 mapping g = .ok ls)
    (hname : isMEnd (g.name ++ sL "\n") = false) :
    firstMEnd (v3Header g.name ++ ls ++ sL "M  END\n" :: ml) = some ((v3Header g.name ++ ls).length + 1) := by
  apply firstMEnd_block
  intro l hl
  simp only [List.mem_append] at hl
  rcases hl with h | h
  · simp only [v3Header, List.mem_cons, List.not_mem_nil, or_false] at h
    rcases h with h | h | h | h
    · subst h; exact hname
    · subst h; decide
    · subst h; decide
    · subst h; decide
  · exact writeMol3000_notMEnd mapping g ls hw l h

/-! ## outside the domain: a value line starting with `$$$$` ends the record there -/

theorem readBlockGo_anysep (bufSize : Nat) (sep : Str) (hsep : isSep sep = true) (rest : List Str) :
    ∀ (b : List Str) (n : Nat) (buf : List Str), (∀ l ∈ b, isSep l = false) → n + b.length ≤ bufSize →
      readBlockGo bufSize n buf (firstMEnd buf) (b ++ sep :: rest) = .ok (⟨buf ++ b, firstMEnd (buf ++ b)⟩, rest) := by
  intro b
  induction b with
  | nil =>
    intro n buf _ _
    simp [readBlockGo, hsep, pure, Except.pure]
  | cons l ls ih =>
    intro n buf hs hn
    have hl : isSep l = false := hs l (by simp)
    have hne : (n == bufSize) = false := by
      simp only [List.length_cons] at hn
      simp only [beq_eq_false_iff_ne, ne_eq]; omega
    simp only [List.cons_append, readBlockGo, hl, hne, Bool.false_eq_true, if_false]
    rw [← firstMEnd_snoc]
    have := ih (n + 1) (buf ++ [l]) (fun x hx => hs x (by simp [hx])) (by simp only [List.length_cons] at hn; omega)
    simpa [List.append_assoc] using this

/-- `_read_block` stops at the first line starting with `$$$$`, wherever it stands: the record is `b`, and everything
    after that line (the rest of the value, the real delimiter) is left for the next record -/
theorem readBlock_cut_at_sep (bufSize : Nat) (b : List Str) (sep : Str) (rest : List Str) (hsep : isSep sep = true)
    (h : WFBlock bufSize b) : readBlock bufSize (b ++ sep :: rest) = .ok (⟨b, firstMEnd b⟩, rest) := by
  unfold readBlock
  have := readBlockGo_anysep bufSize sep hsep rest b 0 [] h.noSep (by simpa using h.fits)
  have h0 : firstMEnd ([] : List Str) = none := rfl
  rw [h0] at this
  simp only [List.nil_append] at this
  rw [this]
  cases hb : b with
  | nil => exact absurd hb h.ne
  | cons _ _ => rfl

end ChythonModel.Proofs.C11
