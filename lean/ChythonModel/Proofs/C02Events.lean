import ChythonModel.Proofs.C02Pairing
import ChythonModel.Proofs.C02Rounds
namespace ChythonModel.Proofs.C02
open ChythonModel.Model ChythonModel.Model.SmilesWriter ChythonModel.Model.C02RT

/-! ## the reader's closure table is `pairAll` on the closure events of the token list -/

def openPairs (o : List (Nat × Nat × Option Str)) : List (Nat × Nat) := o.map fun p => (p.1, p.2.1)

theorem lookup_openPairs (o : List (Nat × Nat × Option Str)) (c : Nat) :
    (openPairs o).lookup c = (o.lookup c).map (·.1) := by
  induction o with
  | nil => rfl
  | cons p tl ih =>
    simp only [openPairs, List.map_cons, List.lookup] at ih ⊢
    split <;> simp_all

theorem filter_openPairs (o : List (Nat × Nat × Option Str)) (c : Nat) :
    (openPairs o).filter (fun p => p.1 != c) = openPairs (o.filter (fun p => p.1 != c)) := by
  induction o with
  | nil => rfl
  | cons p tl ih =>
    simp only [openPairs, List.map_cons, List.filter_cons] at ih ⊢
    split <;> simp_all

theorem rrun_events : ∀ (ts : List WTok) (st st' : RState), rrun st ts = .ok st' →
    ∃ new, st'.edges = new.reverse ++ st.edges ∧
      pairAll (openPairs st.opened) (tokenEvents st.prev st.stack ts) = (openPairs st'.opened, closureEdges new) := by
  intro ts
  induction ts with
  | nil =>
    intro st st' h
    simp only [rrun, Except.ok.injEq] at h
    subst h
    exact ⟨[], by simp, by simp [tokenEvents, pairAll, closureEdges]⟩
  | cons t tl ih =>
    intro st st' h
    simp only [rrun] at h
    split at h
    · cases h
    · rename_i st1 hstep
      obtain ⟨new, hnew, hp⟩ := ih st1 st' h
      cases t with
      | atom n a =>
        simp only [rstep, Except.ok.injEq] at hstep
        subst hstep
        simp only at hnew hp
        cases hpv : st.prev with
        | none =>
          simp only [hpv] at hnew
          exact ⟨new, hnew, by simpa [tokenEvents] using hp⟩
        | some p =>
          cases had : st.afterDot with
          | true => simp only [hpv, had] at hnew; exact ⟨new, hnew, by simpa [tokenEvents] using hp⟩
          | false =>
            simp only [hpv, had] at hnew
            refine ⟨{ a := p, b := n, closure := false, s1 := none, s2 := st.pending } :: new, by simp [hnew], ?_⟩
            simp only [tokenEvents]
            rw [hp]; simp [closureEdges]
      | bond s =>
        simp only [rstep] at hstep
        split at hstep
        · cases hstep
        · simp only [Except.ok.injEq] at hstep
          subst hstep
          exact ⟨new, hnew, by simpa [tokenEvents] using hp⟩
      | closure c =>
        simp only [rstep] at hstep
        split at hstep
        · cases hstep
        · rename_i cur hcur
          split at hstep
          · rename_i a s1 hl
            split at hstep
            · cases hstep
            · simp only [Except.ok.injEq] at hstep
              subst hstep
              simp only at hnew hp
              rw [hcur] at hp
              refine ⟨{ a := a, b := cur, closure := true, s1 := s1, s2 := st.pending } :: new, by simp [hnew], ?_⟩
              simp only [tokenEvents, hcur, List.singleton_append, pairAll, pairStep, lookup_openPairs, hl,
                Option.map_some, filter_openPairs]
              rw [hp]; simp [closureEdges]
          · rename_i hl
            simp only [Except.ok.injEq] at hstep
            subst hstep
            simp only at hnew hp
            rw [hcur] at hp
            refine ⟨new, hnew, ?_⟩
            simp only [tokenEvents, hcur, List.singleton_append, pairAll, pairStep, lookup_openPairs, hl, Option.map_none]
            have : openPairs st.opened ++ [(c, cur)] = openPairs (st.opened ++ [(c, cur, st.pending)]) := by
              simp [openPairs]
            rw [this, hp]; simp
      | lpar =>
        simp only [rstep] at hstep
        split at hstep
        · cases hstep
        · rename_i p hpv
          split at hstep
          · cases hstep
          · simp only [Except.ok.injEq] at hstep
            subst hstep
            exact ⟨new, hnew, by simpa [tokenEvents, hpv] using hp⟩
      | rpar =>
        simp only [rstep] at hstep
        split at hstep
        · cases hstep
        · rename_i p stk hs
          split at hstep
          · cases hstep
          · simp only [Except.ok.injEq] at hstep
            subst hstep
            exact ⟨new, hnew, by simpa [tokenEvents, hs] using hp⟩
      | dot =>
        simp only [rstep, Except.ok.injEq] at hstep
        subst hstep
        exact ⟨new, hnew, by simpa [tokenEvents] using hp⟩

theorem closureEdges_reverse_append (a : List REdge) : closureEdges a.reverse.reverse = closureEdges a := by simp

/-- the closure bonds among the edges read by `readToks` are what `pairAll` makes of the closure events -/
theorem readToks_closures (ts : List WTok) (es : List REdge) (h : readToks ts = .ok es) :
    pairAll [] (tokenEvents none [] ts) = ([], closureEdges es) := by
  unfold readToks at h
  split at h
  · cases h
  · rename_i st hrun
    split at h
    · cases h
    · split at h
      · cases h
      · rename_i hop
        split at h
        · cases h
        · simp only [Except.ok.injEq] at h
          obtain ⟨new, hnew, hp⟩ := rrun_events ts {} st hrun
          have hop' : st.opened = [] := by simpa using hop
          simp only [openPairs, List.map_nil, hop'] at hp
          simp only at hnew
          rw [hp, ← h, hnew]; simp

/-! ## closure events of the emitted tokens -/

/-- closure events of one atom as emitted: its closures in written order with their numbers -/
def atomEvents (casted : List (Nat × Nat)) (tokens : List (Nat × List (Nat × Nat))) (n : Nat) : List (Nat × Nat) :=
  match sortedClosures casted tokens n with
  | .ok cl => cl.map fun kc => (n, (casted.lookup kc.2).getD 0)
  | .error _ => []

def smiEvents (casted : List (Nat × Nat)) (tokens : List (Nat × List (Nat × Nat))) (smi : List FTok) : List (Nat × Nat) :=
  smi.flatMap fun t => match t with
    | .atom n => atomEvents casted tokens n
    | _ => []

@[simp] theorem te_bond (p stk s ts) : tokenEvents p stk (WTok.bond s :: ts) = tokenEvents p stk ts := by simp [tokenEvents]
@[simp] theorem te_atom (p stk n a ts) : tokenEvents p stk (WTok.atom n a :: ts) = tokenEvents (some n) stk ts := by simp [tokenEvents]
@[simp] theorem te_closure (n stk c ts) : tokenEvents (some n) stk (WTok.closure c :: ts) = (n, c) :: tokenEvents (some n) stk ts := by
  simp [tokenEvents]

theorem te_lpar_some (p stk ts) : tokenEvents (some p) stk (WTok.lpar :: ts) = tokenEvents (some p) (p :: stk) ts := by simp [tokenEvents]
theorem te_lpar_none (stk ts) : tokenEvents none stk (WTok.lpar :: ts) = tokenEvents none stk ts := by simp [tokenEvents]
theorem te_rpar_cons (prev p stk ts) : tokenEvents prev (p :: stk) (WTok.rpar :: ts) = tokenEvents (some p) stk ts := by simp [tokenEvents]
theorem te_rpar_nil (prev ts) : tokenEvents prev [] (WTok.rpar :: ts) = tokenEvents prev [] ts := by simp [tokenEvents]
@[simp] theorem te_dot (prev stk ts) : tokenEvents prev stk (WTok.dot :: ts) = tokenEvents prev stk ts := by simp [tokenEvents]
@[simp] theorem smiEvents_nil (c t) : smiEvents c t [] = [] := rfl
@[simp] theorem smiEvents_atom (c t n l) : smiEvents c t (FTok.atom n :: l) = atomEvents c t n ++ smiEvents c t l := by simp [smiEvents]
@[simp] theorem smiEvents_bond (c t a b l) : smiEvents c t (FTok.bond a b :: l) = smiEvents c t l := by simp [smiEvents]
@[simp] theorem smiEvents_lpar (c t l) : smiEvents c t (FTok.lpar :: l) = smiEvents c t l := by simp [smiEvents]
@[simp] theorem smiEvents_rpar (c t l) : smiEvents c t (FTok.rpar :: l) = smiEvents c t l := by simp [smiEvents]

theorem emitClosures_events (m : Mol) (opts : Opts) (sc : SCtx) (casted : List (Nat × Nat)) (n : Nat) :
    ∀ (cl vb : List (Nat × Nat)) cts vb', emitClosures m opts sc casted n cl vb = .ok (cts, vb') →
      ∀ stk R, tokenEvents (some n) stk (cts ++ R) =
        cl.map (fun kc => (n, (casted.lookup kc.2).getD 0)) ++ tokenEvents (some n) stk R := by
  intro cl
  induction cl with
  | nil => intro vb cts vb' h stk R; simp [emitClosures] at h; simp [h.1]
  | cons kc tl ih =>
    intro vb cts vb' h stk R
    obtain ⟨k, c⟩ := kc
    simp only [emitClosures] at h
    split at h
    · cases h
    · rename_i num hnum
      split at h
      · cases h
      · rename_i bt vb1 hb
        split at h
        · cases h
        · rename_i rest' vb2 hr
          simp only [Except.ok.injEq, Prod.mk.injEq] at h
          rw [← h.1]
          have := ih vb1 rest' vb2 hr stk R
          rcases closureBond_shape hb with hbt | ⟨s, hbt⟩ <;> subst hbt <;> simp [this, hnum]

theorem emit_events (m : Mol) (opts : Opts) (sc : SCtx) (casted : List (Nat × Nat)) (tokens : List (Nat × List (Nat × Nat))) :
    ∀ (smi : List FTok) vb out order vb', emit m opts sc casted tokens smi vb = .ok (out, order, vb') →
      ∀ prev stk R, ∃ prev' stk', tokenEvents prev stk (out ++ R) =
        smiEvents casted tokens smi ++ tokenEvents prev' stk' R := by
  intro smi
  induction smi with
  | nil =>
    intro vb out order vb' h prev stk R
    simp [emit] at h
    exact ⟨prev, stk, by simp [h.1]⟩
  | cons t tl ih =>
    intro vb out order vb' h prev stk R
    cases t with
    | atom n =>
      simp only [emit] at h
      split at h
      · cases h
      · split at h
        · cases h
        · rename_i cl hcl
          split at h
          · cases h
          · rename_i cts vb1 hc
            split at h
            · cases h
            · rename_i rest order' vb2 hr
              simp only [Except.ok.injEq, Prod.mk.injEq] at h
              obtain ⟨p', s', hih⟩ := ih _ _ _ _ hr (some n) stk R
              refine ⟨p', s', ?_⟩
              rw [← h.1]
              simp only [List.cons_append, te_atom, List.append_assoc]
              rw [emitClosures_events m opts sc casted n _ _ _ _ hc, hih]
              simp [atomEvents, hcl]
    | bond a b =>
      simp only [emit] at h
      split at h
      · cases h
      · split at h
        · cases h
        · rename_i rest order' vb2 hr
          simp only [Except.ok.injEq, Prod.mk.injEq] at h
          obtain ⟨p', s', hih⟩ := ih _ _ _ _ hr prev stk R
          refine ⟨p', s', ?_⟩
          rw [← h.1]
          simpa using hih
    | lpar =>
      simp only [emit] at h
      split at h
      · cases h
      · rename_i rest order' vb2 hr
        simp only [Except.ok.injEq, Prod.mk.injEq] at h
        rw [← h.1]
        cases prev with
        | none =>
          obtain ⟨p', s', hih⟩ := ih _ _ _ _ hr none stk R
          exact ⟨p', s', by simpa [te_lpar_none] using hih⟩
        | some p =>
          obtain ⟨p', s', hih⟩ := ih _ _ _ _ hr (some p) (p :: stk) R
          exact ⟨p', s', by simpa [te_lpar_some] using hih⟩
    | rpar =>
      simp only [emit] at h
      split at h
      · cases h
      · rename_i rest order' vb2 hr
        simp only [Except.ok.injEq, Prod.mk.injEq] at h
        rw [← h.1]
        cases stk with
        | nil =>
          obtain ⟨p', s', hih⟩ := ih _ _ _ _ hr prev [] R
          exact ⟨p', s', by simpa [te_rpar_nil] using hih⟩
        | cons p stk2 =>
          obtain ⟨p', s', hih⟩ := ih _ _ _ _ hr (some p) stk2 R
          exact ⟨p', s', by simpa [te_rpar_cons] using hih⟩

theorem tokenEvents_rounds (m : Mol) (opts : Opts) : ∀ (rs : List Round), (∀ r ∈ rs, RoundSpec m opts r) →
    ∀ prev stk, tokenEvents prev stk (joinRounds rs) = rs.flatMap fun r => smiEvents r.castedOut r.tokens r.smi := by
  intro rs
  induction rs with
  | nil => intro _ prev stk; simp [joinRounds, tokenEvents]
  | cons r tl ih =>
    intro hall prev stk
    obtain ⟨order, vb', he⟩ := (hall r (by simp)).emitted
    cases tl with
    | nil =>
      obtain ⟨p', s', h1⟩ := emit_events m opts r.sc r.castedOut r.tokens r.smi r.vbIn r.out order vb' he prev stk []
      simp only [List.append_nil] at h1
      simp [joinRounds, h1, tokenEvents]
    | cons r2 tl2 =>
      obtain ⟨p', s', h1⟩ := emit_events m opts r.sc r.castedOut r.tokens r.smi r.vbIn r.out order vb' he prev stk
        (WTok.dot :: joinRounds (r2 :: tl2))
      simp only [joinRounds, h1, List.flatMap_cons]
      have := ih (fun r' hr' => hall r' (by simp [hr'])) p' s'
      simp only [List.flatMap_cons] at this
      simp [this]

end ChythonModel.Proofs.C02
