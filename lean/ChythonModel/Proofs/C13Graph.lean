import ChythonModel.Model.Cache
/-!
# C13 — the raw graph edits keep the adjacency symmetric (same bond object on both sides)
-/
namespace ChythonModel.Proofs.C13
open ChythonModel.Model ChythonModel.Model.C13

/-- symmetric adjacency with the *same* bond object on both sides (membership form) -/
def AdjSym (adj : List (Nat × List (Nat × Bond))) : Prop :=
  ∀ a la b bd, (a, la) ∈ adj → (b, bd) ∈ la → ∃ lb, (b, lb) ∈ adj ∧ (a, bd) ∈ lb

theorem mem_insertNbr {adj : List (Nat × List (Nat × Bond))} {n k : Nat} {bd : Bond} {x : Nat} {l' : List (Nat × Bond)} :
    (x, l') ∈ insertNbr adj n k bd ↔ ∃ l, (x, l) ∈ adj ∧ l' = if x == n then l ++ [(k, bd)] else l := by
  simp only [insertNbr, List.mem_map]
  constructor
  · rintro ⟨⟨y, l⟩, hmem, heq⟩
    by_cases h : y == n
    · simp only [h, if_true, Prod.mk.injEq] at heq
      obtain ⟨rfl, rfl⟩ := heq
      exact ⟨l, hmem, by simp [h]⟩
    · simp only [h, if_false, Prod.mk.injEq, Bool.false_eq_true] at heq
      obtain ⟨rfl, rfl⟩ := heq
      exact ⟨l, hmem, by simp [h]⟩
  · rintro ⟨l, hmem, rfl⟩
    refine ⟨(x, l), hmem, ?_⟩
    by_cases h : x == n <;> simp [h]

theorem mem_eraseNbr {adj : List (Nat × List (Nat × Bond))} {n k : Nat} {x : Nat} {l' : List (Nat × Bond)} :
    (x, l') ∈ eraseNbr adj n k ↔ ∃ l, (x, l) ∈ adj ∧ l' = if x == n then l.filter (·.1 != k) else l := by
  simp only [eraseNbr, List.mem_map]
  constructor
  · rintro ⟨⟨y, l⟩, hmem, heq⟩
    by_cases h : y == n
    · simp only [h, if_true, Prod.mk.injEq] at heq
      obtain ⟨rfl, rfl⟩ := heq
      exact ⟨l, hmem, by simp [h]⟩
    · simp only [h, if_false, Prod.mk.injEq, Bool.false_eq_true] at heq
      obtain ⟨rfl, rfl⟩ := heq
      exact ⟨l, hmem, by simp [h]⟩
  · rintro ⟨l, hmem, rfl⟩
    refine ⟨(x, l), hmem, ?_⟩
    by_cases h : x == n <;> simp [h]

/-- `add_bond` keeps the adjacency symmetric -/
theorem addBond_sym {m m' : Mol} {a b order : Nat} (h : gAddBond m a b order = .ok m') (hs : AdjSym m.adj) : AdjSym m'.adj := by
  unfold gAddBond at h
  split at h; · cases h
  split at h; · cases h
  rename_i hne
  split at h; · cases h
  rename_i hex
  split at h; · cases h
  cases h
  have hxa : (m.adj.any fun p => p.1 == a) = true := by
    cases hq : (m.adj.any fun p => p.1 == a)
    · exfalso; apply hex; simp [hq]
    · rfl
  have hxb : (m.adj.any fun p => p.1 == b) = true := by
    cases hq : (m.adj.any fun p => p.1 == b)
    · exfalso; apply hex; simp [hq]
    · rfl
  obtain ⟨⟨ka, la0⟩, hka, hka'⟩ := List.any_eq_true.mp hxa
  obtain ⟨⟨kb, lb0⟩, hkb, hkb'⟩ := List.any_eq_true.mp hxb
  simp only [beq_iff_eq] at hka' hkb'
  subst hka' hkb'
  have hab : (ka == kb) = false := by
    cases hq : (ka == kb)
    · rfl
    · exact absurd hq hne
  have hba : (kb == ka) = false := by
    cases hq : (kb == ka)
    · rfl
    · have : kb = ka := beq_iff_eq.mp hq
      rw [this] at hab; simp at hab
  intro x lx y bd hx hy
  obtain ⟨l1, hl1, rfl⟩ := mem_insertNbr.mp hx
  obtain ⟨l0, hl0, rfl⟩ := mem_insertNbr.mp hl1
  -- the neighbour lists of the result
  have key : ∀ z lz, (z, lz) ∈ m.adj →
      (z, if z == kb then (if z == ka then lz ++ [(kb, { order := order })] else lz) ++ [(ka, { order := order })]
          else (if z == ka then lz ++ [(kb, { order := order })] else lz)) ∈
        insertNbr (insertNbr m.adj ka kb { order := order }) kb ka { order := order } := by
    intro z lz hz
    exact mem_insertNbr.mpr ⟨_, mem_insertNbr.mpr ⟨lz, hz, rfl⟩, rfl⟩
  by_cases hxb : x == kb
  · have hxa : (x == ka) = false := by
      have : x = kb := by simpa using hxb
      subst this; exact hba
    simp only [hxb, hxa, if_true, if_false, Bool.false_eq_true, List.mem_append, List.mem_singleton, Prod.mk.injEq] at hy
    rcases hy with hy | ⟨rfl, rfl⟩
    · obtain ⟨ly, hly, hback⟩ := hs x l0 y bd hl0 hy
      refine ⟨_, key y ly hly, ?_⟩
      by_cases h1 : y == kb <;> by_cases h2 : y == ka <;> simp [h1, h2, hback]
    · refine ⟨_, key y la0 hka, ?_⟩
      have : x = kb := by simpa using hxb
      subst this
      simp [hab]
  · by_cases hxa : x == ka
    · simp only [hxb, hxa, if_true, if_false, Bool.false_eq_true, List.mem_append, List.mem_singleton, Prod.mk.injEq] at hy
      rcases hy with hy | ⟨rfl, rfl⟩
      · obtain ⟨ly, hly, hback⟩ := hs x l0 y bd hl0 hy
        refine ⟨_, key y ly hly, ?_⟩
        by_cases h1 : y == kb <;> by_cases h2 : y == ka <;> simp [h1, h2, hback]
      · refine ⟨_, key y lb0 hkb, ?_⟩
        have : x = ka := by simpa using hxa
        subst this
        simp
    · simp only [hxb, hxa, if_false, Bool.false_eq_true] at hy
      obtain ⟨ly, hly, hback⟩ := hs x l0 y bd hl0 hy
      refine ⟨_, key y ly hly, ?_⟩
      by_cases h1 : y == kb <;> by_cases h2 : y == ka <;> simp [h1, h2, hback]

theorem addAtom_sym {m m' : Mol} {z : Nat} {n? : Option Nat} {k : Nat} (h : gAddAtom m z n? = .ok (m', k)) (hs : AdjSym m.adj) :
    AdjSym m'.adj := by
  unfold gAddAtom at h
  simp only at h
  split at h; · cases h
  cases h
  intro x lx y bd hx hy
  simp only [List.mem_append, List.mem_singleton, Prod.mk.injEq] at hx
  rcases hx with hx | ⟨rfl, rfl⟩
  · obtain ⟨ly, hly, hb⟩ := hs x lx y bd hx hy
    exact ⟨ly, by simp [hly], hb⟩
  · cases hy

theorem delAtom_sym {m m' : Mol} {n : Nat} (h : gDelAtom m n = .ok m') (hs : AdjSym m.adj) : AdjSym m'.adj := by
  unfold gDelAtom at h
  split at h; · cases h
  cases h
  intro x lx y bd hx hy
  simp only [List.mem_map, List.mem_filter] at hx
  obtain ⟨⟨x0, l0⟩, ⟨hmem, hxn⟩, heq⟩ := hx
  simp only [Prod.mk.injEq] at heq
  obtain ⟨rfl, rfl⟩ := heq
  simp only [List.mem_filter] at hy
  obtain ⟨ly, hly, hb⟩ := hs x0 l0 y bd hmem hy.1
  refine ⟨ly.filter (·.1 != n), ?_, ?_⟩
  · simp only [List.mem_map, List.mem_filter]
    exact ⟨(y, ly), ⟨hly, hy.2⟩, rfl⟩
  · simp only [List.mem_filter]
    exact ⟨hb, hxn⟩

theorem delBond_sym {m m' : Mol} {a b : Nat} (h : gDelBond m a b = .ok m') (hs : AdjSym m.adj) : AdjSym m'.adj := by
  unfold gDelBond at h
  split at h; · cases h
  split at h; · cases h
  cases h
  intro x lx y bd hx hy
  obtain ⟨l1, hl1, rfl⟩ := mem_eraseNbr.mp hx
  obtain ⟨l0, hl0, rfl⟩ := mem_eraseNbr.mp hl1
  have key : ∀ z lz, (z, lz) ∈ m.adj →
      (z, if z == b then (if z == a then lz.filter (·.1 != b) else lz).filter (·.1 != a)
          else (if z == a then lz.filter (·.1 != b) else lz)) ∈ eraseNbr (eraseNbr m.adj a b) b a := by
    intro z lz hz
    exact mem_eraseNbr.mpr ⟨_, mem_eraseNbr.mpr ⟨lz, hz, rfl⟩, rfl⟩
  -- (y, bd) was in the original list of x and survived the two filters
  have hy0 : (y, bd) ∈ l0 ∧ ((x == a) = true → (y != b) = true) ∧ ((x == b) = true → (y != a) = true) := by
    by_cases hxb : x == b <;> by_cases hxa : x == a <;>
      simp only [hxb, hxa, if_true, if_false, Bool.false_eq_true, List.mem_filter] at hy <;> simp_all
  obtain ⟨ly, hly, hback⟩ := hs x l0 y bd hl0 hy0.1
  refine ⟨_, key y ly hly, ?_⟩
  by_cases hyb : y == b <;> by_cases hya : y == a <;>
    simp only [hyb, hya, if_true, if_false, Bool.false_eq_true, List.mem_filter, hback, true_and]
  · have h1 : y = b := beq_iff_eq.mp hyb
    have h2 : y = a := beq_iff_eq.mp hya
    subst h1
    refine ⟨?_, ?_⟩
    · cases hq : (x == y) with
      | false => simp [bne, hq]
      | true =>
        have := hy0.2.2 hq
        rw [← h2] at this; simp at this
    · cases hq : (x == a) with
      | false => simp [bne, hq]
      | true => have := hy0.2.1 hq; simp at this
  · have h1 : y = b := beq_iff_eq.mp hyb
    subst h1
    cases hq : (x == a) with
    | false => simp [bne, hq]
    | true => have := hy0.2.1 hq; simp at this
  · have h2 : y = a := beq_iff_eq.mp hya
    subst h2
    cases hq : (x == b) with
    | false => simp [bne, hq]
    | true => have := hy0.2.2 hq; simp at this

/-! ## hydrogen-relevant environments under bond edits -/

theorem lookup_insertNbr_ne (adj : List (Nat × List (Nat × Bond))) (a k n : Nat) (bd : Bond) (h : n ≠ a) :
    (insertNbr adj a k bd).lookup n = adj.lookup n := by
  induction adj with
  | nil => rfl
  | cons p rest ih =>
    obtain ⟨x, l⟩ := p
    simp only [insertNbr, List.map_cons]
    by_cases hx : x == a
    · have hxa : x = a := beq_iff_eq.mp hx
      have hnx : (n == x) = false := by rw [hxa]; exact beq_false_of_ne h
      simp only [hx, if_true, List.lookup_cons, hnx]
      exact ih
    · simp only [hx, if_false, Bool.false_eq_true, List.lookup_cons]
      cases hnx : n == x
      · exact ih
      · rfl

theorem lookup_eraseNbr_ne (adj : List (Nat × List (Nat × Bond))) (a k n : Nat) (h : n ≠ a) :
    (eraseNbr adj a k).lookup n = adj.lookup n := by
  induction adj with
  | nil => rfl
  | cons p rest ih =>
    obtain ⟨x, l⟩ := p
    simp only [eraseNbr, List.map_cons]
    by_cases hx : x == a
    · have hxa : x = a := beq_iff_eq.mp hx
      have hnx : (n == x) = false := by rw [hxa]; exact beq_false_of_ne h
      simp only [hx, if_true, List.lookup_cons, hnx]
      exact ih
    · simp only [hx, if_false, Bool.false_eq_true, List.lookup_cons]
      cases hnx : n == x
      · exact ih
      · rfl

theorem envOf_congr {m m' : Mol} {n : Nat} (ha : m'.atoms = m.atoms) (hn : m'.adj.lookup n = m.adj.lookup n) :
    envOf m' n = envOf m n := by
  simp [envOf, Mol.atom?, Mol.nbrs, ha, hn]

/-- **pending set is sound for add_bond**: only the two end atoms see a different environment -/
theorem addBond_env {m m' : Mol} {a b order n : Nat} (h : gAddBond m a b order = .ok m') (hna : n ≠ a) (hnb : n ≠ b) :
    envOf m' n = envOf m n := by
  unfold gAddBond at h
  split at h; · cases h
  split at h; · cases h
  split at h; · cases h
  split at h; · cases h
  cases h
  refine envOf_congr (m := m) (by rfl) ?_
  simp only
  rw [lookup_insertNbr_ne _ _ _ _ _ hnb, lookup_insertNbr_ne _ _ _ _ _ hna]

/-- **pending set is sound for delete_bond** -/
theorem delBond_env {m m' : Mol} {a b n : Nat} (h : gDelBond m a b = .ok m') (hna : n ≠ a) (hnb : n ≠ b) :
    envOf m' n = envOf m n := by
  unfold gDelBond at h
  split at h; · cases h
  split at h; · cases h
  cases h
  refine envOf_congr (m := m) (by rfl) ?_
  simp only
  rw [lookup_eraseNbr_ne _ _ _ _ hnb, lookup_eraseNbr_ne _ _ _ _ hna]
end ChythonModel.Proofs.C13
