import ChythonModel.Model.Pack
/-!
# C10 helper lemmas: byte-level field arithmetic

Every lemma is about the literal expressions of `Model/Pack.lean`. Twelve-bit fields are handled by arithmetic
(`|||` of disjoint ranges is `+`, masks are `%`), small fields by kernel evaluation over their whole domain.
-/
namespace ChythonModel.Proofs.C10
open ChythonModel.Model.Pack

theorem or_lo (k H L : Nat) (h : L < 2 ^ k) : H * 2 ^ k ||| L = H * 2 ^ k + L := by
  rw [Nat.mul_comm]; exact (Nat.two_pow_add_eq_or_of_lt h H).symm
theorem or16 (H L : Nat) (h : L < 16) : H * 16 ||| L = H * 16 + L := or_lo 4 H L h
theorem or256 (H L : Nat) (h : L < 256) : H * 256 ||| L = H * 256 + L := or_lo 8 H L h
theorem and15 (x : Nat) : x &&& 0x0f = x % 16 := Nat.and_two_pow_sub_one_eq_mod x 4

theorem u8_lt (x : Nat) : u8 x < 256 := Nat.mod_lt _ (by decide)
theorem u8_id {x : Nat} (h : x < 256) : u8 x = x := Nat.mod_eq_of_lt h
theorem u16_id {x : Nat} (h : x < 65536) : u16 x = x := Nat.mod_eq_of_lt h

/-- storing an OR whose left operand was already truncated -/
theorem u8_or_left (x y : Nat) : u8 (u8 x ||| y) = u8 (x ||| y) := by
  show (x % 256 ||| y) % 256 = (x ||| y) % 256
  rw [show (256 : Nat) = 2 ^ 8 from rfl, Nat.or_mod_two_pow, Nat.or_mod_two_pow, Nat.mod_mod]

/-- a 12-bit number followed by a nibble in two bytes (`n >> 4`, `n << 4 | h`) -/
theorem num12_nibble (p h : Nat) (hp : p < 4096) (hh : h < 16) :
    (u8 (p >>> 4) <<< 4 ||| u8 (u8 (p <<< 4) ||| h) >>> 4) = p ∧ (u8 (u8 (p <<< 4) ||| h) &&& 0x0f) = h := by
  simp only [u8, Nat.shiftLeft_eq, Nat.shiftRight_eq_div_pow, and15, Nat.reducePow]
  have e1 : p * 16 % 256 = (p % 16) * 16 := by omega
  have e2 : p % 16 * 16 ||| h = p % 16 * 16 + h := or16 _ _ hh
  rw [e1, e2]
  clear e2
  have h1 : (p % 16 * 16 + h) % 256 = p % 16 * 16 + h := by omega
  rw [h1]
  constructor
  · have : (p / 16 % 256) * 16 = (p / 16) * 16 := by omega
    rw [this, or16 (p / 16) ((p % 16 * 16 + h) / 16) (by omega)]; omega
  · omega

/-- a nibble and a byte make the second 12-bit number (`(b & 0x0f) << 8 | c`) -/
theorem nibble_byte (q : Nat) (hq : q < 4096) : (q >>> 8) <<< 8 ||| u8 q = q := by
  simp only [u8, Nat.shiftLeft_eq, Nat.shiftRight_eq_div_pow, Nat.reducePow]
  rw [or256 (q / 256) (q % 256) (Nat.mod_lt _ (by decide))]; exact Nat.div_add_mod' q 256

theorem shr8_lt {q : Nat} (hq : q < 4096) : q >>> 8 < 16 := by
  rw [Nat.shiftRight_eq_div_pow]; omega

/-- two 12-bit numbers ↔ three bytes, as the connection table writes them (`buffer_b` form) -/
theorem pair12 (p q : Nat) (hp : p < 4096) (hq : q < 4096) :
    (u8 (p >>> 4) <<< 4 ||| u8 (u8 (p <<< 4) ||| q >>> 8) >>> 4) = p ∧
    ((u8 (u8 (p <<< 4) ||| q >>> 8) &&& 0x0f) <<< 8 ||| u8 q) = q := by
  obtain ⟨h1, h2⟩ := num12_nibble p (q >>> 8) hp (shr8_lt hq)
  exact ⟨h1, by rw [h2]; exact nibble_byte q hq⟩

/-- the same with the middle byte written in one expression (`p << 4 | q >> 8`, header and cis/trans entries) -/
theorem pair12' (p q : Nat) (hp : p < 4096) (hq : q < 4096) :
    (u8 (p >>> 4) <<< 4 ||| u8 (p <<< 4 ||| q >>> 8) >>> 4) = p ∧
    ((u8 (p <<< 4 ||| q >>> 8) &&& 0x0f) <<< 8 ||| u8 q) = q := by
  rw [← u8_or_left]; exact pair12 p q hp hq

theorem num12_nibble' (p h : Nat) (hp : p < 4096) (hh : h < 16) :
    (u8 (p >>> 4) <<< 4 ||| u8 (p <<< 4 ||| h) >>> 4) = p ∧ (u8 (p <<< 4 ||| h) &&& 0x0f) = h := by
  rw [← u8_or_left]; exact num12_nibble p h hp hh

/-- 16-bit big-endian coordinate field -/
theorem be16 (x : Nat) (hx : x < 65536) : u8 (x >>> 8) * 256 + u8 x = x := by
  simp only [u8, Nat.shiftRight_eq_div_pow, Nat.reducePow]; omega

/-! ### stereo nibble / isotope / atomic number (bytes 2 and 3 of the atom record) -/

theorem stereo_iso_z_bytes :
    ∀ sn ∈ [0, 0x20, 0x30, 0x80, 0xc0], ∀ iso < 32, ∀ zh < 8, ∀ zl < 16,
      let z := zh * 16 + zl
      let b2 := u8 (sn ||| iso >>> 1)
      let b3 := u8 (iso <<< 7 ||| u8 z)
      b2 >>> 4 = sn >>> 4 ∧ u8 ((b2 &&& 0x0f) <<< 1 ||| b3 >>> 7) = iso ∧ b3 &&& 0x7f = z := by
  decide +kernel

theorem stereo_nibble_roundtrip :
    ∀ st ∈ [none, some true, some false], ∀ deg < 16,
      stereoOfNibble (stereoNibble st deg >>> 4) = st ∧
      stereoNibble st deg ∈ [0, 0x20, 0x30, 0x80, 0xc0] := by decide +kernel

/-! ### hydrogens / charge / radical byte -/

theorem hcr_roundtrip :
    ∀ h ∈ [none, some 0, some 1, some 2, some 3, some 4, some 5, some 6],
    ∀ c ∈ [(-4 : Int), -3, -2, -1, 0, 1, 2, 3, 4], ∀ r ∈ [false, true],
      let b := hcrByte h c r
      b < 256 ∧ (if b >>> 5 == 7 then none else some (b >>> 5)) = h ∧
      ((((b >>> 1) &&& 0x0f : Nat) : Int) - 4) = c ∧ ((b &&& 1) != 0) = r := by
  decide +kernel

end ChythonModel.Proofs.C10
