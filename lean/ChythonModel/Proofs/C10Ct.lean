import ChythonModel.Proofs.C10Handshake
/-!
# C10 helper lemmas: cis/trans block, indexed reads
-/
namespace ChythonModel.Proofs.C10
open ChythonModel.Model.Pack

/-- the cis/trans list the decoder returns: one (tn, tm, sign) per stereo bond, in first-seen order -/
def ctListOf (terminals : List (Nat × Nat × Nat)) : List (Nat × PNbr) → List (Nat × Nat × Bool)
  | [] => []
  | (n, nb) :: rest =>
    match nb.stereo, terminals.lookup n with
    | some s, some (tn, tm) => (tn, tm, s) :: ctListOf terminals rest
    | _, _ => ctListOf terminals rest

def stereoBonds (fs : List (Nat × PNbr)) : List (Nat × PNbr) := fs.filter fun p => p.2.stereo.isSome

theorem ct_roundtrip (terminals : List (Nat × Nat × Nat)) : ∀ (fs : List (Nat × PNbr)),
    (∀ p ∈ fs, p.2.stereo.isSome → ∃ tn tm, terminals.lookup p.1 = some (tn, tm) ∧ tn < 4096 ∧ tm < 4096) →
    ∃ ct, ctBlock terminals fs = .ok ct ∧ ct.length = 4 * (stereoBonds fs).length ∧
      ∀ tail, ctDec (stereoBonds fs).length (ct ++ tail) = .ok (ctListOf terminals fs)
  | [], _ => ⟨[], by simp [ctBlock], by simp [stereoBonds], by simp [stereoBonds, ctDec, ctListOf]⟩
  | (n, nb) :: rest, h => by
    obtain ⟨ct, i1, i2, i3⟩ := ct_roundtrip terminals rest (fun p hp => h p (by simp [hp]))
    cases hs : nb.stereo with
    | none =>
      refine ⟨ct, by simp [ctBlock, hs, i1], by simp [stereoBonds, hs] at i2 ⊢; exact i2, ?_⟩
      intro tail
      have := i3 tail
      simp only [stereoBonds, List.filter_cons, hs, Option.isSome_none, Bool.false_eq_true, ↓reduceIte, ctListOf] at this ⊢
      exact this
    | some s =>
      obtain ⟨tn, tm, hl, h1, h2⟩ := h (n, nb) (by simp) (by simp [hs])
      obtain ⟨p1, p2⟩ := pair12' tn tm h1 h2
      have e1 : u16 tn = tn := u16_id (Nat.lt_trans h1 (by decide))
      have e2 : u16 tm = tm := u16_id (Nat.lt_trans h2 (by decide))
      refine ⟨[u8 (tn >>> 4), u8 (tn <<< 4 ||| tm >>> 8), u8 tm, if s then 1 else 0] ++ ct, ?_, ?_, ?_⟩
      · simp only [ctBlock, hs, ctEntry, hl, e1, e2, i1]; rfl
      · simp only [stereoBonds, List.filter_cons, hs, Option.isSome_some, ↓reduceIte, List.length_cons,
          List.length_append, List.length_nil] at i2 ⊢
        omega
      · intro tail
        have := i3 tail
        simp only [stereoBonds, List.filter_cons, hs, Option.isSome_some, ↓reduceIte, List.length_cons, ctListOf, hl,
          List.cons_append, List.nil_append, ctDec, p1, p2] at this ⊢
        rw [this]
        cases s <;> rfl

theorem readRange_mid : ∀ (mid pre post : List Nat),
    readRange (pre ++ mid ++ post) pre.length mid.length = .ok mid
  | [], pre, post => by simp [readRange]
  | b :: mid, pre, post => by
    have h2 : (pre ++ b :: mid ++ post)[pre.length]? = some b := by simp
    have ih := readRange_mid mid (pre ++ [b]) post
    have e : pre ++ [b] ++ mid ++ post = pre ++ b :: mid ++ post := by simp
    rw [e] at ih
    simp only [List.length_cons, readRange, h2]
    simp only [List.length_append, List.length_cons, List.length_nil, Nat.zero_add] at ih
    rw [ih]; rfl

/-- the exact version-0 reads (`data[j], data[j + 1]` for `j = lo, lo + 2, …`) are the contiguous block of `2n` bytes -/
theorem readPairsV0_eq (data : List Nat) : ∀ (n lo : Nat), readPairsV0 data lo n = readRange data lo (2 * n)
  | 0, _ => rfl
  | n + 1, lo => by
    have ih := readPairsV0_eq data n (lo + 2)
    have h2 : 2 * (n + 1) = (2 * n + 1) + 1 := by omega
    rw [h2]
    simp only [readPairsV0, readRange]
    cases ha : data[lo]? with
    | none => rfl
    | some a =>
      cases hb : data[lo + 1]? with
      | none => rfl
      | some b =>
        simp only [ih]
        cases readRange data (lo + 2) (2 * n) <;> rfl

/-- for the block size the decoder computes (`orderCountOf`: even for version 0) the exact reads of either version are the
    contiguous range `order_shift … cis_trans_shift − 1` -/
theorem readOrderBytes_eq (data : List Nat) (v bc os : Nat) :
    readOrderBytes data v os (orderCountOf v bc) = readRange data os (orderCountOf v bc) := by
  unfold readOrderBytes
  split
  · rfl
  · rename_i hv
    have : ∃ k, orderCountOf v bc = 2 * k := by
      unfold orderCountOf
      rw [if_neg hv]
      exact ⟨_, Nat.mul_comm _ _⟩
    obtain ⟨k, hk⟩ := this
    rw [hk, readPairsV0_eq]
    congr 1; omega

end ChythonModel.Proofs.C10
