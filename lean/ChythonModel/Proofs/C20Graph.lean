import ChythonModel.Model.C20Bridge
/-!
# Helper lemmas for C20: shape of the molecules built by the two conversions (lengths, keys, adjacency order)
-/
set_option linter.unusedSimpArgs false
namespace ChythonModel.Proofs.C20
open ChythonModel.Gen ChythonModel.Gen.C20 ChythonModel.Model ChythonModel.Model.Stereo ChythonModel.Model.C20

theorem mapM_ok_length {α β ε} (f : α → Except ε β) :
    ∀ (l : List α) (r : List β), l.mapM f = .ok r → r.length = l.length := by
  intro l
  induction l with
  | nil => intro r h; simp [List.mapM_nil, pure, Except.pure] at h; subst h; rfl
  | cons x xs ih =>
    intro r h
    rw [List.mapM_cons] at h
    simp only [bind, Except.bind] at h
    split at h
    · cases h
    · split at h
      · cases h
      · rename_i v hv tl htl
        simp only [pure, Except.pure, Except.ok.injEq] at h
        subst h
        simp [ih tl htl]

theorem setTags_length (m : Mol) (env : StereoEnv) (ids : List Nat) (bonds : List RBond) :
    ∀ (atoms : List (Nat × Atom)) (i : Nat) (ras out : List RAtom), setTags m env ids bonds i atoms ras = .ok out →
      out.length = atoms.length := by
  intro atoms
  induction atoms with
  | nil => intro i ras out h; simp [setTags] at h; subst h; rfl
  | cons na rest ih =>
    intro i ras out h
    obtain ⟨n, a⟩ := na
    cases ras with
    | nil => simp [setTags] at h
    | cons ra ras' =>
      simp only [setTags, bind, Except.bind] at h
      split at h
      · cases h
      · split at h
        · cases h
        · rename_i t ht tl htl
          simp only [pure, Except.pure, Except.ok.injEq] at h
          subst h
          simp [ih (i + 1) ras' tl htl]

/-- `dict.map` on values keeps lookups -/
theorem lookup_map_val {ν} (g : Nat → ν → ν) : ∀ (adj : List (Nat × ν)) (y : Nat),
    (adj.map fun (x, v) => (x, g x v)).lookup y = (adj.lookup y).map (g y) := by
  intro adj
  induction adj with
  | nil => intro y; rfl
  | cons p ps ih =>
    intro y
    obtain ⟨x, v⟩ := p
    simp only [List.map_cons, List.lookup_cons]
    by_cases h : y == x
    · have : y = x := by simpa using h
      subst this; simp
    · simp only [h]; exact ih y

/-- neighbours of chython atom `x` = RDKit neighbours of index `x - 1`, shifted by one -/
def nbrsAt (bonds : List RBond) (x : Nat) : List Nat :=
  bonds.filterMap fun b => if b.bgn + 1 = x then some (b.end_ + 1) else if b.end_ + 1 = x then some (b.bgn + 1) else none

theorem nbrsAt_eq_rNbrs (bonds : List RBond) (i : Nat) : nbrsAt bonds (i + 1) = (rNbrs bonds i).map (· + 1) := by
  unfold nbrsAt rNbrs
  rw [List.map_filterMap]
  congr 1
  funext b
  by_cases h1 : b.bgn = i
  · simp [h1]
  · by_cases h2 : b.end_ = i
    · simp [h1, h2]
    · simp [h1, h2]

theorem addBond_lookup (adj adj' : List (Nat × List (Nat × Bond))) (n k : Nat) (b : Bond)
    (h : addBond adj n k b = .ok adj') (x : Nat) :
    n ≠ k ∧ adj'.lookup x = (adj.lookup x).map fun l =>
      if x = n then l ++ [(k, b)] else if x = k then l ++ [(n, b)] else l := by
  unfold addBond at h
  split at h
  · cases h
  · rename_i hnk
    split at h
    · split at h
      · cases h
      · simp only [Except.ok.injEq] at h
        subst h
        refine ⟨hnk, ?_⟩
        exact lookup_map_val (fun (y : Nat) (nb : List (Nat × Bond)) =>
          if y = n then nb ++ [(k, b)] else if y = k then nb ++ [(n, b)] else nb) adj x
    · cases h

theorem fromBonds_lookup : ∀ (bonds : List RBond) (adj adj' : List (Nat × List (Nat × Bond)))
    (ct ct' : List (Nat × Nat × Nat × Nat × Bool)), fromBonds bonds adj ct = .ok (adj', ct') → ∀ x,
      (adj'.lookup x).map (·.map (·.1)) = (adj.lookup x).map (fun l => l.map (·.1) ++ nbrsAt bonds x) := by
  intro bonds
  induction bonds with
  | nil =>
    intro adj adj' ct ct' h x
    simp only [fromBonds, Except.ok.injEq, Prod.mk.injEq] at h
    obtain ⟨rfl, _⟩ := h
    simp [nbrsAt]
  | cons b bs ih =>
    intro adj adj' ct ct' h x
    simp only [fromBonds, bind, Except.bind] at h
    split at h
    · cases h
    · rename_i o ho
      split at h
      · cases h
      · rename_i adj1 h1
        obtain ⟨hne, hl⟩ := addBond_lookup adj adj1 (b.bgn + 1) (b.end_ + 1) { order := o } h1 x
        have step : ∀ ct1, fromBonds bs adj1 ct1 = .ok (adj', ct') →
            (adj'.lookup x).map (·.map (·.1)) = (adj.lookup x).map (fun l => l.map (·.1) ++ nbrsAt (b :: bs) x) := by
          intro ct1 h2
          rw [ih adj1 adj' ct1 ct' h2 x, hl]
          cases hx : adj.lookup x with
          | none => rfl
          | some l =>
            simp only [Option.map_some, Option.some.injEq, nbrsAt, List.filterMap_cons]
            by_cases e1 : x = b.bgn + 1
            · subst e1; simp
            · by_cases e2 : x = b.end_ + 1
              · subst e2
                have n1 : ¬ b.bgn = b.end_ := fun e => hne (by rw [e])
                have n2 : ¬ b.end_ = b.bgn := fun e => hne (by rw [e])
                simp [n1, n2]
              · have e1' : ¬ (b.bgn + 1 = x) := fun e => e1 e.symm
                have e2' : ¬ (b.end_ + 1 = x) := fun e => e2 e.symm
                simp [e1, e2, e1', e2']
        split at h
        · split at h
          · cases h
          · exact step _ h
        · exact step _ h

theorem applyStereo_length (bonds out : List RBond) (i j : Nat) (st : RdStereo) (sa : Nat × Nat) (i0 : Nat)
    (h : applyStereo bonds i j st sa i0 = .ok out) : out.length = bonds.length := by
  unfold applyStereo at h
  split at h
  · cases h
  · simp only at h
    repeat' split at h
    all_goals first | (simp only [Except.ok.injEq] at h; subst h; simp) | cases h

theorem setBondStereo_length (env : StereoEnv) (ids : List Nat) :
    ∀ (cb : List (Nat × Nat × Bond)) (bonds out : List RBond), setBondStereo env ids cb bonds = .ok out →
      out.length = bonds.length := by
  intro cb
  induction cb with
  | nil => intro bonds out h; simp [setBondStereo] at h; subst h; rfl
  | cons x rest ih =>
    intro bonds out h
    simp only [setBondStereo, bind, Except.bind] at h
    split at h
    · cases h
    · rename_i v hv
      split at h
      · exact ih bonds out h
      · split at h
        · cases h
        · rename_i b' hb'
          rw [ih b' out h, applyStereo_length _ _ _ _ _ _ _ hb']

theorem mapM_fromAtom_fst_length (as : List RAtom) (out : List (Atom × Nat)) (h : as.mapM fromAtom = .ok out) :
    out.length = as.length := mapM_ok_length fromAtom as out h

theorem fromAtom_pmap (a : RAtom) (r : Atom × Nat) (h : fromAtom a = .ok r) : r.2 = a.mapNum := by
  unfold fromAtom at h
  split at h
  · cases h
  · split at h
    · cases h
    · split at h
      · cases h
      · simp only [Except.ok.injEq] at h; subst h; rfl

theorem mapM_fromAtom_pmap : ∀ (as : List RAtom) (out : List (Atom × Nat)), as.mapM fromAtom = .ok out →
    out.map (·.2) = as.map (·.mapNum) := by
  intro as
  induction as with
  | nil => intro out h; simp [List.mapM_nil, pure, Except.pure] at h; subst h; rfl
  | cons x xs ih =>
    intro out h
    rw [List.mapM_cons] at h
    simp only [bind, Except.bind] at h
    split at h
    · cases h
    · split at h
      · cases h
      · rename_i v hv _ tl htl
        simp only [pure, Except.pure, Except.ok.injEq] at h
        subst h
        simp [ih tl htl, fromAtom_pmap x v hv]

theorem range_getD_eq {α} (d : α) (p : List α) : (List.range p.length).map (fun i => p[i]?.getD d) = p := by
  apply List.ext_getElem
  · simp
  · intro i h1 h2
    simp at h1
    simp [h1]

theorem lookup_zip_range (n : Nat) (x : Nat) (hx : 1 ≤ x ∧ x ≤ n) :
    (((List.range n).map (· + 1)).map (fun i => (i, ([] : List (Nat × Bond))))).lookup x = some [] := by
  induction n with
  | zero => omega
  | succ k ih =>
    rw [List.range_succ, List.map_append, List.map_append, List.lookup_append]
    by_cases hk : x ≤ k
    · rw [ih ⟨hx.1, hk⟩]; rfl
    · have : x = k + 1 := by omega
      subst this
      have hnone : (((List.range k).map (· + 1)).map (fun i => (i, ([] : List (Nat × Bond))))).lookup (k + 1) = none := by
        rw [List.lookup_eq_none_iff]
        intro p hp
        simp only [List.map_map, List.mem_map, List.mem_range, Function.comp] at hp
        obtain ⟨j, hj, rfl⟩ := hp
        simp; omega
      rw [hnone]; simp

end ChythonModel.Proofs.C20
