import ChythonModel.Proofs.C02Atoms
/-!
# C02 — the bond symbol, together with the aromaticity of the two atoms, determines the bond order
-/
namespace ChythonModel.Proofs.C02
open ChythonModel.Model ChythonModel.Model.SmilesWriter ChythonModel.Model.C02RT

/-- what a reader concludes from a bond symbol (`bothArom`: both atoms are written as aromatic atoms and the style shows
    aromaticity): `none` = an order outside 1–4 (`~`) -/
def decodeOrder (s : Str) (bothArom : Bool) : Option Nat :=
  if s = [] then some (if bothArom then 4 else 1)
  else if s = [45] ∨ s = [47] ∨ s = [92] then some 1
  else if s = [61] then some 2
  else if s = [35] then some 3
  else if s = [58] then some 4
  else none

def hybStep (h : Nat) (p : Nat × Bond) : Nat :=
  let b := p.2.order
  if b == 8 then h
  else if b == 4 then 4
  else if h != 4 then
    (if b == 3 then 3 else if b == 2 then (if h == 1 then 2 else if h == 2 then 3 else h) else h)
  else h

theorem hybridization_eq (m : Mol) (n : Nat) : hybridization m n = (m.nbrs n).foldl hybStep 1 := rfl

theorem hybStep_keeps4 : ∀ (l : List (Nat × Bond)), l.foldl hybStep 4 = 4 := by
  intro l
  induction l with
  | nil => rfl
  | cons p tl ih =>
    simp only [List.foldl_cons]
    have : hybStep 4 p = 4 := by
      simp only [hybStep]
      split
      · rfl
      · split
        · rfl
        · simp
    rw [this]; exact ih

theorem foldl_hyb4 : ∀ (l : List (Nat × Bond)) (h : Nat), (∃ p ∈ l, p.2.order = 4) → l.foldl hybStep h = 4 := by
  intro l
  induction l with
  | nil => intro h hx; obtain ⟨p, hp, _⟩ := hx; simp at hp
  | cons q tl ih =>
    intro h hx
    obtain ⟨p, hp, ho⟩ := hx
    simp only [List.foldl_cons]
    rcases List.mem_cons.1 hp with rfl | hp
    · have : hybStep h p = 4 := by simp [hybStep, ho]
      rw [this]; exact hybStep_keeps4 tl
    · exact ih _ ⟨p, hp, ho⟩

/-- an atom with an aromatic bond has hybridization 4 -/
theorem hyb4_of_arom_bond (m : Mol) (a b : Nat) (bd : Bond) (h : m.bond? a b = some bd) (ho : bd.order = 4) :
    hybridization m a = 4 := by
  rw [hybridization_eq]
  apply foldl_hyb4
  simp only [Mol.bond?] at h
  exact ⟨(b, bd), lookup_mem' _ _ _ h, ho⟩

theorem wf_bond_symm {m : Mol} (hwf : m.WF = true) (a b : Nat) (bd : Bond) (h : m.bond? a b = some bd) : m.bond? b a = some bd := by
  simp only [Mol.bond?, Mol.nbrs] at h
  cases hl : m.adj.lookup a with
  | none => simp [hl] at h
  | some ms =>
    simp only [hl, Option.getD_some] at h
    have hmem := lookup_mem' m.adj a ms hl
    have hb := lookup_mem' ms b bd h
    simp only [Mol.WF, Bool.and_eq_true, List.all_eq_true] at hwf
    have h2 := hwf.2 (a, ms) hmem
    simp only [Bool.and_eq_true, List.all_eq_true] at h2
    have h3 := h2.2 (b, bd) hb
    simp only [Bool.and_eq_true, beq_iff_eq] at h3
    exact h3.2

/-- **the symbol `_format_bond` writes decodes to the order of the bond** -/
theorem formatBond_decodes {m : Mol} {opts : Opts} {sc : SCtx} {a b : Nat} {s : Str} (hwf : m.WF = true)
    (hb : opts.bonds = true) (h : formatBond m opts sc a b = .ok s) :
    ∃ bd, m.bond? a b = some bd ∧
      (match decodeOrder s (opts.aromatic && hybridization m a == 4 && hybridization m b == 4) with
       | some o => bd.order = o
       | none => bd.order ∉ [1, 2, 3, 4]) := by
  unfold formatBond at h
  simp only [hb, Bool.not_true, Bool.false_eq_true, if_false] at h
  split at h
  · cases h
  · rename_i bd hbd
    refine ⟨bd, hbd, ?_⟩
    split at h
    · rename_i ho
      have ho : bd.order = 4 := by simpa using ho
      have ha := hyb4_of_arom_bond m a b bd hbd ho
      have hb' := hyb4_of_arom_bond m b a bd (wf_bond_symm hwf a b bd hbd) ho
      simp only [Except.ok.injEq] at h
      by_cases har : opts.aromatic = true
      · simp only [har, if_true] at h
        subst h
        simp [decodeOrder, har, ha, hb', ho]
      · simp only [har, Bool.false_eq_true, if_false] at h
        subst h
        simp [decodeOrder, ho]
    · rename_i hn4
      split at h
      · rename_i ho
        have ho : bd.order = 1 := by simpa using ho
        split at h
        · rename_i hc
          simp only [Except.ok.injEq] at h
          subst h
          simp [decodeOrder, ho]
        · rename_i hc
          have hfalse : (opts.aromatic && hybridization m a == 4 && hybridization m b == 4) = false := by
            simpa [Bool.and_assoc] using hc
          repeat' split at h
          all_goals first
            | (cases h; done)
            | (simp only [Except.ok.injEq] at h; subst h; simp [decodeOrder, hfalse, ho])
      · split at h
        · rename_i ho
          have ho : bd.order = 2 := by simpa using ho
          simp only [Except.ok.injEq] at h
          subst h
          simp [decodeOrder, ho]
        · split at h
          · rename_i ho
            have ho : bd.order = 3 := by simpa using ho
            simp only [Except.ok.injEq] at h
            subst h
            simp [decodeOrder, ho]
          · rename_i h1 h2 h3
            simp only [Except.ok.injEq] at h
            subst h
            have n4 : ¬ bd.order = 4 := by simpa using hn4
            have n1 : ¬ bd.order = 1 := by simpa using h1
            have n2 : ¬ bd.order = 2 := by simpa using h2
            have n3 : ¬ bd.order = 3 := by simpa using h3
            simp [decodeOrder, n1, n2, n3, n4]

end ChythonModel.Proofs.C02
