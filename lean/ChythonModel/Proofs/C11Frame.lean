import ChythonModel.Model.C11Rdf
/-!
# C11 — SDF record framing: splitting a rendered file returns its blocks; index = sequential
-/
namespace ChythonModel.Proofs.C11
open ChythonModel.Model.C11

def sepLine : Str := sL "$$$$\n"

/-- a file made of record blocks, each closed by a `$$$$` line (what `SDFWrite`/`ESDFWrite` produce) -/
def renderBlocks : List (List Str) → List Str
  | [] => []
  | b :: bs => b ++ sepLine :: renderBlocks bs

/-- `__m_end` of a complete buffer: 1-based position of the first `M  END` line -/
def firstMEnd (b : List Str) : Option Nat := (b.findIdx? isMEnd).map (· + 1)

/-- a block the reader will see as one record: non-empty, no line starts with `$$$$`, fits the read-ahead buffer -/
structure WFBlock (bufSize : Nat) (b : List Str) : Prop where
  ne : b ≠ []
  noSep : ∀ l ∈ b, isSep l = false
  fits : b.length ≤ bufSize

theorem isSep_sepLine : isSep sepLine = true := by decide

theorem firstMEnd_snoc (buf : List Str) (line : Str) :
    firstMEnd (buf ++ [line]) =
      (if (firstMEnd buf).isNone && isMEnd line then some (buf ++ [line]).length else firstMEnd buf) := by
  unfold firstMEnd
  rw [List.findIdx?_append]
  cases h : buf.findIdx? isMEnd with
  | some k => simp
  | none =>
    by_cases hl : isMEnd line = true
    · simp [hl, List.findIdx?_cons]
    · simp [hl, List.findIdx?_cons]

theorem readBlockGo_block (bufSize : Nat) (rest : List Str) :
    ∀ (b : List Str) (n : Nat) (buf : List Str), (∀ l ∈ b, isSep l = false) → n + b.length ≤ bufSize →
      readBlockGo bufSize n buf (firstMEnd buf) (b ++ sepLine :: rest) = .ok (⟨buf ++ b, firstMEnd (buf ++ b)⟩, rest) := by
  intro b
  induction b with
  | nil =>
    intro n buf _ _
    simp [readBlockGo, isSep_sepLine, pure, Except.pure]
  | cons l ls ih =>
    intro n buf hs hn
    have hl : isSep l = false := hs l (by simp)
    have hne : (n == bufSize) = false := by
      simp only [List.length_cons] at hn
      simp only [beq_eq_false_iff_ne, ne_eq]; omega
    simp only [List.cons_append, readBlockGo, hl, hne, Bool.false_eq_true, if_false]
    rw [← firstMEnd_snoc]
    have := ih (n + 1) (buf ++ [l]) (fun x hx => hs x (by simp [hx])) (by simp only [List.length_cons] at hn; omega)
    simpa [List.append_assoc] using this

/-- `_read_block` on a rendered file: exactly the first block, with the right `__m_end`, and the rest untouched -/
theorem readBlock_render (bufSize : Nat) (b : List Str) (rest : List Str) (h : WFBlock bufSize b) :
    readBlock bufSize (b ++ sepLine :: rest) = .ok (⟨b, firstMEnd b⟩, rest) := by
  unfold readBlock
  have := readBlockGo_block bufSize rest b 0 [] h.noSep (by simpa using h.fits)
  have h0 : firstMEnd ([] : List Str) = none := rfl
  rw [h0] at this
  simp only [List.nil_append] at this
  rw [this]
  cases hb : b with
  | nil => exact absurd hb h.ne
  | cons _ _ => rfl

theorem readBlock_nil (bufSize : Nat) : readBlock bufSize [] = .error .eof := rfl

/-- the record a block yields, if any -/
def okPart (r : R ρ) : Option ρ := match r with | .ok a => some a | .error _ => none

@[simp] theorem okPart_ok (a : ρ) : okPart (Except.ok a : R ρ) = some a := rfl
@[simp] theorem okPart_error (e : Err) : okPart (Except.error e : R ρ) = none := rfl

/-- the structure reader either succeeds or fails with an exception the iterator skips -/
def NoCrash (r : R ρ) : Prop := match r with | .ok _ => True | .error e => e.isSkipped = true

theorem iterate_render (rs : Block → R ρ) (bufSize : Nat) :
    ∀ (blocks : List (List Str)) (fuel : Nat), blocks.length < fuel →
      (∀ b ∈ blocks, WFBlock bufSize b) → (∀ b ∈ blocks, NoCrash (rs ⟨b, firstMEnd b⟩)) →
      iterate rs bufSize fuel (renderBlocks blocks) =
        (blocks.filterMap fun b => okPart (rs ⟨b, firstMEnd b⟩), none) := by
  intro blocks
  induction blocks with
  | nil =>
    intro fuel hf _ _
    cases fuel with
    | zero => omega
    | succ f => simp [iterate, renderBlocks, readBlock_nil]
  | cons b bs ih =>
    intro fuel hf hwf hnc
    cases fuel with
    | zero => omega
    | succ f =>
      have hb := hwf b (by simp)
      have hrest := ih f (by simp only [List.length_cons] at hf; omega) (fun x hx => hwf x (by simp [hx]))
        (fun x hx => hnc x (by simp [hx]))
      have hcr := hnc b (by simp)
      simp only [renderBlocks, iterate, readBlock_render bufSize b _ hb]
      cases hr : rs ⟨b, firstMEnd b⟩ with
      | ok r =>
        simp only [hrest, List.filterMap_cons, hr, okPart_ok]
      | error e =>
        rw [hr] at hcr
        simp only [NoCrash] at hcr
        simp only [List.filterMap_cons, hr, okPart_error]
        cases e <;> first | exact absurd hcr (by decide) | exact hrest

/-! ## index -/

/-- line number at which each block starts -/
def blockStarts : Nat → List (List Str) → List Nat
  | _, [] => []
  | o, b :: bs => o :: blockStarts (o + b.length + 1) bs

theorem positionsAfter_block (rest : List Str) :
    ∀ (b : List Str) (i : Nat), (∀ l ∈ b, isSep l = false) →
      positionsAfter isSep i (b ++ sepLine :: rest) = (i + b.length + 1) :: positionsAfter isSep (i + b.length + 1) rest := by
  intro b
  induction b with
  | nil => intro i _; simp [positionsAfter, isSep_sepLine]
  | cons l ls ih =>
    intro i hs
    have hl : isSep l = false := hs l (by simp)
    simp only [List.cons_append, positionsAfter, hl, Bool.false_eq_true, if_false, List.length_cons]
    rw [ih (i + 1) (fun x hx => hs x (by simp [hx]))]
    have : i + 1 + ls.length + 1 = i + (ls.length + 1) + 1 := by omega
    rw [this]

theorem indexStarts_render_aux :
    ∀ (blocks : List (List Str)) (o : Nat), (∀ b ∈ blocks, ∀ l ∈ b, isSep l = false) →
      (o :: positionsAfter isSep o (renderBlocks blocks)).dropLast = blockStarts o blocks := by
  intro blocks
  induction blocks with
  | nil => intro o _; simp [renderBlocks, positionsAfter, blockStarts]
  | cons b bs ih =>
    intro o hs
    simp only [renderBlocks, blockStarts]
    rw [positionsAfter_block _ b o (hs b (by simp))]
    rw [List.dropLast_cons_of_ne_nil (by simp)]
    rw [ih _ (fun x hx => hs x (by simp [hx]))]

/-- `reset_index` finds exactly the block starts -/
theorem indexStarts_render (blocks : List (List Str)) (hs : ∀ b ∈ blocks, ∀ l ∈ b, isSep l = false) :
    indexStarts (renderBlocks blocks) = blockStarts 0 blocks :=
  indexStarts_render_aux blocks 0 hs

theorem drop_blockStart :
    ∀ (blocks : List (List Str)) (o i : Nat) (s : Nat), (blockStarts o blocks)[i]? = some s →
      ∃ b rest, blocks[i]? = some b ∧ (renderBlocks blocks).drop (s - o) = b ++ sepLine :: rest ∧ o ≤ s := by
  intro blocks
  induction blocks with
  | nil => intro o i s h; simp [blockStarts] at h
  | cons b bs ih =>
    intro o i s h
    cases i with
    | zero =>
      simp only [blockStarts, List.getElem?_cons_zero, Option.some.injEq] at h
      subst h
      exact ⟨b, renderBlocks bs, by simp, by simp [renderBlocks], Nat.le_refl _⟩
    | succ i =>
      simp only [blockStarts, List.getElem?_cons_succ] at h
      obtain ⟨b', rest, h1, h2, h3⟩ := ih _ i s h
      refine ⟨b', rest, by simpa using h1, ?_, by omega⟩
      simp only [renderBlocks]
      have hsplit : s - o = b.length + 1 + (s - (o + b.length + 1)) := by omega
      rw [hsplit]
      have : b ++ sepLine :: renderBlocks bs = (b ++ [sepLine]) ++ renderBlocks bs := by simp
      rw [this, ← List.drop_drop]
      have hlen : (b ++ [sepLine]).length = b.length + 1 := by simp
      rw [← hlen, List.drop_left]
      exact h2

/-- random access = sequential: `reader[i]` applies the structure reader to exactly the i-th block -/
theorem getItem_render (rs : Block → R ρ) (bufSize : Nat) (blocks : List (List Str)) (i : Nat) (b : List Str)
    (hwf : ∀ b ∈ blocks, WFBlock bufSize b) (hi : blocks[i]? = some b) :
    getItem rs bufSize (renderBlocks blocks) i = rs ⟨b, firstMEnd b⟩ := by
  unfold getItem
  rw [indexStarts_render blocks (fun b hb => (hwf b hb).noSep)]
  have hlen : ∀ (bl : List (List Str)) (o : Nat), (blockStarts o bl).length = bl.length := by
    intro bl; induction bl with
    | nil => intro o; rfl
    | cons x xs ih => intro o; simp [blockStarts, ih]
  have hi' : i < blocks.length := by
    rcases Nat.lt_or_ge i blocks.length with h | h
    · exact h
    · rw [List.getElem?_eq_none h] at hi; cases hi
  have : i < (blockStarts 0 blocks).length := by rw [hlen]; exact hi'
  rw [List.getElem?_eq_getElem this]
  obtain ⟨b', rest, h1, h2, _⟩ := drop_blockStart blocks 0 i _ (List.getElem?_eq_getElem this)
  rw [hi] at h1
  cases h1
  simp only [Nat.sub_zero] at h2
  simp only [h2, readBlock_render bufSize b rest (hwf b (List.mem_of_getElem? hi)), bind, Except.bind]

end ChythonModel.Proofs.C11
