import ChythonModel.Proofs.C02Positional
import ChythonModel.Proofs.C02Writer
/-!
# C02 — an atom token determines element, isotope and charge of the atom it was written for
-/
namespace ChythonModel.Proofs.C02
open ChythonModel.Model ChythonModel.Model.SmilesWriter ChythonModel.Model.C02RT ChythonModel.Gen.C02

/-- two element symbols of the regenerated table that agree as written (either may be lower-cased) belong to the same element -/
theorem symbols_distinguish : symbols.all (fun p => symbols.all fun q =>
    (!(p.2 == q.2) && !(lower p.2 == lower q.2) && !(lower p.2 == q.2) && !(p.2 == lower q.2)) || p.1 == q.1) = true := by
  decide +kernel

/-- the charge strings of the regenerated table are non-empty and pairwise different -/
theorem charges_distinguish : chargeStr.all (fun p => !p.2.isEmpty && chargeStr.all fun q => !(p.2 == q.2) || p.1 == q.1) = true := by
  decide +kernel

theorem emitClosures_no_atom (m : Mol) (opts : Opts) (sc : SCtx) (casted : List (Nat × Nat)) (n : Nat) :
    ∀ (cl vb : List (Nat × Nat)) cts vb', emitClosures m opts sc casted n cl vb = .ok (cts, vb') →
      ∀ k a, WTok.atom k a ∉ cts := by
  intro cl
  induction cl with
  | nil => intro vb cts vb' h k a; simp [emitClosures] at h; simp [h.1]
  | cons kc tl ih =>
    intro vb cts vb' h k a
    obtain ⟨p, c⟩ := kc
    simp only [emitClosures] at h
    split at h
    · cases h
    · split at h
      · cases h
      · rename_i bt vb1 hb
        split at h
        · cases h
        · rename_i rest vb2 hr
          simp only [Except.ok.injEq, Prod.mk.injEq] at h
          rw [← h.1]
          have := ih vb1 rest vb2 hr k a
          rcases closureBond_shape hb with hbt | ⟨s, hbt⟩ <;> subst hbt <;> simp [this]

theorem emit_atom_formatted (m : Mol) (opts : Opts) (sc : SCtx) (casted : List (Nat × Nat)) (tokens : List (Nat × List (Nat × Nat))) :
    ∀ (smi : List FTok) vb out order vb', emit m opts sc casted tokens smi vb = .ok (out, order, vb') →
      ∀ k a, WTok.atom k a ∈ out → formatAtom m opts sc k = .ok a := by
  intro smi
  induction smi with
  | nil => intro vb out order vb' h k a hk; simp [emit] at h; simp [h.1] at hk
  | cons t tl ih =>
    intro vb out order vb' h k a hk
    cases t with
    | atom n =>
      simp only [emit] at h
      split at h
      · cases h
      · rename_i a0 ha0
        split at h
        · cases h
        · split at h
          · cases h
          · rename_i cts vb1 hc
            split at h
            · cases h
            · rename_i rest order' vb2 hr
              simp only [Except.ok.injEq, Prod.mk.injEq] at h
              rw [← h.1] at hk
              simp only [List.mem_cons, WTok.atom.injEq, List.mem_append] at hk
              rcases hk with ⟨rfl, rfl⟩ | hk | hk
              · exact ha0
              · exact absurd hk (emitClosures_no_atom m opts sc casted n _ _ _ _ hc k a)
              · exact ih _ _ _ _ hr k a hk
    | bond x y =>
      simp only [emit] at h
      split at h
      · cases h
      · split at h
        · cases h
        · rename_i rest order' vb2 hr
          simp only [Except.ok.injEq, Prod.mk.injEq] at h
          rw [← h.1] at hk
          simp only [List.mem_cons, reduceCtorEq, false_or] at hk
          exact ih _ _ _ _ hr k a hk
    | lpar =>
      simp only [emit] at h
      split at h
      · cases h
      · rename_i rest order' vb2 hr
        simp only [Except.ok.injEq, Prod.mk.injEq] at h
        rw [← h.1] at hk
        simp only [List.mem_cons, reduceCtorEq, false_or] at hk
        exact ih _ _ _ _ hr k a hk
    | rpar =>
      simp only [emit] at h
      split at h
      · cases h
      · rename_i rest order' vb2 hr
        simp only [Except.ok.injEq, Prod.mk.injEq] at h
        rw [← h.1] at hk
        simp only [List.mem_cons, reduceCtorEq, false_or] at hk
        exact ih _ _ _ _ hr k a hk

theorem formatAtom_parts {m : Mol} {opts : Opts} {sc : SCtx} {n : Nat} {a : ATok} (h : formatAtom m opts sc n = .ok a) :
    ∃ x sym charge, m.atom? n = some x ∧ symbols.lookup x.z = some sym ∧ chargeText opts x = .ok charge ∧
      a.symbol = (if opts.aromatic && hybridization m n == 4 then lower sym else sym) ∧ a.isotope = isoSlot x ∧ a.charge = charge := by
  unfold formatAtom at h
  split at h
  · cases h
  · rename_i x hx
    split at h
    · cases h
    · rename_i sym hs
      split at h
      · cases h
      · rename_i mark _
        split at h
        · cases h
        · rename_i charge hc
          simp only [Except.ok.injEq] at h
          subst h
          refine ⟨x, sym, charge, hx, ?_, hc, rfl, rfl, rfl⟩
          unfold symbolOf at hs
          split at hs
          · rename_i s hs'; cases hs; exact hs'
          · cases hs

/-- the same atom token for atom `n` of two molecules (charges shown): same element, same isotope label, same charge -/
theorem atom_token_determines {m₁ m₂ : Mol} {opts : Opts} {sc₁ sc₂ : SCtx} {n : Nat} {a : ATok} (hc : opts.charges = true)
    (h₁ : formatAtom m₁ opts sc₁ n = .ok a) (h₂ : formatAtom m₂ opts sc₂ n = .ok a) :
    ∃ x y, m₁.atom? n = some x ∧ m₂.atom? n = some y ∧ x.z = y.z ∧ isoSlot x = isoSlot y ∧ x.charge = y.charge := by
  obtain ⟨x, sx, cx, hx, hsx, hcx, e1, e2, e3⟩ := formatAtom_parts h₁
  obtain ⟨y, sy, cy, hy, hsy, hcy, f1, f2, f3⟩ := formatAtom_parts h₂
  refine ⟨x, y, hx, hy, ?_, by rw [← e2, ← f2], ?_⟩
  · have hp := lookup_mem _ _ _ hsx
    have hq := lookup_mem _ _ _ hsy
    have key := symbols_distinguish
    simp only [List.all_eq_true] at key
    have := key _ hp _ hq
    simp only [Bool.or_eq_true, Bool.and_eq_true, Bool.not_eq_eq_eq_not, Bool.not_true, beq_eq_false_iff_ne, ne_eq,
      beq_iff_eq] at this
    rcases this with ⟨⟨⟨n1, n2⟩, n3⟩, n4⟩ | hz
    · exfalso
      have hsym : (if opts.aromatic && hybridization m₁ n == 4 then lower sx else sx) =
          (if opts.aromatic && hybridization m₂ n == 4 then lower sy else sy) := by rw [← e1, ← f1]
      split at hsym <;> split at hsym
      · exact n2 hsym
      · exact n3 hsym
      · exact n4 hsym
      · exact n1 hsym
    · exact hz
  · have hch : cx = cy := by rw [← e3, ← f3]
    subst hch
    unfold chargeText at hcx hcy
    simp only [hc, Bool.and_true] at hcx hcy
    have key := charges_distinguish
    simp only [List.all_eq_true, Bool.and_eq_true] at key
    by_cases hx0 : x.charge = 0 <;> by_cases hy0 : y.charge = 0
    · rw [hx0, hy0]
    · exfalso
      simp only [hx0, bne_self_eq_false, Bool.false_eq_true, if_false, Except.ok.injEq] at hcx
      have : (y.charge != 0) = true := by simpa using hy0
      simp only [this, if_true] at hcy
      split at hcy
      · rename_i s hs
        cases hcy
        have := (key _ (lookupInt_mem _ _ _ hs)).1
        simp [← hcx] at this
      · cases hcy
    · exfalso
      simp only [hy0, bne_self_eq_false, Bool.false_eq_true, if_false, Except.ok.injEq] at hcy
      have : (x.charge != 0) = true := by simpa using hx0
      simp only [this, if_true] at hcx
      split at hcx
      · rename_i s hs
        cases hcx
        have := (key _ (lookupInt_mem _ _ _ hs)).1
        simp [← hcy] at this
      · cases hcx
    · have hx1 : (x.charge != 0) = true := by simpa using hx0
      have hy1 : (y.charge != 0) = true := by simpa using hy0
      simp only [hx1, hy1, if_true] at hcx hcy
      split at hcx
      · rename_i s hs
        cases hcx
        split at hcy
        · rename_i s' hs'
          simp only [Except.ok.injEq] at hcy
          subst hcy
          have := (key _ (lookupInt_mem _ _ _ hs)).2
          simp only [List.all_eq_true, Bool.or_eq_true, Bool.not_eq_eq_eq_not, Bool.not_true, beq_eq_false_iff_ne, ne_eq,
            beq_iff_eq] at this
          rcases this _ (lookupInt_mem _ _ _ hs') with h1 | h1
          · exact absurd rfl h1
          · exact h1
        · cases hcy
      · cases hcx

theorem mem_wAtoms (ts : List WTok) (n : Nat) : n ∈ wAtoms ts → ∃ a, WTok.atom n a ∈ ts := by
  intro h
  simp only [wAtoms, List.mem_filterMap] at h
  obtain ⟨t, ht, hn⟩ := h
  cases t with
  | atom k a => simp only [Option.some.injEq] at hn; subst hn; exact ⟨a, ht⟩
  | _ => simp at hn

theorem bracketH_hcount (m : Mol) (opts : Opts) (n : Nat) (atom : Atom) (sym : Str) (anySmi : Bool)
    (h : (bracketH m opts n atom sym anySmi).1 = true) : (bracketH m opts n atom sym anySmi).2 = atom.implH.getD 0 := by
  unfold bracketH at h ⊢
  simp only at h ⊢
  split
  · rfl
  · split
    · rfl
    · split
      · rename_i h3
        simp only [Bool.and_eq_true, beq_iff_eq] at h3
        exact h3.1.1.symm
      · split
        · rfl
        · rename_i h1 h2 h3 h4
          rw [if_neg h1, if_neg h2, if_neg h3, if_neg h4] at h
          cases h

/-- a bracket atom token also fixes the hydrogen count -/
theorem atom_token_hcount {m₁ m₂ : Mol} {opts : Opts} {sc₁ sc₂ : SCtx} {n : Nat} {a : ATok}
    (h₁ : formatAtom m₁ opts sc₁ n = .ok a) (h₂ : formatAtom m₂ opts sc₂ n = .ok a) (hb : a.bracket = true) :
    ∃ x y, m₁.atom? n = some x ∧ m₂.atom? n = some y ∧ x.implH.getD 0 = y.implH.getD 0 := by
  have parts : ∀ (m : Mol) (sc : SCtx), formatAtom m opts sc n = .ok a →
      ∃ x, m.atom? n = some x ∧ a.hcount = x.implH.getD 0 := by
    intro m sc h
    unfold formatAtom at h
    split at h
    · cases h
    · rename_i x hx
      split at h
      · cases h
      · split at h
        · cases h
        · split at h
          · cases h
          · simp only [Except.ok.injEq] at h
            subst h
            exact ⟨x, hx, bracketH_hcount _ _ _ _ _ _ hb⟩
  obtain ⟨x, hx, e1⟩ := parts m₁ sc₁ h₁
  obtain ⟨y, hy, e2⟩ := parts m₂ sc₂ h₂
  exact ⟨x, y, hx, hy, e1.symm.trans e2⟩

/-- decidable form of `NoAromaticHalogen` -/
def noAromaticHalogenB (m : Mol) (opts : Opts) : Bool :=
  m.atoms.all fun p => !(opts.aromatic && hybridization m p.1 == 4 && [9, 17, 35, 53].contains p.2.z)

theorem noAromaticHalogen_of_B {m : Mol} {opts : Opts} (h : noAromaticHalogenB m opts = true) : NoAromaticHalogen m opts := by
  intro n atom hat har hh hz
  have hmem : (n, atom) ∈ m.atoms := lookup_mem _ _ _ hat
  simp only [noAromaticHalogenB, List.all_eq_true] at h
  have := h _ hmem
  simp only [har, hh, beq_self_eq_true, Bool.and_self, Bool.true_and, Bool.not_eq_eq_eq_not, Bool.not_true,
    List.contains_eq_mem, decide_eq_false_iff_not] at this
  exact this hz

end ChythonModel.Proofs.C02
