import ChythonModel.Proofs.C05SearchPlan
/-!
# C05 — the invariant of the search on a prepared component without ambiguous atoms
-/
namespace ChythonModel.Proofs.C05S
open ChythonModel.Model ChythonModel.Model.C05 ChythonModel.Model.C05S

/-- a stack entry as a path entry -/
def pe (e : Entry) : PEntry := (e.atom, e.prev, e.bond)
/-- the undirected bond -/
def ukey (a p : Nat) : Nat × Nat := (min a p, max a p)
def key (x : PEntry) : Nat × Nat := ukey x.1 x.2.1
/-- `rings[v]` (empty for a missing key) -/
def nb (c : Ctx) (v : Nat) : List Nat := (c.rings.lookup v).getD []
/-- number of double bonds at atom `v` among the entries -/
def dbl (v : Nat) (l : List PEntry) : Nat := l.countP fun x => (x.1 == v || x.2.1 == v) && x.2.2 == 2
/-- everything assigned so far: the path and the pending entries of the level -/
def M (level : Level) (path : Path) : List PEntry := path ++ level.map pe

theorem ukey_comm (a p : Nat) : ukey a p = ukey p a := by
  simp only [ukey, Prod.mk.injEq]; omega

theorem ukey_eq {a p a' p' : Nat} (h : ukey a p = ukey a' p') : (a = a' ∧ p = p') ∨ (a = p' ∧ p = a') := by
  simp only [ukey, Prod.mk.injEq] at h; omega

theorem hashedIn_mem {path : Path} {x : PEntry} (h : x ∈ path) : hashedIn path x.1 = true := by
  simp only [hashedIn, List.any_eq_true, beq_iff_eq]
  exact ⟨x, h, rfl⟩

theorem hashedIn_iff {path : Path} {v : Nat} : hashedIn path v = true ↔ ∃ x ∈ path, x.1 = v := by
  simp [hashedIn]

theorem removeAll_perm {atom : Nat} : ∀ {xs : List Nat} {l base : Level}, removeAll atom l xs = some base →
    l.Perm (xs.map (fun x => mk atom x 1) ++ base) := by
  intro xs
  induction xs with
  | nil => intro l base h; simp only [removeAll, Option.some.injEq] at h; subst h; simp
  | cons x xs ih =>
    intro l base h
    simp only [removeAll] at h
    split at h
    · rename_i hc
      have h1 := ih h
      have hm : mk atom x 1 ∈ l := by simpa using hc
      exact (List.perm_cons_erase hm).trans (by simpa using h1)
    · simp at h

theorem dbl_append (v : Nat) (l l' : List PEntry) : dbl v (l ++ l') = dbl v l + dbl v l' := by
  simp [dbl]

theorem dbl_perm {v : Nat} {l l' : List PEntry} (h : l.Perm l') : dbl v l = dbl v l' := h.countP_eq _

theorem insert0_eq (ins0 : Option Entry) (l : Level) : insert0 ins0 l = ins0.toList ++ l := by
  cases ins0 <;> rfl

theorem key_flip (x a : Nat) : key (x, a, 1) = key (pe (mk a x 1)) := by
  simp [key, pe, mk, ukey_comm]

section step
variable {a : Nat} {ins0 : Option Entry} {clos : List Nat} {level' base br : Level} {e : Entry} {path : Path}

/-- the list facts behind one planning step: what is assigned afterwards is what was assigned before, with the
    closure entries turned round, plus the new entries -/
theorem keys_step (hr : removeAll a (insert0 ins0 level') clos = some base) :
    ((M (base ++ br) ((path ++ [pe e]) ++ clos.map fun x => (x, a, 1))).map key).Perm
      ((M (level' ++ [e]) path).map key ++ ((ins0.toList ++ br).map pe).map key) := by
  have hR := removeAll_perm hr
  rw [insert0_eq] at hR
  have h1 : ((clos.map fun x => ((x, a, 1) : PEntry)).map key) = ((clos.map fun x => mk a x 1).map pe).map key := by
    simp only [List.map_map]
    apply List.map_congr_left
    intro x _
    exact key_flip x a
  have h2 : (((clos.map fun x => mk a x 1) ++ base).map pe).map key |>.Perm (((ins0.toList ++ level').map pe).map key) :=
    ((hR.map pe).map key).symm
  rw [List.perm_iff_count]
  intro k
  have h3 := h2.count_eq k
  simp only [M, List.map_append, h1, List.count_append, List.map_cons, List.map_nil] at h3 ⊢
  omega

theorem dbl_flips (v a : Nat) (clos : List Nat) : dbl v (clos.map fun x => ((x, a, 1) : PEntry)) = 0 := by
  simp [dbl, List.countP_eq_zero]

theorem dbl_unflips (v a : Nat) (clos : List Nat) : dbl v ((clos.map fun x => mk a x 1).map pe) = 0 := by
  simp [dbl, List.countP_eq_zero, pe, mk]

theorem dbl_step (hr : removeAll a (insert0 ins0 level') clos = some base) (v : Nat) :
    dbl v (M (base ++ br) ((path ++ [pe e]) ++ clos.map fun x => (x, a, 1))) =
      dbl v (M (level' ++ [e]) path) + dbl v ((ins0.toList ++ br).map pe) := by
  have hR := removeAll_perm hr
  rw [insert0_eq] at hR
  have h2 := dbl_perm (v := v) (hR.map pe)
  simp only [List.map_append, dbl_append, dbl_unflips] at h2
  simp only [M, List.map_append, dbl_append, dbl_flips, List.map_cons, List.map_nil]
  omega

theorem mem_step (hr : removeAll a (insert0 ins0 level') clos = some base) {x : PEntry}
    (hx : x ∈ M (base ++ br) ((path ++ [pe e]) ++ clos.map fun x => (x, a, 1))) :
    x ∈ M (level' ++ [e]) path ∨ (∃ y ∈ clos, x = (y, a, 1)) ∨ x ∈ (ins0.toList ++ br).map pe := by
  have hR := removeAll_perm hr
  rw [insert0_eq] at hR
  simp only [M, List.mem_append, List.mem_map, List.mem_singleton, List.map_append] at hx ⊢
  rcases hx with ((hx | hx) | ⟨y, hy, rfl⟩) | ⟨e', he', rfl⟩ | ⟨e', he', rfl⟩
  · exact Or.inl (Or.inl hx)
  · exact Or.inl (Or.inr (Or.inr ⟨e, rfl, hx.symm⟩))
  · exact Or.inr (Or.inl ⟨y, hy, rfl⟩)
  · have : e' ∈ ins0.toList ++ level' := hR.symm.subset (List.mem_append_right _ he')
    rcases List.mem_append.1 this with h | h
    · exact Or.inr (Or.inr (Or.inl ⟨e', h, rfl⟩))
    · exact Or.inl (Or.inr (Or.inl ⟨e', h, rfl⟩))
  · exact Or.inr (Or.inr (Or.inr ⟨e', he', rfl⟩))

theorem mem_step' (hr : removeAll a (insert0 ins0 level') clos = some base) {x : PEntry}
    (hx : x ∈ M (level' ++ [e]) path) :
    x ∈ M (base ++ br) ((path ++ [pe e]) ++ clos.map fun x => (x, a, 1)) ∨ ∃ y ∈ clos, x = (a, y, 1) := by
  have hR := removeAll_perm hr
  rw [insert0_eq] at hR
  unfold M at hx ⊢
  rcases List.mem_append.1 hx with hx | hx
  · exact Or.inl (by simp [hx])
  · obtain ⟨e', he', rfl⟩ := List.mem_map.1 hx
    rcases List.mem_append.1 he' with he' | he'
    · have : e' ∈ (clos.map fun x => mk a x 1) ++ base := hR.subset (List.mem_append_right _ he')
      rcases List.mem_append.1 this with h | h
      · obtain ⟨y, hy, rfl⟩ := List.mem_map.1 h
        exact Or.inr ⟨y, hy, rfl⟩
      · refine Or.inl ?_
        simp only [List.mem_append, List.mem_map, List.map_append]
        exact Or.inr (Or.inl ⟨e', h, rfl⟩)
    · simp only [List.mem_singleton] at he'
      subst he'
      exact Or.inl (by simp)

end step

/-- what `__prepare_rings` guarantees of a component (symmetric simple graph, degrees 2–3, atom numbers ≥ 1), and
    the restriction of this development: no ambiguous ("pyrrole or pyridine") atoms -/
structure Dom (c : Ctx) : Prop where
  sym : ∀ v w, w ∈ nb c v → v ∈ nb c w
  nodup : ∀ v, (nb c v).Nodup
  noself : ∀ v, v ∉ nb c v
  deg : ∀ v, nb c v ≠ [] → 2 ≤ (nb c v).length ∧ (nb c v).length ≤ 3
  nz : c.start ≠ 0
  pyr : c.pyr = []

/-- the invariant of `explore` (`init` = the first entry `(first neighbour, start, bond)` of the level) -/
structure Inv (c : Ctx) (init : PEntry) (level : Level) (path : Path) : Prop where
  edges : ∀ x ∈ M level path, x.1 ∈ nb c x.2.1 ∧ (x.2.2 = 1 ∨ x.2.2 = 2)
  nodup : ((M level path).map key).Nodup
  cover : ∀ v, hashedIn path v = true → v ≠ c.start → ∀ w ∈ nb c v, ukey v w ∈ (M level path).map key
  alt : ∀ v, hashedIn path v = true → v ≠ c.start →
    dbl v (M level path) = if c.db.contains v = true then 0 else 1
  lvl : ∀ e ∈ level, (hashedIn path e.atom = false ∨ e.atom = c.start) ∧
    ((hashedIn path e.prev = true ∧ e.prev ≠ c.start) ∨ path = []) ∧ (e.bond = 2 → c.db.contains e.atom = false)
  pth : ∀ x ∈ path, hashedIn path x.2.1 = true ∨ x.2.1 = c.start
  st1 : ∀ x ∈ M level path, x.2.1 = c.start → x = init
  st2 : ∀ x ∈ M level path, x.1 = c.start → x.2.2 = loopBond c
  ini : init ∈ M level path
  fresh : path = [] → level.map pe = [init]

theorem nb_of_lookup {c : Ctx} {v : Nat} {ns : List Nat} (h : c.rings.lookup v = some ns) : nb c v = ns := by
  simp [nb, h]

theorem mem_M_level {level : Level} {path : Path} {e : Entry} (h : e ∈ level) : pe e ∈ M level path :=
  List.mem_append_right _ (List.mem_map_of_mem h)

theorem mem_M_path {level : Level} {path : Path} {x : PEntry} (h : x ∈ path) : x ∈ M level path :=
  List.mem_append_left _ h

theorem mem_M {level : Level} {path : Path} {x : PEntry} (h : x ∈ M level path) :
    x ∈ path ∨ ∃ e ∈ level, x = pe e := by
  rcases List.mem_append.1 h with h | h
  · exact Or.inl h
  · obtain ⟨e, he, rfl⟩ := List.mem_map.1 h
    exact Or.inr ⟨e, he, rfl⟩

/-- no entry of `M` has the atom being visited for the first time as its second end -/
theorem no_prev_unvisited {c : Ctx} {init : PEntry} {level : Level} {path : Path} (I : Inv c init level path)
    (hi : init.2.1 = c.start) {a : Nat} (hV : hashedIn path a = false) (hs : a ≠ c.start) :
    ∀ y ∈ M level path, y.2.1 ≠ a := by
  intro y hy hya
  rcases mem_M hy with h | ⟨e', he', rfl⟩
  · rcases I.pth y h with h1 | h1
    · rw [hya, hV] at h1; exact Bool.noConfusion h1
    · exact hs (hya ▸ h1)
  · rcases (I.lvl e' he').2.1 with ⟨h1, -⟩ | h1
    · have : e'.prev = a := hya
      rw [this, hV] at h1; exact Bool.noConfusion h1
    · have := I.fresh h1
      have hm : pe e' ∈ level.map pe := List.mem_map_of_mem he'
      rw [this, List.mem_singleton] at hm
      have : (pe e').2.1 = c.start := hm ▸ hi
      exact hs (hya ▸ this)

/-- the bond to a forward neighbour is not assigned yet -/
theorem new_key_fs {c : Ctx} {init : PEntry} {level : Level} {path : Path} (I : Inv c init level path)
    (hi : init.2.1 = c.start) {a : Nat} (hV : hashedIn path a = false) (hs : a ≠ c.start)
    {t : Nat} (ht : hashedIn path t = false) (hts : t ≠ c.start) : ukey t a ∉ (M level path).map key := by
  intro hm
  obtain ⟨y, hy, hk⟩ := List.mem_map.1 hm
  rcases ukey_eq hk with ⟨h1, h2⟩ | ⟨h1, h2⟩
  · exact no_prev_unvisited I hi hV hs y hy h2
  · rcases mem_M hy with h | ⟨e', he', rfl⟩
    · have := hashedIn_mem h
      rw [h1, hV] at this; exact Bool.noConfusion this
    · rcases (I.lvl e' he').2.1 with ⟨h3, -⟩ | h3
      · have : e'.prev = t := h2
        rw [this, ht] at h3; exact Bool.noConfusion h3
      · have := I.fresh h3
        have hm : pe e' ∈ level.map pe := List.mem_map_of_mem he'
        rw [this, List.mem_singleton] at hm
        have : (pe e').2.1 = c.start := hm ▸ hi
        exact hts (h2 ▸ this)

/-- the closing bond to the start atom is not assigned yet -/
theorem new_key_start {c : Ctx} {init : PEntry} {level' : Level} {e : Entry} {path : Path}
    (I : Inv c init (level' ++ [e]) path) (hi : init.2.1 = c.start)
    (hV : hashedIn path e.atom = false) (hs : e.atom ≠ c.start) (hp : c.start ≠ e.prev) :
    ukey c.start e.atom ∉ (M (level' ++ [e]) path).map key := by
  intro hm
  obtain ⟨y, hy, hk⟩ := List.mem_map.1 hm
  rcases ukey_eq hk with ⟨h1, h2⟩ | ⟨h1, h2⟩
  · exact no_prev_unvisited I hi hV hs y hy h2
  · rcases mem_M hy with h | ⟨e', he', rfl⟩
    · have := hashedIn_mem h
      rw [h1, hV] at this; exact Bool.noConfusion this
    · rcases (I.lvl e' he').2.1 with ⟨-, h3⟩ | h3
      · exact h3 h2
      · have := I.fresh h3
        simp only [List.map_append, List.map_cons, List.map_nil] at this
        have hl : (level'.map pe).length = 0 := by
          have := congrArg List.length this
          simp only [List.length_append, List.length_cons, List.length_nil] at this
          omega
        have hl' : level' = [] := by
          rw [List.length_map] at hl
          exact List.eq_nil_of_length_eq_zero hl
        subst hl'
        simp only [List.nil_append, List.mem_singleton] at he'
        subst he'
        exact hp h2.symm

theorem level_keys_nodup {c : Ctx} {init : PEntry} {level : Level} {path : Path} (I : Inv c init level path) :
    ((level.map pe).map key).Nodup := by
  have := I.nodup
  simp only [M, List.map_append] at this
  exact (List.nodup_append.1 this).2.1

/-- a pending entry for the atom being visited comes from one of its closures -/
theorem stale_closure {c : Ctx} (D : Dom c) {init : PEntry} {level' : Level} {e : Entry} {path : Path}
    (I : Inv c init (level' ++ [e]) path) (hV : hashedIn path e.atom = false)
    {e' : Entry} (he' : e' ∈ level') (ha : e'.atom = e.atom) :
    e'.prev ∈ closuresOf c e.prev (hashedIn (path ++ [pe e])) (nb c e.atom) := by
  have hmem : e' ∈ level' ++ [e] := List.mem_append_left _ he'
  have hlv := (I.lvl e' hmem).2.1
  have hne : path ≠ [] := by
    intro h0
    have := I.fresh h0
    have := congrArg List.length this
    simp only [List.map_append, List.length_append, List.length_map, List.length_cons, List.length_nil] at this
    have : level'.length = 0 := by omega
    rw [List.eq_nil_of_length_eq_zero this] at he'
    exact List.not_mem_nil he'
  rcases hlv with ⟨h1, h2⟩ | h
  · have hedge := (I.edges _ (mem_M_level (path := path) hmem)).1
    have hw : e'.prev ∈ nb c e.atom := by
      have : e'.atom ∈ nb c e'.prev := hedge
      rw [ha] at this
      exact D.sym _ _ this
    have hwp : e'.prev ≠ e.prev := by
      intro hEq
      have hnd := level_keys_nodup I
      simp only [List.map_append, List.map_cons, List.map_nil] at hnd
      have := (List.nodup_append.1 hnd).2.2 (key (pe e')) (List.mem_map_of_mem (List.mem_map_of_mem he'))
        (key (pe e)) (by simp)
      apply this
      simp [key, pe, ha, hEq]
    simp only [closuresOf, List.mem_filter, Bool.and_eq_true, bne_iff_ne, ne_eq]
    refine ⟨hw, ⟨hwp, h2⟩, ?_⟩
    simp [hashedIn_append, h1]
  · exact absurd h hne

/-- the facts about one planning step that every clause of the invariant uses -/
structure StepCtx (c : Ctx) (init : PEntry) (level' : Level) (e : Entry) (path : Path) (ins0 : Option Entry)
    (clos : List Nat) (brs : List (List Entry)) (base : Level) : Prop where
  I : Inv c init (level' ++ [e]) path
  hi : init.2.1 = c.start
  hV : hashedIn path e.atom = false
  hs : e.atom ≠ c.start
  hr : removeAll e.atom (insert0 ins0 level') clos = some base
  -- plan_spec
  ins : ∀ e0, ins0 = some e0 → c.start ∈ nb c e.atom ∧ c.start ≠ e.prev ∧ e0.atom = c.start ∧ e0.prev = e.atom ∧
      (e0.bond = 1 ∨ e0.bond = 2) ∧ e0.tag = none
  cl : ∀ x ∈ clos, x ∈ nb c e.atom ∧ x ≠ e.prev ∧ x ≠ c.start ∧ hashedIn (path ++ [pe e]) x = true
  brn : ∀ b ∈ brs, ∀ e' ∈ b, e'.atom ∈ nb c e.atom ∧ e'.atom ≠ e.prev ∧ e'.atom ≠ c.start ∧
      hashedIn (path ++ [pe e]) e'.atom = false ∧ e'.prev = e.atom ∧ (e'.bond = 1 ∨ e'.bond = 2)
  -- plan_facts
  f1 : c.start ∈ nb c e.atom → c.start ≠ e.prev → ∃ e0, ins0 = some e0
  f2 : ∀ e0, ins0 = some e0 → e0.bond = loopBond c
  f3 : clos = closuresOf c e.prev (hashedIn (path ++ [pe e])) (nb c e.atom)
  f4 : ∀ br ∈ brs, (br.map (·.atom)).Perm (forStackOf c e.prev (hashedIn (path ++ [pe e])) (nb c e.atom))
  f5 : ∀ br ∈ brs, ∀ e' ∈ br, e'.bond = 2 → c.db.contains e'.atom = false
  f6 : ∀ br ∈ brs, (if e.bond = 2 then 1 else 0) + twos ins0.toList + twos br =
      if c.db.contains e.atom = true then 0 else 1

theorem stepCtx_of {c : Ctx} (D : Dom c) {init : PEntry} (hi : init.2.1 = c.start) {level' : Level} {e : Entry}
    {path : Path} (I : Inv c init (level' ++ [e]) path) (hs : e.atom ≠ c.start)
    {ins0 : Option Entry} {clos : List Nat} {brs : List (List Entry)}
    (hp : plan c e.atom e.prev e.bond (hashedIn (path ++ [pe e])) (path ++ [pe e]).length = .go ins0 clos brs)
    {base : Level} (hr : removeAll e.atom (insert0 ins0 level') clos = some base) :
    StepCtx c init level' e path ins0 clos brs base := by
  have hel : e ∈ level' ++ [e] := by simp
  have hV : hashedIn path e.atom = false := by
    rcases (I.lvl e hel).1 with h | h
    · exact h
    · exact absurd h hs
  obtain ⟨nbrs, hn, s1, s2, s3⟩ := plan_spec hp
  have hnb := nb_of_lookup hn
  have hedge := I.edges _ (mem_M_level (path := path) hel)
  have hP : e.prev ∈ nbrs := hnb ▸ D.sym _ _ hedge.1
  have hne : nb c e.atom ≠ [] := by rw [hnb]; exact List.ne_nil_of_mem hP
  have hdeg := D.deg _ hne
  rw [hnb] at hdeg
  obtain ⟨g1, g2, g3, g4, g5, g6⟩ := plan_facts hp hn (hnb ▸ D.nodup e.atom) hdeg.2 hdeg.1 hP D.pyr hedge.2
    (I.lvl e hel).2.2 D.nz
  exact ⟨I, hi, hV, hs, hr, hnb ▸ s1, hnb ▸ s2, hnb ▸ s3, hnb ▸ g1, g2, hnb ▸ g3, hnb ▸ g4, g5, g6⟩

section clauses
variable {c : Ctx} {init : PEntry} {level' : Level} {e : Entry} {path : Path} {ins0 : Option Entry}
  {clos : List Nat} {brs : List (List Entry)} {base : Level}

theorem StepCtx.hashed2 (S : StepCtx c init level' e path ins0 clos brs base) (v : Nat) :
    hashedIn ((path ++ [pe e]) ++ clos.map fun x => (x, e.atom, 1)) v = true ↔
      hashedIn path v = true ∨ v = e.atom := by
  have h1 : hashedIn (path ++ [pe e]) v = true ↔ hashedIn path v = true ∨ v = e.atom := by
    rw [hashedIn_append, Bool.or_eq_true]
    have : hashedIn [pe e] v = true ↔ v = e.atom := by
      simp only [hashedIn, List.any_cons, List.any_nil, Bool.or_false, pe, beq_iff_eq]
      exact ⟨Eq.symm, Eq.symm⟩
    rw [this]
  rw [hashedIn_append, Bool.or_eq_true]
  constructor
  · rintro (h | h)
    · exact h1.1 h
    · obtain ⟨x, hx, hxv⟩ := hashedIn_iff.1 h
      obtain ⟨y, hy, rfl⟩ := List.mem_map.1 hx
      have := (S.cl y hy).2.2.2
      simp only at hxv
      subst hxv
      exact h1.1 this
  · intro h
    exact Or.inl (h1.2 h)

/-- the level before the closures are removed: keys without repetition -/
theorem StepCtx.lvl0_nodup (S : StepCtx c init level' e path ins0 clos brs base) :
    (((ins0.toList ++ level').map pe).map key).Nodup := by
  have hnd := level_keys_nodup S.I
  simp only [List.map_append, List.map_cons, List.map_nil] at hnd
  have h1 := (List.nodup_append.1 hnd).1
  cases hi0 : ins0 with
  | none => simpa using h1
  | some e0 =>
    obtain ⟨-, i2, i3, i4, -, -⟩ := S.ins e0 hi0
    simp only [Option.toList_some, List.singleton_append, List.map_cons, List.nodup_cons]
    refine ⟨?_, h1⟩
    intro hm
    have hk : key (pe e0) = ukey c.start e.atom := by simp [key, pe, i3, i4]
    rw [hk] at hm
    apply new_key_start S.I S.hi S.hV S.hs i2
    simp only [M, List.map_append, List.mem_append]
    exact Or.inr (Or.inl hm)

/-- after the closures are removed no pending entry is left for the atom just visited -/
theorem StepCtx.base_not_atom (D : Dom c) (S : StepCtx c init level' e path ins0 clos brs base) :
    ∀ e' ∈ base, e'.atom ≠ e.atom := by
  intro e' he' ha
  have hR := removeAll_perm S.hr
  rw [insert0_eq] at hR
  have h0 : e' ∈ ins0.toList ++ level' := hR.symm.subset (List.mem_append_right _ he')
  rcases List.mem_append.1 h0 with h | h
  · cases hi0 : ins0 with
    | none => simp [hi0] at h
    | some e0 =>
      simp only [hi0, Option.toList_some, List.mem_singleton] at h
      subst h
      exact S.hs (ha.symm.trans (S.ins e' hi0).2.2.1)
  · have hc := stale_closure D S.I S.hV h ha
    rw [← S.f3] at hc
    have hnd := (((hR.map pe).map key).nodup_iff).1 S.lvl0_nodup
    simp only [List.map_append] at hnd
    have := (List.nodup_append.1 hnd).2.2 (key (pe (Model.C05S.mk e.atom e'.prev 1)))
      (List.mem_map_of_mem (List.mem_map_of_mem (List.mem_map_of_mem hc)))
      (key (pe e')) (List.mem_map_of_mem (List.mem_map_of_mem he'))
    apply this
    simp [key, pe, Model.C05S.mk, ha]

/-- the new entries of a step: all leave the atom just visited -/
theorem StepCtx.new_entries (S : StepCtx c init level' e path ins0 clos brs base) {br : Level} (hbr : br ∈ brs) :
    ∀ x ∈ (ins0.toList ++ br).map pe, x.2.1 = e.atom ∧ x.1 ∈ nb c e.atom ∧ (x.2.2 = 1 ∨ x.2.2 = 2) ∧
      ((x.1 = c.start ∧ x.2.2 = loopBond c ∧ c.start ≠ e.prev) ∨
       (x.1 ≠ c.start ∧ hashedIn (path ++ [pe e]) x.1 = false ∧ (x.2.2 = 2 → c.db.contains x.1 = false))) := by
  intro x hx
  obtain ⟨e', he', rfl⟩ := List.mem_map.1 hx
  rcases List.mem_append.1 he' with h | h
  · cases hi0 : ins0 with
    | none => simp [hi0] at h
    | some e0 =>
      simp only [hi0, Option.toList_some, List.mem_singleton] at h
      subst h
      obtain ⟨i1, i2, i3, i4, i5, -⟩ := S.ins e' hi0
      have i1' : e'.atom ∈ nb c e.atom := by rw [i3]; exact i1
      exact ⟨i4, i1', i5, Or.inl ⟨i3, S.f2 e' hi0, i2⟩⟩
  · obtain ⟨b1, -, b3, b4, b5, b6⟩ := S.brn br hbr e' h
    exact ⟨b5, b1, b6, Or.inr ⟨b3, b4, S.f5 br hbr e' h⟩⟩

theorem StepCtx.mono (S : StepCtx c init level' e path ins0 clos brs base) {v : Nat}
    (h : hashedIn path v = true) : hashedIn ((path ++ [pe e]) ++ clos.map fun x => (x, e.atom, 1)) v = true :=
  (S.hashed2 v).2 (Or.inl h)

theorem StepCtx.unvisited_of (S : StepCtx c init level' e path ins0 clos brs base) {v : Nat}
    (h : hashedIn (path ++ [pe e]) v = false) : hashedIn path v = false := by
  cases hv : hashedIn path v
  · rfl
  · rw [hashedIn_append, hv] at h; simp at h

theorem StepCtx.edges' (S : StepCtx c init level' e path ins0 clos brs base) {br : Level} (hbr : br ∈ brs) :
    ∀ x ∈ M (base ++ br) ((path ++ [pe e]) ++ clos.map fun x => (x, e.atom, 1)),
      x.1 ∈ nb c x.2.1 ∧ (x.2.2 = 1 ∨ x.2.2 = 2) := by
  intro x hx
  rcases mem_step S.hr hx with h | ⟨y, hy, rfl⟩ | h
  · exact S.I.edges x h
  · exact ⟨(S.cl y hy).1, Or.inl rfl⟩
  · obtain ⟨h1, h2, h3, -⟩ := S.new_entries hbr x h
    exact ⟨h1 ▸ h2, h3⟩

theorem StepCtx.nodup' (D : Dom c) (S : StepCtx c init level' e path ins0 clos brs base) {br : Level}
    (hbr : br ∈ brs) :
    ((M (base ++ br) ((path ++ [pe e]) ++ clos.map fun x => (x, e.atom, 1))).map key).Nodup := by
  rw [(keys_step S.hr).nodup_iff, List.nodup_append]
  refine ⟨S.I.nodup, ?_, ?_⟩
  · -- the new keys are distinct
    have hkeys : ((ins0.toList ++ br).map pe).map key = ((ins0.toList ++ br).map (·.atom)).map (fun t => ukey t e.atom) := by
      simp only [List.map_map]
      apply List.map_congr_left
      intro e' he'
      have := (S.new_entries hbr (pe e') (List.mem_map_of_mem he')).1
      simp only [Function.comp, key, pe] at this ⊢
      rw [this]
    rw [hkeys]
    apply List.Nodup.map_on
    · intro x _ y _ hxy
      rcases ukey_eq hxy with ⟨h, -⟩ | ⟨h1, h2⟩
      · exact h
      · rw [h1, h2]
    · rw [List.map_append, List.nodup_append]
      refine ⟨?_, ?_, ?_⟩
      · cases ins0 <;> simp
      · have := S.f4 br hbr
        rw [this.nodup_iff]
        exact (D.nodup e.atom).filter _
      · intro x hx y hy hxy
        subst hxy
        obtain ⟨e1, he1, rfl⟩ := List.mem_map.1 hx
        obtain ⟨e2, he2, h2⟩ := List.mem_map.1 hy
        cases hi0 : ins0 with
        | none => simp [hi0] at he1
        | some e0 =>
          simp only [hi0, Option.toList_some, List.mem_singleton] at he1
          subst he1
          have := (S.brn br hbr e2 he2).2.2.1
          exact this (h2.trans (S.ins e1 hi0).2.2.1)
  · -- and not assigned before
    intro k hk k' hk' hkk
    subst hkk
    obtain ⟨x, hx, rfl⟩ := List.mem_map.1 hk'
    obtain ⟨h1, -, -, h4⟩ := S.new_entries hbr x hx
    have hkx : key x = ukey x.1 e.atom := by simp [key, h1]
    rw [hkx] at hk
    rcases h4 with ⟨g1, -, g3⟩ | ⟨g1, g2, -⟩
    · rw [g1] at hk
      exact new_key_start S.I S.hi S.hV S.hs g3 hk
    · exact new_key_fs S.I S.hi S.hV S.hs (S.unvisited_of g2) g1 hk

theorem StepCtx.key_mono (S : StepCtx c init level' e path ins0 clos brs base) {br : Level} {k : Nat × Nat}
    (h : k ∈ (M (level' ++ [e]) path).map key) :
    k ∈ (M (base ++ br) ((path ++ [pe e]) ++ clos.map fun x => (x, e.atom, 1))).map key :=
  (keys_step S.hr).symm.subset (List.mem_append_left _ h)

theorem StepCtx.key_new (S : StepCtx c init level' e path ins0 clos brs base) {br : Level} {k : Nat × Nat}
    (h : k ∈ ((ins0.toList ++ br).map pe).map key) :
    k ∈ (M (base ++ br) ((path ++ [pe e]) ++ clos.map fun x => (x, e.atom, 1))).map key :=
  (keys_step S.hr).symm.subset (List.mem_append_right _ h)

theorem StepCtx.cover' (D : Dom c) (S : StepCtx c init level' e path ins0 clos brs base) {br : Level}
    (hbr : br ∈ brs) :
    ∀ v, hashedIn ((path ++ [pe e]) ++ clos.map fun x => (x, e.atom, 1)) v = true → v ≠ c.start →
      ∀ w ∈ nb c v, ukey v w ∈ (M (base ++ br) ((path ++ [pe e]) ++ clos.map fun x => (x, e.atom, 1))).map key := by
  intro v hv hvs w hw
  rcases (S.hashed2 v).1 hv with h | h
  · exact S.key_mono (S.I.cover v h hvs w hw)
  · subst h
    by_cases hwp : w = e.prev
    · subst hwp
      apply S.key_mono
      have : pe e ∈ M (level' ++ [e]) path := mem_M_level (by simp)
      exact List.mem_map.2 ⟨pe e, this, rfl⟩
    · by_cases hws : w = c.start
      · subst hws
        obtain ⟨e0, h0⟩ := S.f1 hw (fun h => hwp h)
        obtain ⟨-, -, i3, i4, -, -⟩ := S.ins e0 h0
        apply S.key_new
        refine List.mem_map.2 ⟨pe e0, List.mem_map_of_mem (by simp [h0]), ?_⟩
        simp [key, pe, i3, i4, ukey_comm]
      · cases hh : hashedIn (path ++ [pe e]) w
        · have hfs : w ∈ forStackOf c e.prev (hashedIn (path ++ [pe e])) (nb c e.atom) := by
            simp only [forStackOf, List.mem_filter, Bool.and_eq_true, bne_iff_ne, ne_eq, Bool.not_eq_true']
            exact ⟨hw, ⟨hwp, hws⟩, hh⟩
          have := (S.f4 br hbr).symm.subset hfs
          obtain ⟨e', he', h1⟩ := List.mem_map.1 this
          apply S.key_new
          refine List.mem_map.2 ⟨pe e', List.mem_map_of_mem (List.mem_append_right _ he'), ?_⟩
          have := (S.brn br hbr e' he').2.2.2.2.1
          simp only [key, pe, this]
          rw [h1, ukey_comm]
        · have hw' : hashedIn path w = true := by
            rw [hashedIn_append, Bool.or_eq_true] at hh
            rcases hh with hh | hh
            · exact hh
            · simp only [hashedIn, List.any_cons, List.any_nil, Bool.or_false, pe, beq_iff_eq] at hh
              exact absurd (hh ▸ hw) (D.noself _)
          apply S.key_mono
          rw [ukey_comm]
          exact S.I.cover w hw' hws _ (D.sym _ _ hw)

theorem StepCtx.dbl_new_old (S : StepCtx c init level' e path ins0 clos brs base) {br : Level} (hbr : br ∈ brs)
    {v : Nat} (hv : hashedIn path v = true) (hvs : v ≠ c.start) : dbl v ((ins0.toList ++ br).map pe) = 0 := by
  unfold dbl
  rw [List.countP_eq_zero]
  intro x hx
  obtain ⟨h1, -, -, h4⟩ := S.new_entries hbr x hx
  have hva : v ≠ e.atom := by intro h; rw [h, S.hV] at hv; exact Bool.noConfusion hv
  have hx1 : x.1 ≠ v := by
    rcases h4 with ⟨g1, -, -⟩ | ⟨-, g2, -⟩
    · exact fun h => hvs (h ▸ g1)
    · intro h
      rw [h] at g2
      rw [S.unvisited_of g2] at hv
      exact Bool.noConfusion hv
  have hva' : ¬ e.atom = v := fun h => hva h.symm
  simp [hx1, h1, hva']

theorem StepCtx.dbl_new_atom (S : StepCtx c init level' e path ins0 clos brs base) {br : Level} (hbr : br ∈ brs) :
    dbl e.atom ((ins0.toList ++ br).map pe) = twos ins0.toList + twos br := by
  unfold dbl twos
  rw [List.countP_map, ← List.countP_append]
  apply List.countP_congr
  intro e' he'
  have := (S.new_entries hbr (pe e') (List.mem_map_of_mem he')).1
  simp only [pe] at this
  simp [pe, this]

/-- before the step the only double bond at the atom being visited can be the one it is entered by -/
theorem StepCtx.dbl_old_atom (D : Dom c) (S : StepCtx c init level' e path ins0 clos brs base) :
    dbl e.atom (M (level' ++ [e]) path) = if e.bond = 2 then 1 else 0 := by
  have hR := removeAll_perm S.hr
  rw [insert0_eq] at hR
  have h1 : dbl e.atom path = 0 := by
    unfold dbl
    rw [List.countP_eq_zero]
    intro x hx
    have h1 : x.1 ≠ e.atom := by
      intro h
      have := hashedIn_mem hx
      rw [h, S.hV] at this; exact Bool.noConfusion this
    have h2 := no_prev_unvisited S.I S.hi S.hV S.hs x (mem_M_path hx)
    simp [h1, h2]
  have h2 : dbl e.atom (level'.map pe) = 0 := by
    unfold dbl
    rw [List.countP_eq_zero]
    intro x hx
    obtain ⟨e', he', rfl⟩ := List.mem_map.1 hx
    have hp := no_prev_unvisited S.I S.hi S.hV S.hs (pe e') (mem_M_level (List.mem_append_left _ he'))
    by_cases ha : e'.atom = e.atom
    · -- a stale entry: it is one of the entries `(atom, closure, 1, None)` that were removed
      have : e' ∈ (clos.map fun x => Model.C05S.mk e.atom x 1) ++ base :=
        hR.subset (List.mem_append_right _ he')
      rcases List.mem_append.1 this with h | h
      · obtain ⟨y, -, rfl⟩ := List.mem_map.1 h
        simp [pe, Model.C05S.mk]
      · exact absurd ha (S.base_not_atom D e' h)
    · simp only [pe] at hp ⊢
      simp [ha, hp]
  simp only [M, List.map_append, dbl_append, h1, h2, List.map_cons, List.map_nil]
  simp [dbl, pe]

theorem StepCtx.alt' (D : Dom c) (S : StepCtx c init level' e path ins0 clos brs base) {br : Level}
    (hbr : br ∈ brs) :
    ∀ v, hashedIn ((path ++ [pe e]) ++ clos.map fun x => (x, e.atom, 1)) v = true → v ≠ c.start →
      dbl v (M (base ++ br) ((path ++ [pe e]) ++ clos.map fun x => (x, e.atom, 1))) =
        if c.db.contains v = true then 0 else 1 := by
  intro v hv hvs
  rw [dbl_step S.hr]
  rcases (S.hashed2 v).1 hv with h | h
  · rw [S.dbl_new_old hbr h hvs, S.I.alt v h hvs]; rfl
  · subst h
    rw [S.dbl_new_atom hbr, S.dbl_old_atom D, ← S.f6 br hbr]
    omega

theorem StepCtx.lvl' (D : Dom c) (S : StepCtx c init level' e path ins0 clos brs base) {br : Level}
    (hbr : br ∈ brs) :
    ∀ e' ∈ base ++ br,
      (hashedIn ((path ++ [pe e]) ++ clos.map fun x => (x, e.atom, 1)) e'.atom = false ∨ e'.atom = c.start) ∧
      ((hashedIn ((path ++ [pe e]) ++ clos.map fun x => (x, e.atom, 1)) e'.prev = true ∧ e'.prev ≠ c.start) ∨
        ((path ++ [pe e]) ++ clos.map fun x => (x, e.atom, 1)) = []) ∧
      (e'.bond = 2 → c.db.contains e'.atom = false) := by
  have hR := removeAll_perm S.hr
  rw [insert0_eq] at hR
  have hfalse : ∀ t, hashedIn path t = false → t ≠ e.atom →
      hashedIn ((path ++ [pe e]) ++ clos.map fun x => (x, e.atom, 1)) t = false := by
    intro t h1 h2
    cases h : hashedIn ((path ++ [pe e]) ++ clos.map fun x => (x, e.atom, 1)) t
    · rfl
    · rcases (S.hashed2 t).1 h with h' | h'
      · rw [h1] at h'; exact Bool.noConfusion h'
      · exact absurd h' h2
  have hself : hashedIn ((path ++ [pe e]) ++ clos.map fun x => (x, e.atom, 1)) e.atom = true :=
    (S.hashed2 _).2 (Or.inr rfl)
  intro e' he'
  rcases List.mem_append.1 he' with h | h
  · have h0 : e' ∈ ins0.toList ++ level' := hR.symm.subset (List.mem_append_right _ h)
    rcases List.mem_append.1 h0 with h1 | h1
    · cases hi0 : ins0 with
      | none => simp [hi0] at h1
      | some e0 =>
        simp only [hi0, Option.toList_some, List.mem_singleton] at h1
        subst h1
        obtain ⟨-, -, i3, i4, -, -⟩ := S.ins e' hi0
        refine ⟨Or.inr i3, Or.inl ⟨i4 ▸ hself, i4 ▸ S.hs⟩, ?_⟩
        intro hb
        have := S.f2 e' hi0
        rw [hb] at this
        unfold loopBond at this
        split at this
        · rename_i hd
          rw [List.isEmpty_iff.1 hd]; rfl
        · omega
    · obtain ⟨l1, l2, l3⟩ := S.I.lvl e' (List.mem_append_left _ h1)
      refine ⟨?_, ?_, l3⟩
      · rcases l1 with l1 | l1
        · exact Or.inl (hfalse _ l1 (S.base_not_atom D e' h))
        · exact Or.inr l1
      · rcases l2 with ⟨l2, l2'⟩ | l2
        · exact Or.inl ⟨S.mono l2, l2'⟩
        · -- the very first step: the level held only the initial entry
          have := S.I.fresh l2
          have := congrArg List.length this
          simp only [List.map_append, List.length_append, List.length_map, List.length_cons, List.length_nil] at this
          have : level'.length = 0 := by omega
          rw [List.eq_nil_of_length_eq_zero this] at h1
          exact absurd h1 List.not_mem_nil
  · obtain ⟨-, -, b3, b4, b5, -⟩ := S.brn br hbr e' h
    refine ⟨Or.inl ?_, Or.inl ⟨b5 ▸ hself, b5 ▸ S.hs⟩, S.f5 br hbr e' h⟩
    apply hfalse _ (S.unvisited_of b4)
    intro h
    rw [h, hashedIn_append] at b4
    simp [hashedIn, pe] at b4

theorem StepCtx.pth' (S : StepCtx c init level' e path ins0 clos brs base) :
    ∀ x ∈ (path ++ [pe e]) ++ clos.map fun x => (x, e.atom, 1),
      hashedIn ((path ++ [pe e]) ++ clos.map fun x => (x, e.atom, 1)) x.2.1 = true ∨ x.2.1 = c.start := by
  intro x hx
  rcases List.mem_append.1 hx with h | h
  · rcases List.mem_append.1 h with h | h
    · exact (S.I.pth x h).imp S.mono id
    · simp only [List.mem_singleton] at h
      subst h
      rcases (S.I.lvl e (by simp)).2.1 with ⟨l2, -⟩ | l2
      · exact Or.inl (S.mono l2)
      · have := S.I.fresh l2
        simp only [List.map_append, List.map_cons, List.map_nil] at this
        have h1 : pe e ∈ level'.map pe ++ [pe e] := by simp
        rw [this, List.mem_singleton] at h1
        exact Or.inr (h1 ▸ S.hi)
  · obtain ⟨y, -, rfl⟩ := List.mem_map.1 h
    exact Or.inl ((S.hashed2 _).2 (Or.inr rfl))

theorem StepCtx.st' (S : StepCtx c init level' e path ins0 clos brs base) {br : Level} (hbr : br ∈ brs) :
    (∀ x ∈ M (base ++ br) ((path ++ [pe e]) ++ clos.map fun x => (x, e.atom, 1)), x.2.1 = c.start → x = init) ∧
    (∀ x ∈ M (base ++ br) ((path ++ [pe e]) ++ clos.map fun x => (x, e.atom, 1)), x.1 = c.start → x.2.2 = loopBond c) := by
  constructor
  · intro x hx hxs
    rcases mem_step S.hr hx with h | ⟨y, hy, rfl⟩ | h
    · exact S.I.st1 x h hxs
    · exact absurd hxs S.hs
    · exact absurd ((S.new_entries hbr x h).1.symm.trans hxs) S.hs
  · intro x hx hxs
    rcases mem_step S.hr hx with h | ⟨y, hy, rfl⟩ | h
    · exact S.I.st2 x h hxs
    · exact absurd hxs (S.cl y hy).2.2.1
    · rcases (S.new_entries hbr x h).2.2.2 with ⟨-, g, -⟩ | ⟨g, -, -⟩
      · exact g
      · exact absurd hxs g

theorem StepCtx.ini' (S : StepCtx c init level' e path ins0 clos brs base) {br : Level} :
    init ∈ M (base ++ br) ((path ++ [pe e]) ++ clos.map fun x => (x, e.atom, 1)) := by
  rcases mem_step' (br := br) S.hr S.I.ini with h | ⟨y, hy, h⟩
  · exact h
  · have : init.2.1 = y := by rw [h]
    exact absurd (this.symm.trans S.hi) (S.cl y hy).2.2.1

/-- **the invariant is kept by every continuation a plan opens** -/
theorem inv_branch (D : Dom c) (S : StepCtx c init level' e path ins0 clos brs base) {br : Level} (hbr : br ∈ brs) :
    Inv c init (base ++ br) ((path ++ [pe e]) ++ clos.map fun x => (x, e.atom, 1)) where
  edges := S.edges' hbr
  nodup := S.nodup' D hbr
  cover := S.cover' D hbr
  alt := S.alt' D hbr
  lvl := S.lvl' D hbr
  pth := S.pth'
  st1 := (S.st' hbr).1
  st2 := (S.st' hbr).2
  ini := S.ini'
  fresh := fun h => by simp at h

end clauses

/-! ### the closing entry `(start, …)` is popped -/

theorem M_pop_perm (level' : Level) (e : Entry) (path : Path) :
    (M level' (path ++ [pe e])).Perm (M (level' ++ [e]) path) := by
  simp only [M, List.map_append, List.map_cons, List.map_nil, List.append_assoc]
  exact List.Perm.append_left _ List.perm_append_comm

theorem inv_start {c : Ctx} {init : PEntry} {level' : Level} {e : Entry} {path : Path}
    (I : Inv c init (level' ++ [e]) path) (hi : init.2.1 = c.start) (hs : e.atom = c.start) :
    Inv c init level' (path ++ [pe e]) := by
  have hP := M_pop_perm level' e path
  have hmem : ∀ x, x ∈ M level' (path ++ [pe e]) ↔ x ∈ M (level' ++ [e]) path := fun x => hP.mem_iff
  have hV : ∀ v, v ≠ c.start → (hashedIn (path ++ [pe e]) v = true ↔ hashedIn path v = true) := by
    intro v hv
    rw [hashedIn_append, Bool.or_eq_true]
    have : hashedIn [pe e] v = false := by
      simp only [hashedIn, List.any_cons, List.any_nil, Bool.or_false, pe, beq_eq_false_iff_ne, ne_eq]
      exact fun h => hv (h ▸ hs)
    rw [this]; simp
  have hmono : ∀ v, hashedIn path v = true → hashedIn (path ++ [pe e]) v = true := by
    intro v h; rw [hashedIn_append, h]; rfl
  have hlv' : path = [] → level' = [] := by
    intro h0
    have := congrArg List.length (I.fresh h0)
    simp only [List.map_append, List.length_append, List.length_map, List.length_cons, List.length_nil] at this
    exact List.eq_nil_of_length_eq_zero (by omega)
  refine ⟨?_, ?_, ?_, ?_, ?_, ?_, ?_, ?_, ?_, ?_⟩
  · intro x hx; exact I.edges x ((hmem x).1 hx)
  · exact ((hP.map key).nodup_iff).2 I.nodup
  · intro v hv hvs w hw
    exact (hP.map key).symm.subset (I.cover v ((hV v hvs).1 hv) hvs w hw)
  · intro v hv hvs
    rw [dbl_perm hP]
    exact I.alt v ((hV v hvs).1 hv) hvs
  · intro e' he'
    obtain ⟨l1, l2, l3⟩ := I.lvl e' (List.mem_append_left _ he')
    refine ⟨?_, ?_, l3⟩
    · rcases l1 with l1 | l1
      · by_cases h : e'.atom = c.start
        · exact Or.inr h
        · left
          cases hh : hashedIn (path ++ [pe e]) e'.atom
          · rfl
          · rw [(hV _ h).1 hh] at l1; exact Bool.noConfusion l1
      · exact Or.inr l1
    · rcases l2 with ⟨l2, l2'⟩ | l2
      · exact Or.inl ⟨hmono _ l2, l2'⟩
      · rw [hlv' l2] at he'; exact absurd he' List.not_mem_nil
  · intro x hx
    rcases List.mem_append.1 hx with h | h
    · exact (I.pth x h).imp (hmono _) id
    · simp only [List.mem_singleton] at h
      subst h
      rcases (I.lvl e (by simp)).2.1 with ⟨l2, -⟩ | l2
      · exact Or.inl (hmono _ l2)
      · have := I.fresh l2
        simp only [List.map_append, List.map_cons, List.map_nil] at this
        have h1 : pe e ∈ level'.map pe ++ [pe e] := by simp
        rw [this, List.mem_singleton] at h1
        exact Or.inr (h1 ▸ hi)
  · intro x hx; exact I.st1 x ((hmem x).1 hx)
  · intro x hx; exact I.st2 x ((hmem x).1 hx)
  · exact (hmem _).2 I.ini
  · intro h; simp at h

end ChythonModel.Proofs.C05S
