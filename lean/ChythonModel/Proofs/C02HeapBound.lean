import ChythonModel.Proofs.C02Heap
namespace ChythonModel.Proofs.C02
open ChythonModel.Model ChythonModel.Model.SmilesWriter ChythonModel.Model.C02RT

/-! ## exactly when the heap runs empty -/

/-- cycles of `cyc` that have no number yet -/
def fresh (casted : List (Nat × Nat)) (cyc : List Nat) : List Nat := cyc.filter fun c => (casted.lookup c).isNone

theorem fresh_append_ne (casted : List (Nat × Nat)) (c h : Nat) (cs : List Nat) (hc : c ∉ cs) (hn : casted.lookup c = none) :
    fresh (casted ++ [(c, h)]) cs = fresh casted cs := by
  simp only [fresh]
  apply List.filter_congr
  intro x hx
  have hxc : x ≠ c := fun e => hc (e ▸ hx)
  cases hl : casted.lookup x with
  | none => rw [lookup_append_of_none _ _ _ _ hl]; simp [hxc]
  | some k => rw [lookup_append_of_some _ _ _ _ hl]

/-- one atom: the allocator succeeds iff the free heap has a number for every fresh cycle; otherwise `IndexError` -/
theorem castOne_ok_iff : ∀ (cyc : List Nat) (casted : List (Nat × Nat)) (heap released : List Nat), cyc.Nodup →
    ((fresh casted cyc).length ≤ heap.length →
      ∃ casted' heap' released', castOne cyc casted heap released = .ok (casted', heap', released') ∧
        heap'.length + (fresh casted cyc).length = heap.length ∧
        released'.length + (fresh casted cyc).length = released.length + cyc.length) ∧
    (heap.length < (fresh casted cyc).length → castOne cyc casted heap released = .error .indexError) := by
  intro cyc
  induction cyc with
  | nil => intro casted heap released _; exact ⟨fun _ => ⟨casted, heap, released, by simp [castOne], by simp [fresh], by simp [fresh]⟩, by simp [fresh]⟩
  | cons c cs ih =>
    intro casted heap released hnd
    have hnd' := List.nodup_cons.mp hnd
    simp only [castOne]
    cases hl : casted.lookup c with
    | some num =>
      have hf : fresh casted (c :: cs) = fresh casted cs := by simp [fresh, hl]
      rw [hf]
      obtain ⟨i1, i2⟩ := ih casted heap (released ++ [num]) hnd'.2
      refine ⟨fun h => ?_, i2⟩
      obtain ⟨c', h', r', e1, e2, e3⟩ := i1 h
      exact ⟨c', h', r', e1, e2, by simp at e3 ⊢; omega⟩
    | none =>
      have hf : fresh casted (c :: cs) = c :: fresh casted cs := by simp [fresh, hl]
      rw [hf]
      cases heap with
      | nil => simp
      | cons hp heap1 =>
        obtain ⟨i1, i2⟩ := ih (casted ++ [(c, hp)]) heap1 released hnd'.2
        rw [fresh_append_ne casted c hp cs hnd'.1 hl] at i1 i2
        simp only [List.length_cons]
        refine ⟨fun h => ?_, fun h => i2 (by omega)⟩
        obtain ⟨c', h', r', e1, e2, e3⟩ := i1 (by omega)
        exact ⟨c', h', r', e1, by omega, by omega⟩

theorem countP_eq_of_nodup (b : List Nat) (x : Nat) (hb : b.Nodup) : b.countP (· == x) = if x ∈ b then 1 else 0 := by
  induction b with
  | nil => simp
  | cons y tl ih =>
    have hnd := List.nodup_cons.mp hb
    simp only [List.countP_cons, ih hnd.2, List.mem_cons]
    by_cases hyx : y = x
    · subst hyx; simp [hnd.1]
    · have : x ≠ y := fun e => hyx e.symm
      simp [hyx, this]

theorem countP_or_disjoint (p q : Nat → Bool) (hd : ∀ y, p y = true → q y = false) :
    ∀ l : List Nat, l.countP (fun y => p y || q y) = l.countP p + l.countP q := by
  intro l
  induction l with
  | nil => simp
  | cons y tl ih =>
    simp only [List.countP_cons, ih]
    cases hp : p y with
    | true => simp [hd y hp]; omega
    | false => cases hq : q y <;> simp <;> omega

/-- for duplicate-free lists the two ways of counting the intersection agree -/
theorem inter_count_comm : ∀ (a b : List Nat), a.Nodup → b.Nodup →
    a.countP (fun x => b.contains x) = b.countP (fun x => a.contains x) := by
  intro a
  induction a with
  | nil => intro b _ _; simp
  | cons x a' ih =>
    intro b ha hb
    have hnd := List.nodup_cons.mp ha
    have h1 : b.countP (fun y => (x :: a').contains y) = b.countP (· == x) + b.countP (fun y => a'.contains y) := by
      have : (fun y => (x :: a').contains y) = fun y => (y == x) || a'.contains y := by
        funext y; simp [List.contains_cons, beq_iff_eq]
        cases h : (y == x) <;> simp_all
      rw [this]
      apply countP_or_disjoint
      intro y hy
      have : y = x := by simpa using hy
      subst this
      simpa using hnd.1
    rw [h1, countP_eq_of_nodup b x hb, ← ih b hnd.2 hb, List.countP_cons]
    by_cases hx : x ∈ b <;> simp [hx] <;> omega

/-- cycles first seen on this atom -/
def newOn (opened cyc : List Nat) : List Nat := cyc.filter fun c => !opened.contains c

/-- at every closure atom: (cycles open before it) + (cycles first seen on it) ≤ K.  Because of the delayed release a
    cycle closed on an atom still occupies its number while the new ones of that atom are allocated. -/
def peakOk (K : Nat) : List Nat → List (List Nat) → Bool
  | _, [] => true
  | opened, cyc :: tl => decide (opened.length + (newOn opened cyc).length ≤ K) && peakOk K (toggle opened cyc) tl

theorem length_insertAsc (x : Nat) (l : List Nat) : (insertAsc x l).length = l.length + 1 := by
  induction l with
  | nil => simp [insertAsc]
  | cons y tl ih => simp only [insertAsc]; split <;> simp [ih]

theorem length_pushAll : ∀ (released heap : List Nat), (pushAll heap released).length = heap.length + released.length := by
  intro released
  induction released with
  | nil => intro heap; simp [pushAll]
  | cons r tl ih =>
    intro heap
    have : pushAll heap (r :: tl) = pushAll (insertAsc r heap) tl := by simp [pushAll]
    rw [this, ih, length_insertAsc]; simp; omega

theorem nodup_toggle {opened cyc : List Nat} (ho : opened.Nodup) (hc : cyc.Nodup) : (toggle opened cyc).Nodup := by
  simp only [toggle]
  rw [List.nodup_append]
  refine ⟨ho.sublist List.filter_sublist, hc.sublist List.filter_sublist, ?_⟩
  intro a ha b hb e
  subst e
  simp only [List.mem_filter, List.contains_eq_mem, Bool.not_eq_true', decide_eq_false_iff_not] at ha hb
  exact hb.2 ha.1

theorem length_toggle {opened cyc : List Nat} (ho : opened.Nodup) (hc : cyc.Nodup) :
    (toggle opened cyc).length + cyc.length = opened.length + 2 * (newOn opened cyc).length := by
  have h1 : (opened.filter fun c => !cyc.contains c).length + opened.countP (fun c => cyc.contains c) = opened.length := by
    rw [← List.countP_eq_length_filter]
    have := List.length_eq_countP_add_countP (fun c => cyc.contains c) (l := opened)
    simp only [Bool.not_eq_true] at this
    have e : List.countP (fun c => !cyc.contains c) opened = List.countP (fun a => decide (cyc.contains a = false)) opened := by
      apply List.countP_congr; intro x _; cases cyc.contains x <;> simp
    omega
  have h2 : (newOn opened cyc).length + cyc.countP (fun c => opened.contains c) = cyc.length := by
    simp only [newOn]
    rw [← List.countP_eq_length_filter]
    have := List.length_eq_countP_add_countP (fun c => opened.contains c) (l := cyc)
    simp only [Bool.not_eq_true] at this
    have e : List.countP (fun c => !opened.contains c) cyc = List.countP (fun a => decide (opened.contains a = false)) cyc := by
      apply List.countP_congr; intro x _; cases opened.contains x <;> simp
    omega
  have h3 := inter_count_comm opened cyc ho hc
  simp only [toggle, List.length_append]
  have h4 : (cyc.filter fun c => !opened.contains c).length = (newOn opened cyc).length := rfl
  omega

/-- **exactly when `_smiles` raises IndexError**: the allocator run succeeds iff at every closure atom the cycles open
    before it plus the cycles first seen on it fit into the heap; otherwise the result is `IndexError` -/
theorem castSeq_ok_iff_peak (K : Nat) : ∀ (L : List (List Nat)) (casted : List (Nat × Nat)) (heap opened seen : List Nat),
    Held casted heap opened → KeysSeen casted seen → cyclesWF opened seen L = true → opened.Nodup →
    heap.length + opened.length = K →
    (peakOk K opened L = true → ∃ c h, castSeq L casted heap = .ok (c, h)) ∧
    (peakOk K opened L = false → castSeq L casted heap = .error .indexError) := by
  intro L
  induction L with
  | nil => intro casted heap opened seen _ _ _ _ _; simp [peakOk, castSeq]
  | cons cyc tl ih =>
    intro casted heap opened seen hH hK hwf hon hlen
    simp only [cyclesWF, Bool.and_eq_true, decide_eq_true_eq, List.all_eq_true, Bool.or_eq_true,
      List.contains_eq_mem, Bool.not_eq_eq_eq_not, Bool.not_true, decide_eq_false_iff_not] at hwf
    obtain ⟨⟨hnd, hfr⟩, hwf'⟩ := hwf
    have hfr' : ∀ c ∈ cyc, c ∈ opened ∨ casted.lookup c = none := by
      intro c hc
      rcases hfr c hc with h1 | h1
      · exact Or.inl (by simpa using h1)
      · right
        cases hl : casted.lookup c with
        | none => rfl
        | some k => exact absurd (hK c (by rw [hl]; simp)) (by simpa using h1)
    have hfresh : fresh casted cyc = newOn opened cyc := by
      simp only [fresh, newOn]
      apply List.filter_congr
      intro c hc
      rcases hfr' c hc with h1 | h1
      · obtain ⟨k, hk, _⟩ := hH.has c h1
        simp [hk, h1]
      · have : c ∉ opened := by
          intro hin
          obtain ⟨k, hk, _⟩ := hH.has c hin
          rw [h1] at hk; cases hk
        simp [h1, this]
    obtain ⟨c1, c2⟩ := castOne_ok_iff cyc casted heap [] hnd
    rw [hfresh] at c1 c2
    simp only [peakOk, Bool.and_eq_true, decide_eq_true_eq, Bool.and_eq_false_iff, decide_eq_false_iff_not]
    by_cases hfit : opened.length + (newOn opened cyc).length ≤ K
    · obtain ⟨casted1, heap1, released, hc, e1, e2⟩ := c1 (by omega)
      obtain ⟨hH1, _, _, _⟩ := castAtom_held cyc casted heap opened casted1 heap1 released hH hnd hfr' hc
      have hK1 : KeysSeen casted1 (seen ++ cyc) := by
        intro c hne
        rcases castOne_keys _ _ _ _ _ _ _ hc c hne with h1 | h1
        · simp [hK c h1]
        · simp [h1]
      have hlen1 : (pushAll heap1 released).length + (toggle opened cyc).length = K := by
        have := length_toggle hon hnd
        rw [length_pushAll]
        simp at e2
        omega
      obtain ⟨i1, i2⟩ := ih casted1 (pushAll heap1 released) (toggle opened cyc) (seen ++ cyc) hH1 hK1 hwf'
        (nodup_toggle hon hnd) hlen1
      simp only [castSeq, hc]
      exact ⟨fun h => i1 h.2, fun h => by
        rcases h with h | h
        · exact absurd hfit h
        · exact i2 h⟩
    · have := c2 (by omega)
      simp only [castSeq, this]
      exact ⟨fun h => absurd h.1 hfit, fun _ => trivial⟩

theorem initialHeap_length : initialHeap.length = 99 := by decide

/-- the writer's allocator from its initial state -/
theorem castSeq_indexError_iff (L : List (List Nat)) (hwf : cyclesWF [] [] L = true) :
    (peakOk 99 [] L = true → ∃ c h, castSeq L [] initialHeap = .ok (c, h)) ∧
    (peakOk 99 [] L = false → castSeq L [] initialHeap = .error .indexError) :=
  castSeq_ok_iff_peak 99 L [] initialHeap [] [] held_initial (by intro c hc; simp at hc) hwf (by simp)
    (by simp [initialHeap_length])

end ChythonModel.Proofs.C02
