import ChythonModel.Proofs.C08Eq
import Mathlib.Tactic.SplitIfs
import Mathlib.Data.List.Induction
/-!
# C08 — helper lemmas for the label loop (hybridisation fold)
-/
namespace ChythonModel.Proofs.C08
open ChythonModel.Model ChythonModel.Model.Query ChythonModel.Spec.Query

theorem hybStep_4 (h : Nat) : hybStep h 4 = 4 := by simp [hybStep]

theorem hybStep_3 (h : Nat) : hybStep h 3 = if h = 4 then 4 else 3 := by
  unfold hybStep; by_cases h4 : h = 4 <;> simp [h4]

theorem hybStep_2 (h : Nat) : hybStep h 2 = if h = 4 then 4 else if h = 1 then 2 else if h = 2 then 3 else h := by
  unfold hybStep; by_cases h4 : h = 4 <;> simp [h4]

theorem hybStep_other (h o : Nat) (o4 : o ≠ 4) (o3 : o ≠ 3) (o2 : o ≠ 2) : hybStep h o = h := by
  unfold hybStep; simp [o4, o3, o2]

/-- the orders the loop looks at: coordination bonds (order 8) are skipped -/
def realOrders (l : List (Nat × Bond)) : List Nat := (l.filter fun mb => mb.2.order != 8).map (·.2.order)

def hybFold (h : Nat) (os : List Nat) : Nat := os.foldl hybStep h

theorem labelsLoop_hyb (f : Nat → Option Nat) (l : List (Nat × Bond)) (acc r : Labels)
    (h : labelsLoop f l acc = some r) : r.hybridization = hybFold acc.hybridization (realOrders l) := by
  induction l generalizing acc with
  | nil => simp [labelsLoop] at h; subst h; simp [realOrders, hybFold]
  | cons mb t ih =>
    obtain ⟨m, b⟩ := mb
    unfold labelsLoop at h
    by_cases h8 : b.order = 8
    · simp [h8] at h
      have := ih acc h
      simpa [realOrders, h8] using this
    · have h8' : (b.order == 8) = false := by simp [h8]
      simp only [h8', Bool.false_eq_true, if_false] at h
      cases hf : f m with
      | none => simp [hf] at h
      | some z =>
        simp only [hf] at h
        have := ih _ h
        simpa [realOrders, h8, hybFold] using this

/-- appending one bond to the list changes the documented value exactly as one loop step does -/
theorem spec_snoc (os : List Nat) (o : Nat) :
    Spec.Query.hybridization (os ++ [o]) = hybStep (Spec.Query.hybridization os) o := by
  unfold Spec.Query.hybridization count2
  simp only [List.mem_append, List.mem_singleton, List.count_append, List.count_cons, List.count_nil]
  generalize List.count 2 os = c
  by_cases o4 : o = 4
  · subst o4; simp [hybStep_4]
  by_cases o3 : o = 3
  · subst o3; rw [hybStep_3]
    by_cases m4 : 4 ∈ os
    · simp [m4]
    · simp [m4]; split_ifs <;> simp_all
  by_cases o2 : o = 2
  · subst o2; rw [hybStep_2]
    by_cases m4 : 4 ∈ os
    · simp [m4]
    · by_cases m3 : 3 ∈ os
      · simp [m4, m3]
      · simp [m4, m3]; split_ifs <;> omega
  · rw [hybStep_other _ _ o4 o3 o2]
    have e4 : ¬ (4 = o) := fun h => o4 h.symm
    have e3 : ¬ (3 = o) := fun h => o3 h.symm
    have e2 : (o == 2) = false := by simp [o2]
    simp [e4, e3, e2]

/-- the loop computes the documented function of the list of bond orders -/
theorem hybFold_spec (os : List Nat) : hybFold 1 os = Spec.Query.hybridization os := by
  induction os using List.reverseRecOn with
  | nil => simp [hybFold, Spec.Query.hybridization, count2]
  | append_singleton l a ih =>
    rw [spec_snoc, ← ih]
    simp [hybFold, List.foldl_append]

end ChythonModel.Proofs.C08
