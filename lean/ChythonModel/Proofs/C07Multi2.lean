import ChythonModel.Proofs.C07Multi1
/-!
Gluing: a tuple of per-component mappings is the family of restrictions of ONE function, and the merged dict is the dict
of that function on all pattern atoms.
-/
namespace ChythonModel.Proofs.C07
open ChythonModel.Model.Iso ChythonModel.Spec.Embedding

def frontsOf (lq : List Step) : List Nat := lq.map (·.front)

theorem EmbedsComp.congr {q t : Graph} {C : List Nat} {scope : Nat → Bool} {atomOk : Nat → Nat → Bool}
    {bondOk : Nat → Nat → Nat → Nat → Bool} {f g : Nat → Nat} (hfg : ∀ u ∈ C, f u = g u)
    (hcl : ∀ u ∈ C, ∀ v ∈ q.nbrs u, v ∈ C) (h : EmbedsComp q t C scope atomOk bondOk f) :
    EmbedsComp q t C scope atomOk bondOk g := by
  refine ⟨?_, ?_, ?_, ?_, ?_, ?_⟩
  · intro u hu v hv e; rw [← hfg u hu, ← hfg v hv] at e; exact h.injective u hu v hv e
  · intro u hu; rw [← hfg u hu]; exact h.atom_in_target u hu
  · intro u hu; rw [← hfg u hu]; exact h.atom_matches u hu
  · intro u hu v hv; rw [← hfg u hu, ← hfg v (hcl u hu v hv)]; exact h.bond_matches u hu v hv
  · intro u hu v hv e; rw [← hfg u hu, ← hfg v hv] at e; exact h.no_extra_bond u hu v hv e
  · intro u hu; rw [← hfg u hu]; exact h.in_scope u hu

theorem asDict_congr (C : List Nat) (f g : Nat → Nat) (h : ∀ u ∈ C, f u = g u) : asDict C f = asDict C g := by
  unfold asDict
  rw [List.map_congr_left h]

/-- every (pattern component, target component) pair of the assignment is embedded by the one function `f` -/
def AllEmb (p : Problem) (comps : List (List Step)) (cands : List (List Nat)) (f : Nat → Nat) : Prop :=
  ∀ pr ∈ comps.zip cands,
    EmbedsComp p.q p.t (frontsOf pr.1) (fun n => (restrict p.scope pr.2).contains n) p.atomOk p.bondOk f

theorem glue_tuple (p : Problem) (cl : Closures) :
    ∀ (comps : List (List Step)) (cands : List (List Nat)) (ms : List Dict),
      (∀ lq ∈ comps, ∀ cand m, m ∈ recMapping (mkEnv p cl lq (restrict p.scope cand)) ↔
        ∃ f, m = asDict (frontsOf lq) f ∧
          EmbedsComp p.q p.t (frontsOf lq) (fun n => (restrict p.scope cand).contains n) p.atomOk p.bondOk f) →
      (∀ lq ∈ comps, ∀ u ∈ frontsOf lq, ∀ v ∈ p.q.nbrs u, v ∈ frontsOf lq) →
      comps.Pairwise (fun a b => List.Disjoint (frontsOf a) (frontsOf b)) →
      (List.Forall₂ (· ∈ ·) ms (mapperList p cl comps cands) ↔
        ∃ f, AllEmb p comps cands f ∧ ms = (comps.zip cands).map fun pr => asDict (frontsOf pr.1) f) := by
  intro comps
  induction comps with
  | nil =>
    intro cands ms _ _ _
    simp only [mapperList, List.zipWith_nil_left, List.forall₂_nil_right_iff, List.zip_nil_left, List.map_nil]
    exact ⟨fun h => ⟨fun _ => 0, by simp [AllEmb], h⟩, fun ⟨_, _, h⟩ => h⟩
  | cons lq lqs ih =>
    intro cands ms hx hcl hdis
    cases cands with
    | nil =>
      simp only [mapperList, List.zipWith_nil_right, List.forall₂_nil_right_iff, List.zip_nil_right, List.map_nil]
      exact ⟨fun h => ⟨fun _ => 0, by simp [AllEmb], h⟩, fun ⟨_, _, h⟩ => h⟩
    | cons cand cs =>
      rw [List.pairwise_cons] at hdis
      have ih' := ih cs
      simp only [mapperList, List.zipWith_cons_cons, List.zip_cons_cons, List.map_cons]
      constructor
      · intro h
        cases h with
        | cons h1 hrest =>
          rename_i m1 ms'
          obtain ⟨f1, hm1, e1⟩ := (hx lq (by simp) cand m1).1 h1
          obtain ⟨f', a', hms'⟩ := (ih' ms' (fun l hl => hx l (by simp [hl])) (fun l hl => hcl l (by simp [hl])) hdis.2).1 hrest
          refine ⟨fun u => if u ∈ frontsOf lq then f1 u else f' u, ?_, ?_⟩
          · intro pr hpr
            rcases List.mem_cons.1 hpr with rfl | hpr
            · exact EmbedsComp.congr (fun u hu => by simp [hu]) (hcl lq (by simp)) e1
            · have hl : pr.1 ∈ lqs := (List.of_mem_zip hpr).1
              refine EmbedsComp.congr (fun u hu => ?_) (hcl pr.1 (by simp [hl])) (a' pr hpr)
              have : u ∉ frontsOf lq := fun hh => hdis.1 pr.1 hl hh hu
              simp [this]
          · rw [hm1, hms']
            congr 1
            · exact asDict_congr _ _ _ (fun u hu => by simp [hu])
            · apply List.map_congr_left
              intro pr hpr
              have hl : pr.1 ∈ lqs := (List.of_mem_zip hpr).1
              apply asDict_congr
              intro u hu
              have : u ∉ frontsOf lq := fun hh => hdis.1 pr.1 hl hh hu
              simp [this]
      · rintro ⟨f, a, rfl⟩
        refine List.Forall₂.cons ?_ ?_
        · exact (hx lq (by simp) cand _).2 ⟨f, rfl, a (lq, cand) (by simp)⟩
        · exact (ih' _ (fun l hl => hx l (by simp [hl])) (fun l hl => hcl l (by simp [hl])) hdis.2).2
            ⟨f, fun pr hpr => a pr (List.mem_cons_of_mem _ hpr), rfl⟩

/-! ### merging dicts with disjoint keys -/

theorem foldl_set_append : ∀ (d acc : Dict), (d.map (·.1)).Nodup → (∀ k ∈ d.map (·.1), k ∉ acc.map (·.1)) →
    d.foldl (fun a p => a.set p.1 p.2) acc = acc ++ d := by
  intro d
  induction d with
  | nil => intro acc _ _; simp
  | cons p d ih =>
    intro acc hnd hdis
    simp only [List.map_cons, List.nodup_cons] at hnd
    rw [List.foldl_cons, dict_set_new acc p.1 p.2 (hdis p.1 (by simp))]
    rw [ih (acc ++ [(p.1, p.2)]) hnd.2 (by
      intro k hk
      simp only [List.map_append, List.map_cons, List.map_nil, List.mem_append, List.mem_singleton, not_or]
      exact ⟨hdis k (by simp [hk]), fun h => hnd.1 (h ▸ hk)⟩)]
    simp

theorem merge_flatten : ∀ (rest : List Dict) (m : Dict),
    (∀ d ∈ rest, (d.map (·.1)).Nodup) →
    (∀ d ∈ rest, ∀ k ∈ d.map (·.1), k ∉ m.map (·.1)) →
    rest.Pairwise (fun a b => List.Disjoint (a.map (·.1)) (b.map (·.1))) →
    rest.foldl (fun acc d => d.foldl (fun a p => a.set p.1 p.2) acc) m = m ++ rest.flatten := by
  intro rest
  induction rest with
  | nil => intro m _ _ _; simp
  | cons d rest ih =>
    intro m hnd hdm hpw
    rw [List.pairwise_cons] at hpw
    rw [List.foldl_cons, foldl_set_append d m (hnd d (by simp)) (hdm d (by simp))]
    rw [ih (m ++ d) (fun x hx => hnd x (by simp [hx])) (by
      intro x hx k hk
      simp only [List.map_append, List.mem_append, not_or]
      exact ⟨hdm x (by simp [hx]) k hk, fun h => hpw.1 x hx h hk⟩) hpw.2]
    simp

theorem asDict_keys (C : List Nat) (f : Nat → Nat) : (asDict C f).map (·.1) = C := by
  unfold asDict
  exact List.map_fst_zip (by simp)

theorem asDict_append (A B : List Nat) (f : Nat → Nat) : asDict (A ++ B) f = asDict A f ++ asDict B f := by
  unfold asDict
  rw [List.map_append, List.zip_append (by simp)]

theorem asDict_flatten (Cs : List (List Nat)) (f : Nat → Nat) :
    (Cs.map fun C => asDict C f).flatten = asDict Cs.flatten f := by
  induction Cs with
  | nil => simp [asDict]
  | cons C Cs ih => simp [asDict_append, ih]

/-- the merged dict of the restrictions of `f` to pairwise disjoint atom lists is the dict of `f` on their concatenation -/
theorem mergeD_asDict (Cs : List (List Nat)) (f : Nat → Nat) (hne : Cs ≠ []) (hnd : ∀ C ∈ Cs, C.Nodup)
    (hpw : Cs.Pairwise List.Disjoint) : mergeD (Cs.map fun C => asDict C f) = asDict Cs.flatten f := by
  cases Cs with
  | nil => exact absurd rfl hne
  | cons C Cs =>
    rw [List.pairwise_cons] at hpw
    simp only [List.map_cons, mergeD, mergeDicts, Option.getD_some]
    rw [merge_flatten]
    · rw [asDict_flatten, ← asDict_append]
      simp
    · intro d hd
      obtain ⟨C', hC', rfl⟩ := List.mem_map.1 hd
      rw [asDict_keys]; exact hnd C' (by simp [hC'])
    · intro d hd k hk
      obtain ⟨C', hC', rfl⟩ := List.mem_map.1 hd
      rw [asDict_keys] at hk ⊢
      exact fun h => hpw.1 C' hC' h hk
    · rw [List.pairwise_map]
      refine List.Pairwise.imp ?_ hpw.2
      intro a b hab
      rw [asDict_keys, asDict_keys]
      exact hab

end ChythonModel.Proofs.C07
