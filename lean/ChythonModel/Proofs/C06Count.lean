import ChythonModel.Model.C06Rings
import ChythonModel.Spec.CycleBasis
/-!
# C06 — `rings_count` is the cyclomatic number

`rings_count = sum(len(x) for x in bonds.values()) // 2 - len(bonds) + len(_connected_components(bonds))`.
The only non-trivial step is the handshake lemma: for a duplicate-free, loop-free, symmetric adjacency dict
the degree sum is twice the number of edges, each edge being listed once (`edgeList`: `(a, b)` with `a < b`).

Route: `dirPairs g` lists every directed pair `(n, k)`, `k ∈ g[n]`. Its length is the degree sum, it is
duplicate free, and symmetry makes `swap` a bijection between the pairs going up and the pairs going down.
Core Lean only.
-/
namespace ChythonModel.Proofs.C06.Count
open ChythonModel.Model ChythonModel.Model.C06 ChythonModel.Spec.CycleBasis

/-! ## small list facts missing from core -/

theorem nodup_map_of_inj {α β} (f : α → β) (l : List α)
    (hinj : ∀ x ∈ l, ∀ y ∈ l, f x = f y → x = y) (h : l.Nodup) : (l.map f).Nodup := by
  induction l with
  | nil => simp
  | cons a l ih =>
    rw [List.nodup_cons] at h
    rw [List.map_cons, List.nodup_cons]
    refine ⟨?_, ih (fun x hx y hy => hinj x (List.mem_cons_of_mem _ hx) y (List.mem_cons_of_mem _ hy)) h.2⟩
    intro hm
    obtain ⟨y, hy, hfy⟩ := List.mem_map.1 hm
    have := hinj y (List.mem_cons_of_mem _ hy) a (List.mem_cons_self) hfy
    exact h.1 (this ▸ hy)

theorem nodup_filter {α} (p : α → Bool) (l : List α) (h : l.Nodup) : (l.filter p).Nodup :=
  List.Nodup.sublist List.filter_sublist h

theorem length_filter_add_not {α} (p : α → Bool) (l : List α) :
    (l.filter p).length + (l.filter fun x => !p x).length = l.length := by
  induction l with
  | nil => rfl
  | cons a l ih =>
    cases hp : p a <;> simp [hp] <;> omega

theorem mem_of_lookup {β} (l : List (Nat × β)) (k : Nat) (v : β) (h : l.lookup k = some v) : (k, v) ∈ l := by
  induction l with
  | nil => simp at h
  | cons p l ih =>
    obtain ⟨a, b⟩ := p
    rw [List.lookup_cons] at h
    by_cases hk : k = a
    · subst hk
      simp at h
      subst h
      exact List.mem_cons_self
    · have : (k == a) = false := by simpa using hk
      rw [this] at h
      exact List.mem_cons_of_mem _ (ih h)

theorem lookup_map_snd {β γ} (f : β → γ) (l : List (Nat × β)) (k : Nat) :
    (l.map fun p => (p.1, f p.2)).lookup k = (l.lookup k).map f := by
  induction l with
  | nil => rfl
  | cons p l ih =>
    obtain ⟨a, b⟩ := p
    simp only [List.map_cons, List.lookup_cons]
    cases k == a <;> simp [ih]

/-! ## directed pairs -/

/-- every directed pair `(n, k)` with `k ∈ g[n]`, in dict order -/
def dirPairs (g : Adj) : List (Nat × Nat) := g.flatMap fun p => p.2.map fun k => (p.1, k)

theorem mem_dirPairs {g : Adj} {a b : Nat} : (a, b) ∈ dirPairs g ↔ ∃ ms, (a, ms) ∈ g ∧ b ∈ ms := by
  unfold dirPairs
  rw [List.mem_flatMap]
  constructor
  · rintro ⟨⟨n, ms⟩, hp, hm⟩
    obtain ⟨k, hk, he⟩ := List.mem_map.1 hm
    simp only [Prod.mk.injEq] at he
    obtain ⟨rfl, rfl⟩ := he
    exact ⟨ms, hp, hk⟩
  · rintro ⟨ms, hp, hb⟩
    exact ⟨(a, ms), hp, List.mem_map.2 ⟨b, hb, rfl⟩⟩

theorem length_dirPairs (g : Adj) : (dirPairs g).length = degreeSum g := by
  unfold dirPairs degreeSum
  rw [List.length_flatMap]
  simp

theorem edgeList_eq_filter (g : Adj) : edgeList g = (dirPairs g).filter fun ab => decide (ab.1 < ab.2) := by
  unfold edgeList dirPairs
  rw [List.filter_flatMap]
  congr 1
  funext p
  rw [List.filter_map]
  rfl

/-! ## what `wfAdj` / `symAdj` say -/

theorem wf_keys_nodup {g : Adj} (h : wfAdj g = true) : (keys g).Nodup := by
  unfold wfAdj at h
  simp only [Bool.and_eq_true, decide_eq_true_eq] at h
  exact h.1

theorem wf_row {g : Adj} (h : wfAdj g = true) {n : Nat} {ms : List Nat} (hp : (n, ms) ∈ g) :
    ms.Nodup ∧ ∀ k ∈ ms, k ≠ n := by
  unfold wfAdj at h
  simp only [Bool.and_eq_true, decide_eq_true_eq, List.all_eq_true] at h
  have := h.2 (n, ms) hp
  refine ⟨this.1, fun k hk => ?_⟩
  have := (this.2 k hk).1
  simpa using this

theorem sym_mem {g : Adj} (h : symAdj g = true) {a b : Nat} (hab : (a, b) ∈ dirPairs g) :
    (b, a) ∈ dirPairs g := by
  obtain ⟨ms, hp, hb⟩ := mem_dirPairs.1 hab
  unfold symAdj at h
  simp only [List.all_eq_true] at h
  have hc := h (a, ms) hp b hb
  simp only [List.contains_eq_mem, decide_eq_true_eq] at hc
  unfold nbrsOf at hc
  cases hl : g.lookup b with
  | none => rw [hl] at hc; simp at hc
  | some ns =>
    rw [hl] at hc
    exact mem_dirPairs.2 ⟨ns, mem_of_lookup g b ns hl, hc⟩

theorem nodup_dirPairs {g : Adj} (h : wfAdj g = true) : (dirPairs g).Nodup := by
  have hk := wf_keys_nodup h
  unfold dirPairs
  rw [List.nodup_iff_pairwise_ne, List.pairwise_flatMap]
  constructor
  · rintro ⟨n, ms⟩ hp
    rw [← List.nodup_iff_pairwise_ne]
    apply nodup_map_of_inj _ _ _ (wf_row h hp).1
    intro x _ y _ hxy
    simpa using hxy
  · unfold keys at hk
    rw [List.nodup_iff_pairwise_ne, List.pairwise_map] at hk
    refine hk.imp ?_
    rintro ⟨n, ms⟩ ⟨n', ms'⟩ hne x hx y hy hxy
    obtain ⟨k, _, rfl⟩ := List.mem_map.1 hx
    obtain ⟨k', _, rfl⟩ := List.mem_map.1 hy
    simp only [Prod.mk.injEq] at hxy
    exact hne hxy.1

theorem up_down_length {g : Adj} (hwf : wfAdj g = true) (hsym : symAdj g = true) :
    ((dirPairs g).filter fun ab => decide (ab.2 < ab.1)).length
      = ((dirPairs g).filter fun ab => decide (ab.1 < ab.2)).length := by
  have hD := nodup_dirPairs hwf
  have h1 : (((dirPairs g).filter fun ab => decide (ab.2 < ab.1)).map Prod.swap).Nodup := by
    apply nodup_map_of_inj _ _ _ (nodup_filter _ _ hD)
    rintro ⟨a, b⟩ _ ⟨c, d⟩ _ h
    simp only [Prod.swap, Prod.mk.injEq] at h
    simp [h.1, h.2]
  have h2 := nodup_filter (fun ab : Nat × Nat => decide (ab.1 < ab.2)) _ hD
  have hperm := (List.perm_ext_iff_of_nodup h1 h2).2 (by
    rintro ⟨a, b⟩
    simp only [List.mem_map, List.mem_filter, decide_eq_true_eq]
    constructor
    · rintro ⟨⟨c, d⟩, ⟨hm, hlt⟩, he⟩
      simp only [Prod.swap, Prod.mk.injEq] at he
      obtain ⟨rfl, rfl⟩ := he
      exact ⟨sym_mem hsym hm, hlt⟩
    · rintro ⟨hm, hlt⟩
      exact ⟨(b, a), ⟨sym_mem hsym hm, hlt⟩, rfl⟩)
  have := hperm.length_eq
  rw [List.length_map] at this
  exact this

end ChythonModel.Proofs.C06.Count

namespace ChythonModel.Proofs.C06
open ChythonModel.Model ChythonModel.Model.C06 ChythonModel.Spec.CycleBasis
open ChythonModel.Proofs.C06.Count

/-- handshake lemma for a well-formed symmetric adjacency dict: the degree sum is twice the number of edges -/
theorem degreeSum_eq_two_edges (g : Adj) (hwf : wfAdj g = true) (hsym : symAdj g = true) :
    degreeSum g = 2 * (edgeList g).length := by
  rw [← length_dirPairs, edgeList_eq_filter]
  have hsplit := length_filter_add_not (fun ab : Nat × Nat => decide (ab.1 < ab.2)) (dirPairs g)
  have hdown : ((dirPairs g).filter fun ab => !decide (ab.1 < ab.2))
      = (dirPairs g).filter fun ab => decide (ab.2 < ab.1) := by
    apply List.filter_congr
    rintro ⟨a, b⟩ hm
    obtain ⟨ms, hp, hb⟩ := mem_dirPairs.1 hm
    have hne : b ≠ a := (wf_row hwf hp).2 b hb
    by_cases hlt : a < b
    · have : ¬ b < a := by omega
      simp [hlt, this]
    · have : b < a := by omega
      simp [hlt, this]
  rw [hdown, up_down_length hwf hsym] at hsplit
  omega

/-- `rings_count` is the cyclomatic number |E| − |V| + c -/
theorem ringsCountAdj_eq_cyclomatic (g : Adj) (hwf : wfAdj g = true) (hsym : symAdj g = true) :
    ringsCountAdj g = cyclomatic g := by
  unfold ringsCountAdj cyclomatic
  rw [degreeSum_eq_two_edges g hwf hsym, Nat.mul_div_cancel_left _ (by decide : 0 < 2)]

/-! ## `not_special_connectivity` of a well-formed molecule -/

namespace Count

theorem molWF_parts {m : Mol} (h : m.WF = true) :
    m.ids.Nodup ∧ m.adj.map (·.1) = m.ids ∧
    ∀ n ms, (n, ms) ∈ m.adj → (ms.map (·.1)).Nodup ∧
      ∀ k b, (k, b) ∈ ms → k ≠ n ∧ m.hasAtom k = true ∧ m.bond? k n = some b := by
  unfold Mol.WF at h
  simp only [Bool.and_eq_true, decide_eq_true_eq, List.all_eq_true, beq_iff_eq] at h
  obtain ⟨⟨h1, h2⟩, h3⟩ := h
  refine ⟨h1, h2, fun n ms hp => ?_⟩
  have h4 := h3 (n, ms) hp
  dsimp only at h4
  refine ⟨h4.1, fun k b hkb => ?_⟩
  have h5 := h4.2 (k, b) hkb
  simp only [bne_iff_ne, ne_eq] at h5
  exact ⟨h5.1.1, h5.1.2, h5.2⟩

/-- the row transformer of `notSpecial` -/
def keep (ms : List (Nat × Bond)) : List Nat := (ms.filter fun mb => mb.2.order != 8).map (·.1)

theorem notSpecial_eq (m : Mol) : notSpecial m = m.adj.map fun p => (p.1, keep p.2) := rfl

theorem keys_notSpecial (m : Mol) : keys (notSpecial m) = m.adj.map (·.1) := by
  simp [keys, notSpecial_eq, List.map_map, Function.comp_def]

theorem mem_keep {ms : List (Nat × Bond)} {k : Nat} :
    k ∈ keep ms ↔ ∃ b, (k, b) ∈ ms ∧ (b.order != 8) = true := by
  unfold keep
  simp only [List.mem_map, List.mem_filter]
  constructor
  · rintro ⟨⟨k', b⟩, ⟨hm, ho⟩, rfl⟩
    exact ⟨b, hm, ho⟩
  · rintro ⟨b, hm, ho⟩
    exact ⟨(k, b), ⟨hm, ho⟩, rfl⟩

theorem keep_nodup {ms : List (Nat × Bond)} (h : (ms.map (·.1)).Nodup) : (keep ms).Nodup :=
  List.Nodup.sublist (List.Sublist.map _ List.filter_sublist) h

theorem hasAtom_mem_ids {m : Mol} {k : Nat} (h : m.hasAtom k = true) : k ∈ m.ids := by
  unfold Mol.hasAtom at h
  unfold Mol.ids
  simp only [List.any_eq_true, beq_iff_eq] at h
  obtain ⟨p, hp, rfl⟩ := h
  exact List.mem_map.2 ⟨p, hp, rfl⟩

theorem mem_notSpecial {m : Mol} {n : Nat} {row : List Nat} (h : (n, row) ∈ notSpecial m) :
    ∃ ms, (n, ms) ∈ m.adj ∧ row = keep ms := by
  rw [notSpecial_eq] at h
  obtain ⟨⟨n', ms⟩, hp, he⟩ := List.mem_map.1 h
  simp only [Prod.mk.injEq] at he
  obtain ⟨rfl, rfl⟩ := he
  exact ⟨ms, hp, rfl⟩

/-- the bond seen from the other side is the same `Bond`, so the order-8 filter keeps both directions -/
theorem keep_sym {m : Mol} {n k : Nat} {b : Bond} (hb : m.bond? k n = some b) (ho : (b.order != 8) = true) :
    n ∈ nbrsOf (notSpecial m) k := by
  unfold Mol.bond? Mol.nbrs at hb
  unfold nbrsOf
  rw [notSpecial_eq, lookup_map_snd]
  cases hl : m.adj.lookup k with
  | none => rw [hl] at hb; simp at hb
  | some ms' =>
    rw [hl] at hb
    simp only [Option.getD_some] at hb
    simp only [Option.map_some, Option.getD_some]
    exact mem_keep.2 ⟨b, mem_of_lookup ms' n b hb, ho⟩

end Count

/-- removing the coordinate (order 8) bonds of a well-formed molecule gives a well-formed symmetric adjacency -/
theorem notSpecial_wf (m : Mol) (h : m.WF = true) :
    wfAdj (notSpecial m) = true ∧ symAdj (notSpecial m) = true := by
  obtain ⟨hnd, hkeys, hrows⟩ := molWF_parts h
  constructor
  · unfold wfAdj
    simp only [Bool.and_eq_true, decide_eq_true_eq, List.all_eq_true, List.contains_eq_mem,
      bne_iff_ne, ne_eq]
    refine ⟨by rw [keys_notSpecial, hkeys]; exact hnd, ?_⟩
    rintro ⟨n, row⟩ hp
    obtain ⟨ms, hms, rfl⟩ := mem_notSpecial hp
    obtain ⟨hr, hb⟩ := hrows n ms hms
    refine ⟨keep_nodup hr, fun k hk => ?_⟩
    obtain ⟨b, hkb, _⟩ := mem_keep.1 hk
    obtain ⟨h1, h2, _⟩ := hb k b hkb
    refine ⟨h1, ?_⟩
    rw [keys_notSpecial, hkeys]
    exact hasAtom_mem_ids h2
  · unfold symAdj
    simp only [List.all_eq_true, List.contains_eq_mem, decide_eq_true_eq]
    rintro ⟨n, row⟩ hp k hk
    obtain ⟨ms, hms, rfl⟩ := mem_notSpecial hp
    obtain ⟨b, hkb, ho⟩ := mem_keep.1 hk
    exact keep_sym ((hrows n ms hms).2 k b hkb).2.2 ho

theorem ringsCount_eq_cyclomatic (m : Mol) (h : m.WF = true) : ringsCount m = cyclomatic (notSpecial m) := by
  obtain ⟨hwf, hsym⟩ := notSpecial_wf m h
  exact ringsCountAdj_eq_cyclomatic _ hwf hsym

/-- both sides on a concrete graph: a triangle plus an isolated edge (5 atoms, 4 bonds, 2 components, 1 ring) -/
example :
    ringsCountAdj [(1, [2, 3]), (2, [1, 3]), (3, [1, 2]), (4, [5]), (5, [4])] = some 1 ∧
    cyclomatic [(1, [2, 3]), (2, [1, 3]), (3, [1, 2]), (4, [5]), (5, [4])] = some 1 := by decide

end ChythonModel.Proofs.C06
