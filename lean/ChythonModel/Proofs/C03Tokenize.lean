import ChythonModel.Model.C03Tokenize
/-!
# C03 — invariants of the `_tokenize` state machine (helper lemmas)
-/
set_option linter.unusedSimpArgs false
namespace ChythonModel.Proofs.C03
open ChythonModel.Model.C03 ChythonModel.Gen.C03

/-- the (type, value) pairs `_tokenize` can emit -/
def shaped (t : RTok) : Bool :=
  match t.ty, t.val with
  | 0, .str _ => true | 8, .str _ => true | 1, .int _ => true | 2, .none => true | 3, .none => true
  | 4, .none => true | 5, .str _ => true | 6, .int _ => true | 9, .bool _ => true | 10, .ints _ => true
  | 12, .qbond _ _ => true | 12, .bool _ => true
  | _, _ => false

/-- the pending `token` agrees with `token_type` -/
def pendOK (tt : Nat) : Pend → Bool
  | .none => tt != 5 && tt != 7 && tt != 10
  | .sym _ => tt == 0
  | .chars _ => tt == 5 || tt == 7
  | .ints _ => tt == 10
  | .tru => tt == 12

/-- `token_type == 1` means the last token is a bond with an int order -/
def headOK (st : TState) : Bool :=
  st.ttype != 1 || match st.toks with
    | ⟨1, .int _⟩ :: _ => true
    | _ => false

structure TInv (st : TState) : Prop where
  toks : ∀ t ∈ st.toks, shaped t = true
  pend : pendOK st.ttype st.token = true
  head : headOK st = true

theorem bondChars_in_replaceDict : ∀ c ∈ bondChars, (lookupNat c replaceDict).isSome = true := by decide

theorem tinv_init : TInv {} := ⟨by simp, by decide, by decide⟩

/-- outcome of a step is a state satisfying the invariant, or a library error (never a crash) -/
def Good : Except Err TState → Prop
  | .ok st' => TInv st'
  | .error e => e.isCrash = false

theorem good_lib (c m : String) : Good (.error (.lib c m)) := rfl

/-- a pending token that is flushed outside the bracket / closure / bond-list states is `C` or `B` -/
theorem flush_shaped (st : TState) (h : TInv st) (h5 : st.ttype ≠ 5) (h7 : st.ttype ≠ 7) (h10 : st.ttype ≠ 10)
    (h12 : st.ttype ≠ 12) : ∀ t ∈ st.flush.toks, shaped t = true := by
  obtain ⟨ht, hp, _⟩ := h
  unfold TState.flush
  cases hk : st.token <;> simp_all [Pend.truthy, pendOK, TState.push, Pend.toVal, shaped]

theorem clearTok_ok (st : TState) (h : TInv st) (h5 : st.ttype ≠ 5) (h7 : st.ttype ≠ 7) (h10 : st.ttype ≠ 10)
    (ty : Nat) (t5 : ty ≠ 5) (t7 : ty ≠ 7) (t10 : ty ≠ 10) : pendOK ty st.clearTok = true := by
  obtain ⟨_, hp, _⟩ := h
  unfold TState.clearTok
  cases hk : st.token <;> simp_all [Pend.truthy, pendOK]

theorem emit_good (st : TState) (h : TInv st) (h5 : st.ttype ≠ 5) (h7 : st.ttype ≠ 7) (h10 : st.ttype ≠ 10)
    (h12 : st.ttype ≠ 12) (t : RTok) (ty : Nat) (hs : shaped t = true) (t5 : ty ≠ 5) (t7 : ty ≠ 7) (t10 : ty ≠ 10)
    (t1 : ty = 1 → ∃ o, t = ⟨1, .int o⟩) : TInv (st.emit t ty) := by
  refine ⟨?_, ?_, ?_⟩
  · intro x hx
    simp only [TState.emit, TState.push, List.mem_cons] at hx
    rcases hx with rfl | hx
    · exact hs
    · exact flush_shaped st h h5 h7 h10 h12 x hx
  · exact clearTok_ok st h h5 h7 h10 ty t5 t7 t10
  · unfold headOK
    by_cases hty : ty = 1
    · obtain ⟨o, rfl⟩ := t1 hty
      simp [TState.emit, TState.push]
    · simp [TState.emit, hty]

theorem mkQueryBond_nocrash (t : RTok) (hs : shaped t = true) (hty : t.ty = 1 ∨ t.ty = 10) (r : Bool) :
    (∃ o, mkQueryBond t.val r = .ok (.qbond o r)) ∨ (∃ c m, mkQueryBond t.val r = .error (.lib c m)) := by
  obtain ⟨ty, v⟩ := t
  cases v <;> rcases hty with h | h <;> simp_all [shaped, mkQueryBond, valueErr] <;> split <;> simp

theorem stepRing_good (st : TState) (s : Nat) (h : TInv st) (h12 : st.ttype = 12) : Good (stepRing st s) := by
  obtain ⟨ht, hp, hh⟩ := h
  unfold stepRing
  split
  · split
    · exact good_lib _ _
    · exact ⟨ht, by simp [pendOK, h12], by simp [headOK, h12]⟩
  · split
    · split
      · exact good_lib _ _
      · rename_i t rest heq
        split
        · exact good_lib _ _
        · rename_i hg
          have hty : t.ty = 1 ∨ t.ty = 10 := by
            simp only [bne_iff_ne, ne_eq, Bool.and_eq_true, not_and, Decidable.not_not] at hg
            by_cases h1 : t.ty = 1
            · exact Or.inl h1
            · exact Or.inr (hg h1)
          have hst : shaped t = true := ht t (by simp [heq])
          rcases mkQueryBond_nocrash t hst hty (!st.token.truthy) with ⟨o, ho⟩ | ⟨c, m, ho⟩
          · rw [ho]
            refine ⟨?_, by simp [pendOK, noneTy], by simp [headOK, noneTy]⟩
            intro x hx
            simp only [List.mem_cons] at hx
            rcases hx with rfl | hx
            · rfl
            · exact ht x (by simp [heq, hx])
          · rw [ho]; exact good_lib _ _
    · exact good_lib _ _

theorem stepOpen_good (st : TState) (h : TInv st) (h12 : st.ttype ≠ 12) : Good (stepOpen st) := by
  unfold stepOpen
  dsimp only
  split
  · exact good_lib _ _
  · split
    · exact good_lib _ _
    · split
      · exact good_lib _ _
      · rename_i h5 h1011 h7
        simp only [Bool.or_eq_true, beq_iff_eq, not_or] at h1011 h5 h7
        exact ⟨flush_shaped st h h5 h7 h1011.1 h12, by simp [pendOK], by simp [headOK]⟩

theorem pend_chars_of (st : TState) (h : TInv st) (h5 : st.ttype = 5 ∨ st.ttype = 7) : ∃ l, st.token = .chars l := by
  obtain ⟨_, hp, _⟩ := h
  cases hk : st.token <;> rcases h5 with h5 | h5 <;> simp_all [pendOK]

theorem stepClose_good (st : TState) (h : TInv st) : Good (stepClose st) := by
  unfold stepClose
  split
  · exact good_lib _ _
  · rename_i h5
    simp only [bne_iff_ne, ne_eq, Decidable.not_not] at h5
    split
    · exact good_lib _ _
    · obtain ⟨l, hl⟩ := pend_chars_of st h (Or.inl h5)
      rw [hl]
      refine ⟨?_, by simp [pendOK], by simp [headOK]⟩
      intro x hx
      simp only [TState.push, List.mem_cons] at hx
      rcases hx with rfl | hx
      · rfl
      · exact h.toks x hx

theorem stepInside_good (st : TState) (s : Nat) (h : TInv st) (h5 : st.ttype = 5) : Good (stepInside st s) := by
  unfold stepInside
  obtain ⟨l, hl⟩ := pend_chars_of st h (Or.inl h5)
  rw [hl]
  exact ⟨h.toks, by simp [pendOK, h5], by simp [headOK, h5]⟩

theorem stepDigit_good (st : TState) (s : Nat) (h : TInv st) (h12 : st.ttype ≠ 12) (h5 : st.ttype ≠ 5) :
    Good (stepDigit st s) := by
  unfold stepDigit
  dsimp only
  split
  · exact good_lib _ _
  · rename_i h1011
    simp only [Bool.or_eq_true, beq_iff_eq, not_or] at h1011
    split
    · exact good_lib _ _
    · split
      · rename_i h7
        simp only [beq_iff_eq] at h7
        split
        · exact good_lib _ _
        · obtain ⟨l, hl⟩ := pend_chars_of st h (Or.inr h7)
          rw [hl]
          dsimp only
          split
          · refine ⟨?_, by simp [pendOK], by simp [headOK]⟩
            intro x hx
            simp only [TState.push, List.mem_cons] at hx
            rcases hx with rfl | hx
            · rfl
            · exact h.toks x hx
          · exact ⟨h.toks, by simp [pendOK, h7], by simp [headOK, h7]⟩
      · rename_i h7
        simp only [beq_iff_eq] at h7
        split
        · exact good_lib _ _
        · exact emit_good st h h5 h7 h1011.1 h12 _ 6 rfl (by decide) (by decide) (by decide) (by simp)

theorem stepPercent_good (st : TState) (h : TInv st) (h12 : st.ttype ≠ 12) (h5 : st.ttype ≠ 5) (h7 : st.ttype ≠ 7) :
    Good (stepPercent st) := by
  unfold stepPercent
  dsimp only
  split
  · exact good_lib _ _
  · rename_i h1011
    simp only [Bool.or_eq_true, beq_iff_eq, not_or] at h1011
    split
    · exact good_lib _ _
    · exact ⟨flush_shaped st h h5 h7 h1011.1 h12, by simp [pendOK], by simp [headOK]⟩

theorem stepBond_good (st : TState) (s : Nat) (h : TInv st) (h12 : st.ttype ≠ 12) (h5 : st.ttype ≠ 5)
    (h7 : st.ttype ≠ 7) (hs : bondChars.contains s = true) : Good (stepBond st s) := by
  have hl : (lookupNat s replaceDict).isSome = true := bondChars_in_replaceDict s (by simpa using hs)
  obtain ⟨o, ho⟩ := Option.isSome_iff_exists.mp hl
  unfold stepBond
  dsimp only
  split
  · rename_i h10
    simp only [beq_iff_eq] at h10
    obtain ⟨_, hp, _⟩ := h
    rw [ho]
    cases hk : st.token <;> simp_all [pendOK]
    rename_i ht l
    refine ⟨?_, by simp [pendOK, noneTy], by simp [headOK, noneTy]⟩
    intro x hx
    simp only [List.mem_cons] at hx
    rcases hx with rfl | hx
    · rfl
    · exact ht x hx
  · rename_i h10
    simp only [beq_iff_eq] at h10
    split
    · rename_i h11
      simp only [beq_iff_eq] at h11
      split
      · exact good_lib _ _
      · refine ⟨?_, ?_, by simp [headOK, noneTy]⟩
        · intro x hx
          simp only [TState.push, List.mem_cons] at hx
          rcases hx with rfl | hx
          · rfl
          · exact h.toks x hx
        · obtain ⟨_, hp, _⟩ := h
          cases hk : st.token <;> simp_all [pendOK, TState.push, noneTy]
    · rw [ho]
      exact emit_good st h h5 h7 h10 h12 _ 1 rfl (by decide) (by decide) (by decide) (fun _ => ⟨o, rfl⟩)

theorem stepSemi_good (st : TState) (h : TInv st) : Good (stepSemi st) := by
  unfold stepSemi
  split
  · exact good_lib _ _
  · rename_i hc
    simp only [bne_iff_ne, ne_eq, Bool.and_eq_true, not_and, Decidable.not_not] at hc
    refine ⟨h.toks, ?_, by simp [headOK]⟩
    obtain ⟨_, hp, _⟩ := h
    by_cases hn : st.ttype = noneTy
    · cases hk : st.token <;> simp_all [pendOK, noneTy]
    · have := hc hn
      cases hk : st.token <;> simp_all [pendOK]

theorem stepComma_good (st : TState) (h : TInv st) : Good (stepComma st) := by
  unfold stepComma
  split
  · exact good_lib _ _
  · rename_i h1
    simp only [bne_iff_ne, ne_eq, Decidable.not_not] at h1
    obtain ⟨ht, _, hh⟩ := h
    unfold headOK at hh
    simp only [h1, bne_self_eq_false, Bool.false_or] at hh
    split at hh
    · rename_i o rest heq
      rw [heq]
      refine ⟨?_, by simp [pendOK], by simp [headOK]⟩
      intro x hx
      exact ht x (by simp [heq, hx])
    · cases hh

theorem stepBang_good (st : TState) (h : TInv st) : Good (stepBang st) := by
  unfold stepBang
  dsimp only
  split
  · exact good_lib _ _
  · rename_i hc
    simp only [Bool.not_eq_true', Bool.not_eq_false, Bool.or_eq_true, beq_iff_eq] at hc
    have h5 : st.ttype ≠ 5 := by omega
    have h7 : st.ttype ≠ 7 := by omega
    have h10 : st.ttype ≠ 10 := by omega
    have h12 : st.ttype ≠ 12 := by omega
    exact ⟨flush_shaped st h h5 h7 h10 h12, clearTok_ok st h h5 h7 h10 11 (by decide) (by decide) (by decide),
      by simp [headOK]⟩

theorem stepSecond_good (st : TState) (s : Nat) (h : TInv st) (h0 : st.ttype = 0) : Good (stepSecond st s) := by
  have push_ok : ∀ z : Str, TInv { (st.push ⟨0, .str z⟩) with token := .none } := by
    intro z
    refine ⟨?_, by simp [pendOK, TState.push, h0], by simp [headOK, TState.push, h0]⟩
    intro x hx
    simp only [TState.push, List.mem_cons] at hx
    rcases hx with rfl | hx
    · rfl
    · exact h.toks x hx
  unfold stepSecond
  split
  · split
    · exact push_ok _
    · exact good_lib _ _
  · split
    · split
      · exact push_ok _
      · exact good_lib _ _
    · exact good_lib _ _

/-- **the state machine preserves its invariant and never reaches a non-library exception** -/
theorem step_inv (st : TState) (c : Nat) (h : TInv st) : Good (step st c) := by
  unfold step
  by_cases h12 : st.ttype = 12
  · rw [if_pos (by simpa using h12)]; exact stepRing_good st c h h12
  rw [if_neg (by simpa using h12)]
  by_cases c1 : (c == 91) = true
  · rw [if_pos c1]; exact stepOpen_good st h h12
  rw [if_neg c1]
  by_cases c2 : (c == 93) = true
  · rw [if_pos c2]; exact stepClose_good st h
  rw [if_neg c2]
  by_cases h5 : st.ttype = 5
  · rw [if_pos (by simpa using h5)]; exact stepInside_good st c h h5
  rw [if_neg (by simpa using h5)]
  by_cases c3 : isDigit c = true
  · rw [if_pos c3]; exact stepDigit_good st c h h12 h5
  rw [if_neg c3]
  by_cases h7 : st.ttype = 7
  · rw [if_pos (by simpa using h7)]; exact good_lib _ _
  rw [if_neg (by simpa using h7)]
  by_cases c4 : (c == 37) = true
  · rw [if_pos c4]; exact stepPercent_good st h h12 h5 h7
  rw [if_neg c4]
  by_cases c5 : bondChars.contains c = true
  · rw [if_pos c5]; exact stepBond_good st c h h12 h5 h7 c5
  rw [if_neg c5]
  by_cases c6 : (st.ttype == 10 || st.ttype == 11) = true
  · rw [if_pos c6]; exact good_lib _ _
  rw [if_neg c6]
  simp only [Bool.or_eq_true, beq_iff_eq, not_or] at c6
  have h10 := c6.1
  by_cases c7 : slashChars.contains c = true
  · rw [if_pos c7]; exact emit_good st h h5 h7 h10 h12 _ 9 rfl (by decide) (by decide) (by decide) (by simp)
  rw [if_neg c7]
  by_cases c8 : (c == 46) = true
  · rw [if_pos c8]; exact emit_good st h h5 h7 h10 h12 _ 4 rfl (by decide) (by decide) (by decide) (by simp)
  rw [if_neg c8]
  by_cases c9 : (c == 59) = true
  · rw [if_pos c9]; exact stepSemi_good st h
  rw [if_neg c9]
  by_cases c10 : (c == 44) = true
  · rw [if_pos c10]; exact stepComma_good st h
  rw [if_neg c10]
  by_cases c11 : (c == 33) = true
  · rw [if_pos c11]; exact stepBang_good st h
  rw [if_neg c11]
  by_cases c12 : (c == 40) = true
  · rw [if_pos c12]
    by_cases d : (st.ttype == 2) = true
    · rw [if_pos d]; exact good_lib _ _
    · rw [if_neg d]; exact emit_good st h h5 h7 h10 h12 _ 2 rfl (by decide) (by decide) (by decide) (by simp)
  rw [if_neg c12]
  by_cases c13 : (c == 41) = true
  · rw [if_pos c13]
    by_cases d : (st.ttype == 2) = true
    · rw [if_pos d]; exact good_lib _ _
    · rw [if_neg d]; exact emit_good st h h5 h7 h10 h12 _ 3 rfl (by decide) (by decide) (by decide) (by simp)
  rw [if_neg c13]
  by_cases c14 : organicChars.contains c = true
  · rw [if_pos c14]; exact emit_good st h h5 h7 h10 h12 _ 0 rfl (by decide) (by decide) (by decide) (by simp)
  rw [if_neg c14]
  by_cases c15 : aromaticChars.contains c = true
  · rw [if_pos c15]; exact emit_good st h h5 h7 h10 h12 _ 8 rfl (by decide) (by decide) (by decide) (by simp)
  rw [if_neg c15]
  by_cases c16 : clBrChars.contains c = true
  · rw [if_pos c16]; exact ⟨flush_shaped st h h5 h7 h10 h12, by simp [pendOK], by simp [headOK]⟩
  rw [if_neg c16]
  by_cases h0 : st.ttype = 0
  · rw [if_pos (by simpa using h0)]; exact stepSecond_good st c h h0
  rw [if_neg (by simpa using h0)]
  exact good_lib _ _

theorem run_inv : ∀ (s : Str) (st : TState), TInv st → Good (run st s)
  | [], st, h => h
  | c :: cs, st, h => by
    unfold run
    have := step_inv st c h
    cases hk : step st c with
    | ok st' => rw [hk] at this; exact run_inv cs st' this
    | error e => rw [hk] at this; exact this

/-- result of `_tokenize`: a list of well-shaped tokens or a library error -/
def GoodToks : Except Err (List RTok) → Prop
  | .ok l => ∀ t ∈ l, shaped t = true
  | .error e => e.isCrash = false

theorem finish_good (st : TState) (h : TInv st) : GoodToks (finish st) := by
  unfold finish
  dsimp only
  split
  · rfl
  rename_i h5
  simp only [beq_iff_eq] at h5
  split
  · rename_i h7
    simp only [beq_iff_eq] at h7
    obtain ⟨l, hl⟩ := pend_chars_of st h (Or.inr h7)
    split
    · rename_i htr
      rw [hl] at htr ⊢
      cases l with
      | nil => simp [Pend.truthy] at htr
      | cons c cs =>
        intro t ht
        simp only [TState.push, List.mem_reverse, List.mem_cons] at ht
        rcases ht with rfl | ht
        · rfl
        · exact h.toks t ht
    · rfl
  rename_i h7
  simp only [beq_iff_eq] at h7
  split
  · rfl
  rename_i hc
  simp only [Bool.or_eq_true, beq_iff_eq, Bool.and_eq_true, Bool.not_eq_true', not_or, not_and,
    Bool.not_eq_false] at hc
  intro t ht
  simp only [List.mem_reverse] at ht
  unfold TState.flush at ht
  split at ht
  · rename_i htr
    simp only [TState.push, List.mem_cons] at ht
    rcases ht with rfl | ht
    · obtain ⟨_, hp, _⟩ := h
      cases hk : st.token <;> simp_all [pendOK, Pend.truthy, Pend.toVal, shaped]
    · exact h.toks t ht
  · exact h.toks t ht

theorem tokenizeRaw_good (s : Str) : GoodToks (tokenizeRaw s) := by
  unfold tokenizeRaw
  have := run_inv s {} tinv_init
  cases hk : run {} s with
  | ok st => rw [hk] at this; exact finish_good st this
  | error e => rw [hk] at this; exact this

/-! ## a non-empty string never yields an empty token list -/

/-- something has been emitted, or the pending state will emit / raise at the end -/
def Live (st : TState) : Prop :=
  st.toks ≠ [] ∨ st.ttype = 5 ∨ st.ttype = 7 ∨ st.ttype = 11 ∨ st.ttype = 12 ∨ st.token.truthy = true

theorem emit_live (st : TState) (t : RTok) (ty : Nat) : Live (st.emit t ty) :=
  Or.inl (by simp [TState.emit, TState.push])

theorem step_live (st st' : TState) (c : Nat) (h : step st c = .ok st') : Live st' := by
  unfold step at h
  by_cases h12 : (st.ttype == 12) = true
  · rw [if_pos h12] at h
    unfold stepRing at h
    simp only [beq_iff_eq] at h12
    repeat' split at h
    all_goals (cases h <;> simp [Live, TState.push, TState.emit, Pend.truthy, *])
  rw [if_neg h12] at h
  by_cases c1 : (c == 91) = true
  · rw [if_pos c1] at h
    unfold stepOpen at h
    dsimp only at h
    repeat' split at h
    all_goals (cases h <;> simp [Live, TState.push, TState.emit, Pend.truthy, *])
  rw [if_neg c1] at h
  by_cases c2 : (c == 93) = true
  · rw [if_pos c2] at h
    unfold stepClose at h
    repeat' split at h
    all_goals (cases h <;> simp [Live, TState.push, TState.emit, Pend.truthy, *])
  rw [if_neg c2] at h
  by_cases h5 : (st.ttype == 5) = true
  · rw [if_pos h5] at h
    unfold stepInside at h
    simp only [beq_iff_eq] at h5
    repeat' split at h
    all_goals (cases h <;> simp [Live, TState.push, TState.emit, Pend.truthy, *])
  rw [if_neg h5] at h
  by_cases c3 : isDigit c = true
  · rw [if_pos c3] at h
    unfold stepDigit at h
    dsimp only at h
    repeat' split at h
    all_goals (cases h <;> simp [Live, TState.push, TState.emit, Pend.truthy, *])
  rw [if_neg c3] at h
  by_cases h7 : (st.ttype == 7) = true
  · rw [if_pos h7] at h; cases h
  rw [if_neg h7] at h
  by_cases c4 : (c == 37) = true
  · rw [if_pos c4] at h
    unfold stepPercent at h
    dsimp only at h
    repeat' split at h
    all_goals (cases h <;> simp [Live, TState.push, TState.emit, Pend.truthy, *])
  rw [if_neg c4] at h
  by_cases c5 : bondChars.contains c = true
  · rw [if_pos c5] at h
    unfold stepBond at h
    dsimp only at h
    repeat' split at h
    all_goals (cases h <;> simp [Live, TState.push, TState.emit, Pend.truthy, *])
  rw [if_neg c5] at h
  by_cases c6 : (st.ttype == 10 || st.ttype == 11) = true
  · rw [if_pos c6] at h; cases h
  rw [if_neg c6] at h
  by_cases c7 : slashChars.contains c = true
  · rw [if_pos c7] at h; cases h; exact emit_live _ _ _
  rw [if_neg c7] at h
  by_cases c8 : (c == 46) = true
  · rw [if_pos c8] at h; cases h; exact emit_live _ _ _
  rw [if_neg c8] at h
  by_cases c9 : (c == 59) = true
  · rw [if_pos c9] at h
    unfold stepSemi at h
    split at h
    · cases h
    · cases h; exact Or.inr (Or.inr (Or.inr (Or.inr (Or.inl rfl))))
  rw [if_neg c9] at h
  by_cases c10 : (c == 44) = true
  · rw [if_pos c10] at h
    unfold stepComma at h
    repeat' split at h
    all_goals (cases h <;> simp [Live, TState.push, TState.emit, Pend.truthy, *])
  rw [if_neg c10] at h
  by_cases c11 : (c == 33) = true
  · rw [if_pos c11] at h
    unfold stepBang at h
    dsimp only at h
    split at h
    · cases h
    · cases h; exact Or.inr (Or.inr (Or.inr (Or.inl rfl)))
  rw [if_neg c11] at h
  by_cases c12 : (c == 40) = true
  · rw [if_pos c12] at h
    split at h
    · cases h
    · cases h; exact emit_live _ _ _
  rw [if_neg c12] at h
  by_cases c13 : (c == 41) = true
  · rw [if_pos c13] at h
    split at h
    · cases h
    · cases h; exact emit_live _ _ _
  rw [if_neg c13] at h
  by_cases c14 : organicChars.contains c = true
  · rw [if_pos c14] at h; cases h; exact emit_live _ _ _
  rw [if_neg c14] at h
  by_cases c15 : aromaticChars.contains c = true
  · rw [if_pos c15] at h; cases h; exact emit_live _ _ _
  rw [if_neg c15] at h
  by_cases c16 : clBrChars.contains c = true
  · rw [if_pos c16] at h; cases h; exact Or.inr (Or.inr (Or.inr (Or.inr (Or.inr (by simp [Pend.truthy])))))
  rw [if_neg c16] at h
  by_cases h0 : (st.ttype == 0) = true
  · rw [if_pos h0] at h
    unfold stepSecond at h
    repeat' split at h
    all_goals (cases h <;> simp [Live, TState.push, TState.emit, Pend.truthy, *])
  rw [if_neg h0] at h
  cases h

theorem run_live : ∀ (s : Str) (st st' : TState), s ≠ [] → run st s = .ok st' → Live st'
  | [], _, _, hne, _ => absurd rfl hne
  | c :: cs, st, st', _, h => by
    unfold run at h
    cases hk : step st c with
    | error e => rw [hk] at h; cases h
    | ok st1 =>
      rw [hk] at h
      cases cs with
      | nil => unfold run at h; cases h; exact step_live st _ c hk
      | cons d ds => exact run_live (d :: ds) st1 st' (by simp) h

theorem finish_nonempty (st : TState) (l : List RTok) (hl : Live st) (h : finish st = .ok l) : l ≠ [] := by
  unfold finish at h
  dsimp only at h
  split at h
  · cases h
  rename_i h5
  split at h
  · split at h
    · split at h
      · cases h; simp [TState.push]
      · cases h
    · cases h
  rename_i h7
  split at h
  · cases h
  rename_i hc
  simp only [beq_iff_eq, Bool.or_eq_true, Bool.and_eq_true, Bool.not_eq_true', not_or, not_and,
    Bool.not_eq_false] at h5 h7 hc
  cases h
  simp only [ne_eq, List.reverse_eq_nil_iff]
  unfold TState.flush
  rcases hl with hl | hl | hl | hl | hl | hl
  · split
    · simp [TState.push]
    · exact hl
  · exact absurd hl h5
  · exact absurd hl h7
  · exact absurd hl hc.1
  · rw [if_pos (hc.2 hl)]; simp [TState.push]
  · rw [if_pos hl]; simp [TState.push]

theorem tokenizeRaw_nonempty (s : Str) (l : List RTok) (hs : s ≠ []) (h : tokenizeRaw s = .ok l) : l ≠ [] := by
  unfold tokenizeRaw at h
  cases hk : run {} s with
  | error e => rw [hk] at h; cases h
  | ok st => rw [hk] at h; exact finish_nonempty st l (run_live s {} st hs hk) h

/-! ## `_atom_parse` / `smiles_tokenize` -/

theorem matchGroups_shape : ∀ (gs : List (Bool × List (List (Nat × Nat) × Nat × Nat))) (s : Str) (l : List (Option Str)),
    matchGroups gs s = some l → l.length = gs.length ∧
      ∀ i : Nat, (gs[i]?).map (fun g => g.1) = some false → ∃ c, l[i]? = some (some c)
  | [], s, l, h => by
    unfold matchGroups at h
    split at h
    · cases h; simp
    · cases h
  | (opt, items) :: tl, s, l, h => by
    unfold matchGroups at h
    split at h
    · rename_i cap rest _
      cases hk : matchGroups tl rest with
      | none => simp [hk] at h
      | some l' =>
        simp only [hk, Option.map_some, Option.some.injEq] at h
        subst h
        obtain ⟨hlen, hsome⟩ := matchGroups_shape tl rest l' hk
        refine ⟨by simp [hlen], ?_⟩
        intro i hi
        cases i with
        | zero => exact ⟨cap, rfl⟩
        | succ j => simpa using hsome j (by simpa using hi)
    · split at h
      · rename_i hopt
        cases hk : matchGroups tl s with
        | none => simp [hk] at h
        | some l' =>
          simp only [hk, Option.map_some, Option.some.injEq] at h
          subst h
          obtain ⟨hlen, hsome⟩ := matchGroups_shape tl s l' hk
          refine ⟨by simp [hlen], ?_⟩
          intro i hi
          cases i with
          | zero => simp [hopt] at hi
          | succ j => simpa using hsome j (by simpa using hi)
      · cases h

/-- shape of the regenerated `atom_re`: six capture groups, the second (element) is mandatory -/
theorem atomRe_shape : atomRe.length = 6 ∧ (atomRe[1]?).map (fun g => g.1) = some false := by decide

theorem atomParse_nocrash (s : Str) : ∀ k, atomParse s ≠ .error (.crash k) := by
  intro k
  unfold atomParse
  cases hk : matchGroups atomRe s with
  | none => simp [smilesErr]
  | some l =>
    obtain ⟨hlen, hsome⟩ := matchGroups_shape atomRe s l hk
    obtain ⟨c, hc⟩ := hsome 1 atomRe_shape.2
    rw [atomRe_shape.1] at hlen
    match l, hlen, hc with
    | [a, b, c', d, e, f], _, hc =>
      simp only [List.getElem?_cons_succ, List.getElem?_cons_zero, Option.some.injEq] at hc
      subst hc
      dsimp only
      split
      · rename_i e' he
        split at he
        · split at he
          · cases he
          · cases he; simp [smilesErr]
        · cases he
      · simp

def noOther : Tok → Bool
  | .other _ _ => false
  | _ => true

theorem shaped_cases (t : RTok) (h : shaped t = true) :
    (∃ s, t = ⟨0, .str s⟩) ∨ (∃ s, t = ⟨8, .str s⟩) ∨ (∃ o, t = ⟨1, .int o⟩) ∨ t = ⟨2, .none⟩ ∨ t = ⟨3, .none⟩ ∨
    t = ⟨4, .none⟩ ∨ (∃ s, t = ⟨5, .str s⟩) ∨ (∃ n, t = ⟨6, .int n⟩) ∨ (∃ b, t = ⟨9, .bool b⟩) ∨
    (∃ v, t = ⟨10, v⟩) ∨ (∃ v, t = ⟨12, v⟩) := by
  obtain ⟨ty, v⟩ := t
  unfold shaped at h
  split at h <;> simp_all

theorem convTok_good (t : RTok) (h : shaped t = true) :
    (∃ x, convTok t = .ok x ∧ noOther x = true) ∨ (∃ e, convTok t = .error e ∧ e.isCrash = false) := by
  rcases shaped_cases t h with ⟨s, rfl⟩ | ⟨s, rfl⟩ | ⟨o, rfl⟩ | rfl | rfl | rfl | ⟨s, rfl⟩ | ⟨n, rfl⟩ | ⟨b, rfl⟩ |
    ⟨v, rfl⟩ | ⟨v, rfl⟩
  · left; exact ⟨_, rfl, rfl⟩
  · left; exact ⟨_, rfl, rfl⟩
  · left; exact ⟨_, rfl, rfl⟩
  · left; exact ⟨_, rfl, rfl⟩
  · left; exact ⟨_, rfl, rfl⟩
  · left; exact ⟨_, rfl, rfl⟩
  · -- type 5: bracket atom
    have hc : convTok ⟨5, .str s⟩ = (atomParse s).map fun p => Tok.atom p.1 p.2 := rfl
    rw [hc]
    cases hp : atomParse s with
    | ok p => left; exact ⟨_, rfl, rfl⟩
    | error e =>
      right
      refine ⟨e, rfl, ?_⟩
      cases e with
      | lib _ _ => rfl
      | crash k => exact absurd hp (atomParse_nocrash s k)
  · left; exact ⟨_, rfl, rfl⟩
  · left; exact ⟨_, rfl, rfl⟩
  · right; exact ⟨_, rfl, rfl⟩
  · right; exact ⟨_, rfl, rfl⟩

theorem convToks_good : ∀ (raw : List RTok), (∀ t ∈ raw, shaped t = true) →
    (∃ l, convToks raw = .ok l ∧ l.length = raw.length ∧ ∀ x ∈ l, noOther x = true) ∨
    (∃ e, convToks raw = .error e ∧ e.isCrash = false)
  | [], _ => Or.inl ⟨[], rfl, rfl, by simp⟩
  | t :: tl, h => by
    unfold convToks
    rcases convTok_good t (h t (by simp)) with ⟨x, hx, hn⟩ | ⟨e, he, hc⟩
    · rw [hx]
      rcases convToks_good tl (fun u hu => h u (by simp [hu])) with ⟨l, hl, hlen, hall⟩ | ⟨e, he, hc⟩
      · rw [hl]
        left
        refine ⟨x :: l, rfl, by simp [hlen], ?_⟩
        intro y hy
        simp only [List.mem_cons] at hy
        rcases hy with rfl | hy
        · exact hn
        · exact hall y hy
      · rw [he]; right; exact ⟨e, rfl, hc⟩
    · rw [he]; right; exact ⟨e, rfl, hc⟩

/-- **`smiles_tokenize` on a non-empty string**: a non-empty list of atom/bond/branch/dot/closure tokens, or a
    library error — never another exception -/
theorem smilesTokenize_good (s : Str) (hs : s ≠ []) :
    (∃ l, smilesTokenize s = .ok l ∧ l ≠ [] ∧ ∀ x ∈ l, noOther x = true) ∨
    (∃ e, smilesTokenize s = .error e ∧ e.isCrash = false) := by
  unfold smilesTokenize
  have hg := tokenizeRaw_good s
  cases hk : tokenizeRaw s with
  | error e => rw [hk] at hg; right; exact ⟨e, rfl, hg⟩
  | ok raw =>
    rw [hk] at hg
    have hne := tokenizeRaw_nonempty s raw hs hk
    rcases convToks_good raw hg with ⟨l, hl, hlen, hall⟩ | ⟨e, he, hc⟩
    · left
      refine ⟨l, hl, ?_, hall⟩
      intro hnil
      rw [hnil] at hlen
      exact hne (List.length_eq_zero_iff.mp hlen.symm)
    · right; exact ⟨e, he, hc⟩

end ChythonModel.Proofs.C03
