import ChythonModel.Proofs.C05SearchInv
/-!
# C05 — a path of `size` entries that satisfies the invariant assigns every skeleton bond exactly once
-/
namespace ChythonModel.Proofs.C05S
open ChythonModel.Model ChythonModel.Model.C05 ChythonModel.Model.C05S

/-- all `(atom, neighbour)` pairs of the component dict -/
def dirEdges (c : Ctx) : List (Nat × Nat) := c.rings.flatMap fun p => p.2.map fun w => (p.1, w)

/-- both directions of a path entry -/
def dir (x : PEntry) : List (Nat × Nat) := [(x.1, x.2.1), (x.2.1, x.1)]

theorem lookup_of_mem_nodup {α : Type} : ∀ {l : List (Nat × α)}, (l.map (·.1)).Nodup → ∀ {k : Nat} {v : α},
    (k, v) ∈ l → l.lookup k = some v := by
  intro l
  induction l with
  | nil => intro _ k v h; simp at h
  | cons p ps ih =>
    intro hnd k v h
    obtain ⟨pk, pv⟩ := p
    simp only [List.map_cons, List.nodup_cons] at hnd
    rcases List.mem_cons.1 h with h' | h'
    · injection h' with h1 h2
      subst h1 h2
      simp
    · have hne : k ≠ pk := by
        intro hk
        subst hk
        exact hnd.1 (List.mem_map.2 ⟨(k, v), h', rfl⟩)
      have : (k == pk) = false := by simpa using hne
      rw [List.lookup_cons, this]
      exact ih hnd.2 h'

theorem mem_dirEdges {c : Ctx} (hk : (c.rings.map (·.1)).Nodup) {v w : Nat} :
    (v, w) ∈ dirEdges c ↔ w ∈ nb c v := by
  simp only [dirEdges, List.mem_flatMap, List.mem_map, Prod.mk.injEq]
  constructor
  · rintro ⟨p, hp, w', hw', rfl, rfl⟩
    have := lookup_of_mem_nodup hk (k := p.1) (v := p.2) hp
    simp [nb, this, hw']
  · intro h
    unfold nb at h
    cases hl : c.rings.lookup v with
    | none => simp [hl] at h
    | some ns =>
      simp only [hl, Option.getD_some] at h
      exact ⟨(v, ns), lookup_mem hl, w, h, rfl, rfl⟩

theorem dirEdges_nodup {c : Ctx} (hk : (c.rings.map (·.1)).Nodup) (hn : ∀ v, (nb c v).Nodup) :
    (dirEdges c).Nodup := by
  have key : ∀ (l : List (Nat × List Nat)), (l.map (·.1)).Nodup → (∀ p ∈ l, p.2.Nodup) →
      (l.flatMap fun p => p.2.map fun w => (p.1, w)).Nodup := by
    intro l
    induction l with
    | nil => intro _ _; simp
    | cons p ps ih =>
      intro h1 h2
      simp only [List.map_cons, List.nodup_cons] at h1
      simp only [List.flatMap_cons, List.nodup_append]
      refine ⟨?_, ih h1.2 (fun q hq => h2 q (List.mem_cons_of_mem _ hq)), ?_⟩
      · exact (h2 p List.mem_cons_self).map (fun a b h => by injection h)
      · intro x hx y hy hxy
        subst hxy
        obtain ⟨w, -, rfl⟩ := List.mem_map.1 hx
        obtain ⟨q, hq, hy'⟩ := List.mem_flatMap.1 hy
        obtain ⟨w', -, h⟩ := List.mem_map.1 hy'
        injection h with h3 h4
        exact h1.1 (List.mem_map.2 ⟨q, hq, h3⟩)
  apply key _ hk
  intro p hp
  have := lookup_of_mem_nodup hk (k := p.1) (v := p.2) hp
  have h2 := hn p.1
  simpa [nb, this] using h2

theorem mem_dir_flatMap {l : List PEntry} {v w : Nat} (h : (v, w) ∈ l.flatMap dir) : ukey v w ∈ l.map key := by
  obtain ⟨x, hx, hd⟩ := List.mem_flatMap.1 h
  refine List.mem_map.2 ⟨x, hx, ?_⟩
  simp only [dir, List.mem_cons, Prod.mk.injEq, List.not_mem_nil, or_false] at hd
  rcases hd with ⟨rfl, rfl⟩ | ⟨rfl, rfl⟩
  · rfl
  · exact ukey_comm _ _

theorem dir_nodup : ∀ {l : List PEntry}, (l.map key).Nodup → (∀ x ∈ l, x.1 ≠ x.2.1) → (l.flatMap dir).Nodup := by
  intro l
  induction l with
  | nil => intro _ _; simp
  | cons x xs ih =>
    intro h1 h2
    simp only [List.map_cons, List.nodup_cons] at h1
    simp only [List.flatMap_cons, List.nodup_append]
    refine ⟨?_, ih h1.2 (fun y hy => h2 y (List.mem_cons_of_mem _ hy)), ?_⟩
    · have := h2 x List.mem_cons_self
      simp only [dir, List.nodup_cons, List.mem_singleton, Prod.mk.injEq, not_and, List.not_mem_nil,
        not_false_eq_true, List.nodup_nil, and_true]
      intro h; exact absurd h this
    · intro d hd d' hd' hdd
      subst hdd
      obtain ⟨v, w⟩ := d
      have hk := mem_dir_flatMap hd'
      have : ukey v w = key x := by
        simp only [dir, List.mem_cons, Prod.mk.injEq, List.not_mem_nil, or_false] at hd
        rcases hd with ⟨rfl, rfl⟩ | ⟨rfl, rfl⟩
        · rfl
        · exact ukey_comm _ _
      exact h1.1 (this ▸ hk)

/-- **pigeonhole**: `size` distinct skeleton bonds are all skeleton bonds -/
theorem path_covers {c : Ctx} (hk : (c.rings.map (·.1)).Nodup) (hn : ∀ v, (nb c v).Nodup)
    (hsym : ∀ v w, w ∈ nb c v → v ∈ nb c w) (hself : ∀ v, v ∉ nb c v)
    {p : Path} (hedge : ∀ x ∈ p, x.1 ∈ nb c x.2.1) (hnd : (p.map key).Nodup)
    (hlen : (dirEdges c).length ≤ 2 * p.length + 1) :
    ∀ v w, w ∈ nb c v → ukey v w ∈ p.map key := by
  intro v w hw
  by_contra hnot
  have hP' := dir_nodup hnd (fun x hx h => hself _ (h ▸ hedge x hx))
  have hsub : ∀ d ∈ p.flatMap dir, d ∈ dirEdges c := by
    intro d hd
    obtain ⟨x, hx, hd⟩ := List.mem_flatMap.1 hd
    simp only [dir, List.mem_cons, List.not_mem_nil, or_false] at hd
    rcases hd with rfl | rfl
    · exact (mem_dirEdges hk).2 (hsym _ _ (hedge x hx))
    · exact (mem_dirEdges hk).2 (hedge x hx)
  have h1 : (v, w) ∉ p.flatMap dir := fun h => hnot (mem_dir_flatMap h)
  have h2 : (w, v) ∉ p.flatMap dir := fun h => hnot (ukey_comm w v ▸ mem_dir_flatMap h)
  have hvw : v ≠ w := fun h => hself v (h ▸ hw)
  have hnd3 : ((v, w) :: (w, v) :: p.flatMap dir).Nodup := by
    simp only [List.nodup_cons, List.mem_cons, Prod.mk.injEq, not_or, not_and]
    exact ⟨⟨fun h _ => hvw h, h1⟩, h2, hP'⟩
  have hsub3 : ((v, w) :: (w, v) :: p.flatMap dir) ⊆ dirEdges c := by
    intro d hd
    simp only [List.mem_cons] at hd
    rcases hd with rfl | rfl | hd
    · exact (mem_dirEdges hk).2 hw
    · exact (mem_dirEdges hk).2 (hsym _ _ hw)
    · exact hsub d hd
  have hle := (List.subperm_of_subset hnd3 hsub3).length_le
  have hlen2 : (p.flatMap dir).length = 2 * p.length := by
    simp [List.length_flatMap, dir, Nat.mul_comm]
  simp only [List.length_cons] at hle
  omega

/-- a Kekulé form of the component, stated on the yielded path: every entry is a skeleton bond with order 1 or 2, no
    bond is assigned twice, every bond is assigned, and the double bonds are a perfect matching of the atoms outside
    `double_bonded` that avoids the atoms of `double_bonded` -/
structure PathSound (c : Ctx) (db0 : List Nat) (p : Path) : Prop where
  edges : ∀ x ∈ p, x.1 ∈ nb c x.2.1 ∧ (x.2.2 = 1 ∨ x.2.2 = 2)
  once : (p.map key).Nodup
  all : ∀ v w, w ∈ nb c v → ukey v w ∈ p.map key
  matching : ∀ v, nb c v ≠ [] → dbl v p = if db0.contains v = true then 0 else 1

/-- dict keys are unique; `size` is half the number of (atom, neighbour) pairs -/
structure Dom2 (c : Ctx) : Prop where
  keys : (c.rings.map (·.1)).Nodup
  size : (dirEdges c).length ≤ 2 * c.size + 1

/-- how the start atom and the first entry were chosen (`db0` = `double_bonded` as passed in) -/
structure StartOK (c : Ctx) (db0 : List Nat) (init : PEntry) : Prop where
  prev : init.2.1 = c.start
  other : ∀ v, v ≠ c.start → c.db.contains v = db0.contains v
  cases : (loopBond c = 1 ∧ init.2.2 = 1 ∧ db0.contains c.start = true) ∨
          (loopBond c = 2 ∧ init.2.2 = 1 ∧ db0.contains c.start = false ∧ (nb c c.start).length = 2) ∨
          (loopBond c = 1 ∧ init.2.2 = 2 ∧ db0.contains c.start = false)

theorem eq_of_key_eq {l : List PEntry} (hnd : (l.map key).Nodup) {x y : PEntry} (hx : x ∈ l) (hy : y ∈ l)
    (h : key x = key y) : x = y :=
  List.inj_on_of_nodup_map hnd hx hy h

theorem countP_eq_one_of {l : List PEntry} (hnd : l.Nodup) {P : PEntry → Bool} {z : PEntry} (hz : z ∈ l)
    (h : ∀ x ∈ l, P x = true ↔ x = z) : l.countP P = 1 := by
  have : l.countP P = l.count z := by
    rw [List.count]
    apply List.countP_congr
    intro x hx
    exact (h x hx).trans beq_iff_eq.symm
  rw [this]
  exact List.count_eq_one_of_mem hnd hz

/-- **a completed path is a Kekulé form** -/
theorem inv_done {c : Ctx} (D : Dom c) (D2 : Dom2 c) {db0 : List Nat} {init : PEntry} (SO : StartOK c db0 init)
    {level' : Level} {e : Entry} {path : Path} (I : Inv c init (level' ++ [e]) path)
    (hlen : (path ++ [pe e]).length = c.size) : PathSound c db0 (path ++ [pe e]) := by
  have hP := M_pop_perm level' e path
  have hsubM : ∀ x ∈ path ++ [pe e], x ∈ M (level' ++ [e]) path := fun x hx =>
    hP.subset (List.mem_append_left _ hx)
  have hedges : ∀ x ∈ path ++ [pe e], x.1 ∈ nb c x.2.1 ∧ (x.2.2 = 1 ∨ x.2.2 = 2) := fun x hx => I.edges x (hsubM x hx)
  have hnd' : ((M level' (path ++ [pe e])).map key).Nodup := ((hP.map key).nodup_iff).2 I.nodup
  have hnd : ((path ++ [pe e]).map key).Nodup := by
    simp only [M, List.map_append] at hnd'
    simpa using (List.nodup_append.1 hnd').1
  have hall := path_covers D2.keys D.nodup D.sym D.noself (fun x hx => (hedges x hx).1) hnd
    (by have := D2.size; omega)
  -- nothing is pending any more
  have hlv : level' = [] := by
    cases hl : level' with
    | nil => rfl
    | cons e' rest =>
      exfalso
      have he' : e' ∈ level' := by simp [hl]
      have h1 := (I.edges _ (mem_M_level (path := path) (List.mem_append_left [e] he'))).1
      have h2 : key (pe e') ∈ List.map key (path ++ [pe e]) := by
        have := hall _ _ h1
        rwa [ukey_comm] at this
      unfold M at hnd'
      rw [List.map_append] at hnd'
      exact (List.nodup_append.1 hnd').2.2 (key (pe e')) h2
        (key (pe e')) (List.mem_map_of_mem (List.mem_map_of_mem he')) rfl
  subst hlv
  simp only [List.nil_append] at I hP hsubM
  have hel : e ∈ [e] := by simp
  have hMp : (M [] (path ++ [pe e])) = path ++ [pe e] := by simp [M]
  have hPp : (path ++ [pe e]).Perm (M [e] path) := hMp ▸ hP
  -- the last atom popped is the start atom
  have hs : e.atom = c.start := by
    by_contra hs
    have hV : hashedIn path e.atom = false := by
      rcases (I.lvl e hel).1 with h | h
      · exact h
      · exact absurd h hs
    have hedge := (I.edges _ (mem_M_level (path := path) hel)).1
    have hp : e.prev ∈ nb c e.atom := D.sym _ _ hedge
    have hdeg := (D.deg e.atom (List.ne_nil_of_mem hp)).1
    have hndn := D.nodup e.atom
    obtain ⟨w, hw, hwp⟩ : ∃ w ∈ nb c e.atom, w ≠ e.prev := by
      match hnb : nb c e.atom, hdeg, hndn with
      | [], h, _ => simp at h
      | [_], h, _ => simp at h
      | x :: y :: _, _, hnn =>
        simp only [List.nodup_cons, List.mem_cons, not_or] at hnn
        by_cases hx : x = e.prev
        · exact ⟨y, by simp, fun hy => hnn.1.1 (hx.trans hy.symm)⟩
        · exact ⟨x, by simp, hx⟩
    obtain ⟨y, hy, hk⟩ := List.mem_map.1 (hall _ _ hw)
    rcases List.mem_append.1 hy with hy | hy
    · rcases ukey_eq hk with ⟨h1, -⟩ | ⟨-, h2⟩
      · have := hashedIn_mem hy
        rw [h1, hV] at this; exact Bool.noConfusion this
      · exact no_prev_unvisited I SO.prev hV hs y (mem_M_path hy) h2
    · simp only [List.mem_singleton] at hy
      subst hy
      rcases ukey_eq hk with ⟨-, h2⟩ | ⟨h1, -⟩
      · exact hwp h2.symm
      · exact D.noself _ (h1 ▸ hw)
  refine ⟨hedges, hnd, hall, ?_⟩
  intro v hv
  by_cases hvs : v = c.start
  · -- the start atom
    subst hvs
    have hlist : (path ++ [pe e]).Nodup := List.Nodup.of_map key hnd
    have hini : init ∈ path ++ [pe e] := hPp.symm.subset I.ini
    have hst1 : ∀ x ∈ path ++ [pe e], x.2.1 = c.start → x = init := fun x hx => I.st1 x (hsubM x hx)
    have hst2 : ∀ x ∈ path ++ [pe e], x.1 = c.start → x.2.2 = loopBond c := fun x hx => I.st2 x (hsubM x hx)
    have hinit1 : init.1 ≠ c.start := by
      intro h
      have := (hedges init hini).1
      rw [h, SO.prev] at this
      exact D.noself _ this
    rcases SO.cases with ⟨h1, h2, h3⟩ | ⟨h1, h2, h3, h4⟩ | ⟨h1, h2, h3⟩
    · rw [h3, if_pos rfl]
      unfold dbl
      rw [List.countP_eq_zero]
      intro x hx
      simp only [Bool.and_eq_true, Bool.or_eq_true, beq_iff_eq, not_and]
      rintro (hx1 | hx2) hb
      · have := hst2 x hx hx1; omega
      · have := hst1 x hx hx2; subst this; omega
    · rw [h3]
      simp only [Bool.false_eq_true, if_false]
      have hpe : pe e ∈ path ++ [pe e] := by simp
      apply countP_eq_one_of hlist hpe
      intro x hx
      simp only [Bool.and_eq_true, Bool.or_eq_true, beq_iff_eq]
      constructor
      · rintro ⟨hx1 | hx2, hb⟩
        · -- another closing entry: it closes the same bond
          apply eq_of_key_eq hnd hx hpe
          have hq : x.2.1 ∈ nb c c.start := D.sym _ _ (hx1 ▸ (hedges x hx).1)
          have hp : e.prev ∈ nb c c.start := D.sym _ _ (hs ▸ (hedges _ hpe).1)
          have hf : init.1 ∈ nb c c.start := SO.prev ▸ (hedges init hini).1
          have hqf : x.2.1 ≠ init.1 := by
            intro h
            have : key x = key init := by simp [key, hx1, h, SO.prev, ukey_comm]
            have := eq_of_key_eq hnd hx hini this
            exact hinit1 (this ▸ hx1)
          have hpf : e.prev ≠ init.1 := by
            intro h
            have : key (pe e) = key init := by simp [key, pe, hs, h, SO.prev, ukey_comm]
            have := eq_of_key_eq hnd hpe hini this
            apply hinit1
            rw [← this]; exact hs
          have hqp : x.2.1 = e.prev := by
            have hndn := D.nodup c.start
            match hnb : nb c c.start, h4, hndn, hq, hp, hf with
            | [u, w], _, hnn, hq, hp, hf =>
              simp only [List.mem_cons, List.not_mem_nil, or_false] at hq hp hf
              simp only [List.nodup_cons, List.mem_cons, List.not_mem_nil, or_false, not_false_eq_true,
                List.nodup_nil, and_true] at hnn
              rcases hq with hq | hq <;> rcases hp with hp | hp <;> rcases hf with hf | hf <;>
                first | (exact absurd (hq.trans hf.symm) hqf) | (exact absurd (hp.trans hf.symm) hpf) | (rw [hq, hp])
          simp [key, pe, hx1, hs, hqp]
        · have := hst1 x hx hx2; subst this; omega
      · rintro rfl
        exact ⟨Or.inl hs, by have := hst2 _ hpe hs; rw [h1] at this; exact this⟩
    · rw [h3]
      simp only [Bool.false_eq_true, if_false]
      apply countP_eq_one_of hlist hini
      intro x hx
      simp only [Bool.and_eq_true, Bool.or_eq_true, beq_iff_eq]
      constructor
      · rintro ⟨hx1 | hx2, hb⟩
        · have := hst2 x hx hx1; omega
        · exact hst1 x hx hx2
      · rintro rfl
        exact ⟨Or.inr SO.prev, h2⟩
  · -- any other atom has been visited and planned
    have hV : hashedIn path v = true := by
      obtain ⟨w, hw⟩ := List.exists_mem_of_ne_nil _ hv
      obtain ⟨y, hy, hk⟩ := List.mem_map.1 (hall _ _ hw)
      rcases List.mem_append.1 hy with hy | hy
      · rcases ukey_eq hk with ⟨h1, -⟩ | ⟨-, h2⟩
        · exact h1 ▸ hashedIn_mem hy
        · rcases I.pth y hy with h | h
          · exact h2 ▸ h
          · exact absurd (h2 ▸ h) hvs
      · simp only [List.mem_singleton] at hy
        subst hy
        rcases ukey_eq hk with ⟨h1, -⟩ | ⟨-, h2⟩
        · exact absurd (h1.symm.trans hs) hvs
        · rcases (I.lvl e hel).2.1 with ⟨l1, -⟩ | l1
          · exact h2 ▸ l1
          · -- the very first entry cannot complete a path
            exfalso
            have := I.fresh l1
            simp only [List.map_cons, List.map_nil, List.cons.injEq, and_true] at this
            have hp : e.prev = c.start := by
              have : (pe e).2.1 = init.2.1 := by rw [this]
              exact this.trans SO.prev
            have := (I.edges _ (mem_M_level (path := path) hel)).1
            simp only [pe] at this
            rw [hs, hp] at this
            exact D.noself _ this
    rw [dbl_perm hPp, I.alt v hV hvs, SO.other v hvs]

end ChythonModel.Proofs.C05S
