import ChythonModel.Proofs.C05Sound
/-!
# C05 — what an accepted conversion preserves: charge, radical state, composition (C04 totals), connectivity
-/
namespace ChythonModel.Proofs.C05
open ChythonModel.Model ChythonModel.Model.Valence ChythonModel.Spec.Kekule

theorem charges_of_skeleton {a k : Mol} (h : SameSkeleton a k) :
    a.atoms.map (·.2.charge) = k.atoms.map (·.2.charge) := by
  have := congrArg (List.map fun (q : Nat × Nat × Option Nat × Int × Bool) => q.2.2.2.1) h.1
  simpa [List.map_map, Function.comp_def, core] using this

theorem radicals_of_skeleton {a k : Mol} (h : SameSkeleton a k) :
    a.atoms.map (·.2.radical) = k.atoms.map (·.2.radical) := by
  have := congrArg (List.map fun (q : Nat × Nat × Option Nat × Int × Bool) => q.2.2.2.2) h.1
  simpa [List.map_map, Function.comp_def, core] using this

theorem elements_of_skeleton {a k : Mol} (h : SameSkeleton a k) :
    a.atoms.map (·.2.z) = k.atoms.map (·.2.z) := by
  have := congrArg (List.map fun (q : Nat × Nat × Option Nat × Int × Bool) => q.2.1) h.1
  simpa [List.map_map, Function.comp_def, core] using this

theorem ids_of_skeleton {a k : Mol} (h : SameSkeleton a k) : a.ids = k.ids := by
  have := congrArg (List.map fun (q : Nat × Nat × Option Nat × Int × Bool) => q.1) h.1
  simpa [Mol.ids, List.map_map, Function.comp_def] using this

theorem molecularCharge_of_skeleton {a k : Mol} (h : SameSkeleton a k) : molecularCharge a = molecularCharge k := by
  unfold molecularCharge
  rw [charges_of_skeleton h]

theorem any_eq_of_map_eq {α : Type} (f : α → Bool) : ∀ {l l' : List α}, l.map f = l'.map f → l.any f = l'.any f := by
  intro l
  induction l with
  | nil => intro l' h; cases l' with
    | nil => rfl
    | cons _ _ => simp at h
  | cons x xs ih =>
    intro l' h
    cases l' with
    | nil => simp at h
    | cons y ys =>
      simp only [List.map_cons, List.cons.injEq] at h
      simp only [List.any_cons, h.1, ih h.2]

theorem isRadical_of_skeleton {a k : Mol} (h : SameSkeleton a k) : isRadical a = isRadical k := by
  unfold isRadical
  exact any_eq_of_map_eq (fun (p : Nat × Atom) => p.2.radical) (radicals_of_skeleton h)

theorem symbolCounter_congr : ∀ {l l' : List (Nat × Atom)} (acc : List (String × Nat)),
    l.map (·.2.z) = l'.map (·.2.z) → symbolCounter l acc = symbolCounter l' acc := by
  intro l
  induction l with
  | nil => intro l' acc h; cases l' with
    | nil => rfl
    | cons _ _ => simp at h
  | cons x xs ih =>
    intro l' acc h
    cases l' with
    | nil => simp at h
    | cons y ys =>
      simp only [List.map_cons, List.cons.injEq] at h
      obtain ⟨xk, xa⟩ := x
      obtain ⟨yk, ya⟩ := y
      simp only at h
      unfold symbolCounter
      rw [h.1]
      cases symOf ya.z with
      | none => rfl
      | some s => exact ih _ h.2

/-- hydrogens agree position by position when the aromatic form carried a count on every atom -/
theorem hydrogens_eq_of_check {a k : Mol} (h : checkAtoms a k = true) (hd : ∀ p ∈ a.atoms, p.2.implH ≠ none) :
    a.atoms.map (·.2.implH) = k.atoms.map (·.2.implH) := by
  unfold checkAtoms at h
  have key : ∀ {xs ys : List (Nat × Atom)}, all2 (atomOk a k) xs ys = true → (∀ p ∈ xs, p.2.implH ≠ none) →
      xs.map (·.2.implH) = ys.map (·.2.implH) := by
    intro xs
    induction xs with
    | nil => intro ys h _; rw [all2_nil_left h]
    | cons x xs ih =>
      intro ys h hd
      obtain ⟨y, ys', rfl, hxy, hrest⟩ := all2_cons h
      have hx := hd x List.mem_cons_self
      have ht := ih hrest (fun p hp => hd p (List.mem_cons_of_mem _ hp))
      simp only [List.map_cons, ht, List.cons.injEq, and_true]
      unfold atomOk at hxy
      simp only [Bool.and_eq_true] at hxy
      cases hyh : y.2.implH with
      | none => simp [hyh] at hxy
      | some hv =>
        cases hxh : x.2.implH with
        | none => exact absurd hxh hx
        | some h0 =>
          have := hxy.2
          simp only [hyh, hxh, Bool.and_eq_true, beq_iff_eq] at this
          rw [this.1]
  exact key h hd

theorem brutto_of_check {a k : Mol} (h : checkKekule a k = true) (hd : ∀ p ∈ a.atoms, p.2.implH ≠ none) :
    brutto a = brutto k := by
  have hk := checkKekule_sound a k h
  unfold checkKekule at h
  simp only [Bool.and_eq_true] at h
  unfold brutto implicitTotal
  rw [symbolCounter_congr [] (elements_of_skeleton hk.skeleton), hydrogens_eq_of_check h.1 hd]

/-- connectivity: a bond exists in one form iff it exists in the other -/
theorem connectivity_of_check {a k : Mol} (h : checkKekule a k = true) (n m : Nat) :
    (a.bond? n m).isSome = (k.bond? n m).isSome := by
  unfold checkKekule at h
  simp only [Bool.and_eq_true] at h
  have hbd := h.2
  unfold checkBonds at hbd
  cases ha : a.bond? n m with
  | some b =>
    obtain ⟨b', hb', _⟩ := bond_of_rows (g := fun _ p q => bondOk p q) rowOk_key (fun _ => bondOk_key)
      rowOk_rows hbd ha
    simp [hb']
  | none =>
    cases hk : k.bond? n m with
    | none => rfl
    | some b' =>
      obtain ⟨b, hb, _⟩ := bond_of_rows_rev (g := fun _ p q => bondOk p q) rowOk_key (fun _ => bondOk_key)
        rowOk_rows hbd hk
      rw [ha] at hb
      cases hb

/-- a Kekulé form of a molecule without aromatic bonds has the same bond orders: spec-level idempotence -/
theorem kekule_of_localised {a k : Mol} (h : IsKekuleOf a k)
    (hl : ∀ n m b, a.bond? n m = some b → b.order ≠ 4) (n m : Nat) (b : Bond) (hb : a.bond? n m = some b) :
    ∃ b', k.bond? n m = some b' ∧ b'.order = b.order := by
  obtain ⟨b', hb', ho⟩ := h.bonds n m b hb
  refine ⟨b', hb', ?_⟩
  unfold KekOrder at ho
  rw [if_neg (hl n m b hb)] at ho
  exact ho

end ChythonModel.Proofs.C05
