import ChythonModel.Proofs.C01Generic
/-!
Equivariance of the Morgan refinement (`Model/Morgan.lean`) under renumbering and dict reordering — proof bodies.
The statements that count as obligations are restated in `Props/C01.lean`.
-/
namespace ChythonModel.Proofs.C01
open ChythonModel.Model.Morgan ChythonModel.Spec.Renumbering ChythonModel.Gen.C01
open List

theorem OptRel.flip {α β : Type} {R : α → β → Prop} {x : Option α} {y : Option β} (h : OptRel R x y) :
    OptRel (fun b a => R a b) y x := by
  cases h with
  | none => exact .none
  | some hab => exact .some hab

/-! ## one round -/

theorem nbrPairs_mapKeys {π : Nat → Nat} (hπ : Function.Injective π) {w w' : Weights}
    (hw : (keys w).Nodup) (hww : DictEq π w w') (ms : List (Nat × Int)) :
    nbrPairs w' (mapKeys π ms) = nbrPairs w ms := by
  unfold nbrPairs
  induction ms with
  | nil => rfl
  | cons mb ms ih =>
    simp only [mapKeys, map_cons] at ih ⊢
    rw [optMapM_cons, optMapM_cons, ih, lookup_dictEq hπ hw hww]

theorem nbrPairs_equiv {π : Nat → Nat} (hπ : Function.Injective π) {w w' : Weights}
    (hw : (keys w).Nodup) (hww : DictEq π w w') {ms ms' : List (Nat × Int)} (hms : DictEq π ms ms') :
    OptRel Perm (nbrPairs w ms) (nbrPairs w' ms') := by
  rw [← nbrPairs_mapKeys hπ hw hww ms]
  exact OptRel.mono (fun _ _ h => Perm.symm h) (OptRel.flip (optMapM_perm _ hms))

/-- the new invariant of an atom is the same number in both descriptions, for every hash function -/
theorem newWeight_equiv (h : TupleHash) {π : Nat → Nat} (hπ : Function.Injective π) {w w' : Weights}
    (hw : (keys w).Nodup) (hww : DictEq π w w') (n : Nat) {ms ms' : List (Nat × Int)} (hms : DictEq π ms ms') :
    newWeight h w' (π n) ms' = newWeight h w n ms := by
  unfold newWeight
  rw [lookup_dictEq hπ hw hww]
  cases w.lookup n with
  | none => rfl
  | some wn =>
    have hp := nbrPairs_equiv hπ hw hww hms
    revert hp
    cases nbrPairs w ms <;> cases nbrPairs w' ms' <;> intro hp <;> cases hp
    · rfl
    · rename_i hperm
      simp only [sortBy_pairLe_perm hperm]

theorem step_equiv (h : TupleHash) {π : Nat → Nat} (hπ : Function.Injective π) {w w' : Weights}
    (hw : (keys w).Nodup) (hww : DictEq π w w') {b b' : IntAdj} (hb : AdjEq π b b') :
    OptRel (DictEq π) (step h w b) (step h w' b') := by
  obtain ⟨b'', hperm, hpw⟩ := hb
  unfold step
  have hA := optMapM_pointwise (S := RowEq π) (R := fun (x y : Nat × Int) => y = (π x.1, x.2))
    (fun (row : Nat × List (Nat × Int)) => (newWeight h w row.1 row.2).map fun x => (row.1, x))
    (fun (row : Nat × List (Nat × Int)) => (newWeight h w' row.1 row.2).map fun x => (row.1, x))
    hpw (by
      intro a a' _ hS
      obtain ⟨h1, h2⟩ := hS
      rw [h1, newWeight_equiv h hπ hw hww a.1 h2]
      cases newWeight h w a.1 a.2 with
      | none => exact .none
      | some x => exact .some rfl)
  have hB := optMapM_perm
    (fun (row : Nat × List (Nat × Int)) => (newWeight h w' row.1 row.2).map fun x => (row.1, x)) hperm
  refine OptRel.trans' ?_ hA hB
  intro r r'' r' h1 h2
  have := pointwise_eq_map (g := fun (x : Nat × Int) => (π x.1, x.2)) h1
  unfold DictEq mapKeys
  rw [← this]
  exact h2.symm

theorem step_keys (h : TupleHash) {w : Weights} {b : IntAdj} {r : Weights} (hs : step h w b = some r) :
    keys r = keys b := by
  unfold step at hs
  exact optMapM_keys (fun (row : Nat × List (Nat × Int)) => row.1) (fun row => newWeight h w row.1 row.2) hs

/-! ## the loop -/

theorem loop_equiv (h : TupleHash) {π : Nat → Nat} (hπ : Function.Injective π) {b b' : IntAdj}
    (hbk : (keys b).Nodup) (hb : AdjEq π b b') (k : Nat) :
    ∀ {w w' : Weights}, (keys w).Nodup → DictEq π w w' → ∀ (numb stab : Nat),
      OptRel (DictEq π) (loop h b k w numb stab) (loop h b' k w' numb stab) := by
  induction k with
  | zero => intro w w' _ hww _ _; exact .some hww
  | succ k ih =>
    intro w w' hw hww numb stab
    simp only [loop]
    have hs := step_equiv h hπ hw hww hb
    revert hs
    cases hr : step h w b <;> cases hr' : step h w' b' <;> intro hs <;> cases hs
    · exact .none
    · rename_i r r' hrr
      have hk : (keys r).Nodup := by rw [step_keys h hr]; exact hbk
      have hnd : numDistinct (values r') = numDistinct (values r) := numDistinct_perm (DictEq.values hrr)
      have hlen : r'.length = r.length := DictEq.length hrr
      simp only [hnd, hlen]
      split
      · exact .some hrr
      · split
        · split
          · exact .some hrr
          · exact ih hk hrr _ _
        · split
          · exact ih hk hrr _ _
          · exact ih hk hrr _ _

/-! ## final ranks -/

theorem numDistinct_dup (x : Int) (l : List Int) : numDistinct (x :: x :: l) = numDistinct (x :: l) := by
  simp [numDistinct_cons]

/-- invariant of the group-numbering pass over a list sorted by value whose current group key is `p` -/
theorem assignRanks_some (s : List (Nat × Int)) :
    ∀ (p : Int) (i : Nat), (∀ x ∈ s, p ≤ x.2) → s.Pairwise (fun a b => byValue a b = true) →
      assignRanks s (some p) i =
        s.map fun x => (x.1, i + numDistinct ((p :: values s).filter (fun y => decide (y < x.2)))) := by
  induction s with
  | nil => intro _ _ _ _; rfl
  | cons nv tl ih =>
    intro p i hp hs
    obtain ⟨n, v⟩ := nv
    have hpv : p ≤ v := hp (n, v) mem_cons_self
    have htl : ∀ x ∈ tl, v ≤ x.2 := by
      intro x hx
      have := rel_of_pairwise_cons hs hx
      simpa [byValue] using this
    have hs' := hs.tail
    simp only [assignRanks]
    by_cases hpe : p = v
    · subst hpe
      simp only [beq_self_eq_true, if_true, map_cons]
      rw [ih p i (fun x hx => htl x hx) hs']
      congr 1
      · -- head: nothing is smaller than p
        have : (p :: values ((n, p) :: tl)).filter (fun y => decide (y < p)) = [] := by
          simp only [filter_eq_nil_iff, mem_cons, decide_eq_true_eq]
          rintro y (rfl | hy)
          · omega
          · simp only [values, map_cons, mem_cons, mem_map] at hy
            rcases hy with rfl | ⟨x, hx, rfl⟩
            · omega
            · have := htl x hx; omega
        rw [this]; rfl
      · apply map_congr_left
        intro x _
        simp only [values, map_cons, filter_cons]
        by_cases hlt : p < x.2
        · simp [hlt, numDistinct_dup]
        · simp [hlt]
    · have hlt : p < v := by omega
      have hbeq : (p == v) = false := by simp [hpe]
      simp only [hbeq, Bool.false_eq_true, if_false, map_cons]
      rw [ih v (i + 1) htl hs']
      congr 1
      · -- head: exactly p is smaller than v
        have : (p :: values ((n, v) :: tl)).filter (fun y => decide (y < v)) = [p] := by
          simp only [values, map_cons, filter_cons, hlt, decide_true, if_true, Int.lt_irrefl, decide_false]
          simp only [Bool.false_eq_true, if_false, cons.injEq, true_and, filter_eq_nil_iff, mem_map,
            decide_eq_true_eq]
          rintro y ⟨x, hx, rfl⟩
          have := htl x hx; omega
        rw [this]; simp [numDistinct]
      · apply map_congr_left
        intro x hx
        have hvx := htl x hx
        have hpx : p < x.2 := by omega
        simp only [values, map_cons, filter_cons, hpx, decide_true, if_true]
        rw [numDistinct_cons]
        have hnot : ¬ p ∈ (if decide (v < x.2) = true then v :: filter (fun y => decide (y < x.2)) (map (fun x => x.2) tl)
            else filter (fun y => decide (y < x.2)) (map (fun x => x.2) tl)) := by
          intro hmem
          split at hmem
          · simp only [mem_cons, mem_filter, mem_map] at hmem
            rcases hmem with rfl | ⟨⟨y, hy, rfl⟩, _⟩
            · omega
            · have := htl y hy; omega
          · simp only [mem_filter, mem_map] at hmem
            obtain ⟨⟨y, hy, rfl⟩, _⟩ := hmem
            have := htl y hy; omega
        simp only [hnot, if_false]
        simp only [Prod.mk.injEq, true_and]
        omega

/-- **dense ranks of values**: the final numbering gives every atom `start + (number of distinct invariants
    smaller than its own)`; the atoms come out sorted by invariant (ties in dict order). -/
theorem ranks_eq (w : Weights) :
    ranks w = (sortBy byValue w).map fun x =>
      (x.1, morganRankStart + numDistinct ((values w).filter (fun y => decide (y < x.2)))) := by
  unfold ranks
  have hs : (sortBy byValue w).Pairwise (fun a b => byValue a b = true) :=
    sortBy_pairwise byValue_trans byValue_total w
  have hperm : values (sortBy byValue w) ~ values w := by
    unfold values; exact (sortBy_perm w byValue).map _
  have hcount : ∀ v : Int, numDistinct ((values (sortBy byValue w)).filter (fun y => decide (y < v))) =
      numDistinct ((values w).filter (fun y => decide (y < v))) :=
    fun v => numDistinct_perm (hperm.filter _)
  revert hs hcount
  generalize sortBy byValue w = s
  intro hs hcount
  cases s with
  | nil => rfl
  | cons nv tl =>
    obtain ⟨n, v⟩ := nv
    have htl : ∀ x ∈ tl, v ≤ x.2 := by
      intro x hx
      have := rel_of_pairwise_cons hs hx
      simpa [byValue] using this
    simp only [assignRanks, map_cons]
    rw [assignRanks_some tl v morganRankStart htl hs.tail]
    congr 1
    · rw [← hcount v]
      have : (values ((n, v) :: tl)).filter (fun y => decide (y < v)) = [] := by
        simp only [filter_eq_nil_iff, decide_eq_true_eq, values, map_cons, mem_cons, mem_map]
        rintro y (rfl | ⟨x, hx, rfl⟩)
        · omega
        · have := htl x hx; omega
      rw [this]; rfl
    · apply map_congr_left
      intro x _
      rw [← hcount x.2]
      rfl

theorem ranks_equiv {π : Nat → Nat} {w w' : Weights} (hww : DictEq π w w') : DictEq π (ranks w) (ranks w') := by
  rw [ranks_eq w, ranks_eq w']
  have hv : ∀ v : Int, numDistinct ((values w').filter (fun y => decide (y < v))) =
      numDistinct ((values w).filter (fun y => decide (y < v))) :=
    fun v => numDistinct_perm ((DictEq.values hww).filter _)
  simp only [hv]
  unfold DictEq mapKeys
  rw [map_map]
  have h1 : sortBy byValue w' ~ w.map (fun kv => (π kv.1, kv.2)) := (sortBy_perm w' byValue).trans hww
  have h2 := h1.map (fun x => (x.1, morganRankStart + numDistinct ((values w).filter (fun y => decide (y < x.2)))))
  refine h2.trans ?_
  rw [map_map]
  exact ((sortBy_perm w byValue).map _).symm

theorem ranks_keys (w : Weights) : keys (ranks w) ~ keys w := by
  rw [ranks_eq]
  unfold keys
  rw [map_map]
  exact (sortBy_perm w byValue).map _

/-! ## `_morgan`, `atoms_order` -/

theorem morgan_equiv (h : TupleHash) {π : Nat → Nat} (hπ : Function.Injective π) {w w' : Weights} {b b' : IntAdj}
    (hw : (keys w).Nodup) (hbk : (keys b).Nodup) (hww : DictEq π w w') (hb : AdjEq π b b') :
    OptRel (DictEq π) (morgan h w b) (morgan h w' b') := by
  unfold morgan
  have hl := loop_equiv h hπ hbk hb (w.length - morganTriesOffset) hw hww (numDistinct (values w)) 0
  rw [DictEq.length hww, numDistinct_perm (DictEq.values hww)]
  revert hl
  cases loop h b (w.length - morganTriesOffset) w (numDistinct (values w)) 0 <;>
    cases loop h b' (w.length - morganTriesOffset) w' (numDistinct (values w)) 0 <;> intro hl <;> cases hl
  · exact .none
  · rename_i hrr
    exact .some (ranks_equiv hrr)

theorem initWeights_equiv (h : TupleHash) {π : Nat → Nat} {a a' : List (Nat × HAtom)} (ha : DictEq π a a') :
    OptRel (DictEq π) (initWeights h a) (initWeights h a') := by
  unfold initWeights
  have hA := optMapM_pointwise (S := fun (x y : Nat × HAtom) => y = (π x.1, x.2))
    (R := fun (x y : Nat × Int) => y = (π x.1, x.2))
    (fun (na : Nat × HAtom) => (atomHash h na.2).map fun x => (na.1, x))
    (fun (na : Nat × HAtom) => (atomHash h na.2).map fun x => (na.1, x))
    (pointwise_map (fun (x : Nat × HAtom) => (π x.1, x.2)) a) (by
      intro x y _ hxy
      subst hxy
      cases atomHash h x.2 with
      | none => exact .none
      | some v => exact .some rfl)
  have hB := optMapM_perm (fun (na : Nat × HAtom) => (atomHash h na.2).map fun x => (na.1, x)) ha.symm
  refine OptRel.trans' ?_ hA hB
  intro r r'' r' h1 h2
  have := pointwise_eq_map (g := fun (x : Nat × Int) => (π x.1, x.2)) h1
  unfold DictEq mapKeys
  rw [← this]
  exact h2.symm

theorem initWeights_keys (h : TupleHash) {a : List (Nat × HAtom)} {w : Weights} (hw : initWeights h a = some w) :
    keys w = keys a := by
  unfold initWeights at hw
  exact optMapM_keys (fun (na : Nat × HAtom) => na.1) (fun na => atomHash h na.2) hw

theorem pointwise_map_both {α β γ δ : Type} {S : α → β → Prop} {T : γ → δ → Prop} (f : α → γ) (g : β → δ)
    {l : List α} {l' : List β} (hl : Pointwise S l l') (hST : ∀ a b, S a b → T (f a) (g b)) :
    Pointwise T (l.map f) (l'.map g) := by
  induction hl with
  | nil => exact .nil
  | cons hab _ ih => exact .cons (hST _ _ hab) ih

theorem intAdjacency_equiv {π : Nat → Nat} {b b' : List (Nat × List (Nat × Model.Bond))} (hb : AdjEq π b b') :
    AdjEq π (intAdjacency b) (intAdjacency b') := by
  obtain ⟨b'', hperm, hpw⟩ := hb
  refine ⟨intAdjacency b'', hperm.map _, ?_⟩
  unfold intAdjacency
  apply pointwise_map_both _ _ hpw
  intro r r' ⟨h1, h2⟩
  refine ⟨h1, ?_⟩
  have := Perm.map (fun (mb : Nat × Model.Bond) => (mb.1, bondHash mb.2)) h2
  unfold DictEq mapKeys at *
  simpa [map_map, Function.comp_def] using this

theorem intAdjacency_keys (b : List (Nat × List (Nat × Model.Bond))) : keys (intAdjacency b) = keys b := by
  simp [intAdjacency, keys]

end ChythonModel.Proofs.C01
