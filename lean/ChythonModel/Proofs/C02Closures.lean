import ChythonModel.Proofs.C02Events
namespace ChythonModel.Proofs.C02
open ChythonModel.Model ChythonModel.Model.SmilesWriter ChythonModel.Model.C02RT

/-! ## from the rounds of the writer to the abstract pairing theorem -/

theorem insertBy_perm {α} (le : α → α → Bool) (x : α) : ∀ l : List α, (insertBy le x l).Perm (x :: l) := by
  intro l
  induction l with
  | nil => simp [insertBy]
  | cons y tl ih =>
    simp only [insertBy]
    split
    · exact List.Perm.refl _
    · exact ((List.Perm.cons y ih).trans (List.Perm.swap x y tl))

theorem sortBy_perm {α} (le : α → α → Bool) : ∀ l : List α, (sortBy le l).Perm l := by
  intro l
  induction l with
  | nil => simp [sortBy]
  | cons x tl ih =>
    have : sortBy le (x :: tl) = insertBy le x (sortBy le tl) := by simp [sortBy]
    rw [this]
    exact (insertBy_perm le x _).trans (List.Perm.cons x ih)

def rdOf (r : Round) (n : Nat) : List Nat :=
  match sortedClosures r.castedOut r.tokens n with
  | .ok cl => cl.map (·.2)
  | .error _ => []

def roundCAtoms (r : Round) : List CAtom :=
  (closureAtoms r.smi r.tokens).map fun n => ⟨n, cycOf r.smi r.tokens n, rdOf r n⟩

theorem mapM_lookup_fst (casted : List (Nat × Nat)) : ∀ (l : List (Nat × Nat)) (out : List ((Nat × Nat) × Nat)),
    l.mapM (fun (kc : Nat × Nat) => (casted.lookup kc.2).map fun x => (kc, x)) = some out →
    out.map (·.1) = l ∧ ∀ p ∈ out, casted.lookup p.1.2 = some p.2 := by
  intro l
  induction l with
  | nil => intro out h; simp at h; subst h; simp
  | cons kc tl ih =>
    intro out h
    simp only [List.mapM_cons, Option.bind_eq_bind] at h
    cases hl : casted.lookup kc.2 with
    | none => simp [hl] at h
    | some x =>
      simp only [hl, Option.map_some, Option.bind_some] at h
      cases ht : tl.mapM (fun (kc : Nat × Nat) => (casted.lookup kc.2).map fun x => (kc, x)) with
      | none => simp [ht] at h
      | some out' =>
        simp only [ht, Option.bind_some, Option.pure_def, Option.some.injEq] at h
        subst h
        obtain ⟨i1, i2⟩ := ih out' ht
        refine ⟨by simp [i1], ?_⟩
        intro p hp
        simp at hp
        rcases hp with rfl | hp
        · exact hl
        · exact i2 p hp

/-- when `sortedClosures` succeeds, the written order of the cycles is a permutation of the allocator's order, and
    every cycle has its number -/
theorem sortedClosures_perm (casted : List (Nat × Nat)) (tokens : List (Nat × List (Nat × Nat))) (smi : List FTok)
    (n : Nat) (cl : List (Nat × Nat)) (h : sortedClosures casted tokens n = .ok cl) :
    (cl.map (·.2)).Perm (cycOf smi tokens n) ∧ ∀ kc ∈ cl, ∃ k, casted.lookup kc.2 = some k := by
  unfold sortedClosures at h
  split at h
  · cases h
  · rename_i l hl
    simp only [Except.ok.injEq] at h
    obtain ⟨h1, h2⟩ := mapM_lookup_fst casted _ l hl
    have p1 : cl.Perm (alGet tokens n) := by
      rw [← h, ← h1]
      exact (sortBy_perm _ l).map _
    have p2 : (cycOf smi tokens n).Perm ((alGet tokens n).map (·.2)) := by
      simp only [cycOf, sortByNat]
      exact (sortBy_perm _ _).map _
    refine ⟨(p1.map _).trans p2.symm, ?_⟩
    intro kc hkc
    rw [← h] at hkc
    simp only [sortByNat, List.mem_map] at hkc
    obtain ⟨p, hp, rfl⟩ := hkc
    exact ⟨p.2, h2 p ((sortBy_perm _ l).mem_iff.mp hp)⟩

theorem emit_sorted_ok (m : Mol) (opts : Opts) (sc : SCtx) (casted : List (Nat × Nat)) (tokens : List (Nat × List (Nat × Nat))) :
    ∀ (smi : List FTok) vb out order vb', emit m opts sc casted tokens smi vb = .ok (out, order, vb') →
      ∀ n, FTok.atom n ∈ smi → ∃ cl, sortedClosures casted tokens n = .ok cl := by
  intro smi
  induction smi with
  | nil => intro vb out order vb' _ n hn; simp at hn
  | cons t tl ih =>
    intro vb out order vb' h n hn
    cases t with
    | atom k =>
      simp only [emit] at h
      split at h
      · cases h
      · split at h
        · cases h
        · rename_i cl hcl
          split at h
          · cases h
          · split at h
            · cases h
            · rename_i rest order' vb2 hr
              simp only [List.mem_cons, FTok.atom.injEq] at hn
              rcases hn with rfl | hn
              · exact ⟨cl, hcl⟩
              · exact ih _ _ _ _ hr n hn
    | bond a b =>
      simp only [emit] at h
      split at h
      · cases h
      · split at h
        · cases h
        · rename_i rest order' vb2 hr
          exact ih _ _ _ _ hr n (by simpa using hn)
    | lpar =>
      simp only [emit] at h
      split at h
      · cases h
      · rename_i rest order' vb2 hr
        exact ih _ _ _ _ hr n (by simpa using hn)
    | rpar =>
      simp only [emit] at h
      split at h
      · cases h
      · rename_i rest order' vb2 hr
        exact ih _ _ _ _ hr n (by simpa using hn)

theorem mem_closureAtoms (smi : List FTok) (tokens : List (Nat × List (Nat × Nat))) (n : Nat) :
    n ∈ closureAtoms smi tokens → FTok.atom n ∈ smi := by
  intro h
  simp only [closureAtoms, List.mem_filterMap] at h
  obtain ⟨t, ht, hn⟩ := h
  cases t with
  | atom k =>
    simp only at hn
    split at hn
    · simp at hn; subst hn; exact ht
    · cases hn
  | _ => simp at hn

theorem flatMap_congr' {α β} (f g : α → List β) : ∀ l : List α, (∀ x ∈ l, f x = g x) → l.flatMap f = l.flatMap g := by
  intro l
  induction l with
  | nil => intro _; rfl
  | cons a tl ih =>
    intro h
    simp only [List.flatMap_cons]
    rw [h a (by simp), ih (fun x hx => h x (by simp [hx]))]

theorem flatMap_flatMap' {α β γ} (f : α → List β) (g : β → List γ) : ∀ l : List α,
    (l.flatMap f).flatMap g = l.flatMap fun x => (f x).flatMap g := by
  intro l
  induction l with
  | nil => rfl
  | cons a tl ih => simp [List.flatMap_cons, List.flatMap_append, ih]

theorem alGet_of_not_alHas {α} (d : List (Nat × List α)) (k : Nat) (h : alHas d k = false) : alGet d k = [] := by
  induction d with
  | nil => rfl
  | cons p tl ih =>
    simp only [alHas, List.any_cons, Bool.or_eq_false_iff] at h
    have hne : (k == p.1) = false := by
      have := h.1
      simp only [beq_eq_false_iff_ne, ne_eq] at this ⊢
      exact fun e => this e.symm
    simp only [alGet, List.lookup, hne]
    exact ih h.2

theorem atomEvents_of_not_alHas (casted : List (Nat × Nat)) (tokens : List (Nat × List (Nat × Nat))) (n : Nat)
    (h : alHas tokens n = false) : atomEvents casted tokens n = [] := by
  simp [atomEvents, sortedClosures, alGet_of_not_alHas tokens n h, sortByNat, sortBy]

theorem smiEvents_closureAtoms (casted : List (Nat × Nat)) (tokens : List (Nat × List (Nat × Nat))) :
    ∀ smi : List FTok, smiEvents casted tokens smi = (closureAtoms smi tokens).flatMap (atomEvents casted tokens) := by
  intro smi
  induction smi with
  | nil => rfl
  | cons t tl ih =>
    cases t with
    | atom n =>
      simp only [smiEvents_atom, ih, closureAtoms, List.filterMap_cons]
      by_cases hh : alHas tokens n = true
      · simp [hh]
      · simp [hh, atomEvents_of_not_alHas casted tokens n (by simpa using hh)]
    | bond a b => simpa [closureAtoms] using ih
    | lpar => simpa [closureAtoms] using ih
    | rpar => simpa [closureAtoms] using ih

theorem atomEvents_eq (r : Round) (n : Nat) :
    atomEvents r.castedOut r.tokens n = (evAtom n (rdOf r n)).map fun e => (e.1, (r.castedOut.lookup e.2).getD 0) := by
  simp only [atomEvents, rdOf, evAtom]
  cases sortedClosures r.castedOut r.tokens n with
  | error e => rfl
  | ok cl => simp [Function.comp_def]

theorem cycleEvents_eq (r : Round) : cycleEvents r = (roundCAtoms r).flatMap fun t => evAtom t.n t.rd := by
  simp only [cycleEvents, roundCAtoms, List.flatMap_map]
  congr 1
  funext n
  simp only [rdOf, evAtom]
  cases sortedClosures r.castedOut r.tokens n with
  | error e => rfl
  | ok cl => simp [Function.comp_def]

theorem roundCAtoms_alloc (rs : List Round) : (rs.flatMap roundCAtoms).map (·.alloc) = rs.flatMap roundCycles := by
  rw [List.map_flatMap]
  apply flatMap_congr'
  intro r _
  simp [roundCAtoms, roundCycles, Function.comp_def]

/-- later rounds never change the number of a cycle that already has one -/
theorem chained_stable (m : Mol) (opts : Opts) : ∀ (rs : List Round) (c : List (Nat × Nat)) (h : List Nat)
    (cF : List (Nat × Nat)) (hF : List Nat),
    (∀ r ∈ rs, RoundSpec m opts r) → Chained c h rs → castSeq (rs.flatMap roundCycles) c h = .ok (cF, hF) →
    (∀ x k, c.lookup x = some k → cF.lookup x = some k) ∧
    ∀ r ∈ rs, ∀ x k, r.castedOut.lookup x = some k → cF.lookup x = some k := by
  intro rs
  induction rs with
  | nil =>
    intro c h cF hF _ _ hc
    simp only [List.flatMap_nil, castSeq, Except.ok.injEq, Prod.mk.injEq] at hc
    obtain ⟨rfl, _⟩ := hc
    exact ⟨fun _ _ hx => hx, by intro r hr; simp at hr⟩
  | cons r tl ih =>
    intro c h cF hF hs hch hc
    obtain ⟨rfl, rfl, hch'⟩ := hch
    have h1 : castSeq (roundCycles r) r.castedIn r.heapIn = .ok (r.castedOut, r.heapOut) := by
      simpa [roundCycles, castAll] using (hs r (by simp)).cast
    simp only [List.flatMap_cons] at hc
    rw [castSeq_append, h1] at hc
    obtain ⟨i1, i2⟩ := ih r.castedOut r.heapOut cF hF (fun r' hr' => hs r' (by simp [hr'])) hch' hc
    refine ⟨fun x k hx => i1 x k (castSeq_stable _ _ _ _ _ h1 x k hx), ?_⟩
    intro r' hr' x k hx
    simp only [List.mem_cons] at hr'
    rcases hr' with rfl | hr'
    · exact i1 x k hx
    · exact i2 r' hr' x k hx

theorem roundCAtoms_wf (m : Mol) (opts : Opts) (r : Round) (hs : RoundSpec m opts r) :
    ∀ t ∈ roundCAtoms r, t.rd.Perm t.alloc ∧ ∀ c ∈ t.rd, ∃ k, r.castedOut.lookup c = some k := by
  intro t ht
  simp only [roundCAtoms, List.mem_map] at ht
  obtain ⟨n, hn, rfl⟩ := ht
  obtain ⟨order, vb', he⟩ := hs.emitted
  obtain ⟨cl, hcl⟩ := emit_sorted_ok m opts r.sc r.castedOut r.tokens r.smi r.vbIn r.out order vb' he n
    (mem_closureAtoms _ _ n hn)
  obtain ⟨p1, p2⟩ := sortedClosures_perm r.castedOut r.tokens r.smi n cl hcl
  simp only [rdOf, hcl]
  refine ⟨p1, ?_⟩
  intro c hc
  simp only [List.mem_map] at hc
  obtain ⟨kc, hkc, rfl⟩ := hc
  exact p2 kc hkc

/-- **the closure bonds a reader forms from the writer's text are the pairs of cycle ends** -/
theorem writer_closures (m : Mol) (env : Env) (opts : Opts) (rs : List Round) (order : List Nat)
    (h : smilesRounds m env opts = .ok (rs, order))
    (hwf : cyclesWF [] [] (rs.flatMap roundCycles) = true)
    (es : List REdge) (hread : readToks (joinRounds rs) = .ok es) :
    closureEdges es = (pairAll [] (rs.flatMap cycleEvents)).2 ∧ (pairAll [] (rs.flatMap cycleEvents)).1 = [] := by
  obtain ⟨hs, hch⟩ := smilesRounds_spec m env opts rs order h
  obtain ⟨cF, hF, hc⟩ := chained_castSeq m opts rs [] initialHeap hs hch
  obtain ⟨_, hstab⟩ := chained_stable m opts rs [] initialHeap cF hF hs hch hc
  -- what the reader sees
  have h1 := readToks_closures _ _ hread
  rw [tokenEvents_rounds m opts rs hs none []] at h1
  -- the events carry the final numbers
  let f := fun c => (cF.lookup c).getD 0
  have hev : (rs.flatMap fun r => smiEvents r.castedOut r.tokens r.smi) =
      (rs.flatMap cycleEvents).map fun e => (e.1, f e.2) := by
    rw [List.map_flatMap]
    apply flatMap_congr'
    intro r hr
    rw [smiEvents_closureAtoms, cycleEvents_eq, List.map_flatMap, roundCAtoms, List.flatMap_map]
    apply flatMap_congr'
    intro n hn
    rw [atomEvents_eq]
    apply List.map_congr_left
    intro e he
    simp only [evAtom, List.mem_map] at he
    obtain ⟨c, hc', rfl⟩ := he
    obtain ⟨_, hk⟩ := roundCAtoms_wf m opts r (hs r hr) ⟨n, cycOf r.smi r.tokens n, rdOf r n⟩
      (by simp only [roundCAtoms, List.mem_map]; exact ⟨n, hn, rfl⟩)
    obtain ⟨k, hk'⟩ := hk c hc'
    simp only [f, hk', hstab r hr c k hk', Option.getD_some]
  rw [hev] at h1
  -- the abstract pairing theorem
  have hA : ∀ t ∈ rs.flatMap roundCAtoms, t.rd.Nodup ∧ ∀ c, c ∈ t.rd ↔ c ∈ t.alloc := by
    intro t ht
    simp only [List.mem_flatMap] at ht
    obtain ⟨r, hr, htr⟩ := ht
    obtain ⟨hp, _⟩ := roundCAtoms_wf m opts r (hs r hr) t htr
    have hnd : t.alloc.Nodup := by
      have : ∀ (L : List (List Nat)) (O S : List Nat), cyclesWF O S L = true → ∀ l ∈ L, l.Nodup := by
        intro L
        induction L with
        | nil => intro _ _ _ l hl; simp at hl
        | cons c tl ih =>
          intro O S hw l hl
          simp only [cyclesWF, Bool.and_eq_true, decide_eq_true_eq] at hw
          simp at hl
          rcases hl with rfl | hl
          · exact hw.1.1
          · exact ih _ _ hw.2 l hl
      refine this _ _ _ hwf t.alloc ?_
      rw [← roundCAtoms_alloc]
      simp only [List.mem_map, List.mem_flatMap]
      exact ⟨t, ⟨r, hr, htr⟩, rfl⟩
    exact ⟨hp.nodup_iff.mpr hnd, fun c => hp.mem_iff⟩
  have hp := pairing_by_number (rs.flatMap roundCAtoms) cF hF (by rw [roundCAtoms_alloc]; exact hwf) hA
    (by rw [roundCAtoms_alloc]; exact hc)
  simp only at hp
  have hce : (rs.flatMap roundCAtoms).flatMap (fun t => evAtom t.n t.rd) = rs.flatMap cycleEvents := by
    rw [flatMap_flatMap']
    apply flatMap_congr'
    intro r _
    rw [cycleEvents_eq]
  rw [hce] at hp
  rw [hp] at h1
  simp only [Prod.mk.injEq] at h1
  refine ⟨h1.2.symm, ?_⟩
  have := h1.1
  simpa [mapKeys] using this

end ChythonModel.Proofs.C02
