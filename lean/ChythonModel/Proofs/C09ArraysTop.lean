import ChythonModel.Proofs.C09Arrays
import ChythonModel.Proofs.C09Faithful
import ChythonModel.Proofs.C09ArraysRange
import ChythonModel.Proofs.C09Cands
/-!
# C09 — the guarded matcher on the encoders' outputs

`_cython_compiled_structure` of a molecule in the shape `MolOK` produces a buffer whose bond rows name distinct atoms of the buffer
(`faithful_mol`), so the guarded matcher never faults on it and the accelerated path built on it (`cythonPathA`, what the driver
runs) is the accelerated path the equivalence theorems are about (`cythonPath`).
-/
namespace ChythonModel.Proofs.C09
open ChythonModel.Model.Bits ChythonModel.Model ChythonModel.Model.Query

theorem bufWF_of_enc (m : LMol) (cm : CMol) (hm : MolOK m) (henc : encStructure m = .ok cm) : BufWF cm := by
  intro i ca row ha hs
  have h := (faithful_mol ⟨[], []⟩ m [] cm hm henc).2 i ca row ha hs
  exact ⟨h.1, fun ib hib => (h.2 ib hib).2.2⟩

theorem cythonPathA_eq_cythonPath (q : LQuery) (m : LMol) (tComps : List (List Nat)) (scope : Option (List Nat)) (autoF : Bool)
    (hm : MolOK m) : cythonPathA q m tComps scope autoF = cythonPath q m tComps scope autoF := by
  unfold cythonPathA cythonPath cythonPathWith
  cases Iso.compileQuery q.graph with
  | none => rfl
  | some p =>
    obtain ⟨comps, cl⟩ := p
    simp only
    cases encQuery q comps cl with
    | error e => rfl
    | ok cqs =>
      simp only
      cases hems : encStructure m with
      | error e => rfl
      | ok cm =>
        have hfun : (fun (cq : CQuery) (cand : List Nat) => mapperA cm cq (scopeArray m cand)) =
            (fun cq cand => getMappingC cm cq (scopeArray m cand)) := by
          funext cq cand
          rw [mapperA_eq _ _ _ (bufWF_of_enc m cm hm hems), getMappingCS_eq]
        simp only [hfun]

theorem rowsOK_of_ctx {q : LQuery} {m : LMol} {cl : Iso.Closures} {lq : List Iso.Step} {cm : CMol} {cq : CQuery}
    (c : Ctx q m cl lq cm cq) : RowsOK cm := by
  intro i ca hca
  have hi : i < m.atoms.length := by rw [← c.natoms]; exact (List.getElem?_eq_some_iff.mp hca).1
  obtain ⟨ca', row, h1, h2⟩ := c.row i hi
  rw [hca] at h1
  obtain rfl := Option.some.inj h1
  exact ⟨row, h2⟩

theorem qbufWF_of_ctx {q : LQuery} {m : LMol} {cl : Iso.Closures} {lq : List Iso.Step} {cm : CMol} {cq : CQuery}
    (c : Ctx q m cl lq cm cq) : QBufWF cq := by
  intro j qa hqa
  have hj : j + 1 < lq.length := by rw [← c.nq]; exact (List.getElem?_eq_some_iff.mp hqa).1
  obtain ⟨qa', back, qb, g1, _, _, g4, _, _, g7, _, g9⟩ :=
    comp_step q m cl lq cq c.hq c.hqe c.hF c.hcl c.hcomp j lq[j + 1] (List.getElem?_eq_getElem hj)
  rw [hqa] at g1
  obtain rfl := Option.some.inj g1
  refine ⟨by omega, qb, g7, fun jb hjb => ?_⟩
  obtain ⟨t, ht, hte⟩ := List.getElem_of_mem hjb
  obtain ⟨_, _, _, hlt, _⟩ := g9 t jb (by rw [List.getElem?_eq_getElem ht, hte])
  omega

/-- **the compiled matcher on the encoders' outputs returns normally**: for a molecule and an accepted linearised query component
    (`Ctx`) and every candidate target component, no access leaves an allocated array, no read leaves a buffer or the filled part of
    `path`, and the recursion budget of the model suffices -/
theorem getMappingA_ok_of_ctx {q : LQuery} {m : LMol} {cl : Iso.Closures} {lq : List Iso.Step} {cm : CMol} {cq : CQuery}
    (c : Ctx q m cl lq cm cq) (cand : List Nat) :
    ∃ r, getMappingA (allocOf cq.atoms.length cm.atoms.length) cm cq (scopeArray m cand) = .ok r := by
  refine getMappingA_ok cm cq _ (bufWF_of_enc m cm c.hm c.hme) (rowsOK_of_ctx c) (qbufWF_of_ctx c) ?_ ?_
  · intro h
    have := c.nq
    rw [h] at this
    exact c.hcomp.ne (List.length_eq_zero_iff.mp this.symm)
  · rw [c.natoms]
    simp [scopeArray, LMol.ids]

end ChythonModel.Proofs.C09
