import ChythonModel.Proofs.C03Lexer
/-!
# C03 — round trip for bracket atoms: `_atom_parse` inverts the spelling of a structured bracket atom

A bracket atom is spelled `isotope? symbol chirality? hcount? charge? class?` (`BSpell.body`).  On every such
spelling (`BSpell.wf`, ∀-quantified, stated against the character classes of the regenerated `atomRe`) the greedy
non-backtracking matcher returns exactly the six pieces (`matchGroups_body`), hence `atomParse` returns the atom the
pieces describe (`atomParse_body`, `atomParse_body_ok`, `atomParse_body_err`).  `run_bracket` is the tokenizer side:
`[` body `]` read from a clean state yields the one raw token `(5, body)`.
-/
set_option linter.unusedSimpArgs false
set_option linter.unusedVariables false
namespace ChythonModel.Proofs.C03
open ChythonModel.Model.C03 ChythonModel.Gen.C03

/-! ## the character classes of `atom_re`, as they appear in `atomRe` -/

def clsIso1 : List (Nat × Nat) := [(49, 57)]
def clsDig : List (Nat × Nat) := [(48, 57)]
def clsSym1 : List (Nat × Nat) :=
  [(65, 73), (75, 80), (82, 90), (97, 97), (99, 99), (110, 110), (111, 111), (112, 112), (115, 115), (98, 98), (116, 116)]
def clsSym2 : List (Nat × Nat) := [(97, 105), (107, 112), (114, 118), (121, 121)]
def clsAt : List (Nat × Nat) := [(64, 64)]
def clsH : List (Nat × Nat) := [(72, 72)]
def clsH04 : List (Nat × Nat) := [(48, 52)]
def clsSign : List (Nat × Nat) := [(43, 43), (45, 45)]
def clsChg : List (Nat × Nat) := [(49, 52), (43, 43), (45, 45)]
def clsColon : List (Nat × Nat) := [(58, 58)]

/-- the regenerated table is made of exactly these classes -/
theorem atomRe_eq : atomRe = [
    (true, [(clsIso1, 1, 1), (clsDig, 0, 2)]),
    (false, [(clsSym1, 1, 1), (clsSym2, 0, 1)]),
    (true, [(clsAt, 1, 1), (clsAt, 0, 1)]),
    (true, [(clsH, 1, 1), (clsH04, 0, 1)]),
    (true, [(clsSign, 1, 1), (clsChg, 0, 3)]),
    (true, [(clsColon, 1, 1), (clsDig, 1, 4)])] := rfl

/-! ## the greedy matcher on a string whose continuation leaves the class -/

/-- the string is empty or starts outside the class -/
def headOut (r : List (Nat × Nat)) : Str → Prop
  | [] => True
  | c :: _ => inRanges c r = false

/-- the string is empty or starts with one of the listed characters -/
def headIn (l : List Nat) : Str → Prop
  | [] => True
  | c :: _ => c ∈ l

theorem headOut_of_headIn (l : List Nat) (r : List (Nat × Nat)) (s : Str) (h : headIn l s)
    (hl : ∀ c ∈ l, inRanges c r = false) : headOut r s := by
  cases s with
  | nil => trivial
  | cons c cs => exact hl c h

theorem headIn_append (l1 l2 l : List Nat) (a b : Str) (h1 : headIn l1 a) (h2 : headIn l2 b)
    (s1 : ∀ c ∈ l1, c ∈ l) (s2 : ∀ c ∈ l2, c ∈ l) : headIn l (a ++ b) := by
  cases a with
  | nil =>
    cases b with
    | nil => trivial
    | cons c cs => exact s2 c h2
  | cons c cs => exact s1 c h1

/-- **greedy `{_,k}` takes exactly `a`** when `a` is in the class, fits, and the continuation cannot extend it -/
theorem takeClass_append (r : List (Nat × Nat)) : ∀ (a : Str) (k : Nat) (rest : Str),
    (∀ x ∈ a, inRanges x r = true) → a.length ≤ k → (a.length = k ∨ headOut r rest) →
    takeClass r k (a ++ rest) = (a, rest)
  | [], 0, rest, _, _, _ => by simp [takeClass]
  | [], k+1, [], _, _, _ => by simp [takeClass]
  | [], k+1, c :: cs, _, _, hb => by
    have hc : inRanges c r = false := by
      rcases hb with hb | hb
      · simp at hb
      · exact hb
    simp [takeClass, hc]
  | x :: a, 0, rest, _, hk, _ => by simp at hk
  | x :: a, k+1, rest, ha, hk, hb => by
    have hx := ha x (by simp)
    have ih := takeClass_append r a k rest (fun y hy => ha y (by simp [hy])) (by simpa using hk) (by
      rcases hb with hb | hb
      · left; simpa using hb
      · right; exact hb)
    simp [takeClass, hx, ih]

/-- a group `r1 r2{lo,hi}` on `c a rest` -/
theorem matchItems_two (r1 r2 : List (Nat × Nat)) (lo hi : Nat) (c : Nat) (a rest : Str)
    (h1 : inRanges c r1 = true) (ha : ∀ x ∈ a, inRanges x r2 = true) (hlo : lo ≤ a.length) (hhi : a.length ≤ hi)
    (hb : a.length = hi ∨ headOut r2 rest) :
    matchItems [(r1, 1, 1), (r2, lo, hi)] (c :: (a ++ rest)) = some (c :: a, rest) := by
  have t1 : takeClass r1 1 (c :: (a ++ rest)) = ([c], a ++ rest) := by simp [takeClass, h1]
  have t2 := takeClass_append r2 a hi rest ha hhi hb
  have hlo' : ¬ a.length < lo := Nat.not_lt.mpr hlo
  simp [matchItems, t1, t2, hlo']

/-- a group `r1 …` fails where the string starts outside `r1` -/
theorem matchItems_fail (r1 : List (Nat × Nat)) (hi1 : Nat) (tl : List (List (Nat × Nat) × Nat × Nat)) (s : Str)
    (hb : headOut r1 s) : matchItems ((r1, 1, hi1) :: tl) s = none := by
  have t1 : takeClass r1 hi1 s = ([], s) := by
    have := takeClass_append r1 [] hi1 s (by simp) (by simp) (Or.inr hb)
    simpa using this
  simp [matchItems, t1]

/-- `g` is a spelling of the group `r1 r2{lo,hi}` -/
def GroupSpell (r1 r2 : List (Nat × Nat)) (lo hi : Nat) (g : Str) : Prop :=
  ∃ c a, g = c :: a ∧ inRanges c r1 = true ∧ (∀ x ∈ a, inRanges x r2 = true) ∧ lo ≤ a.length ∧ a.length ≤ hi

/-- capture of an optional group: `None` when it did not take part -/
def optOf (s : Str) : Option Str := if s = [] then none else some s

theorem GroupSpell.ne_nil {r1 r2 lo hi g} (h : GroupSpell r1 r2 lo hi g) : g ≠ [] := by
  obtain ⟨c, a, rfl, _⟩ := h
  simp

theorem GroupSpell.headIn {r1 r2 lo hi g} (h : GroupSpell r1 r2 lo hi g) (l : List Nat)
    (hl : ∀ c, inRanges c r1 = true → c ∈ l) : headIn l g := by
  obtain ⟨c, a, rfl, h1, _⟩ := h
  exact hl c h1

/-- a group that is spelled out is captured, whatever its optional flag -/
theorem matchGroups_some (opt : Bool) (r1 r2 : List (Nat × Nat)) (lo hi : Nat)
    (tl : List (Bool × List (List (Nat × Nat) × Nat × Nat))) (g rest : Str)
    (hg : GroupSpell r1 r2 lo hi g) (hb : g.length = hi + 1 ∨ headOut r2 rest) :
    matchGroups ((opt, [(r1, 1, 1), (r2, lo, hi)]) :: tl) (g ++ rest) = (matchGroups tl rest).map (some g :: ·) := by
  obtain ⟨c, a, rfl, h1, ha, hlo, hhi⟩ := hg
  have hm := matchItems_two r1 r2 lo hi c a rest h1 ha hlo hhi (by
    rcases hb with hb | hb
    · left; simpa using hb
    · right; exact hb)
  simp only [List.cons_append, matchGroups, hm]

/-- an optional group is skipped where the string starts outside its first class -/
theorem matchGroups_none (r1 : List (Nat × Nat)) (hi1 : Nat) (items : List (List (Nat × Nat) × Nat × Nat))
    (tl : List (Bool × List (List (Nat × Nat) × Nat × Nat))) (rest : Str) (hb : headOut r1 rest) :
    matchGroups ((true, (r1, 1, hi1) :: items) :: tl) rest = (matchGroups tl rest).map (none :: ·) := by
  have hm := matchItems_fail r1 hi1 items rest hb
  simp only [matchGroups, hm, if_true]

/-- an optional group, written or not -/
theorem matchGroups_opt (r1 r2 : List (Nat × Nat)) (lo hi : Nat)
    (tl : List (Bool × List (List (Nat × Nat) × Nat × Nat))) (g rest : Str)
    (hg : g = [] ∨ GroupSpell r1 r2 lo hi g) (hb1 : headOut r1 rest) (hb2 : headOut r2 rest) :
    matchGroups ((true, [(r1, 1, 1), (r2, lo, hi)]) :: tl) (g ++ rest) = (matchGroups tl rest).map (optOf g :: ·) := by
  rcases hg with rfl | hg
  · simpa [optOf] using matchGroups_none r1 1 [(r2, lo, hi)] tl rest hb1
  · rw [matchGroups_some true r1 r2 lo hi tl g rest hg (Or.inr hb2)]
    simp [optOf, hg.ne_nil]

/-! ## spelling of a bracket atom -/

/-- a bracket atom as OpenSMILES structures it: isotope? symbol chirality? hcount? charge? class? -/
structure BSpell where
  /-- `[]` or 1–3 digits, the first one 1–9 -/
  iso : Str
  /-- a letter of the first class of `atom_re`, optionally followed by a letter of the second class -/
  sym : Str
  /-- number of `@` written -/
  chi : Nat
  /-- `none`: no `H`; `some none`: `H`; `some (some n)`: `Hn` -/
  hyd : Option (Option Nat)
  /-- `[]` or a sign followed by up to three characters of `1234+-` -/
  chg : Str
  /-- `[]` or 1–4 digits, written after `:` -/
  cls : Str

def hydStr : Option (Option Nat) → Str
  | none => []
  | some none => [72]
  | some (some n) => [72, 48 + n]

/-- the `:class` part -/
def BSpell.clsStr (b : BSpell) : Str := if b.cls = [] then [] else 58 :: b.cls

/-- the text between `[` and `]` -/
def BSpell.body (b : BSpell) : Str :=
  b.iso ++ b.sym ++ List.replicate b.chi 64 ++ hydStr b.hyd ++ b.chg ++ b.clsStr

structure BSpell.wf (b : BSpell) : Prop where
  iso : b.iso = [] ∨ GroupSpell clsIso1 clsDig 0 2 b.iso
  sym : GroupSpell clsSym1 clsSym2 0 1 b.sym
  chi : b.chi ≤ 2
  hyd : ∀ n, b.hyd = some (some n) → n ≤ 4
  chg : b.chg = [] ∨ GroupSpell clsSign clsChg 0 3 b.chg
  cls : (∀ x ∈ b.cls, inRanges x clsDig = true) ∧ b.cls.length ≤ 4

/-! ### what may follow what -/

theorem sym1_not_digit (c : Nat) (h : inRanges c clsSym1 = true) :
    inRanges c clsIso1 = false ∧ inRanges c clsDig = false := by
  simp [inRanges, clsSym1, clsIso1, clsDig] at h ⊢
  omega

theorem sign_mem (c : Nat) (h : inRanges c clsSign = true) : c ∈ [43, 45, 58] := by
  simp [inRanges, clsSign] at h ⊢
  omega

theorem after_sym : ∀ c ∈ [64, 72, 43, 45, 58], inRanges c clsSym2 = false := by decide
theorem after_at : ∀ c ∈ [72, 43, 45, 58], inRanges c clsAt = false := by decide
theorem after_h1 : ∀ c ∈ [43, 45, 58], inRanges c clsH = false := by decide
theorem after_h2 : ∀ c ∈ [43, 45, 58], inRanges c clsH04 = false := by decide
theorem after_chg1 : ∀ c ∈ [58], inRanges c clsSign = false := by decide
theorem after_chg2 : ∀ c ∈ [58], inRanges c clsChg = false := by decide

theorem ats_spell (n : Nat) (h : n ≤ 2) :
    List.replicate n 64 = [] ∨ GroupSpell clsAt clsAt 0 1 (List.replicate n 64) := by
  match n, h with
  | 0, _ => left; rfl
  | 1, _ => right; exact ⟨64, [], rfl, by decide, by simp, by simp, by simp⟩
  | 2, _ => right; exact ⟨64, [64], rfl, by decide, by decide, by simp, by simp⟩

theorem ats_headIn (n : Nat) : headIn [64] (List.replicate n 64) := by
  cases n with
  | zero => trivial
  | succ k => simp [List.replicate, headIn]

theorem hyd_spell (h : Option (Option Nat)) (hn : ∀ n, h = some (some n) → n ≤ 4) :
    hydStr h = [] ∨ GroupSpell clsH clsH04 0 1 (hydStr h) := by
  match h, hn with
  | none, _ => left; rfl
  | some none, _ => right; exact ⟨72, [], rfl, by decide, by simp, by simp, by simp⟩
  | some (some n), hn =>
    right
    have := hn n rfl
    refine ⟨72, [48 + n], rfl, by decide, ?_, by simp, by simp⟩
    intro x hx
    simp at hx
    subst hx
    simp [inRanges, clsH04]
    omega

theorem hyd_headIn (h : Option (Option Nat)) : headIn [72] (hydStr h) := by
  match h with
  | none => trivial
  | some none => simp [hydStr, headIn]
  | some (some n) => simp [hydStr, headIn]

theorem cls_spell (b : BSpell) (h : b.wf) : b.clsStr = [] ∨ GroupSpell clsColon clsDig 1 4 b.clsStr := by
  unfold BSpell.clsStr
  by_cases hc : b.cls = []
  · left; simp [hc]
  · right
    rw [if_neg hc]
    refine ⟨58, b.cls, rfl, by decide, h.cls.1, ?_, h.cls.2⟩
    cases hb : b.cls with
    | nil => exact absurd hb hc
    | cons x xs => simp

theorem cls_headIn (b : BSpell) : headIn [58] b.clsStr := by
  unfold BSpell.clsStr
  by_cases hc : b.cls = []
  · simp [hc, headIn]
  · simp [hc, headIn]

/-- **Target 1**: on the spelling of a bracket atom `atom_re.fullmatch` captures exactly the six pieces -/
theorem matchGroups_body (b : BSpell) (h : b.wf) :
    matchGroups atomRe b.body =
      some [optOf b.iso, some b.sym, optOf (List.replicate b.chi 64), optOf (hydStr b.hyd), optOf b.chg,
            optOf b.clsStr] := by
  have e : b.body = b.iso ++ (b.sym ++ (List.replicate b.chi 64 ++ (hydStr b.hyd ++ (b.chg ++ (b.clsStr ++ []))))) := by
    simp [BSpell.body]
  -- what the tails start with
  have t5 : headIn [58] (b.clsStr ++ []) := by simpa using cls_headIn b
  have t4 : headIn [43, 45, 58] (b.chg ++ (b.clsStr ++ [])) := by
    refine headIn_append [43, 45, 58] [58] _ _ _ ?_ t5 (by decide) (by decide)
    rcases h.chg with hc | hc
    · rw [hc]; trivial
    · exact hc.headIn _ sign_mem
  have t3 : headIn [72, 43, 45, 58] (hydStr b.hyd ++ (b.chg ++ (b.clsStr ++ []))) :=
    headIn_append [72] [43, 45, 58] _ _ _ (hyd_headIn b.hyd) t4 (by decide) (by decide)
  have t2 : headIn [64, 72, 43, 45, 58] (List.replicate b.chi 64 ++ (hydStr b.hyd ++ (b.chg ++ (b.clsStr ++ [])))) :=
    headIn_append [64] [72, 43, 45, 58] _ _ _ (ats_headIn b.chi) t3 (by decide) (by decide)
  have t1 : ∀ r, (∀ c, inRanges c clsSym1 = true → inRanges c r = false) →
      headOut r (b.sym ++ (List.replicate b.chi 64 ++ (hydStr b.hyd ++ (b.chg ++ (b.clsStr ++ []))))) := by
    intro r hr
    obtain ⟨c, a, hs, h1, _⟩ := h.sym
    rw [hs]
    exact hr c h1
  rw [e, atomRe_eq]
  rw [matchGroups_opt clsIso1 clsDig 0 2 _ _ _ h.iso (t1 _ fun c hc => (sym1_not_digit c hc).1)
    (t1 _ fun c hc => (sym1_not_digit c hc).2)]
  rw [matchGroups_some false clsSym1 clsSym2 0 1 _ _ _ h.sym (Or.inr (headOut_of_headIn _ _ _ t2 after_sym))]
  rw [matchGroups_opt clsAt clsAt 0 1 _ _ _ (ats_spell b.chi h.chi) (headOut_of_headIn _ _ _ t3 after_at)
    (headOut_of_headIn _ _ _ t3 after_at)]
  rw [matchGroups_opt clsH clsH04 0 1 _ _ _ (hyd_spell b.hyd h.hyd) (headOut_of_headIn _ _ _ t4 after_h1)
    (headOut_of_headIn _ _ _ t4 after_h2)]
  rw [matchGroups_opt clsSign clsChg 0 3 _ _ _ h.chg (headOut_of_headIn _ _ _ t5 after_chg1)
    (headOut_of_headIn _ _ _ t5 after_chg2)]
  rw [matchGroups_opt clsColon clsDig 1 4 [] b.clsStr [] (cls_spell b h) trivial trivial]
  simp [matchGroups]

/-! ## Target 2: `_atom_parse` on the spelling -/

/-- chirality mark: none / `@` (anticlockwise, `True`) / `@@` (`False`) -/
def chiStereo : Nat → Option Bool
  | 0 => none
  | 1 => some true
  | _ => some false

/-- explicit hydrogen count: no `H` is 0, bare `H` is 1 -/
def hydCount : Option (Option Nat) → Nat
  | none => 0
  | some none => 1
  | some (some n) => n

/-- the atom the pieces describe, with charge `v` -/
def BSpell.tok (b : BSpell) (v : Int) : Nat × AtomTok :=
  (if aromaticBracket.contains b.sym then 8 else 0,
   { element := if aromaticBracket.contains b.sym then capitalize b.sym else b.sym, bracket := true,
     isotope := (optOf b.iso).map digitsToNat, mapping := (optOf b.cls).map digitsToNat, charge := v,
     hyd := some (hydCount b.hyd), stereo := chiStereo b.chi })

/-- `charge_dict[charge]` on the charge spelling (`0` when no charge is written) -/
def BSpell.chargeVal (b : BSpell) : Except Err Int :=
  if b.chg = [] then .ok 0
  else match lookupStr b.chg chargeDict with
    | some v => .ok v
    | none => .error (smilesErr "charge token invalid")

theorem stereo_eq (n : Nat) (h : n ≤ 2) : (optOf (List.replicate n 64)).map (· == [64]) = chiStereo n := by
  match n, h with
  | 0, _ => rfl
  | 1, _ => rfl
  | 2, _ => rfl

theorem hydStr_cases (x : Option (Option Nat)) :
    (x = none ∧ optOf (hydStr x) = none) ∨ (x = some none ∧ optOf (hydStr x) = some [72]) ∨
      ∃ n, x = some (some n) ∧ optOf (hydStr x) = some [72, 48 + n] := by
  match x with
  | none => exact Or.inl ⟨rfl, rfl⟩
  | some none => exact Or.inr (Or.inl ⟨rfl, rfl⟩)
  | some (some n) => exact Or.inr (Or.inr ⟨n, rfl, rfl⟩)

theorem mapping_eq (b : BSpell) :
    (optOf b.clsStr).map (fun cap => digitsToNat (cap.drop 1)) = (optOf b.cls).map digitsToNat := by
  unfold BSpell.clsStr
  by_cases hc : b.cls = []
  · simp [hc, optOf]
  · simp [hc, optOf]

/-- **Target 2**: `_atom_parse` on the spelling of a bracket atom -/
theorem atomParse_body (b : BSpell) (h : b.wf) :
    atomParse b.body = match b.chargeVal with
      | .ok v => .ok (b.tok v)
      | .error e => .error e := by
  unfold atomParse
  rw [matchGroups_body b h]
  dsimp only
  rw [stereo_eq b.chi h.chi, mapping_eq b]
  unfold BSpell.chargeVal BSpell.tok
  have hh : (match optOf (hydStr b.hyd) with
      | some cap => if cap.length > 1 then digitsToNat (cap.drop 1) else 1
      | none => 0) = hydCount b.hyd := by
    rcases hydStr_cases b.hyd with ⟨hx, ho⟩ | ⟨hx, ho⟩ | ⟨n, hx, ho⟩ <;> rw [ho, hx] <;> simp [hydCount, digitsToNat]
  by_cases hc : b.chg = []
  · have ho : optOf b.chg = none := by simp [optOf, hc]
    rw [ho, if_pos hc]
    rcases hydStr_cases b.hyd with ⟨hx, ho⟩ | ⟨hx, ho⟩ | ⟨n, hx, ho⟩ <;> rw [ho, hx] <;> simp [hydCount, digitsToNat]
  · have ho : optOf b.chg = some b.chg := by simp [optOf, hc]
    rw [ho, if_neg hc]
    dsimp only
    cases lookupStr b.chg chargeDict with
    | none => rfl
    | some v =>
      rcases hydStr_cases b.hyd with ⟨hx, ho⟩ | ⟨hx, ho⟩ | ⟨n, hx, ho⟩ <;> rw [ho, hx] <;> simp [hydCount, digitsToNat]

theorem chargeDict_nil : lookupStr ([] : Str) chargeDict = none := by decide

/-- no charge written, or a charge spelling of `charge_dict` -/
theorem atomParse_body_ok (b : BSpell) (h : b.wf) (v : Int)
    (hv : (b.chg = [] ∧ v = 0) ∨ lookupStr b.chg chargeDict = some v) :
    atomParse b.body = .ok (b.tok v) := by
  rw [atomParse_body b h]
  rcases hv with ⟨hc, rfl⟩ | hl
  · simp [BSpell.chargeVal, hc]
  · have hc : b.chg ≠ [] := by
      intro hc
      rw [hc, chargeDict_nil] at hl
      exact absurd hl (by simp)
    simp [BSpell.chargeVal, hc, hl]

/-- a charge spelling the regex accepts but `charge_dict` does not know -/
theorem atomParse_body_err (b : BSpell) (h : b.wf) (hc : b.chg ≠ []) (hl : lookupStr b.chg chargeDict = none) :
    atomParse b.body = .error (smilesErr "charge token invalid") := by
  rw [atomParse_body b h]
  simp [BSpell.chargeVal, hc, hl]

/-- the typed token `smiles_tokenize` makes of the raw token `(5, body)` -/
theorem convTok_body (b : BSpell) (h : b.wf) (v : Int)
    (hv : (b.chg = [] ∧ v = 0) ∨ lookupStr b.chg chargeDict = some v) :
    convTok ⟨5, .str b.body⟩ = .ok (.atom (b.tok v).1 (b.tok v).2) := by
  have hc : convTok ⟨5, .str b.body⟩ = (atomParse b.body).map fun p => Tok.atom p.1 p.2 := rfl
  rw [hc, atomParse_body_ok b h v hv]
  rfl

/-! ## Target 3: the tokenizer on `[` body `]` -/

theorem cls_lbr : cls 91 = .lbr := by decide

/-- inside brackets every character other than `[` and `]` is appended to the pending token -/
theorem run_inside : ∀ (body l : Str) (toks : List RTok), (∀ c ∈ body, c ≠ 91 ∧ c ≠ 93) →
    run { ttype := 5, token := .chars l, toks := toks } body = .ok { ttype := 5, token := .chars (l ++ body), toks := toks }
  | [], l, toks, _ => by simp [run]
  | c :: cs, l, toks, hb => by
    obtain ⟨h1, h2⟩ := hb c (by simp)
    have hs : step { ttype := 5, token := .chars l, toks := toks } c =
        .ok { ttype := 5, token := .chars (l ++ [c]), toks := toks } := by
      unfold step
      rw [if_neg (by simp), if_neg (by simpa using h1), if_neg (by simpa using h2), if_pos (by simp)]
      rfl
    have ih := run_inside cs (l ++ [c]) toks (fun x hx => hb x (by simp [hx]))
    simp only [run, hs, ih]
    simp

/-- **Target 3**: reading one bracket atom from a clean state yields the raw token `(5, body)` -/
theorem run_bracket (st : TState) (body : Str) (h : Clean st) (hne : body ≠ [])
    (hb : ∀ c ∈ body, c ≠ 91 ∧ c ≠ 93) :
    ∃ st', run st ([91] ++ body ++ [93]) = .ok st' ∧ Clean st' ∧
      st'.flush.toks = ⟨5, .str body⟩ :: st.flush.toks ∧ st'.ttype = 0 ∧ st'.token = .none := by
  obtain ⟨h12, h5, h7, h10, h11⟩ := h.ne
  have s1 : step st 91 = .ok { ttype := 5, token := .chars [], toks := st.flush.toks } := by
    rw [step_of_cls st 91 h, cls_lbr]
    simp only [stepOpen]
    rw [if_neg (by simpa using h5), if_neg (by simp [h10, h11]), if_neg (by simpa using h7)]
  have s2 := run_inside body [] st.flush.toks hb
  have s3 : step { ttype := 5, token := .chars ([] ++ body), toks := st.flush.toks } 93 =
      .ok { ttype := 0, token := .none, toks := ⟨5, .str body⟩ :: st.flush.toks } := by
    have ht : (Pend.chars body).truthy = true := by
      cases body with
      | nil => exact absurd rfl hne
      | cons x xs => rfl
    unfold step
    rw [if_neg (by simp), if_neg (by decide), if_pos (by decide)]
    simp [stepClose, ht, TState.push]
  refine ⟨{ ttype := 0, token := .none, toks := ⟨5, .str body⟩ :: st.flush.toks }, ?_, ⟨by simp, Or.inl rfl⟩,
    by simp [TState.flush, Pend.truthy], rfl, rfl⟩
  rw [List.append_assoc, run_append]
  simp only [run, s1]
  rw [run_append, s2]
  simp only [run, s3]

theorem GroupSpell.forall {r1 r2 lo hi g} (h : GroupSpell r1 r2 lo hi g) (P : Nat → Prop)
    (h1 : ∀ c, inRanges c r1 = true → P c) (h2 : ∀ c, inRanges c r2 = true → P c) : ∀ c ∈ g, P c := by
  obtain ⟨c, a, rfl, hc, ha, _⟩ := h
  intro x hx
  rcases List.mem_cons.mp hx with rfl | hx
  · exact h1 _ hc
  · exact h2 _ (ha x hx)

/-- no class of `atom_re` contains `[` or `]` -/
theorem cls_no_bracket : ∀ r ∈ [clsIso1, clsDig, clsSym1, clsSym2, clsAt, clsH, clsH04, clsSign, clsChg, clsColon],
    ∀ c, inRanges c r = true → c ≠ 91 ∧ c ≠ 93 := by
  intro r hr c hc
  simp only [List.mem_cons, List.not_mem_nil, or_false] at hr
  rcases hr with rfl | rfl | rfl | rfl | rfl | rfl | rfl | rfl | rfl | rfl <;>
    (simp [inRanges, clsIso1, clsDig, clsSym1, clsSym2, clsAt, clsH, clsH04, clsSign, clsChg, clsColon] at hc; omega)

/-- the bracket atom of a spelling: the body is not empty and contains neither `[` nor `]` -/
theorem body_ok (b : BSpell) (h : b.wf) : b.body ≠ [] ∧ ∀ c ∈ b.body, c ≠ 91 ∧ c ≠ 93 := by
  refine ⟨?_, ?_⟩
  · obtain ⟨c, a, hs, _⟩ := h.sym
    simp [BSpell.body, hs]
  · intro c hc
    simp only [BSpell.body, List.mem_append] at hc
    rcases hc with ((((hc | hc) | hc) | hc) | hc) | hc
    · rcases h.iso with hi | hi
      · rw [hi] at hc; simp at hc
      · exact hi.forall _ (cls_no_bracket clsIso1 (by simp)) (cls_no_bracket clsDig (by simp)) c hc
    · exact h.sym.forall _ (cls_no_bracket clsSym1 (by simp)) (cls_no_bracket clsSym2 (by simp)) c hc
    · have := (List.mem_replicate.mp hc).2
      omega
    · rcases hyd_spell b.hyd h.hyd with hi | hi
      · rw [hi] at hc; simp at hc
      · exact hi.forall _ (cls_no_bracket clsH (by simp)) (cls_no_bracket clsH04 (by simp)) c hc
    · rcases h.chg with hi | hi
      · rw [hi] at hc; simp at hc
      · exact hi.forall _ (cls_no_bracket clsSign (by simp)) (cls_no_bracket clsChg (by simp)) c hc
    · rcases cls_spell b h with hi | hi
      · rw [hi] at hc; simp at hc
      · exact hi.forall _ (cls_no_bracket clsColon (by simp)) (cls_no_bracket clsDig (by simp)) c hc

/-- the tokenizer on the bracket atom of a spelling, from any clean state -/
theorem run_bspell (st : TState) (b : BSpell) (h : Clean st) (hwf : b.wf) :
    ∃ st', run st ([91] ++ b.body ++ [93]) = .ok st' ∧ Clean st' ∧
      st'.flush.toks = ⟨5, .str b.body⟩ :: st.flush.toks ∧ st'.ttype = 0 ∧ st'.token = .none :=
  run_bracket st b.body h (body_ok b hwf).1 (body_ok b hwf).2

/-- `_tokenize` on a lone bracket atom -/
theorem tokenizeRaw_bracket (b : BSpell) (hwf : b.wf) :
    tokenizeRaw ([91] ++ b.body ++ [93]) = .ok [⟨5, .str b.body⟩] := by
  have hc : Clean {} := ⟨Or.inl rfl, Or.inl rfl⟩
  obtain ⟨st, e, c, f, htt, htok⟩ := run_bspell {} b hc hwf
  unfold tokenizeRaw
  rw [e]
  dsimp only
  unfold finish
  dsimp only
  rw [htt, if_neg (by decide), if_neg (by decide), if_neg (by simp), f]
  simp [TState.flush, Pend.truthy]

/-- **`smiles_tokenize` inverts the spelling of a bracket atom** -/
theorem smilesTokenize_bracket (b : BSpell) (hwf : b.wf) (v : Int)
    (hv : (b.chg = [] ∧ v = 0) ∨ lookupStr b.chg chargeDict = some v) :
    smilesTokenize ([91] ++ b.body ++ [93]) = .ok [.atom (b.tok v).1 (b.tok v).2] := by
  unfold smilesTokenize
  rw [tokenizeRaw_bracket b hwf]
  simp only [convToks, convTok_body b hwf v hv]

/-! ## the statements are not vacuous: `[13C@@H2+2:7]`, `[nH]`, `[Fe+++]`, and the rejected charge `[C+-]` -/

def exA : BSpell := ⟨[49, 51], [67], 2, some (some 2), [43, 50], [55]⟩
def exB : BSpell := ⟨[], [110], 0, some none, [], []⟩
def exC : BSpell := ⟨[], [70, 101], 0, none, [43, 43, 43], []⟩
def exD : BSpell := ⟨[], [67], 0, none, [43, 45], []⟩

theorem exA_wf : exA.wf :=
  ⟨Or.inr ⟨49, [51], rfl, by decide, by decide, by decide, by decide⟩, ⟨67, [], rfl, by decide, by decide, by decide, by decide⟩,
   by decide, (by intro n hn; cases hn; decide), Or.inr ⟨43, [50], rfl, by decide, by decide, by decide, by decide⟩,
   by decide, by decide⟩
theorem exB_wf : exB.wf :=
  ⟨Or.inl rfl, ⟨110, [], rfl, by decide, by decide, by decide, by decide⟩, by decide, (by intro n hn; cases hn),
   Or.inl rfl, by decide, by decide⟩
theorem exC_wf : exC.wf :=
  ⟨Or.inl rfl, ⟨70, [101], rfl, by decide, by decide, by decide, by decide⟩, by decide, (by intro n hn; cases hn),
   Or.inr ⟨43, [43, 43], rfl, by decide, by decide, by decide, by decide⟩, by decide, by decide⟩
theorem exD_wf : exD.wf :=
  ⟨Or.inl rfl, ⟨67, [], rfl, by decide, by decide, by decide, by decide⟩, by decide, (by intro n hn; cases hn),
   Or.inr ⟨43, [45], rfl, by decide, by decide, by decide, by decide⟩, by decide, by decide⟩

example : atomParse exA.body = .ok (0, (⟨[67], true, some 13, some 7, 2, some 2, some false, false⟩ : AtomTok)) :=
  atomParse_body_ok exA exA_wf 2 (Or.inr (by decide))
example : atomParse exB.body = .ok (8, (⟨[78], true, none, none, 0, some 1, none, false⟩ : AtomTok)) :=
  atomParse_body_ok exB exB_wf 0 (Or.inl ⟨rfl, rfl⟩)
example : atomParse exC.body = .ok (0, (⟨[70, 101], true, none, none, 3, some 0, none, false⟩ : AtomTok)) :=
  atomParse_body_ok exC exC_wf 3 (Or.inr (by decide))
example : atomParse exD.body = .error (smilesErr "charge token invalid") :=
  atomParse_body_err exD exD_wf (by decide) (by decide)

end ChythonModel.Proofs.C03
