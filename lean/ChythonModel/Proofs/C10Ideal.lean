import ChythonModel.Proofs.C10Terminals
/-!
# C10: the walk of `cumulenes` never fails on a well-formed graph

`walk atoms (terminals0 atoms)` is the *ideal* walk (it stops at any terminal, consumed or not). On a symmetric graph it
never pops an empty or a two-element set and it visits no atom twice, hence stops within the fuel (`iwalk_ok`). The real
walk, which only knows the terminals that are still unconsumed, agrees with it as long as the outer loop keeps the
invariant "the ideal walk from an unconsumed terminal ends in an unconsumed terminal" (`J`), which holds because the ideal
walk from the far end is the same chain reversed (`ideal_reverse`).
-/
namespace ChythonModel.Proofs.C10
open ChythonModel.Model.Pack ChythonModel.Gen ChythonModel.Spec.Cumulene

theorem not_self_dbl {atoms : List PAtom} (g : GraphOK atoms) (m : Nat) : m ∉ dblAdj atoms m := by
  intro h
  obtain ⟨a, ha, _, nb, hnb, hm, _⟩ := mem_dblAdj.mp h
  exact g.noLoop a (atomAt_some ha).1 nb hnb (by rw [hm, (atomAt_some ha).2])

theorem dbl_isAtom {atoms : List PAtom} {m x : Nat} (h : x ∈ dblAdj atoms m) :
    x ∈ atoms.map (·.num) ∧ m ∈ atoms.map (·.num) := by
  obtain ⟨a, ha, _, nb, _, _, _, hf⟩ := mem_dblAdj.mp h
  obtain ⟨B, hB, _⟩ := fdb_true hf
  exact ⟨List.mem_map.mpr ⟨B, (atomAt_some hB).1, (atomAt_some hB).2⟩,
         List.mem_map.mpr ⟨a, (atomAt_some ha).1, (atomAt_some ha).2⟩⟩

/-- an atom with exactly one double-bond partner is in the terminal list -/
theorem terminal_of_single {atoms : List PAtom} {m y : Nat} (h : dblAdj atoms m = [y]) : m ∈ terminals0 atoms := by
  have hy : y ∈ dblAdj atoms m := by rw [h]; simp
  obtain ⟨a, ha, hz, _⟩ := mem_dblAdj.mp hy
  unfold terminals0
  refine List.mem_map.mpr ⟨a, ?_, (atomAt_some ha).2⟩
  simp only [List.mem_filter, Bool.and_eq_true, beq_iff_eq]
  refine ⟨(atomAt_some ha).1, hz, ?_⟩
  have hz' : formsDouble.contains a.z = true := hz
  have : dblAdj atoms m = dblOfAtom atoms a := by simp only [dblAdj, ha, hz', if_true]
  rw [← this, h]; rfl

/-- the invariant of the walk: no atom twice, every double-bond partner of a visited atom (except the last) is on the path -/
structure PathInv (atoms : List PAtom) (pre : List Nat) (n m : Nat) : Prop where
  nodup : (pre ++ [n, m]).Nodup
  isAtom : ∀ y ∈ pre ++ [n, m], y ∈ atoms.map (·.num)
  closed : ∀ y ∈ pre ++ [n], ∀ z ∈ dblAdj atoms y, z ∈ pre ++ [n] ∨ (z = m ∧ y = n)
  back : n ∈ dblAdj atoms m

theorem PathInv.step {atoms : List PAtom} (g : GraphOK atoms) {pre : List Nat} {n m x : Nat} (h : PathInv atoms pre n m)
    (hx : (dblAdj atoms m).erase n = [x]) : PathInv atoms (pre ++ [n]) m x := by
  have hxe : x ∈ (dblAdj atoms m).erase n := by rw [hx]; simp
  have hxm : x ∈ dblAdj atoms m := List.mem_of_mem_erase hxe
  have hxn : x ≠ n := ((dblAdj_nodup g m).mem_erase_iff.mp hxe).1
  have hxne : x ≠ m := fun e => not_self_dbl g m (e ▸ hxm)
  have hmx : m ∈ dblAdj atoms x := dbl_symm g hxm
  have hnd := h.nodup
  have hsplit : pre ++ [n] ++ [m, x] = (pre ++ [n, m]) ++ [x] := by simp
  have hmnot : m ∉ pre ++ [n] := by
    have : pre ++ [n, m] = (pre ++ [n]) ++ [m] := by simp
    rw [this] at hnd
    exact fun hm => (List.nodup_append.mp hnd).2.2 m hm m (by simp) rfl
  refine ⟨?_, ?_, ?_, hmx⟩
  · rw [hsplit]
    refine List.nodup_append.mpr ⟨hnd, by simp, ?_⟩
    intro a ha b hb
    simp only [List.mem_singleton] at hb
    subst hb
    intro e; subst e
    have : a ∈ (pre ++ [n]) ++ [m] := by simpa using ha
    rcases List.mem_append.mp this with h1 | h1
    · rcases h.closed a h1 m hmx with h2 | ⟨_, h2⟩
      · exact hmnot h2
      · exact hxn h2
    · simp only [List.mem_singleton] at h1; exact hxne h1
  · intro y hy
    rw [hsplit] at hy
    rcases List.mem_append.mp hy with h1 | h1
    · exact h.isAtom y h1
    · simp only [List.mem_singleton] at h1; subst h1; exact (dbl_isAtom hxm).1
  · intro y hy z hz
    rcases List.mem_append.mp hy with h1 | h1
    · rcases h.closed y h1 z hz with h2 | ⟨h2, _⟩
      · exact Or.inl (List.mem_append_left _ h2)
      · subst h2; exact Or.inl (by simp)
    · simp only [List.mem_singleton] at h1; subst h1
      by_cases hzn : z = n
      · subst hzn; exact Or.inl (by simp)
      · have : z ∈ (dblAdj atoms y).erase n := (List.mem_erase_of_ne hzn).mpr hz
        rw [hx] at this
        simp only [List.mem_singleton] at this
        exact Or.inr ⟨this, rfl⟩

theorem PathInv.length_le {atoms : List PAtom} {pre : List Nat} {n m : Nat} (h : PathInv atoms pre n m) :
    pre.length + 2 ≤ atoms.length := by
  have := List.Nodup.length_le_of_subset h.nodup (fun y hy => h.isAtom y hy)
  simpa using this

/-- one inner step of the ideal walk: at `y` (no terminal, at most two neighbours), coming from `a`, the only way on is `b` -/
def Step' (atoms : List PAtom) (a y b : Nat) : Prop :=
  y ∉ terminals0 atoms ∧ ¬ degAt atoms y > cumMaxNbrs ∧ (dblAdj atoms y).erase a = [b] ∧ a ∈ dblAdj atoms y

def Triples (P : Nat → Nat → Nat → Prop) : List Nat → Prop
  | a :: y :: b :: r => P a y b ∧ Triples P (y :: b :: r)
  | _ => True

/-- what the ideal walk returns -/
def Good (atoms : List PAtom) (f : Nat) (pre : List Nat) (n m : Nat) : Walk → Prop
  | .chain p l => ∃ suf, p = pre ++ [n, m] ++ suf ∧ p.Nodup ∧ Triples (Step' atoms) (n :: m :: suf) ∧
      (m :: suf).getLast? = some l ∧ l ∈ terminals0 atoms ∧ suf.length < f
  | .broken p => ∃ l, p.getLast? = some l ∧ degAt atoms l > cumMaxNbrs ∧ 2 ≤ (dblAdj atoms l).length

theorem erase_single_of_len2 {l : List Nat} {n : Nat} (hn : n ∈ l) (h2 : l.length = 2) : ∃ x, l.erase n = [x] := by
  have := List.length_erase_of_mem hn
  rw [h2] at this
  match he : l.erase n, this with
  | [x], _ => exact ⟨x, rfl⟩

/-- **the ideal walk succeeds** (no `KeyError`, no ambiguous `pop`, within the fuel) -/
theorem iwalk_ok {atoms : List PAtom} (g : GraphOK atoms) : ∀ (f : Nat) (pre : List Nat) (n m : Nat),
    PathInv atoms pre n m → atoms.length < f + pre.length + 1 →
    ∃ w, walk atoms (terminals0 atoms) f n m (pre ++ [n, m]) = .ok w ∧ Good atoms f pre n m w
  | 0, pre, n, m, h, hf => by have := h.length_le; omega
  | f + 1, pre, n, m, h, hf => by
    unfold walk
    by_cases hc : (terminals0 atoms).contains m = true
    · rw [if_pos hc]
      refine ⟨_, rfl, [], by simp, ?_, trivial, by simp, by simpa using hc, by simp⟩
      simpa using h.nodup
    · rw [if_neg hc]
      have hmT : m ∉ terminals0 atoms := by simpa using hc
      have h1 : 0 < (dblAdj atoms m).length := List.length_pos_of_mem h.back
      have h3 : (dblAdj atoms m).length ≠ 1 := by
        intro e
        match hl : dblAdj atoms m, e with
        | [y], _ => exact hmT (terminal_of_single hl)
      by_cases hd : degAt atoms m > cumMaxNbrs
      · rw [if_pos hd]; exact ⟨_, rfl, m, by simp, hd, by omega⟩
      · rw [if_neg hd]
        have hlen2 : (dblAdj atoms m).length = 2 := by
          have h2 := dblAdj_length_le atoms m
          have : cumMaxNbrs = 2 := rfl
          omega
        obtain ⟨x, hx⟩ := erase_single_of_len2 h.back hlen2
        rw [hx]
        simp only [popOnly]
        have hpath : pre ++ [n, m] ++ [x] = (pre ++ [n]) ++ [m, x] := by simp
        rw [hpath]
        obtain ⟨w, hw, hgood⟩ := iwalk_ok g f (pre ++ [n]) m x (h.step g hx) (by simp; omega)
        refine ⟨w, hw, ?_⟩
        cases w with
        | broken p => exact hgood
        | chain p l =>
          obtain ⟨suf, hp, hnd, htr, hla, hlT, hsl⟩ := hgood
          refine ⟨x :: suf, by rw [hp]; simp, hnd, ⟨⟨hmT, hd, hx, h.back⟩, htr⟩, ?_, hlT, by simp; omega⟩
          rw [List.getLast?_cons_cons]; exact hla

/-- the real walk (which knows only the unconsumed terminals) agrees with the ideal one if the ideal one ends in an
    unconsumed terminal -/
theorem walk_agree {atoms : List PAtom} (terms : List Nat) (hsub : ∀ t ∈ terms, t ∈ terminals0 atoms) :
    ∀ (f n m : Nat) (path : List Nat) (w : Walk), walk atoms (terminals0 atoms) f n m path = .ok w →
      (∀ p l, w = .chain p l → l ∈ terms) → walk atoms terms f n m path = .ok w
  | 0, _, _, _, _, h, _ => by simp [walk] at h
  | f + 1, n, m, path, w, h, hl => by
    unfold walk at h ⊢
    by_cases hc : (terminals0 atoms).contains m = true
    · rw [if_pos hc] at h
      simp only [Except.ok.injEq] at h
      have : m ∈ terms := hl path m h.symm
      rw [if_pos (by simpa using this)]
      rw [← h]
    · rw [if_neg hc] at h
      have : ¬ terms.contains m = true := by
        intro hm; exact hc (by simpa using hsub m (by simpa using hm))
      rw [if_neg this]
      split at h
      · rename_i hd; rw [if_pos hd]; exact h
      · rename_i hd
        rw [if_neg hd]
        split at h
        · simp at h
        · rename_i x hx
          exact walk_agree terms hsub f m x _ w h hl

/-- a path built from ideal steps that ends in a terminal is what the ideal walk returns -/
theorem walk_complete {atoms : List PAtom} : ∀ (suf pre : List Nat) (n m f : Nat) (l : Nat), suf.length < f →
    Triples (Step' atoms) (n :: m :: suf) → (m :: suf).getLast? = some l → l ∈ terminals0 atoms →
    walk atoms (terminals0 atoms) f n m (pre ++ [n, m]) = .ok (.chain (pre ++ [n, m] ++ suf) l)
  | [], pre, n, m, f + 1, l, _, _, hla, hl => by
    simp only [List.getLast?_singleton, Option.some.injEq] at hla
    subst hla
    unfold walk
    rw [if_pos (by simpa using hl)]
    simp
  | x :: suf, pre, n, m, f + 1, l, hf, htr, hla, hl => by
    obtain ⟨⟨hmT, hd, hx, _⟩, htr'⟩ := htr
    unfold walk
    rw [if_neg (by simpa using hmT), if_neg hd, hx]
    simp only [popOnly]
    have hpath : pre ++ [n, m] ++ [x] = (pre ++ [n]) ++ [m, x] := by simp
    rw [hpath, walk_complete suf (pre ++ [n]) m x f l (by simp at hf; omega) htr'
      (by rw [List.getLast?_cons_cons] at hla; exact hla) hl]
    simp

/-! ### the ideal walk from the far end is the same chain reversed -/

theorem erase_swap {l : List Nat} {a b : Nat} (hnd : l.Nodup) (ha : a ∈ l) (h : l.erase a = [b]) : l.erase b = [a] := by
  have hlen := List.length_erase_of_mem ha
  rw [h] at hlen
  match l, hnd, ha, h, hlen with
  | [x, y], hnd, ha, h, _ =>
    have hxy : x ≠ y := by simpa using hnd
    by_cases hax : a = x
    · subst hax
      simp only [List.erase_cons_head, List.cons.injEq, and_true] at h
      subst h
      have : (a == y) = false := by simp [hxy]
      simp [this]
    · have hay : a = y := by simpa [hax] using ha
      subst hay
      have h1 : (x == a) = false := by simp [hxy]
      simp only [List.erase_cons, h1, beq_self_eq_true, ↓reduceIte, Bool.false_eq_true,
        List.cons.injEq, and_true] at h
      subst h
      simp

theorem Step'.rev {atoms : List PAtom} (g : GraphOK atoms) {a y b : Nat} (h : Step' atoms a y b) : Step' atoms b y a := by
  obtain ⟨h1, h2, h3, h4⟩ := h
  have hb : b ∈ dblAdj atoms y := List.mem_of_mem_erase (by rw [h3]; simp)
  exact ⟨h1, h2, erase_swap (dblAdj_nodup g y) h4 h3, hb⟩

theorem Triples.imp {P Q : Nat → Nat → Nat → Prop} (hpq : ∀ a y b, P a y b → Q a y b) : ∀ (l : List Nat),
    Triples P l → Triples Q l
  | [], _ => trivial
  | [_], _ => trivial
  | [_, _], _ => trivial
  | a :: y :: b :: r, h => ⟨hpq a y b h.1, Triples.imp hpq (y :: b :: r) h.2⟩

theorem exists_two (l : List Nat) (b y : Nat) : ∃ d e tl, l ++ [b, y] = d :: e :: tl := by
  match l with
  | [] => exact ⟨b, y, [], rfl⟩
  | [c] => exact ⟨c, b, [y], rfl⟩
  | c :: d :: r => exact ⟨c, d, r ++ [b, y], rfl⟩

theorem triples_append_last {Q : Nat → Nat → Nat → Prop} : ∀ (l : List Nat) (b y a : Nat),
    Triples Q (l ++ [b, y]) → Q b y a → Triples Q (l ++ [b, y, a])
  | [], b, y, a, _, hq => ⟨hq, trivial⟩
  | c :: l', b, y, a, h, hq => by
    obtain ⟨d, e, tl, hL⟩ := exists_two l' b y
    have hL' : l' ++ [b, y, a] = d :: e :: (tl ++ [a]) := by
      have : l' ++ [b, y, a] = (l' ++ [b, y]) ++ [a] := by simp
      rw [this, hL]; rfl
    have h' : Triples Q (c :: d :: e :: tl) := by rw [← hL]; exact h
    show Triples Q (c :: (l' ++ [b, y, a]))
    rw [hL']
    refine ⟨h'.1, ?_⟩
    rw [← hL']
    exact triples_append_last l' b y a (by rw [hL]; exact h'.2) hq

theorem triples_reverse {P : Nat → Nat → Nat → Prop} : ∀ (p : List Nat), Triples P p →
    Triples (fun b y a => P a y b) p.reverse
  | [], _ => trivial
  | [_], _ => trivial
  | [_, _], _ => trivial
  | a :: y :: b :: r, h => by
    have ih := triples_reverse (y :: b :: r) h.2
    have e1 : (y :: b :: r).reverse = r.reverse ++ [b, y] := by simp
    have e2 : (a :: y :: b :: r).reverse = r.reverse ++ [b, y, a] := by simp
    rw [e2]
    rw [e1] at ih
    exact triples_append_last r.reverse b y a ih h.1

/-- **reversal**: if the ideal walk from terminal `t` ends in terminal `l` with chain `p`, the ideal walk from `l` is `p` reversed -/
theorem ideal_reverse {atoms : List PAtom} (g : GraphOK atoms) {t m l f : Nat} {suf : List Nat}
    (ht : t ∈ terminals0 atoms) (htm : dblAdj atoms t = [m]) (htr : Triples (Step' atoms) (t :: m :: suf))
    (hla : (m :: suf).getLast? = some l) (hl : l ∈ terminals0 atoms) (hf : suf.length < f) :
    ∃ a, dblAdj atoms l = [a] ∧
      walk atoms (terminals0 atoms) f l a [l, a] = .ok (.chain (t :: m :: suf).reverse t) := by
  have hrev := Triples.imp (fun b y a (h : Step' atoms a y b) => h.rev g) _ (triples_reverse _ htr)
  obtain ⟨q, hq⟩ : ∃ q, (m :: suf).reverse = l :: q := by
    have : (m :: suf).reverse.head? = some l := by rw [List.head?_reverse]; exact hla
    match hr : (m :: suf).reverse, this with
    | x :: q, h => simp only [List.head?_cons, Option.some.injEq] at h; subst h; exact ⟨q, rfl⟩
  have hp : (t :: m :: suf).reverse = l :: (q ++ [t]) := by
    rw [List.reverse_cons, hq]; rfl
  have hlenq : q.length = suf.length := by
    have := congrArg List.length hq
    simp only [List.length_reverse, List.length_cons] at this
    omega
  obtain ⟨y, hy⟩ := mem_terminals0 g.nodup hl
  rw [hp] at hrev ⊢
  match q, hq, hlenq, hrev with
  | [], hq, hlenq, hrev =>
    -- the chain is t = l
    have hml : m :: suf = [l] := by
      have := congrArg List.reverse hq
      simpa using this
    simp only [List.cons.injEq] at hml
    obtain ⟨rfl, rfl⟩ := hml
    have hmt : m ∈ dblAdj atoms t := by rw [htm]; simp
    have htl : t ∈ dblAdj atoms m := dbl_symm g hmt
    rw [hy] at htl
    simp only [List.mem_singleton] at htl
    subst htl
    refine ⟨t, hy, ?_⟩
    have := walk_complete (atoms := atoms) [] [] m t f t hf trivial (by simp) ht
    simpa using this
  | c :: q', hq, hlenq, hrev =>
    obtain ⟨e, r, her⟩ : ∃ e r, q' ++ [t] = e :: r := by
      cases q' with
      | nil => exact ⟨t, [], rfl⟩
      | cons u v => exact ⟨u, v ++ [t], rfl⟩
    have hrev' : Triples (Step' atoms) (l :: c :: e :: r) := by
      have : l :: (c :: q' ++ [t]) = l :: c :: e :: r := by rw [← her]; rfl
      rw [← this]; exact hrev
    have hlc : l ∈ dblAdj atoms c := hrev'.1.2.2.2
    have hcl : c ∈ dblAdj atoms l := dbl_symm g hlc
    rw [hy] at hcl
    simp only [List.mem_singleton] at hcl
    subst hcl
    refine ⟨c, hy, ?_⟩
    have hlast : (c :: (q' ++ [t])).getLast? = some t := by
      have : c :: (q' ++ [t]) = (c :: q') ++ [t] := rfl
      rw [this, List.getLast?_append]; simp
    have hcomp := walk_complete (atoms := atoms) (q' ++ [t]) [] l c f t (by simp at hlenq ⊢; omega) hrev hlast ht
    simpa using hcomp

/-! ### the outer loop never fails -/

theorem terminals0_nodup {atoms : List PAtom} (g : GraphOK atoms) : (terminals0 atoms).Nodup := by
  unfold terminals0
  exact g.nodup.sublist (List.Sublist.map _ List.filter_sublist)

theorem pathInv_start {atoms : List PAtom} (g : GraphOK atoms) {t m : Nat} (htm : dblAdj atoms t = [m]) :
    PathInv atoms [] t m := by
  have hmt : m ∈ dblAdj atoms t := by rw [htm]; simp
  refine ⟨?_, ?_, ?_, dbl_symm g hmt⟩
  · have : t ≠ m := fun e => not_self_dbl g t (e ▸ hmt)
    simp [this]
  · intro y hy
    simp only [List.nil_append, List.mem_cons, List.not_mem_nil, or_false] at hy
    rcases hy with rfl | rfl
    · exact (dbl_isAtom hmt).2
    · exact (dbl_isAtom hmt).1
  · intro y hy z hz
    simp only [List.nil_append, List.mem_singleton] at hy
    subst hy
    rw [htm] at hz
    simp only [List.mem_singleton] at hz
    exact Or.inr ⟨hz, rfl⟩

theorem ideal_from {atoms : List PAtom} (g : GraphOK atoms) {t m : Nat} (htm : dblAdj atoms t = [m]) :
    ∃ w, walk atoms (terminals0 atoms) (atoms.length + 1) t m [t, m] = .ok w ∧ Good atoms (atoms.length + 1) [] t m w := by
  have := iwalk_ok g (atoms.length + 1) [] t m (pathInv_start g htm) (by simp; omega)
  simpa using this

/-- a complete chain is closed: every double-bond partner of one of its atoms is on it (a connected component) -/
theorem iwalk_closed {atoms : List PAtom} (g : GraphOK atoms) : ∀ (f : Nat) (pre : List Nat) (n m : Nat) (p : List Nat) (l : Nat),
    PathInv atoms pre n m → walk atoms (terminals0 atoms) f n m (pre ++ [n, m]) = .ok (.chain p l) →
    ∀ y ∈ p, ∀ z ∈ dblAdj atoms y, z ∈ p
  | 0, _, _, _, _, _, _, h => by simp [walk] at h
  | f + 1, pre, n, m, p, l, hinv, h => by
    unfold walk at h
    split at h
    · rename_i hc
      simp only [Except.ok.injEq, Walk.chain.injEq] at h
      obtain ⟨rfl, rfl⟩ := h
      intro y hy z hz
      have hsplit : pre ++ [n, m] = (pre ++ [n]) ++ [m] := by simp
      rw [hsplit] at hy ⊢
      rcases List.mem_append.mp hy with h1 | h1
      · rcases hinv.closed y h1 z hz with h2 | ⟨h2, _⟩
        · exact List.mem_append_left _ h2
        · subst h2; simp
      · simp only [List.mem_singleton] at h1
        subst h1
        obtain ⟨y', hy'⟩ := mem_terminals0 g.nodup (by simpa using hc : y ∈ terminals0 atoms)
        have hn := hinv.back
        rw [hy'] at hn hz
        simp only [List.mem_singleton] at hn hz
        rw [hz, ← hn]; simp
    · split at h
      · simp at h
      · split at h
        · simp at h
        · rename_i x hx
          have hx' := popOnly_ok hx
          have hpath : pre ++ [n, m] ++ [x] = (pre ++ [n]) ++ [m, x] := by simp
          rw [hpath] at h
          exact iwalk_closed g f (pre ++ [n]) m x p l (hinv.step g hx') h

/-- the ideal walk from an unconsumed terminal ends in an unconsumed terminal -/
def J (atoms : List PAtom) (terms : List Nat) : Prop :=
  ∀ t ∈ terms, ∀ m p l, dblAdj atoms t = [m] →
    walk atoms (terminals0 atoms) (atoms.length + 1) t m [t, m] = .ok (.chain p l) → l ∈ terms

theorem ideal_rev' {atoms : List PAtom} (g : GraphOK atoms) {t m l : Nat} {p : List Nat} (ht : t ∈ terminals0 atoms)
    (htm : dblAdj atoms t = [m])
    (hw : walk atoms (terminals0 atoms) (atoms.length + 1) t m [t, m] = .ok (.chain p l)) :
    l ≠ t ∧ l ∈ terminals0 atoms ∧ ∃ a, dblAdj atoms l = [a] ∧
      walk atoms (terminals0 atoms) (atoms.length + 1) l a [l, a] = .ok (.chain p.reverse t) := by
  obtain ⟨w, hw', hgood⟩ := ideal_from g htm
  rw [hw] at hw'
  simp only [Except.ok.injEq] at hw'
  subst hw'
  obtain ⟨suf, hp, hnd, htr, hla, hlT, hsl⟩ := hgood
  simp only [List.nil_append, List.cons_append] at hp
  subst hp
  have hlmem : l ∈ m :: suf := List.mem_of_getLast? hla
  have hlt : l ≠ t := by
    intro e; subst e
    exact (List.nodup_cons.mp hnd).1 hlmem
  exact ⟨hlt, hlT, ideal_reverse g ht htm htr hla hlT hsl⟩

/-- `w` is the result of the ideal walk from one of the terminals `terms` -/
def IdealFrom (atoms : List PAtom) (terms : List Nat) (w : Walk) : Prop :=
  ∃ t ∈ terms, ∃ m, dblAdj atoms t = [m] ∧
    walk atoms (terminals0 atoms) (atoms.length + 1) t m [t, m] = .ok w

/-- `w` is the result of the ideal walk from some terminal -/
def Ideal (atoms : List PAtom) (w : Walk) : Prop := IdealFrom atoms (terminals0 atoms) w

/-- no atom with more than two neighbours carries two double bonds (no hypervalent centre inside a chain of double bonds) -/
def NoHyperDouble (atoms : List PAtom) : Prop := ∀ l, degAt atoms l > cumMaxNbrs → (dblAdj atoms l).length < 2

def Disj (w w' : Walk) : Prop := ∀ x ∈ walkPath w, x ∉ walkPath w'

theorem triples_terminals {atoms : List PAtom} : ∀ (suf : List Nat) (a y l : Nat), Triples (Step' atoms) (a :: y :: suf) →
    (y :: suf).getLast? = some l → ∀ x ∈ y :: suf, x ∈ terminals0 atoms → x = l
  | [], _, y, l, _, hla, x, hx, _ => by
    simp only [List.getLast?_singleton, Option.some.injEq] at hla
    simp only [List.mem_singleton] at hx
    rw [hx, hla]
  | b :: r, a, y, l, htr, hla, x, hx, hxT => by
    rcases List.mem_cons.mp hx with rfl | hx'
    · exact absurd hxT htr.1.1
    · exact triples_terminals r y b l htr.2 (by rw [List.getLast?_cons_cons] at hla; exact hla) x hx' hxT

theorem triples_links {atoms : List PAtom} : ∀ (suf : List Nat) (a y : Nat), y ∈ dblAdj atoms a →
    Triples (Step' atoms) (a :: y :: suf) → Links (fun u v => v ∈ dblAdj atoms u) (a :: y :: suf)
  | [], _, _, h, _ => ⟨h, trivial⟩
  | b :: r, a, y, h, htr =>
    ⟨h, triples_links r y b (List.mem_of_mem_erase (by rw [htr.1.2.2.1]; simp)) htr.2⟩

theorem absorb {S : Nat → Prop} {R : Nat → Nat → Prop} (hR : ∀ u v, R u v → (S u ↔ S v)) : ∀ (l : List Nat),
    Links R l → (∃ x ∈ l, S x) → ∀ y ∈ l, S y
  | [], _, ⟨_, hx, _⟩, _, _ => by simp at hx
  | [a], _, ⟨x, hx, hS⟩, y, hy => by
    simp only [List.mem_singleton] at hx hy
    rw [hy, ← hx]; exact hS
  | a :: b :: r, hl, ⟨x, hx, hS⟩, y, hy => by
    have hb : S b := by
      rcases List.mem_cons.mp hx with rfl | hx'
      · exact (hR _ b hl.1).mp hS
      · exact absorb hR (b :: r) hl.2 ⟨x, hx', hS⟩ b (by simp)
    rcases List.mem_cons.mp hy with rfl | hy'
    · exact (hR _ b hl.1).mpr hb
    · exact absorb hR (b :: r) hl.2 ⟨b, by simp, hb⟩ y hy'

/-- a later chain cannot touch an earlier complete chain -/
theorem chain_disjoint {atoms : List PAtom} (g : GraphOK atoms) (hn : NoHyperDouble atoms) {t m l t' : Nat} {p : List Nat}
    (htm : dblAdj atoms t = [m])
    (hw : walk atoms (terminals0 atoms) (atoms.length + 1) t m [t, m] = .ok (.chain p l))
    (ht' : t' ∈ terminals0 atoms) (hne1 : t' ≠ t) (hne2 : t' ≠ l) {w' : Walk} (hw' : IdealFrom atoms [t'] w') :
    Disj (.chain p l) w' := by
  obtain ⟨t'', ht'', m', htm', hwalk'⟩ := hw'
  simp only [List.mem_singleton] at ht''
  subst ht''
  have hclosed := iwalk_closed g _ [] t m p l (pathInv_start g htm) hw
  obtain ⟨w0, hw0, hgood⟩ := ideal_from g htm
  rw [hw] at hw0
  simp only [Except.ok.injEq] at hw0
  subst hw0
  obtain ⟨suf, hp, _, htr, hla, _, _⟩ := hgood
  simp only [List.nil_append, List.cons_append] at hp
  obtain ⟨w1, hw1, hgood'⟩ := ideal_from g htm'
  rw [hwalk'] at hw1
  simp only [Except.ok.injEq] at hw1
  subst hw1
  intro x hx hx'
  cases w' with
  | broken q =>
    obtain ⟨l', _, hd, h2⟩ := hgood'
    have := hn l' hd; omega
  | chain p' l' =>
    obtain ⟨suf', hp', _, htr', _, _, _⟩ := hgood'
    simp only [List.nil_append, List.cons_append] at hp'
    simp only [walkPath] at hx hx'
    have hlinks : Links (fun u v => v ∈ dblAdj atoms u) p' := by
      rw [hp']; exact triples_links suf' t'' m' (by rw [htm']; simp) htr'
    have hall := absorb (S := fun u => u ∈ p) (R := fun u v => v ∈ dblAdj atoms u)
      (fun u v huv => ⟨fun hu => hclosed u hu v huv, fun hv => hclosed v hv u (dbl_symm g huv)⟩) p' hlinks ⟨x, hx', hx⟩
    have ht'p : t'' ∈ p := hall t'' (by rw [hp']; simp)
    rw [hp] at ht'p
    rcases List.mem_cons.mp ht'p with h | h
    · exact hne1 h
    · exact hne2 (triples_terminals suf t m l htr hla t'' h ht')


theorem cumLoop_ok {atoms : List PAtom} (g : GraphOK atoms) : ∀ (f : Nat) (terms : List Nat), terms.length ≤ f →
    terms.Nodup → (∀ t ∈ terms, t ∈ terminals0 atoms) → J atoms terms →
    ∃ ws, cumLoop atoms f terms = .ok ws ∧ (∀ w ∈ ws, IdealFrom atoms terms w) ∧
      (NoHyperDouble atoms → ws.Pairwise Disj)
  | _, [], _, _, _, _ => ⟨[], by simp [cumLoop], by simp, fun _ => List.Pairwise.nil⟩
  | 0, _ :: _, h, _, _, _ => by simp at h
  | f + 1, t :: rest, hlen, hnd, hsub, hJ => by
    have htT := hsub t (by simp)
    obtain ⟨m, htm⟩ := mem_terminals0 g.nodup htT
    obtain ⟨w, hw, hgoodw⟩ := ideal_from g htm
    have htrest : t ∉ rest := (List.nodup_cons.mp hnd).1
    have hndr : rest.Nodup := (List.nodup_cons.mp hnd).2
    have hsubr : ∀ s ∈ rest, s ∈ terminals0 atoms := fun s hs => hsub s (List.mem_cons_of_mem _ hs)
    unfold cumLoop
    rw [htm]
    simp only [popOnly]
    cases w with
    | chain p l =>
      have hl := hJ t (by simp) m p l htm hw
      obtain ⟨hlt, _, a, hla, hrevt⟩ := ideal_rev' g htT htm hw
      have hlrest : l ∈ rest := by
        rcases List.mem_cons.mp hl with h | h
        · exact absurd h hlt
        · exact h
      have hreal := walk_agree rest hsubr _ _ _ _ _ hw (fun p' l' h => by cases h; exact hlrest)
      rw [hreal]
      simp only
      have hJ' : J atoms (rest.erase l) := by
        intro s hs m' p' s' hsm hws
        have hsr : s ∈ rest := List.mem_of_mem_erase hs
        have hsl : s ≠ l := (hndr.mem_erase_iff.mp hs).1
        have hs' := hJ s (List.mem_cons_of_mem _ hsr) m' p' s' hsm hws
        obtain ⟨_, _, a', hsa, hrevs⟩ := ideal_rev' g (hsubr s hsr) hsm hws
        have hne_t : s' ≠ t := by
          intro e; subst e
          rw [htm] at hsa
          simp only [List.cons.injEq, and_true] at hsa
          subst hsa
          rw [hw] at hrevs
          simp only [Except.ok.injEq, Walk.chain.injEq] at hrevs
          exact hsl hrevs.2.symm
        have hne_l : s' ≠ l := by
          intro e; subst e
          rw [hla] at hsa
          simp only [List.cons.injEq, and_true] at hsa
          subst hsa
          rw [hrevt] at hrevs
          simp only [Except.ok.injEq, Walk.chain.injEq] at hrevs
          exact htrest (hrevs.2 ▸ hsr)
        rcases List.mem_cons.mp hs' with h | h
        · exact absurd h hne_t
        · exact (hndr.mem_erase_iff.mpr ⟨hne_l, h⟩)
      obtain ⟨r, hr, hri, hrp⟩ := cumLoop_ok g f (rest.erase l)
        (by have := List.length_erase_of_mem hlrest; simp at hlen; omega)
        (hndr.sublist List.erase_sublist) (fun s hs => hsubr s (List.mem_of_mem_erase hs)) hJ'
      rw [hr]
      refine ⟨_, rfl, ?_, ?_⟩
      · intro w' hw'
        rcases List.mem_cons.mp hw' with rfl | hw'
        · exact ⟨t, by simp, m, htm, hw⟩
        · obtain ⟨t', ht', hrest'⟩ := hri w' hw'
          exact ⟨t', List.mem_cons_of_mem _ (List.mem_of_mem_erase ht'), hrest'⟩
      · intro hn
        refine List.Pairwise.cons ?_ (hrp hn)
        intro w' hw'
        obtain ⟨t', ht', m', htm', hwalk'⟩ := hri w' hw'
        have ht'r : t' ∈ rest := List.mem_of_mem_erase ht'
        exact chain_disjoint g hn htm hw (hsubr t' ht'r) (fun e => htrest (e ▸ ht'r))
          (hndr.mem_erase_iff.mp ht').1 ⟨t', by simp, m', htm', hwalk'⟩
    | broken p =>
      have hreal := walk_agree rest hsubr _ _ _ _ _ hw (fun p' l' h => by cases h)
      rw [hreal]
      simp only
      have hJ' : J atoms rest := by
        intro s hs m' p' s' hsm hws
        have hs' := hJ s (List.mem_cons_of_mem _ hs) m' p' s' hsm hws
        obtain ⟨_, _, a', hsa, hrevs⟩ := ideal_rev' g (hsubr s hs) hsm hws
        rcases List.mem_cons.mp hs' with h | h
        · subst h
          rw [htm] at hsa
          simp only [List.cons.injEq, and_true] at hsa
          subst hsa
          rw [hw] at hrevs
          simp at hrevs
        · exact h
      obtain ⟨r, hr, hri, _⟩ := cumLoop_ok g f rest (by simp at hlen; omega) hndr hsubr hJ'
      rw [hr]
      refine ⟨_, rfl, ?_, ?_⟩
      · intro w' hw'
        rcases List.mem_cons.mp hw' with rfl | hw'
        · exact ⟨t, by simp, m, htm, hw⟩
        · obtain ⟨t', ht', hrest'⟩ := hri w' hw'
          exact ⟨t', List.mem_cons_of_mem _ ht', hrest'⟩
      · intro hn
        exfalso
        obtain ⟨l', _, hd, h2⟩ := hgoodw
        have := hn l' hd; omega

/-- **`cumulenes` never fails on a well-formed graph** -/
theorem cumulenesTagged_ok {atoms : List PAtom} (g : GraphOK atoms) :
    ∃ ws, cumulenesTagged atoms = .ok ws ∧ (∀ w ∈ ws, Ideal atoms w) ∧ (NoHyperDouble atoms → ws.Pairwise Disj) := by
  unfold cumulenesTagged
  refine cumLoop_ok g _ _ (Nat.le_refl _) (terminals0_nodup g) (fun _ h => h) ?_
  intro t ht m p l htm hw
  exact (ideal_rev' g ht htm hw).2.1

theorem perceive_ok {atoms : List PAtom} (g : GraphOK atoms) : ∃ p, perceive atoms = .ok p := by
  obtain ⟨ws, hws, _, _⟩ := cumulenesTagged_ok g
  unfold perceive cumulenes
  rw [hws]
  exact ⟨_, rfl⟩

/-- without such atoms every walk ends in a terminal: `cumulenes` reports maximal chains only -/
theorem cumulenes_maximal {atoms : List PAtom} (g : GraphOK atoms) (hn : NoHyperDouble atoms) {paths : List (List Nat)}
    (h : cumulenes atoms = .ok paths) : ∀ p ∈ paths, MaximalChain can atoms p := by
  obtain ⟨ws, hws, hid, _⟩ := cumulenesTagged_ok g
  unfold cumulenes at h
  rw [hws] at h
  simp only [Except.ok.injEq] at h
  subst h
  intro p hp
  obtain ⟨w, hwm, hpw⟩ := List.mem_flatMap.mp hp
  have hs := cumulenesTagged_sound g hws w hwm
  cases w with
  | chain q l =>
    simp only [Walk.paths, List.mem_singleton] at hpw
    subst hpw; exact hs
  | broken q =>
    exfalso
    obtain ⟨t, _, m, htm, hw⟩ := hid _ hwm
    obtain ⟨w', hw', hgood⟩ := ideal_from g htm
    rw [hw] at hw'
    simp only [Except.ok.injEq] at hw'
    subst hw'
    obtain ⟨l, _, hd, h2⟩ := hgood
    have := hn l hd
    omega

/-! ### no atom is a key of two cis/trans units (molecules without a hypervalent centre inside a chain) -/

theorem paths_pairwise : ∀ (ws : List Walk), ws.Pairwise Disj → (∀ w ∈ ws, ∃ p l, w = .chain p l) →
    (ws.flatMap Walk.paths).Pairwise (fun p q => ∀ x ∈ p, x ∉ q)
  | [], _, _ => by simp
  | w :: r, hp, hc => by
    obtain ⟨p, l, rfl⟩ := hc w (by simp)
    have hp' := List.pairwise_cons.mp hp
    simp only [List.flatMap_cons, Walk.paths, List.singleton_append]
    refine List.Pairwise.cons ?_ (paths_pairwise r hp'.2 (fun w hw => hc w (by simp [hw])))
    intro q hq
    obtain ⟨w', hw', hqw⟩ := List.mem_flatMap.mp hq
    obtain ⟨p', l', rfl⟩ := hc w' (by simp [hw'])
    simp only [Walk.paths, List.mem_singleton] at hqw
    subst hqw
    exact hp'.1 _ hw'

theorem stereogenic_sublist (atoms : List PAtom) : ∀ (paths : List (List Nat)),
    ((stereogenicOf atoms paths).map (·.1)).Sublist paths
  | [] => by simp [stereogenicOf]
  | p :: r => by
    have ih := stereogenic_sublist atoms r
    unfold stereogenicOf at ih ⊢
    rw [List.filterMap_cons]
    cases hs : stereoEnv atoms p with
    | none => simp only [Option.map_none]; exact List.Sublist.cons _ ih
    | some e => simp only [Option.map_some, List.map_cons]; exact List.Sublist.cons_cons _ ih

theorem keys4_sub (path : List Nat) : ∀ x ∈ keys4 path, x ∈ path := by
  intro x hx
  unfold keys4 at hx
  cases he : evenKeys path with
  | none => simp [he] at hx
  | some v =>
    obtain ⟨n, m, c1, c2⟩ := v
    obtain ⟨_, h1, h2, h3, h4⟩ := evenKeys_some he
    simp only [he, List.mem_cons, List.not_mem_nil, or_false] at hx
    rcases hx with rfl | rfl | rfl | rfl
    · exact List.mem_of_mem_head? (by rw [h1]; rfl)
    · exact List.mem_of_getLast? h2
    · exact List.mem_of_getElem? h3
    · exact List.mem_of_getElem? h4

/-- **`KeysDisjoint` holds for every well-formed molecule without a hypervalent centre inside a chain of double bonds** -/
theorem keysDisjoint_of_noHyper {atoms : List PAtom} (g : GraphOK atoms) (hn : NoHyperDouble atoms) {p : Perceived}
    (hp : perceive atoms = .ok p) : KeysDisjoint (p.stereogenic.map (·.1)) := by
  obtain ⟨_, _, _, hc, hs⟩ := perceive_fields hp
  obtain ⟨ws, hws, hid, hpw⟩ := cumulenesTagged_ok g
  have hchains : ∀ w ∈ ws, ∃ q l, w = .chain q l := by
    intro w hwm
    cases w with
    | chain q l => exact ⟨q, l, rfl⟩
    | broken q =>
      exfalso
      obtain ⟨t, _, m, htm, hw⟩ := hid _ hwm
      obtain ⟨w', hw', hgood⟩ := ideal_from g htm
      rw [hw] at hw'
      simp only [Except.ok.injEq] at hw'
      subst hw'
      obtain ⟨l, _, hd, h2⟩ := hgood
      have := hn l hd; omega
  have hpaths : p.cumulenes = ws.flatMap Walk.paths := by
    unfold cumulenes at hc
    rw [hws] at hc
    simp only [Except.ok.injEq] at hc
    exact hc.symm
  have h1 := paths_pairwise ws (hpw hn) hchains
  rw [← hpaths] at h1
  have h2 := h1.sublist (stereogenic_sublist atoms p.cumulenes)
  rw [← hs] at h2
  unfold KeysDisjoint
  exact h2.imp (fun {a b} hab x hx hx' => hab x (keys4_sub a x hx) (keys4_sub b x hx'))

theorem noHyperDoubleb_sound (atoms : List PAtom) (h : noHyperDoubleb atoms = true) : NoHyperDouble atoms := by
  intro l hd
  unfold degAt at hd
  cases ha : atomAt atoms l with
  | none => simp [ha] at hd
  | some a =>
    simp only [ha] at hd
    simp only [noHyperDoubleb, List.all_eq_true, Bool.or_eq_true, Bool.not_eq_true', decide_eq_false_iff_not,
      decide_eq_true_eq] at h
    rcases h a (atomAt_some ha).1 with h1 | h1
    · exact absurd hd h1
    · rw [(atomAt_some ha).2] at h1; exact h1

theorem terminals_entry_maximal {atoms : List PAtom} (g : GraphOK atoms) (hn : NoHyperDouble atoms) {p : Perceived}
    (hp : perceive atoms = .ok p) {k tn tm : Nat} (hl : p.terminals.lookup k = some (tn, tm)) :
    ∃ path ∈ p.cumulenes, MaximalChain can atoms path ∧ IsCisTransUnit path ∧ path.head? = some tn ∧
      path.getLast? = some tm ∧ k ∈ keys4 path := by
  obtain ⟨path, hpm, h1, h2, h3, h4, _⟩ := terminals_entry g hp hl
  exact ⟨path, hpm, cumulenes_maximal g hn (perceive_fields hp).2.2.2.1 path hpm, h1, h2, h3, h4⟩

end ChythonModel.Proofs.C10
