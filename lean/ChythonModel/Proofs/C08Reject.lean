import ChythonModel.Model.SmartsParse
/-!
# C08 — characters that no documented construct uses are never consumed by the reader, so the atom is rejected

`isBad c`: `c` is not a letter, not a digit, not white space and none of `# , ; ! + - : @ ? _`
(so `& $ * ( ) = ~ % . / \ ^ < > { } | " '` … are bad).
-/
namespace ChythonModel.Proofs.C08
open ChythonModel.Model.Query ChythonModel.Gen.Query

def isLetter (c : Char) : Bool := ('a' ≤ c && c ≤ 'z') || ('A' ≤ c && c ≤ 'Z')

def isBad (c : Char) : Bool :=
  !isLetter c && !isDigit c && !isPySpace c &&
  !(c == '#' || c == ',' || c == ';' || c == '!' || c == '+' || c == '-' || c == ':' || c == '@' || c == '?' || c == '_')

/-! ### the scanners keep bad characters -/

theorem bad_not_digit {c : Char} (h : isBad c = true) : isDigit c = false := by
  unfold isBad at h; simp only [Bool.and_eq_true, Bool.not_eq_true'] at h; exact h.1.1.2

theorem spanDigits_keeps (c : Char) (hb : isBad c = true) : ∀ s : List Char, c ∈ s → c ∈ (spanDigits s).2
  | [], h => by cases h
  | x :: xs, h => by
    unfold spanDigits
    by_cases hx : isDigit x = true
    · simp only [hx, if_true]
      have hne : c ≠ x := by
        intro e; subst e; rw [bad_not_digit hb] at hx; cases hx
      rcases List.mem_cons.mp h with e | m
      · exact absurd e hne
      · exact spanDigits_keeps c hb xs m
    · simp only [hx]; exact h

theorem chgSearch_keeps (c : Char) (hb : isBad c = true) :
    ∀ s : List Char, c ∈ s → ∀ b m a, chgSearch s = some (b, m, a) → c ∈ b ++ a
  | [], h, _, _, _, _ => by cases h
  | x :: xs, h, b, m, a, he => by
    have hbad := hb
    unfold isBad at hbad
    simp only [Bool.and_eq_true, Bool.not_eq_true', Bool.or_eq_false_iff, beq_eq_false_iff_ne, ne_eq] at hbad
    obtain ⟨⟨⟨_, hdig⟩, _⟩, ⟨⟨⟨⟨⟨⟨⟨⟨⟨_, _⟩, _⟩, _⟩, hplus⟩, hminus⟩, _⟩, _⟩, _⟩, _⟩⟩ := hbad
    unfold chgSearch at he
    by_cases hx : (x == '+' || x == '-') = true
    · simp only [hx, if_true] at he
      have hcx : c ≠ x := by
        intro e; subst e
        simp only [Bool.or_eq_true, beq_iff_eq] at hx
        rcases hx with e | e
        · exact hplus e
        · exact hminus e
      have hxs : c ∈ xs := by
        rcases List.mem_cons.mp h with e | m'
        · exact absurd e hcx
        · exact m'
      cases xs with
      | nil => cases hxs
      | cons d ds =>
        simp only at he
        split at he
        · rename_i hd
          cases he
          have hcd : c ≠ d := by
            intro e; subst e
            simp only [Bool.or_eq_true, beq_iff_eq] at hd
            have h1 : isDigit c = true := by
              rcases hd with ((((e | e) | e) | e) | e) | e
              · subst e; decide
              · subst e; decide
              · subst e; decide
              · subst e; decide
              · exact absurd e hplus
              · exact absurd e hminus
            rw [hdig] at h1; cases h1
          rcases List.mem_cons.mp hxs with e | m'
          · exact absurd e hcd
          · simpa using m'
        · cases he; simpa using hxs
    · simp only [hx] at he
      cases hr : chgSearch xs with
      | none => simp [hr] at he
      | some t =>
        obtain ⟨b', m', a'⟩ := t
        simp only [hr, Option.map_some, Option.some.injEq, Prod.mk.injEq, Bool.false_eq_true, if_false] at he
        obtain ⟨h1, _, h3⟩ := he
        rw [← h1, ← h3]
        rcases List.mem_cons.mp h with e | mm
        · subst e; simp
        · have := chgSearch_keeps c hb xs mm b' m' a' hr
          simp only [List.cons_append, List.mem_cons]; right; exact this

theorem strSearch_keeps (c : Char) (hb : isBad c = true) :
    ∀ s : List Char, c ∈ s → ∀ b m a, strSearch s = some (b, m, a) → c ∈ b ++ a
  | [], h, _, _, _, _ => by cases h
  | x :: xs, h, b, m, a, he => by
    have hbad := hb
    unfold isBad at hbad
    simp only [Bool.and_eq_true, Bool.not_eq_true', Bool.or_eq_false_iff, beq_eq_false_iff_ne, ne_eq] at hbad
    obtain ⟨_, ⟨⟨⟨⟨⟨⟨⟨⟨⟨_, _⟩, _⟩, _⟩, _⟩, _⟩, _⟩, hat⟩, hq⟩, _⟩⟩ := hbad
    unfold strSearch at he
    by_cases hx : (x == '@') = true
    · simp only [hx, if_true] at he
      have hcx : c ≠ x := by
        intro e; subst e
        exact hat (beq_iff_eq.mp hx)
      have hxs : c ∈ xs := by
        rcases List.mem_cons.mp h with e | m'
        · exact absurd e hcx
        · exact m'
      cases xs with
      | nil => cases hxs
      | cons d ds =>
        simp only at he
        split at he
        · rename_i hd
          cases he
          have hcd : c ≠ d := by
            intro e; subst e
            simp only [Bool.or_eq_true, beq_iff_eq] at hd
            rcases hd with e | e
            · exact hat e
            · exact hq e
          rcases List.mem_cons.mp hxs with e | m'
          · exact absurd e hcd
          · simpa using m'
        · cases he; simpa using hxs
    · simp only [hx] at he
      cases hr : strSearch xs with
      | none => simp [hr] at he
      | some t =>
        obtain ⟨b', m', a'⟩ := t
        simp only [hr, Option.map_some, Option.some.injEq, Prod.mk.injEq, Bool.false_eq_true, if_false] at he
        obtain ⟨h1, _, h3⟩ := he
        rw [← h1, ← h3]
        rcases List.mem_cons.mp h with e | mm
        · subst e; simp
        · have := strSearch_keeps c hb xs mm b' m' a' hr
          simp only [List.cons_append, List.mem_cons]; right; exact this

theorem mppSearch_keeps (c : Char) (hb : isBad c = true) :
    ∀ s : List Char, c ∈ s → ∀ b n, mppSearch s = some (b, n) → c ∈ b
  | [], h, _, _, _ => by cases h
  | x :: xs, h, b, n, he => by
    have hbad := hb
    unfold isBad at hbad
    simp only [Bool.and_eq_true, Bool.not_eq_true', Bool.or_eq_false_iff, beq_eq_false_iff_ne, ne_eq] at hbad
    obtain ⟨⟨⟨_, hdig⟩, _⟩, ⟨⟨⟨⟨⟨⟨⟨⟨⟨_, _⟩, _⟩, _⟩, _⟩, _⟩, hcolon⟩, _⟩, _⟩, _⟩⟩ := hbad
    unfold mppSearch at he
    by_cases hcond : (x == ':' && mppTail xs) = true
    · -- the whole rest is `:` followed by digits: a bad character cannot be there
      exfalso
      simp only [Bool.and_eq_true, beq_iff_eq] at hcond
      obtain ⟨hx, hrest⟩ := hcond
      rcases List.mem_cons.mp h with e | m'
      · exact hcolon (e.trans hx)
      · cases xs with
        | nil => cases m'
        | cons d ds =>
          simp only [mppTail, Bool.and_eq_true, decide_eq_true_eq, List.all_eq_true] at hrest
          rcases List.mem_cons.mp m' with e | m''
          · subst e
            have : isDigit c = true := by
              unfold isDigit
              simp only [Bool.and_eq_true, decide_eq_true_eq]
              exact ⟨Char.le_trans (by decide : '0' ≤ '1') hrest.1.1, hrest.1.2⟩
            rw [hdig] at this; cases this
          · have := hrest.2 c m''
            rw [hdig] at this; cases this
    · rw [if_neg hcond] at he
      cases hr : mppSearch xs with
      | none => simp [hr] at he
      | some t =>
        obtain ⟨b', n'⟩ := t
        simp only [hr, Option.map_some, Option.some.injEq, Prod.mk.injEq] at he
        obtain ⟨h1, _⟩ := he
        rw [← h1]
        rcases List.mem_cons.mp h with e | mm
        · subst e; simp
        · exact List.mem_cons_of_mem _ (mppSearch_keeps c hb xs mm b' n' hr)

theorem splitOn_keeps (sep c : Char) (hne : c ≠ sep) :
    ∀ s : List Char, c ∈ s → ∃ p ∈ splitOn sep s, c ∈ p
  | [], h => by cases h
  | x :: xs, h => by
    unfold splitOn
    cases hs : splitOn sep xs with
    | nil =>
      -- splitOn never returns []
      exfalso
      have : ∀ l : List Char, splitOn sep l ≠ [] := by
        intro l
        induction l with
        | nil => simp [splitOn]
        | cons y ys ih =>
          unfold splitOn
          cases h' : splitOn sep ys with
          | nil => exact absurd h' ih
          | cons hd tl => simp only; split <;> simp
      exact this xs hs
    | cons hd tl =>
      simp only
      rcases List.mem_cons.mp h with e | m
      · subst e
        have : (c == sep) = false := by simp [hne]
        simp only [this, Bool.false_eq_true, if_false]
        exact ⟨c :: hd, by simp, by simp⟩
      · obtain ⟨p, hp, hcp⟩ := splitOn_keeps sep c hne xs m
        rw [hs] at hp
        split
        · exact ⟨p, List.mem_cons_of_mem _ hp, hcp⟩
        · rcases List.mem_cons.mp hp with e | m'
          · subst e; exact ⟨x :: p, by simp, List.mem_cons_of_mem _ hcp⟩
          · exact ⟨p, List.mem_cons_of_mem _ m', hcp⟩

/-! ### `int()` refuses text with a bad character -/

theorem bad_ne {c : Char} (hb : isBad c = true) :
    isLetter c = false ∧ isDigit c = false ∧ isPySpace c = false ∧ c ≠ '#' ∧ c ≠ ',' ∧ c ≠ ';' ∧ c ≠ '!' ∧ c ≠ '+' ∧ c ≠ '-' ∧
    c ≠ ':' ∧ c ≠ '@' ∧ c ≠ '?' ∧ c ≠ '_' := by
  unfold isBad at hb
  simp only [Bool.and_eq_true, Bool.not_eq_true', Bool.or_eq_false_iff, beq_eq_false_iff_ne, ne_eq] at hb
  obtain ⟨⟨⟨h1, h2⟩, h3⟩, ⟨⟨⟨⟨⟨⟨⟨⟨⟨a1, a2⟩, a3⟩, a4⟩, a5⟩, a6⟩, a7⟩, a8⟩, a9⟩, a10⟩⟩ := hb
  exact ⟨h1, h2, h3, a1, a2, a3, a4, a5, a6, a7, a8, a9, a10⟩

theorem digitsU_bad (c : Char) (hb : isBad c = true) : ∀ (r : List Char) (prev : Bool) (acc : Nat), c ∈ r → digitsU r prev acc = none
  | [], _, _, h => by cases h
  | x :: xs, prev, acc, h => by
    obtain ⟨_, hd, _, _, _, _, _, _, _, _, _, _, hu⟩ := bad_ne hb
    unfold digitsU
    by_cases hx : isDigit x = true
    · simp only [hx, if_true]
      rcases List.mem_cons.mp h with e | m
      · subst e; rw [hd] at hx; cases hx
      · exact digitsU_bad c hb xs true _ m
    · simp only [hx, Bool.false_eq_true, if_false]
      by_cases hux : (x == '_' && prev) = true
      · simp only [hux, if_true]
        have hcx : c ≠ x := by
          intro e; subst e
          simp only [Bool.and_eq_true, beq_iff_eq] at hux
          exact hu hux.1
        have hm : c ∈ xs := by
          rcases List.mem_cons.mp h with e | m
          · exact absurd e hcx
          · exact m
        cases xs with
        | nil => rfl
        | cons d ds =>
          simp only
          split
          · exact digitsU_bad c hb (d :: ds) false acc hm
          · rfl
      · simp only [hux, Bool.false_eq_true, if_false]

theorem dropSpaces_keeps (c : Char) (hs : isPySpace c = false) : ∀ s : List Char, c ∈ s → c ∈ dropSpaces s
  | [], h => by cases h
  | x :: xs, h => by
    unfold dropSpaces
    by_cases hx : isPySpace x = true
    · simp only [hx, if_true]
      rcases List.mem_cons.mp h with e | m
      · subst e; rw [hs] at hx; cases hx
      · exact dropSpaces_keeps c hs xs m
    · simp only [hx]; exact h

theorem pyInt_bad (c : Char) (hb : isBad c = true) (r : List Char) (h : c ∈ r) : pyInt r = none := by
  obtain ⟨_, _, hsp, _, _, _, _, hplus, hminus, _, _, _, _⟩ := bad_ne hb
  unfold pyInt
  have hm : c ∈ (dropSpaces (dropSpaces r).reverse).reverse := by
    apply List.mem_reverse.mpr
    apply dropSpaces_keeps c hsp
    apply List.mem_reverse.mpr
    exact dropSpaces_keeps c hsp r h
  generalize (dropSpaces (dropSpaces r).reverse).reverse = t at hm
  simp only
  split
  · rename_i r' 
    have : c ∈ r' := by
      rcases List.mem_cons.mp hm with e | m
      · exact absurd e hplus
      · exact m
    simp [digitsU_bad c hb r' false 0 this]
  · rename_i r'
    have : c ∈ r' := by
      rcases List.mem_cons.mp hm with e | m
      · exact absurd e hminus
      · exact m
    simp [digitsU_bad c hb r' false 0 this]
  · simp [digitsU_bad c hb _ false 0 hm]

/-! ### element items and primitives -/

def symsOf : ElemSpec → List (List Char)
  | .one (.sym s) => [s]
  | .one (.num _) => []
  | .many es => es.filterMap fun | .sym s => some s | .num _ => none

theorem parseElemItems_bad (c : Char) (hb : isBad c = true) :
    ∀ (items : List (List Char)) (toks : List ElemTok), parseElemItems items = .ok toks →
      ∀ x ∈ items, c ∈ x → ∃ s, ElemTok.sym s ∈ toks ∧ c ∈ s
  | [], _, _, x, hx, _ => by cases hx
  | it :: rest, toks, he, x, hx, hc => by
    obtain ⟨_, _, _, hhash, _⟩ := bad_ne hb
    unfold parseElemItems at he
    split at he
    · -- '#' :: r
      rename_i r
      cases hp : pyInt r with
      | none => simp [hp] at he
      | some n =>
        simp only [hp] at he
        cases hr : parseElemItems rest with
        | error e => simp [hr, bind, Except.bind] at he
        | ok t =>
          simp only [hr, bind, Except.bind] at he
          cases he
          rcases List.mem_cons.mp hx with e | m
          · subst e
            have : c ∈ r := by
              rcases List.mem_cons.mp hc with e | m'
              · exact absurd e hhash
              · exact m'
            rw [pyInt_bad c hb r this] at hp; cases hp
          · obtain ⟨s, hs, hcs⟩ := parseElemItems_bad c hb rest t hr x m hc
            exact ⟨s, List.mem_cons_of_mem _ hs, hcs⟩
    · cases hr : parseElemItems rest with
      | error e => simp [hr, bind, Except.bind] at he
      | ok t =>
        simp only [hr, bind, Except.bind] at he
        cases he
        rcases List.mem_cons.mp hx with e | m
        · subst e; exact ⟨x, by simp, hc⟩
        · obtain ⟨s, hs, hcs⟩ := parseElemItems_bad c hb rest t hr x m hc
          exact ⟨s, List.mem_cons_of_mem _ hs, hcs⟩

theorem mem_symsOf_mkElem (toks : List ElemTok) (s : List Char) (h : ElemTok.sym s ∈ toks) : s ∈ symsOf (mkElem toks) := by
  unfold mkElem
  split
  · rename_i x
    simp only [List.mem_singleton] at h
    subst h
    simp [symsOf]
  · simp only [symsOf, List.mem_filterMap]
    exact ⟨.sym s, h, rfl⟩

theorem parsePrimNums_ok_tails (c : Char) (hb : isBad c = true) :
    ∀ (ps : List (List Char)) (nums : List Int), parsePrimNums ps = .ok nums → ∀ x ∈ ps, c ∉ x.tail
  | [], _, _, x, hx => by cases hx
  | y :: ys, nums, he, x, hx => by
    unfold parsePrimNums at he
    cases hp : pyInt y.tail with
    | none => simp [hp] at he
    | some n =>
      simp only [hp] at he
      cases hr : parsePrimNums ys with
      | error e => simp [hr, bind, Except.bind] at he
      | ok t =>
        rcases List.mem_cons.mp hx with e | m
        · subst e
          intro hc
          rw [pyInt_bad c hb _ hc] at hp; cases hp
        · exact parsePrimNums_ok_tails c hb ys t hr x m

theorem firstChars_mem :
    ∀ (ps : List (List Char)) (fcs : List Char), firstChars ps = some fcs → ∀ (f : Char) (r : List Char), (f :: r) ∈ ps → f ∈ fcs
  | [], _, _, f, r, h => by cases h
  | y :: ys, fcs, he, f, r, h => by
    unfold firstChars at he
    cases y with
    | nil => simp at he
    | cons y0 yr =>
      simp only at he
      cases hr : firstChars ys with
      | none => simp [hr] at he
      | some t =>
        simp only [hr, Option.map_some, Option.some.injEq] at he
        subst he
        rcases List.mem_cons.mp h with e | m
        · cases e; simp
        · exact List.mem_cons_of_mem _ (firstChars_mem ys t hr f r m)

theorem firstChars_head (p0r : List Char) (t : Char) (rest : List (List Char)) (fcs : List Char)
    (h : firstChars ((t :: p0r) :: rest) = some fcs) : ∃ tl, fcs = t :: tl := by
  unfold firstChars at h
  simp only at h
  cases hr : firstChars rest with
  | none => simp [hr] at h
  | some tl => simp only [hr, Option.map_some, Option.some.injEq] at h; exact ⟨tl, h.symm⟩

theorem allSame_mem (t : Char) (tl : List Char) (h : allSame (t :: tl) = true) (f : Char) (hf : f ∈ t :: tl) : f = t := by
  unfold allSame at h
  rcases List.mem_cons.mp hf with e | m
  · exact e
  · exact beq_iff_eq.mp (List.all_eq_true.mp h f m)

theorem primLetters_are_letters : primLetters.all isLetter = true := by decide

/-- a numeric primitive containing a bad character is never accepted -/
theorem applyNumPrim_bad (c : Char) (hb : isBad c = true) (out : Parsed) (ps : List (List Char))
    (hx : ∃ x ∈ ps, c ∈ x) : ∀ o, applyNumPrim out ps ≠ .ok o := by
  intro o he
  obtain ⟨hlet, _⟩ := bad_ne hb
  obtain ⟨x, hxps, hcx⟩ := hx
  unfold applyNumPrim at he
  split at he
  · cases he
  · rename_i fcs hfc
    split at he
    · cases he
    · rename_i hsame
      split at he
      · cases he
      · rename_i p0 rest
        split at he
        · cases he
        · rename_i t p0r
          split at he
          · cases he
          · rename_i hprim
            split at he
            · cases he
            · rename_i nums hnums
              -- the first character of the piece that contains c
              have htail := parsePrimNums_ok_tails c hb _ nums hnums x hxps
              cases x with
              | nil => cases hcx
              | cons f r =>
                have hfc' : f = c := by
                  rcases List.mem_cons.mp hcx with e | m
                  · exact e.symm
                  · exact absurd m htail
                subst hfc'
                -- f is the first character of p0 (= t), directly or through the all-same test
                have hft : f = t := by
                  rcases List.mem_cons.mp hxps with e | m
                  · cases e; rfl
                  · have hlen : ((t :: p0r) :: rest).length != 1 := by
                      cases rest with
                      | nil => cases m
                      | cons _ _ => simp
                    simp only [hlen, if_true] at hfc
                    obtain ⟨tl, htl⟩ := firstChars_head p0r t rest fcs hfc
                    have hmem := firstChars_mem _ fcs hfc f r (List.mem_cons_of_mem _ m)
                    simp only [hlen, Bool.true_and, Bool.not_eq_true', Bool.not_eq_false'] at hsame
                    subst htl
                    exact allSame_mem t tl (by simpa using hsame) f hmem
                subst hft
                simp only [Bool.not_eq_true', Bool.not_eq_false'] at hprim
                have : isLetter f = true :=
                  List.all_eq_true.mp primLetters_are_letters f (List.contains_iff_mem.mp (by simpa using hprim))
                rw [hlet] at this; cases this

theorem applyPrim_bad (c : Char) (hb : isBad c = true) (out : Parsed) (p : List Char) (hc : c ∈ p) :
    ∀ o, applyPrim out p ≠ .ok o := by
  intro o he
  obtain ⟨hlet, _, _, _, hcomma, _, hbang, _⟩ := bad_ne hb
  unfold applyPrim at he
  have notword : ∀ w : List Char, (∀ ch ∈ w, isLetter ch = true ∨ ch = '!') → p ≠ w := by
    intro w hw e
    subst e
    rcases hw c hc with h | h
    · rw [hlet] at h; cases h
    · exact hbang h
  have h1 : p.isEmpty = false := by cases p with | nil => cases hc | cons _ _ => rfl
  have h2 : (p == ['a']) = false := by
    apply beq_eq_false_iff_ne.mpr; apply notword; intro ch hch; simp at hch; subst hch; left; decide
  have h3 : (p == ['A']) = false := by
    apply beq_eq_false_iff_ne.mpr; apply notword; intro ch hch; simp at hch; subst hch; left; decide
  have h4 : (p == ['!', 'R']) = false := by
    apply beq_eq_false_iff_ne.mpr; apply notword; intro ch hch; simp at hch
    rcases hch with e | e
    · right; exact e
    · subst e; left; decide
  have h5 : (p == ['M']) = false := by
    apply beq_eq_false_iff_ne.mpr; apply notword; intro ch hch; simp at hch; subst hch; left; decide
  simp only [h1, h2, h3, h4, h5, Bool.false_eq_true, if_false] at he
  exact applyNumPrim_bad c hb out _ (splitOn_keeps ',' c hcomma p hc) o he

theorem setPrim_element (out : Parsed) (t : Char) (nums : List Int) : (setPrim out t nums).element = out.element := by
  unfold setPrim; split <;> (try rfl) <;> split <;> (try rfl) <;> split <;> (try rfl) <;> split <;> rfl

theorem applyNumPrim_element (out o : Parsed) (ps : List (List Char)) (h : applyNumPrim out ps = .ok o) :
    o.element = out.element := by
  unfold applyNumPrim at h
  split at h
  · cases h
  · split at h
    · cases h
    · split at h
      · cases h
      · split at h
        · cases h
        · split at h
          · cases h
          · split at h
            · cases h
            · cases h; exact setPrim_element _ _ _

theorem applyPrim_element (out o : Parsed) (p : List Char) (h : applyPrim out p = .ok o) : o.element = out.element := by
  unfold applyPrim at h
  split at h
  · cases h; rfl
  · split at h
    · cases h; rfl
    · split at h
      · cases h; rfl
      · split at h
        · cases h; rfl
        · split at h
          · cases h; rfl
          · exact applyNumPrim_element _ _ _ h

theorem applyPrims_ok (c : Char) (hb : isBad c = true) :
    ∀ (prims : List (List Char)) (out p : Parsed), applyPrims out prims = .ok p →
      (∀ q ∈ prims, c ∉ q) ∧ p.element = out.element
  | [], out, p, h => by
    simp only [applyPrims] at h; cases h
    exact ⟨fun q hq => absurd hq (List.not_mem_nil), rfl⟩
  | q :: qs, out, p, h => by
    unfold applyPrims at h
    cases ho : applyPrim out q with
    | error e => simp [ho, bind, Except.bind] at h
    | ok o =>
      simp only [ho, bind, Except.bind] at h
      obtain ⟨h1, h2⟩ := applyPrims_ok c hb qs o p h
      refine ⟨?_, h2.trans (applyPrim_element _ _ _ ho)⟩
      intro q' hq'
      rcases List.mem_cons.mp hq' with e | m
      · subst e; intro hc; exact applyPrim_bad c hb out q' hc o ho
      · exact h1 q' m

/-- if the second half of `_query_parse` succeeds on a text with a bad character, that character sits in an element symbol -/
theorem parseBody_bad (c : Char) (hb : isBad c = true) (t4 : List Char) (mk : Marks) (p : Parsed)
    (h : parseBody t4 mk = .ok p) (hc : c ∈ t4) : ∃ s ∈ symsOf p.element, c ∈ s := by
  obtain ⟨_, _, _, _, hcomma, hsemi, _⟩ := bad_ne hb
  unfold parseBody at h
  obtain ⟨piece, hpiece, hcp⟩ := splitOn_keeps ';' c hsemi t4 hc
  split at h
  · cases h
  · rename_i e prims hsplit
    split at h
    · cases h
    · split at h
      · cases h
      · rename_i items hitems
        obtain ⟨hprims, helem⟩ := applyPrims_ok c hb prims _ p h
        rw [hsplit] at hpiece
        rcases List.mem_cons.mp hpiece with e' | m
        · subst e'
          obtain ⟨x, hx, hcx⟩ := splitOn_keeps ',' c hcomma piece hcp
          obtain ⟨s, hs, hcs⟩ := parseElemItems_bad c hb _ items hitems x hx hcx
          rw [helem]
          exact ⟨s, mem_symsOf_mkElem items s hs, hcs⟩
        · exact absurd hcp (hprims piece m)

theorem stripMarks_keeps (c : Char) (hb : isBad c = true) (s t4 : List Char) (mk : Marks)
    (h : stripMarks s = .ok (t4, mk)) (hc : c ∈ s) : c ∈ t4 := by
  have h1 : c ∈ (spanDigits s).2 := spanDigits_keeps c hb s hc
  have step34 : ∀ t2 : List Char, c ∈ t2 →
      c ∈ (match strSearch (match mppSearch t2 with | none => t2 | some (b, _) => b) with
           | none => (match mppSearch t2 with | none => t2 | some (b, _) => b)
           | some (b, _, a) => b ++ a) := by
    intro t2 h2
    have h3 : c ∈ (match mppSearch t2 with | none => t2 | some (b, _) => b) := by
      cases hm : mppSearch t2 with
      | none => exact h2
      | some r => obtain ⟨b, n⟩ := r; exact mppSearch_keeps c hb t2 h2 b n hm
    generalize (match mppSearch t2 with | none => t2 | some (b, _) => b) = t3 at h3 ⊢
    cases hs : strSearch t3 with
    | none => exact h3
    | some r => obtain ⟨b, m, a⟩ := r; exact strSearch_keeps c hb t3 h3 b m a hs
  unfold stripMarks at h
  simp only at h
  cases hchg : chgSearch (spanDigits s).2 with
  | none =>
    simp only [hchg] at h
    cases h
    exact step34 _ h1
  | some r =>
    obtain ⟨b, m, a⟩ := r
    simp only [hchg] at h
    cases hl : lookupC m chargeDict with
    | none => simp [hl] at h
    | some cv =>
      simp only [hl] at h
      cases h
      exact step34 _ (chgSearch_keeps c hb _ h1 b m a hchg)

/-! ### an element symbol with a bad character is in no table -/

theorem querySyms_letters : querySyms.all (fun r => r.1.all isLetter) = true := by decide +kernel
theorem elemFlags_letters : elemFlags.all (fun r => r.1.all isLetter) = true := by decide +kernel

theorem lookupC_bad {β} (c : Char) (hl : isLetter c = false) (s : List Char) (hc : c ∈ s) :
    ∀ l : List (List Char × β), l.all (fun r => r.1.all isLetter) = true → lookupC s l = none
  | [], _ => rfl
  | (k, v) :: t, h => by
    simp only [List.all_cons, Bool.and_eq_true] at h
    unfold lookupC
    have : (s == k) = false := by
      apply beq_eq_false_iff_ne.mpr
      intro e; subst e
      have := List.all_eq_true.mp h.1 c hc
      rw [hl] at this; cases this
    simp only [this, Bool.false_eq_true, if_false]
    exact lookupC_bad c hl s hc t h.2

theorem zOfElemSym_bad (c : Char) (hl : isLetter c = false) (s : List Char) (hc : c ∈ s) : zOfElemSym s = none := by
  unfold zOfElemSym
  have : elemFlags.find? (fun r => r.1 == s) = none := by
    apply List.find?_eq_none.mpr
    intro r hr
    have := List.all_eq_true.mp (List.all_eq_true.mp elemFlags_letters r hr) 
    simp only [beq_iff_eq]
    intro e; subst e
    have := this c hc
    rw [hl] at this; cases this
  rw [this]; rfl

theorem listElements_bad (c : Char) (hl : isLetter c = false) :
    ∀ es : List ElemTok, (∃ s, ElemTok.sym s ∈ es ∧ c ∈ s) → ∃ e, listElements es = .error e
  | [], ⟨_, h, _⟩ => by cases h
  | .num n :: t, ⟨s, hs, hc⟩ => by
    have hs' : ElemTok.sym s ∈ t := by
      rcases List.mem_cons.mp hs with e | m
      · cases e
      · exact m
    obtain ⟨e, he⟩ := listElements_bad c hl t ⟨s, hs', hc⟩
    unfold listElements
    split
    · exact ⟨e, by simp [he, bind, Except.bind]⟩
    · exact ⟨_, rfl⟩
  | .sym s0 :: t, ⟨s, hs, hc⟩ => by
    unfold listElements
    rcases List.mem_cons.mp hs with e | m
    · have e' : s = s0 := by injection e
      subst e'
      rw [zOfElemSym_bad c hl s hc]
      exact ⟨_, rfl⟩
    · cases hz : zOfElemSym s0 with
      | none => exact ⟨_, rfl⟩
      | some z =>
        obtain ⟨e, he⟩ := listElements_bad c hl t ⟨s, m, hc⟩
        exact ⟨e, by simp [he, bind, Except.bind]⟩

theorem resolveKind_bad (c : Char) (hb : isBad c = true) (p : Parsed) (h : ∃ s ∈ symsOf p.element, c ∈ s) :
    ∃ e, resolveKind p = .error e := by
  obtain ⟨hl, _⟩ := bad_ne hb
  obtain ⟨s, hs, hc⟩ := h
  unfold resolveKind
  cases he : p.element with
  | one tok =>
    cases tok with
    | num n => simp [he, symsOf] at hs
    | sym s' =>
      simp only [he, symsOf, List.mem_singleton] at hs
      subst hs
      have nA : (s == ['A']) = false := by
        apply beq_eq_false_iff_ne.mpr; intro e; subst e
        simp at hc; subst hc; revert hl; decide
      have nM : (s == ['M']) = false := by
        apply beq_eq_false_iff_ne.mpr; intro e; subst e
        simp at hc; subst hc; revert hl; decide
      simp only [nA, nM, Bool.false_eq_true, if_false]
      unfold zOfQuerySym
      rw [lookupC_bad c hl s hc querySyms querySyms_letters]
      exact ⟨_, rfl⟩
  | many es =>
    simp only [he, symsOf, List.mem_filterMap] at hs
    obtain ⟨tok, htok, hsome⟩ := hs
    have : ElemTok.sym s ∈ es := by
      cases tok with
      | num n => simp at hsome
      | sym s' => simp at hsome; subst hsome; exact htok
    obtain ⟨e, hle⟩ := listElements_bad c hl es ⟨s, this, hc⟩
    simp only [hle]
    exact ⟨e, rfl⟩

theorem buildAtom_bad (c : Char) (hb : isBad c = true) (p : Parsed) (r : Bool) (h : ∃ s ∈ symsOf p.element, c ∈ s) :
    ∃ e, buildAtom p r = .error e := by
  obtain ⟨e, he⟩ := resolveKind_bad c hb p h
  unfold buildAtom
  rw [he]
  exact ⟨e, rfl⟩

/-- `_query_parse` followed by the class construction never accepts a bracket content with a bad character -/
theorem queryParse_build_bad (c : Char) (hb : isBad c = true) (s : List Char) (hc : c ∈ s) (r : Bool) :
    (∃ e, queryParse s = .error e) ∨ (∃ p e, queryParse s = .ok p ∧ buildAtom p r = .error e) := by
  unfold queryParse
  cases hs : stripMarks s with
  | error e => left; exact ⟨e, rfl⟩
  | ok tm =>
    obtain ⟨t4, mk⟩ := tm
    simp only
    have h4 := stripMarks_keeps c hb s t4 mk hs hc
    cases hp : parseBody t4 mk with
    | error e => left; exact ⟨e, rfl⟩
    | ok p =>
      right
      obtain ⟨e, he⟩ := buildAtom_bad c hb p r (parseBody_bad c hb t4 mk p hp h4)
      exact ⟨p, e, rfl, he⟩

/-! ### lifting to `smarts('[' + s + ']')` -/

theorem tokLoop_inside (acc : List Char) :
    ∀ s : List Char, '[' ∉ s → ']' ∉ s →
      tokLoop { tt := .t5, chars := acc } s = .ok { tt := .t5, chars := s.reverse ++ acc }
  | [], _, _ => by simp [tokLoop]
  | x :: xs, h1, h2 => by
    have hx1 : x ≠ '[' := fun e => h1 (e ▸ List.mem_cons_self)
    have hx2 : x ≠ ']' := fun e => h2 (e ▸ List.mem_cons_self)
    have step : tokStep { tt := .t5, chars := acc } x = .ok { tt := .t5, chars := x :: acc } := by
      unfold tokStep
      have a1 : (x == '[') = false := by simp [hx1]
      have a2 : (x == ']') = false := by simp [hx2]
      simp [a1, a2]
    unfold tokLoop
    simp only [step, bind, Except.bind]
    rw [tokLoop_inside (x :: acc) xs (fun h => h1 (List.mem_cons_of_mem _ h)) (fun h => h2 (List.mem_cons_of_mem _ h))]
    simp

theorem tokLoop_append : ∀ (a b : List Char) (st : TState),
    tokLoop st (a ++ b) = (match tokLoop st a with | .ok st' => tokLoop st' b | .error e => .error e)
  | [], b, st => by simp [tokLoop]
  | x :: xs, b, st => by
    simp only [List.cons_append, tokLoop, bind, Except.bind]
    cases tokStep st x with
    | error e => rfl
    | ok st' => exact tokLoop_append xs b st'

theorem tokenize_single (s : List Char) (hne : s ≠ []) (h1 : '[' ∉ s) (h2 : ']' ∉ s) :
    tokenizeQ ('[' :: s ++ [']']) = .ok [.atom s] := by
  unfold tokenizeQ
  have h0 : tokStep {} '[' = .ok { tt := .t5, chars := [] } := by
    unfold tokStep; simp
  have hl : tokLoop {} ('[' :: s ++ [']']) = .ok { tt := .t0, toks := [.atom s] } := by
    show tokLoop {} ('[' :: (s ++ [']'])) = _
    unfold tokLoop
    simp only [h0, bind, Except.bind]
    rw [tokLoop_append, tokLoop_inside [] s h1 h2]
    simp only [List.append_nil]
    unfold tokLoop
    have : tokStep { tt := .t5, chars := s.reverse } ']' = .ok { tt := .t0, toks := [.atom s] } := by
      unfold tokStep
      have e : s.reverse.isEmpty = false := by
        cases hs : s.reverse with
        | nil => exact absurd (List.reverse_eq_nil_iff.mp hs) hne
        | cons _ _ => rfl
      simp [e]
    simp only [this, bind, Except.bind, tokLoop]
  simp only [hl, bind, Except.bind]
  simp

/-- **a bracket atom containing a character that no documented construct uses is rejected** (whatever else it contains) -/
theorem bad_char_inner_rejected (c : Char) (hb : isBad c = true) (s : List Char) (hc : c ∈ s)
    (h1 : '[' ∉ s) (h2 : ']' ∉ s) (rad : List Nat) : ∃ e, smartsInner ('[' :: s ++ [']']) rad = .err e := by
  have hne : s ≠ [] := by intro e; subst e; cases hc
  unfold smartsInner
  rw [tokenize_single s hne h1 h2]
  simp only [smartsTokens]
  rcases queryParse_build_bad c hb s hc (rad.contains 0) with ⟨e, he⟩ | ⟨p, e, hp, hbuild⟩
  · simp only [he, bind, Except.bind]; exact ⟨e, rfl⟩
  · simp only [hp, bind, Except.bind, parseLoop, parseStep, List.length_nil, beq_self_eq_true, if_true]
    simp only [bne_self_eq_false, Bool.false_eq_true, if_false, List.reverse_cons, List.reverse_nil, List.nil_append,
               List.length_singleton]
    split
    · exact ⟨_, rfl⟩
    · have hnum : ∃ n, numberAtoms [p] (List.foldl (fun a p => max a (p.mapping.getD 0)) 0 [p] + 1) 1 = [n] := by
        unfold numberAtoms
        split <;> (try split) <;> (try split) <;> simp [numberAtoms]
      obtain ⟨n, hn⟩ := hnum
      rw [hn]
      simp only [buildAtoms, hbuild, bind, Except.bind]
      exact ⟨e, rfl⟩

/-- an OR list whose alternatives are not all of one primitive kind is never accepted, whatever its length and wherever the odd
    item stands -/
theorem applyNumPrim_mixed (out : Parsed) (ps : List (List Char)) (f g : Char) (r1 r2 : List Char)
    (hx : (f :: r1) ∈ ps) (hy : (g :: r2) ∈ ps) (hfg : f ≠ g) : ∀ o, applyNumPrim out ps ≠ .ok o := by
  intro o he
  have hlen : (ps.length != 1) = true := by
    cases ps with
    | nil => cases hx
    | cons a t =>
      cases t with
      | nil =>
        simp only [List.mem_singleton] at hx hy
        rw [← hx] at hy
        injection hy with e _
        exact absurd e.symm hfg
      | cons _ _ => simp
  unfold applyNumPrim at he
  simp only [hlen, if_true, Bool.true_and] at he
  split at he
  · cases he
  · rename_i fcs hfc
    split at he
    · cases he
    · rename_i hsame
      simp only [Bool.not_eq_true', Bool.not_eq_false'] at hsame
      have hf := firstChars_mem ps fcs hfc f r1 hx
      have hg := firstChars_mem ps fcs hfc g r2 hy
      cases fcs with
      | nil => cases hf
      | cons t tl =>
        have hs : allSame (t :: tl) = true := by
          cases h : allSame (t :: tl) with
          | true => rfl
          | false => exact absurd h hsame
        have e1 := allSame_mem t tl hs f hf
        have e2 := allSame_mem t tl hs g hg
        exact hfg (e1.trans e2.symm)

end ChythonModel.Proofs.C08
