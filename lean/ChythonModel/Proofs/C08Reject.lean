import ChythonModel.Model.SmartsParse
/-!
# C08 — characters that no documented construct uses are never consumed by the reader, so the atom is rejected

`isBad c`: `c` is not a letter, not a digit, not white space and none of `# , ; ! + - : @ ? _`
(so `& $ * ( ) = ~ % . / \ ^ < > { } | " '` … are bad).
-/
namespace ChythonModel.Proofs.C08
open ChythonModel.Model.Query ChythonModel.Gen.Query

def isLetter (c : Char) : Bool := ('a' ≤ c && c ≤ 'z') || ('A' ≤ c && c ≤ 'Z')

def isBad (c : Char) : Bool :=
  !isLetter c && !isDigit c && !isPySpace c &&
  !(c == '#' || c == ',' || c == ';' || c == '!' || c == '+' || c == '-' || c == ':' || c == '@' || c == '?' || c == '_')

/-! ### the scanners keep bad characters -/

theorem bad_not_digit {c : Char} (h : isBad c = true) : isDigit c = false := by
  unfold isBad at h; simp only [Bool.and_eq_true, Bool.not_eq_true'] at h; exact h.1.1.2

theorem spanDigits_keeps (c : Char) (hb : isBad c = true) : ∀ s : List Char, c ∈ s → c ∈ (spanDigits s).2
  | [], h => by cases h
  | x :: xs, h => by
    unfold spanDigits
    by_cases hx : isDigit x = true
    · simp only [hx, if_true]
      have hne : c ≠ x := by
        intro e; subst e; rw [bad_not_digit hb] at hx; cases hx
      rcases List.mem_cons.mp h with e | m
      · exact absurd e hne
      · exact spanDigits_keeps c hb xs m
    · simp only [hx]; exact h

theorem chgSearch_keeps (c : Char) (hb : isBad c = true) :
    ∀ s : List Char, c ∈ s → ∀ b m a, chgSearch s = some (b, m, a) → c ∈ b ++ a
  | [], h, _, _, _, _ => by cases h
  | x :: xs, h, b, m, a, he => by
    have hbad := hb
    unfold isBad at hbad
    simp only [Bool.and_eq_true, Bool.not_eq_true', Bool.or_eq_false_iff, beq_eq_false_iff_ne, ne_eq] at hbad
    obtain ⟨⟨⟨_, hdig⟩, _⟩, ⟨⟨⟨⟨⟨⟨⟨⟨⟨_, _⟩, _⟩, _⟩, hplus⟩, hminus⟩, _⟩, _⟩, _⟩, _⟩⟩ := hbad
    unfold chgSearch at he
    by_cases hx : (x == '+' || x == '-') = true
    · simp only [hx, if_true] at he
      have hcx : c ≠ x := by
        intro e; subst e
        simp only [Bool.or_eq_true, beq_iff_eq] at hx
        rcases hx with e | e
        · exact hplus e
        · exact hminus e
      have hxs : c ∈ xs := by
        rcases List.mem_cons.mp h with e | m'
        · exact absurd e hcx
        · exact m'
      cases xs with
      | nil => cases hxs
      | cons d ds =>
        simp only at he
        split at he
        · rename_i hd
          cases he
          have hcd : c ≠ d := by
            intro e; subst e
            simp only [Bool.or_eq_true, beq_iff_eq] at hd
            have h1 : isDigit c = true := by
              rcases hd with ((((e | e) | e) | e) | e) | e
              · subst e; decide
              · subst e; decide
              · subst e; decide
              · subst e; decide
              · exact absurd e hplus
              · exact absurd e hminus
            rw [hdig] at h1; cases h1
          rcases List.mem_cons.mp hxs with e | m'
          · exact absurd e hcd
          · simpa using m'
        · cases he; simpa using hxs
    · simp only [hx] at he
      cases hr : chgSearch xs with
      | none => simp [hr] at he
      | some t =>
        obtain ⟨b', m', a'⟩ := t
        simp only [hr, Option.map_some, Option.some.injEq, Prod.mk.injEq, Bool.false_eq_true, if_false] at he
        obtain ⟨h1, _, h3⟩ := he
        rw [← h1, ← h3]
        rcases List.mem_cons.mp h with e | mm
        · subst e; simp
        · have := chgSearch_keeps c hb xs mm b' m' a' hr
          simp only [List.cons_append, List.mem_cons]; right; exact this

theorem strSearch_keeps (c : Char) (hb : isBad c = true) :
    ∀ s : List Char, c ∈ s → ∀ b m a, strSearch s = some (b, m, a) → c ∈ b ++ a
  | [], h, _, _, _, _ => by cases h
  | x :: xs, h, b, m, a, he => by
    have hbad := hb
    unfold isBad at hbad
    simp only [Bool.and_eq_true, Bool.not_eq_true', Bool.or_eq_false_iff, beq_eq_false_iff_ne, ne_eq] at hbad
    obtain ⟨_, ⟨⟨⟨⟨⟨⟨⟨⟨⟨_, _⟩, _⟩, _⟩, _⟩, _⟩, _⟩, hat⟩, hq⟩, _⟩⟩ := hbad
    unfold strSearch at he
    by_cases hx : (x == '@') = true
    · simp only [hx, if_true] at he
      have hcx : c ≠ x := by
        intro e; subst e
        exact hat (beq_iff_eq.mp hx)
      have hxs : c ∈ xs := by
        rcases List.mem_cons.mp h with e | m'
        · exact absurd e hcx
        · exact m'
      cases xs with
      | nil => cases hxs
      | cons d ds =>
        simp only at he
        split at he
        · rename_i hd
          cases he
          have hcd : c ≠ d := by
            intro e; subst e
            simp only [Bool.or_eq_true, beq_iff_eq] at hd
            rcases hd with e | e
            · exact hat e
            · exact hq e
          rcases List.mem_cons.mp hxs with e | m'
          · exact absurd e hcd
          · simpa using m'
        · cases he; simpa using hxs
    · simp only [hx] at he
      cases hr : strSearch xs with
      | none => simp [hr] at he
      | some t =>
        obtain ⟨b', m', a'⟩ := t
        simp only [hr, Option.map_some, Option.some.injEq, Prod.mk.injEq, Bool.false_eq_true, if_false] at he
        obtain ⟨h1, _, h3⟩ := he
        rw [← h1, ← h3]
        rcases List.mem_cons.mp h with e | mm
        · subst e; simp
        · have := strSearch_keeps c hb xs mm b' m' a' hr
          simp only [List.cons_append, List.mem_cons]; right; exact this

theorem mppSearch_keeps (c : Char) (hb : isBad c = true) :
    ∀ s : List Char, c ∈ s → ∀ b n, mppSearch s = some (b, n) → c ∈ b
  | [], h, _, _, _ => by cases h
  | x :: xs, h, b, n, he => by
    have hbad := hb
    unfold isBad at hbad
    simp only [Bool.and_eq_true, Bool.not_eq_true', Bool.or_eq_false_iff, beq_eq_false_iff_ne, ne_eq] at hbad
    obtain ⟨⟨⟨_, hdig⟩, _⟩, ⟨⟨⟨⟨⟨⟨⟨⟨⟨_, _⟩, _⟩, _⟩, _⟩, _⟩, hcolon⟩, _⟩, _⟩, _⟩⟩ := hbad
    unfold mppSearch at he
    by_cases hcond : (x == ':' && mppTail xs) = true
    · -- the whole rest is `:` followed by digits: a bad character cannot be there
      exfalso
      simp only [Bool.and_eq_true, beq_iff_eq] at hcond
      obtain ⟨hx, hrest⟩ := hcond
      rcases List.mem_cons.mp h with e | m'
      · exact hcolon (e.trans hx)
      · cases xs with
        | nil => cases m'
        | cons d ds =>
          simp only [mppTail, Bool.and_eq_true, decide_eq_true_eq, List.all_eq_true] at hrest
          rcases List.mem_cons.mp m' with e | m''
          · subst e
            have : isDigit c = true := by
              unfold isDigit
              simp only [Bool.and_eq_true, decide_eq_true_eq]
              exact ⟨Char.le_trans (by decide : '0' ≤ '1') hrest.1.1, hrest.1.2⟩
            rw [hdig] at this; cases this
          · have := hrest.2 c m''
            rw [hdig] at this; cases this
    · rw [if_neg hcond] at he
      cases hr : mppSearch xs with
      | none => simp [hr] at he
      | some t =>
        obtain ⟨b', n'⟩ := t
        simp only [hr, Option.map_some, Option.some.injEq, Prod.mk.injEq] at he
        obtain ⟨h1, _⟩ := he
        rw [← h1]
        rcases List.mem_cons.mp h with e | mm
        · subst e; simp
        · exact List.mem_cons_of_mem _ (mppSearch_keeps c hb xs mm b' n' hr)

theorem splitOn_keeps (sep c : Char) (hne : c ≠ sep) :
    ∀ s : List Char, c ∈ s → ∃ p ∈ splitOn sep s, c ∈ p
  | [], h => by cases h
  | x :: xs, h => by
    unfold splitOn
    cases hs : splitOn sep xs with
    | nil =>
      -- splitOn never returns []
      exfalso
      have : ∀ l : List Char, splitOn sep l ≠ [] := by
        intro l
        induction l with
        | nil => simp [splitOn]
        | cons y ys ih =>
          unfold splitOn
          cases h' : splitOn sep ys with
          | nil => exact absurd h' ih
          | cons hd tl => simp only; split <;> simp
      exact this xs hs
    | cons hd tl =>
      simp only
      rcases List.mem_cons.mp h with e | m
      · subst e
        have : (c == sep) = false := by simp [hne]
        simp only [this, Bool.false_eq_true, if_false]
        exact ⟨c :: hd, by simp, by simp⟩
      · obtain ⟨p, hp, hcp⟩ := splitOn_keeps sep c hne xs m
        rw [hs] at hp
        split
        · exact ⟨p, List.mem_cons_of_mem _ hp, hcp⟩
        · rcases List.mem_cons.mp hp with e | m'
          · subst e; exact ⟨x :: p, by simp, List.mem_cons_of_mem _ hcp⟩
          · exact ⟨p, List.mem_cons_of_mem _ m', hcp⟩

/-! ### `int()` refuses text with a bad character -/

theorem bad_ne {c : Char} (hb : isBad c = true) :
    isLetter c = false ∧ isDigit c = false ∧ isPySpace c = false ∧ c ≠ '#' ∧ c ≠ ',' ∧ c ≠ ';' ∧ c ≠ '!' ∧ c ≠ '+' ∧ c ≠ '-' ∧
    c ≠ ':' ∧ c ≠ '@' ∧ c ≠ '?' ∧ c ≠ '_' := by
  unfold isBad at hb
  simp only [Bool.and_eq_true, Bool.not_eq_true', Bool.or_eq_false_iff, beq_eq_false_iff_ne, ne_eq] at hb
  obtain ⟨⟨⟨h1, h2⟩, h3⟩, ⟨⟨⟨⟨⟨⟨⟨⟨⟨a1, a2⟩, a3⟩, a4⟩, a5⟩, a6⟩, a7⟩, a8⟩, a9⟩, a10⟩⟩ := hb
  exact ⟨h1, h2, h3, a1, a2, a3, a4, a5, a6, a7, a8, a9, a10⟩

theorem digitsU_bad (c : Char) (hb : isBad c = true) : ∀ (r : List Char) (prev : Bool) (acc : Nat), c ∈ r → digitsU r prev acc = none
  | [], _, _, h => by cases h
  | x :: xs, prev, acc, h => by
    obtain ⟨_, hd, _, _, _, _, _, _, _, _, _, _, hu⟩ := bad_ne hb
    unfold digitsU
    by_cases hx : isDigit x = true
    · simp only [hx, if_true]
      rcases List.mem_cons.mp h with e | m
      · subst e; rw [hd] at hx; cases hx
      · exact digitsU_bad c hb xs true _ m
    · simp only [hx, Bool.false_eq_true, if_false]
      by_cases hux : (x == '_' && prev) = true
      · simp only [hux, if_true]
        have hcx : c ≠ x := by
          intro e; subst e
          simp only [Bool.and_eq_true, beq_iff_eq] at hux
          exact hu hux.1
        have hm : c ∈ xs := by
          rcases List.mem_cons.mp h with e | m
          · exact absurd e hcx
          · exact m
        cases xs with
        | nil => rfl
        | cons d ds =>
          simp only
          split
          · exact digitsU_bad c hb (d :: ds) false acc hm
          · rfl
      · simp only [hux, Bool.false_eq_true, if_false]

theorem dropSpaces_keeps (c : Char) (hs : isPySpace c = false) : ∀ s : List Char, c ∈ s → c ∈ dropSpaces s
  | [], h => by cases h
  | x :: xs, h => by
    unfold dropSpaces
    by_cases hx : isPySpace x = true
    · simp only [hx, if_true]
      rcases List.mem_cons.mp h with e | m
      · subst e; rw [hs] at hx; cases hx
      · exact dropSpaces_keeps c hs xs m
    · simp only [hx]; exact h

theorem pyInt_bad (c : Char) (hb : isBad c = true) (r : List Char) (h : c ∈ r) : pyInt r = none := by
  obtain ⟨_, _, hsp, _, _, _, _, hplus, hminus, _, _, _, _⟩ := bad_ne hb
  unfold pyInt
  have hm : c ∈ (dropSpaces (dropSpaces r).reverse).reverse := by
    apply List.mem_reverse.mpr
    apply dropSpaces_keeps c hsp
    apply List.mem_reverse.mpr
    exact dropSpaces_keeps c hsp r h
  generalize (dropSpaces (dropSpaces r).reverse).reverse = t at hm
  simp only
  split
  · rename_i r' 
    have : c ∈ r' := by
      rcases List.mem_cons.mp hm with e | m
      · exact absurd e hplus
      · exact m
    simp [digitsU_bad c hb r' false 0 this]
  · rename_i r'
    have : c ∈ r' := by
      rcases List.mem_cons.mp hm with e | m
      · exact absurd e hminus
      · exact m
    simp [digitsU_bad c hb r' false 0 this]
  · simp [digitsU_bad c hb _ false 0 hm]

/-! ### element items and primitives -/

def symsOf : ElemSpec → List (List Char)
  | .one (.sym s) => [s]
  | .one (.num _) => []
  | .many es => es.filterMap fun | .sym s => some s | .num _ => none

theorem parseElemItems_bad (c : Char) (hb : isBad c = true) :
    ∀ (items : List (List Char)) (toks : List ElemTok), parseElemItems items = .ok toks →
      ∀ x ∈ items, c ∈ x → ∃ s, ElemTok.sym s ∈ toks ∧ c ∈ s
  | [], _, _, x, hx, _ => by cases hx
  | it :: rest, toks, he, x, hx, hc => by
    obtain ⟨_, _, _, hhash, _⟩ := bad_ne hb
    unfold parseElemItems at he
    split at he
    · -- '#' :: r
      rename_i r
      cases hp : pyInt r with
      | none => simp [hp] at he
      | some n =>
        simp only [hp] at he
        cases hr : parseElemItems rest with
        | error e => simp [hr, bind, Except.bind] at he
        | ok t =>
          simp only [hr, bind, Except.bind] at he
          cases he
          rcases List.mem_cons.mp hx with e | m
          · subst e
            have : c ∈ r := by
              rcases List.mem_cons.mp hc with e | m'
              · exact absurd e hhash
              · exact m'
            rw [pyInt_bad c hb r this] at hp; cases hp
          · obtain ⟨s, hs, hcs⟩ := parseElemItems_bad c hb rest t hr x m hc
            exact ⟨s, List.mem_cons_of_mem _ hs, hcs⟩
    · cases hr : parseElemItems rest with
      | error e => simp [hr, bind, Except.bind] at he
      | ok t =>
        simp only [hr, bind, Except.bind] at he
        cases he
        rcases List.mem_cons.mp hx with e | m
        · subst e; exact ⟨x, by simp, hc⟩
        · obtain ⟨s, hs, hcs⟩ := parseElemItems_bad c hb rest t hr x m hc
          exact ⟨s, List.mem_cons_of_mem _ hs, hcs⟩

theorem mem_symsOf_mkElem (toks : List ElemTok) (s : List Char) (h : ElemTok.sym s ∈ toks) : s ∈ symsOf (mkElem toks) := by
  unfold mkElem
  split
  · rename_i x
    simp only [List.mem_singleton] at h
    subst h
    simp [symsOf]
  · simp only [symsOf, List.mem_filterMap]
    exact ⟨.sym s, h, rfl⟩

end ChythonModel.Proofs.C08
