import ChythonModel.Proofs.C01RenameDiff
/-!
Exact naturality of `cumulenes`, `stereogenic_cumulenes` and the dicts derived from it (`tablesOf`) under a pure renaming
of the atoms; with `C01RenameDiff.lean` this gives the naturality of the whole `chiralFull`.
-/
namespace ChythonModel.Proofs.C01
open ChythonModel.Model ChythonModel.Model.Morgan ChythonModel.Model.Stereo ChythonModel.Model.ChiralMorgan
open ChythonModel.Model.ChiralFull ChythonModel.Spec.Renumbering
open List

def renDAdj (π : Nat → Nat) (adj : DAdj) : DAdj := adj.map fun r => (π r.1, r.2.map π)

/-! ## `cumulenes` -/

theorem dblNbrs_rename (dbl : Nat → Bool) {π : Nat → Nat} (hπ : Function.Injective π) (m : MolView)
    (row : List (Nat × Bond)) :
    dblNbrs dbl (renMol π m) (mapKeys π row) = (dblNbrs dbl m row).map (List.map π) := by
  induction row with
  | nil => rfl
  | cons xb tl ih =>
    simp only [mapKeys, map_cons] at ih ⊢
    simp only [dblNbrs]
    split
    · rw [getKey_atoms_rename hπ, ih]
      cases getKey m.atoms xb.1 with
      | error e => rfl
      | ok a =>
        simp only
        cases dblNbrs dbl m tl with
        | error e => rfl
        | ok r => simp only [Except.map]; split <;> rfl
    · exact ih

theorem dblAdj_rename (dbl : Nat → Bool) {π : Nat → Nat} (hπ : Function.Injective π) (m : MolView)
    (atoms : List (Nat × HAtom)) :
    dblAdj dbl (renMol π m) (mapKeys π atoms) = (dblAdj dbl m atoms).map (renDAdj π) := by
  induction atoms with
  | nil => rfl
  | cons na tl ih =>
    simp only [mapKeys, map_cons] at ih ⊢
    simp only [dblAdj]
    split
    · rw [nbrsOf_rename hπ]
      cases nbrsOf m na.1 with
      | error e => rfl
      | ok row =>
        simp only [Except.map]
        rw [dblNbrs_rename dbl hπ, ih]
        cases dblNbrs dbl m row with
        | error e => rfl
        | ok ys =>
          simp only [Except.map]
          cases dblAdj dbl m tl with
          | error e => rfl
          | ok r => rfl
    · exact ih

theorem rowOf_rename {π : Nat → Nat} (hπ : Function.Injective π) (adj : DAdj) (k : Nat) :
    rowOf (renDAdj π adj) (π k) = (rowOf adj k).map π := by
  unfold rowOf renDAdj
  rw [lookup_map_key hπ (List.map π)]
  cases adj.lookup k <;> rfl

theorem setRow_rename {π : Nat → Nat} (hπ : Function.Injective π) (adj : DAdj) (k : Nat) (row : List Nat) :
    setRow (renDAdj π adj) (π k) (row.map π) = renDAdj π (setRow adj k row) := by
  unfold setRow renDAdj
  simp only [map_map, Function.comp_def, beq_rename hπ]
  apply map_congr_left
  intro r _
  split <;> rfl

theorem popOnly_map (π : Nat → Nat) (l : List Nat) : popOnly (l.map π) = (popOnly l).map π := by
  match l with
  | [] => rfl
  | [_] => rfl
  | _ :: _ :: _ => rfl

theorem filter_ne_map {π : Nat → Nat} (hπ : Function.Injective π) (l : List Nat) (n : Nat) :
    (l.map π).filter (· != π n) = (l.filter (· != n)).map π := by
  simp only [filter_map, Function.comp_def, bne, beq_rename hπ]

theorem adjSize_rename (π : Nat → Nat) (adj : DAdj) : adjSize (renDAdj π adj) = adjSize adj := by
  simp [adjSize, renDAdj, map_map, Function.comp_def]

def renWalkEnd (π : Nat → Nat) : WalkEnd → WalkEnd
  | .closed path last adj => .closed (path.map π) (π last) (renDAdj π adj)
  | .broke path adj => .broke (path.map π) (renDAdj π adj)

theorem walk_rename {π : Nat → Nat} (hπ : Function.Injective π) (mol : MolView) (terminals : List Nat) :
    ∀ (fuel : Nat) (adj : DAdj) (n m : Nat) (path : List Nat),
      walk (renMol π mol) (terminals.map π) fuel (renDAdj π adj) (π n) (π m) (path.map π) =
        (walk mol terminals fuel adj n m path).map (renWalkEnd π) := by
  intro fuel
  induction fuel with
  | zero => intro _ _ _ _; rfl
  | succ fuel ih =>
    intro adj n m path
    simp only [walk, contains_map_inj π hπ, nbrsOf_rename hπ]
    split
    · rfl
    · cases nbrsOf mol m with
      | error e => rfl
      | ok row =>
        simp only [Except.map, length_mapKeys]
        split
        · rfl
        · rw [rowOf_rename hπ, filter_ne_map hπ, popOnly_map]
          cases popOnly ((rowOf adj m).filter (· != n)) with
          | error s => rfl
          | ok m2 =>
            simp only [Except.map]
            have hs : setRow (renDAdj π adj) (π m) [] = renDAdj π (setRow adj m []) := setRow_rename hπ adj m []
            have hp : path.map π ++ [π m2] = (path ++ [m2]).map π := by simp
            rw [hs, hp]
            exact ih _ _ _ _

theorem pairsOf_map (π : Nat → Nat) : ∀ (l : List Nat), pairsOf (l.map π) = (pairsOf l).map (List.map π)
  | [] => rfl
  | [_] => rfl
  | a :: b :: tl => by
    have ih := pairsOf_map π (b :: tl)
    simp only [map_cons] at ih ⊢
    simp only [pairsOf, ih, map_cons, map_nil]

theorem erase_map_inj {π : Nat → Nat} (hπ : Function.Injective π) (l : List Nat) (x : Nat) :
    (l.map π).erase (π x) = (l.erase x).map π := by
  induction l with
  | nil => rfl
  | cons a tl ih =>
    simp only [map_cons, erase_cons, beq_rename hπ]
    split
    · rfl
    · simp [ih]

theorem cumLoop_rename {π : Nat → Nat} (hπ : Function.Injective π) (mol : MolView) :
    ∀ (fuel : Nat) (terminals : List Nat) (adj : DAdj) (acc : List (List Nat)),
      cumLoop (renMol π mol) fuel (terminals.map π) (renDAdj π adj) (acc.map (List.map π)) =
        (cumLoop mol fuel terminals adj acc).map (List.map (List.map π)) := by
  intro fuel
  induction fuel with
  | zero =>
    intro terminals adj acc
    cases terminals <;> rfl
  | succ fuel ih =>
    intro terminals adj acc
    cases terminals with
    | nil => rfl
    | cons n tl =>
      simp only [map_cons, cumLoop, rowOf_rename hπ, popOnly_map]
      cases popOnly (rowOf adj n) with
      | error s => rfl
      | ok m =>
        simp only [Except.map]
        have hs : setRow (renDAdj π adj) (π n) [] = renDAdj π (setRow adj n []) := setRow_rename hπ adj n []
        have hw := walk_rename hπ mol tl (adjSize (setRow adj n []) + 1) (setRow adj n []) n m [n, m]
        simp only [map_cons, map_nil] at hw
        rw [hs, adjSize_rename, hw]
        cases walk mol tl (adjSize (setRow adj n []) + 1) (setRow adj n []) n m [n, m] with
        | error s => rfl
        | ok we =>
          cases we with
          | broke path adj2 =>
            simp only [Except.map, renWalkEnd]
            have : acc.map (List.map π) ++ pairsOf (path.map π) = (acc ++ pairsOf path).map (List.map π) := by
              simp [pairsOf_map]
            rw [this]
            exact ih _ _ _
          | closed path last adj2 =>
            simp only [Except.map, renWalkEnd, rowOf_rename hπ, popOnly_map]
            cases popOnly (rowOf adj2 last) with
            | error s => rfl
            | ok x =>
              simp only
              have h1 : (tl.map π).erase (π last) = (tl.erase last).map π := erase_map_inj hπ tl last
              have h2 : setRow (renDAdj π adj2) (π last) [] = renDAdj π (setRow adj2 last []) := setRow_rename hπ adj2 last []
              have h3 : acc.map (List.map π) ++ [path.map π] = (acc ++ [path]).map (List.map π) := by simp
              rw [h1, h2, h3]
              exact ih _ _ _

theorem cumulenes_rename (dbl : Nat → Bool) {π : Nat → Nat} (hπ : Function.Injective π) (mol : MolView) :
    cumulenes dbl (renMol π mol) = (cumulenes dbl mol).map (List.map (List.map π)) := by
  unfold cumulenes
  have h0 : dblAdj dbl (renMol π mol) (renMol π mol).atoms = (dblAdj dbl mol mol.atoms).map (renDAdj π) :=
    dblAdj_rename dbl hπ mol mol.atoms
  rw [h0]
  cases dblAdj dbl mol mol.atoms with
  | error e => rfl
  | ok adj =>
    simp only [Except.map]
    have he : (renDAdj π adj).isEmpty = adj.isEmpty := by cases adj <;> rfl
    rw [he]
    split
    · rfl
    · have ht : ((renDAdj π adj).filter fun r => r.2.length == 1).map (·.1) =
          ((adj.filter fun r => r.2.length == 1).map (·.1)).map π := by
        simp [renDAdj, filter_map, map_map, Function.comp_def]
      rw [ht, length_map]
      exact cumLoop_rename hπ mol _ _ adj []

/-! ## `stereogenic_cumulenes` -/

theorem exAnyM_map {α β : Type} (f : α → β) (p : α → Except PyErr Bool) (p' : β → Except PyErr Bool)
    (hp : ∀ a, p' (f a) = p a) (l : List α) : exAnyM p' (l.map f) = exAnyM p l := by
  induction l with
  | nil => rfl
  | cons a tl ih =>
    simp only [map_cons, exAnyM, bind, Except.bind, hp]
    cases p a with
    | error e => rfl
    | ok b => cases b <;> simp [ih]

theorem badNbr_rename (single : Nat → Bool) {π : Nat → Nat} (hπ : Function.Injective π) (m : MolView) (skip : Nat)
    (xb : Nat × Bond) : badNbr single (renMol π m) (π skip) (π xb.1, xb.2) = badNbr single m skip xb := by
  unfold badNbr
  simp only [beq_rename hπ, getKey_atoms_rename hπ]

theorem heavyNbr_rename {π : Nat → Nat} (hπ : Function.Injective π) (m : MolView) (skip : Nat)
    (xb : Nat × Bond) : heavyNbr (renMol π m) (π skip) (π xb.1, xb.2) = heavyNbr m skip xb := by
  unfold heavyNbr
  simp only [beq_rename hπ, getKey_atoms_rename hπ]

theorem second?_map (π : Nat → Nat) (l : List Nat) : second? (l.map π) = (second? l).map π := by
  match l with
  | [] => rfl
  | [_] => rfl
  | [_, _] => rfl
  | _ :: _ :: _ :: _ => rfl

theorem stereogenicEnds_rename (single : Nat → Bool) {π : Nat → Nat} (hπ : Function.Injective π) (m : MolView)
    (p0 p1 l0 l1 : Nat) :
    stereogenicEnds single (renMol π m) (π p0) (π p1) (π l0) (π l1) =
      (stereogenicEnds single m p0 p1 l0 l1).map (Option.map (renEnds π)) := by
  unfold stereogenicEnds
  rw [nbrsOf_rename hπ, nbrsOf_rename hπ]
  cases nbrsOf m p0 with
  | error e => rfl
  | ok nf =>
    cases nbrsOf m l0 with
    | error e => rfl
    | ok nl =>
      simp only [Except.map, mapKeys]
      rw [exAnyM_map (fun xb : Nat × Bond => (π xb.1, xb.2)) (badNbr single m p1) (badNbr single (renMol π m) (π p1))
        (fun xb => badNbr_rename single hπ m p1 xb)]
      cases exAnyM (badNbr single m p1) nf with
      | error e => rfl
      | ok b1 =>
        cases b1 with
        | true => rfl
        | false =>
          simp only
          rw [exAnyM_map (fun xb : Nat × Bond => (π xb.1, xb.2)) (badNbr single m l1) (badNbr single (renMol π m) (π l1))
            (fun xb => badNbr_rename single hπ m l1 xb)]
          cases exAnyM (badNbr single m l1) nl with
          | error e => rfl
          | ok b2 =>
            cases b2 with
            | true => rfl
            | false =>
              simp only
              rw [exFilterM_map (fun xb : Nat × Bond => (π xb.1, xb.2)) (heavyNbr m p1) (heavyNbr (renMol π m) (π p1))
                  (fun xb => heavyNbr_rename hπ m p1 xb),
                exFilterM_map (fun xb : Nat × Bond => (π xb.1, xb.2)) (heavyNbr m l1) (heavyNbr (renMol π m) (π l1))
                  (fun xb => heavyNbr_rename hπ m l1 xb)]
              cases exFilterM (heavyNbr m p1) nf with
              | error e => rfl
              | ok nn =>
                cases exFilterM (heavyNbr m l1) nl with
                | error e => rfl
                | ok mn =>
                  simp only [Except.map, map_map, Function.comp_def]
                  cases hnn : nn.map (·.1) with
                  | nil =>
                    have : nn.map (fun x => π x.1) = [] := by
                      have := congrArg (List.map π) hnn; simpa [map_map, Function.comp_def] using this
                    simp only [this]; rfl
                  | cons a as =>
                    have h1 : nn.map (fun x => π x.1) = π a :: as.map π := by
                      have := congrArg (List.map π) hnn; simpa [map_map, Function.comp_def] using this
                    cases hmn : mn.map (·.1) with
                    | nil =>
                      have : mn.map (fun x => π x.1) = [] := by
                        have := congrArg (List.map π) hmn; simpa [map_map, Function.comp_def] using this
                      simp only [h1, this]; rfl
                    | cons b bs =>
                      have h2 : mn.map (fun x => π x.1) = π b :: bs.map π := by
                        have := congrArg (List.map π) hmn; simpa [map_map, Function.comp_def] using this
                      simp only [h1, h2]
                      have s1 := second?_map π (a :: as)
                      have s2 := second?_map π (b :: bs)
                      simp only [map_cons] at s1 s2
                      simp only [s1, s2, Option.map_some, renEnds]

theorem stereogenicPath_rename (single : Nat → Bool) {π : Nat → Nat} (hπ : Function.Injective π) (m : MolView)
    (path : List Nat) :
    stereogenicPath single (renMol π m) (path.map π) = (stereogenicPath single m path).map (Option.map (renEnds π)) := by
  unfold stereogenicPath
  rw [← map_reverse]
  generalize path.reverse = rp
  match path, rp with
  | [], _ => rfl
  | [_], _ => rfl
  | _ :: _ :: _, [] => rfl
  | _ :: _ :: _, [_] => rfl
  | p0 :: p1 :: _, l0 :: l1 :: _ => exact stereogenicEnds_rename single hπ m p0 p1 l0 l1

theorem stereogenicCumulenes_rename (single : Nat → Bool) {π : Nat → Nat} (hπ : Function.Injective π) (m : MolView)
    (paths : List (List Nat)) :
    stereogenicCumulenes single (renMol π m) (paths.map (List.map π)) =
      (stereogenicCumulenes single m paths).map (renSc π) := by
  induction paths with
  | nil => rfl
  | cons path tl ih =>
    simp only [map_cons, stereogenicCumulenes, stereogenicPath_rename single hπ, ih]
    cases stereogenicPath single m path with
    | error e => rfl
    | ok x =>
      cases stereogenicCumulenes single m tl with
      | error e => rfl
      | ok r => cases x <;> rfl

/-! ## the dicts built from `stereogenic_cumulenes` -/

theorem dictSet_map {κ κ' ν ν' : Type} [BEq κ] [LawfulBEq κ] [BEq κ'] [LawfulBEq κ'] (f : κ → κ')
    (hf : Function.Injective f) (g : ν → ν') (d : List (κ × ν)) (k : κ) (v : ν) :
    dictSet (d.map fun kv => (f kv.1, g kv.2)) (f k) (g v) = (dictSet d k v).map fun kv => (f kv.1, g kv.2) := by
  have hbeq : ∀ a b : κ, (f a == f b) = (a == b) := by
    intro a b
    rw [Bool.eq_iff_iff]; simp only [beq_iff_eq]
    exact ⟨fun h => hf h, fun h => h ▸ rfl⟩
  unfold dictSet
  simp only [any_map, Function.comp_def, hbeq]
  split
  · simp only [map_map, Function.comp_def, hbeq]
    apply map_congr_left
    intro kv _
    split <;> rfl
  · simp

theorem stereogenicPath_ok_length (single : Nat → Bool) (m : MolView) (path : List Nat) (x : Option Ends)
    (h : stereogenicPath single m path = .ok x) : 2 ≤ path.length := by
  match path, h with
  | [], h => simp [stereogenicPath] at h
  | [_], h => simp [stereogenicPath] at h
  | _ :: _ :: _, _ => simp

theorem stereogenicCumulenes_lengths (single : Nat → Bool) (m : MolView) :
    ∀ (paths : List (List Nat)) (sc : List (List Nat × Ends)), stereogenicCumulenes single m paths = .ok sc →
      ∀ pe ∈ sc, 2 ≤ pe.1.length := by
  intro paths
  induction paths with
  | nil => intro sc h; simp only [stereogenicCumulenes, Except.ok.injEq] at h; subst h; simp
  | cons path tl ih =>
    intro sc h
    simp only [stereogenicCumulenes] at h
    cases hp : stereogenicPath single m path with
    | error e => simp [hp] at h
    | ok x =>
      simp only [hp] at h
      cases ht : stereogenicCumulenes single m tl with
      | error e => simp [ht] at h
      | ok r =>
        simp only [ht, Except.ok.injEq] at h
        subst h
        have hl := stereogenicPath_ok_length single m path x hp
        cases x with
        | none => exact ih r ht
        | some e =>
          intro pe hpe
          rcases mem_cons.mp hpe with rfl | hpe
          · exact hl
          · exact ih r ht pe hpe

theorem firstOf_map (π : Nat → Nat) (p : List Nat) (h : 2 ≤ p.length) : firstOf (p.map π) = π (firstOf p) := by
  cases p with
  | nil => simp at h
  | cons a tl => rfl

theorem getLastD_map (π : Nat → Nat) : ∀ (l : List Nat) (a : Nat), (l.map π).getLastD (π a) = π (l.getLastD a)
  | [], _ => rfl
  | b :: tl, _ => by simp only [map_cons, getLastD_cons]; exact getLastD_map π tl b

theorem lastOf_map (π : Nat → Nat) (p : List Nat) (h : 2 ≤ p.length) : lastOf (p.map π) = π (lastOf p) := by
  cases p with
  | nil => simp at h
  | cons a tl =>
    simp only [lastOf, map_cons, getLastD_cons]
    exact getLastD_map π tl a

theorem getD_map_lt (π : Nat → Nat) (p : List Nat) (i : Nat) (h : i < p.length) :
    (p.map π).getD i 0 = π (p.getD i 0) := by
  simp [List.getD, getElem?_map, getElem?_eq_getElem h]

theorem midOf_map (π : Nat → Nat) (p : List Nat) (h : 2 ≤ p.length) : midOf (p.map π) = π (midOf p) := by
  unfold midOf
  rw [length_map]
  exact getD_map_lt π p _ (by omega)

theorem prevMid_map (π : Nat → Nat) (p : List Nat) (h : 2 ≤ p.length) :
    (p.map π).getD ((p.map π).length / 2 - 1) 0 = π (p.getD (p.length / 2 - 1) 0) := by
  rw [length_map]
  exact getD_map_lt π p _ (by omega)

theorem foldl_renSc {δ δ' : Type} (π : Nat → Nat) (F : δ → (List Nat × Ends) → δ) (F' : δ' → (List Nat × Ends) → δ')
    (R : δ → δ') (hstep : ∀ d pe, 2 ≤ pe.1.length → F' (R d) (pe.1.map π, renEnds π pe.2) = R (F d pe)) :
    ∀ (sc : List (List Nat × Ends)) (d : δ), (∀ pe ∈ sc, 2 ≤ pe.1.length) →
      foldl F' (R d) (renSc π sc) = R (foldl F d sc) := by
  intro sc
  induction sc with
  | nil => intro d _; rfl
  | cons pe tl ih =>
    intro d hl
    simp only [renSc, map_cons, foldl_cons] at ih ⊢
    rw [hstep d pe (hl pe mem_cons_self)]
    exact ih _ (fun pe' hpe' => hl pe' (mem_cons_of_mem _ hpe'))

theorem stereogenicAllenes_rename {π : Nat → Nat} (hπ : Function.Injective π) (sc : List (List Nat × Ends))
    (hl : ∀ pe ∈ sc, 2 ≤ pe.1.length) : stereogenicAllenes (renSc π sc) = renSal π (stereogenicAllenes sc) := by
  unfold stereogenicAllenes
  refine foldl_renSc π _ _ (renSal π) ?_ sc [] hl
  intro d pe hp
  simp only [length_map, midOf_map π pe.1 hp]
  split
  · exact dictSet_map π hπ (renEnds π) d (midOf pe.1) pe.2
  · rfl

theorem stereogenicCisTrans_rename {π : Nat → Nat} (hπ : Function.Injective π) (sc : List (List Nat × Ends))
    (hl : ∀ pe ∈ sc, 2 ≤ pe.1.length) : stereogenicCisTrans (renSc π sc) = renSct π (stereogenicCisTrans sc) := by
  unfold stereogenicCisTrans
  refine foldl_renSc π _ _ (renSct π) ?_ sc [] hl
  intro d pe hp
  simp only [length_map, firstOf_map π pe.1 hp, lastOf_map π pe.1 hp]
  split
  · rfl
  · exact dictSet_map (renPair π) (renPair_injective hπ) (renEnds π) d (firstOf pe.1, lastOf pe.1) pe.2

theorem cisTransCenters_rename {π : Nat → Nat} (hπ : Function.Injective π) (sc : List (List Nat × Ends))
    (hl : ∀ pe ∈ sc, 2 ≤ pe.1.length) : cisTransCenters (renSc π sc) = renCenters π (cisTransCenters sc) := by
  unfold cisTransCenters
  refine foldl_renSc π _ _ (renCenters π) ?_ sc [] hl
  intro d pe hp
  have hpm := prevMid_map π pe.1 hp
  simp only [length_map] at hpm
  simp only [length_map, firstOf_map π pe.1 hp, lastOf_map π pe.1 hp, midOf_map π pe.1 hp, hpm]
  split
  · rfl
  · have h1 := dictSet_map π hπ (renPair π) d (firstOf pe.1) (pe.1.getD (pe.1.length / 2 - 1) 0, midOf pe.1)
    have h2 := dictSet_map π hπ (renPair π)
      (dictSet d (firstOf pe.1) (pe.1.getD (pe.1.length / 2 - 1) 0, midOf pe.1)) (lastOf pe.1)
      (pe.1.getD (pe.1.length / 2 - 1) 0, midOf pe.1)
    simp only [renPair] at h1 h2
    simp only [renCenters, renPair]
    rw [h1, h2]

theorem cisTransTerminals_rename {π : Nat → Nat} (hπ : Function.Injective π) (sc : List (List Nat × Ends))
    (hl : ∀ pe ∈ sc, 2 ≤ pe.1.length) : cisTransTerminals (renSc π sc) = renCenters π (cisTransTerminals sc) := by
  unfold cisTransTerminals
  refine foldl_renSc π _ _ (renCenters π) ?_ sc [] hl
  intro d pe hp
  have hpm := prevMid_map π pe.1 hp
  simp only [length_map] at hpm
  simp only [length_map, firstOf_map π pe.1 hp, lastOf_map π pe.1 hp, midOf_map π pe.1 hp, hpm]
  split
  · rfl
  · have t : Nat × Nat := (firstOf pe.1, lastOf pe.1)
    have h1 := dictSet_map π hπ (renPair π) d (firstOf pe.1) (firstOf pe.1, lastOf pe.1)
    have h2 := dictSet_map π hπ (renPair π) (dictSet d (firstOf pe.1) (firstOf pe.1, lastOf pe.1)) (lastOf pe.1)
      (firstOf pe.1, lastOf pe.1)
    have h3 := dictSet_map π hπ (renPair π)
      (dictSet (dictSet d (firstOf pe.1) (firstOf pe.1, lastOf pe.1)) (lastOf pe.1) (firstOf pe.1, lastOf pe.1))
      (midOf pe.1) (firstOf pe.1, lastOf pe.1)
    have h4 := dictSet_map π hπ (renPair π)
      (dictSet (dictSet (dictSet d (firstOf pe.1) (firstOf pe.1, lastOf pe.1)) (lastOf pe.1) (firstOf pe.1, lastOf pe.1))
        (midOf pe.1) (firstOf pe.1, lastOf pe.1))
      (pe.1.getD (pe.1.length / 2 - 1) 0) (firstOf pe.1, lastOf pe.1)
    simp only [renPair] at h1 h2 h3 h4
    simp only [renCenters, renPair]
    rw [h1, h2, h3, h4]

/-- **naturality of all the tables `_chiral_morgan` reads** -/
theorem tablesOf_rename : TablesOfRename := by
  intro single dbl π hπ m labels
  unfold tablesOf
  rw [cumulenes_rename dbl hπ]
  cases cumulenes dbl m with
  | error s => rfl
  | ok paths =>
    simp only [Except.map]
    rw [stereogenicCumulenes_rename single hπ]
    cases hsc : stereogenicCumulenes single m paths with
    | error e => rfl
    | ok sc =>
      have hl := stereogenicCumulenes_lengths single m paths sc hsc
      simp only [Except.map]
      rw [stereogenicTetrahedrons_rename single hπ]
      cases stereogenicTetrahedrons single m with
      | error e => rfl
      | ok tetra =>
        simp only [Except.map, stereogenicCisTrans_rename hπ sc hl, stereogenicAllenes_rename hπ sc hl,
          cisTransCenters_rename hπ sc hl, cisTransTerminals_rename hπ sc hl, renTables]

/-- **naturality of the full `_chiral_morgan` model** under a pure renaming of the atoms -/
theorem chiralFull_rename : ChiralFullRename := chiralFull_rename_of_tables tablesOf_rename

end ChythonModel.Proofs.C01
