import ChythonModel.Proofs.C11Record
/-!
# C11 — V3000 atom line: `EMOLWrite` text → `emol.split` tokens → `parse_mol_v3000` atom
-/
namespace ChythonModel.Proofs.C11
open ChythonModel.Model.C11

/-- a token the V3000 tokenizer returns verbatim: non-empty, no blank, no `(`, no `"` -/
def Plain (t : Str) : Prop := t ≠ [] ∧ ∀ c ∈ t, c ≠ ' ' ∧ c ≠ '(' ∧ c ≠ '"'

theorem splitGo_plain_acc : ∀ (t rest : Str) (collect : List Str) (tmp : Str), (∀ c ∈ t, c ≠ ' ' ∧ c ≠ '(' ∧ c ≠ '"') →
    splitGo (t ++ rest) collect tmp none = splitGo rest collect (tmp ++ t) none := by
  intro t
  induction t with
  | nil => intro rest collect tmp _; simp
  | cons c cs ih =>
    intro rest collect tmp h
    obtain ⟨h1, h2, h3⟩ := h c (by simp)
    have e1 : (c == '(') = false := by simpa using h2
    have e2 : (c == '"') = false := by simpa using h3
    have e3 : (c == ' ') = false := by simpa using h1
    simp only [List.cons_append, splitGo, e1, e2, e3, Bool.false_eq_true, if_false]
    rw [ih rest collect (tmp ++ [c]) (fun x hx => h x (by simp [hx]))]
    simp [List.append_assoc]

/-- tokens joined by single blanks are split back into exactly those tokens -/
theorem v3split_join : ∀ (ts : List Str) (collect : List Str), (∀ t ∈ ts, Plain t) →
    splitGo (joinWith [' '] ts) collect [] none = collect ++ ts := by
  intro ts
  induction ts with
  | nil => intro collect _; simp [joinWith, splitGo]
  | cons t ts ih =>
    intro collect h
    have ht := h t (by simp)
    cases ts with
    | nil =>
      simp only [joinWith]
      have := splitGo_plain_acc t [] collect [] ht.2
      simp only [List.append_nil, List.nil_append] at this
      rw [this]
      have hne : t.isEmpty = false := by
        cases ht' : t with
        | nil => exact absurd ht' ht.1
        | cons _ _ => rfl
      simp [splitGo, hne]
    | cons u us =>
      simp only [joinWith]
      rw [List.append_assoc, splitGo_plain_acc t _ collect [] ht.2]
      have hne : t.isEmpty = false := by
        cases ht' : t with
        | nil => exact absurd ht' ht.1
        | cons _ _ => rfl
      simp only [List.nil_append, List.singleton_append, splitGo]
      have e1 : ((' ' : Char) == '(') = false := by decide
      have e2 : ((' ' : Char) == '"') = false := by decide
      simp only [e1, e2, Bool.false_eq_true, if_false, beq_self_eq_true, if_true, hne]
      rw [ih (collect ++ [t]) (fun x hx => h x (by simp [hx]))]
      simp [List.append_assoc]

theorem v3split_tokens (ts : List Str) (h : ∀ t ∈ ts, Plain t) : v3split (joinWith [' '] ts) = ts := by
  unfold v3split
  rw [v3split_join ts [] h]; rfl

/-- token without any whitespace, `(` or `"` -/
def Plain' (t : Str) : Prop := t ≠ [] ∧ ∀ c ∈ t, isSpace c = false ∧ c ≠ '(' ∧ c ≠ '"'

theorem plain_of_plain' {t : Str} (h : Plain' t) : Plain t :=
  ⟨h.1, fun c hc => ⟨by intro h'; subst h'; exact absurd (h.2 _ hc).1 (by decide), (h.2 c hc).2.1, (h.2 c hc).2.2⟩⟩

theorem plain'_digits {s : Str} (h : s.all isDigit = true) (hne : s ≠ []) : Plain' s := by
  refine ⟨hne, fun c hc => ?_⟩
  have hd := List.all_eq_true.mp h c hc
  have hs := List.all_eq_true.mp (noSpace_of_digits h) c hc
  refine ⟨by simpa using hs, ?_, ?_⟩ <;> (intro h'; subst h'; exact absurd hd (by decide))

/-- characters of numeric text: digits, `.`, `-`, and the letters of `CHG= MASS= RAD=` -/
def numChar (c : Char) : Bool := isDigit c || c == '.' || c == '-'

theorem plain'_of_numChars {s : Str} (h : s.all numChar = true) (hne : s ≠ []) : Plain' s := by
  refine ⟨hne, fun c hc => ?_⟩
  have hd := List.all_eq_true.mp h c hc
  refine ⟨?_, ?_, ?_⟩
  · cases hsp : isSpace c with
    | false => rfl
    | true =>
      exfalso
      simp only [numChar, Bool.or_eq_true, beq_iff_eq] at hd
      rcases hd with (hd | hd) | hd
      · have := List.all_eq_true.mp (noSpace_of_digits (s := [c]) (by simp [hd])) c (by simp)
        simp [hsp] at this
      · subst hd; exact absurd hsp (by decide)
      · subst hd; exact absurd hsp (by decide)
  · intro h'; subst h'; exact absurd hd (by decide)
  · intro h'; subst h'; exact absurd hd (by decide)

theorem numChars_natDigits (n : Nat) : (natDigits n).all numChar = true := by
  rw [List.all_eq_true]; intro c hc
  have := List.all_eq_true.mp (natDigits_spec n).2.1 c hc
  simp [numChar, this]

theorem numChars_intDigits (n : Int) : (intDigits n).all numChar = true := by
  unfold intDigits; split
  · simp only [List.all_cons, Bool.and_eq_true]; exact ⟨by decide, numChars_natDigits _⟩
  · exact numChars_natDigits _

theorem numChars_f4 (k : Int) : (f4 k).all numChar = true := by
  unfold f4
  simp only [List.all_append, Bool.and_eq_true]
  refine ⟨⟨⟨?_, numChars_natDigits _⟩, by decide⟩, ?_⟩
  · split <;> decide
  · rw [List.all_eq_true]; intro c hc
    have := List.all_eq_true.mp (zeroPad4_spec _ (Nat.mod_lt _ (by omega))).2.1 c hc
    simp [numChar, this]

theorem f4_ne_nil (k : Int) : f4 k ≠ [] := by
  obtain ⟨c, tl, h, _⟩ := headNotM_f4 k
  rw [h]; simp

theorem intDigits_ne_nil (n : Int) : intDigits n ≠ [] := by
  obtain ⟨c, tl, h, _⟩ := headNotM_intDigits n
  rw [h]; simp

/-- prefixing a key like `CHG=` keeps a numeric token plain -/
theorem plain'_kv (key val : Str) (hk : Plain' key) (hv : Plain' val) : Plain' (key ++ val) :=
  ⟨by intro h; exact hk.1 (List.append_eq_nil_iff.mp h).1, fun c hc => by
    rcases List.mem_append.mp hc with h | h
    · exact hk.2 c h
    · exact hv.2 c h⟩

/-! ## strip of a blank-joined token line -/

theorem strip_id_of_ends {s : Str} (h1 : ∃ c tl, s = c :: tl ∧ isSpace c = false)
    (h2 : ∃ init c, s = init ++ [c] ∧ isSpace c = false) : strip s = s := by
  unfold strip lstrip rstrip
  obtain ⟨c, tl, hs, hc⟩ := h1
  have e1 : s.dropWhile isSpace = s := by rw [hs]; simp [hc]
  rw [e1]
  obtain ⟨init, d, hs2, hd⟩ := h2
  rw [hs2, List.reverse_append]
  simp [hd]

theorem join_head : ∀ (ts : List Str), ts ≠ [] → (∀ t ∈ ts, Plain' t) →
    ∃ c tl, joinWith [' '] ts = c :: tl ∧ isSpace c = false := by
  intro ts hne h
  cases ts with
  | nil => exact absurd rfl hne
  | cons t ts =>
    obtain ⟨htne, hch⟩ := h t (by simp)
    cases t with
    | nil => exact absurd rfl htne
    | cons c cs =>
      cases ts with
      | nil => exact ⟨c, cs, rfl, (hch c (by simp)).1⟩
      | cons u us => exact ⟨c, cs ++ [' '] ++ joinWith [' '] (u :: us), by simp [joinWith], (hch c (by simp)).1⟩

theorem join_last : ∀ (ts : List Str), ts ≠ [] → (∀ t ∈ ts, Plain' t) →
    ∃ init c, joinWith [' '] ts = init ++ [c] ∧ isSpace c = false := by
  intro ts
  induction ts with
  | nil => intro hne _; exact absurd rfl hne
  | cons t ts ih =>
    intro _ h
    cases ts with
    | nil =>
      obtain ⟨htne, hch⟩ := h t (by simp)
      obtain ⟨init, c, hic⟩ := List.eq_nil_or_concat t |>.resolve_left htne
      exact ⟨init, c, by simp [joinWith, hic], (hch c (by rw [hic]; simp)).1⟩
    | cons u us =>
      obtain ⟨init, c, hj, hc⟩ := ih (by simp) (fun x hx => h x (by simp [hx]))
      exact ⟨t ++ [' '] ++ init, c, by simp only [joinWith, hj, List.append_assoc], hc⟩

theorem strip_join (ts : List Str) (hne : ts ≠ []) (h : ∀ t ∈ ts, Plain' t) :
    strip (joinWith [' '] ts ++ ['\n']) = joinWith [' '] ts := by
  rw [strip_snoc_newline]
  exact strip_id_of_ends (join_head ts hne h) (join_last ts hne h)

theorem joinWith_cons_eq : ∀ (ts : List Str) (t : Str),
    joinWith [' '] (t :: ts) = t ++ (ts.map fun u => ' ' :: u).flatten := by
  intro ts
  induction ts with
  | nil => intro t; simp [joinWith]
  | cons u us ih => intro t; simp [joinWith, ih u, List.append_assoc]

theorem joinWith_append_opt (base opt : List Str) (hne : base ≠ []) :
    joinWith [' '] (base ++ opt) = joinWith [' '] base ++ (opt.map fun t => ' ' :: t).flatten := by
  cases base with
  | nil => exact absurd rfl hne
  | cons b bs =>
    rw [List.cons_append, joinWith_cons_eq, joinWith_cons_eq]
    simp [List.append_assoc]

/-! ## the V3000 atom line -/

def atomKvTokens (a : WAtom) : List Str :=
  (if a.charge != 0 then [sL "CHG=" ++ intDigits a.charge] else []) ++
  (if a.rad then [sL "RAD=2"] else []) ++
  (if a.iso != 0 then [sL "MASS=" ++ natDigits a.iso] else [])

def atomTokens (mapping : Bool) (n : Nat) (a : WAtom) : List Str :=
  [natDigits n, a.sym, f4 a.x, f4 a.y, sL "0", natDigits (if mapping then a.num else 0)] ++ atomKvTokens a

/-- symbol accepted by the V3000 reader as a plain element -/
structure WFSym3 (sym : Str) : Prop where
  plain : Plain' sym
  notList : startsWith sym ['['] = false ∧ startsWith sym (sL "NOT") = false
  notSpecial : sym ≠ ['*'] ∧ sym ≠ sL "R#" ∧ sym ≠ ['D']

theorem drop7 (X : Str) : (sL "M  V30 " ++ X).drop 7 = X := rfl

theorem optTok (c : Bool) (t : Str) :
    (if c then ' ' :: t else []) = ((if c then [t] else []).map fun u => ' ' :: u).flatten := by
  cases c <;> simp

theorem writeAtom3_body (mapping : Bool) (n : Nat) (a : WAtom) :
    (writeAtom3 mapping n a).drop 7 = joinWith [' '] (atomTokens mapping n a) ++ ['\n'] := by
  unfold writeAtom3 atomTokens
  rw [joinWith_append_opt _ _ (by simp)]
  have e1 : (if (a.charge != 0) = true then sL " CHG=" ++ intDigits a.charge else []) =
      (if (a.charge != 0) = true then ' ' :: (sL "CHG=" ++ intDigits a.charge) else []) := rfl
  have e2 : (if a.rad = true then sL " RAD=2" else []) = (if a.rad = true then ' ' :: sL "RAD=2" else []) := rfl
  have e3 : (if (a.iso != 0) = true then sL " MASS=" ++ natDigits a.iso else []) =
      (if (a.iso != 0) = true then ' ' :: (sL "MASS=" ++ natDigits a.iso) else []) := rfl
  rw [e1, e2, e3, optTok, optTok, optTok]
  simp only [List.append_assoc]
  rw [drop7]
  have e4 : sL " 0 " = [' '] ++ (sL "0" ++ [' ']) := rfl
  have e5 : sL " " = [' '] := rfl
  have e6 : sL "\n" = ['\n'] := rfl
  rw [e4, e5, e6]
  simp only [joinWith, atomKvTokens, List.map_append, List.flatten_append, List.append_assoc]

theorem atomTokens_plain (mapping : Bool) (n : Nat) (a : WAtom) (hs : WFSym3 a.sym) :
    ∀ t ∈ atomTokens mapping n a, Plain' t := by
  intro t ht
  have pd : ∀ k : Nat, Plain' (natDigits k) := fun k => plain'_digits (natDigits_spec k).2.1 (natDigits_spec k).2.2
  unfold atomTokens atomKvTokens at ht
  simp only [List.mem_append, List.mem_cons, List.not_mem_nil, or_false] at ht
  rcases ht with (h | h | h | h | h | h) | ((h | h) | h)
  · subst h; exact pd _
  · subst h; exact hs.plain
  · subst h; exact plain'_of_numChars (numChars_f4 _) (f4_ne_nil _)
  · subst h; exact plain'_of_numChars (numChars_f4 _) (f4_ne_nil _)
  · subst h; exact ⟨by decide, by decide⟩
  · subst h; exact pd _
  · split at h
    · simp only [List.mem_singleton] at h; subst h
      exact plain'_kv _ _ ⟨by decide, by decide⟩ (plain'_of_numChars (numChars_intDigits _) (intDigits_ne_nil _))
    · cases h
  · split at h
    · simp only [List.mem_singleton] at h; subst h; exact ⟨by decide, by decide⟩
    · cases h
  · split at h
    · simp only [List.mem_singleton] at h; subst h
      exact plain'_kv _ _ ⟨by decide, by decide⟩ (pd _)
    · cases h

theorem splitEq1_kv (key val : Str) (hk : '=' ∉ key) : splitEq1 (key ++ '=' :: val) = [key, val] := by
  unfold splitEq1
  have hc : (key ++ '=' :: val).contains '=' = true := by simp
  obtain ⟨t1, t2⟩ := takeWhile_absent (c := '=') (s := key) val hk
  simp [t1, t2]

theorem intE_intDigits (n : Int) : intE (intDigits n) = .ok n := by
  have := pyInt_fmtD 0 n
  have h0 : fmtD 0 n = intDigits n := by simp [fmtD, padLeft]
  rw [h0] at this
  simp [intE, this, pure, Except.pure]

theorem floatE_f4 (k : Int) : floatE (f4 k) = .ok (Dec.ofTenThousandths k) := by
  have := pyFloat_fmtF4 0 k
  have h0 : fmtF4 0 k = f4 k := by simp [fmtF4, padLeft]
  rw [h0] at this
  simp [floatE, this, pure, Except.pure]

set_option linter.unusedSimpArgs false in
theorem atomKvs_written (a : WAtom) :
    atomKvs (atomKvTokens a) 0 none false =
      .ok (a.charge, (if a.iso = 0 then none else some (a.iso : Int)), a.rad) := by
  have k1 : splitEq1 (sL "CHG=" ++ intDigits a.charge) = [sL "CHG", intDigits a.charge] :=
    splitEq1_kv (sL "CHG") _ (by decide)
  have k2 : splitEq1 (sL "RAD=2") = [sL "RAD", sL "2"] := by decide
  have k3 : splitEq1 (sL "MASS=" ++ natDigits a.iso) = [sL "MASS", natDigits a.iso] :=
    splitEq1_kv (sL "MASS") _ (by decide)
  have hiso : intE (natDigits a.iso) = .ok (a.iso : Int) := by
    have := intE_intDigits (a.iso : Int)
    have hn : ¬ ((a.iso : Int) < 0) := by omega
    simpa [intDigits, hn] using this
  have e1 : (sL "CHG" == sL "CHG") = true := by decide
  have e2 : (sL "RAD" == sL "CHG") = false := by decide
  have e3 : (sL "RAD" == sL "MASS") = false := by decide
  have e4 : (sL "RAD" == sL "RAD") = true := by decide
  have e5 : (sL "MASS" == sL "CHG") = false := by decide
  have e6 : (sL "MASS" == sL "MASS") = true := by decide
  unfold atomKvTokens
  by_cases hc : a.charge = 0 <;> cases hr : a.rad <;> by_cases hi : a.iso = 0 <;>
    simp [hc, hr, hi, atomKvs, k1, k2, k3, e1, e2, e3, e4, e5, e6, intE_intDigits, hiso, bind, Except.bind, pure, Except.pure]

/-- what the V3000 reader returns for one written atom line -/
def expectedAtom3 (mapping : Bool) (a : WAtom) : PAtom :=
  { element := a.sym, isotope := if a.iso = 0 then none else some (a.iso : Int), charge := a.charge, delta := none,
    map := if mapping then (a.num : Int) else 0, x := Dec.ofTenThousandths a.x, y := Dec.ofTenThousandths a.y,
    z := Dec.ofTenThousandths 0, rad := a.rad }

theorem v3000_atom_roundtrip (mapping : Bool) (n : Nat) (a : WAtom) (hs : WFSym3 a.sym) :
    parseAtom3 (strip ((writeAtom3 mapping n a).drop 7)) = .ok (natDigits n, expectedAtom3 mapping a) := by
  have hpl := atomTokens_plain mapping n a hs
  rw [writeAtom3_body, strip_join _ (by simp [atomTokens]) hpl]
  unfold parseAtom3
  rw [v3split_tokens _ (fun t ht => plain_of_plain' (hpl t ht))]
  have hz : floatE (sL "0") = .ok (Dec.ofTenThousandths 0) := by decide
  have hm : intE (natDigits (if mapping then a.num else 0)) = .ok ((if mapping then a.num else 0 : Nat) : Int) := by
    have := intE_intDigits ((if mapping then a.num else 0 : Nat) : Int)
    have hn : ¬ (((if mapping then a.num else 0 : Nat) : Int) < 0) := by omega
    simpa [intDigits, hn] using this
  have hD : (a.sym == ['D']) = false := by simpa using hs.notSpecial.2.2
  have hS : (a.sym == ['*']) = false := by simpa using hs.notSpecial.1
  have hR : (a.sym == sL "R#") = false := by simpa using hs.notSpecial.2.1
  simp only [atomTokens, List.cons_append, List.nil_append, hs.notList.1, hs.notList.2, Bool.or_self, Bool.false_eq_true,
    if_false, hS, hR, atomKvs_written, hD, floatE_f4, hz, hm, bind, Except.bind, pure, Except.pure]
  cases mapping <;> simp [expectedAtom3]

end ChythonModel.Proofs.C11
