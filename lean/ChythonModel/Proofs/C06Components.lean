import ChythonModel.Model.C06Rings
/-!
# C06 — `_connected_components` (BFS model) computes the partition into reachability classes

Main result: `components_partition_proof`. No Mathlib.
-/
namespace ChythonModel.Proofs.C06
open ChythonModel.Model.C06

/-- reachability along adjacency lists -/
inductive Reach (g : Adj) : Nat → Nat → Prop
  | refl (a : Nat) : Reach g a a
  | step {a b c : Nat} : Reach g a b → c ∈ nbrsOf g b → Reach g a c

/-! ## what `wfAdj` / `symAdj` give, as propositions -/

theorem nbrsOf_nil_or_mem (g : Adj) (n : Nat) : nbrsOf g n = [] ∨ (n, nbrsOf g n) ∈ g := by
  induction g with
  | nil => exact Or.inl rfl
  | cons p tl ih =>
    obtain ⟨k, l⟩ := p
    by_cases h : n = k
    · subst h
      right
      simp [nbrsOf]
    · have hb : (n == k) = false := by simpa using h
      have e : nbrsOf ((k, l) :: tl) n = nbrsOf tl n := by
        simp [nbrsOf, List.lookup_cons, hb]
      rw [e]
      rcases ih with ih | ih
      · exact Or.inl ih
      · exact Or.inr (List.mem_cons_of_mem _ ih)

structure WF (g : Adj) : Prop where
  keysNodup : (keys g).Nodup
  nbrsNodup : ∀ n, (nbrsOf g n).Nodup
  nbrsKeys : ∀ n k, k ∈ nbrsOf g n → k ∈ keys g

theorem wf_of_wfAdj {g : Adj} (h : wfAdj g = true) : WF g := by
  simp only [wfAdj, Bool.and_eq_true, List.all_eq_true, decide_eq_true_eq, List.contains_iff_mem,
    bne_iff_ne, ne_eq] at h
  obtain ⟨hk, hall⟩ := h
  refine ⟨hk, ?_, ?_⟩
  · intro n
    rcases nbrsOf_nil_or_mem g n with e | hm
    · rw [e]; exact List.nodup_nil
    · exact (hall _ hm).1
  · intro n k hkn
    rcases nbrsOf_nil_or_mem g n with e | hm
    · rw [e] at hkn; cases hkn
    · exact ((hall _ hm).2 k hkn).2

def Sym (g : Adj) : Prop := ∀ n k, k ∈ nbrsOf g n → n ∈ nbrsOf g k

theorem sym_of_symAdj {g : Adj} (h : symAdj g = true) : Sym g := by
  simp only [symAdj, List.all_eq_true, List.contains_iff_mem] at h
  intro n k hkn
  rcases nbrsOf_nil_or_mem g n with e | hm
  · rw [e] at hkn; cases hkn
  · exact h _ hm k hkn

/-! ## `Reach` -/

theorem Reach.trans {g : Adj} {a b c : Nat} (h1 : Reach g a b) (h2 : Reach g b c) : Reach g a c := by
  induction h2 with
  | refl => exact h1
  | step _ hn ih => exact Reach.step ih hn

theorem Reach.symm {g : Adj} (hs : Sym g) {a b : Nat} (h : Reach g a b) : Reach g b a := by
  induction h with
  | refl => exact Reach.refl _
  | step _ hn ih => exact Reach.trans (Reach.step (Reach.refl _) (hs _ _ hn)) ih

theorem Reach.mem_keys {g : Adj} (hw : WF g) {a b : Nat} (h : Reach g a b) (ha : a ∈ keys g) :
    b ∈ keys g := by
  induction h with
  | refl => exact ha
  | step _ hn _ => exact hw.nbrsKeys _ _ hn

/-- a set closed under neighbours is closed under reachability -/
theorem Reach.mem_of_closed {g : Adj} {r : List Nat}
    (hc : ∀ x ∈ r, ∀ y ∈ nbrsOf g x, y ∈ r) {a b : Nat} (h : Reach g a b) (ha : a ∈ r) : b ∈ r := by
  induction h with
  | refl => exact ha
  | step _ hn ih => exact hc _ ih _ hn

/-! ## a counting lemma -/

theorem nodup_length_le {l m : List Nat} (hl : l.Nodup) (hs : ∀ x ∈ l, x ∈ m) :
    l.length ≤ m.length := by
  induction l generalizing m with
  | nil => simp
  | cons x l ih =>
    have hx : x ∈ m := hs x (by simp)
    have hnd := List.nodup_cons.1 hl
    have h1 := ih (m := m.erase x) hnd.2 (fun y hy => by
      have hne : y ≠ x := by rintro rfl; exact hnd.1 hy
      exact (List.mem_erase_of_ne hne).2 (hs y (by simp [hy])))
    rw [List.length_erase_of_mem hx] at h1
    have h2 : 0 < m.length := List.length_pos_of_mem hx
    simp only [List.length_cons]
    omega

/-! ## the inner loop -/

/-- loop invariant of `bfs` -/
structure Inv (g : Adj) (start : Nat) (q seen : List Nat) : Prop where
  qSeen : ∀ x ∈ q, x ∈ seen
  nodup : seen.Nodup
  keys : ∀ x ∈ seen, x ∈ keys g
  reach : ∀ x ∈ seen, Reach g start x
  closed : ∀ x ∈ seen, x ∉ q → ∀ y ∈ nbrsOf g x, y ∈ seen
  start : start ∈ seen

theorem Inv.step {g : Adj} (hw : WF g) {start cur : Nat} {q seen : List Nat}
    (h : Inv g start (cur :: q) seen) :
    Inv g start (q ++ (nbrsOf g cur).filter fun i => !seen.contains i)
      (seen ++ (nbrsOf g cur).filter fun i => !seen.contains i) := by
  have hnew : ∀ x, x ∈ (nbrsOf g cur).filter (fun i => !seen.contains i) ↔
      x ∈ nbrsOf g cur ∧ x ∉ seen := by
    intro x; simp [List.mem_filter]
  have hcur : cur ∈ seen := h.qSeen cur (by simp)
  refine ⟨?_, ?_, ?_, ?_, ?_, ?_⟩
  · intro x hx
    rcases List.mem_append.1 hx with hx | hx
    · exact List.mem_append_left _ (h.qSeen x (List.mem_cons_of_mem _ hx))
    · exact List.mem_append_right _ hx
  · rw [List.nodup_append]
    refine ⟨h.nodup, (hw.nbrsNodup cur).filter _, ?_⟩
    intro a ha b hb hab
    subst hab
    exact ((hnew a).1 hb).2 ha
  · intro x hx
    rcases List.mem_append.1 hx with hx | hx
    · exact h.keys x hx
    · exact hw.nbrsKeys cur x ((hnew x).1 hx).1
  · intro x hx
    rcases List.mem_append.1 hx with hx | hx
    · exact h.reach x hx
    · exact Reach.step (h.reach cur hcur) ((hnew x).1 hx).1
  · intro x hx hxq y hy
    have hxq' : x ∉ q ∧ x ∉ (nbrsOf g cur).filter (fun i => !seen.contains i) := by
      constructor
      · intro hc; exact hxq (List.mem_append_left _ hc)
      · intro hc; exact hxq (List.mem_append_right _ hc)
    have hxs : x ∈ seen := by
      rcases List.mem_append.1 hx with hx | hx
      · exact hx
      · exact absurd hx hxq'.2
    by_cases hxc : x = cur
    · subst hxc
      by_cases hys : y ∈ seen
      · exact List.mem_append_left _ hys
      · exact List.mem_append_right _ ((hnew y).2 ⟨hy, hys⟩)
    · have : x ∉ cur :: q := by
        intro hc
        rcases List.mem_cons.1 hc with hc | hc
        · exact hxc hc
        · exact hxq'.1 hc
      exact List.mem_append_left _ (h.closed x hxs this y hy)
  · exact List.mem_append_left _ h.start

/-- what `bfs` returns, with the fuel of the model sufficing -/
theorem bfs_spec {g : Adj} (hw : WF g) (start : Nat) :
    ∀ (fuel : Nat) (q seen : List Nat), Inv g start q seen →
      (keys g).length + q.length ≤ seen.length + fuel →
      ∃ r, bfs g fuel q seen = some r ∧ Inv g start [] r := by
  intro fuel
  induction fuel with
  | zero =>
    intro q seen h hf
    cases q with
    | nil => exact ⟨seen, rfl, h⟩
    | cons cur q =>
      exfalso
      have := nodup_length_le h.nodup h.keys
      simp only [List.length_cons] at hf
      omega
  | succ fuel ih =>
    intro q seen h hf
    cases q with
    | nil => exact ⟨seen, rfl, h⟩
    | cons cur q =>
      simp only [bfs]
      apply ih _ _ (Inv.step hw h)
      simp only [List.length_append, List.length_cons] at hf ⊢
      omega

/-- `bfs` from `[start] [start]` returns the reachability class of `start` -/
theorem bfs_start {g : Adj} (hw : WF g) {start : Nat} (hs : start ∈ keys g) :
    ∃ r, bfs g (keys g).length [start] [start] = some r ∧ r.Nodup ∧
      (∀ b, b ∈ r ↔ Reach g start b) := by
  have hinv : Inv g start [start] [start] := by
    refine ⟨fun x hx => hx, by simp, ?_, ?_, ?_, by simp⟩
    · intro x hx; rw [List.mem_singleton.1 hx]; exact hs
    · intro x hx; rw [List.mem_singleton.1 hx]; exact Reach.refl _
    · intro x hx hxq; exact absurd hx hxq
  obtain ⟨r, hr, hi⟩ := bfs_spec hw start (keys g).length [start] [start] hinv (by simp; omega)
  refine ⟨r, hr, hi.nodup, fun b => ⟨hi.reach b, fun hb => ?_⟩⟩
  exact Reach.mem_of_closed (fun x hx => hi.closed x hx (by simp)) hb hi.start

/-! ## the outer loop -/

/-- the four clauses of the result, relative to the set of atoms still to be distributed -/
def Spec (g : Adj) (atoms : List Nat) (cs : List (List Nat)) : Prop :=
  (∀ a, a ∈ atoms ↔ ∃ c ∈ cs, a ∈ c) ∧
  cs.Pairwise (fun c d => ∀ a, a ∈ c → a ∉ d) ∧
  (∀ c ∈ cs, c ≠ [] ∧ c.Nodup) ∧
  (∀ c ∈ cs, ∀ a ∈ c, ∀ b, b ∈ c ↔ Reach g a b)

theorem loop_spec {g : Adj} (hw : WF g) (hsym : Sym g) :
    ∀ (fuel : Nat) (atoms : List Nat), atoms.Nodup → (∀ a ∈ atoms, a ∈ keys g) →
      (∀ a ∈ atoms, ∀ b, Reach g a b → b ∈ atoms) → atoms.length ≤ fuel →
      ∃ cs, componentsLoop g fuel atoms = some cs ∧ Spec g atoms cs := by
  intro fuel
  induction fuel with
  | zero =>
    intro atoms _ _ _ hf
    cases atoms with
    | nil => exact ⟨[], rfl, by simp [Spec]⟩
    | cons a l => simp at hf
  | succ fuel ih =>
    intro atoms hnd hk hcl hf
    cases atoms with
    | nil => exact ⟨[], rfl, by simp [Spec]⟩
    | cons start rest =>
      obtain ⟨seen, hbfs, hsnd, hsr⟩ := bfs_start hw (hk start (by simp))
      have hnd' := List.nodup_cons.1 hnd
      have hmem : ∀ a, a ∈ rest.filter (fun a => !seen.contains a) ↔ a ∈ rest ∧ a ∉ seen := by
        intro a; simp [List.mem_filter]
      have hstart : start ∈ seen := (hsr start).2 (Reach.refl _)
      obtain ⟨cs, hcs, hcov, hpw, hne, hcls⟩ := ih (rest.filter fun a => !seen.contains a)
        (hnd'.2.filter _)
        (fun a ha => hk a (List.mem_cons_of_mem _ ((hmem a).1 ha).1))
        (by
          intro a ha b hab
          obtain ⟨har, has⟩ := (hmem a).1 ha
          have hb : b ∈ start :: rest := hcl a (List.mem_cons_of_mem _ har) b hab
          have hbs : b ∉ seen := by
            intro hbs
            exact has ((hsr a).2 (Reach.trans ((hsr b).1 hbs) (Reach.symm hsym hab)))
          rcases List.mem_cons.1 hb with hb | hb
          · subst hb; exact absurd hstart hbs
          · exact (hmem b).2 ⟨hb, hbs⟩)
        (by
          have := List.length_filter_le (fun a => !seen.contains a) rest
          simp only [List.length_cons] at hf
          omega)
      refine ⟨seen :: cs, by simp only [componentsLoop, hbfs, hcs], ?_, ?_, ?_, ?_⟩
      · intro a
        constructor
        · intro ha
          by_cases has : a ∈ seen
          · exact ⟨seen, by simp, has⟩
          · have har : a ∈ rest := by
              rcases List.mem_cons.1 ha with ha | ha
              · subst ha; exact absurd hstart has
              · exact ha
            obtain ⟨c, hc, hac⟩ := (hcov a).1 ((hmem a).2 ⟨har, has⟩)
            exact ⟨c, List.mem_cons_of_mem _ hc, hac⟩
        · rintro ⟨c, hc, hac⟩
          rcases List.mem_cons.1 hc with hc | hc
          · subst hc
            exact hcl start (by simp) a ((hsr a).1 hac)
          · exact List.mem_cons_of_mem _ ((hmem a).1 ((hcov a).2 ⟨c, hc, hac⟩)).1
      · rw [List.pairwise_cons]
        refine ⟨?_, hpw⟩
        intro d hd a has had
        exact ((hmem a).1 ((hcov a).2 ⟨d, hd, had⟩)).2 has
      · intro c hc
        rcases List.mem_cons.1 hc with hc | hc
        · subst hc
          exact ⟨List.ne_nil_of_mem hstart, hsnd⟩
        · exact hne c hc
      · intro c hc a ha b
        rcases List.mem_cons.1 hc with hc | hc
        · subst hc
          have hsa := (hsr a).1 ha
          rw [hsr b]
          exact ⟨fun h => Reach.trans (Reach.symm hsym hsa) h, fun h => Reach.trans hsa h⟩
        · exact hcls c hc a ha b

/-! ## main theorem -/

theorem components_partition_proof (g : Adj) (hwf : wfAdj g = true) (hsym : symAdj g = true) :
    ∃ cs, connectedComponents g = some cs ∧
      (∀ a, a ∈ keys g ↔ ∃ c ∈ cs, a ∈ c) ∧
      cs.Pairwise (fun c d => ∀ a, a ∈ c → a ∉ d) ∧
      (∀ c ∈ cs, c ≠ [] ∧ c.Nodup) ∧
      (∀ c ∈ cs, ∀ a ∈ c, ∀ b, b ∈ c ↔ Reach g a b) := by
  have hw := wf_of_wfAdj hwf
  exact loop_spec hw (sym_of_symAdj hsym) (keys g).length (keys g) hw.keysNodup
    (fun _ h => h) (fun _ ha _ hab => Reach.mem_keys hw hab ha) (Nat.le_refl _)

/-- fuel sufficiency on its own (needs no symmetry) -/
theorem components_fuel_suffices (g : Adj) (hwf : wfAdj g = true) :
    (connectedComponents g).isSome = true := by
  have hw := wf_of_wfAdj hwf
  have key : ∀ (fuel : Nat) (atoms : List Nat), (∀ a ∈ atoms, a ∈ keys g) → atoms.length ≤ fuel →
      (componentsLoop g fuel atoms).isSome = true := by
    intro fuel
    induction fuel with
    | zero =>
      intro atoms _ hf
      cases atoms with
      | nil => rfl
      | cons a l => simp at hf
    | succ fuel ih =>
      intro atoms hk hf
      cases atoms with
      | nil => rfl
      | cons start rest =>
        obtain ⟨seen, hbfs, _, _⟩ := bfs_start hw (hk start (by simp))
        have h := ih (rest.filter fun a => !seen.contains a)
          (fun a ha => hk a (List.mem_cons_of_mem _ (List.mem_filter.1 ha).1))
          (by
            have := List.length_filter_le (fun a => !seen.contains a) rest
            simp only [List.length_cons] at hf
            omega)
        obtain ⟨cs, hcs⟩ := Option.isSome_iff_exists.1 h
        simp only [componentsLoop, hbfs, hcs, Option.isSome_some]
  exact key _ _ (fun _ h => h) (Nat.le_refl _)

/-- the hypotheses are decidable and hold on a concrete graph: a triangle `1-2-3` and an edge `4-5` -/
example :
    let g : Adj := [(1, [2, 3]), (2, [1, 3]), (3, [1, 2]), (4, [5]), (5, [4])]
    ∃ cs, connectedComponents g = some cs ∧
      (∀ a, a ∈ keys g ↔ ∃ c ∈ cs, a ∈ c) ∧
      cs.Pairwise (fun c d => ∀ a, a ∈ c → a ∉ d) ∧
      (∀ c ∈ cs, c ≠ [] ∧ c.Nodup) ∧
      (∀ c ∈ cs, ∀ a ∈ c, ∀ b, b ∈ c ↔ Reach g a b) :=
  components_partition_proof _ (by decide) (by decide)

example : connectedComponents [(1, [2, 3]), (2, [1, 3]), (3, [1, 2]), (4, [5]), (5, [4])]
    = some [[1, 2, 3], [4, 5]] := by decide

end ChythonModel.Proofs.C06
