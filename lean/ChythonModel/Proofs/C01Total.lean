import ChythonModel.Proofs.C01Morgan
import Mathlib.Data.Finset.Card
import Mathlib.Data.List.Dedup
/-!
More helper lemmas for C01: totality of `atoms_order` on closed graphs, keys of the result, strict monotonicity of the
dense ranks, re-keying a molecule by its own ranks.
-/
namespace ChythonModel.Proofs.C01
open ChythonModel.Model.Morgan ChythonModel.Spec.Renumbering ChythonModel.Gen.C01
open List

/-! ## `numDistinct` is the cardinality of the set of values -/

theorem numDistinct_eq_card (l : List Int) : numDistinct l = l.toFinset.card := by
  induction l with
  | nil => rfl
  | cons a l ih =>
    rw [numDistinct_cons, toFinset_cons]
    by_cases h : a ∈ l
    · have : a ∈ l.toFinset := mem_toFinset.mpr h
      simp [h, ih, Finset.insert_eq_of_mem this]
    · have : a ∉ l.toFinset := fun hh => h (mem_toFinset.mp hh)
      simp [h, ih, Finset.card_insert_of_notMem this]

theorem numDistinct_filter_lt (l : List Int) (a b : Int) (hlt : a < b) (ha : a ∈ l) :
    numDistinct (l.filter (fun y => decide (y < a))) < numDistinct (l.filter (fun y => decide (y < b))) := by
  rw [numDistinct_eq_card, numDistinct_eq_card]
  apply Finset.card_lt_card
  rw [Finset.ssubset_iff_of_subset]
  · refine ⟨a, ?_, ?_⟩
    · simp [ha, hlt]
    · simp
  · intro x hx
    simp only [mem_toFinset, mem_filter, decide_eq_true_eq] at hx ⊢
    exact ⟨hx.1, by omega⟩

/-! ## keys of the results -/

theorem loop_keys (h : TupleHash) (b : IntAdj) (k : Nat) :
    ∀ (w : Weights) (numb stab : Nat) (r : Weights), loop h b k w numb stab = some r →
      keys r = keys w ∨ keys r = keys b := by
  induction k with
  | zero => intro w _ _ r hr; simp only [loop, Option.some.injEq] at hr; subst hr; exact Or.inl rfl
  | succ k ih =>
    intro w numb stab r hr
    simp only [loop] at hr
    cases hs : step h w b with
    | none => simp [hs] at hr
    | some w' =>
      have hk := step_keys h hs
      simp only [hs] at hr
      have hrec : ∀ numb stab, loop h b k w' numb stab = some r → keys r = keys b := by
        intro numb stab hl
        rcases ih w' numb stab r hl with h1 | h1
        · rw [h1, hk]
        · exact h1
      split at hr
      · simp only [Option.some.injEq] at hr; subst hr; exact Or.inr hk
      · split at hr
        · split at hr
          · simp only [Option.some.injEq] at hr; subst hr; exact Or.inr hk
          · exact Or.inr (hrec _ _ hr)
        · split at hr
          · exact Or.inr (hrec _ _ hr)
          · exact Or.inr (hrec _ _ hr)

theorem morgan_keys (h : TupleHash) {w : Weights} {b : IntAdj} {r : List (Nat × Nat)} (hr : morgan h w b = some r) :
    keys r ~ keys w ∨ keys r ~ keys b := by
  unfold morgan at hr
  cases hl : loop h b (w.length - morganTriesOffset) w (numDistinct (values w)) 0 with
  | none => simp [hl] at hr
  | some wf =>
    simp only [hl, Option.some.injEq] at hr
    subst hr
    rcases loop_keys h b _ w _ _ wf hl with h1 | h1
    · left; rw [← h1]; exact ranks_keys wf
    · right; rw [← h1]; exact ranks_keys wf

theorem atomsOrder_keys (h : TupleHash) {m : MolView} (hrows : keys m.bonds ~ keys m.atoms) {r : List (Nat × Nat)}
    (hr : atomsOrder h m = some r) : keys r ~ keys m.atoms := by
  unfold atomsOrder at hr
  split at hr
  · rename_i hm; simp only [Option.some.injEq] at hr; subst hr; rw [hm]; exact Perm.refl _
  · rename_i n a hm; simp only [Option.some.injEq] at hr; subst hr; rw [hm]; exact Perm.refl _
  · cases hw : initWeights h m.atoms with
    | none => simp [hw] at hr
    | some w =>
      simp only [hw] at hr
      have hkw := initWeights_keys h hw
      rcases morgan_keys h hr with h1 | h1
      · rw [← hkw]; exact h1
      · rw [intAdjacency_keys] at h1; exact h1.trans hrows

theorem atomsOrder_keys_nodup' (h : TupleHash) {m : MolView} (hka : (keys m.atoms).Nodup) (hkb : (keys m.bonds).Nodup)
    {r : List (Nat × Nat)} (hr : atomsOrder h m = some r) : (keys r).Nodup := by
  unfold atomsOrder at hr
  split at hr
  · simp only [Option.some.injEq] at hr; subst hr; simp [keys]
  · simp only [Option.some.injEq] at hr; subst hr; simp [keys]
  · cases hw : initWeights h m.atoms with
    | none => simp [hw] at hr
    | some w =>
      simp only [hw] at hr
      have hkw := initWeights_keys h hw
      rcases morgan_keys h hr with h1 | h1
      · exact h1.nodup_iff.mpr (hkw ▸ hka)
      · rw [intAdjacency_keys] at h1; exact h1.nodup_iff.mpr hkb

/-! ## totality -/

theorem optMapM_isSome {α β : Type} (f : α → Option β) (l : List α) (hf : ∀ a ∈ l, ∃ b, f a = some b) :
    ∃ r, optMapM f l = some r := by
  induction l with
  | nil => exact ⟨[], rfl⟩
  | cons a l ih =>
    obtain ⟨b, hb⟩ := hf a mem_cons_self
    obtain ⟨r, hr⟩ := ih (fun x hx => hf x (mem_cons_of_mem _ hx))
    exact ⟨b :: r, by rw [optMapM_cons, hb, hr]; rfl⟩

theorem atomHash_isSome (h : TupleHash) (a : HAtom)
    (htab : ∀ f ∈ elementHashFields, (f.attr = HashAttr.isotope ∨ f.attr = HashAttr.implicitH) → f.orZero = true) :
    ∃ v, atomHash h a = some v := by
  unfold atomHash evalFields
  have : ∃ r, optMapM (evalField a) elementHashFields = some r := by
    apply optMapM_isSome
    intro f hf
    have ht := htab f hf
    unfold evalField
    cases hattr : f.attr <;> simp only [hattr] at ht ⊢
    · cases a.isotope with
      | some k => exact ⟨_, rfl⟩
      | none => simp [ht]
    · exact ⟨_, rfl⟩
    · exact ⟨_, rfl⟩
    · exact ⟨_, rfl⟩
    · cases a.implH with
      | some k => exact ⟨_, rfl⟩
      | none => simp [ht]
    · exact ⟨_, rfl⟩
  obtain ⟨r, hr⟩ := this
  exact ⟨h r, by rw [hr]⟩

theorem lookup_isSome_of_mem_keys {β : Type} {d : List (Nat × β)} {n : Nat} (hn : n ∈ keys d) :
    ∃ v, d.lookup n = some v := by
  induction d with
  | nil => simp [keys] at hn
  | cons kv d ih =>
    obtain ⟨k, x⟩ := kv
    simp only [keys, map_cons, mem_cons] at hn
    simp only [lookup_cons]
    by_cases hk : n = k
    · subst hk; exact ⟨x, by simp⟩
    · have h2 : (n == k) = false := by simp [hk]
      rcases hn with h | h
      · exact absurd h hk
      · simp only [h2]; exact ih h

/-- rows whose key and neighbours all have a weight -/
def RowsIn (ks : List Nat) (b : IntAdj) : Prop := ∀ row ∈ b, row.1 ∈ ks ∧ ∀ mb ∈ row.2, mb.1 ∈ ks

theorem step_isSome (h : TupleHash) {w : Weights} {b : IntAdj} (hb : RowsIn (keys w) b) : ∃ r, step h w b = some r := by
  unfold step
  apply optMapM_isSome
  intro row hrow
  obtain ⟨h1, h2⟩ := hb row hrow
  unfold newWeight
  obtain ⟨wn, hwn⟩ := lookup_isSome_of_mem_keys h1
  have : ∃ ps, nbrPairs w row.2 = some ps := by
    unfold nbrPairs
    apply optMapM_isSome
    intro mb hmb
    obtain ⟨x, hx⟩ := lookup_isSome_of_mem_keys (h2 mb hmb)
    exact ⟨_, by rw [hx]; rfl⟩
  obtain ⟨ps, hps⟩ := this
  exact ⟨_, by rw [hwn, hps]; rfl⟩

theorem loop_isSome (h : TupleHash) {b : IntAdj} (hbb : RowsIn (keys b) b) (k : Nat) :
    ∀ (w : Weights) (numb stab : Nat), RowsIn (keys w) b → ∃ r, loop h b k w numb stab = some r := by
  induction k with
  | zero => intro w _ _ _; exact ⟨w, rfl⟩
  | succ k ih =>
    intro w numb stab hw
    obtain ⟨w', hs⟩ := step_isSome h hw
    have hk := step_keys h hs
    have hw' : RowsIn (keys w') b := by rw [hk]; exact hbb
    simp only [loop, hs]
    split
    · exact ⟨_, rfl⟩
    · split
      · split
        · exact ⟨_, rfl⟩
        · exact ih w' _ _ hw'
      · split
        · exact ih w' _ _ hw'
        · exact ih w' _ _ hw'

theorem atomsOrder_total (h : TupleHash) (m : MolView) (_hka : (keys m.atoms).Nodup)
    (hc : ∀ row ∈ m.bonds, row.1 ∈ keys m.atoms ∧ ∀ mb ∈ row.2, mb.1 ∈ keys m.atoms)
    (hrows : keys m.bonds ~ keys m.atoms)
    (htab : ∀ f ∈ elementHashFields, (f.attr = HashAttr.isotope ∨ f.attr = HashAttr.implicitH) → f.orZero = true) :
    ∃ r, atomsOrder h m = some r ∧ (keys r) ~ (keys m.atoms) := by
  have main : ∃ r, atomsOrder h m = some r := by
    unfold atomsOrder
    split
    · exact ⟨_, rfl⟩
    · exact ⟨_, rfl⟩
    · have : ∃ w, initWeights h m.atoms = some w := by
        unfold initWeights
        apply optMapM_isSome
        intro na _
        obtain ⟨v, hv⟩ := atomHash_isSome h na.2 htab
        exact ⟨_, by rw [hv]; rfl⟩
      obtain ⟨w, hw⟩ := this
      simp only [hw]
      have hkw := initWeights_keys h hw
      have hin : ∀ ks : List Nat, (∀ n, n ∈ keys m.atoms → n ∈ ks) → RowsIn ks (intAdjacency m.bonds) := by
        intro ks hks row hrow
        unfold intAdjacency at hrow
        obtain ⟨row0, hrow0, rfl⟩ := mem_map.mp hrow
        obtain ⟨h1, h2⟩ := hc row0 hrow0
        refine ⟨hks _ h1, ?_⟩
        intro mb hmb
        obtain ⟨mb0, hmb0, rfl⟩ := mem_map.mp hmb
        exact hks _ (h2 mb0 hmb0)
      have h1 : RowsIn (keys w) (intAdjacency m.bonds) := hin _ (fun n hn => hkw ▸ hn)
      have h2 : RowsIn (keys (intAdjacency m.bonds)) (intAdjacency m.bonds) :=
        hin _ (fun n hn => by rw [intAdjacency_keys]; exact hrows.mem_iff.mpr hn)
      unfold morgan
      obtain ⟨wf, hwf⟩ := loop_isSome h h2 (w.length - morganTriesOffset) w (numDistinct (values w)) 0 h1
      exact ⟨_, by rw [hwf]⟩
  obtain ⟨r, hr⟩ := main
  exact ⟨r, hr, atomsOrder_keys h hrows hr⟩

/-! ## re-keying by ranks -/

theorem mapKeys_mapKeys {β : Type} (f g : Nat → Nat) (d : List (Nat × β)) :
    mapKeys f (mapKeys g d) = mapKeys (fun n => f (g n)) d := by
  simp [mapKeys, map_map, Function.comp_def]

theorem mapKeys_id {β : Type} (d : List (Nat × β)) : mapKeys id d = d := by simp [mapKeys]

theorem mapKeys_perm {β : Type} (f : Nat → Nat) {d d' : List (Nat × β)} (hp : d ~ d') : mapKeys f d ~ mapKeys f d' :=
  hp.map _

theorem rekey_dict {β : Type} {π ρ ρ' : Nat → Nat} (hρ : ∀ n, ρ' (π n) = ρ n) {d d' : List (Nat × β)}
    (hd : DictEq π d d') : DictEq id (mapKeys ρ d) (mapKeys ρ' d') := by
  unfold DictEq at *
  rw [mapKeys_id]
  have := mapKeys_perm ρ' hd
  rw [mapKeys_mapKeys] at this
  have hfun : (fun n => ρ' (π n)) = ρ := funext hρ
  rw [hfun] at this
  exact this

theorem rekey_adj {β : Type} {π ρ ρ' : Nat → Nat} (hρ : ∀ n, ρ' (π n) = ρ n) {b b' : List (Nat × List (Nat × β))}
    (hb : AdjEq π b b') :
    AdjEq id (b.map fun row => (ρ row.1, mapKeys ρ row.2)) (b'.map fun row => (ρ' row.1, mapKeys ρ' row.2)) := by
  obtain ⟨b'', hperm, hpw⟩ := hb
  refine ⟨b''.map fun row => (ρ' row.1, mapKeys ρ' row.2), hperm.map _, ?_⟩
  apply pointwise_map_both _ _ hpw
  intro r r' ⟨h1, h2⟩
  refine ⟨?_, rekey_dict hρ h2⟩
  simp only [id]
  rw [h1, hρ]

end ChythonModel.Proofs.C01
