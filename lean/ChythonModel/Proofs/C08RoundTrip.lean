import ChythonModel.Model.SmartsParse
import ChythonModel.Spec.SmartsDoc
/-!
# C08 — kernel evaluation of the reader on the enumerated grid of documented bracket atoms (split so the parts build in parallel)
-/
namespace ChythonModel.Proofs.C08
open ChythonModel.Model.Query ChythonModel.Spec.Query

/-- the documented atom is well-formed, and reading its canonical spelling gives exactly the documented query atom -/
def roundTrips (d : DocAtom) : Bool :=
  DocWF d && (smartsModel ('[' :: printDoc d ++ [']']) [] == .ok ⟨[(numberOf d, denote d)], []⟩)

theorem rt_plain : gridPlain.all roundTrips = true := by decide +kernel
theorem rt_metal : gridMetal.all roundTrips = true := by decide +kernel
theorem rt_marks : gridMarks.all roundTrips = true := by decide +kernel
theorem rt_combos : gridCombos.all roundTrips = true := by decide +kernel

end ChythonModel.Proofs.C08
