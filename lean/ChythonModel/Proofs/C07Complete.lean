import ChythonModel.Proofs.C07Sound
/-!
Completeness (every embedding is an accepted path) and the link between accepted paths and `recMapping`.
-/
namespace ChythonModel.Proofs.C07
open ChythonModel.Model.Iso ChythonModel.Spec.Embedding

theorem emb_path_at' (e : Env) (f : Nat → Nat) (j : Nat) (s : Step) (hs : e.lq[j]? = some s) :
    ((e.lq.map (·.front)).map f)[j]? = some (f s.front) := by
  simp [hs]

section complete
variable {q : Graph} {e : Env} (hS : Setting q e) {f : Nat → Nat}
  (emb : EmbedsComp q e.t (e.lq.map (·.front)) e.scope e.atomOk e.bondOk f)
include hS emb

theorem emb_fOf (u : Nat) (hu : u ∈ e.lq.map (·.front)) : fOf e.lq ((e.lq.map (·.front)).map f) u = f u := by
  obtain ⟨j, s, hs, rfl⟩ := pos_of_mem e.lq u hu
  exact fOf_front e.lq hS.nodup _ j s _ hs (emb_path_at' e f j s hs)

theorem embeds_pathValid : PathValid e ((e.lq.map (·.front)).map f) := by
  have hF : ∀ k (s : Step), e.lq[k]? = some s → s.front ∈ e.lq.map (·.front) := fun k s h => front_mem e.lq k s h
  refine ⟨by simp, ?_, ?_⟩
  · intro r hr
    rw [mem_roots]
    cases hs : e.lq[0]? with
    | none => simp [hs] at hr
    | some s =>
      simp [hs] at hr
      subst hr
      have hm := hF 0 s hs
      exact ⟨s, rfl, hS.oatoms ▸ emb.atom_in_target _ hm, emb.in_scope _ hm, emb.atom_matches _ hm⟩
  · intro j c hj hc
    set p := (e.lq.map (·.front)).map f with hp
    have hplen : p.length = e.lq.length := by simp [hp]
    cases hs : e.lq[j]? with
    | none => simp [hp, hs] at hc
    | some s =>
      have hcs : c = f s.front := by
        have := emb_path_at' e f j s hs
        rw [← hp, hc] at this
        exact Option.some.inj this
      subst hcs
      rw [children_iff_facts q e hS.ok hS.nodup p hplen j hj s hs]
      have hst := hS.ok.step j s hs
      obtain ⟨b, hb⟩ := back_exists q e.cl e.lq hS.ok j hj s hs
      obtain ⟨hbe, hbn, hbcl⟩ := hst.back_some b hb
      have hsF := hF j s hs
      have hEF : ∀ m, m ∈ (e.lq.take j).map (·.front) → m ∈ e.lq.map (·.front) := by
        intro m hm
        obtain ⟨k', s', _, hs', hs'b⟩ := mem_fronts_take e.lq j m hm
        rw [← hs'b]; exact hF k' s' hs'
      have hbF := hEF b hbe
      have hg : ∀ u ∈ e.lq.map (·.front), fOf e.lq p u = f u := fun u hu => emb_fOf hS emb u hu
      have hEtake : ∀ m, m ∈ (e.lq.take j).map (·.front) → f m ∈ p.take j := by
        intro m hm
        obtain ⟨k', s', hk', hs', hs'b⟩ := mem_fronts_take e.lq j m hm
        rw [mem_take_iff]
        exact ⟨k', hk', by rw [← hs'b]; exact emb_path_at' e f k' s' hs'⟩
      have hbm := emb.bond_matches b hbF s.front (hS.qsymm _ _ hbn)
      refine ⟨b, hb, ?_, emb.in_scope _ hsF, ?_, ?_, emb.atom_matches _ hsF, ?_, ?_⟩
      · rw [hg b hbF]; exact hbm.1
      · intro hin
        obtain ⟨k, hk, hpk⟩ := (mem_take_iff p j _).1 hin
        have hkl : k < e.lq.length := by
          by_contra hcon
          rw [List.getElem?_eq_none (by omega)] at hpk
          simp at hpk
        have hsk : e.lq[k]? = some e.lq[k] := by simp [hkl]
        have := emb_path_at' e f k _ hsk
        rw [← hp, hpk] at this
        have heq := emb.injective _ hsF _ (hF k _ hsk) (Option.some.inj this)
        have := pos_unique e.lq hS.nodup j k s _ hs hsk heq
        omega
      · rw [hg b hbF]; exact hbm.2
      · intro y
        constructor
        · rintro ⟨h1, h2, h3⟩
          obtain ⟨k, hk, hpk⟩ := (mem_take_iff p j y).1 h3
          have hkl : k < e.lq.length := by
            by_contra hcon
            rw [List.getElem?_eq_none (by omega)] at hpk
            simp at hpk
          have hsk : e.lq[k]? = some e.lq[k] := by simp [hkl]
          have hy := emb_path_at' e f k _ hsk
          rw [← hp, hpk] at hy
          have hy := Option.some.inj hy
          subst hy
          have hvF := hF k _ hsk
          have hvn := emb.no_extra_bond _ hsF _ hvF h1
          have hvE := front_mem_take e.lq k j _ hk hsk
          have hmem := (hst.cls _).2 ⟨hvn, hvE⟩
          rw [hb] at hmem
          simp only [Option.toList_some, List.cons_append, List.nil_append, List.mem_cons] at hmem
          rcases hmem with hvb | hvcl
          · exfalso; apply h2; rw [hvb, hg b hbF]
          · exact List.mem_map.2 ⟨_, hvcl, hg _ hvF⟩
        · intro hy
          obtain ⟨m, hm, hfm⟩ := List.mem_map.1 hy
          obtain ⟨hmn, hmE⟩ := (hst.cls m).1 (by simp [hm])
          have hmF := hEF m hmE
          rw [hg m hmF] at hfm
          subst hfm
          refine ⟨(emb.bond_matches _ hsF m hmn).1, ?_, hEtake m hmE⟩
          rw [hg b hbF]
          intro h
          have := emb.injective _ hmF _ hbF h
          exact hbcl (this ▸ hm)
      · intro m hm
        obtain ⟨hmn, hmE⟩ := (hst.cls m).1 (by simp [hm])
        rw [hg m (hEF m hmE)]
        exact (emb.bond_matches _ hsF m hmn).2

end complete

/-! ## the recursive enumerator returns exactly the accepted paths -/

def allPaths (e : Env) : List (List Nat) := (roots e).reverse.flatMap fun r => extend e (e.lq.length - 1) [r]

theorem recMapping_eq (e : Env) : recMapping e = (allPaths e).map fun p => (e.lq.map (·.front)).zip p := rfl

theorem mem_allPaths (e : Env) (hne : e.lq ≠ []) (p : List Nat) : p ∈ allPaths e ↔ PathValid e p := by
  have hlen : 1 ≤ e.lq.length := by
    cases h : e.lq with
    | nil => exact absurd h hne
    | cons a l => simp
  unfold allPaths
  simp only [List.mem_flatMap, List.mem_reverse]
  constructor
  · rintro ⟨r, hr, hp⟩
    obtain ⟨suf, hps, hsl, hall⟩ := extend_sound e _ _ _ hp
    subst hps
    refine ⟨by simp [hsl]; omega, ?_, ?_⟩
    · intro r' h; simp at h; subst h; exact hr
    · intro i c hi hc
      obtain ⟨j, rfl⟩ : ∃ j, i = j + 1 := ⟨i - 1, by omega⟩
      have : suf[j]? = some c := by simpa using hc
      have := hall j c this
      simpa [Nat.add_comm 1 j] using this
  · intro pv
    match p, pv with
    | [], pv => have := pv.len; simp at this; omega
    | r :: suf, pv =>
      refine ⟨r, pv.root r (by simp), ?_⟩
      have := extend_complete e (e.lq.length - 1) [r] suf (by have := pv.len; simp at this; omega) (by
        intro j c hj
        have := pv.step (j + 1) c (by omega) (by simpa using hj)
        simpa [Nat.add_comm 1 j] using this)
      simpa using this

theorem children_nodup (e : Env) (ht : ∀ x, (e.t.nbrs x).Nodup) (d : Nat) (path : List Nat) :
    (children e d path).Nodup := by
  unfold children
  split
  · simp
  · split
    · simp
    · split
      · simp
      · exact List.Nodup.filter _ (ht _)

theorem allPaths_nodup (e : Env) (ht : ∀ x, (e.t.nbrs x).Nodup) (ha : e.oAtoms.Nodup) : (allPaths e).Nodup := by
  unfold allPaths
  rw [List.nodup_flatMap]
  refine ⟨fun r _ => extend_nodup e (children_nodup e ht) _ _, ?_⟩
  have hr : (roots e).reverse.Nodup := by
    rw [List.nodup_reverse]
    unfold roots
    split
    · simp
    · exact List.Nodup.filter _ ha
  refine List.Pairwise.imp_of_mem ?_ hr
  intro a b _ _ hab
  simp only [Function.onFun]
  intro p hpa hpb
  obtain ⟨s1, h1, _, _⟩ := extend_sound e _ _ p hpa
  obtain ⟨s2, h2, _, _⟩ := extend_sound e _ _ p hpb
  rw [h1] at h2
  simp at h2
  exact hab h2.1

end ChythonModel.Proofs.C07
