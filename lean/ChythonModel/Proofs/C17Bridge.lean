import ChythonModel.Proofs.C17WF
/-! C17: on a well-formed molecule no subscript of `_chains` fails: the model's `chains` (with `KeyError`) equals the
totalised `chainsP` about which the loop lemmas are proved. The lemmas below restate them for the model's `chains`. -/
set_option linter.unusedSimpArgs false
namespace ChythonModel.Proofs.C17
open ChythonModel.Model ChythonModel.Model.Fingerprint ChythonModel.Spec.Fingerprint

theorem lookup_isSome_of_mem_keys {β : Type} : ∀ (l : List (Nat × β)) (k : Nat), k ∈ l.map (·.1) → ∃ v, l.lookup k = some v
  | [], _, h => by simp at h
  | (k', v) :: l, k, h => by
    rw [List.lookup_cons]
    by_cases e : k = k'
    · subst e; simp
    · have : (k == k') = false := by simpa using e
      rw [this]
      simp only [List.map_cons, List.mem_cons] at h
      rcases h with h | h
      · exact absurd h e
      · exact lookup_isSome_of_mem_keys l k h

theorem getItem_adj (m : Mol) (hwf : m.WF = true) (x : Nat) (hx : x ∈ m.ids) :
    getItem m.adj x = .ok (m.nbrs x) := by
  unfold getItem Mol.nbrs
  have hk := (wf_parts m hwf).2.1
  obtain ⟨ms, hms⟩ := lookup_isSome_of_mem_keys m.adj x (by rw [hk]; exact hx)
  rw [hms]; rfl

theorem extend_eq_pure (m : Mol) (hwf : m.WF = true) (now : Path) (l : Nat) (hl : now.getLast? = some l) (hin : l ∈ m.ids) :
    extend m now = .ok (extendP m now) := by
  unfold extend extendP
  simp only [hl, getItem_adj m hwf l hin, bind, Except.bind, pure, Except.pure]

/-- the error branch: a path ending in an atom without a neighbour dict raises `KeyError` -/
theorem extend_keyError (m : Mol) (now : Path) (l : Nat) (hl : now.getLast? = some l) (hno : m.adj.lookup l = none) :
    extend m now = .error .keyError := by
  unfold extend getItem
  simp only [hl, hno, bind, Except.bind, throw, throwThe, MonadExceptOf.throw]

theorem chainsLoop_eq_pure (m : Mol) (hwf : m.WF = true) (lo hi : Int) : ∀ (fuel : Nat) (q arr : List Path),
    (∀ now ∈ q, ∃ l, now.getLast? = some l ∧ l ∈ m.ids) →
    chainsLoop m lo hi fuel q arr = chainsLoopP m lo hi fuel q arr
  | 0, _, _, _ => rfl
  | f + 1, [], _, _ => rfl
  | f + 1, now :: q, arr, h => by
    obtain ⟨l, hl, hin⟩ := h now (by simp)
    have hq : ∀ n ∈ q, ∃ l, n.getLast? = some l ∧ l ∈ m.ids := fun n hn => h n (List.mem_cons_of_mem _ hn)
    rw [chainsLoop, chainsLoopP, extend_eq_pure m hwf now l hl hin]
    cases hvar : extendP m now with
    | nil => exact chainsLoop_eq_pure m hwf lo hi f q arr hq
    | cons v0 vs =>
      simp only []
      apply chainsLoop_eq_pure m hwf lo hi f
      intro n hn
      have hchild : ∀ c ∈ v0 :: vs, ∃ l, c.getLast? = some l ∧ l ∈ m.ids := by
        intro c hc
        rw [← hvar] at hc
        obtain ⟨l', x, _, hadj, _, rfl⟩ := (mem_extend m now c).mp hc
        exact ⟨x, by simp, closed_of_wf m hwf l' x hadj⟩
      split at hn
      · rcases List.mem_append.mp hn with hn | hn
        · exact hq n hn
        · exact hchild n hn
      · exact hq n hn

theorem chains_eq_pure (m : Mol) (hwf : m.WF = true) (lo hi : Int) : chains m lo hi = chainsP m lo hi := by
  have hs : ∀ now ∈ m.ids.map (fun x => [x]), ∃ l, now.getLast? = some l ∧ l ∈ m.ids := by
    intro now hn
    obtain ⟨x, hx, rfl⟩ := List.mem_map.mp hn
    exact ⟨x, rfl, hx⟩
  unfold chains chainsP
  simp only []
  split
  · split
    · rfl
    · exact chainsLoop_eq_pure m hwf lo hi _ _ _ hs
  · exact chainsLoop_eq_pure m hwf lo hi _ _ _ hs

theorem chains_ok (m : Mol) (hwf : m.WF = true) (lo hi : Int) : ∃ r, chains m lo hi = .ok r := by
  rw [chains_eq_pure m hwf]; exact chainsP_ok m lo hi

theorem chains_exact_aux (m : Mol) (hwf : m.WF = true) (lo hi : Int) (h1 : 1 ≤ lo) (h2 : lo ≤ hi) (r : List Path)
    (h : chains m lo hi = .ok r) (x : Path) :
    x ∈ r ↔ ∃ p, SimplePath m p ∧ lo ≤ (p.length : Int) ∧ (p.length : Int) ≤ hi ∧ x = canon p := by
  rw [chains_eq_pure m hwf] at h
  exact chainsP_exact_aux m (closed_of_wf m hwf) lo hi h1 h2 r h x

theorem chains_nodup_aux (m : Mol) (hwf : m.WF = true) (lo hi : Int) (r : List Path) (h : chains m lo hi = .ok r) :
    r.Nodup := by
  rw [chains_eq_pure m hwf] at h
  exact chainsP_nodup_aux m (wf_parts m hwf).1 lo hi r h

end ChythonModel.Proofs.C17
