import ChythonModel.Proofs.C03HydTotal
import ChythonModel.Proofs.C03SmilesIff
import ChythonModel.Proofs.C03Hydrogens
/-!
# C03 — the context the hydrogen loop reads, stated on the bond list of the record

`hCtx` reads the built container (`_bonds[n]` in insertion order).  Here it is connected to the bond list
`r.bonds : List (i, j, order)` over atom positions of the record the container was built from, so that the per-atom
hydrogen statements can be made on the graph that was written.
-/
namespace ChythonModel.Proofs.C03
open ChythonModel.Model.C03 ChythonModel.Gen.C03 ChythonModel.Model.Valence

/-! ## Target 1 — the adjacency built by the bond loop -/

/-- the entries the bond loop appends to atom position `i`'s neighbour dict, in order -/
def incident (mapping : List Nat) (i : Nat) : List (Nat × Nat × Nat) → List (Nat × Nat)
  | [] => []
  | (x, y, o) :: tl =>
    (if x = i then [((mapping[y]?).getD 0, o)] else if y = i then [((mapping[x]?).getD 0, o)] else []) ++
      incident mapping i tl

/-- the bond loop, for an arbitrary accumulator: atom position `i`'s entry gets exactly `incident mapping i bs`
    appended -/
theorem buildBonds_adj_gen (mapping : List Nat) (hnd : mapping.Nodup) (i : Nat) (hi : i < mapping.length) :
    ∀ (bs : List (Nat × Nat × Nat)) (adj0 adj : List (Nat × List (Nat × Nat))) (l0 : List (Nat × Nat)),
      buildBonds mapping bs adj0 = .ok adj → lookupNat mapping[i] adj0 = some l0 →
      lookupNat mapping[i] adj = some (l0 ++ incident mapping i bs)
  | [], adj0, adj, l0, h, hl => by
    simp only [buildBonds, Except.ok.injEq] at h
    subst h
    simp [incident, hl]
  | (x, y, o) :: tl, adj0, adj, l0, h, hl => by
    unfold buildBonds at h
    split at h
    · rename_i n m hn hm
      split at h
      · cases h
      · rename_i hnm
        split at h
        · rename_i nl ml hnl hml
          split at h
          · cases h
          · split at h
            · cases h
            · obtain ⟨hx, hxn⟩ := List.getElem?_eq_some_iff.mp hn
              obtain ⟨hy, hym⟩ := List.getElem?_eq_some_iff.mp hm
              subst hxn; subst hym
              have hxy : ¬ x = y := by
                intro e; subst e; simp at hnm
              have step : lookupNat mapping[i]
                  (adjAdd (adjAdd adj0 mapping[x] mapping[y] o) mapping[y] mapping[x] o) =
                  some (l0 ++ (if x = i then [(mapping[y], o)] else if y = i then [(mapping[x], o)] else [])) := by
                rw [lookupNat_adjAdd, lookupNat_adjAdd, lookupNat_adjAdd]
                simp only [List.getElem_inj hnd]
                by_cases h1 : x = i
                · subst h1
                  have : ¬ x = y := hxy
                  simp [this, hl]
                · by_cases h2 : y = i
                  · subst h2
                    have : ¬ y = x := fun e => hxy e.symm
                    simp [this, h1, hl]
                  · have h1' : ¬ i = x := fun e => h1 e.symm
                    have h2' : ¬ i = y := fun e => h2 e.symm
                    simp [h1, h2, h1', h2', hl]
              have := buildBonds_adj_gen mapping hnd i hi tl _ adj _ h step
              rw [this]
              simp [incident, hn, hm, List.append_assoc]
        · cases h
    · cases h

/-- **the adjacency the bond loop builds**: atom position `i` ends with exactly the entries of the bonds incident to
    it, in bond-list order -/
theorem buildBonds_adj (mapping : List Nat) (hnd : mapping.Nodup) (bs : List (Nat × Nat × Nat))
    (adj : List (Nat × List (Nat × Nat)))
    (h : buildBonds mapping bs (mapping.map fun n => (n, [])) = .ok adj) (i : Nat) (hi : i < mapping.length) :
    lookupNat mapping[i] adj = some (incident mapping i bs) := by
  have h0 : lookupNat mapping[i] (mapping.map fun n => (n, ([] : List (Nat × Nat)))) = some [] := by
    obtain ⟨v, hv⟩ := lookupNat_of_key mapping[i] (mapping.map fun n => (n, ([] : List (Nat × Nat))))
      (by simp [List.map_map, Function.comp_def])
    have := lookupNat_mem _ _ _ hv
    simp only [List.mem_map, Prod.mk.injEq] at this
    obtain ⟨_, _, _, rfl⟩ := this
    exact hv
  simpa using buildBonds_adj_gen mapping hnd i hi bs _ adj [] h h0

/-- every bond the loop accepts has both ends inside the atom list -/
theorem buildBonds_inrange (mapping : List Nat) : ∀ (bs : List (Nat × Nat × Nat))
    (adj0 adj : List (Nat × List (Nat × Nat))), buildBonds mapping bs adj0 = .ok adj →
    ∀ b ∈ bs, b.1 < mapping.length ∧ b.2.1 < mapping.length
  | [], _, _, _, b, hb => by simp at hb
  | (x, y, o) :: tl, adj0, adj, h, b, hb => by
    unfold buildBonds at h
    split at h
    · rename_i n m hn hm
      split at h
      · cases h
      · split at h
        · split at h
          · cases h
          · split at h
            · cases h
            · simp only [List.mem_cons] at hb
              rcases hb with rfl | hb
              · exact ⟨(List.getElem?_eq_some_iff.mp hn).1, (List.getElem?_eq_some_iff.mp hm).1⟩
              · exact buildBonds_inrange mapping tl _ adj h b hb
        · cases h
    · cases h

/-! ## Target 2 — the context of atom position `i` of a built molecule -/

/-- atomic number of the atom at position `j` of the record (0 when there is none / the element is unknown) -/
def zAt (r : MolRec) (j : Nat) : Nat :=
  match r.atoms[j]? with
  | some a => (match atomCheck a with
    | .ok z => z
    | .error _ => 0)
  | none => 0

/-- `(order, Z of the other end)` of the bonds of `bs` incident to position `i`, in order -/
def bondsAtL (r : MolRec) (i : Nat) : List (Nat × Nat × Nat) → List BE
  | [] => []
  | (x, y, o) :: tl =>
    (if x = i then [(o, zAt r y)] else if y = i then [(o, zAt r x)] else []) ++ bondsAtL r i tl

/-- the bonds of the record at position `i` as `calc_implicit` sees them -/
def bondsAt (r : MolRec) (i : Nat) : List BE := bondsAtL r i r.bonds

/-- sum of the orders (other than aromatic 4 and "any" 8) of the bonds of the record incident to position `i` -/
def valSum (bs : List (Nat × Nat × Nat)) (i : Nat) : Nat :=
  ((bs.filter fun b => (b.1 == i || b.2.1 == i) && b.2.2 != 4 && b.2.2 != 8).map (·.2.2)).sum

/-- number of aromatic bonds of the record incident to position `i` -/
def aromAt (bs : List (Nat × Nat × Nat)) (i : Nat) : Nat :=
  (bs.filter fun b => (b.1 == i || b.2.1 == i) && b.2.2 == 4).length

theorem buildAtoms_getElem : ∀ (ns : List Nat) (as : List AtomTok)
    (l : List (Nat × Nat × Option Nat × Int × Bool × Option Nat)), buildAtoms ns as = .ok l →
    ns.length = as.length → ∀ (i : Nat) (a : AtomTok), as[i]? = some a →
    ∃ z, atomCheck a = .ok z ∧ l[i]? = some ((ns[i]?).getD 0, z, a.isotope, a.charge, a.radical, a.hyd)
  | [], [], _, _, _, i, a, hi => by simp at hi
  | [], _ :: _, _, _, hl, _, _, _ => by simp at hl
  | _ :: _, [], _, _, hl, _, _, _ => by simp at hl
  | n :: ns, b :: as, l, h, hl, i, a, hi => by
    unfold buildAtoms at h
    split at h
    · cases h
    · rename_i z hz
      split at h
      · cases h
      · rename_i tl htl
        cases h
        cases i with
        | zero =>
          simp only [List.getElem?_cons_zero, Option.some.injEq] at hi
          subst hi
          exact ⟨z, hz, by simp⟩
        | succ j =>
          simp only [List.getElem?_cons_succ] at hi
          obtain ⟨z', h1, h2⟩ := buildAtoms_getElem ns as tl htl (by simpa using hl) j a hi
          exact ⟨z', h1, by simpa using h2⟩

theorem find_of_nodup_ids {β} : ∀ (l : List (Nat × β)), (l.map (·.1)).Nodup → ∀ (j : Nat) (e : Nat × β),
    l[j]? = some e → l.find? (·.1 == e.1) = some e
  | [], _, j, e, h => by simp at h
  | p :: tl, hnd, j, e, h => by
    simp only [List.map_cons, List.nodup_cons] at hnd
    cases j with
    | zero =>
      simp only [List.getElem?_cons_zero, Option.some.injEq] at h
      subst h
      simp
    | succ k =>
      simp only [List.getElem?_cons_succ] at h
      have hmem : e.1 ∈ tl.map (·.1) := List.mem_map.mpr ⟨e, List.mem_of_getElem? h, rfl⟩
      have hne : (p.1 == e.1) = false := by
        simp only [beq_eq_false_iff_ne, ne_eq]
        intro e'; rw [e'] at hnd; exact hnd.1 hmem
      rw [List.find?_cons, hne]
      exact find_of_nodup_ids tl hnd.2 k e h

theorem explicitSum_append (a b : List BE) : explicitSum (a ++ b) = explicitSum a + explicitSum b := by
  simp [explicitSum, counted, List.filter_append, List.map_append, List.sum_append]

theorem aromaCount_append (a b : List BE) : aromaCount (a ++ b) = aromaCount a + aromaCount b := by
  simp [aromaCount, List.filter_append]

theorem valSum_cons (x y o : Nat) (tl : List (Nat × Nat × Nat)) (i : Nat) :
    valSum ((x, y, o) :: tl) i =
      (if (x = i ∨ y = i) ∧ o ≠ 4 ∧ o ≠ 8 then o else 0) + valSum tl i := by
  unfold valSum
  rw [List.filter_cons]
  split
  · rename_i h
    simp only [Bool.and_eq_true, Bool.or_eq_true, beq_iff_eq, bne_iff_ne, ne_eq] at h
    simp [h.1.1, h.1.2, h.2]
  · rename_i h
    simp only [Bool.and_eq_true, Bool.or_eq_true, beq_iff_eq, bne_iff_ne, ne_eq] at h
    have : ¬ ((x = i ∨ y = i) ∧ o ≠ 4 ∧ o ≠ 8) := fun ⟨a, b, c⟩ => h ⟨⟨a, b⟩, c⟩
    simp [this]

theorem aromAt_cons (x y o : Nat) (tl : List (Nat × Nat × Nat)) (i : Nat) :
    aromAt ((x, y, o) :: tl) i = (if (x = i ∨ y = i) ∧ o = 4 then 1 else 0) + aromAt tl i := by
  unfold aromAt
  rw [List.filter_cons]
  split
  · rename_i h
    simp only [Bool.and_eq_true, Bool.or_eq_true, beq_iff_eq] at h
    simp [h.1, h.2]; omega
  · rename_i h
    simp only [Bool.and_eq_true, Bool.or_eq_true, beq_iff_eq] at h
    simp [h]

theorem explicitSum_single (o z : Nat) : explicitSum [(o, z)] = if o ≠ 4 ∧ o ≠ 8 then o else 0 := by
  by_cases h4 : o = 4
  · subst h4; simp [explicitSum, counted]
  · by_cases h8 : o = 8
    · subst h8; simp [explicitSum, counted]
    · simp [explicitSum, counted, h4, h8]

theorem aromaCount_single (o z : Nat) : aromaCount [(o, z)] = if o = 4 then 1 else 0 := by
  by_cases h4 : o = 4
  · subst h4; simp [aromaCount]
  · simp [aromaCount, h4]

theorem explicitSum_bondsAtL (r : MolRec) (i : Nat) : ∀ (bs : List (Nat × Nat × Nat)),
    explicitSum (bondsAtL r i bs) = valSum bs i
  | [] => by simp [bondsAtL, valSum, explicitSum, counted]
  | (x, y, o) :: tl => by
    rw [bondsAtL, explicitSum_append, valSum_cons, explicitSum_bondsAtL r i tl]
    congr 1
    by_cases h1 : x = i
    · simp [h1, explicitSum_single]
    · by_cases h2 : y = i
      · simp [h1, h2, explicitSum_single]
      · simp [h1, h2, explicitSum, counted]

theorem aromaCount_bondsAtL (r : MolRec) (i : Nat) : ∀ (bs : List (Nat × Nat × Nat)),
    aromaCount (bondsAtL r i bs) = aromAt bs i
  | [] => by simp [bondsAtL, aromAt, aromaCount]
  | (x, y, o) :: tl => by
    rw [bondsAtL, aromaCount_append, aromAt_cons, aromaCount_bondsAtL r i tl]
    congr 1
    by_cases h1 : x = i
    · simp [h1, aromaCount_single]
    · by_cases h2 : y = i
      · simp [h1, h2, aromaCount_single]
      · simp [h1, h2, aromaCount]

/-- the neighbour entries of position `i` resolve to `(order, Z of the other end)` -/
theorem mapM_incident (m : MolOut) (r : MolRec)
    (hz : ∀ j, j < r.mapping.length → zOfAtom m ((r.mapping[j]?).getD 0) = some (zAt r j)) (i : Nat) :
    ∀ (bs : List (Nat × Nat × Nat)), (∀ b ∈ bs, b.1 < r.mapping.length ∧ b.2.1 < r.mapping.length) →
      (incident r.mapping i bs).mapM (fun (kb : Nat × Nat) => (zOfAtom m kb.1).map fun z => (kb.2, z)) =
        some (bondsAtL r i bs)
  | [], _ => by simp [incident, bondsAtL]
  | (x, y, o) :: tl, hb => by
    obtain ⟨hx, hy⟩ := hb (x, y, o) (by simp)
    have ih := mapM_incident m r hz i tl (fun b h => hb b (by simp [h]))
    by_cases h1 : x = i
    · simp [incident, bondsAtL, h1, List.mapM_cons, hz y hy, ih]
    · by_cases h2 : y = i
      · simp [incident, bondsAtL, h1, h2, List.mapM_cons, hz x hx, ih]
      · simp [incident, bondsAtL, h1, h2, ih]

theorem buildMol_parts (r : MolRec) (m : MolOut) (h : buildMol r = .ok m) :
    buildAtoms r.mapping r.atoms = .ok m.atoms ∧
      buildBonds r.mapping r.bonds (m.atoms.map fun a => (a.1, [])) = .ok m.adj := by
  unfold buildMol at h
  split at h
  · cases h
  · rename_i atoms ha
    split at h
    · cases h
    · rename_i adj hb
      cases h
      exact ⟨ha, hb⟩

/-- the atomic number the hydrogen loop finds for the atom numbered `mapping[j]` is the one of position `j` -/
theorem zOfAtom_built (r : MolRec) (m : MolOut) (h : buildMol r = .ok m) (hnd : r.mapping.Nodup)
    (hlen : r.mapping.length = r.atoms.length) (j : Nat) (hj : j < r.mapping.length) :
    zOfAtom m ((r.mapping[j]?).getD 0) = some (zAt r j) := by
  obtain ⟨ha, _⟩ := buildMol_parts r m h
  have hj' : j < r.atoms.length := hlen ▸ hj
  have hrj : r.atoms[j]? = some r.atoms[j] := by simp [hj']
  obtain ⟨z, hz, he⟩ := buildAtoms_getElem _ _ _ ha hlen j _ hrj
  have hids := (buildAtoms_ids_len _ _ _ ha hlen).1
  have hf := find_of_nodup_ids m.atoms (by rw [hids]; exact hnd) j _ he
  simp only at hf
  simp [zOfAtom, hf, zAt, hrj, hz]

/-- **the context of atom position `i` of a built molecule, in terms of the record** -/
theorem hCtx_built (r : MolRec) (m : MolOut) (h : buildMol r = .ok m) (hnd : r.mapping.Nodup)
    (hlen : r.mapping.length = r.atoms.length) (i : Nat) (a : AtomTok) (hi : r.atoms[i]? = some a) :
    ∃ z, atomCheck a = .ok z ∧
      m.atoms[i]? = some ((r.mapping[i]?).getD 0, z, a.isotope, a.charge, a.radical, a.hyd) ∧
      hCtx m ((r.mapping[i]?).getD 0, z, a.isotope, a.charge, a.radical, a.hyd) =
        some ⟨z, a.charge, a.radical, bondsAt r i⟩ := by
  obtain ⟨ha, hb⟩ := buildMol_parts r m h
  obtain ⟨z, hz, he⟩ := buildAtoms_getElem _ _ _ ha hlen i a hi
  refine ⟨z, hz, he, ?_⟩
  have hi' : i < r.mapping.length := by
    rw [hlen]; exact (List.getElem?_eq_some_iff.mp hi).1
  have hids := (buildAtoms_ids_len _ _ _ ha hlen).1
  have hinit : (m.atoms.map fun a => (a.1, ([] : List (Nat × Nat)))) = r.mapping.map fun n => (n, []) := by
    rw [← hids, List.map_map]; rfl
  rw [hinit] at hb
  have hadj := buildBonds_adj r.mapping hnd r.bonds m.adj hb i hi'
  have hmi : (r.mapping[i]?).getD 0 = r.mapping[i] := by simp [hi']
  have hmap := mapM_incident m r (zOfAtom_built r m h hnd hlen) i r.bonds
    (buildBonds_inrange r.mapping r.bonds _ _ hb)
  unfold hCtx
  simp only [hmi, hadj]
  rw [hmap]
  rfl

/-- … with the bond sums of the record -/
theorem hCtx_of_built (r : MolRec) (m : MolOut) (h : buildMol r = .ok m) (hnd : r.mapping.Nodup)
    (hlen : r.mapping.length = r.atoms.length) (i : Nat) (a : AtomTok) (hi : r.atoms[i]? = some a) :
    ∃ e c z, m.atoms[i]? = some e ∧ e.1 = (r.mapping[i]?).getD 0 ∧ e.2.1 = z ∧ atomCheck a = .ok z ∧
      e.2.2.2.2.2 = a.hyd ∧
      hCtx m e = some c ∧ c.z = z ∧ c.charge = a.charge ∧ c.radical = a.radical ∧
      explicitSum c.bonds = valSum r.bonds i ∧ aromaCount c.bonds = aromAt r.bonds i := by
  obtain ⟨z, hz, he, hc⟩ := hCtx_built r m h hnd hlen i a hi
  exact ⟨_, _, z, he, rfl, rfl, hz, rfl, hc, rfl, rfl, rfl,
    explicitSum_bondsAtL r i r.bonds, aromaCount_bondsAtL r i r.bonds⟩

/-! ## Target 3 — hydrogens on the graph -/

open ChythonModel.Spec ChythonModel.Spec.Smiles in
/-- organic subset, up to the lowest normal valence `v0`: the OpenSMILES count is `v0 − v` -/
theorem organicH_low (z : Nat) (hz : z ∈ OrganicValence.organicSubset) (v0 : Nat)
    (hl : OrganicValence.lowest z = some v0) (v : Nat) (hle : v ≤ v0) : organicH z v = some (v0 - v) := by
  simp only [OrganicValence.organicSubset, List.mem_map] at hz
  obtain ⟨zv, hzv, rfl⟩ := hz
  cases hhd : zv.2.head? with
  | none =>
    have : ∀ zv ∈ OrganicValence.normalValences, zv.2.head? ≠ none := by decide
    exact absurd hhd (this zv hzv)
  | some w =>
    obtain ⟨hlw, hall⟩ := organic_table zv hzv w (by rw [hhd]; rfl)
    rw [hlw] at hl
    cases hl
    exact (hall v (by simp; omega)).2

/-- **every atom**: entry `i` of the hydrogen loop's result is the per-atom branch of `create_molecule` run on the
    context read off the record — atomic number, charge, radical mark and the incident bonds of the bond list -/
theorem hydrogens_on_graph (r : MolRec) (m : MolOut) (l : List (Nat × Option Nat × Bool))
    (h : buildMol r = .ok m) (hl : molHydrogens m = .ok l)
    (hnd : r.mapping.Nodup) (hlen : r.mapping.length = r.atoms.length)
    (i : Nat) (a : AtomTok) (hi : r.atoms[i]? = some a) (z : Nat) (hz : atomCheck a = .ok z) :
    ∃ res, assignH ⟨z, a.charge, a.radical, bondsAt r i⟩ a.hyd = some res ∧
      l[i]? = some ((r.mapping[i]?).getD 0, res.1, res.2) := by
  obtain ⟨z', hz', he, hc⟩ := hCtx_built r m h hnd hlen i a hi
  rw [hz] at hz'
  cases hz'
  obtain ⟨c, res, hc', hres, hli⟩ := hydLoop_entry m m.atoms l hl i _ he
  rw [hc] at hc'
  cases hc'
  exact ⟨res, hres, hli⟩

/-- **unbracketed neutral organic-subset atom without aromatic bonds, bond orders summing to at most the lowest normal
    valence `v0`: the reader assigns `v0 − (sum of the orders of its bonds in the record)` hydrogens, no radical** -/
theorem organic_hydrogens_on_graph (r : MolRec) (m : MolOut) (l : List (Nat × Option Nat × Bool))
    (h : buildMol r = .ok m) (hl : molHydrogens m = .ok l)
    (hnd : r.mapping.Nodup) (hlen : r.mapping.length = r.atoms.length)
    (i : Nat) (a : AtomTok) (hi : r.atoms[i]? = some a) (z v0 : Nat) (hz : atomCheck a = .ok z)
    (horg : z ∈ ChythonModel.Spec.OrganicValence.organicSubset) (hunb : a.hyd = none) (hq : a.charge = 0)
    (hrad : a.radical = false) (harom : aromAt r.bonds i = 0)
    (hlow : ChythonModel.Spec.OrganicValence.lowest z = some v0) (hle : valSum r.bonds i ≤ v0) :
    l[i]? = some ((r.mapping[i]?).getD 0, some (v0 - valSum r.bonds i), false) := by
  obtain ⟨z', hz', he, hc⟩ := hCtx_built r m h hnd hlen i a hi
  rw [hz] at hz'
  cases hz'
  obtain ⟨c, res, hc', hres, hli⟩ := hydLoop_entry m m.atoms l hl i _ he
  rw [hc] at hc'
  cases hc'
  simp only [hunb, hq, hrad] at hres
  have hes := explicitSum_bondsAtL r i r.bonds
  have hac := aromaCount_bondsAtL r i r.bonds
  rw [organic_low z horg (bondsAt r i) (by rw [bondsAt, hac]; exact harom) v0 hlow
    (by rw [bondsAt, hes]; exact hle), bondsAt, hes, organicH_low z horg v0 hlow _ hle] at hres
  simp only [Option.map_some, Option.some.injEq] at hres
  rw [hli, ← hres]

/-- **bracket atom without aromatic bonds**: the written count `hw` is the final count **iff** `check_implicit` accepts it
    for the atom as written or — when the atom is not marked as a radical — for its radical form, both evaluated on
    the bonds of the record -/
theorem bracket_hydrogens_on_graph (r : MolRec) (m : MolOut) (l : List (Nat × Option Nat × Bool))
    (h : buildMol r = .ok m) (hl : molHydrogens m = .ok l)
    (hnd : r.mapping.Nodup) (hlen : r.mapping.length = r.atoms.length)
    (i : Nat) (a : AtomTok) (hi : r.atoms[i]? = some a) (z : Nat) (hz : atomCheck a = .ok z)
    (hw : Nat) (hb : a.hyd = some hw) (harom : aromAt r.bonds i = 0) (t : Rules) (ht : tableOf z = some t) :
    ∃ hh rad, l[i]? = some ((r.mapping[i]?).getD 0, hh, rad) ∧
      (hh = some hw ↔
        (checkWith t ⟨z, a.charge, a.radical, bondsAt r i⟩ hw = true ∨
          (a.radical = false ∧ checkWith t ⟨z, a.charge, true, bondsAt r i⟩ hw = true))) := by
  obtain ⟨res, hres, hli⟩ := hydrogens_on_graph r m l h hl hnd hlen i a hi z hz
  have hac : aromaCount (bondsAt r i) = 0 := by rw [bondsAt, aromaCount_bondsAtL]; exact harom
  simp only [assignH, ht, Option.map_some, Option.some.injEq, hb] at hres
  refine ⟨res.1, res.2, hli, ?_⟩
  rw [← hres]
  exact assignWith_kept_iff (calcWith t) (checkWith t) ⟨z, a.charge, a.radical, bondsAt r i⟩ hw
    (by simp [isAromaticAtom, hac])
    (fun k hk => check_of_calc t _ k hac hk)
    (fun hn k => check_of_calc_none t _ hac hn k)

end ChythonModel.Proofs.C03
