import ChythonModel.Proofs.C10Chains
/-!
# C10: every entry of the perceived dictionaries comes from a chain of cumulated double bonds of the right parity
-/
namespace ChythonModel.Proofs.C10
open ChythonModel.Model.Pack ChythonModel.Gen ChythonModel.Spec.Cumulene

theorem foldl_term_origin (k : Nat) (v : Nat × Nat) : ∀ (ps : List (List Nat)) (d : List (Nat × Nat × Nat)),
    (ps.foldl termStep d).lookup k = some v →
      d.lookup k = some v ∨ ∃ P ∈ ps, ∃ n m c1 c2, evenKeys P = some (n, m, c1, c2) ∧ v = (n, m) ∧ k ∈ [n, m, c1, c2]
  | [], _, h => Or.inl h
  | p :: r, d, h => by
    rw [List.foldl_cons] at h
    rcases foldl_term_origin k v r _ h with h1 | ⟨P, hP, hx⟩
    · rw [lookup_termStep] at h1
      cases he : evenKeys p with
      | none => rw [he] at h1; exact Or.inl h1
      | some q =>
        obtain ⟨n, m, c1, c2⟩ := q
        simp only [he] at h1
        split at h1
        · rename_i hk
          exact Or.inr ⟨p, by simp, n, m, c1, c2, he, (Option.some.inj h1).symm, hk⟩
        · exact Or.inl h1
    · exact Or.inr ⟨P, by simp [hP], hx⟩

theorem foldl_cent_origin (k : Nat) (v : Nat × Nat) : ∀ (ps : List (List Nat)) (d : List (Nat × Nat × Nat)),
    (ps.foldl centStep d).lookup k = some v →
      d.lookup k = some v ∨ ∃ P ∈ ps, ∃ n m c1 c2, evenKeys P = some (n, m, c1, c2) ∧ v = (c1, c2) ∧ k ∈ [n, m]
  | [], _, h => Or.inl h
  | p :: r, d, h => by
    rw [List.foldl_cons] at h
    rcases foldl_cent_origin k v r _ h with h1 | ⟨P, hP, hx⟩
    · rw [lookup_centStep] at h1
      cases he : evenKeys p with
      | none => rw [he] at h1; exact Or.inl h1
      | some q =>
        obtain ⟨n, m, c1, c2⟩ := q
        simp only [he] at h1
        split at h1
        · rename_i hk
          exact Or.inr ⟨p, by simp, n, m, c1, c2, he, (Option.some.inj h1).symm, hk⟩
        · exact Or.inl h1
    · exact Or.inr ⟨P, by simp [hP], hx⟩

theorem foldl_allene_origin (k : Nat) (v : Nat × Nat) : ∀ (ps : List (List Nat)) (d : List (Nat × Nat × Nat)),
    (ps.foldl alleneStep d).lookup k = some v →
      d.lookup k = some v ∨ ∃ P ∈ ps, ∃ n m, oddKeys P = some (k, n, m) ∧ v = (n, m)
  | [], _, h => Or.inl h
  | p :: r, d, h => by
    rw [List.foldl_cons] at h
    rcases foldl_allene_origin k v r _ h with h1 | ⟨P, hP, hx⟩
    · unfold alleneStep at h1
      cases he : oddKeys p with
      | none => rw [he] at h1; exact Or.inl h1
      | some q =>
        obtain ⟨c, n, m⟩ := q
        simp only [he, lookup_dictSet] at h1
        split at h1
        · rename_i hk
          subst hk
          exact Or.inr ⟨p, by simp, n, m, he, (Option.some.inj h1).symm⟩
        · exact Or.inl h1
    · exact Or.inr ⟨P, by simp [hP], hx⟩

theorem evenKeys_some {P : List Nat} {n m c1 c2 : Nat} (h : evenKeys P = some (n, m, c1, c2)) :
    P.length % 2 = 0 ∧ P.head? = some n ∧ P.getLast? = some m ∧ P[P.length / 2 - 1]? = some c1 ∧
      P[P.length / 2]? = some c2 := by
  unfold evenKeys at h
  split at h
  · simp at h
  · rename_i hl
    split at h
    · rename_i h1 h2 h3 h4
      simp only [Option.some.injEq, Prod.mk.injEq] at h
      obtain ⟨rfl, rfl, rfl, rfl⟩ := h
      refine ⟨?_, h1, h2, h3, h4⟩
      simpa using hl
    · simp at h

theorem oddKeys_some {P : List Nat} {c n m : Nat} (h : oddKeys P = some (c, n, m)) :
    P.length % 2 = 1 ∧ P.head? = some n ∧ P.getLast? = some m ∧ P[P.length / 2]? = some c := by
  unfold oddKeys at h
  split at h
  · simp at h
  · rename_i hl
    split at h
    · rename_i h1 h2 h3
      simp only [Option.some.injEq, Prod.mk.injEq] at h
      obtain ⟨rfl, rfl, rfl⟩ := h
      refine ⟨?_, h2, h3, h1⟩
      simp only [beq_iff_eq] at hl; omega
    · simp at h

theorem stereogenic_sub {atoms : List PAtom} {paths : List (List Nat)} {P : List Nat}
    (h : P ∈ (stereogenicOf atoms paths).map (·.1)) : P ∈ paths := by
  obtain ⟨e, he, rfl⟩ := List.mem_map.mp h
  unfold stereogenicOf at he
  obtain ⟨q, hq, hqe⟩ := List.mem_filterMap.mp he
  cases hs : stereoEnv atoms q with
  | none => simp [hs] at hqe
  | some v => simp only [hs, Option.map_some, Option.some.injEq] at hqe; subst hqe; exact hq

theorem links_get {R : Nat → Nat → Prop} : ∀ (p : List Nat) (i : Nat) (a b : Nat), Links R p → p[i]? = some a →
    p[i + 1]? = some b → R a b
  | [], _, _, _, _, h, _ => by simp at h
  | [_], i, _, _, _, _, h => by simp at h
  | x :: y :: r, 0, a, b, hl, ha, hb => by
    simp only [List.getElem?_cons_zero, Option.some.injEq, Nat.zero_add, List.getElem?_cons_succ] at ha hb
    subst ha; subst hb; exact hl.1
  | x :: y :: r, i + 1, a, b, hl, ha, hb => by
    simp only [List.getElem?_cons_succ] at ha hb
    exact links_get (y :: r) i a b hl.2 ha (by simpa using hb)

theorem head_length {P : List Nat} {n : Nat} (h : P.head? = some n) : 1 ≤ P.length := by
  cases P with
  | nil => simp at h
  | cons a r => simp

theorem terminals_entry {atoms : List PAtom} (g : GraphOK atoms) {p : Perceived} (hp : perceive atoms = .ok p)
    {k tn tm : Nat} (hl : p.terminals.lookup k = some (tn, tm)) :
    ∃ path ∈ p.cumulenes, IsCisTransUnit path ∧ path.head? = some tn ∧ path.getLast? = some tm ∧ k ∈ keys4 path ∧
      (MaximalChain can atoms path ∨ BrokenPiece atoms path) := by
  obtain ⟨ht, _, _, hc, hs⟩ := perceive_fields hp
  rw [ht] at hl
  unfold ctTerminals at hl
  rcases foldl_term_origin k (tn, tm) _ [] hl with h0 | ⟨P, hP, n, m, c1, c2, he, hv, hk⟩
  · simp at h0
  · rw [hs] at hP
    have hPc := stereogenic_sub hP
    obtain ⟨hlen, hh, hla, _, _⟩ := evenKeys_some he
    simp only [Prod.mk.injEq] at hv
    obtain ⟨rfl, rfl⟩ := hv
    refine ⟨P, hPc, ?_, hh, hla, by simp only [keys4, he]; exact hk, cumulenes_sound g hc P hPc⟩
    have := head_length hh
    unfold IsCisTransUnit doubleBonds; omega

theorem centers_entry {atoms : List PAtom} (g : GraphOK atoms) {p : Perceived} (hp : perceive atoms = .ok p)
    {k c1 c2 : Nat} (hl : p.centers.lookup k = some (c1, c2)) :
    ∃ path ∈ p.cumulenes, IsCisTransUnit path ∧ (path.head? = some k ∨ path.getLast? = some k) ∧
      path[path.length / 2 - 1]? = some c1 ∧ path[path.length / 2]? = some c2 ∧ DoubleBond can atoms c1 c2 := by
  obtain ⟨_, hce, _, hc, hs⟩ := perceive_fields hp
  rw [hce] at hl
  unfold ctCenters at hl
  rcases foldl_cent_origin k (c1, c2) _ [] hl with h0 | ⟨P, hP, n, m, d1, d2, he, hv, hk⟩
  · simp at h0
  · rw [hs] at hP
    have hPc := stereogenic_sub hP
    obtain ⟨hlen, hh, hla, h1, h2⟩ := evenKeys_some he
    simp only [Prod.mk.injEq] at hv
    obtain ⟨rfl, rfl⟩ := hv
    have hL := head_length hh
    have hends : P.head? = some k ∨ P.getLast? = some k := by
      simp only [List.mem_cons, List.not_mem_nil, or_false] at hk
      rcases hk with rfl | rfl
      · exact Or.inl hh
      · exact Or.inr hla
    refine ⟨P, hPc, by unfold IsCisTransUnit doubleBonds; omega, hends, h1, h2, ?_⟩
    have hidx : P.length / 2 - 1 + 1 = P.length / 2 := by omega
    rcases cumulenes_sound g hc P hPc with hm | ⟨a, b, hab, hdb, _⟩
    · exact links_get P (P.length / 2 - 1) c1 c2 hm.links h1 (by rw [hidx]; exact h2)
    · subst hab
      simp only [List.length_cons, List.length_nil, Nat.reduceAdd, Nat.reduceDiv, Nat.sub_self,
        List.getElem?_cons_zero, Option.some.injEq, List.getElem?_cons_succ] at h1 h2
      subst h1; subst h2; exact hdb

theorem allenes_entry {atoms : List PAtom} (g : GraphOK atoms) {p : Perceived} (hp : perceive atoms = .ok p)
    {c tn tm : Nat} (hl : p.allenes.lookup c = some (tn, tm)) :
    ∃ path ∈ p.cumulenes, MaximalChain can atoms path ∧ IsAxialUnit path ∧ path.head? = some tn ∧
      path.getLast? = some tm ∧ path[path.length / 2]? = some c := by
  obtain ⟨_, _, hal, hc, hs⟩ := perceive_fields hp
  rw [hal] at hl
  unfold alleneTerminals at hl
  rcases foldl_allene_origin c (tn, tm) _ [] hl with h0 | ⟨P, hP, n, m, he, hv⟩
  · simp at h0
  · rw [hs] at hP
    have hPc := stereogenic_sub hP
    obtain ⟨hlen, hh, hla, h1⟩ := oddKeys_some he
    simp only [Prod.mk.injEq] at hv
    obtain ⟨rfl, rfl⟩ := hv
    have hmax : MaximalChain can atoms P := by
      rcases cumulenes_sound g hc P hPc with hm | ⟨a, b, hab, _⟩
      · exact hm
      · subst hab; simp at hlen
    exact ⟨P, hPc, hmax, by unfold IsAxialUnit doubleBonds; omega, hh, hla, h1⟩

end ChythonModel.Proofs.C10
