import ChythonModel.Model.C20Conformers
import ChythonModel.Proofs.C20Bonds
/-!
# C20 — lemmas about the conformer transfer (`Model/C20Conformers.lean`)

`setPos` (RDKit's growing `SetAtomPosition`) read through `getD · origin` ("a position never written is the origin");
`fillConf` = one pass over a conformer dict in ITS OWN order: which value ends up at which index, how long the result is.
-/
namespace ChythonModel.Proofs.C20
open ChythonModel.Model ChythonModel.Model.Stereo ChythonModel.Model.C20 ChythonModel.Proofs.C12

theorem setPos_length (ps : List P3) (i : Nat) (v : P3) : (setPos ps i v).length = max ps.length (i + 1) := by
  unfold setPos
  split
  · simp only [List.length_set]; omega
  · simp only [List.length_set, List.length_append, List.length_replicate]; omega

theorem setPos_getD (ps : List P3) (i : Nat) (v : P3) (j : Nat) :
    (setPos ps i v).getD j origin = if j = i then v else ps.getD j origin := by
  unfold setPos
  by_cases h : i < ps.length
  · simp only [h, if_true, List.getD_eq_getElem?_getD, List.getElem?_set]
    by_cases hj : j = i
    · subst hj; simp
    · have : ¬ i = j := fun e => hj e.symm
      simp [hj, this]
  · simp only [h, if_false, List.getD_eq_getElem?_getD, List.getElem?_set, List.length_append, List.length_replicate]
    by_cases hj : j = i
    · subst hj
      have : j < ps.length + (j + 1 - ps.length) := by omega
      simp [this]
    · have hne : ¬ i = j := fun e => hj e.symm
      simp only [hne, hj, if_false]
      by_cases hl : j < ps.length
      · rw [List.getElem?_append_left hl]
      · rw [List.getElem?_append_right (by omega), List.getElem?_replicate]
        have : ps[j]? = none := by simp; omega
        rw [this]
        split <;> rfl

theorem idxOf_err {ids : List Nat} {n : Nat} {e : BErr} (h : idxOf ids n = .error e) : e = .py .keyError ∧ n ∉ ids := by
  unfold idxOf at h
  split at h
  · cases h
  · rename_i hn
    cases h
    exact ⟨rfl, (index?_none_iff ids n).mp hn⟩

theorem idxOf_of_mem {ids : List Nat} {n : Nat} (h : n ∈ ids) : ∃ i, idxOf ids n = .ok i ∧ index? ids n = some i := by
  unfold idxOf
  cases hi : index? ids n with
  | none => exact absurd h ((index?_none_iff ids n).mp hi)
  | some i => exact ⟨i, rfl, rfl⟩

/-- the pass succeeds when every key is an atom of the molecule -/
theorem fillConf_ok (ids : List Nat) : ∀ (d : List (Nat × P3)) (ps : List P3), (∀ e ∈ d, e.1 ∈ ids) →
    ∃ ps', fillConf ids d ps = .ok ps' := by
  intro d
  induction d with
  | nil => intro ps _; exact ⟨ps, rfl⟩
  | cons e rest ih =>
    intro ps h
    obtain ⟨n, v⟩ := e
    obtain ⟨i, hi, _⟩ := idxOf_of_mem (h (n, v) (List.mem_cons_self))
    have := ih (setPos ps i v) (fun e he => h e (List.mem_cons_of_mem _ he))
    simpa [fillConf, hi] using this

/-- … and raises `KeyError` as soon as one key is not (`mapping[n]`) -/
theorem fillConf_unknown (ids : List Nat) : ∀ (d : List (Nat × P3)) (ps : List P3), (∃ e ∈ d, e.1 ∉ ids) →
    fillConf ids d ps = .error (.py .keyError) := by
  intro d
  induction d with
  | nil => intro ps h; obtain ⟨e, he, _⟩ := h; cases he
  | cons e rest ih =>
    intro ps h
    obtain ⟨n, v⟩ := e
    cases hi : idxOf ids n with
    | error er =>
      have := (idxOf_err hi).1
      subst this
      simp [fillConf, hi]
    | ok i =>
      have hn : n ∈ ids := by
        have := idxOf_ok hi
        by_contra hc
        rw [(index?_none_iff ids n).mpr hc] at this
        cases this
      obtain ⟨e', he', hne⟩ := h
      have : e' ∈ rest := by
        rcases List.mem_cons.mp he' with rfl | h'
        · exact absurd hn hne
        · exact h'
      simpa [fillConf, hi] using ih (setPos ps i v) ⟨e', this, hne⟩

/-- length of the result: never shorter than before, every written index is inside, and it stays below any bound that the
start and all written indices respect -/
theorem fillConf_length (ids : List Nat) : ∀ (d : List (Nat × P3)) (ps ps' : List P3), fillConf ids d ps = .ok ps' →
    ps.length ≤ ps'.length ∧ (∀ e ∈ d, ∀ i, index? ids e.1 = some i → i < ps'.length) ∧
    (∀ B, ps.length ≤ B → (∀ e ∈ d, ∀ i, index? ids e.1 = some i → i < B) → ps'.length ≤ B) := by
  intro d
  induction d with
  | nil =>
    intro ps ps' h
    simp only [fillConf, Except.ok.injEq] at h
    subst h
    exact ⟨Nat.le_refl _, fun e he => absurd he List.not_mem_nil, fun B hB _ => hB⟩
  | cons e rest ih =>
    intro ps ps' h
    obtain ⟨n, v⟩ := e
    cases hi : idxOf ids n with
    | error er => simp [fillConf, hi] at h
    | ok i =>
      simp only [fillConf, hi] at h
      obtain ⟨h1, h2, h3⟩ := ih (setPos ps i v) ps' h
      have hl := setPos_length ps i v
      refine ⟨by omega, ?_, ?_⟩
      · intro e he j hj
        rcases List.mem_cons.mp he with rfl | h'
        · have := idxOf_ok hi
          simp only at hj
          rw [this] at hj
          cases hj
          omega
        · exact h2 e h' j hj
      · intro B hB hall
        apply h3 B
        · have := hall (n, v) List.mem_cons_self i (idxOf_ok hi)
          omega
        · exact fun e he => hall e (List.mem_cons_of_mem _ he)

theorem getElem?_index_nodup {ids : List Nat} (hnd : ids.Nodup) {n i j : Nat} (hi : index? ids n = some i)
    (hj : ids[j]? = some n) : j = i := by
  have h1 := index?_getElem ids n i hi
  have hlt := index?_lt ids n i hi
  have hjl : j < ids.length := by
    by_contra hc
    have : ids[j]? = none := by simp; omega
    rw [this] at hj; cases hj
  have e1 : ids[i]'hlt = n := by
    have := List.getElem?_eq_getElem hlt
    rw [this] at h1; exact Option.some.inj h1
  have e2 : ids[j]'hjl = n := by
    have := List.getElem?_eq_getElem hjl
    rw [this] at hj; exact Option.some.inj hj
  exact (List.getElem_inj hnd).mp (e2.trans e1.symm)

/-- which value stands at index `j` afterwards: the dict's value for the atom whose index is `j`, else what stood there -/
theorem fillConf_getD (ids : List Nat) (hnd : ids.Nodup) : ∀ (d : List (Nat × P3)) (ps ps' : List P3),
    fillConf ids d ps = .ok ps' → (d.map (·.1)).Nodup → ∀ j,
    ps'.getD j origin = match ids[j]? with
      | some n => (match d.lookup n with | some v => v | none => ps.getD j origin)
      | none => ps.getD j origin := by
  intro d
  induction d with
  | nil =>
    intro ps ps' h _ j
    simp only [fillConf, Except.ok.injEq] at h
    subst h
    cases ids[j]? <;> simp [List.lookup]
  | cons e rest ih =>
    intro ps ps' h hk j
    obtain ⟨n, v⟩ := e
    cases hi : idxOf ids n with
    | error er => simp [fillConf, hi] at h
    | ok i =>
      simp only [fillConf, hi] at h
      have hk' : (rest.map (·.1)).Nodup := (List.nodup_cons.mp (by simpa using hk)).2
      have hnr : n ∉ rest.map (·.1) := (List.nodup_cons.mp (by simpa using hk)).1
      have := ih (setPos ps i v) ps' h hk' j
      rw [this, setPos_getD]
      have hidx := idxOf_ok hi
      cases hj : ids[j]? with
      | none =>
        have : j ≠ i := by
          intro e; subst e
          have := index?_getElem ids n j hidx
          rw [hj] at this; cases this
        simp [this]
      | some n' =>
        by_cases hnn : n' = n
        · subst hnn
          have hji : j = i := getElem?_index_nodup hnd hidx hj
          have hl : rest.lookup n' = none := by
            rw [List.lookup_eq_none_iff]
            intro p hp
            have : n' ≠ p.1 := by
              intro hc
              exact hnr (List.mem_map.mpr ⟨p, hp, hc.symm⟩)
            simpa using this
          simp [List.lookup, hl, hji]
        · have hji : j ≠ i := by
            intro e; subst e
            have := index?_getElem ids n j hidx
            rw [hj] at this
            exact hnn (Option.some.inj this)
          have hb : (n' == n) = false := by simpa using hnn
          simp [List.lookup, hb, hji]

/-- `lookup` in `zip keys values` with distinct keys gives the value standing at the key's position -/
theorem lookup_zip_nodup : ∀ (ids : List Nat) (vals : List P3), ids.Nodup → ids.length = vals.length →
    (ids.map fun n => ((ids.zip vals).lookup n).getD origin) = vals := by
  intro ids
  induction ids with
  | nil => intro vals _ h; cases vals with | nil => rfl | cons _ _ => simp at h
  | cons n rest ih =>
    intro vals hnd hl
    cases vals with
    | nil => simp at hl
    | cons v vs =>
      have hn := List.nodup_cons.mp hnd
      simp only [List.zip_cons_cons, List.map_cons, List.lookup, beq_self_eq_true, Option.getD_some, List.cons.injEq, true_and]
      rw [← ih vs hn.2 (by simpa using hl)]
      apply List.map_congr_left
      intro n' hn'
      have : (n' == n) = false := by
        simp only [beq_eq_false_iff_ne, ne_eq]
        intro e; subst e; exact hn.1 hn'
      simp only [List.lookup, this]
      rw [ih vs hn.2 (by simpa using hl)]

end ChythonModel.Proofs.C20
