import ChythonModel.Proofs.C02Final
/-!
# C02 — the bond symbol read in front of a chain atom is `_format_bond(tree parent, atom)`

* reader side (`rrun_symRead`, `readToks_symRead`): the symbol of every chain edge is the pending bond token in front
  of its second atom (`symRead`);
* writer side (`emit_symRead`): the pending bond tokens in front of the atoms of the emitted list are `formatBond` of
  the pending `FTok.bond` in front of the same atoms of the flattened list (`fsym`), entry by entry;
* structure of `flatten` (`fsym_flat`): every atom except the first is immediately preceded by `.bond p c` with `c` itself;
* `chain_symbols`, `chain_symbols_parent`.
-/
namespace ChythonModel.Proofs.C02
open ChythonModel.Model ChythonModel.Model.SmilesWriter ChythonModel.Model.C02RT

/-! ## reader side -/

/-- the pending bond symbol in front of every atom token that forms a chain edge (`hp` = there is a previous atom,
    `ad` = a dot was seen since) -/
def symRead : Bool → Bool → Option Str → List WTok → List (Nat × Option Str)
  | _, _, _, [] => []
  | hp, ad, pend, .atom n _ :: ts => (if hp && !ad then [(n, pend)] else []) ++ symRead true false none ts
  | hp, ad, _, .bond s :: ts => symRead hp ad (some s) ts
  | hp, ad, _, .closure _ :: ts => symRead hp ad none ts
  | hp, ad, pend, .lpar :: ts => symRead hp ad pend ts
  | _, ad, pend, .rpar :: ts => symRead true ad pend ts
  | hp, _, pend, .dot :: ts => symRead hp true pend ts

/-- **Lemma A**: every chain edge formed by `rrun` carries no first-end symbol, and its second-end symbol is the pending
    bond token in front of its second atom -/
theorem rrun_symRead : ∀ (ts : List WTok) (st st' : RState), rrun st ts = .ok st' →
    ∃ new : List REdge, st'.edges = new.reverse ++ st.edges ∧
      ∀ e ∈ new, e.closure = false →
        e.s1 = none ∧ (e.b, e.s2) ∈ symRead st.prev.isSome st.afterDot st.pending ts := by
  intro ts
  induction ts with
  | nil =>
    intro st st' h
    simp only [rrun, Except.ok.injEq] at h
    subst h
    exact ⟨[], by simp, by simp⟩
  | cons t tl ih =>
    intro st st' h
    simp only [rrun] at h
    split at h
    · cases h
    · rename_i st1 hstep
      obtain ⟨new, hnew, hsym⟩ := ih st1 st' h
      cases t with
      | atom n a =>
        simp only [rstep, Except.ok.injEq] at hstep
        subst hstep
        cases hp : st.prev with
        | none =>
          simp only [hp] at hnew hsym
          refine ⟨new, by simpa using hnew, ?_⟩
          intro e he hc
          obtain ⟨h1, h2⟩ := hsym e he hc
          refine ⟨h1, ?_⟩
          simp only [symRead, Option.isSome_none, Bool.false_and, Bool.false_eq_true, if_false, List.nil_append]
          simpa using h2
        | some p =>
          cases had : st.afterDot with
          | true =>
            simp only [hp, had] at hnew hsym
            refine ⟨new, by simpa using hnew, ?_⟩
            intro e he hc
            obtain ⟨h1, h2⟩ := hsym e he hc
            refine ⟨h1, ?_⟩
            simp only [symRead, Bool.not_true, Bool.and_false, Bool.false_eq_true, if_false, List.nil_append]
            simpa using h2
          | false =>
            simp only [hp, had] at hnew hsym
            refine ⟨{ a := p, b := n, closure := false, s1 := none, s2 := st.pending } :: new, by simp [hnew], ?_⟩
            intro e he hc
            rcases List.mem_cons.1 he with rfl | he
            · exact ⟨rfl, by simp [symRead]⟩
            · obtain ⟨h1, h2⟩ := hsym e he hc
              refine ⟨h1, ?_⟩
              simp only [symRead, List.mem_append]
              exact Or.inr (by simpa using h2)
      | bond s =>
        simp only [rstep] at hstep
        split at hstep
        · cases hstep
        · simp only [Except.ok.injEq] at hstep
          subst hstep
          refine ⟨new, by simpa using hnew, ?_⟩
          intro e he hc
          simpa [symRead] using hsym e he hc
      | closure c =>
        simp only [rstep] at hstep
        split at hstep
        · cases hstep
        · rename_i cur hcur
          split at hstep
          · rename_i a s1 hl
            split at hstep
            · cases hstep
            · simp only [Except.ok.injEq] at hstep
              subst hstep
              refine ⟨{ a := a, b := cur, closure := true, s1 := s1, s2 := st.pending } :: new, by simp [hnew], ?_⟩
              intro e he hc
              rcases List.mem_cons.1 he with rfl | he
              · simp at hc
              · simpa [symRead] using hsym e he hc
          · simp only [Except.ok.injEq] at hstep
            subst hstep
            refine ⟨new, by simpa using hnew, ?_⟩
            intro e he hc
            simpa [symRead] using hsym e he hc
      | lpar =>
        simp only [rstep] at hstep
        split at hstep
        · cases hstep
        · rename_i p hp
          split at hstep
          · cases hstep
          · simp only [Except.ok.injEq] at hstep
            subst hstep
            refine ⟨new, by simpa using hnew, ?_⟩
            intro e he hc
            simpa [symRead] using hsym e he hc
      | rpar =>
        simp only [rstep] at hstep
        split at hstep
        · cases hstep
        · rename_i p stk hs
          split at hstep
          · cases hstep
          · simp only [Except.ok.injEq] at hstep
            subst hstep
            refine ⟨new, by simpa using hnew, ?_⟩
            intro e he hc
            simpa [symRead] using hsym e he hc
      | dot =>
        simp only [rstep, Except.ok.injEq] at hstep
        subst hstep
        refine ⟨new, by simpa using hnew, ?_⟩
        intro e he hc
        simpa [symRead] using hsym e he hc

/-- Lemma A for `readToks` -/
theorem readToks_symRead (ts : List WTok) (es : List REdge) (h : readToks ts = .ok es) :
    ∀ e ∈ es, e.closure = false → e.s1 = none ∧ (e.b, e.s2) ∈ symRead false false none ts := by
  unfold readToks at h
  split at h
  · cases h
  · rename_i st hrun
    split at h
    · cases h
    · split at h
      · cases h
      · split at h
        · cases h
        · simp only [Except.ok.injEq] at h
          obtain ⟨new, hnew, hsym⟩ := rrun_symRead ts {} st hrun
          have e1 : es = new := by rw [← h, hnew]; simp
          subst e1
          intro e he hc
          simpa using hsym e he hc

theorem symRead_append : ∀ (A B : List WTok) (hp ad : Bool) (pend : Option Str) (x : Nat × Option Str),
    x ∈ symRead hp ad pend (A ++ B) →
      x ∈ symRead hp ad pend A ∨ ∃ hp' ad' pend', x ∈ symRead hp' ad' pend' B := by
  intro A
  induction A with
  | nil => intro B hp ad pend x h; exact Or.inr ⟨hp, ad, pend, h⟩
  | cons t tl ih =>
    intro B hp ad pend x h
    cases t with
    | atom n a =>
      simp only [List.cons_append, symRead, List.mem_append] at h ⊢
      rcases h with h | h
      · exact Or.inl (Or.inl h)
      · rcases ih B _ _ _ x h with h | h
        · exact Or.inl (Or.inr h)
        · exact Or.inr h
    | bond s => simpa [symRead] using ih B _ _ _ x (by simpa [symRead] using h)
    | closure c => simpa [symRead] using ih B _ _ _ x (by simpa [symRead] using h)
    | lpar => simpa [symRead] using ih B _ _ _ x (by simpa [symRead] using h)
    | rpar => simpa [symRead] using ih B _ _ _ x (by simpa [symRead] using h)
    | dot => simpa [symRead] using ih B _ _ _ x (by simpa [symRead] using h)

/-! ## writer side -/

/-- the pending `FTok.bond` in front of every atom of a flattened list -/
def fsym : Option (Nat × Nat) → List FTok → List (Nat × Option (Nat × Nat))
  | _, [] => []
  | pend, .atom n :: ts => (n, pend) :: fsym none ts
  | _, .bond a b :: ts => fsym (some (a, b)) ts
  | pend, .lpar :: ts => fsym pend ts
  | pend, .rpar :: ts => fsym pend ts

/-- a pending written symbol is `formatBond` of the pending flattened bond -/
def SymRel (m : Mol) (opts : Opts) (sc : SCtx) : Option Str → Option (Nat × Nat) → Prop
  | none, none => True
  | some s, some (a, b) => formatBond m opts sc a b = .ok s
  | _, _ => False

/-- the closure tokens of an atom leave no pending symbol -/
theorem emitClosures_symRead (m : Mol) (opts : Opts) (sc : SCtx) (casted : List (Nat × Nat)) (n : Nat) :
    ∀ (cl vb : List (Nat × Nat)) cts vb', emitClosures m opts sc casted n cl vb = .ok (cts, vb') →
      ∀ hp ad R, symRead hp ad none (cts ++ R) = symRead hp ad none R := by
  intro cl
  induction cl with
  | nil => intro vb cts vb' h; simp [emitClosures] at h; simp [h.1]
  | cons kc tl ih =>
    intro vb cts vb' h hp ad R
    obtain ⟨k, c⟩ := kc
    simp only [emitClosures] at h
    split at h
    · cases h
    · split at h
      · cases h
      · rename_i bt vb1 hb
        split at h
        · cases h
        · rename_i rest' vb2 hr
          simp only [Except.ok.injEq, Prod.mk.injEq] at h
          rw [← h.1]
          have := ih vb1 rest' vb2 hr hp ad R
          rcases closureBond_shape hb with hbt | ⟨s, hbt⟩ <;> subst hbt <;> simp [symRead, this]

theorem emit_atom_inv {m : Mol} {opts : Opts} {sc : SCtx} {casted : List (Nat × Nat)}
    {tokens : List (Nat × List (Nat × Nat))} {n : Nat} {tl : List FTok} {vb : List (Nat × Nat)} {out order vb'}
    (h : emit m opts sc casted tokens (.atom n :: tl) vb = .ok (out, order, vb')) :
    ∃ a cl cts vb1 rest order', emitClosures m opts sc casted n cl vb = .ok (cts, vb1) ∧
      emit m opts sc casted tokens tl vb1 = .ok (rest, order', vb') ∧ out = WTok.atom n a :: (cts ++ rest) := by
  simp only [emit] at h
  split at h
  · cases h
  · rename_i a _
    split at h
    · cases h
    · rename_i cl _
      split at h
      · cases h
      · rename_i cts vb1 hc
        split at h
        · cases h
        · rename_i rest order' vb2 hr
          simp only [Except.ok.injEq, Prod.mk.injEq] at h
          obtain ⟨h1, _, h3⟩ := h
          subst h3
          exact ⟨a, cl, cts, vb1, rest, order', hc, hr, h1.symm⟩

/-- **Lemma B**: the pending symbols in front of the atoms of the emitted tokens are `formatBond` of the pending
    flattened bonds in front of the same atoms, entry by entry -/
theorem emit_symRead (m : Mol) (opts : Opts) (sc : SCtx) (casted : List (Nat × Nat)) (tokens : List (Nat × List (Nat × Nat))) :
    ∀ (smi : List FTok) vb out order vb', emit m opts sc casted tokens smi vb = .ok (out, order, vb') →
      ∀ pend pendF, SymRel m opts sc pend pendF →
        List.Forall₂ (fun (x : Nat × Option Str) (y : Nat × Option (Nat × Nat)) => x.1 = y.1 ∧ SymRel m opts sc x.2 y.2)
          (symRead true false pend out) (fsym pendF smi) := by
  intro smi
  induction smi with
  | nil =>
    intro vb out order vb' h pend pendF _
    simp [emit] at h
    simp [h.1, symRead, fsym]
  | cons t tl ih =>
    intro vb out order vb' h pend pendF hrel
    cases t with
    | atom n =>
      obtain ⟨a, cl, cts, vb1, rest, order', hc, hr, rfl⟩ := emit_atom_inv h
      have e := emitClosures_symRead m opts sc casted n cl vb cts vb1 hc true false rest
      simp only [symRead, fsym, e]
      exact List.Forall₂.cons ⟨rfl, hrel⟩ (ih _ _ _ _ hr none none trivial)
    | bond a b =>
      simp only [emit] at h
      split at h
      · cases h
      · rename_i s hs
        split at h
        · cases h
        · rename_i rest order' vb2 hr
          simp only [Except.ok.injEq, Prod.mk.injEq] at h
          rw [← h.1]
          simp only [symRead, fsym]
          exact ih _ _ _ _ hr (some s) (some (a, b)) hs
    | lpar =>
      simp only [emit] at h
      split at h
      · cases h
      · rename_i rest order' vb2 hr
        simp only [Except.ok.injEq, Prod.mk.injEq] at h
        rw [← h.1]
        simp only [symRead, fsym]
        exact ih _ _ _ _ hr pend pendF hrel
    | rpar =>
      simp only [emit] at h
      split at h
      · cases h
      · rename_i rest order' vb2 hr
        simp only [Except.ok.injEq, Prod.mk.injEq] at h
        rw [← h.1]
        simp only [symRead, fsym]
        exact ih _ _ _ _ hr pend pendF hrel

/-! ## structure of the flattened list -/

/-- the atom is immediately preceded by a bond token that ends in it -/
def GoodF (l : List FTok) (x : Nat × Option (Nat × Nat)) : Prop := ∃ p, x.2 = some (p, x.1) ∧ (p, x.1) ∈ fbonds l

theorem fsym_flatKids (rec : Nat → List FTok)
    (hrec : ∀ c pend R x, x ∈ fsym pend (rec c ++ R) → GoodF (rec c) x ∨ x ∈ fsym pend R ∨ x ∈ fsym none R)
    (tail : Nat) : ∀ (cs : List Nat) pend R x, x ∈ fsym pend (flatKids rec tail cs ++ R) →
      GoodF (flatKids rec tail cs) x ∨ x ∈ fsym pend R ∨ x ∈ fsym none R := by
  intro cs
  induction cs with
  | nil => intro pend R x h; exact Or.inr (Or.inl (by simpa [flatKids] using h))
  | cons c tl ih =>
    cases tl with
    | nil =>
      intro pend R x hx
      simp only [flatKids, List.cons_append, fsym, List.mem_cons] at hx
      rcases hx with rfl | hx
      · exact Or.inl ⟨tail, rfl, by simp [flatKids, fbonds]⟩
      · rcases hrec c none R x hx with ⟨p, h1, h2⟩ | h | h
        · refine Or.inl ⟨p, h1, ?_⟩
          simp only [fbonds] at h2
          simp only [flatKids, fbonds, List.filterMap_cons, bondq_bond, bondq_atom, List.mem_cons]
          exact Or.inr h2
        · exact Or.inr (Or.inr h)
        · exact Or.inr (Or.inr h)
    | cons c2 tl2 =>
      intro pend R x hx
      simp only [flatKids, List.cons_append, List.append_assoc, fsym, List.mem_cons] at hx
      rcases hx with rfl | hx
      · exact Or.inl ⟨tail, rfl, by simp [flatKids, fbonds]⟩
      · rcases hrec c none _ x hx with ⟨p, h1, h2⟩ | h | h
        · refine Or.inl ⟨p, h1, ?_⟩
          simp only [fbonds] at h2
          simp only [flatKids, fbonds, List.filterMap_cons, bondq_lpar, bondq_bond, bondq_atom, List.filterMap_append,
            bondq_rpar, List.mem_cons, List.mem_append]
          exact Or.inr (Or.inl h2)
        · simp only [fsym] at h
          rcases ih none R x h with ⟨p, h1, h2⟩ | h | h
          · refine Or.inl ⟨p, h1, ?_⟩
            simp only [fbonds] at h2
            simp only [flatKids, fbonds, List.filterMap_cons, bondq_lpar, bondq_bond, bondq_atom, List.filterMap_append,
              bondq_rpar, List.mem_cons, List.mem_append]
            exact Or.inr (Or.inr h2)
          · exact Or.inr (Or.inr h)
          · exact Or.inr (Or.inr h)
        · simp only [fsym] at h
          rcases ih none R x h with ⟨p, h1, h2⟩ | h | h
          · refine Or.inl ⟨p, h1, ?_⟩
            simp only [fbonds] at h2
            simp only [flatKids, fbonds, List.filterMap_cons, bondq_lpar, bondq_bond, bondq_atom, List.filterMap_append,
              bondq_rpar, List.mem_cons, List.mem_append]
            exact Or.inr (Or.inr h2)
          · exact Or.inr (Or.inr h)
          · exact Or.inr (Or.inr h)

/-- **Lemma C**: behind the start atom every atom of the flattened tree is immediately preceded by its own tree bond -/
theorem fsym_flat (edges : List (Nat × List Nat)) : ∀ (fuel tail : Nat) pend R x,
    x ∈ fsym pend (flat edges fuel tail ++ R) →
      GoodF (flat edges fuel tail) x ∨ x ∈ fsym pend R ∨ x ∈ fsym none R := by
  intro fuel
  induction fuel with
  | zero => intro tail pend R x h; exact Or.inr (Or.inl (by simpa [flat] using h))
  | succ f ih =>
    intro tail pend R x h
    simp only [flat] at h ⊢
    exact fsym_flatKids _ ih tail _ pend R x h

theorem forall₂_mem_left {α β} {R : α → β → Prop} : ∀ {l1 : List α} {l2 : List β}, List.Forall₂ R l1 l2 →
    ∀ x ∈ l1, ∃ y ∈ l2, R x y := by
  intro l1 l2 h
  induction h with
  | nil => intro x hx; cases hx
  | cons hxy _ ih =>
    intro x hx
    rcases List.mem_cons.1 hx with rfl | hx
    · exact ⟨_, List.mem_cons_self, hxy⟩
    · obtain ⟨y, hy, hr⟩ := ih x hx
      exact ⟨y, List.mem_cons_of_mem _ hy, hr⟩

/-- what is reported for one round: the symbol is `formatBond` of a tree bond of this round into the atom -/
def GoodW (m : Mol) (opts : Opts) (r : Round) (x : Nat × Option Str) : Prop :=
  ∃ p s, (p, x.1) ∈ fbonds r.smi ∧ formatBond m opts r.sc p x.1 = .ok s ∧ x.2 = some s

theorem round_symRead {m : Mol} {opts : Opts} {r : Round} (hs : RoundSpec m opts r) :
    ∀ hp ad pend, (hp = false ∨ ad = true) → ∀ x ∈ symRead hp ad pend r.out, GoodW m opts r x := by
  intro hp ad pend hpa x hx
  obtain ⟨order, vb', he⟩ := hs.emitted
  have hsmi := hs.smi
  rw [hsmi] at he
  simp only [flatten] at he
  obtain ⟨a, cl, cts, vb1, rest, order', hc, hr, hout⟩ := emit_atom_inv he
  rw [hout] at hx
  have e := emitClosures_symRead m opts r.sc r.castedOut r.start cl r.vbIn cts vb1 hc true false rest
  have hcond : (hp && !ad) = false := by rcases hpa with rfl | rfl <;> simp
  simp only [symRead, hcond, Bool.false_eq_true, if_false, List.nil_append, e] at hx
  have hB := emit_symRead m opts r.sc r.castedOut r.tokens _ _ _ _ _ hr none none trivial
  obtain ⟨y, hy, hy1, hy2⟩ := forall₂_mem_left hB x hx
  have hy' : y ∈ fsym none (flat r.edges (m.atoms.length + 1) r.start ++ []) := by simpa using hy
  rcases fsym_flat r.edges _ _ none [] y hy' with ⟨p, h1, h2⟩ | h | h
  · rw [h1] at hy2
    obtain ⟨x1, x2⟩ := x
    simp only at hy1 hy2
    subst hy1
    cases x2 with
    | none => exact hy2.elim
    | some s =>
      refine ⟨p, s, ?_, hy2, rfl⟩
      rw [hsmi]
      simp only [flatten, fbonds, List.filterMap_cons, bondq_atom]
      exact h2
  · simp [fsym] at h
  · simp [fsym] at h

theorem joinRounds_symRead (m : Mol) (opts : Opts) : ∀ (rs : List Round), (∀ r ∈ rs, RoundSpec m opts r) →
    ∀ hp ad pend, (hp = false ∨ ad = true) → ∀ x ∈ symRead hp ad pend (joinRounds rs), ∃ r ∈ rs, GoodW m opts r x := by
  intro rs
  induction rs with
  | nil => intro _ hp ad pend _ x hx; simp [joinRounds, symRead] at hx
  | cons r tl ih =>
    intro hall hp ad pend hpa x hx
    cases tl with
    | nil =>
      simp only [joinRounds] at hx
      exact ⟨r, by simp, round_symRead (hall r (by simp)) hp ad pend hpa x hx⟩
    | cons r2 tl2 =>
      simp only [joinRounds] at hx
      rcases symRead_append _ _ _ _ _ x hx with h | ⟨hp', ad', pend', h⟩
      · exact ⟨r, by simp, round_symRead (hall r (by simp)) hp ad pend hpa x h⟩
      · simp only [symRead] at h
        obtain ⟨r', hr', hg⟩ := ih (fun r' hr' => hall r' (by simp [hr'])) hp' true pend' (Or.inr rfl) x h
        exact ⟨r', List.mem_cons_of_mem _ hr', hg⟩

/-! ## the theorems -/

/-- the symbol read in front of every chain atom is `_format_bond(tree parent, atom)` of the round that wrote it -/
theorem chain_symbols (m : Mol) (env : Env) (opts : Opts) (rs : List Round) (order : List Nat)
    (h : smilesRounds m env opts = .ok (rs, order)) (es : List REdge) (hes : readToks (joinRounds rs) = .ok es) :
    ∀ e ∈ es, e.closure = false →
      ∃ r ∈ rs, ∃ p s, (p, e.b) ∈ fbonds r.smi ∧ formatBond m opts r.sc p e.b = .ok s ∧ e.s2 = some s ∧ e.s1 = none := by
  intro e he hc
  obtain ⟨hs, _⟩ := smilesRounds_spec m env opts rs order h
  obtain ⟨h1, h2⟩ := readToks_symRead _ _ hes e he hc
  obtain ⟨r, hr, p, s, g1, g2, g3⟩ := joinRounds_symRead m opts rs hs false false none (Or.inl rfl) _ h2
  exact ⟨r, hr, p, s, g1, g2, g3, h1⟩

theorem snd_nodup_unique {α β} : ∀ {l : List (α × β)}, (l.map (·.2)).Nodup → ∀ {a b c}, (a, c) ∈ l → (b, c) ∈ l → a = b := by
  intro l
  induction l with
  | nil => intro _ a b c h; cases h
  | cons x tl ih =>
    intro hn a b c h1 h2
    simp only [List.map_cons, List.nodup_cons, List.mem_map, not_exists, not_and] at hn
    rcases List.mem_cons.1 h1 with e1 | h1 <;> rcases List.mem_cons.1 h2 with e2 | h2
    · rw [← e2] at e1; exact (Prod.mk.inj e1).1
    · exact (hn.1 (b, c) h2 (by rw [← e1])).elim
    · exact (hn.1 (a, c) h1 (by rw [← e2])).elim
    · exact ih hn.2 h1 h2

/-- for a well-formed molecule the tree parent is the first atom of the chain edge: the symbol of the chain edge
    `a → b` is `_format_bond(a, b)` -/
theorem chain_symbols_parent (m : Mol) (env : Env) (opts : Opts) (rs : List Round) (order : List Nat)
    (hwf : m.WF = true)
    (h : smilesRounds m env opts = .ok (rs, order)) (es : List REdge) (hes : readToks (joinRounds rs) = .ok es) :
    ∀ e ∈ es, e.closure = false →
      ∃ r ∈ rs, ∃ s, (e.a, e.b) ∈ fbonds r.smi ∧ formatBond m opts r.sc e.a e.b = .ok s ∧ e.s2 = some s ∧ e.s1 = none := by
  intro e he hc
  obtain ⟨r, hr, p, s, g1, g2, g3, g4⟩ := chain_symbols m env opts rs order h es hes e he hc
  obtain ⟨hD, _⟩ := smilesRounds_dfs hwf h
  obtain ⟨hs, _⟩ := smilesRounds_spec m env opts rs order h
  obtain ⟨G, _, _, F⟩ := roundsDfs_gfacts hwf rs m.ids 0 hD
  have hchain : chainOf es = rs.flatMap fun r => fbonds r.smi := by
    have h1 := readToks_chain _ _ hes
    have h2 := skRead_rounds m opts rs (fun r hr => (hs r hr).emittedRound) none false (Or.inl rfl)
    simp only [chainRead] at h1
    have e : wsk (joinRounds rs) = (joinRounds rs).filterMap WTok.skel := rfl
    rw [← e, h2] at h1
    simp only [Option.some.injEq] at h1
    rw [← h1]; rfl
  have hCH : (rs.flatMap fun r => fbonds r.smi).Perm (rs.flatMap fun r => treeP r.edges) :=
    List.Perm.flatMap_left _ fun r hr => (F r hr).bondsPerm
  have m1 : (e.a, e.b) ∈ rs.flatMap fun r => fbonds r.smi := by
    rw [← hchain]
    simp only [chainOf, List.mem_map, List.mem_filter]
    exact ⟨e, ⟨he, by simp [hc]⟩, rfl⟩
  have m2 : (p, e.b) ∈ rs.flatMap fun r => fbonds r.smi := List.mem_flatMap.2 ⟨r, hr, g1⟩
  have hpe : e.a = p := snd_nodup_unique G.tSnd (hCH.mem_iff.1 m1) (hCH.mem_iff.1 m2)
  subst hpe
  exact ⟨r, hr, s, g1, g2, g3, g4⟩

end ChythonModel.Proofs.C02
