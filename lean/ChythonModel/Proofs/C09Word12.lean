import ChythonModel.Proofs.C09Word4
namespace ChythonModel.Proofs.C09
open ChythonModel.Model.Bits ChythonModel.Gen.Bits ChythonModel.Model.Query

/-! ## bonds -/

def orderPos (o : Nat) : Nat := if o == 1 then 59 else if o == 2 then 60 else if o == 3 then 61 else if o == 4 then 62 else 63
def ringPos (r : Bool) : Nat := if r then 58 else 57

def OrderOk (o : Nat) : Prop := o = 1 ∨ o = 2 ∨ o = 3 ∨ o = 4 ∨ o = 8

theorem sOrderBit_eq (o : Nat) : sOrderBit o = 1 <<< orderPos o := by
  unfold sOrderBit orderPos
  split; · decide
  split; · decide
  split; · decide
  split; · decide
  decide

theorem qOrderBit_eq (o : Nat) : qOrderBit qOrd1 qOrd2 qOrd3 qOrd4 qOrdElse o = 1 <<< orderPos o := by
  unfold qOrderBit orderPos
  by_cases h1 : o = 1; · subst h1; decide
  by_cases h4 : o = 4; · subst h4; decide
  by_cases h2 : o = 2; · subst h2; decide
  by_cases h3 : o = 3; · subst h3; decide
  simp [h1, h2, h3, h4]; decide

theorem cOrderBit_eq (o : Nat) : qOrderBit cOrd1 cOrd2 cOrd3 cOrd4 cOrdElse o = 1 <<< orderPos o := by
  unfold qOrderBit orderPos
  by_cases h1 : o = 1; · subst h1; decide
  by_cases h4 : o = 4; · subst h4; decide
  by_cases h2 : o = 2; · subst h2; decide
  by_cases h3 : o = 3; · subst h3; decide
  simp [h1, h2, h3, h4]; decide

theorem orderPos_range (o : Nat) : 59 ≤ orderPos o ∧ orderPos o ≤ 63 := by
  unfold orderPos; split <;> (try split) <;> (try split) <;> (try split) <;> omega

theorem orderPos_inj (o x : Nat) (ho : OrderOk o) (hx : OrderOk x) : orderPos x = orderPos o ↔ x = o := by
  rcases ho with h | h | h | h | h <;> rcases hx with g | g | g | g | g <;> subst h <;> subst g <;> decide

theorem qOrderBits_gen (o1 o2 o3 o4 oe : Nat) (hb : ∀ o, qOrderBit o1 o2 o3 o4 oe o = 1 <<< orderPos o) (os : List Nat) (p : Nat) :
    (qOrderBits o1 o2 o3 o4 oe os).testBit p = os.any (fun x => orderPos x == p) := by
  induction os with
  | nil => simp [qOrderBits]
  | cons x xs ih =>
    simp only [qOrderBits, Nat.testBit_or, ih, List.any_cons, hb, testBit_shl1]
    congr 1

theorem qOrderBits_at (o1 o2 o3 o4 oe : Nat) (hb : ∀ o, qOrderBit o1 o2 o3 o4 oe o = 1 <<< orderPos o)
    (os : List Nat) (o : Nat) (ho : OrderOk o) (hos : ∀ x ∈ os, OrderOk x) :
    (qOrderBits o1 o2 o3 o4 oe os).testBit (orderPos o) = os.contains o := by
  rw [qOrderBits_gen o1 o2 o3 o4 oe hb]
  induction os with
  | nil => rfl
  | cons x xs ih =>
    simp only [List.any_cons, List.contains_cons]
    rw [ih (fun y hy => hos y (by simp [hy]))]
    congr 1
    rw [Bool.eq_iff_iff, beq_iff_eq, beq_iff_eq, orderPos_inj o x ho (hos x (by simp))]
    exact eq_comm

theorem within_qOrderBits (o1 o2 o3 o4 oe : Nat) (hb : ∀ o, qOrderBit o1 o2 o3 o4 oe o = 1 <<< orderPos o) (os : List Nat) :
    Within (qOrderBits o1 o2 o3 o4 oe os) 59 64 := by
  intro p hp
  rw [qOrderBits_gen o1 o2 o3 o4 oe hb] at hp
  simp only [List.any_eq_true, beq_iff_eq] at hp
  obtain ⟨x, _, rfl⟩ := hp
  have := orderPos_range x; omega

theorem qRingBit_at (any yes no : Nat) (ha : any = 1 <<< 57 ||| 1 <<< 58) (hy : yes = 1 <<< 58) (hn : no = 1 <<< 57)
    (qr : Option Bool) (r : Bool) :
    (qRingBit any yes no qr).testBit (ringPos r) = (match qr with | some x => x == r | none => true) := by
  subst ha; subst hy; subst hn
  cases qr with
  | none => cases r <;> simp [qRingBit, ringPos] <;> decide
  | some x => cases x <;> cases r <;> simp [qRingBit, ringPos] <;> decide

theorem within_qRingBit (any yes no : Nat) (ha : any = 1 <<< 57 ||| 1 <<< 58) (hy : yes = 1 <<< 58) (hn : no = 1 <<< 57)
    (qr : Option Bool) : Within (qRingBit any yes no qr) 57 59 := by
  subst ha; subst hy; subst hn
  cases qr with
  | none => exact within_or (within_mono (within_shl1 57) (by omega) (by omega)) (within_mono (within_shl1 58) (by omega) (by omega))
  | some x =>
    cases x
    · exact within_mono (within_shl1 57) (by omega) (by omega)
    · exact within_mono (within_shl1 58) (by omega) (by omega)

/-- domain of bonds: orders are the five values the constructors accept -/
structure BDom (qb : QBond) (b : MBond) : Prop where
  o : OrderOk b.order
  qo : ∀ x ∈ qb.orders, OrderOk x

theorem not_bondEq (qb : QBond) (b : MBond) :
    bondEq qb b = (qb.orders.contains b.order && (match qb.inRing with | some x => x == b.inRing | none => true)) := by
  unfold bondEq
  cases qb.inRing with
  | none => simp
  | some r => cases r <;> cases b.inRing <;> simp


/-! ## element part (words I and II) and hybridisation -/

def zPos1 (z : Nat) : Nat := if z > 56 then 0 else 57 - z
def zPos2 (z : Nat) : Nat := 120 - capS z

/-- the element test the two words implement together, as a function of the atomic number only -/
def elemAcc (e : Nat × Nat) (z : Nat) : Bool := e.1.testBit (zPos1 z) && (!decide (z > 56) || e.2.testBit (zPos2 z))

theorem capS_le (z : Nat) (h : z ≤ 118) : capS z ≤ 116 := by
  by_cases h' : z > 116 <;> simp [capS, sHeavyGt, sHeavyCap, h'] <;> omega

theorem capS_of_le (z : Nat) (h : z ≤ 116) : capS z = z := by
  have h' : ¬ z > 116 := by omega
  simp [capS, sHeavyGt, sHeavyCap, h']

theorem capS_ge (z : Nat) (h : 57 ≤ z) : 57 ≤ capS z := by
  by_cases h' : z > 116 <;> simp [capS, sHeavyGt, sHeavyCap, h'] <;> omega

theorem elemBits_q_eq (z : Nat) :
    elemBits qeTransferZ qeHeavyGt qeHeavyCap qeTransferBit qeHiBase qeLoBase z =
      if z > 56 then (1, 1 <<< (120 - capS z)) else (1 <<< (57 - z), 0) := by
  by_cases h : z > 56 <;> by_cases h' : z > 116 <;>
    simp [elemBits, capS, qeTransferZ, qeHeavyGt, qeHeavyCap, qeTransferBit, qeHiBase, qeLoBase, sHeavyGt, sHeavyCap, h, h']

theorem elemBits_l_eq (z : Nat) :
    elemBits qlTransferZ qlHeavyGt qlHeavyCap qlTransferBit qlHiBase qlLoBase z =
      if z > 56 then (1, 1 <<< (120 - capS z)) else (1 <<< (57 - z), 0) := by
  by_cases h : z > 56 <;> by_cases h' : z > 116 <;>
    simp [elemBits, capS, qlTransferZ, qlHeavyGt, qlHeavyCap, qlTransferBit, qlHiBase, qlLoBase, sHeavyGt, sHeavyCap, h, h']

theorem testBit_one (p : Nat) : Nat.testBit 1 p = decide (0 = p) := testBit_shl1 0 p

/-- one element: accepted iff the (capped) atomic numbers coincide -/
theorem elemAcc_one (zq z : Nat) (hq1 : 1 ≤ zq) (hq2 : zq ≤ 118) (h1 : 1 ≤ z) (h2 : z ≤ 118) :
    elemAcc (if zq > 56 then (1, 1 <<< (120 - capS zq)) else (1 <<< (57 - zq), 0)) z = (capS zq == capS z) := by
  have c1 := capS_le zq hq2; have c2 := capS_le z h2
  unfold elemAcc zPos1 zPos2
  by_cases hzq : zq > 56 <;> by_cases hz : z > 56 <;>
    simp only [hzq, hz, if_true, if_false, decide_true, decide_false, Bool.not_true, Bool.not_false, Bool.false_or, Bool.true_or,
      Bool.and_true, testBit_shl1, testBit_one]
  · have d1 := capS_ge zq (by omega); have d2 := capS_ge z (by omega)
    rw [Bool.eq_iff_iff]; simp; omega
  · have e := capS_of_le z (by omega); have d1 := capS_ge zq (by omega)
    rw [e, Bool.eq_iff_iff]; simp; omega
  · have e := capS_of_le zq (by omega); have d2 := capS_ge z (by omega)
    rw [e, Bool.eq_iff_iff]; simp; omega
  · have e1 := capS_of_le zq (by omega); have e2 := capS_of_le z (by omega)
    rw [e1, e2, Bool.eq_iff_iff]; simp; omega

/-- the transfer-bit discipline: a word-II element bit is only ever set together with the transfer bit of word I -/
def Tr (e : Nat × Nat) : Prop := ∀ p, e.2.testBit p = true → e.1.testBit 0 = true

def one (zq : Nat) : Nat × Nat := if zq > 56 then (1, 1 <<< (120 - capS zq)) else (1 <<< (57 - zq), 0)

theorem tr_one (zq : Nat) : Tr (one zq) := by
  intro p hp
  unfold one at hp ⊢
  by_cases h : zq > 56
  · simp [h, testBit_one]
  · simp [h] at hp

theorem tr_or (e f : Nat × Nat) (he : Tr e) (hf : Tr f) : Tr (e.1 ||| f.1, e.2 ||| f.2) := by
  intro p hp
  simp only [Nat.testBit_or, Bool.or_eq_true] at hp ⊢
  cases hp with
  | inl h => exact Or.inl (he p h)
  | inr h => exact Or.inr (hf p h)

theorem elemAcc_or (e f : Nat × Nat) (z : Nat) (he : Tr e) (hf : Tr f) :
    elemAcc (e.1 ||| f.1, e.2 ||| f.2) z = (elemAcc e z || elemAcc f z) := by
  unfold elemAcc
  by_cases hz : z > 56
  · have p1 : zPos1 z = 0 := by simp [zPos1, hz]
    have a := he (zPos2 z); have b := hf (zPos2 z)
    simp only [hz, decide_true, Bool.not_true, Bool.false_or, Nat.testBit_or, p1]
    cases h1 : e.1.testBit 0 <;> cases h2 : e.2.testBit (zPos2 z) <;> cases h3 : f.1.testBit 0 <;>
      cases h4 : f.2.testBit (zPos2 z) <;> simp_all
  · simp [hz, Nat.testBit_or]

theorem listBits_cons (n : Nat) (ns : List Nat) :
    listBits (n :: ns) = ((one n).1 ||| (listBits ns).1, (one n).2 ||| (listBits ns).2) := by
  simp only [listBits, elemBits_l_eq, one]

theorem tr_list (zs : List Nat) : Tr (listBits zs) := by
  induction zs with
  | nil => intro p hp; simp [listBits] at hp
  | cons n ns ih => rw [listBits_cons]; exact tr_or _ _ (tr_one n) ih

theorem elemAcc_list (zs : List Nat) (z : Nat) (hz : 1 ≤ z ∧ z ≤ 118) (hzs : ∀ x ∈ zs, 1 ≤ x ∧ x ≤ 118) :
    elemAcc (listBits zs) z = zs.any (fun zq => capS zq == capS z) := by
  induction zs with
  | nil => simp [listBits, elemAcc]
  | cons n ns ih =>
    have hn := hzs n (by simp)
    rw [listBits_cons, elemAcc_or _ _ z (tr_one n) (tr_list ns), ih (fun x hx => hzs x (by simp [hx])), List.any_cons]
    congr 1
    exact elemAcc_one n z hn.1 hn.2 hz.1 hz.2

/-- `AnyMetal` accepts exactly the metals of the regenerated flag table (Lv, Ts, Og collapsed onto Lv) -/
theorem elemAcc_metal : ∀ z ∈ List.range' 1 118, elemAcc (qMetalV1, qMetalV2) z = !notMetal (capS z) := by
  decide +kernel

theorem elemAcc_any (z : Nat) (h1 : 1 ≤ z) (h2 : z ≤ 118) : elemAcc (qAnyV1, qAnyV2) z = true := by
  have c1 := capS_le z h2
  unfold elemAcc zPos1 zPos2
  simp only [qAnyV1_eq, qAnyV2_eq, testBit_run]
  by_cases hz : z > 56
  · have := capS_ge z (by omega); simp [hz]; omega
  · simp [hz]; omega

/-- where the element bits of a query live -/
def ElemIn (e : Nat × Nat) : Prop := Within e.1 0 57 ∧ Within e.2 4 64

theorem elemIn_one (zq : Nat) (h1 : 1 ≤ zq) (h2 : zq ≤ 118) : ElemIn (one zq) := by
  have c1 := capS_le zq h2
  unfold one
  by_cases h : zq > 56
  · have := capS_ge zq (by omega)
    simp only [h, if_true]
    exact ⟨within_mono (by simpa using within_shl1 0) (by omega) (by omega), within_mono (within_shl1 _) (by omega) (by omega)⟩
  · simp only [h, if_false]
    exact ⟨within_mono (within_shl1 _) (by omega) (by omega), within_zero _ _⟩

theorem elemIn_list (zs : List Nat) (hzs : ∀ x ∈ zs, 1 ≤ x ∧ x ≤ 118) : ElemIn (listBits zs) := by
  induction zs with
  | nil => exact ⟨within_zero _ _, within_zero _ _⟩
  | cons n ns ih =>
    have hn := hzs n (by simp)
    have a := elemIn_one n hn.1 hn.2
    have b := ih (fun x hx => hzs x (by simp [hx]))
    rw [listBits_cons]
    exact ⟨within_or a.1 b.1, within_or a.2 b.2⟩

theorem within_of_lt_shift (x lo hi : Nat) (h1 : x < 2 ^ hi) (h2 : x = (x >>> lo) <<< lo) : Within x lo hi := by
  intro p hp
  constructor
  · rw [h2, Nat.testBit_shiftLeft] at hp
    simp only [Bool.and_eq_true, decide_eq_true_eq] at hp
    exact hp.1
  · by_cases h : p < hi
    · exact h
    · have : x < 2 ^ p := Nat.lt_of_lt_of_le h1 (Nat.pow_le_pow_right (by omega) (by omega))
      rw [Nat.testBit_lt_two_pow this] at hp
      simp at hp

theorem elemIn_any : ElemIn (qAnyV1, qAnyV2) :=
  ⟨by rw [qAnyV1_eq]; exact within_run 57 0, by rw [qAnyV2_eq]; exact within_run 60 4⟩

theorem elemIn_metal : ElemIn (qMetalV1, qMetalV2) :=
  ⟨within_of_lt_shift qMetalV1 0 57 (by decide) (by decide), within_of_lt_shift qMetalV2 4 64 (by decide) (by decide)⟩


/-! ## hybridisation part of word II -/

def hybPart (q : QAtom) : Nat := if q.hybridization.isEmpty then qHybAll else orShiftsSub qHybSub q.hybridization

theorem testBit_orShiftsSub (S : List Nat) (i : Nat) : (orShiftsSub 1 S).testBit i = S.any (fun s => s - 1 == i) := by
  induction S with
  | nil => simp [orShiftsSub]
  | cons x xs ih => simp only [orShiftsSub, Nat.testBit_or, ih, List.any_cons, testBit_shl1]; congr 1

theorem any_beq_contains (S : List Nat) (v : Nat) : S.any (fun s => s == v) = S.contains v := by
  induction S with
  | nil => rfl
  | cons x xs ih =>
    simp only [List.any_cons, List.contains_cons, ih]; congr 1
    rw [Bool.eq_iff_iff, beq_iff_eq, beq_iff_eq]; exact ⟨Eq.symm, Eq.symm⟩

theorem within_hybPart (q : QAtom) (hq : QDom q) : Within (hybPart q) 0 4 := by
  unfold hybPart
  split
  · rw [qHybAll_eq]; exact within_run 4 0
  · intro p hp
    simp only [qHybSub, testBit_orShiftsSub, List.any_eq_true, beq_iff_eq] at hp
    obtain ⟨s, hs, rfl⟩ := hp
    have := hq.hyb s hs; omega

theorem hyb_at (q : QAtom) (hq : QDom q) (v : Nat) (h1 : 1 ≤ v) (h2 : v ≤ 4) :
    (hybPart q).testBit (v - 1) = !tupleRejects q.hybridization v := by
  rw [not_tupleRejects]
  unfold hybPart
  cases hS : q.hybridization.isEmpty
  · simp only [Bool.false_eq_true, if_false, Bool.false_or, qHybSub, testBit_orShiftsSub]
    apply Eq.trans (any_congr_mem _ _ (fun s => s == v) _)
    · exact any_beq_contains _ _
    · intro s hs
      have := hq.hyb s hs
      rw [Bool.eq_iff_iff]; simp; omega
  · simp only [if_true, Bool.true_or, qHybAll_eq, testBit_run]
    simp; omega

/-! ## words I and II together -/

theorem zPos2_range (z : Nat) (h1 : 57 ≤ z) (h2 : z ≤ 118) : 4 ≤ zPos2 z ∧ zPos2 z ≤ 63 := by
  have := capS_le z h2; have := capS_ge z h1
  unfold zPos2; omega

theorem pos1_eq (a : MAtom) : pos1 a = zPos1 a.z := rfl

theorem test2 (e : Nat × Nat) (q : QAtom) (a : MAtom) (mdl : Nat) (he : ElemIn e) (hq : QDom q) (ha : ADom mdl a) :
    ((e.2 ||| hybPart q) &&& atomV2 a == atomV2 a) =
      ((!decide (a.z > 56) || e.2.testBit (zPos2 a.z)) && !tupleRejects q.hybridization a.hybridization) := by
  have wh := within_hybPart q hq
  have h1 := ha.hyb_lo; have h2 := ha.hyb_hi
  rw [atomV2_eq, sub_orShifts]
  unfold pos2
  have hb : (e.2 ||| hybPart q).testBit (a.hybridization - 1) = !tupleRejects q.hybridization a.hybridization := by
    rw [Nat.testBit_or, he.2.out (p := a.hybridization - 1) (by omega), Bool.false_or]
    exact hyb_at q hq _ h1 h2
  by_cases hz : a.z > 56
  · have r := zPos2_range a.z (by omega) ha.z_hi
    have hc : (e.2 ||| hybPart q).testBit (120 - capS a.z) = e.2.testBit (zPos2 a.z) := by
      rw [Nat.testBit_or, wh.out (p := 120 - capS a.z) (by unfold zPos2 at r; omega), Bool.or_false]; rfl
    simp only [hz, if_true, List.all_cons, List.all_nil, Bool.and_true, hb, hc, decide_true, Bool.not_true, Bool.false_or]
    exact Bool.and_comm _ _
  · simp only [hz, if_false, List.all_cons, List.all_nil, Bool.and_true, hb, decide_false, Bool.not_false, Bool.true_or, Bool.true_and]

/-- first atom of a component: words I and II -/
theorem test12_root (e : Nat × Nat) (q : QAtom) (a : MAtom) (mdl : Nat) (he : ElemIn e) (hq : QDom q) (ha : ADom mdl a) :
    ((e.1 &&& atomV1 a != 0) && ((e.2 ||| hybPart q) &&& atomV2 a == atomV2 a)) =
      (elemAcc e a.z && !tupleRejects q.hybridization a.hybridization) := by
  rw [test2 e q a mdl he hq ha, atomV1_eq, meet_orShifts]
  simp only [List.any_cons, List.any_nil, Bool.or_false, pos1_eq, elemAcc, Bool.and_assoc]

/-- later atoms: the bond word carries the atom's word I, the order bit and the ring bit -/
theorem test12_next (e : Nat × Nat) (q : QAtom) (qb : QBond) (a : MAtom) (b : MBond) (mdl : Nat) (he : ElemIn e) (hq : QDom q)
    (ha : ADom mdl a) (hb : BDom qb b) :
    (((e.1 ||| qBondBits qb) &&& bondWord (atomV1 a) b == bondWord (atomV1 a) b) &&
      ((e.2 ||| hybPart q) &&& atomV2 a == atomV2 a)) =
      (elemAcc e a.z && bondEq qb b && !tupleRejects q.hybridization a.hybridization) := by
  rw [test2 e q a mdl he hq ha]
  have hw : bondWord (atomV1 a) b = orShifts 0 [zPos1 a.z, orderPos b.order, ringPos b.inRing] := by
    unfold bondWord
    rw [atomV1_eq, sOrderBit_eq, pos1_eq]
    have : (if b.inRing then sRingYes else sRingNo) = 1 <<< ringPos b.inRing := by
      cases b.inRing <;> simp [ringPos, sRingYes, sRingNo]
    rw [this]
    simp [orShifts, Nat.or_assoc]
  rw [hw, sub_orShifts]
  have wo := within_qOrderBits qOrd1 qOrd2 qOrd3 qOrd4 qOrdElse qOrderBit_eq qb.orders
  have wr := within_qRingBit qRingAny qRingYes qRingNo (by decide) (by decide) (by decide) qb.inRing
  have hz1 : zPos1 a.z < 57 := by
    unfold zPos1; by_cases h : a.z > 56
    · simp [h]
    · have := ha.z_lo; simp only [h, if_false]; omega
  have ho := orderPos_range b.order
  have hr : 57 ≤ ringPos b.inRing ∧ ringPos b.inRing ≤ 58 := by cases b.inRing <;> simp [ringPos]
  have t1 : (e.1 ||| qBondBits qb).testBit (zPos1 a.z) = e.1.testBit (zPos1 a.z) := by
    unfold qBondBits
    rw [Nat.testBit_or, Nat.testBit_or, wo.out (p := zPos1 a.z) (by omega), wr.out (p := zPos1 a.z) (by omega)]; simp
  have t2 : (e.1 ||| qBondBits qb).testBit (orderPos b.order) = qb.orders.contains b.order := by
    unfold qBondBits
    rw [Nat.testBit_or, Nat.testBit_or, he.1.out (p := orderPos b.order) (by omega), wr.out (p := orderPos b.order) (by omega),
      qOrderBits_at qOrd1 qOrd2 qOrd3 qOrd4 qOrdElse qOrderBit_eq qb.orders b.order hb.o hb.qo]; simp
  have t3 : (e.1 ||| qBondBits qb).testBit (ringPos b.inRing) = (match qb.inRing with | some x => x == b.inRing | none => true) := by
    unfold qBondBits
    rw [Nat.testBit_or, Nat.testBit_or, he.1.out (p := ringPos b.inRing) (by omega), wo.out (p := ringPos b.inRing) (by omega),
      qRingBit_at qRingAny qRingYes qRingNo (by decide) (by decide) (by decide)]; simp
  simp only [List.all_cons, List.all_nil, Bool.and_true, t1, t2, t3, not_bondEq, elemAcc]
  cases e.1.testBit (zPos1 a.z) <;> cases qb.orders.contains b.order <;>
    cases (match qb.inRing with | some x => x == b.inRing | none => true) <;>
    cases (!decide (a.z > 56) || e.2.testBit (zPos2 a.z)) <;> cases tupleRejects q.hybridization a.hybridization <;> rfl

end ChythonModel.Proofs.C09
