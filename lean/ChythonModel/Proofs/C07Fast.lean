import ChythonModel.Model.IsoStereo
import ChythonModel.Spec.Embedding
import ChythonModel.Proofs.C07WF
import ChythonModel.Proofs.C07Top
/-!
# C07 — `isoCheck` is sound: an accepted dict is a valid embedding of the whole pattern (so, by `get_mapping_exact`, one of the
mappings `get_mapping` returns)
-/
namespace ChythonModel.Proofs.C07
open ChythonModel.Model.Iso ChythonModel.Spec.Embedding

theorem isoCheck_sound (p : Problem) (d : Dict) (hq : p.q.WF = true) (ht : p.t.WF = true)
    (h : isoCheck p d = true) :
    IsEmbedding p.q p.t (fun _ => true) p.atomOk p.bondOk (fun u => (d.lookup u).getD 0) := by
  have Q := wf_ok p.q hq
  have T := wf_ok p.t ht
  simp only [isoCheck, Bool.and_eq_true, List.all_eq_true, decide_eq_true_eq, List.contains_iff_mem, List.any_eq_true,
    beq_iff_eq, Bool.or_eq_true, Bool.not_eq_true'] at h
  obtain ⟨⟨⟨⟨⟨_, hnd⟩, hin⟩, honto⟩, hatom⟩, hbond⟩ := h
  have hinj : ∀ u ∈ p.q.atoms, ∀ v ∈ p.q.atoms, (d.lookup u).getD 0 = (d.lookup v).getD 0 → u = v :=
    fun u hu v hv e => List.inj_on_of_nodup_map hnd hu hv e
  have hb : ∀ u ∈ p.q.atoms, ∀ v ∈ p.q.atoms,
      (v ∈ p.q.nbrs u ↔ (d.lookup v).getD 0 ∈ p.t.nbrs ((d.lookup u).getD 0)) := by
    intro u hu v hv
    have := (hbond u hu v hv).1
    simp only [Graph.hasBond] at this
    constructor
    · intro h1
      have h2 : (p.q.nbrs u).contains v = true := List.contains_iff_mem.2 h1
      rw [h2] at this
      exact List.contains_iff_mem.1 this.symm
    · intro h1
      have h2 : (p.t.nbrs ((d.lookup u).getD 0)).contains ((d.lookup v).getD 0) = true := List.contains_iff_mem.2 h1
      rw [h2] at this
      exact List.contains_iff_mem.1 this
  have hreach : ∀ u ∈ p.q.atoms, ∀ y, Reach p.t ((d.lookup u).getD 0) y →
      ∃ v ∈ p.q.atoms, (d.lookup v).getD 0 = y ∧ Reach p.q u v := by
    intro u hu y hr
    induction hr with
    | refl => exact ⟨u, hu, rfl, Reach.refl u⟩
    | @step y' z _ hz ih =>
      obtain ⟨v', hv', e, hrv⟩ := ih
      have hzat : z ∈ p.t.atoms := T.closed _ _ hz
      obtain ⟨w, hw, ew⟩ := honto z hzat
      refine ⟨w, hw, ew, Reach.step hrv ?_⟩
      rw [hb v' hv' w hw, e, ew]
      exact hz
  refine ⟨hinj, hin, hatom, ?_, ?_, ?_, fun _ _ => rfl⟩
  · intro u hu v hv
    have hva : v ∈ p.q.atoms := Q.closed _ _ hv
    refine ⟨(hb u hu v hva).1 hv, ?_⟩
    have := (hbond u hu v hva).2
    rcases this with h1 | h1
    · have h2 : (p.q.nbrs u).contains v = true := List.contains_iff_mem.2 hv
      rw [Graph.hasBond, h2] at h1
      cases h1
    · exact h1
  · intro u hu v hv _ h1
    exact (hb u hu v hv).2 h1
  · intro u hu v hv hnr hr
    obtain ⟨v', hv', e, hrv⟩ := hreach u hu _ hr
    have := hinj v' hv' v hv e
    subst this
    exact hnr hrv

end ChythonModel.Proofs.C07
