import ChythonModel.Proofs.C10Ideal
/-!
# C10: the format-limit hypothesis `WF` with the PERCEIVED terminals follows from the limits on atoms and bonds alone
-/
namespace ChythonModel.Proofs.C10
open ChythonModel.Model.Pack ChythonModel.Gen ChythonModel.Spec.Cumulene

theorem foldl_term_isSome (k : Nat) : ∀ (ps : List (List Nat)) (d : List (Nat × Nat × Nat)),
    ((d.lookup k).isSome ∨ ∃ P ∈ ps, k ∈ keys4 P) → ((ps.foldl termStep d).lookup k).isSome
  | [], d, h => by
    rcases h with h | ⟨P, hP, _⟩
    · exact h
    · simp at hP
  | p :: r, d, h => by
    rw [List.foldl_cons]
    apply foldl_term_isSome k r
    rw [lookup_termStep]
    cases he : evenKeys p with
    | none =>
      simp only
      rcases h with h | ⟨P, hP, hk⟩
      · exact Or.inl h
      · rcases List.mem_cons.mp hP with rfl | hP'
        · simp [keys4, he] at hk
        · exact Or.inr ⟨P, hP', hk⟩
    | some v =>
      obtain ⟨n, m, c1, c2⟩ := v
      simp only
      by_cases hk4 : k ∈ [n, m, c1, c2]
      · rw [if_pos hk4]; exact Or.inl rfl
      · rw [if_neg hk4]
        rcases h with h | ⟨P, hP, hk⟩
        · exact Or.inl h
        · rcases List.mem_cons.mp hP with rfl | hP'
          · simp only [keys4, he] at hk; exact absurd hk hk4
          · exact Or.inr ⟨P, hP', hk⟩

theorem links_head {R : Nat → Nat → Prop} {a b : Nat} {r : List Nat} (h : Links R (a :: b :: r)) : R a b := h.1

theorem links_last {R : Nat → Nat → Prop} : ∀ (p : List Nat) (l : Nat), 2 ≤ p.length → Links R p → p.getLast? = some l →
    ∃ a, R a l
  | [], _, h, _, _ => by simp at h
  | [_], _, h, _, _ => by simp at h
  | [a, b], l, _, hl, hla => by
    simp only [List.getLast?_cons_cons, List.getLast?_singleton, Option.some.injEq] at hla
    subst hla; exact ⟨a, hl.1⟩
  | _ :: b :: c :: r, l, _, hl, hla => by
    rw [List.getLast?_cons_cons] at hla
    exact links_last (b :: c :: r) l (by simp) hl.2 hla

/-- the two ends of a reported path are atoms of the molecule -/
theorem path_ends_atoms {atoms : List PAtom} {path : List Nat} (h : MaximalChain can atoms path ∨ BrokenPiece atoms path)
    {tn tm : Nat} (hh : path.head? = some tn) (hl : path.getLast? = some tm) :
    (∃ A ∈ atoms, A.num = tn) ∧ (∃ B ∈ atoms, B.num = tm) := by
  have hrun : 2 ≤ path.length ∧ Links (DoubleBond can atoms) path := by
    rcases h with h | ⟨a, b, rfl, hdb, _⟩
    · exact ⟨h.len, h.links⟩
    · exact ⟨by simp, hdb, trivial⟩
  obtain ⟨hlen, hlinks⟩ := hrun
  constructor
  · match path, hlen, hlinks, hh with
    | a :: b :: r, _, hlinks, hh =>
      simp only [List.head?_cons, Option.some.injEq] at hh
      subst hh
      obtain ⟨A, hA, _, _, hAn, _⟩ := hlinks.1
      exact ⟨A, hA, hAn⟩
  · obtain ⟨a, ⟨_, _, B, hB, _, hBn, _⟩⟩ := links_last path tm hlen hlinks hl
    exact ⟨B, hB, hBn⟩

/-- the limits on atoms and bonds alone (no statement about terminals) -/
structure AtomsWF (atoms : List PAtom) : Prop where
  nonempty : atoms ≠ []
  count : atoms.length ≤ 4095
  atomsOK : ∀ a ∈ atoms, AtomOK a
  graph : GraphOK atoms
  ctLimit : ctCount atoms ≤ 4095

theorem wf_perceived {atoms : List PAtom} (h : AtomsWF atoms) {p : Perceived} (hp : perceive atoms = .ok p)
    (hm : MarksOK atoms (p.stereogenic.map (·.1))) : WF ⟨atoms, p.terminals⟩ := by
  refine ⟨h.nonempty, h.count, h.atomsOK, h.graph, h.ctLimit, ?_⟩
  intro q hq hs
  obtain ⟨P, hP, n, m, c1, c2, he, hc⟩ := hm q hq hs
  have hk : q.1 ∈ keys4 P := by
    simp only [keys4, he]
    rcases hc with ⟨h1, _⟩ | ⟨_, h2⟩
    · simp [← h1]
    · simp [← h2]
  have hsome : (p.terminals.lookup q.1).isSome := by
    rw [(perceive_fields hp).1]
    exact foldl_term_isSome q.1 _ [] (Or.inr ⟨P, hP, hk⟩)
  cases hl : p.terminals.lookup q.1 with
  | none => rw [hl] at hsome; simp at hsome
  | some v =>
    obtain ⟨tn, tm⟩ := v
    obtain ⟨path, _, _, hh, hla, _, hkind⟩ := terminals_entry h.graph hp hl
    obtain ⟨⟨A, hA, hAn⟩, ⟨B, hB, hBn⟩⟩ := path_ends_atoms hkind hh hla
    exact ⟨tn, tm, rfl, by rw [← hAn]; exact (h.atomsOK A hA).num, by rw [← hBn]; exact (h.atomsOK B hB).num⟩

end ChythonModel.Proofs.C10
