import ChythonModel.Proofs.C17ChainsTop
/-! C17: what the `Graph` invariant `Mol.WF` gives: bonds lead to atoms, adjacency is symmetric with the same bond. -/
set_option linter.unusedSimpArgs false
namespace ChythonModel.Proofs.C17
open ChythonModel.Model ChythonModel.Model.Fingerprint ChythonModel.Spec.Fingerprint

theorem wf_parts (m : Mol) (h : m.WF = true) :
    m.ids.Nodup ∧ m.adj.map (·.1) = m.ids ∧
    ∀ n ms, (n, ms) ∈ m.adj → ∀ k b, (k, b) ∈ ms → k ≠ n ∧ k ∈ m.ids ∧ m.bond? k n = some b := by
  unfold Mol.WF at h
  simp only [Bool.and_eq_true, decide_eq_true_eq, beq_iff_eq, List.all_eq_true] at h
  obtain ⟨⟨h1, h2⟩, h3⟩ := h
  refine ⟨h1, h2, ?_⟩
  intro n ms hm k b hk
  have := h3 (n, ms) hm
  simp only [Bool.and_eq_true, decide_eq_true_eq, List.all_eq_true] at this
  have := this.2 (k, b) hk
  simp only [Bool.and_eq_true, bne_iff_ne, ne_eq, beq_iff_eq] at this
  refine ⟨this.1.1, ?_, this.2⟩
  have ha := this.1.2
  unfold Mol.hasAtom at ha
  simp only [List.any_eq_true, beq_iff_eq] at ha
  obtain ⟨a, ha1, ha2⟩ := ha
  unfold Mol.ids
  exact List.mem_map.mpr ⟨a, ha1, ha2⟩

theorem nbrs_mem (m : Mol) (x k : Nat) (b : Bond) (h : (k, b) ∈ m.nbrs x) : ∃ ms, (x, ms) ∈ m.adj ∧ (k, b) ∈ ms := by
  unfold Mol.nbrs at h
  cases hl : m.adj.lookup x with
  | none => rw [hl] at h; simp at h
  | some ms => rw [hl] at h; exact ⟨ms, lookup_mem _ _ _ hl, by simpa using h⟩

theorem closed_of_wf (m : Mol) (h : m.WF = true) : Closed m := by
  intro x y hadj
  obtain ⟨⟨k, b⟩, hkb, rfl⟩ := List.mem_map.mp hadj
  obtain ⟨ms, hms, hk⟩ := nbrs_mem m x k b hkb
  exact ((wf_parts m h).2.2 x ms hms k b hk).2.1

theorem bond_symm_of_wf (m : Mol) (h : m.WF = true) (x y : Nat) (b : Bond) (hb : m.bond? x y = some b) :
    m.bond? y x = some b := by
  unfold Mol.bond? at hb
  have hmem := lookup_mem _ _ _ hb
  obtain ⟨ms, hms, hk⟩ := nbrs_mem m x y b hmem
  exact ((wf_parts m h).2.2 x ms hms y b hk).2.2

theorem adj_iff_bond (m : Mol) (x y : Nat) : Adj m x y ↔ ∃ b, m.bond? x y = some b := by
  unfold Adj Mol.bond?
  constructor
  · intro h
    cases hl : (m.nbrs x).lookup y with
    | some b => exact ⟨b, rfl⟩
    | none =>
      rw [List.lookup_eq_none_iff] at hl
      obtain ⟨⟨k, b⟩, hkb, rfl⟩ := List.mem_map.mp h
      have := hl (k, b) hkb
      simp at this
  · rintro ⟨b, hb⟩
    exact List.mem_map.mpr ⟨(y, b), lookup_mem _ _ _ hb, rfl⟩

theorem adj_symm_of_wf (m : Mol) (h : m.WF = true) (x y : Nat) (hxy : Adj m x y) : Adj m y x := by
  obtain ⟨b, hb⟩ := (adj_iff_bond m x y).mp hxy
  exact (adj_iff_bond m y x).mpr ⟨b, bond_symm_of_wf m h x y b hb⟩

end ChythonModel.Proofs.C17
