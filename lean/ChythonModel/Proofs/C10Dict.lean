import ChythonModel.Proofs.C10Attach
import ChythonModel.Model.PackStereo
/-!
# C10: the two cis/trans dictionaries of the perception lead every marked bond back to itself

Python `dict` assignment (`dictSet`) and the two builders `ctTerminals` / `ctCenters` (folds over the even stereogenic
paths): a lookup returns the value written by the LAST path that has the key. When no atom is a key of two paths
(`KeysDisjoint`) and every marked bond is the centre of a perceived path (`MarksOK`), the pair satisfies `CentersOK`.
-/
namespace ChythonModel.Proofs.C10
open ChythonModel.Model.Pack

theorem lookup_none_of_any_false {β} : ∀ (d : List (Nat × β)) (k : Nat), d.any (fun e => e.1 == k) = false →
    d.lookup k = none
  | [], _, _ => rfl
  | (a, b) :: r, k, h => by
    simp only [List.any_cons, Bool.or_eq_false_iff] at h
    have hk : (k == a) = false := by
      have := h.1; simp only [beq_eq_false_iff_ne, ne_eq] at this ⊢; exact fun e => this e.symm
    rw [List.lookup_cons, hk]
    exact lookup_none_of_any_false r k h.2

theorem lookup_map_set {β} (k : Nat) (v : β) : ∀ (d : List (Nat × β)) (k' : Nat),
    (d.map (fun e => if e.1 == k then (k, v) else e)).lookup k' =
      if k' = k then (if d.any (fun e => e.1 == k) then some v else none) else d.lookup k'
  | [], k' => by simp
  | (a, b) :: r, k' => by
    have ih := lookup_map_set k v r k'
    by_cases hak : a = k
    · subst hak
      simp only [List.map_cons, beq_self_eq_true, ↓reduceIte, List.lookup_cons, List.any_cons, Bool.true_or]
      by_cases hk : k' = a
      · subst hk; simp
      · have : (k' == a) = false := by simp [hk]
        simp only [this, hk, ↓reduceIte]
        rw [ih]; simp [hk]
    · have h1 : (a == k) = false := by simp [hak]
      simp only [List.map_cons, h1, Bool.false_eq_true, ↓reduceIte, List.lookup_cons, List.any_cons, Bool.false_or]
      by_cases hk : k' = k
      · subst hk
        have : (k' == a) = false := by simp; exact fun e => hak e.symm
        simp only [this, ↓reduceIte]
        rw [ih]; simp
      · simp only [hk, ↓reduceIte]
        cases hka : k' == a
        · simp only []; rw [ih]; simp [hk]
        · rfl

/-- Python `d[k] = v` followed by `d[k']` -/
theorem lookup_dictSet {β} (d : List (Nat × β)) (k k' : Nat) (v : β) :
    (dictSet d k v).lookup k' = if k' = k then some v else d.lookup k' := by
  unfold dictSet
  cases h : d.any (fun e => e.1 == k)
  · simp only [Bool.false_eq_true, ↓reduceIte, List.lookup_append]
    by_cases hk : k' = k
    · subst hk
      simp [lookup_none_of_any_false d k' h]
    · have : (k' == k) = false := by simp [hk]
      simp only [hk, ↓reduceIte, List.lookup_cons, this, List.lookup_nil, Option.or_none]
  · simp only [↓reduceIte]
    rw [lookup_map_set]
    simp [h]

/-- the two end keys of an even path -/
def keys2 (path : List Nat) : List Nat :=
  match evenKeys path with
  | some (n, m, _, _) => [n, m]
  | none => []

theorem keys2_sub (path : List Nat) : ∀ x ∈ keys2 path, x ∈ keys4 path := by
  intro x hx
  unfold keys2 at hx; unfold keys4
  cases h : evenKeys path with
  | none => simp [h] at hx
  | some v =>
    obtain ⟨n, m, c1, c2⟩ := v
    simp only [h, List.mem_cons, List.not_mem_nil, or_false] at hx ⊢
    rcases hx with rfl | rfl <;> simp

theorem lookup_termStep (d : List (Nat × Nat × Nat)) (path : List Nat) (k : Nat) :
    (termStep d path).lookup k =
      match evenKeys path with
      | some (n, m, c1, c2) => if k ∈ [n, m, c1, c2] then some (n, m) else d.lookup k
      | none => d.lookup k := by
  unfold termStep
  cases h : evenKeys path with
  | none => rfl
  | some v =>
    obtain ⟨n, m, c1, c2⟩ := v
    simp only [lookup_dictSet, List.mem_cons, List.not_mem_nil, or_false]
    by_cases h1 : k = c1 <;> by_cases h2 : k = c2 <;> by_cases h3 : k = m <;> by_cases h4 : k = n <;> simp [h1, h2, h3, h4]

theorem lookup_centStep (d : List (Nat × Nat × Nat)) (path : List Nat) (k : Nat) :
    (centStep d path).lookup k =
      match evenKeys path with
      | some (n, m, c1, c2) => if k ∈ [n, m] then some (c1, c2) else d.lookup k
      | none => d.lookup k := by
  unfold centStep
  cases h : evenKeys path with
  | none => rfl
  | some v =>
    obtain ⟨n, m, c1, c2⟩ := v
    simp only [lookup_dictSet, List.mem_cons, List.not_mem_nil, or_false]
    by_cases h3 : k = m <;> by_cases h4 : k = n <;> simp [h3, h4]

theorem foldl_term_skip (k : Nat) : ∀ (ps : List (List Nat)) (d : List (Nat × Nat × Nat)),
    (∀ p ∈ ps, k ∉ keys4 p) → (ps.foldl termStep d).lookup k = d.lookup k
  | [], _, _ => rfl
  | p :: ps, d, h => by
    rw [List.foldl_cons, foldl_term_skip k ps _ (fun q hq => h q (by simp [hq])), lookup_termStep]
    have := h p (by simp)
    unfold keys4 at this
    cases he : evenKeys p with
    | none => rfl
    | some v => obtain ⟨n, m, c1, c2⟩ := v; simp only [he] at this; simp [this]

theorem foldl_cent_skip (k : Nat) : ∀ (ps : List (List Nat)) (d : List (Nat × Nat × Nat)),
    (∀ p ∈ ps, k ∉ keys2 p) → (ps.foldl centStep d).lookup k = d.lookup k
  | [], _, _ => rfl
  | p :: ps, d, h => by
    rw [List.foldl_cons, foldl_cent_skip k ps _ (fun q hq => h q (by simp [hq])), lookup_centStep]
    have := h p (by simp)
    unfold keys2 at this
    cases he : evenKeys p with
    | none => rfl
    | some v => obtain ⟨n, m, c1, c2⟩ := v; simp only [he] at this; simp [this]

/-- a key of path `P` that no later path writes keeps `P`'s value -/
theorem ctTerminals_hit (pre suf : List (List Nat)) (P : List Nat) {n m c1 c2 : Nat} (he : evenKeys P = some (n, m, c1, c2))
    (k : Nat) (hk : k ∈ [n, m, c1, c2]) (hs : ∀ q ∈ suf, k ∉ keys4 q) :
    (ctTerminals (pre ++ P :: suf)).lookup k = some (n, m) := by
  unfold ctTerminals
  rw [List.foldl_append, List.foldl_cons, foldl_term_skip k suf _ hs, lookup_termStep, he]
  simp only [hk, ↓reduceIte]

theorem ctCenters_hit (pre suf : List (List Nat)) (P : List Nat) {n m c1 c2 : Nat} (he : evenKeys P = some (n, m, c1, c2))
    (k : Nat) (hk : k ∈ [n, m]) (hs : ∀ q ∈ suf, k ∉ keys2 q) :
    (ctCenters (pre ++ P :: suf)).lookup k = some (c1, c2) := by
  unfold ctCenters
  rw [List.foldl_append, List.foldl_cons, foldl_cent_skip k suf _ hs, lookup_centStep, he]
  simp only [hk, ↓reduceIte]

/-- no atom is a dictionary key of two different perceived cis/trans units -/
def KeysDisjoint (sp : List (List Nat)) : Prop := sp.Pairwise fun p q => ∀ x ∈ keys4 p, x ∉ keys4 q

/-- every marked bond is the central bond of a perceived stereogenic unit with an odd number of double bonds -/
def MarksOK (atoms : List PAtom) (sp : List (List Nat)) : Prop :=
  ∀ p ∈ firstSeen [] atoms, p.2.stereo.isSome →
    ∃ P ∈ sp, ∃ n m c1 c2, evenKeys P = some (n, m, c1, c2) ∧ ((c1 = p.1 ∧ c2 = p.2.m) ∨ (c1 = p.2.m ∧ c2 = p.1))

theorem keysDisjointb_sound : ∀ (sp : List (List Nat)), keysDisjointb sp = true → KeysDisjoint sp
  | [], _ => List.Pairwise.nil
  | p :: r, h => by
    simp only [keysDisjointb, Bool.and_eq_true, List.all_eq_true, Bool.not_eq_true', List.contains_eq_mem,
      decide_eq_false_iff_not] at h
    exact List.Pairwise.cons (fun q hq x hx => h.1 q hq x hx) (keysDisjointb_sound r h.2)

theorem marksOKb_sound (atoms : List PAtom) (sp : List (List Nat)) (h : marksOKb atoms sp = true) : MarksOK atoms sp := by
  intro p hp hs
  simp only [marksOKb, List.all_eq_true, Bool.or_eq_true, Bool.not_eq_true', List.any_eq_true] at h
  rcases h p hp with h1 | ⟨P, hP, hc⟩
  · rw [h1] at hs; exact absurd hs (by simp)
  · refine ⟨P, hP, ?_⟩
    cases he : evenKeys P with
    | none => simp [he] at hc
    | some v =>
      obtain ⟨n, m, c1, c2⟩ := v
      simp only [he, Bool.or_eq_true, Bool.and_eq_true, beq_iff_eq] at hc
      exact ⟨n, m, c1, c2, rfl, hc⟩

/-- **the perceived dictionaries satisfy the hypothesis of the re-attachment theorem** -/
theorem perceived_centersOK (m : PMol) (sp : List (List Nat)) (ht : m.terminals = ctTerminals sp)
    (hm : MarksOK m.atoms sp) (hd : KeysDisjoint sp) : CentersOK m (ctCenters sp) := by
  intro p hp s hs
  obtain ⟨P, hP, n, mm, c1, c2, he, hc⟩ := hm p hp (by simp [hs])
  obtain ⟨pre, suf, hsp⟩ := List.append_of_mem hP
  have hdis : ∀ q ∈ suf, ∀ x ∈ keys4 P, x ∉ keys4 q := by
    unfold KeysDisjoint at hd
    rw [hsp, List.pairwise_append] at hd
    have := (List.pairwise_cons.mp hd.2.1).1
    exact fun q hq x hx => this q hq x hx
  have hk4 : keys4 P = [n, mm, c1, c2] := by simp [keys4, he]
  have hp1 : p.1 ∈ [n, mm, c1, c2] := by
    rcases hc with ⟨h1, _⟩ | ⟨_, h2⟩
    · simp [← h1]
    · simp [← h2]
  refine ⟨n, mm, ?_, ?_⟩
  · rw [ht, hsp]
    exact ctTerminals_hit pre suf P he p.1 hp1 (fun q hq => hdis q hq p.1 (by rw [hk4]; exact hp1))
  · have hn : (ctCenters sp).lookup n = some (c1, c2) := by
      rw [hsp]
      refine ctCenters_hit pre suf P he n (by simp) (fun q hq hx => ?_)
      exact hdis q hq n (by rw [hk4]; simp) (keys2_sub q n hx)
    rw [hn]
    rcases hc with ⟨h1, h2⟩ | ⟨h1, h2⟩
    · left; rw [h1, h2]
    · right; rw [h1, h2]

end ChythonModel.Proofs.C10
