import ChythonModel.Proofs.C05SearchComplete
/-!
# C05 — a concrete run of the model of `_kekule_component` evaluated inside Lean (non-vacuity of the theorems of Props §6)
-/
namespace ChythonModel.Proofs.C05S
open ChythonModel.Model ChythonModel.Model.C05 ChythonModel.Model.C05S

theorem seqBranches_single {β : Type} (f : β → Nat → Res) (b : β) (limit : Nat) :
    (seqBranches [b] f limit).found = (f b limit).found := by
  simp only [seqBranches]
  split
  · rfl
  · simp

/-- one planning step with a single continuation -/
theorem explore_step1 {c : Ctx} {level : Level} {path : Path} {limit : Nat} {e : Entry} {ins0 : Option Entry}
    {clos : List Nat} {b : List Entry} {base : Level}
    (h1 : level.getLast? = some e) (h2 : ((path ++ [(e.atom, e.prev, e.bond)]).length == c.size) = false)
    (h3 : e.atom ≠ c.start)
    (h4 : plan c e.atom e.prev e.bond (hashedIn (path ++ [(e.atom, e.prev, e.bond)]))
      (path ++ [(e.atom, e.prev, e.bond)]).length = .go ins0 clos [b])
    (h5 : removeAll e.atom (insert0 ins0 level.dropLast) clos = some base) :
    (explore c level path limit).found =
      (explore c (base ++ b) ((path ++ [(e.atom, e.prev, e.bond)]) ++ clos.map fun x => (x, e.atom, 1)) limit).found := by
  rw [explore]
  split
  · rename_i h; rw [h1] at h; cases h
  · rename_i e' h
    rw [h1] at h
    cases h
    simp only [h2, Bool.false_eq_true, if_false, h3, dite_false]
    split
    · rename_i h; rw [h4] at h; cases h
    · rename_i h; rw [h4] at h; cases h
    · rename_i i0 cl brs h
      rw [h4] at h
      cases h
      split
      · rename_i h; rw [h5] at h; cases h
      · rename_i bs h
        rw [h5] at h
        cases h
        simp only [List.attach_cons, List.attach_nil, List.map_nil]
        rw [seqBranches_single]

theorem explore_done {c : Ctx} {level : Level} {path : Path} {limit : Nat} {e : Entry}
    (h1 : level.getLast? = some e) (h2 : ((path ++ [(e.atom, e.prev, e.bond)]).length == c.size) = true) :
    (explore c level path limit).found = [path ++ [(e.atom, e.prev, e.bond)]] := by
  rw [explore]
  split
  · rename_i h; rw [h1] at h; cases h
  · rename_i e' h
    rw [h1] at h
    cases h
    rw [if_pos h2]

end ChythonModel.Proofs.C05S

namespace ChythonModel.Proofs.C05S
open ChythonModel.Model ChythonModel.Model.C05 ChythonModel.Model.C05S

theorem seqBranches_head_mem {β : Type} (f : β → Nat → Res) (b : β) (rest : List β) (limit : Nat) {p : Path}
    (h : p ∈ (f b limit).found) : p ∈ (seqBranches (b :: rest) f limit).found := by
  simp only [seqBranches]
  split
  · exact h
  · exact List.mem_append_left _ h

/-- cyclobutadiene-like four-ring as a component dict -/
def square : Adj := [(1, [2, 4]), (2, [1, 3]), (3, [2, 4]), (4, [3, 1])]
def squareCtx : Ctx := ⟨square, [], [], 1, 4⟩

theorem square_first_form :
    [(4, 1, 1), (3, 4, 2), (2, 3, 1), (1, 2, 2)] ∈ (searchRaw square [] [] 4).found := by
  have hinit : initial square [] [] = .ok (squareCtx, [[⟨4, 1, 1, some 0⟩], [⟨2, 1, 1, some 0⟩]]) := by rfl
  unfold searchRaw
  rw [hinit]
  simp only
  apply seqBranches_head_mem
  rw [explore_step1 (c := squareCtx) (e := ⟨4, 1, 1, some 0⟩) (ins0 := none) (clos := []) (b := [mk 3 4 2]) (base := [])
    (by rfl) (by rfl) (by decide) (by rfl) (by rfl)]
  rw [explore_step1 (c := squareCtx) (e := mk 3 4 2) (ins0 := none) (clos := []) (b := [mk 2 3 1]) (base := [])
    (by rfl) (by rfl) (by decide) (by rfl) (by rfl)]
  rw [explore_step1 (c := squareCtx) (e := mk 2 3 1) (ins0 := some (mk 1 2 2)) (clos := []) (b := [])
    (base := [mk 1 2 2]) (by rfl) (by rfl) (by decide) (by rfl) (by rfl)]
  rw [explore_done (c := squareCtx) (e := mk 1 2 2) (by rfl) (by rfl)]
  decide

end ChythonModel.Proofs.C05S
