import ChythonModel.Proofs.C07Match
/-!
Soundness and completeness of step-by-step accepted paths w.r.t. `Spec.Embedding.EmbedsComp`.
-/
namespace ChythonModel.Proofs.C07
open ChythonModel.Model.Iso ChythonModel.Spec.Embedding

/-- standing assumptions about one call of `_get_mapping` on an accepted linearisation -/
structure Setting (q : Graph) (e : Env) : Prop where
  ok : CompOK q e.cl e.lq
  nodup : (e.lq.map (·.front)).Nodup
  qsymm : ∀ u v, v ∈ q.nbrs u → u ∈ q.nbrs v
  qloop : ∀ u, u ∉ q.nbrs u
  tsymm : ∀ x y, y ∈ e.t.nbrs x → x ∈ e.t.nbrs y
  tloop : ∀ x, x ∉ e.t.nbrs x
  tclosed : ∀ x y, y ∈ e.t.nbrs x → y ∈ e.t.atoms
  oatoms : e.oAtoms = e.t.atoms
  bsymm : ∀ u v x y, e.bondOk u v x y = e.bondOk v u y x

/-- a complete path every element of which was accepted by the matcher's tests -/
structure PathValid (e : Env) (p : List Nat) : Prop where
  len : p.length = e.lq.length
  root : ∀ r, p[0]? = some r → r ∈ roots e
  step : ∀ i c, 0 < i → p[i]? = some c → c ∈ children e i (p.take i)

theorem pos_of_mem (lq : List Step) (u : Nat) (h : u ∈ lq.map (·.front)) :
    ∃ j : Nat, ∃ s : Step, lq[j]? = some s ∧ s.front = u := by
  obtain ⟨s, hs, hsu⟩ := List.mem_map.1 h
  obtain ⟨j, hj⟩ := List.mem_iff_getElem?.1 hs
  exact ⟨j, s, hj, hsu⟩

theorem front_mem_take (lq : List Step) (k j : Nat) (s : Step) (hk : k < j) (hs : lq[k]? = some s) :
    s.front ∈ (lq.take j).map (·.front) :=
  List.mem_map.2 ⟨s, (mem_take_iff lq j s).2 ⟨k, hk, hs⟩, rfl⟩

theorem front_mem (lq : List Step) (k : Nat) (s : Step) (hs : lq[k]? = some s) : s.front ∈ lq.map (·.front) :=
  List.mem_map.2 ⟨s, List.mem_of_getElem? hs, rfl⟩

theorem pos_unique (lq : List Step) (hnd : (lq.map (·.front)).Nodup) (j k : Nat) (s s' : Step)
    (hj : lq[j]? = some s) (hk : lq[k]? = some s') (h : s.front = s'.front) : j = k := by
  have h1 := orderDepth_of_getElem? lq hnd j s hj
  have h2 := orderDepth_of_getElem? lq hnd k s' hk
  rw [h] at h1
  rw [h1] at h2
  exact Option.some.inj h2

theorem back_exists (q : Graph) (cl : Closures) (lq : List Step) (hok : CompOK q cl lq) (j : Nat) (hj : 0 < j) (s : Step)
    (hs : lq[j]? = some s) : ∃ b, s.back = some b := by
  have hjlen : j < lq.length := by
    by_contra hcon
    rw [List.getElem?_eq_none (by omega)] at hs
    simp at hs
  cases hb : s.back with
  | some b => exact ⟨b, rfl⟩
  | none =>
    have := (hok.step j s hs).back_none hb
    have hl : ((lq.take j).map (·.front)).length = 0 := by rw [this]; rfl
    have hl2 : ((lq.take j).map (·.front)).length = min j lq.length := by simp
    omega

theorem mem_roots (e : Env) (r : Nat) : r ∈ roots e ↔
    ∃ s, e.lq[0]? = some s ∧ r ∈ e.oAtoms ∧ e.scope r = true ∧ e.atomOk s.front r = true := by
  unfold roots
  cases h : e.lq with
  | nil => simp
  | cons s tl => simp [List.mem_filter, and_assoc]

/-! ## soundness -/

section sound
variable {q : Graph} {e : Env} (hS : Setting q e) {p : List Nat} (pv : PathValid e p)
include hS pv

theorem pv_at (j : Nat) (s : Step) (hs : e.lq[j]? = some s) :
    ∃ c, p[j]? = some c ∧ fOf e.lq p s.front = c := by
  obtain ⟨c, hc⟩ := getElem?_of_len e.lq p pv.len j s hs
  exact ⟨c, hc, fOf_front e.lq hS.nodup p j s c hs hc⟩

theorem pv_facts (j : Nat) (hj : 0 < j) (s : Step) (hs : e.lq[j]? = some s) (c : Nat) (hc : p[j]? = some c) :
    StepFacts e (fOf e.lq p) (p.take j) s c :=
  (children_iff_facts q e hS.ok hS.nodup p pv.len j hj s hs c).1 (pv.step j c hj hc)

theorem pv_nodup : p.Nodup := by
  rw [List.nodup_iff_getElem?_ne_getElem?]
  intro i j hij hj heq
  have hjl : j < e.lq.length := by rw [← pv.len]; exact hj
  have hs : e.lq[j]? = some e.lq[j] := by simp [hjl]
  obtain ⟨c, hc, _⟩ := pv_at hS pv j _ hs
  obtain ⟨b, _, _, _, hnot, _⟩ := pv_facts hS pv j (by omega) _ hs c hc
  apply hnot
  rw [mem_take_iff]
  exact ⟨i, hij, by rw [heq, hc]⟩

theorem pv_inj_pos (j k : Nat) (c : Nat) (hj : p[j]? = some c) (hk : p[k]? = some c) : j = k := by
  have hnd := pv_nodup hS pv
  rw [List.nodup_iff_getElem?_ne_getElem?] at hnd
  have hjl : j < p.length := by
    by_contra hcon; rw [List.getElem?_eq_none (by omega)] at hj; simp at hj
  have hkl : k < p.length := by
    by_contra hcon; rw [List.getElem?_eq_none (by omega)] at hk; simp at hk
  rcases Nat.lt_trichotomy j k with h | h | h
  · exact absurd (by rw [hj, hk]) (hnd j k h hkl)
  · exact h
  · exact absurd (by rw [hj, hk]) (hnd k j h hjl)

theorem pv_injective (u v : Nat) (hu : u ∈ e.lq.map (·.front)) (hv : v ∈ e.lq.map (·.front))
    (h : fOf e.lq p u = fOf e.lq p v) : u = v := by
  obtain ⟨ju, su, hsu, rfl⟩ := pos_of_mem e.lq u hu
  obtain ⟨jv, sv, hsv, rfl⟩ := pos_of_mem e.lq v hv
  obtain ⟨cu, hcu, hfu⟩ := pv_at hS pv ju su hsu
  obtain ⟨cv, hcv, hfv⟩ := pv_at hS pv jv sv hsv
  rw [hfu, hfv] at h
  subst h
  have := pv_inj_pos hS pv ju jv cu hcu hcv
  subst this
  rw [hsu] at hsv
  cases hsv
  rfl

/-- a pattern bond from a later atom `u` back to an earlier atom `v` is matched -/
theorem later_bond (j k : Nat) (hkj : k < j) (su sv : Step) (hsu : e.lq[j]? = some su) (hsv : e.lq[k]? = some sv)
    (hb : sv.front ∈ q.nbrs su.front) :
    fOf e.lq p sv.front ∈ e.t.nbrs (fOf e.lq p su.front) ∧
      e.bondOk su.front sv.front (fOf e.lq p su.front) (fOf e.lq p sv.front) = true := by
  obtain ⟨c, hc, hfc⟩ := pv_at hS pv j su hsu
  obtain ⟨b, hback, h1, _, _, h4, _, h6, h7⟩ := pv_facts hS pv j (by omega) su hsu c hc
  have hst := hS.ok.step j su hsu
  have hmem := (hst.cls sv.front).2 ⟨hb, front_mem_take e.lq k j sv hkj hsv⟩
  rw [hfc]
  rw [hback] at hmem
  simp only [Option.toList_some, List.cons_append, List.nil_append, List.mem_cons] at hmem
  rcases hmem with hvb | hvcl
  · rw [hvb]
    exact ⟨hS.tsymm _ _ h1, by rw [hS.bsymm]; exact h4⟩
  · have : fOf e.lq p sv.front ∈ (e.cl.get su.front).map (fOf e.lq p) := List.mem_map.2 ⟨_, hvcl, rfl⟩
    exact ⟨((h6 _).2 this).1, h7 _ hvcl⟩

/-- a target bond between the image of a later atom `u` and an earlier atom `v` comes from a pattern bond -/
theorem later_induced (j k : Nat) (hkj : k < j) (su sv : Step) (hsu : e.lq[j]? = some su) (hsv : e.lq[k]? = some sv)
    (hb : fOf e.lq p sv.front ∈ e.t.nbrs (fOf e.lq p su.front)) : sv.front ∈ q.nbrs su.front := by
  obtain ⟨c, hc, hfc⟩ := pv_at hS pv j su hsu
  obtain ⟨b, hback, _, _, _, _, _, h6, _⟩ := pv_facts hS pv j (by omega) su hsu c hc
  have hst := hS.ok.step j su hsu
  obtain ⟨hbe, hbn, _⟩ := hst.back_some b hback
  by_cases hvb : sv.front = b
  · rw [hvb]; exact hbn
  · obtain ⟨cv, hcv, hfv⟩ := pv_at hS pv k sv hsv
    have hvF := front_mem e.lq k sv hsv
    have hbF : b ∈ e.lq.map (·.front) := by
      obtain ⟨k', s', _, hs', hs'b⟩ := mem_fronts_take e.lq j b hbe
      rw [← hs'b]; exact front_mem e.lq k' s' hs'
    have hne : fOf e.lq p sv.front ≠ fOf e.lq p b := fun h => hvb (pv_injective hS pv _ _ hvF hbF h)
    have hin : fOf e.lq p sv.front ∈ p.take j := by
      rw [hfv, mem_take_iff]; exact ⟨k, hkj, hcv⟩
    rw [hfc] at hb
    have := (h6 _).1 ⟨hb, hne, hin⟩
    obtain ⟨m, hm, hfm⟩ := List.mem_map.1 this
    have hmE := ((hst.cls m).1 (by simp [hm])).2
    have hmF : m ∈ e.lq.map (·.front) := by
      obtain ⟨k', s', _, hs', hs'b⟩ := mem_fronts_take e.lq j m hmE
      rw [← hs'b]; exact front_mem e.lq k' s' hs'
    have : m = sv.front := pv_injective hS pv _ _ hmF hvF hfm
    rw [← this]
    exact ((hst.cls m).1 (by simp [hm])).1

theorem pathValid_embeds : EmbedsComp q e.t (e.lq.map (·.front)) e.scope e.atomOk e.bondOk (fOf e.lq p) := by
  -- facts about the root
  have hroot : ∀ s c, e.lq[0]? = some s → p[0]? = some c →
      c ∈ e.t.atoms ∧ e.scope c = true ∧ e.atomOk s.front c = true := by
    intro s c hs hc
    obtain ⟨s', hs', h1, h2, h3⟩ := (mem_roots e c).1 (pv.root c hc)
    rw [hs] at hs'; cases hs'
    exact ⟨hS.oatoms ▸ h1, h2, h3⟩
  have hany : ∀ (j : Nat) (s : Step) (c : Nat), e.lq[j]? = some s → p[j]? = some c →
      c ∈ e.t.atoms ∧ e.scope c = true ∧ e.atomOk s.front c = true := by
    intro j s c hs hc
    cases j with
    | zero => exact hroot s c hs hc
    | succ j =>
      obtain ⟨b, _, h1, h2, _, _, h5, _, _⟩ := pv_facts hS pv (j + 1) (by omega) s hs c hc
      exact ⟨hS.tclosed _ _ h1, h2, h5⟩
  refine ⟨?_, ?_, ?_, ?_, ?_, ?_⟩
  · intro u hu v hv h
    exact pv_injective hS pv u v hu hv h
  · intro u hu
    obtain ⟨j, s, hs, rfl⟩ := pos_of_mem e.lq u hu
    obtain ⟨c, hc, hf⟩ := pv_at hS pv j s hs
    rw [hf]; exact (hany j s c hs hc).1
  · intro u hu
    obtain ⟨j, s, hs, rfl⟩ := pos_of_mem e.lq u hu
    obtain ⟨c, hc, hf⟩ := pv_at hS pv j s hs
    rw [hf]; exact (hany j s c hs hc).2.2
  · intro u hu v hv
    obtain ⟨ju, su, hsu, rfl⟩ := pos_of_mem e.lq u hu
    have hvF : v ∈ e.lq.map (·.front) := (hS.ok.step ju su hsu).closed v hv
    obtain ⟨jv, sv, hsv, rfl⟩ := pos_of_mem e.lq v hvF
    rcases Nat.lt_trichotomy jv ju with h | h | h
    · exact later_bond hS pv ju jv h su sv hsu hsv hv
    · subst h
      rw [hsu] at hsv; cases hsv
      exact absurd hv (hS.qloop _)
    · have := later_bond hS pv jv ju h sv su hsv hsu (hS.qsymm _ _ hv)
      exact ⟨hS.tsymm _ _ this.1, by rw [hS.bsymm]; exact this.2⟩
  · intro u hu v hv hb
    obtain ⟨ju, su, hsu, rfl⟩ := pos_of_mem e.lq u hu
    obtain ⟨jv, sv, hsv, rfl⟩ := pos_of_mem e.lq v hv
    rcases Nat.lt_trichotomy jv ju with h | h | h
    · exact later_induced hS pv ju jv h su sv hsu hsv hb
    · subst h
      rw [hsu] at hsv; cases hsv
      exact absurd hb (hS.tloop _)
    · exact hS.qsymm _ _ (later_induced hS pv jv ju h sv su hsv hsu (hS.tsymm _ _ hb))
  · intro u hu
    obtain ⟨j, s, hs, rfl⟩ := pos_of_mem e.lq u hu
    obtain ⟨c, hc, hf⟩ := pv_at hS pv j s hs
    rw [hf]; exact (hany j s c hs hc).2.1

/-- the path is the image of the fronts under the function it denotes -/
theorem pv_path_eq : p = (e.lq.map (·.front)).map (fOf e.lq p) := by
  apply List.ext_getElem?
  intro j
  by_cases hj : j < e.lq.length
  · have hs : e.lq[j]? = some e.lq[j] := by simp [hj]
    obtain ⟨c, hc, hf⟩ := pv_at hS pv j _ hs
    simp [hc, hs, hf, hj]
  · have h1 : p[j]? = none := List.getElem?_eq_none (by rw [pv.len]; omega)
    have h2 : e.lq[j]? = none := List.getElem?_eq_none (by omega)
    simp [h1, h2]

end sound

end ChythonModel.Proofs.C07
