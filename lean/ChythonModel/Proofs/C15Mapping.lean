import ChythonModel.Model.C15Mapping
/-!
`postprocess_parsed_reaction`: a clean mapping is left alone; whatever comes in, the numbers of every role are pairwise
different afterwards, reagents share no number with reactants / products, every molecule keeps its size.
-/
namespace ChythonModel.Proofs.C15
open ChythonModel.Model.C15

/-! ## `assignMaps` -/

/-- nothing to repair: non-zero, pairwise different numbers not used yet are kept -/
theorem assign_clean (ignore : Bool) : ∀ (l : List Nat) (cnt : Nat) (used : List Nat),
    (∀ x ∈ l, x ≠ 0) → l.Nodup → (∀ x ∈ l, x ∉ used) → assignMaps ignore cnt used l = .ok (l, cnt) := by
  intro l
  induction l with
  | nil => intro cnt used _ _ _; rfl
  | cons m ms ih =>
    intro cnt used h0 hnd hu
    have hm0 : m ≠ 0 := h0 m List.mem_cons_self
    have hmu : m ∉ used := hu m List.mem_cons_self
    have hp := List.nodup_cons.mp hnd
    unfold assignMaps
    have e1 : (m == 0) = false := by simpa using hm0
    have e2 : used.contains m = false := by simpa using hmu
    simp only [e1, e2, Bool.false_eq_true, if_false]
    rw [ih cnt (m :: used) (fun x hx => h0 x (List.mem_cons_of_mem _ hx)) hp.2
      (by
        intro x hx hc
        rcases List.mem_cons.mp hc with h | h
        · subst h; exact hp.1 hx
        · exact hu x (List.mem_cons_of_mem _ hx) h)]

/-- what `assignMaps` returns in general -/
theorem assign_spec (ignore : Bool) : ∀ (l : List Nat) (cnt : Nat) (used out : List Nat) (c : Nat),
    (∀ x ∈ l, x < cnt) → assignMaps ignore cnt used l = .ok (out, c) →
    out.length = l.length ∧ cnt ≤ c ∧ out.Nodup ∧
    (∀ x ∈ out, (x ∈ l ∧ x ≠ 0 ∧ x ∉ used) ∨ (cnt ≤ x ∧ x < c)) := by
  intro l
  induction l with
  | nil =>
    intro cnt used out c _ h
    simp only [assignMaps, Except.ok.injEq, Prod.mk.injEq] at h
    obtain ⟨rfl, rfl⟩ := h
    exact ⟨rfl, Nat.le_refl _, List.nodup_nil, by intro x hx; cases hx⟩
  | cons m ms ih =>
    intro cnt used out c hlt h
    have hms : ∀ x ∈ ms, x < cnt := fun x hx => hlt x (List.mem_cons_of_mem _ hx)
    have hm : m < cnt := hlt m List.mem_cons_self
    -- the two "fresh number" branches share this argument
    have fresh : ∀ out' c', assignMaps ignore (cnt + 1) used ms = .ok (out', c') → out = cnt :: out' → c = c' →
        out.length = (m :: ms).length ∧ cnt ≤ c ∧ out.Nodup ∧
        (∀ x ∈ out, (x ∈ m :: ms ∧ x ≠ 0 ∧ x ∉ used) ∨ (cnt ≤ x ∧ x < c)) := by
      intro out' c' hr e1 e2
      subst e1 e2
      obtain ⟨i1, i2, i3, i4⟩ := ih (cnt + 1) used out' c (fun x hx => Nat.lt_succ_of_lt (hms x hx)) hr
      refine ⟨by simp [i1], by omega, ?_, ?_⟩
      · refine List.nodup_cons.mpr ⟨?_, i3⟩
        intro hc
        rcases i4 cnt hc with ⟨h1, _, _⟩ | ⟨h1, _⟩
        · exact absurd (hms cnt h1) (Nat.lt_irrefl _)
        · omega
      · intro x hx
        rcases List.mem_cons.mp hx with rfl | hx
        · exact Or.inr ⟨Nat.le_refl _, by omega⟩
        · rcases i4 x hx with ⟨h1, h2, h3⟩ | ⟨h1, h2⟩
          · exact Or.inl ⟨List.mem_cons_of_mem _ h1, h2, h3⟩
          · exact Or.inr ⟨by omega, h2⟩
    unfold assignMaps at h
    by_cases e1 : (m == 0) = true
    · simp only [e1, if_true] at h
      cases hr : assignMaps ignore (cnt + 1) used ms with
      | error e => rw [hr] at h; cases h
      | ok v =>
        obtain ⟨out', c'⟩ := v
        rw [hr] at h
        simp only [Except.ok.injEq, Prod.mk.injEq] at h
        exact fresh out' c' hr h.1.symm h.2.symm
    · simp only [e1, Bool.false_eq_true, if_false] at h
      by_cases e2 : used.contains m = true
      · simp only [e2, if_true] at h
        by_cases e3 : (!ignore) = true
        · simp [e3] at h
        · simp only [e3, Bool.false_eq_true, if_false] at h
          cases hr : assignMaps ignore (cnt + 1) used ms with
          | error e => rw [hr] at h; cases h
          | ok v =>
            obtain ⟨out', c'⟩ := v
            rw [hr] at h
            simp only [Except.ok.injEq, Prod.mk.injEq] at h
            exact fresh out' c' hr h.1.symm h.2.symm
      · simp only [e2, Bool.false_eq_true, if_false] at h
        cases hr : assignMaps ignore cnt (m :: used) ms with
        | error e => rw [hr] at h; cases h
        | ok v =>
          obtain ⟨out', c'⟩ := v
          rw [hr] at h
          simp only [Except.ok.injEq, Prod.mk.injEq] at h
          obtain ⟨rfl, rfl⟩ := h
          obtain ⟨i1, i2, i3, i4⟩ := ih cnt (m :: used) out' c' hms hr
          have hm0 : m ≠ 0 := by simpa using e1
          have hmu : m ∉ used := by simpa using e2
          refine ⟨by simp [i1], i2, ?_, ?_⟩
          · refine List.nodup_cons.mpr ⟨?_, i3⟩
            intro hc
            rcases i4 m hc with ⟨_, _, h3⟩ | ⟨h1, _⟩
            · exact h3 List.mem_cons_self
            · omega
          · intro x hx
            rcases List.mem_cons.mp hx with rfl | hx
            · exact Or.inl ⟨List.mem_cons_self, hm0, hmu⟩
            · rcases i4 x hx with ⟨h1, h2, h3⟩ | h
              · exact Or.inl ⟨List.mem_cons_of_mem _ h1, h2, fun hc => h3 (List.mem_cons_of_mem _ hc)⟩
              · exact Or.inr h

/-- with `ignore=True` the loop never raises -/
theorem assign_total : ∀ (l : List Nat) (cnt : Nat) (used : List Nat), ∃ out c, assignMaps true cnt used l = .ok (out, c) := by
  intro l
  induction l with
  | nil => intro cnt used; exact ⟨[], cnt, rfl⟩
  | cons m ms ih =>
    intro cnt used
    unfold assignMaps
    by_cases e1 : (m == 0) = true
    · obtain ⟨o, c, h⟩ := ih (cnt + 1) used
      simp only [e1, if_true, h]; exact ⟨_, _, rfl⟩
    · by_cases e2 : used.contains m = true
      · obtain ⟨o, c, h⟩ := ih (cnt + 1) used
        simp only [e1, e2, Bool.false_eq_true, if_false, if_true, Bool.not_true, h]; exact ⟨_, _, rfl⟩
      · obtain ⟨o, c, h⟩ := ih cnt (m :: used)
        simp only [e1, e2, Bool.false_eq_true, if_false, h]; exact ⟨_, _, rfl⟩

/-! ## `renumberIn` -/

theorem renumber_spec (bad : List Nat) : ∀ (xs : List Nat) (cnt : Nat),
    (∀ x ∈ xs, x < cnt) → xs.Nodup →
    (renumberIn bad cnt xs).1.length = xs.length ∧ cnt ≤ (renumberIn bad cnt xs).2 ∧ (renumberIn bad cnt xs).1.Nodup ∧
    (∀ x ∈ (renumberIn bad cnt xs).1, (x ∈ xs ∧ x ∉ bad) ∨ (cnt ≤ x ∧ x < (renumberIn bad cnt xs).2)) := by
  intro xs
  induction xs with
  | nil => intro cnt _ _; exact ⟨rfl, Nat.le_refl _, List.nodup_nil, by intro x hx; cases hx⟩
  | cons y ys ih =>
    intro cnt hlt hnd
    have hys : ∀ x ∈ ys, x < cnt := fun x hx => hlt x (List.mem_cons_of_mem _ hx)
    have hp := List.nodup_cons.mp hnd
    unfold renumberIn
    by_cases hb : bad.contains y = true
    · simp only [hb, if_true]
      obtain ⟨i1, i2, i3, i4⟩ := ih (cnt + 1) (fun x hx => Nat.lt_succ_of_lt (hys x hx)) hp.2
      refine ⟨by simp [i1], by omega, ?_, ?_⟩
      · refine List.nodup_cons.mpr ⟨?_, i3⟩
        intro hc
        rcases i4 cnt hc with ⟨h1, _⟩ | ⟨h1, _⟩
        · exact absurd (hys cnt h1) (Nat.lt_irrefl _)
        · omega
      · intro x hx
        rcases List.mem_cons.mp hx with rfl | hx
        · exact Or.inr ⟨Nat.le_refl _, by omega⟩
        · rcases i4 x hx with ⟨h1, h2⟩ | ⟨h1, h2⟩
          · exact Or.inl ⟨List.mem_cons_of_mem _ h1, h2⟩
          · exact Or.inr ⟨by omega, h2⟩
    · simp only [hb, Bool.false_eq_true, if_false]
      obtain ⟨i1, i2, i3, i4⟩ := ih cnt hys hp.2
      refine ⟨by simp [i1], i2, ?_, ?_⟩
      · refine List.nodup_cons.mpr ⟨?_, i3⟩
        intro hc
        rcases i4 y hc with ⟨h1, _⟩ | ⟨h1, _⟩
        · exact hp.1 h1
        · have := hlt y List.mem_cons_self; omega
      · intro x hx
        rcases List.mem_cons.mp hx with rfl | hx
        · exact Or.inl ⟨List.mem_cons_self, by simpa using hb⟩
        · rcases i4 x hx with ⟨h1, h2⟩ | h
          · exact Or.inl ⟨List.mem_cons_of_mem _ h1, h2⟩
          · exact Or.inr h

/-! ## cutting into molecules -/

theorem cutLike_flatten (R : List (List Nat)) : cutLike R R.flatten = R := by
  induction R with
  | nil => rfl
  | cons m ms ih =>
    simp only [cutLike, List.flatten_cons]
    rw [List.take_left', List.drop_left', ih] <;> rfl

theorem cutLike_shape : ∀ (R : List (List Nat)) (l : List Nat), l.length = R.flatten.length →
    (cutLike R l).map List.length = R.map List.length ∧ (cutLike R l).flatten = l := by
  intro R
  induction R with
  | nil =>
    intro l h
    simp only [List.flatten_nil, List.length_nil] at h
    have : l = [] := List.eq_nil_of_length_eq_zero h
    subst this; exact ⟨rfl, rfl⟩
  | cons m ms ih =>
    intro l h
    simp only [List.flatten_cons, List.length_append] at h
    obtain ⟨i1, i2⟩ := ih (l.drop m.length) (by simp only [List.length_drop]; omega)
    refine ⟨?_, ?_⟩
    · simp only [cutLike, List.map_cons, i1, List.length_take]
      congr 1; omega
    · simp only [cutLike, List.flatten_cons, i2, List.take_append_drop]

/-! ## bounds -/

theorem le_foldl_max (l : List Nat) : ∀ a, a ≤ l.foldl max a ∧ ∀ x ∈ l, x ≤ l.foldl max a := by
  induction l with
  | nil => intro a; exact ⟨Nat.le_refl _, by intro x hx; cases hx⟩
  | cons y ys ih =>
    intro a
    obtain ⟨i1, i2⟩ := ih (max a y)
    refine ⟨by simp only [List.foldl_cons]; omega, ?_⟩
    intro x hx
    simp only [List.foldl_cons]
    rcases List.mem_cons.mp hx with rfl | hx
    · omega
    · exact i2 x hx

theorem le_maxList (l : List Nat) (x : Nat) (h : x ∈ l) : x ≤ maxList l := (le_foldl_max l 0).2 x h

theorem dupInMol_nodup (m : List Nat) (h : m.Nodup) : dupInMol m = false := by
  induction m with
  | nil => rfl
  | cons x xs ih =>
    have hp := List.nodup_cons.mp h
    simp only [dupInMol, ih hp.2, Bool.or_false, Bool.and_eq_false_iff]
    right
    simpa using hp.1

/-! ## the whole function -/

/-- a complete, consistent mapping: every atom mapped, numbers pairwise different inside a role, reagents apart -/
def CleanMaps (R P A : List (List Nat)) : Prop :=
  (∀ x ∈ R.flatten ++ P.flatten ++ A.flatten, x ≠ 0) ∧ R.flatten.Nodup ∧ P.flatten.Nodup ∧ A.flatten.Nodup ∧
  ∀ x ∈ A.flatten, x ∉ R.flatten ∧ x ∉ P.flatten

theorem repairFlat_clean (ignore : Bool) (fR fP fA : List Nat)
    (h0 : ∀ x ∈ fR ++ fP ++ fA, x ≠ 0) (nR : fR.Nodup) (nP : fP.Nodup) (nA : fA.Nodup)
    (hd : ∀ x ∈ fA, x ∉ fR ∧ x ∉ fP) :
    repairFlat false ignore fR fP fA = .ok (fR, fP, fA) := by
  unfold repairFlat
  simp only
  rw [assign_clean ignore fR _ [] (fun x hx => h0 x (by simp [hx])) nR (by intro x _ hc; cases hc)]
  simp only
  rw [assign_clean ignore fP _ [] (fun x hx => h0 x (by simp [hx])) nP (by intro x _ hc; cases hc)]
  simp only
  rw [assign_clean ignore fA _ [] (fun x hx => h0 x (by simp [hx])) nA (by intro x _ hc; cases hc)]
  simp only
  have hb : (fA.filter fun x => fR.contains x || fP.contains x) = [] := by
    rw [List.filter_eq_nil_iff]
    intro x hx
    have := hd x hx
    simp [this.1, this.2]
  rw [hb]
  simp

/-- **a clean mapping is left alone** (default reader options and `ignore=False`) -/
theorem postprocess_clean (ignore : Bool) (R P A : List (List Nat)) (h : CleanMaps R P A) :
    postprocessRxn false ignore R P A = .ok ⟨R, P, A⟩ := by
  obtain ⟨h0, nR, nP, nA, hd⟩ := h
  unfold postprocessRxn
  have hdup : (R ++ P ++ A).any dupInMol = false := by
    rw [List.any_eq_false]
    intro m hm
    have : m.Nodup := by
      simp only [List.mem_append] at hm
      rcases hm with (h | h) | h
      · exact (List.pairwise_flatten.mp nR).1 m h
      · exact (List.pairwise_flatten.mp nP).1 m h
      · exact (List.pairwise_flatten.mp nA).1 m h
    simp [dupInMol_nodup m this]
  rw [hdup]
  simp only [Bool.and_false, Bool.false_eq_true, if_false]
  rw [repairFlat_clean ignore _ _ _ h0 nR nP nA hd]
  simp only [cutLike_flatten]

/-- what the repaired flat role lists satisfy -/
structure Repaired (fR fP fA mR mP mA : List Nat) : Prop where
  lenR : mR.length = fR.length
  lenP : mP.length = fP.length
  lenA : mA.length = fA.length
  ndR : mR.Nodup
  ndP : mP.Nodup
  ndA : mA.Nodup
  apart : ∀ x ∈ mA, x ∉ mR ∧ x ∉ mP
  pos : ∀ x ∈ mR ++ mP ++ mA, 1 ≤ x

theorem repairFlat_spec (fR fP fA mR mP mA : List Nat)
    (h : repairFlat false true fR fP fA = .ok (mR, mP, mA)) : Repaired fR fP fA mR mP mA := by
  unfold repairFlat at h
  simp only at h
  generalize hstart : max (max (maxList fP) (maxList fR)) (maxList fA) + 1 = start at h
  have bR : ∀ x ∈ fR, x < start := fun x hx => by have := le_maxList fR x hx; omega
  have bP : ∀ x ∈ fP, x < start := fun x hx => by have := le_maxList fP x hx; omega
  have bA : ∀ x ∈ fA, x < start := fun x hx => by have := le_maxList fA x hx; omega
  have s1 : 1 ≤ start := by omega
  obtain ⟨o1, c1, h1⟩ := assign_total fR start []
  rw [h1] at h
  simp only at h
  obtain ⟨r1, r2, r3, r4⟩ := assign_spec true fR start [] o1 c1 bR h1
  obtain ⟨o2, c2, h2⟩ := assign_total fP c1 []
  rw [h2] at h
  simp only at h
  obtain ⟨p1, p2, p3, p4⟩ := assign_spec true fP c1 [] o2 c2 (fun x hx => by have := bP x hx; omega) h2
  obtain ⟨o3, c3, h3⟩ := assign_total fA c2 []
  rw [h3] at h
  simp only at h
  obtain ⟨a1, a2, a3, a4⟩ := assign_spec true fA c2 [] o3 c3 (fun x hx => by have := bA x hx; omega) h3
  have ltR : ∀ x ∈ o1, 1 ≤ x ∧ x < c1 := by
    intro x hx
    rcases r4 x hx with ⟨h1, h2, _⟩ | ⟨h1, h2⟩
    · have := bR x h1; omega
    · omega
  have ltP : ∀ x ∈ o2, 1 ≤ x ∧ x < c2 := by
    intro x hx
    rcases p4 x hx with ⟨h1, h2, _⟩ | ⟨h1, h2⟩
    · have := bP x h1; omega
    · omega
  have ltA : ∀ x ∈ o3, 1 ≤ x ∧ x < c3 := by
    intro x hx
    rcases a4 x hx with ⟨h1, h2, _⟩ | ⟨h1, h2⟩
    · have := bA x h1; omega
    · omega
  by_cases hb : (o3.filter fun x => o1.contains x || o2.contains x).isEmpty = true
  · simp only [hb, Bool.not_true, Bool.false_and, Bool.false_eq_true, if_false, if_true, Except.ok.injEq,
      Prod.mk.injEq] at h
    obtain ⟨rfl, rfl, rfl⟩ := h
    refine ⟨r1, p1, a1, r3, p3, a3, ?_, ?_⟩
    · intro x hx
      have hnil := List.isEmpty_iff.mp hb
      rw [List.filter_eq_nil_iff] at hnil
      have := hnil x hx
      simpa using this
    · intro x hx
      simp only [List.mem_append] at hx
      rcases hx with (h | h) | h
      · exact (ltR x h).1
      · exact (ltP x h).1
      · exact (ltA x h).1
  · simp only [hb, Bool.not_false, Bool.true_and, Bool.not_true, Bool.false_eq_true, if_false, Except.ok.injEq,
      Prod.mk.injEq] at h
    obtain ⟨rfl, rfl, hA⟩ := h
    obtain ⟨n1, n2, n3, n4⟩ := renumber_spec (o3.filter fun x => o1.contains x || o2.contains x) o3 c3
      (fun x hx => (ltA x hx).2) a3
    rw [hA] at n1 n3 n4
    refine ⟨r1, p1, by omega, r3, p3, n3, ?_, ?_⟩
    · intro x hx
      rcases n4 x hx with ⟨k1, k2⟩ | ⟨k1, _⟩
      · simp only [List.mem_filter, not_and] at k2
        have := k2 k1
        simpa using this
      · constructor
        · intro hc; have := ltR x hc; omega
        · intro hc; have := ltP x hc; omega
    · intro x hx
      simp only [List.mem_append] at hx
      rcases hx with (h | h) | h
      · exact (ltR x h).1
      · exact (ltP x h).1
      · rcases n4 x h with ⟨k1, _⟩ | ⟨k1, _⟩
        · exact (ltA x k1).1
        · omega

/-- the result as a whole: every molecule keeps its size; numbers pairwise different inside every role; reagents share
    no number with reactants or products; all numbers positive -/
structure GoodMaps (R P A : List (List Nat)) (o : MapOut) : Prop where
  shapeR : o.reactants.map List.length = R.map List.length
  shapeP : o.products.map List.length = P.map List.length
  shapeA : o.reagents.map List.length = A.map List.length
  injR : o.reactants.flatten.Nodup
  injP : o.products.flatten.Nodup
  injA : o.reagents.flatten.Nodup
  apart : ∀ x ∈ o.reagents.flatten, x ∉ o.reactants.flatten ∧ x ∉ o.products.flatten
  pos : ∀ x ∈ o.reactants.flatten ++ o.products.flatten ++ o.reagents.flatten, 1 ≤ x

theorem goodMaps_of_repaired (R P A : List (List Nat)) (mR mP mA : List Nat)
    (h : Repaired R.flatten P.flatten A.flatten mR mP mA) :
    GoodMaps R P A ⟨cutLike R mR, cutLike P mP, cutLike A mA⟩ := by
  obtain ⟨sR, fR⟩ := cutLike_shape R mR h.lenR
  obtain ⟨sP, fP⟩ := cutLike_shape P mP h.lenP
  obtain ⟨sA, fA⟩ := cutLike_shape A mA h.lenA
  refine ⟨sR, sP, sA, ?_, ?_, ?_, ?_, ?_⟩ <;> simp only [fR, fP, fA]
  · exact h.ndR
  · exact h.ndP
  · exact h.ndA
  · exact h.apart
  · exact h.pos

theorem postprocess_total (R P A : List (List Nat)) : ∃ o, postprocessRxn false true R P A = .ok o := by
  unfold postprocessRxn repairFlat
  simp only [Bool.not_true, Bool.false_and, Bool.false_eq_true, if_false, Bool.and_false]
  obtain ⟨o1, c1, h1⟩ := assign_total R.flatten
    (max (max (maxList P.flatten) (maxList R.flatten)) (maxList A.flatten) + 1) []
  rw [h1]
  simp only
  obtain ⟨o2, c2, h2⟩ := assign_total P.flatten c1 []
  rw [h2]
  simp only
  obtain ⟨o3, c3, h3⟩ := assign_total A.flatten c2 []
  rw [h3]
  exact ⟨_, rfl⟩

theorem postprocess_spec (R P A : List (List Nat)) (o : MapOut)
    (h : postprocessRxn false true R P A = .ok o) : GoodMaps R P A o := by
  unfold postprocessRxn at h
  simp only [Bool.not_true, Bool.false_and, Bool.false_eq_true, if_false] at h
  cases hr : repairFlat false true R.flatten P.flatten A.flatten with
  | error e => rw [hr] at h; cases h
  | ok v =>
    obtain ⟨mR, mP, mA⟩ := v
    rw [hr] at h
    simp only [Except.ok.injEq] at h
    subst h
    exact goodMaps_of_repaired R P A mR mP mA (repairFlat_spec _ _ _ _ _ _ hr)

/-! ## `remap=True`: closing the gaps is one injective renumbering applied to all three roles -/

/-- the renumbering that the gap-closing loop applies to every number -/
def shiftBy (lose : List Nat) (x : Nat) : Nat := lose.foldl (fun x j => if x < j then x else x - 1) x

theorem foldl_closeGap (lose : List Nat) : ∀ l : List Nat,
    lose.foldl (fun l j => closeGap j l) l = l.map (shiftBy lose) := by
  induction lose with
  | nil =>
    intro l
    have : shiftBy [] = id := by funext x; rfl
    simp [this]
  | cons j rest ih =>
    intro l
    rw [List.foldl_cons, ih]
    unfold closeGap
    rw [List.map_map]
    apply List.map_congr_left
    intro x _
    rfl

theorem shiftBy_props : ∀ (lose : List Nat), lose.Pairwise (· > ·) → (∀ j ∈ lose, 1 ≤ j) →
    ∀ x y, x ∉ lose → y ∉ lose → (shiftBy lose x = shiftBy lose y → x = y) ∧ (1 ≤ x → 1 ≤ shiftBy lose x) := by
  intro lose
  induction lose with
  | nil => intro _ _ x y _ _; exact ⟨fun h => h, fun h => h⟩
  | cons j rest ih =>
    intro hp h1 x y hx hy
    have hp' := List.pairwise_cons.mp hp
    have hj : 1 ≤ j := h1 j List.mem_cons_self
    have hxj : x ≠ j := fun e => hx (e ▸ List.mem_cons_self)
    have hyj : y ≠ j := fun e => hy (e ▸ List.mem_cons_self)
    have stay : ∀ z, z ∉ j :: rest → (if z < j then z else z - 1) ∉ rest := by
      intro z hz hc
      have hzj : z ≠ j := fun e => hz (e ▸ List.mem_cons_self)
      by_cases hlt : z < j
      · rw [if_pos hlt] at hc; exact hz (List.mem_cons_of_mem _ hc)
      · rw [if_neg hlt] at hc
        have := hp'.1 _ hc
        omega
    obtain ⟨i1, i2⟩ := ih hp'.2 (fun k hk => h1 k (List.mem_cons_of_mem _ hk))
      (if x < j then x else x - 1) (if y < j then y else y - 1) (stay x hx) (stay y hy)
    have e : ∀ z, shiftBy (j :: rest) z = shiftBy rest (if z < j then z else z - 1) := fun z => rfl
    rw [e x, e y]
    constructor
    · intro h
      have := i1 h
      by_cases a : x < j <;> by_cases b : y < j <;> simp only [a, b, if_true, if_false] at this <;> omega
    · intro hx1
      apply i2
      by_cases a : x < j
      · rw [if_pos a]; exact hx1
      · rw [if_neg a]; omega

theorem loseList_props (n : Nat) (inUse : List Nat) :
    (loseList n inUse).Pairwise (· > ·) ∧ ∀ j ∈ loseList n inUse, 1 ≤ j ∧ j ∉ inUse := by
  unfold loseList
  constructor
  · rw [List.pairwise_reverse]
    exact (List.pairwise_lt_range (n := n)).filter _
  · intro j hj
    rw [List.mem_reverse, List.mem_filter] at hj
    simpa using hj.2

theorem nodup_map_on {f : Nat → Nat} : ∀ (l : List Nat), (∀ x ∈ l, ∀ y ∈ l, f x = f y → x = y) → l.Nodup → (l.map f).Nodup := by
  intro l
  induction l with
  | nil => intro _ _; exact List.nodup_nil
  | cons a as ih =>
    intro hinj hnd
    have hp := List.nodup_cons.mp hnd
    simp only [List.map_cons]
    refine List.nodup_cons.mpr ⟨?_, ih (fun x hx y hy => hinj x (List.mem_cons_of_mem _ hx) y (List.mem_cons_of_mem _ hy)) hp.2⟩
    intro hc
    obtain ⟨b, hb, e⟩ := List.mem_map.mp hc
    have := hinj b (List.mem_cons_of_mem _ hb) a List.mem_cons_self e
    exact hp.1 (this ▸ hb)

theorem repairFlat_true (fR fP fA x y z : List Nat) (h : repairFlat true true fR fP fA = .ok (x, y, z)) :
    ∃ mR mP mA n, repairFlat false true fR fP fA = .ok (mR, mP, mA) ∧
      x = mR.map (shiftBy (loseList n (mR ++ mP ++ mA))) ∧ y = mP.map (shiftBy (loseList n (mR ++ mP ++ mA))) ∧
      z = mA.map (shiftBy (loseList n (mR ++ mP ++ mA))) := by
  unfold repairFlat at h ⊢
  simp only at h ⊢
  generalize max (max (maxList fP) (maxList fR)) (maxList fA) + 1 = start at h ⊢
  obtain ⟨o1, c1, h1⟩ := assign_total fR start []
  rw [h1] at h ⊢
  simp only at h ⊢
  obtain ⟨o2, c2, h2⟩ := assign_total fP c1 []
  rw [h2] at h ⊢
  simp only at h ⊢
  obtain ⟨o3, c3, h3⟩ := assign_total fA c2 []
  rw [h3] at h ⊢
  simp only at h ⊢
  by_cases hb : (o3.filter fun x => o1.contains x || o2.contains x).isEmpty = true
  · simp only [hb, Bool.not_true, Bool.false_and, Bool.false_eq_true, if_false, if_true, Except.ok.injEq,
      Prod.mk.injEq, foldl_closeGap] at h ⊢
    obtain ⟨rfl, rfl, rfl⟩ := h
    exact ⟨_, _, _, _, ⟨rfl, rfl, rfl⟩, rfl, rfl, rfl⟩
  · simp only [hb, Bool.not_false, Bool.true_and, Bool.not_true, Bool.false_eq_true, if_false, if_true, Except.ok.injEq,
      Prod.mk.injEq, foldl_closeGap] at h ⊢
    obtain ⟨rfl, rfl, rfl⟩ := h
    exact ⟨_, _, _, _, ⟨rfl, rfl, rfl⟩, rfl, rfl, rfl⟩

/-- a renumbering that is injective (and keeps numbers positive) on the numbers in use keeps the repaired state -/
theorem repaired_map (fR fP fA mR mP mA : List Nat) (g : Nat → Nat) (h : Repaired fR fP fA mR mP mA)
    (hinj : ∀ x ∈ mR ++ mP ++ mA, ∀ y ∈ mR ++ mP ++ mA, g x = g y → x = y)
    (hpos : ∀ x ∈ mR ++ mP ++ mA, 1 ≤ x → 1 ≤ g x) :
    Repaired fR fP fA (mR.map g) (mP.map g) (mA.map g) := by
  have inR : ∀ x ∈ mR, x ∈ mR ++ mP ++ mA := fun x hx => by simp [hx]
  have inP : ∀ x ∈ mP, x ∈ mR ++ mP ++ mA := fun x hx => by simp [hx]
  have inA : ∀ x ∈ mA, x ∈ mR ++ mP ++ mA := fun x hx => by simp [hx]
  refine ⟨by simp [h.lenR], by simp [h.lenP], by simp [h.lenA], ?_, ?_, ?_, ?_, ?_⟩
  · exact nodup_map_on mR (fun x hx y hy => hinj x (inR x hx) y (inR y hy)) h.ndR
  · exact nodup_map_on mP (fun x hx y hy => hinj x (inP x hx) y (inP y hy)) h.ndP
  · exact nodup_map_on mA (fun x hx y hy => hinj x (inA x hx) y (inA y hy)) h.ndA
  · intro x hx
    obtain ⟨a, ha, rfl⟩ := List.mem_map.mp hx
    constructor
    · intro hc
      obtain ⟨r, hr, e⟩ := List.mem_map.mp hc
      have := hinj r (inR r hr) a (inA a ha) e
      exact (h.apart a ha).1 (this ▸ hr)
    · intro hc
      obtain ⟨r, hr, e⟩ := List.mem_map.mp hc
      have := hinj r (inP r hr) a (inA a ha) e
      exact (h.apart a ha).2 (this ▸ hr)
  · intro x hx
    rw [← List.map_append, ← List.map_append] at hx
    obtain ⟨a, ha, rfl⟩ := List.mem_map.mp hx
    exact hpos a ha (h.pos a ha)

theorem repairFlat_true_spec (fR fP fA x y z : List Nat) (h : repairFlat true true fR fP fA = .ok (x, y, z)) :
    Repaired fR fP fA x y z ∧
    ∃ mR mP mA, repairFlat false true fR fP fA = .ok (mR, mP, mA) ∧ ∃ g : Nat → Nat,
      (∀ a ∈ mR ++ mP ++ mA, ∀ b ∈ mR ++ mP ++ mA, g a = g b → a = b) ∧
      x = mR.map g ∧ y = mP.map g ∧ z = mA.map g := by
  obtain ⟨mR, mP, mA, n, h0, rfl, rfl, rfl⟩ := repairFlat_true fR fP fA x y z h
  obtain ⟨l1, l2⟩ := loseList_props n (mR ++ mP ++ mA)
  have notin : ∀ a ∈ mR ++ mP ++ mA, a ∉ loseList n (mR ++ mP ++ mA) := fun a ha hc => (l2 a hc).2 ha
  have props := shiftBy_props _ l1 (fun j hj => (l2 j hj).1)
  have hinj : ∀ a ∈ mR ++ mP ++ mA, ∀ b ∈ mR ++ mP ++ mA,
      shiftBy (loseList n (mR ++ mP ++ mA)) a = shiftBy (loseList n (mR ++ mP ++ mA)) b → a = b :=
    fun a ha b hb => (props a b (notin a ha) (notin b hb)).1
  refine ⟨repaired_map _ _ _ _ _ _ _ (repairFlat_spec _ _ _ _ _ _ h0) hinj
    (fun a ha => (props a a (notin a ha) (notin a ha)).2), mR, mP, mA, h0, _, hinj, rfl, rfl, rfl⟩

theorem postprocess_remap_spec (R P A : List (List Nat)) (o : MapOut)
    (h : postprocessRxn true true R P A = .ok o) :
    GoodMaps R P A o ∧ ∃ o₀, postprocessRxn false true R P A = .ok o₀ ∧ ∃ g : Nat → Nat,
      (∀ a ∈ o₀.reactants.flatten ++ o₀.products.flatten ++ o₀.reagents.flatten,
        ∀ b ∈ o₀.reactants.flatten ++ o₀.products.flatten ++ o₀.reagents.flatten, g a = g b → a = b) ∧
      o.reactants.flatten = o₀.reactants.flatten.map g ∧ o.products.flatten = o₀.products.flatten.map g ∧
      o.reagents.flatten = o₀.reagents.flatten.map g := by
  unfold postprocessRxn at h ⊢
  simp only [Bool.not_true, Bool.false_and, Bool.false_eq_true, if_false] at h ⊢
  cases hr : repairFlat true true R.flatten P.flatten A.flatten with
  | error e => rw [hr] at h; cases h
  | ok v =>
    obtain ⟨x, y, z⟩ := v
    rw [hr] at h
    simp only [Except.ok.injEq] at h
    subst h
    obtain ⟨rep, mR, mP, mA, h0, g, hinj, rfl, rfl, rfl⟩ := repairFlat_true_spec _ _ _ _ _ _ hr
    have rep0 := repairFlat_spec _ _ _ _ _ _ h0
    refine ⟨goodMaps_of_repaired R P A _ _ _ rep, ⟨cutLike R mR, cutLike P mP, cutLike A mA⟩, by rw [h0], g, ?_⟩
    have eR := (cutLike_shape R mR rep0.lenR).2
    have eP := (cutLike_shape P mP rep0.lenP).2
    have eA := (cutLike_shape A mA rep0.lenA).2
    have eR' := (cutLike_shape R (mR.map g) rep.lenR).2
    have eP' := (cutLike_shape P (mP.map g) rep.lenP).2
    have eA' := (cutLike_shape A (mA.map g) rep.lenA).2
    simp only [eR, eP, eA, eR', eP', eA']
    exact ⟨hinj, trivial, trivial, trivial⟩

/-- `remap=True` on a clean mapping without gaps is the identity as well -/
theorem repairFlat_clean_remap (ignore : Bool) (fR fP fA : List Nat)
    (h0 : ∀ x ∈ fR ++ fP ++ fA, x ≠ 0) (nR : fR.Nodup) (nP : fP.Nodup) (nA : fA.Nodup)
    (hd : ∀ x ∈ fA, x ∉ fR ∧ x ∉ fP)
    (hg : ∀ j, 1 ≤ j → j ≤ max (max (maxList fP) (maxList fR)) (maxList fA) → j ∈ fR ++ fP ++ fA) :
    repairFlat true ignore fR fP fA = .ok (fR, fP, fA) := by
  unfold repairFlat
  simp only
  rw [assign_clean ignore fR _ [] (fun x hx => h0 x (by simp [hx])) nR (by intro x _ hc; cases hc)]
  simp only
  rw [assign_clean ignore fP _ [] (fun x hx => h0 x (by simp [hx])) nP (by intro x _ hc; cases hc)]
  simp only
  rw [assign_clean ignore fA _ [] (fun x hx => h0 x (by simp [hx])) nA (by intro x _ hc; cases hc)]
  simp only
  have hb : (fA.filter fun x => fR.contains x || fP.contains x) = [] := by
    rw [List.filter_eq_nil_iff]
    intro x hx
    have := hd x hx
    simp [this.1, this.2]
  rw [hb]
  have hl : loseList (max (max (maxList fP) (maxList fR)) (maxList fA) + 1) (fR ++ fP ++ fA) = [] := by
    unfold loseList
    rw [List.reverse_eq_nil_iff, List.filter_eq_nil_iff]
    intro j hj
    have hlt := List.mem_range.mp hj
    intro hc
    simp only [Bool.and_eq_true, decide_eq_true_eq, Bool.not_eq_true', List.contains_eq_mem, decide_eq_false_iff_not] at hc
    exact hc.2 (hg j hc.1 (by omega))
  simp only [List.isEmpty_nil, Bool.not_true, Bool.false_and, Bool.false_eq_true, if_false, if_true, hl, List.foldl_nil]

theorem postprocess_clean_remap (ignore : Bool) (R P A : List (List Nat)) (h : CleanMaps R P A)
    (hg : ∀ j, 1 ≤ j → j ≤ max (max (maxList P.flatten) (maxList R.flatten)) (maxList A.flatten) →
      j ∈ R.flatten ++ P.flatten ++ A.flatten) :
    postprocessRxn true ignore R P A = .ok ⟨R, P, A⟩ := by
  obtain ⟨h0, nR, nP, nA, hd⟩ := h
  unfold postprocessRxn
  have hdup : (R ++ P ++ A).any dupInMol = false := by
    rw [List.any_eq_false]
    intro m hm
    have : m.Nodup := by
      simp only [List.mem_append] at hm
      rcases hm with (h | h) | h
      · exact (List.pairwise_flatten.mp nR).1 m h
      · exact (List.pairwise_flatten.mp nP).1 m h
      · exact (List.pairwise_flatten.mp nA).1 m h
    simp [dupInMol_nodup m this]
  rw [hdup]
  simp only [Bool.and_false, Bool.false_eq_true, if_false]
  rw [repairFlat_clean_remap ignore _ _ _ h0 nR nP nA hd hg]
  simp only [cutLike_flatten]

/-! ## atom level: a number that needs no repair is kept -/

/-- position `i` keeps its number when it is mapped, not used before the loop and does not occur earlier in the role -/
theorem assign_keeps (ignore : Bool) : ∀ (l : List Nat) (cnt : Nat) (used out : List Nat) (c : Nat),
    assignMaps ignore cnt used l = .ok (out, c) →
    ∀ i (hi : i < l.length), l[i] ≠ 0 → l[i] ∉ used → l[i] ∉ l.take i → out[i]? = some l[i] := by
  intro l
  induction l with
  | nil => intro _ _ _ _ _ i hi; cases hi
  | cons m ms ih =>
    intro cnt used out c h i hi h0 hu ht
    unfold assignMaps at h
    cases i with
    | zero =>
      simp only [List.getElem_cons_zero] at h0 hu ⊢
      have e1 : (m == 0) = false := by simpa using h0
      have e2 : used.contains m = false := by simpa using hu
      simp only [e1, e2, Bool.false_eq_true, if_false] at h
      cases hr : assignMaps ignore cnt (m :: used) ms with
      | error e => rw [hr] at h; cases h
      | ok v =>
        obtain ⟨out', c'⟩ := v
        rw [hr] at h
        simp only [Except.ok.injEq, Prod.mk.injEq] at h
        obtain ⟨rfl, rfl⟩ := h
        rfl
    | succ j =>
      have hj : j < ms.length := by simpa using hi
      simp only [List.getElem_cons_succ] at h0 hu ⊢
      simp only [List.take_succ_cons, List.mem_cons, not_or, List.getElem_cons_succ] at ht
      -- in every branch the tail is processed with `used` or `m :: used`; `ms[j]` is in neither
      have tail : ∀ cnt' used' out' c', assignMaps ignore cnt' used' ms = .ok (out', c') →
          (∀ x ∈ used', x = m ∨ x ∈ used) → out'[j]? = some ms[j] := by
        intro cnt' used' out' c' hr hsub
        apply ih cnt' used' out' c' hr j hj h0 _ ht.2
        intro hc
        rcases hsub _ hc with e | e
        · exact ht.1 e
        · exact hu e
      by_cases e1 : (m == 0) = true
      · simp only [e1, if_true] at h
        cases hr : assignMaps ignore (cnt + 1) used ms with
        | error e => rw [hr] at h; cases h
        | ok v =>
          obtain ⟨out', c'⟩ := v
          rw [hr] at h
          simp only [Except.ok.injEq, Prod.mk.injEq] at h
          obtain ⟨rfl, rfl⟩ := h
          simpa using tail _ _ _ _ hr (fun x hx => Or.inr hx)
      · simp only [e1, Bool.false_eq_true, if_false] at h
        by_cases e2 : used.contains m = true
        · simp only [e2, if_true] at h
          by_cases e3 : (!ignore) = true
          · simp [e3] at h
          · simp only [e3, Bool.false_eq_true, if_false] at h
            cases hr : assignMaps ignore (cnt + 1) used ms with
            | error e => rw [hr] at h; cases h
            | ok v =>
              obtain ⟨out', c'⟩ := v
              rw [hr] at h
              simp only [Except.ok.injEq, Prod.mk.injEq] at h
              obtain ⟨rfl, rfl⟩ := h
              simpa using tail _ _ _ _ hr (fun x hx => Or.inr hx)
        · simp only [e2, Bool.false_eq_true, if_false] at h
          cases hr : assignMaps ignore cnt (m :: used) ms with
          | error e => rw [hr] at h; cases h
          | ok v =>
            obtain ⟨out', c'⟩ := v
            rw [hr] at h
            simp only [Except.ok.injEq, Prod.mk.injEq] at h
            obtain ⟨rfl, rfl⟩ := h
            simpa using tail _ _ _ _ hr (fun x hx => by
              rcases List.mem_cons.mp hx with e | e
              · exact Or.inl e
              · exact Or.inr e)

/-- reactants and products: an atom whose written number is positive and does not occur earlier in its role keeps it
    (default options) -/
theorem repairFlat_keeps (fR fP fA mR mP mA : List Nat)
    (h : repairFlat false true fR fP fA = .ok (mR, mP, mA)) :
    (∀ i (hi : i < fR.length), fR[i] ≠ 0 → fR[i] ∉ fR.take i → mR[i]? = some fR[i]) ∧
    (∀ i (hi : i < fP.length), fP[i] ≠ 0 → fP[i] ∉ fP.take i → mP[i]? = some fP[i]) := by
  unfold repairFlat at h
  simp only at h
  generalize max (max (maxList fP) (maxList fR)) (maxList fA) + 1 = start at h
  obtain ⟨o1, c1, h1⟩ := assign_total fR start []
  rw [h1] at h
  simp only at h
  obtain ⟨o2, c2, h2⟩ := assign_total fP c1 []
  rw [h2] at h
  simp only at h
  obtain ⟨o3, c3, h3⟩ := assign_total fA c2 []
  rw [h3] at h
  simp only at h
  have k1 := assign_keeps true fR start [] o1 c1 h1
  have k2 := assign_keeps true fP c1 [] o2 c2 h2
  by_cases hb : (o3.filter fun x => o1.contains x || o2.contains x).isEmpty = true
  · simp only [hb, Bool.not_true, Bool.false_and, Bool.false_eq_true, if_false, if_true, Except.ok.injEq,
      Prod.mk.injEq] at h
    obtain ⟨rfl, rfl, _⟩ := h
    exact ⟨fun i hi a b => k1 i hi a (by simp) b, fun i hi a b => k2 i hi a (by simp) b⟩
  · simp only [hb, Bool.not_false, Bool.true_and, Bool.not_true, Bool.false_eq_true, if_false, Except.ok.injEq,
      Prod.mk.injEq] at h
    obtain ⟨rfl, rfl, _⟩ := h
    exact ⟨fun i hi a b => k1 i hi a (by simp) b, fun i hi a b => k2 i hi a (by simp) b⟩

theorem postprocess_keeps (R P A : List (List Nat)) (o : MapOut)
    (h : postprocessRxn false true R P A = .ok o) :
    (∀ i (hi : i < R.flatten.length), R.flatten[i] ≠ 0 → R.flatten[i] ∉ R.flatten.take i →
      o.reactants.flatten[i]? = some R.flatten[i]) ∧
    (∀ i (hi : i < P.flatten.length), P.flatten[i] ≠ 0 → P.flatten[i] ∉ P.flatten.take i →
      o.products.flatten[i]? = some P.flatten[i]) := by
  unfold postprocessRxn at h
  simp only [Bool.not_true, Bool.false_and, Bool.false_eq_true, if_false] at h
  cases hr : repairFlat false true R.flatten P.flatten A.flatten with
  | error e => rw [hr] at h; cases h
  | ok v =>
    obtain ⟨mR, mP, mA⟩ := v
    rw [hr] at h
    simp only [Except.ok.injEq] at h
    subst h
    have rep := repairFlat_spec _ _ _ _ _ _ hr
    simp only [(cutLike_shape R mR rep.lenR).2, (cutLike_shape P mP rep.lenP).2]
    exact repairFlat_keeps _ _ _ _ _ _ hr

/-! ## `remap=True` leaves no gaps -/

/-- closing the gaps `L` (descending, all below `n`, none in use, every number of `1 … n-1` a gap or in use) maps the
    numbers in use onto exactly `1 … n - 1 - |L|` -/
theorem shiftBy_gapfree : ∀ (L S : List Nat) (n : Nat), L.Pairwise (· > ·) →
    (∀ j ∈ L, 1 ≤ j ∧ j < n ∧ j ∉ S) → (∀ x ∈ S, 1 ≤ x ∧ x < n) → (∀ k, 1 ≤ k → k < n → k ∈ L ∨ k ∈ S) →
    (∀ y ∈ S.map (shiftBy L), 1 ≤ y ∧ y < n - L.length) ∧ (∀ k, 1 ≤ k → k < n - L.length → k ∈ S.map (shiftBy L)) := by
  intro L
  induction L with
  | nil =>
    intro S n _ _ hb hc
    have : shiftBy [] = id := by funext x; rfl
    simp only [this, List.map_id, List.length_nil, Nat.sub_zero]
    refine ⟨hb, ?_⟩
    intro k h1 h2
    rcases hc k h1 h2 with h | h
    · cases h
    · exact h
  | cons j rest ih =>
    intro S n hp hL hb hc
    have hp' := List.pairwise_cons.mp hp
    obtain ⟨j1, jn, jS⟩ := hL j List.mem_cons_self
    let g : Nat → Nat := fun x => if x < j then x else x - 1
    have hmap : S.map (shiftBy (j :: rest)) = (S.map g).map (shiftBy rest) := by
      rw [List.map_map]; apply List.map_congr_left; intro x _; rfl
    have hxj : ∀ x ∈ S, x ≠ j := fun x hx e => jS (e ▸ hx)
    have key := ih (S.map g) (n - 1) hp'.2
      (by
        intro k hk
        have hkj := hp'.1 k hk
        obtain ⟨k1, _, kS⟩ := hL k (List.mem_cons_of_mem _ hk)
        refine ⟨k1, by omega, ?_⟩
        intro hc'
        obtain ⟨x, hx, e⟩ := List.mem_map.mp hc'
        have := hxj x hx
        by_cases a : x < j
        · simp only [g, a, if_true] at e; exact kS (e ▸ hx)
        · simp only [g, a, if_false] at e; omega)
      (by
        intro y hy
        obtain ⟨x, hx, e⟩ := List.mem_map.mp hy
        obtain ⟨x1, xn⟩ := hb x hx
        have := hxj x hx
        by_cases a : x < j
        · simp only [g, a, if_true] at e; omega
        · simp only [g, a, if_false] at e; omega)
      (by
        intro k k1 kn
        by_cases a : k < j
        · rcases hc k k1 (by omega) with h | h
          · rcases List.mem_cons.mp h with e | h
            · omega
            · exact Or.inl h
          · exact Or.inr (List.mem_map.mpr ⟨k, h, by simp only [g, a, if_true]⟩)
        · rcases hc (k + 1) (by omega) (by omega) with h | h
          · rcases List.mem_cons.mp h with e | h
            · omega
            · have := hp'.1 _ h; omega
          · have : ¬ (k + 1 < j) := by omega
            exact Or.inr (List.mem_map.mpr ⟨k + 1, h, by simp only [g, this, if_false]; omega⟩))
    rw [hmap]
    have hlen : n - (j :: rest).length = n - 1 - rest.length := by simp only [List.length_cons]; omega
    rw [hlen]
    exact key

theorem repairFlat_true_bounds (fR fP fA x y z : List Nat) (h : repairFlat true true fR fP fA = .ok (x, y, z)) :
    ∃ mR mP mA n, repairFlat false true fR fP fA = .ok (mR, mP, mA) ∧
      x = mR.map (shiftBy (loseList n (mR ++ mP ++ mA))) ∧ y = mP.map (shiftBy (loseList n (mR ++ mP ++ mA))) ∧
      z = mA.map (shiftBy (loseList n (mR ++ mP ++ mA))) ∧ ∀ v ∈ mR ++ mP ++ mA, 1 ≤ v ∧ v < n := by
  unfold repairFlat at h ⊢
  simp only at h ⊢
  generalize hstart : max (max (maxList fP) (maxList fR)) (maxList fA) + 1 = start at h ⊢
  have bR : ∀ x ∈ fR, x < start := fun x hx => by have := le_maxList fR x hx; omega
  have bP : ∀ x ∈ fP, x < start := fun x hx => by have := le_maxList fP x hx; omega
  have bA : ∀ x ∈ fA, x < start := fun x hx => by have := le_maxList fA x hx; omega
  have s1 : 1 ≤ start := by omega
  obtain ⟨o1, c1, h1⟩ := assign_total fR start []
  rw [h1] at h ⊢
  simp only at h ⊢
  obtain ⟨r1, r2, r3, r4⟩ := assign_spec true fR start [] o1 c1 bR h1
  obtain ⟨o2, c2, h2⟩ := assign_total fP c1 []
  rw [h2] at h ⊢
  simp only at h ⊢
  obtain ⟨p1, p2, p3, p4⟩ := assign_spec true fP c1 [] o2 c2 (fun x hx => by have := bP x hx; omega) h2
  obtain ⟨o3, c3, h3⟩ := assign_total fA c2 []
  rw [h3] at h ⊢
  simp only at h ⊢
  obtain ⟨a1, a2, a3, a4⟩ := assign_spec true fA c2 [] o3 c3 (fun x hx => by have := bA x hx; omega) h3
  have ltR : ∀ x ∈ o1, 1 ≤ x ∧ x < c1 := by
    intro x hx
    rcases r4 x hx with ⟨h1, h2, _⟩ | ⟨h1, h2⟩
    · have := bR x h1; omega
    · omega
  have ltP : ∀ x ∈ o2, 1 ≤ x ∧ x < c2 := by
    intro x hx
    rcases p4 x hx with ⟨h1, h2, _⟩ | ⟨h1, h2⟩
    · have := bP x h1; omega
    · omega
  have ltA : ∀ x ∈ o3, 1 ≤ x ∧ x < c3 := by
    intro x hx
    rcases a4 x hx with ⟨h1, h2, _⟩ | ⟨h1, h2⟩
    · have := bA x h1; omega
    · omega
  by_cases hb : (o3.filter fun x => o1.contains x || o2.contains x).isEmpty = true
  · simp only [hb, Bool.not_true, Bool.false_and, Bool.false_eq_true, if_false, if_true, Except.ok.injEq,
      Prod.mk.injEq, foldl_closeGap] at h ⊢
    obtain ⟨rfl, rfl, rfl⟩ := h
    refine ⟨o1, o2, o3, c3, ⟨rfl, rfl, rfl⟩, rfl, rfl, rfl, ?_⟩
    intro v hv
    simp only [List.mem_append] at hv
    rcases hv with (h | h) | h
    · have := ltR v h; omega
    · have := ltP v h; omega
    · exact ltA v h
  · simp only [hb, Bool.not_false, Bool.true_and, Bool.not_true, Bool.false_eq_true, if_false, if_true, Except.ok.injEq,
      Prod.mk.injEq, foldl_closeGap] at h ⊢
    obtain ⟨rfl, rfl, rfl⟩ := h
    obtain ⟨n1, n2, n3, n4⟩ := renumber_spec (o3.filter fun x => o1.contains x || o2.contains x) o3 c3
      (fun x hx => (ltA x hx).2) a3
    refine ⟨o1, o2, _, (renumberIn (o3.filter fun x => o1.contains x || o2.contains x) c3 o3).2, ⟨rfl, rfl, rfl⟩,
      rfl, rfl, rfl, ?_⟩
    intro v hv
    simp only [List.mem_append] at hv
    rcases hv with (h | h) | h
    · have := ltR v h; omega
    · have := ltP v h; omega
    · rcases n4 v h with ⟨k1, _⟩ | ⟨k1, k2⟩
      · have := ltA v k1; omega
      · omega

/-- **`remap=True` leaves no gaps**: the numbers in use afterwards are exactly `1 … k - 1` for some `k` -/
theorem repairFlat_true_gapfree (fR fP fA x y z : List Nat) (h : repairFlat true true fR fP fA = .ok (x, y, z)) :
    ∃ k, ∀ v, v ∈ x ++ y ++ z ↔ 1 ≤ v ∧ v < k := by
  obtain ⟨mR, mP, mA, n, _, rfl, rfl, rfl, hb⟩ := repairFlat_true_bounds fR fP fA x y z h
  obtain ⟨l1, l2⟩ := loseList_props n (mR ++ mP ++ mA)
  have hL : ∀ j ∈ loseList n (mR ++ mP ++ mA), 1 ≤ j ∧ j < n ∧ j ∉ mR ++ mP ++ mA := by
    intro j hj
    refine ⟨(l2 j hj).1, ?_, (l2 j hj).2⟩
    unfold loseList at hj
    rw [List.mem_reverse, List.mem_filter] at hj
    exact List.mem_range.mp hj.1
  have hc : ∀ k, 1 ≤ k → k < n → k ∈ loseList n (mR ++ mP ++ mA) ∨ k ∈ mR ++ mP ++ mA := by
    intro k k1 kn
    by_cases hk : k ∈ mR ++ mP ++ mA
    · exact Or.inr hk
    · left
      unfold loseList
      rw [List.mem_reverse, List.mem_filter]
      refine ⟨List.mem_range.mpr kn, ?_⟩
      simp only [Bool.and_eq_true, decide_eq_true_eq, Bool.not_eq_true', List.contains_eq_mem, decide_eq_false_iff_not]
      exact ⟨k1, hk⟩
  obtain ⟨g1, g2⟩ := shiftBy_gapfree _ _ n l1 hL hb hc
  refine ⟨n - (loseList n (mR ++ mP ++ mA)).length, ?_⟩
  intro v
  rw [← List.map_append, ← List.map_append]
  exact ⟨fun hv => g1 v hv, fun ⟨a, b⟩ => g2 v a b⟩

theorem postprocess_remap_gapfree (R P A : List (List Nat)) (o : MapOut)
    (h : postprocessRxn true true R P A = .ok o) :
    ∃ k, ∀ v, v ∈ o.reactants.flatten ++ o.products.flatten ++ o.reagents.flatten ↔ 1 ≤ v ∧ v < k := by
  unfold postprocessRxn at h
  simp only [Bool.not_true, Bool.false_and, Bool.false_eq_true, if_false] at h
  cases hr : repairFlat true true R.flatten P.flatten A.flatten with
  | error e => rw [hr] at h; cases h
  | ok v =>
    obtain ⟨x, y, z⟩ := v
    rw [hr] at h
    simp only [Except.ok.injEq] at h
    subst h
    obtain ⟨rep, _⟩ := repairFlat_true_spec _ _ _ _ _ _ hr
    simp only [(cutLike_shape R x rep.lenR).2, (cutLike_shape P y rep.lenP).2, (cutLike_shape A z rep.lenA).2]
    exact repairFlat_true_gapfree _ _ _ _ _ _ hr

end ChythonModel.Proofs.C15
