import ChythonModel.Proofs.C06PidMake
/-!
# C06 — `_make_pid` never stores a single bond in the shortest+1 matrix: `makePid_p2_long`

Invariants (helpers live in the namespace `PidLong`):
* first loop — every stored distance is `≥ 1` and `≤ len - 1` of every chain still to come (the chains are sorted by
  length); a two-atom path stored in `pid1[a][b]` means `dist[a][b] = dist[b][a] = 1`; inner keys are outer keys;
* triple loop — no two-atom path is ever created; a cell that is moved to `pid2` has old distance `≥ 3`, so it holds
  no two-atom path; the new distances of one `k` round keep the value 1 of bonded pairs of keys.
-/
namespace ChythonModel.Proofs.C06
open ChythonModel.Model.C06

namespace PidLong

/-! ## dict facts -/

theorem lookup_aset_same {α β : Type} [BEq α] [LawfulBEq α] (d : List (α × β)) (k : α) (v : β) :
    (aset d k v).lookup k = some v := by
  induction d with
  | nil => simp [aset]
  | cons hd tl ih =>
    obtain ⟨k', v'⟩ := hd
    unfold aset
    split
    · next hk =>
      have : k' = k := by simpa using hk
      subst this
      simp
    · next hk =>
      have h1 : ¬ k' = k := by simpa using hk
      have h2 : (k == k') = false := by simpa using fun e : k = k' => h1 e.symm
      rw [List.lookup_cons, h2]
      exact ih

theorem lookup_aset_other {α β : Type} [BEq α] [LawfulBEq α] (d : List (α × β)) {k k' : α} (v : β) (h : k' ≠ k) :
    (aset d k v).lookup k' = d.lookup k' := by
  have hb : (k' == k) = false := by simpa using h
  induction d with
  | nil => simp [aset, List.lookup_cons, hb]
  | cons hd tl ih =>
    obtain ⟨k'', v'⟩ := hd
    unfold aset
    split
    · next hk =>
      have : k'' = k := by simpa using hk
      subst this
      simp [List.lookup_cons, hb]
    · simp only [List.lookup_cons, ih]

theorem dget?_dset (d : Dist) (i j v a b : Nat) :
    dget? (dset d i j v) a b = if a = i ∧ b = j then some v else dget? d a b := by
  unfold dget? dset
  by_cases ha : a = i
  · subst ha
    rw [lookup_aset_same]
    by_cases hb : b = j
    · subst hb
      simp [lookup_aset_same]
    · simp only [Option.bind_some, hb, and_false, if_false]
      rw [lookup_aset_other _ _ hb]
      cases d.lookup a <;> simp
  · rw [lookup_aset_other _ _ ha]
    simp [ha]

theorem one_le_INF : 1 ≤ INF := by decide

theorem dget_of_some {d : Dist} {a b v : Nat} (h : dget? d a b = some v) : dget d a b = v := by
  unfold dget; rw [h]; rfl

/-! ## cell-wise predicates on `pid1` -/

def CellAll (C : Nat → Nat → Path → Prop) (p1 : Pid1) : Prop :=
  ∀ irow ∈ p1, ∀ jin ∈ irow.2, ∀ kp ∈ jin.2, C irow.1 jin.1 kp.2

theorem CellAll.imp {C D : Nat → Nat → Path → Prop} {p1 : Pid1} (h : CellAll C p1)
    (hi : ∀ a b p, C a b p → D a b p) : CellAll D p1 :=
  fun irow hr jin hj kp hk => hi _ _ _ (h irow hr jin hj kp hk)

theorem cellAll_row {C : Nat → Nat → Path → Prop} {p1 : Pid1} (h : CellAll C p1) (i : Nat) :
    ∀ jin ∈ (p1.lookup i).getD [], ∀ kp ∈ jin.2, C i jin.1 kp.2 := by
  cases hl : p1.lookup i with
  | none => intro _ hj; simp at hj
  | some row => exact h (i, row) (lookup_mem hl)

theorem cellAll_get {C : Nat → Nat → Path → Prop} {p1 : Pid1} (h : CellAll C p1) (i j : Nat) :
    ∀ kp ∈ p1get p1 i j, C i j kp.2 := by
  unfold p1get
  cases hl : p1.lookup i with
  | none => intro _ hk; simp at hk
  | some row =>
    simp only [Option.bind_some]
    cases hj : row.lookup j with
    | none => intro _ hk; simp at hk
    | some inner => exact h (i, row) (lookup_mem hl) (j, inner) (lookup_mem hj)

theorem cellAll_set {C : Nat → Nat → Path → Prop} {p1 : Pid1} (h : CellAll C p1) {i j : Nat} {v : Inner}
    (hv : ∀ kp ∈ v, C i j kp.2) : CellAll C (p1set p1 i j v) := by
  intro irow hm
  rcases mem_aset hm with e | hm
  · subst e
    intro jin hj
    rcases mem_aset hj with e | hj
    · subst e; exact hv
    · exact cellAll_row h i jin hj
  · exact h irow hm

theorem cellAll_touch {C : Nat → Nat → Path → Prop} {p1 : Pid1} (h : CellAll C p1) (i j : Nat) :
    CellAll C (p1touch p1 i j) := by
  unfold p1touch
  cases hl : p1.lookup i with
  | none =>
    intro irow hm
    rcases List.mem_append.1 hm with hm | hm
    · exact h irow hm
    · simp only [List.mem_singleton] at hm
      subst hm
      intro jin hj
      simp only [List.mem_singleton] at hj
      subst hj
      intro _ hk; simp at hk
  | some row =>
    simp only
    split
    · exact h
    · intro irow hm
      rcases mem_aset hm with e | hm
      · subst e
        intro jin hj
        rcases List.mem_append.1 hj with hj | hj
        · exact h (i, row) (lookup_mem hl) jin hj
        · simp only [List.mem_singleton] at hj
          subst hj
          intro _ hk; simp at hk
      · exact h irow hm

/-! ## predicates on the entries of a cell -/

theorem aset_all {P : Path → Prop} {inner : Inner} (h : ∀ kp ∈ inner, P kp.2) {key : Nat × Nat} {c : Path}
    (hc : P c) : ∀ kp ∈ aset inner key c, P kp.2 := by
  intro kp hm
  rcases mem_aset hm with e | hm
  · subst e; exact hc
  · exact h kp hm

theorem innerUpdate_all {P : Path → Prop} : ∀ (new d : Inner), (∀ kp ∈ d, P kp.2) → (∀ kp ∈ new, P kp.2) →
    ∀ kp ∈ innerUpdate d new, P kp.2
  | [], _, hd, _ => hd
  | kv :: tl, d, hd, hn => by
    unfold innerUpdate
    rw [List.foldl_cons]
    exact innerUpdate_all tl _ (aset_all hd (hn kv List.mem_cons_self))
      (fun kp h => hn kp (List.mem_cons_of_mem _ h))

theorem compose_fold_long : ∀ (zs : List (((Nat × Nat) × Path) × ((Nat × Nat) × Path))) (d : Inner),
    (∀ kp ∈ d, 3 ≤ kp.2.length) → (∀ xy ∈ zs, 2 ≤ xy.1.2.length ∧ 2 ≤ xy.2.2.length) →
    ∀ kp ∈ zs.foldl (fun d xy => aset d (xy.1.1.1, xy.2.1.2) (xy.1.2.dropLast ++ xy.2.2)) d, 3 ≤ kp.2.length
  | [], _, hd, _ => hd
  | xy :: tl, d, hd, hz => by
    rw [List.foldl_cons]
    refine compose_fold_long tl _ (aset_all (P := fun p => 3 ≤ p.length) hd ?_)
      (fun z h => hz z (List.mem_cons_of_mem _ h))
    have := hz xy List.mem_cons_self
    simp only [List.length_append, List.length_dropLast]
    omega

theorem compose_long {a b : Inner} (ha : ∀ kp ∈ a, 2 ≤ kp.2.length) (hb : ∀ kp ∈ b, 2 ≤ kp.2.length) :
    ∀ kp ∈ compose a b, 3 ≤ kp.2.length := by
  unfold compose
  refine compose_fold_long _ _ (fun _ h => by simp at h) ?_
  intro xy hm
  obtain ⟨x, y⟩ := xy
  have := List.of_mem_zip hm
  exact ⟨ha x this.1, hb y this.2⟩

/-! ## the triple loop: `pid1` / `pid2` -/

/-- a stored path runs from `a` to `b`; a stored bond joins two keys at distance 1 (both ways) -/
def C1 (g : Adj) (ks : List Nat) (dist : Dist) (a b : Nat) (p : Path) : Prop :=
  PathFromTo g a b p ∧ (p.length = 2 → a ∈ ks ∧ b ∈ ks ∧ dget dist a b = 1 ∧ dget dist b a = 1)

def P2Long (p2 : Pid2) : Prop := ∀ e ∈ p2, ∀ kp ∈ e.2, 3 ≤ kp.2.length

theorem p2Long_set {p2 : Pid2} (h : P2Long p2) {key : Nat × Nat} {v : Inner} (hv : ∀ kp ∈ v, 3 ≤ kp.2.length) :
    P2Long (aset p2 key v) := by
  intro e hm
  rcases mem_aset hm with e' | hm
  · subst e'; exact hv
  · exact h e hm

theorem p2Long_get {p2 : Pid2} (h : P2Long p2) (i j : Nat) : ∀ kp ∈ p2get p2 i j, 3 ≤ kp.2.length := by
  unfold p2get
  cases hl : p2.lookup (i, j) with
  | none => intro _ hk; simp at hk
  | some inner => exact h ((i, j), inner) (lookup_mem hl)

theorem compose_c1 {g : Adj} {ks : List Nat} {dist : Dist} {i k j : Nat} {a b : Inner}
    (ha : ∀ kp ∈ a, C1 g ks dist i k kp.2) (hb : ∀ kp ∈ b, C1 g ks dist k j kp.2) :
    ∀ kp ∈ compose a b, C1 g ks dist i j kp.2 ∧ 3 ≤ kp.2.length := by
  intro kp hk
  have h1 : PathFromTo g i j kp.2 :=
    compose_ok (g := g) (i := i) (k := k) (j := j) (fun x hx => (ha x hx).1) (fun x hx => (hb x hx).1) kp hk
  have h2 : 3 ≤ kp.2.length := compose_long (fun x hx => (ha x hx).1.2.1) (fun x hx => (hb x hx).1.2.1) kp hk
  exact ⟨⟨h1, fun h => by omega⟩, h2⟩

theorem pidJ_inv {g : Adj} {ks : List Nat} (k i : Nat) (dist : Dist) (hd : ∀ a b, 1 ≤ dget dist a b)
    (st : Pid1 × Pid2 × List (Nat × Nat)) (j : Nat)
    (h1 : CellAll (C1 g ks dist) st.1) (h2 : P2Long st.2.1) :
    CellAll (C1 g ks dist) (pidJ k i dist st j).1 ∧ P2Long (pidJ k i dist st j).2.1 := by
  obtain ⟨p1, p2, ndi⟩ := st
  unfold pidJ
  split
  · exact ⟨h1, h2⟩
  · simp only
    split
    · next hij =>
      have hij' : dget dist i j = dget dist i k + dget dist k j + 1 := by simpa using hij
      have t1 := cellAll_touch h1 i j
      have t3 := cellAll_touch (cellAll_touch t1 i k) k j
      refine ⟨cellAll_set t3 (fun kp hk => (compose_c1 (cellAll_get t3 i k) (cellAll_get t3 k j) kp hk).1),
        p2Long_set h2 ?_⟩
      intro kp hk
      have hc := cellAll_get t1 i j kp hk
      have hl := hc.1.2.1
      by_cases h2 : kp.2.length = 2
      · have := (hc.2 h2).2.2.1
        have := hd i k
        have := hd k j
        omega
      · omega
    · split
      · have t3 := cellAll_touch (cellAll_touch h1 i k) k j
        exact ⟨cellAll_set t3 (fun kp hk => (compose_c1 (cellAll_get t3 i k) (cellAll_get t3 k j) kp hk).1),
          p2Long_set h2 (fun _ hk => by simp at hk)⟩
      · split
        · have t3 := cellAll_touch (cellAll_touch (cellAll_touch h1 i j) i k) k j
          exact ⟨cellAll_set t3 (innerUpdate_all (P := C1 g ks dist i j) _ _ (cellAll_get t3 i j)
            (fun kp hk => (compose_c1 (cellAll_get t3 i k) (cellAll_get t3 k j) kp hk).1)), h2⟩
        · split
          · have t3 := cellAll_touch (cellAll_touch h1 i k) k j
            exact ⟨t3, p2Long_set h2 (innerUpdate_all (P := fun p => 3 ≤ p.length) _ _ (p2Long_get h2 i j)
              (fun kp hk => (compose_c1 (cellAll_get t3 i k) (cellAll_get t3 k j) kp hk).2))⟩
          · exact ⟨h1, h2⟩

theorem foldl_pidJ_inv {g : Adj} {ks : List Nat} (k i : Nat) (dist : Dist) (hd : ∀ a b, 1 ≤ dget dist a b) :
    ∀ (js : List Nat) (st : Pid1 × Pid2 × List (Nat × Nat)),
    CellAll (C1 g ks dist) st.1 → P2Long st.2.1 →
    CellAll (C1 g ks dist) (js.foldl (pidJ k i dist) st).1 ∧ P2Long (js.foldl (pidJ k i dist) st).2.1
  | [], _, h1, h2 => ⟨h1, h2⟩
  | j :: js, st, h1, h2 => by
    rw [List.foldl_cons]
    obtain ⟨a1, a2⟩ := pidJ_inv k i dist hd st j h1 h2
    exact foldl_pidJ_inv k i dist hd js _ a1 a2

theorem pidI_inv {g : Adj} {ks : List Nat} (ks' : List Nat) (k : Nat) (dist : Dist) (hd : ∀ a b, 1 ≤ dget dist a b)
    (st : Pid1 × Pid2 × Dist) (i : Nat) (h1 : CellAll (C1 g ks dist) st.1) (h2 : P2Long st.2.1) :
    CellAll (C1 g ks dist) (pidI ks' k dist st i).1 ∧ P2Long (pidI ks' k dist st i).2.1 := by
  obtain ⟨p1, p2, nd⟩ := st
  unfold pidI
  split
  · exact ⟨h1, h2⟩
  · simp only
    have := foldl_pidJ_inv (g := g) (ks := ks) k i dist hd ks' (p1, p2, [(k, dget dist i k)]) h1 h2
    generalize ks'.foldl (pidJ k i dist) (p1, p2, [(k, dget dist i k)]) = r at this
    obtain ⟨q1, q2, q3⟩ := r
    exact this

theorem foldl_pidI_inv {g : Adj} {ks : List Nat} (ks' : List Nat) (k : Nat) (dist : Dist)
    (hd : ∀ a b, 1 ≤ dget dist a b) : ∀ (is : List Nat) (st : Pid1 × Pid2 × Dist),
    CellAll (C1 g ks dist) st.1 → P2Long st.2.1 →
    CellAll (C1 g ks dist) (is.foldl (pidI ks' k dist) st).1 ∧ P2Long (is.foldl (pidI ks' k dist) st).2.1
  | [], _, h1, h2 => ⟨h1, h2⟩
  | i :: is, st, h1, h2 => by
    rw [List.foldl_cons]
    obtain ⟨a1, a2⟩ := pidI_inv ks' k dist hd st i h1 h2
    exact foldl_pidI_inv ks' k dist hd is _ a1 a2

/-! ## the triple loop: the new distances of one `k` round -/

/-- the value `new_distances[i][j]` gets (it does not depend on `pid1`, `pid2`) -/
def valJ (dist : Dist) (k i j : Nat) : Nat :=
  if dget dist i j == dget dist i k + dget dist k j + 1 then dget dist i k + dget dist k j
  else if dget dist i j > dget dist i k + dget dist k j then dget dist i k + dget dist k j
  else dget dist i j

theorem pidJ_third (k i : Nat) (dist : Dist) (st : Pid1 × Pid2 × List (Nat × Nat)) (j : Nat) :
    (pidJ k i dist st j).2.2 = if (j == k || j == i) then st.2.2 else aset st.2.2 j (valJ dist k i j) := by
  obtain ⟨p1, p2, ndi⟩ := st
  unfold pidJ valJ
  split
  · rfl
  · simp only
    split
    · rfl
    · split
      · rfl
      · split
        · rfl
        · split
          · rfl
          · rfl

theorem foldl_pidJ_val (Q : Nat → Nat → Prop) (k i : Nat) (dist : Dist) (hQ : ∀ j, Q j (valJ dist k i j)) :
    ∀ (js : List Nat) (st : Pid1 × Pid2 × List (Nat × Nat)), (∀ e ∈ st.2.2, Q e.1 e.2) →
      ∀ e ∈ (js.foldl (pidJ k i dist) st).2.2, Q e.1 e.2
  | [], _, h => h
  | j :: js, st, h => by
    rw [List.foldl_cons]
    refine foldl_pidJ_val Q k i dist hQ js _ ?_
    rw [pidJ_third]
    split
    · exact h
    · intro e he
      rcases mem_aset he with e' | he
      · subst e'; exact hQ j
      · exact h e he

theorem pidJ_pres (k i : Nat) (dist : Dist) (st : Pid1 × Pid2 × List (Nat × Nat)) (j b : Nat)
    (h : (b = j ∧ b ≠ k ∧ b ≠ i) ∨ (st.2.2.lookup b).isSome) : ((pidJ k i dist st j).2.2.lookup b).isSome := by
  rw [pidJ_third]
  split
  · next hs =>
    rcases h with ⟨rfl, h1, h2⟩ | h
    · simp [h1, h2] at hs
    · exact h
  · by_cases hb : b = j
    · subst hb; rw [lookup_aset_same]; rfl
    · rw [lookup_aset_other _ _ hb]
      rcases h with ⟨h, _⟩ | h
      · exact absurd h hb
      · exact h

theorem foldl_pidJ_pres (k i : Nat) (dist : Dist) :
    ∀ (js : List Nat) (st : Pid1 × Pid2 × List (Nat × Nat)) (b : Nat),
      ((b ∈ js ∧ b ≠ k ∧ b ≠ i) ∨ (st.2.2.lookup b).isSome) → ((js.foldl (pidJ k i dist) st).2.2.lookup b).isSome
  | [], _, _, h => by
    rcases h with ⟨h, _⟩ | h
    · simp at h
    · exact h
  | j :: js, st, b, h => by
    rw [List.foldl_cons]
    apply foldl_pidJ_pres k i dist js _ b
    rcases h with ⟨h, h1, h2⟩ | h
    · rcases List.mem_cons.1 h with h | h
      · exact Or.inr (pidJ_pres k i dist st j b (Or.inl ⟨h, h1, h2⟩))
      · exact Or.inl ⟨h, h1, h2⟩
    · exact Or.inr (pidJ_pres k i dist st j b (Or.inr h))

/-- the row `new_distances[i]` after the `j` loop -/
def rowI (ks : List Nat) (k i : Nat) (dist : Dist) (p1 : Pid1) (p2 : Pid2) : List (Nat × Nat) :=
  (ks.foldl (pidJ k i dist) (p1, p2, [(k, dget dist i k)])).2.2

theorem pidI_third (ks : List Nat) (k : Nat) (dist : Dist) (st : Pid1 × Pid2 × Dist) (i : Nat)
    (hik : (i == k) = false) :
    (pidI ks k dist st i).2.2 = dset (aset st.2.2 i (rowI ks k i dist st.1 st.2.1)) k i (dget dist i k) := by
  obtain ⟨p1, p2, nd⟩ := st
  unfold pidI rowI
  rw [if_neg (by simp [hik])]

theorem dget?_istep (nd : Dist) (i k dik : Nat) (ndi : List (Nat × Nat)) (hik : i ≠ k) (a b : Nat) :
    dget? (dset (aset nd i ndi) k i dik) a b =
      if a = k ∧ b = i then some dik else if a = i then ndi.lookup b else dget? nd a b := by
  rw [dget?_dset]
  split
  · rfl
  · unfold dget?
    by_cases ha : a = i
    · subst ha
      rw [lookup_aset_same]
      simp
    · rw [lookup_aset_other _ _ ha]
      simp [ha]

def DQ (Q : Nat → Nat → Nat → Prop) (nd : Dist) : Prop := ∀ a b v, dget? nd a b = some v → Q a b v

theorem pidI_val (Q : Nat → Nat → Nat → Prop) (ks : List Nat) (k : Nat) (dist : Dist)
    (hk : ∀ i, Q k i (dget dist i k)) (hik : ∀ i, Q i k (dget dist i k)) (hj : ∀ i j, Q i j (valJ dist k i j))
    (st : Pid1 × Pid2 × Dist) (i : Nat) (h : DQ Q st.2.2) : DQ Q (pidI ks k dist st i).2.2 := by
  cases hb : i == k with
  | true =>
    have : pidI ks k dist st i = st := by
      obtain ⟨p1, p2, nd⟩ := st
      unfold pidI
      rw [if_pos hb]
    rw [this]; exact h
  | false =>
    rw [pidI_third ks k dist st i hb]
    have hne : i ≠ k := by simpa using hb
    intro a b v hv
    rw [dget?_istep _ _ _ _ _ hne] at hv
    split at hv
    · next hab =>
      obtain ⟨rfl, rfl⟩ := hab
      simp only [Option.some.injEq] at hv
      subst hv
      exact hk b
    · split at hv
      · next ha =>
        subst ha
        have hm := lookup_mem hv
        exact foldl_pidJ_val (Q a) k a dist (hj a) ks _ (by
          intro e he
          simp only [List.mem_singleton] at he
          subst he
          exact hik a) (b, v) hm
      · exact h a b v hv

theorem foldl_pidI_val (Q : Nat → Nat → Nat → Prop) (ks : List Nat) (k : Nat) (dist : Dist)
    (hk : ∀ i, Q k i (dget dist i k)) (hik : ∀ i, Q i k (dget dist i k)) (hj : ∀ i j, Q i j (valJ dist k i j)) :
    ∀ (is : List Nat) (st : Pid1 × Pid2 × Dist), DQ Q st.2.2 → DQ Q (is.foldl (pidI ks k dist) st).2.2
  | [], _, h => h
  | i :: is, st, h => by
    rw [List.foldl_cons]
    exact foldl_pidI_val Q ks k dist hk hik hj is _ (pidI_val Q ks k dist hk hik hj st i h)

theorem rowI_pres (ks : List Nat) (k i : Nat) (dist : Dist) (p1 : Pid1) (p2 : Pid2) {b : Nat} (hb : b ∈ ks)
    (hbi : b ≠ i) : ((rowI ks k i dist p1 p2).lookup b).isSome := by
  unfold rowI
  apply foldl_pidJ_pres
  by_cases hbk : b = k
  · subst hbk
    exact Or.inr (by simp)
  · exact Or.inl ⟨hb, hbk, hbi⟩

theorem pidI_pres (ks : List Nat) (k : Nat) (dist : Dist) (st : Pid1 × Pid2 × Dist) (i a b : Nat) (hb : b ∈ ks)
    (hab : a ≠ b) (h : (a = i ∧ a ≠ k) ∨ (a = k ∧ b = i) ∨ (dget? st.2.2 a b).isSome) :
    (dget? (pidI ks k dist st i).2.2 a b).isSome := by
  cases hik : i == k with
  | true =>
    have hik' : i = k := by simpa using hik
    have : pidI ks k dist st i = st := by
      obtain ⟨p1, p2, nd⟩ := st
      unfold pidI
      rw [if_pos hik]
    rw [this]
    rcases h with ⟨h1, h2⟩ | ⟨h1, h2⟩ | h
    · exact absurd (h1.trans hik') h2
    · exact absurd (h1.trans (hik'.symm.trans h2.symm)) hab
    · exact h
  | false =>
    rw [pidI_third ks k dist st i hik]
    have hne : i ≠ k := by simpa using hik
    rw [dget?_istep _ _ _ _ _ hne]
    split
    · rfl
    · next hnot =>
      split
      · next ha =>
        subst ha
        exact rowI_pres ks k a dist _ _ hb (fun e => hab e.symm)
      · next ha =>
        rcases h with ⟨h1, _⟩ | h | h
        · exact absurd h1 ha
        · exact absurd h hnot
        · exact h

theorem foldl_pidI_pres (ks : List Nat) (k : Nat) (dist : Dist) :
    ∀ (is : List Nat) (st : Pid1 × Pid2 × Dist) (a b : Nat), b ∈ ks → a ≠ b →
      ((a ∈ is ∧ a ≠ k) ∨ (a = k ∧ b ∈ is) ∨ (dget? st.2.2 a b).isSome) →
      (dget? (is.foldl (pidI ks k dist) st).2.2 a b).isSome
  | [], _, _, _, _, _, h => by
    rcases h with ⟨h, _⟩ | ⟨_, h⟩ | h
    · simp at h
    · simp at h
    · exact h
  | i :: is, st, a, b, hb, hab, h => by
    rw [List.foldl_cons]
    apply foldl_pidI_pres ks k dist is _ a b hb hab
    rcases h with ⟨h1, h2⟩ | ⟨h1, h2⟩ | h
    · rcases List.mem_cons.1 h1 with h1 | h1
      · exact Or.inr (Or.inr (pidI_pres ks k dist st i a b hb hab (Or.inl ⟨h1, h2⟩)))
      · exact Or.inl ⟨h1, h2⟩
    · rcases List.mem_cons.1 h2 with h2 | h2
      · exact Or.inr (Or.inr (pidI_pres ks k dist st i a b hb hab (Or.inr (Or.inl ⟨h1, h2⟩))))
      · exact Or.inr (Or.inl ⟨h1, h2⟩)
    · exact Or.inr (Or.inr (pidI_pres ks k dist st i a b hb hab (Or.inr (Or.inr h))))

/-- what the distances of one `k` round keep -/
def QD (dist : Dist) (a b v : Nat) : Prop := 1 ≤ v ∧ (dget dist a b = 1 → dget dist b a = 1 → v = 1)

theorem valJ_QD (dist : Dist) (hd : ∀ a b, 1 ≤ dget dist a b) (k i j : Nat) : QD dist i j (valJ dist k i j) := by
  have h1 := hd i k
  have h2 := hd k j
  have h3 := hd i j
  unfold valJ QD
  split
  · next h =>
    have : dget dist i j = dget dist i k + dget dist k j + 1 := by simpa using h
    exact ⟨by omega, fun _ _ => by omega⟩
  · split
    · exact ⟨by omega, fun _ _ => by omega⟩
    · exact ⟨h3, fun h _ => h⟩

theorem pidK_dist (ks : List Nat) (p1 : Pid1) (p2 : Pid2) (dist : Dist) (k : Nat) (hd : ∀ a b, 1 ≤ dget dist a b) :
    (∀ a b, 1 ≤ dget (pidK ks (p1, p2, dist) k).2.2 a b) ∧
    (∀ a b, a ∈ ks → b ∈ ks → a ≠ b → dget dist a b = 1 → dget dist b a = 1 →
      dget (pidK ks (p1, p2, dist) k).2.2 a b = 1) := by
  have hpk : pidK ks (p1, p2, dist) k = ks.foldl (pidI ks k dist) (p1, p2, []) := rfl
  rw [hpk]
  have hv : DQ (QD dist) (ks.foldl (pidI ks k dist) (p1, p2, [])).2.2 := by
    refine foldl_pidI_val (QD dist) ks k dist ?_ ?_ (fun i j => valJ_QD dist hd k i j) ks _ ?_
    · intro i; exact ⟨hd i k, fun _ h => h⟩
    · intro i; exact ⟨hd i k, fun h _ => h⟩
    · intro a b v h; simp [dget?] at h
  refine ⟨?_, ?_⟩
  · intro a b
    unfold dget
    cases h : dget? (ks.foldl (pidI ks k dist) (p1, p2, [])).2.2 a b with
    | none => exact one_le_INF
    | some v => exact (hv a b v h).1
  · intro a b ha hb hab h1 h2
    have hp := foldl_pidI_pres ks k dist ks (p1, p2, []) a b hb hab (by
      by_cases hak : a = k
      · exact Or.inr (Or.inl ⟨hak, hb⟩)
      · exact Or.inl ⟨ha, hak⟩)
    obtain ⟨v, hv'⟩ := Option.isSome_iff_exists.1 hp
    rw [dget_of_some hv']
    exact (hv a b v hv').2 h1 h2

/-! ## the triple loop: one `k` round, all rounds -/

def InvT (g : Adj) (ks : List Nat) (st : Pid1 × Pid2 × Dist) : Prop :=
  CellAll (C1 g ks st.2.2) st.1 ∧ P2Long st.2.1 ∧ ∀ a b, 1 ≤ dget st.2.2 a b

theorem bond_ne {g : Adj} (hnl : ∀ a, a ∉ nbrsOf g a) {a b : Nat} {p : Path} (h : PathFromTo g a b p)
    (h2 : p.length = 2) : a ≠ b := by
  obtain ⟨hw, _, hh, ht⟩ := h
  match p, h2 with
  | [x, y], _ =>
    simp only [List.head?_cons, Option.some.injEq] at hh
    have ht' : y = b := by simpa using ht
    subst hh ht'
    intro e
    subst e
    exact hnl _ hw.1

theorem pidK_inv {g : Adj} (hnl : ∀ a, a ∉ nbrsOf g a) (ks : List Nat) (st : Pid1 × Pid2 × Dist) (k : Nat)
    (h : InvT g ks st) : InvT g ks (pidK ks st k) := by
  obtain ⟨p1, p2, dist⟩ := st
  obtain ⟨h1, h2, hd⟩ := h
  have A := foldl_pidI_inv (g := g) (ks := ks) ks k dist hd ks (p1, p2, []) h1 h2
  have B := pidK_dist ks p1 p2 dist k hd
  have hpk : pidK ks (p1, p2, dist) k = ks.foldl (pidI ks k dist) (p1, p2, []) := rfl
  rw [hpk] at B ⊢
  refine ⟨A.1.imp ?_, A.2, B.1⟩
  intro a b p hc
  refine ⟨hc.1, fun hl => ?_⟩
  obtain ⟨ha, hb, d1, d2⟩ := hc.2 hl
  have hab := bond_ne hnl hc.1 hl
  exact ⟨ha, hb, B.2 a b ha hb hab d1 d2, B.2 b a hb ha (fun e => hab e.symm) d2 d1⟩

theorem foldl_pidK_inv {g : Adj} (hnl : ∀ a, a ∉ nbrsOf g a) (ks : List Nat) :
    ∀ (ks' : List Nat) (st : Pid1 × Pid2 × Dist), InvT g ks st → InvT g ks (ks'.foldl (pidK ks) st)
  | [], _, h => h
  | k :: ks', st, h => by
    rw [List.foldl_cons]
    exact foldl_pidK_inv hnl ks ks' _ (pidK_inv hnl ks st k h)

/-! ## the first loop -/

def Bond1 (d : Dist) (a b : Nat) (p : Path) : Prop := p.length = 2 → dget? d a b = some 1 ∧ dget? d b a = some 1

def KeysIn (K : List Nat) (p1 : Pid1) : Prop := ∀ irow ∈ p1, ∀ jin ∈ irow.2, jin.1 ∈ K

theorem mem_keys_aset {α β : Type} [BEq α] [LawfulBEq α] (d : List (α × β)) (k : α) (v : β) (x : α)
    (h : x = k ∨ x ∈ d.map (·.1)) : x ∈ (aset d k v).map (·.1) := by
  induction d with
  | nil =>
    rcases h with h | h
    · simp [aset, h]
    · simp at h
  | cons hd tl ih =>
    obtain ⟨k', v'⟩ := hd
    unfold aset
    split
    · next hk =>
      have : k' = k := by simpa using hk
      subst this
      rcases h with h | h
      · simp [h]
      · simpa using h
    · simp only [List.map_cons, List.mem_cons] at h ⊢
      rcases h with h | h | h
      · exact Or.inr (ih (Or.inl h))
      · exact Or.inl h
      · exact Or.inr (ih (Or.inr h))

theorem keysIn_set {K : List Nat} {p1 : Pid1} (h : KeysIn K p1) (n m : Nat) (v : Inner) (hm : m ∈ K) :
    KeysIn K (p1set p1 n m v) := by
  intro irow hr
  rcases mem_aset hr with e | hr
  · subst e
    intro jin hj
    rcases mem_aset hj with e | hj
    · subst e; exact hm
    · cases hl : p1.lookup n with
      | none => rw [hl] at hj; simp at hj
      | some row =>
        rw [hl] at hj
        exact h (n, row) (lookup_mem hl) jin hj
  · exact h irow hr

theorem dset2_formula (d : Dist) (n m di a b : Nat) :
    dget? (dset (dset d n m di) m n di) a b =
      if a = m ∧ b = n then some di else if a = n ∧ b = m then some di else dget? d a b := by
  rw [dget?_dset, dget?_dset]

theorem dset2_keep {d : Dist} {n m di : Nat} (hdi : dget? d n m = some 1 → di = 1) {x y : Nat}
    (h1 : dget? d x y = some 1) (h2 : dget? d y x = some 1) :
    dget? (dset (dset d n m di) m n di) x y = some 1 := by
  rw [dset2_formula]
  split
  · next h =>
    obtain ⟨rfl, rfl⟩ := h
    rw [hdi h2]
  · split
    · next h =>
      obtain ⟨rfl, rfl⟩ := h
      rw [hdi h1]
    · exact h1

theorem keys_step {p1 : Pid1} (h : KeysIn (p1.map (·.1)) p1) (n m : Nat) (v1 v2 : Inner) :
    KeysIn ((p1set (p1set p1 n m v1) m n v2).map (·.1)) (p1set (p1set p1 n m v1) m n v2) := by
  have s1 : ∀ x, x = n ∨ x ∈ p1.map (·.1) → x ∈ (p1set p1 n m v1).map (·.1) :=
    fun x hx => mem_keys_aset _ _ _ _ hx
  have s2 : ∀ x, x = m ∨ x ∈ (p1set p1 n m v1).map (·.1) → x ∈ (p1set (p1set p1 n m v1) m n v2).map (·.1) :=
    fun x hx => mem_keys_aset _ _ _ _ hx
  have h0 : KeysIn ((p1set (p1set p1 n m v1) m n v2).map (·.1)) p1 :=
    fun irow hr jin hj => s2 _ (Or.inr (s1 _ (Or.inr (h irow hr jin hj))))
  exact keysIn_set (keysIn_set h0 n m v1 (s2 _ (Or.inl rfl))) m n v2 (s2 _ (Or.inr (s1 _ (Or.inl rfl))))

theorem bond_step {d : Dist} {p1 : Pid1} {n m di : Nat} {c : Path} (hb : CellAll (Bond1 d) p1)
    (hdi : dget? d n m = some 1 → di = 1) (hcl : c.length = 2 → di = 1) (key1 key2 : Nat × Nat) :
    CellAll (Bond1 (dset (dset d n m di) m n di))
      (p1set (p1set p1 n m (aset (p1get p1 n m) key1 c)) m n
        (aset (p1get (p1set p1 n m (aset (p1get p1 n m) key1 c)) m n) key2 c.reverse)) := by
  have hb' : CellAll (Bond1 (dset (dset d n m di) m n di)) p1 :=
    hb.imp fun a b p h hl => ⟨dset2_keep hdi (h hl).1 (h hl).2, dset2_keep hdi (h hl).2 (h hl).1⟩
  have hnm : c.length = 2 → dget? (dset (dset d n m di) m n di) n m = some 1 ∧
      dget? (dset (dset d n m di) m n di) m n = some 1 := by
    intro hl
    rw [hcl hl, dset2_formula, dset2_formula]
    constructor <;> simp
  have q1 := cellAll_set hb' (aset_all (P := Bond1 (dset (dset d n m di) m n di) n m) (key := key1)
    (cellAll_get hb' n m) hnm)
  exact cellAll_set q1 (aset_all (P := Bond1 (dset (dset d n m di) m n di) m n) (key := key2)
    (cellAll_get q1 m n) (fun hl => ((hnm (by simpa using hl)).symm)))

structure Inv1 (g : Adj) (cs : List Path) (st : Pid1 × Pid2 × Dist) : Prop where
  ok1 : P1OK g st.1
  ok2 : P2OK g st.2.1
  long : P2Long st.2.1
  dval : ∀ a b x, dget? st.2.2 a b = some x → 1 ≤ x ∧ ∀ c ∈ cs, x + 1 ≤ c.length
  bond : CellAll (Bond1 st.2.2) st.1
  keys : KeysIn (st.1.map (·.1)) st.1

theorem pidInitStep_inv {g : Adj} (hs : Sym g) {st st' : Pid1 × Pid2 × Dist} {c : Path} {cs : List Path}
    (hc : Walk g c) (hle : ∀ c' ∈ cs, c.length ≤ c'.length)
    (h : pidInitStep st c = some st') (hi : Inv1 g (c :: cs) st) : Inv1 g cs st' := by
  obtain ⟨a1, a2⟩ := pidInitStep_ok hs hc h hi.ok1 hi.ok2
  obtain ⟨p1, p2, d⟩ := st
  obtain ⟨_, _, hlong, hdval, hbond, hkeys⟩ := hi
  simp only at hlong hdval hbond hkeys
  unfold pidInitStep at h
  split at h
  · cases h
  · cases h
  · next n nn tl =>
    simp only at h
    generalize hcc : n :: nn :: tl = c at *
    have hlen : 2 ≤ c.length := by rw [← hcc]; simp
    generalize c.getLast?.getD n = m at h
    generalize c.getD (c.length - 2) n = mm at h
    have hcur : ∀ x a b, dget? d a b = some x → x + 1 ≤ c.length :=
      fun x a b hx => (hdval a b x hx).2 c List.mem_cons_self
    have hdval' : ∀ a b x, dget? d a b = some x → 1 ≤ x ∧ ∀ c' ∈ cs, x + 1 ≤ c'.length :=
      fun a b x hx => ⟨(hdval a b x hx).1, fun c' hc' => (hdval a b x hx).2 c' (List.mem_cons_of_mem _ hc')⟩
    have hElse : (dget? d n m = some 1 → c.length - 1 = 1) →
        st' = (p1set (p1set p1 n m (aset (p1get p1 n m) (nn, mm) c)) m n
          (aset (p1get (p1set p1 n m (aset (p1get p1 n m) (nn, mm) c)) m n) (mm, nn) c.reverse),
          p2, dset (dset d n m (c.length - 1)) m n (c.length - 1)) → Inv1 g cs st' := by
      intro hdi e
      subst e
      refine ⟨a1, a2, hlong, ?_, bond_step hbond hdi (fun hl => by omega) _ _, keys_step hkeys _ _ _ _⟩
      intro a b x hx
      simp only at hx
      rw [dset2_formula] at hx
      have hnew : 1 ≤ c.length - 1 ∧ ∀ c' ∈ cs, c.length - 1 + 1 ≤ c'.length :=
        ⟨by omega, fun c' hc' => by have := hle c' hc'; omega⟩
      split at hx
      · simp only [Option.some.injEq] at hx
        subst hx
        exact hnew
      · split at hx
        · simp only [Option.some.injEq] at hx
          subst hx
          exact hnew
        · exact hdval' a b x hx
    cases hdg : dget? d n m with
    | none =>
      rw [hdg] at h
      simp only [Bool.false_eq_true, if_false, Option.some.injEq] at h
      exact hElse (fun e => by rw [hdg] at e; cases e) h.symm
    | some x =>
      rw [hdg] at h
      simp only at h
      by_cases hx : (x != c.length - 1) = true
      · rw [if_pos hx] at h
        simp only [Option.some.injEq] at h
        subst h
        have h3 : 3 ≤ c.length := by
          have h1 : x ≠ c.length - 1 := by simpa using hx
          have h2 := hcur x _ _ hdg
          have h3 := (hdval _ _ x hdg).1
          omega
        have q1 := p2Long_set hlong (key := (n, m)) (aset_all (P := fun p => 3 ≤ p.length) (key := (nn, mm))
          (p2Long_get hlong n m) h3)
        refine ⟨a1, a2, ?_, hdval', hbond, hkeys⟩
        exact p2Long_set q1 (aset_all (P := fun p => 3 ≤ p.length) (p2Long_get q1 m n) (by simpa using h3))
      · rw [if_neg hx] at h
        simp only [Option.some.injEq] at h
        refine hElse (fun e => ?_) h.symm
        rw [hdg] at e
        simp only [Option.some.injEq] at e
        subst e
        have : 1 = c.length - 1 := by simpa using hx
        omega

theorem foldlM_pidInitStep_inv {g : Adj} (hs : Sym g) : ∀ (cs : List Path) (st st' : Pid1 × Pid2 × Dist),
    cs.Pairwise (fun a b => a.length ≤ b.length) → (∀ c ∈ cs, Walk g c) →
    cs.foldlM pidInitStep st = some st' → Inv1 g cs st → Inv1 g [] st'
  | [], st, st', _, _, h, hi => by
    simp only [List.foldlM_nil] at h
    cases h
    exact hi
  | c :: cs, st, st', hp, hc, h, hi => by
    rw [List.foldlM_cons] at h
    cases hstep : pidInitStep st c with
    | none => rw [hstep] at h; cases h
    | some st1 =>
      rw [hstep] at h
      have hp' := List.pairwise_cons.1 hp
      exact foldlM_pidInitStep_inv hs cs st1 st' hp'.2 (fun x hx => hc x (List.mem_cons_of_mem _ hx)) h
        (pidInitStep_inv hs (hc c List.mem_cons_self) hp'.1 hstep hi)

theorem pidInit_inv {g : Adj} (hs : Sym g) {paths : List Path} (hp : ∀ p ∈ paths, Walk g p)
    {st : Pid1 × Pid2 × Dist} (h : pidInit paths = some st) : Inv1 g [] st := by
  unfold pidInit at h
  refine foldlM_pidInitStep_inv hs _ _ _ ?_ ?_ h ?_
  · unfold sortByLenStable
    have := pairwise_isort (le := fun a b : Path => decide (a.length ≤ b.length))
      (fun a b c h1 h2 => by
        have h1' : a.length ≤ b.length := of_decide_eq_true h1
        have h2' : b.length ≤ c.length := of_decide_eq_true h2
        exact decide_eq_true (Nat.le_trans h1' h2'))
      (fun a b => by
        rcases Nat.le_total a.length b.length with h | h
        · simp [h]
        · simp [h]) paths
    exact this.imp fun h => of_decide_eq_true h
  · intro c hc
    exact hp c ((isort_perm _ _).mem_iff.1 hc)
  · exact ⟨fun _ hm => by simp at hm, fun _ hm => by simp at hm, fun _ hm => by simp at hm,
      fun a b x hx => by simp [dget?] at hx, fun _ hm => by simp at hm, fun _ hm => by simp at hm⟩

theorem inv1_invT {g : Adj} {st : Pid1 × Pid2 × Dist} (h : Inv1 g [] st) : InvT g (st.1.map (·.1)) st := by
  obtain ⟨p1, p2, d⟩ := st
  obtain ⟨ok1, _, hlong, hdval, hbond, hkeys⟩ := h
  simp only at ok1 hlong hdval hbond hkeys
  refine ⟨?_, hlong, ?_⟩
  · intro irow hr jin hj kp hk
    refine ⟨ok1 irow hr jin hj kp hk, fun hl => ?_⟩
    obtain ⟨e1, e2⟩ := hbond irow hr jin hj kp hk hl
    exact ⟨List.mem_map.2 ⟨irow, hr, rfl⟩, hkeys irow hr jin hj, dget_of_some e1, dget_of_some e2⟩
  · intro a b
    show 1 ≤ dget d a b
    unfold dget
    cases hx : dget? d a b with
    | none => exact one_le_INF
    | some x => exact (hdval a b x hx).1

end PidLong

/-- `_make_pid` never stores a two-atom path (a single bond) in the shortest+1 matrix `pid2` -/
theorem makePid_p2_long (g : Adj) (hs : Sym g) (hnl : ∀ a, a ∉ nbrsOf g a) (paths : List Path)
    (hp : ∀ p ∈ paths, Walk g p ∧ 2 ≤ p.length)
    {p1 : Pid1} {p2 : Pid2} {d : Dist} (h : makePid paths = some (p1, p2, d)) :
    ∀ e ∈ p2, ∀ kp ∈ e.2, 3 ≤ kp.2.length := by
  unfold makePid at h
  cases hi : pidInit paths with
  | none => rw [hi] at h; cases h
  | some st =>
    rw [hi] at h
    simp only [Option.map_some, Option.some.injEq] at h
    have h1 := PidLong.inv1_invT (PidLong.pidInit_inv hs (fun p hm => (hp p hm).1) hi)
    have h2 := PidLong.foldl_pidK_inv hnl (st.1.map (·.1)) (st.1.map (·.1)) st h1
    rw [h] at h2
    exact h2.2.1



end ChythonModel.Proofs.C06
