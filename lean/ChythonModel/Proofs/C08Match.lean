import ChythonModel.Spec.PatternMatch
import ChythonModel.Proofs.C08Labels
import ChythonModel.Proofs.C07WF
import ChythonModel.Proofs.C07Top
/-!
Lemmas for `Props/C08.lean: pattern_match_is_documented`: the two graphs handed to C07's matcher model say what the query
container / molecule say (`PatBond`, `Mol.bond?`), and the two comparisons handed to it are the documented predicates.
-/
namespace ChythonModel.Proofs.C08
open ChythonModel.Model ChythonModel.Model.Query ChythonModel.Spec.Query ChythonModel.Spec.Embedding ChythonModel.Proofs.C07

theorem lookup_map_val {β γ} (h : Nat → β → γ) : ∀ (l : List (Nat × β)) (k : Nat),
    (l.map fun p => (p.1, h p.1 p.2)).lookup k = (l.lookup k).map (h k) := by
  intro l
  induction l with
  | nil => intro k; rfl
  | cons a l ih =>
    intro k
    obtain ⟨a1, a2⟩ := a
    simp only [List.map_cons, List.lookup_cons]
    by_cases hk : k == a1
    · have : k = a1 := by simpa using hk
      subst this
      simp
    · simp only [hk]
      exact ih k

theorem lookup_isSome_iff {β} : ∀ (l : List (Nat × β)) (k : Nat), (l.lookup k).isSome = true ↔ k ∈ l.map (·.1) := by
  intro l
  induction l with
  | nil => intro k; simp
  | cons a l ih =>
    intro k
    obtain ⟨a1, a2⟩ := a
    simp only [List.lookup_cons, List.map_cons, List.mem_cons]
    by_cases hk : k == a1
    · have : k = a1 := by simpa using hk
      simp [this]
    · have hne : k ≠ a1 := by simpa using hk
      simp only [hk, hne, false_or]
      exact ih k

/-- the neighbour keys of the query container: every bond the pattern writes, from both ends -/
theorem qIso_nbrs (g : QGraph) (u v : Nat) :
    v ∈ (qIsoGraph g).nbrs u ↔ u ∈ patAtoms g ∧ PatBond g u v := by
  unfold Iso.Graph.nbrs qIsoGraph
  have hl := lookup_map_val (β := QAtom)
    (fun n _ => g.bonds.filterMap fun (x : Nat × Nat × QBond) => if x.1 == n then some x.2.1 else if x.2.1 == n then some x.1 else none)
    g.atoms u
  simp only at hl ⊢
  rw [hl]
  cases hlu : g.atoms.lookup u with
  | none =>
    have : u ∉ patAtoms g := by
      intro hu
      have := (lookup_isSome_iff g.atoms u).2 hu
      simp [hlu] at this
    simp [this]
  | some q =>
    have hu : u ∈ patAtoms g := (lookup_isSome_iff g.atoms u).1 (by simp [hlu])
    simp only [Option.map_some, Option.getD_some, List.mem_filterMap, hu, true_and]
    constructor
    · rintro ⟨⟨a, b, qb⟩, hmem, hx⟩
      simp only at hx
      by_cases h1 : a == u
      · have : a = u := by simpa using h1
        subst this
        simp at hx
        subst hx
        exact ⟨qb, Or.inl hmem⟩
      · simp only [h1] at hx
        by_cases h2 : b == u
        · have : b = u := by simpa using h2
          subst this
          simp at hx
          subst hx
          exact ⟨qb, Or.inr hmem⟩
        · simp [h2] at hx
    · rintro ⟨qb, h | h⟩
      · exact ⟨(u, v, qb), h, by simp⟩
      · refine ⟨(v, u, qb), h, ?_⟩
        by_cases hvu : v = u
        · subst hvu; simp
        · have : (v == u) = false := by simpa using hvu
          simp [this]

theorem qIso_atoms (g : QGraph) : (qIsoGraph g).atoms = patAtoms g := rfl

/-- the neighbour keys of the molecule -/
theorem molIso_nbrs (m : Mol) (x : Nat) : (molIsoGraph m).nbrs x = (m.nbrs x).map (·.1) := by
  unfold Iso.Graph.nbrs molIsoGraph Mol.nbrs
  have hl := lookup_map_val (β := List (Nat × Bond)) (fun _ l => l.map (·.1)) m.adj x
  simp only at hl ⊢
  rw [hl]
  cases m.adj.lookup x <;> simp

theorem molIso_mem_nbrs (m : Mol) (x y : Nat) : y ∈ (molIsoGraph m).nbrs x ↔ (m.bond? x y).isSome = true := by
  rw [molIso_nbrs]
  unfold Mol.bond?
  exact (lookup_isSome_iff (m.nbrs x) y).symm

set_option linter.unusedSimpArgs false in
/-- `Mol.WF`: both directions of a bond hold the same bond object -/
theorem bond?_symm (m : Mol) (hm : m.WF = true) (x y : Nat) : m.bond? x y = m.bond? y x := by
  have key : ∀ x y b, m.bond? x y = some b → m.bond? y x = some b := by
    intro x y b h
    unfold Mol.bond? at h
    have hmem := lookup_mem _ _ _ h
    unfold Mol.nbrs at hmem
    cases hl : m.adj.lookup x with
    | none => simp [hl] at hmem
    | some ms =>
      simp only [hl, Option.getD_some] at hmem
      have hadj := lookup_mem _ _ _ hl
      simp only [Mol.WF, Bool.and_eq_true, List.all_eq_true] at hm
      have := hm.2 _ hadj
      simp only [Bool.and_eq_true, List.all_eq_true] at this
      have := this.2 _ hmem
      simp only [Bool.and_eq_true, beq_iff_eq] at this
      exact this.2
  cases h1 : m.bond? x y with
  | some b => exact (key x y b h1).symm
  | none =>
    cases h2 : m.bond? y x with
    | none => rfl
    | some b => have := key y x b h2; rw [h1] at this; cases this

theorem bondInRing_symm (sssr : List (List Nat)) (x y : Nat) : bondInRing sssr x y = bondInRing sssr y x := by
  unfold bondInRing
  congr 1
  funext r
  exact Bool.and_comm _ _

theorem qBondAt_symm (g : QGraph) (u v : Nat) : qBondAt g u v = qBondAt g v u := by
  unfold qBondAt
  congr 2
  funext x
  obtain ⟨a, b, qb⟩ := x
  exact Bool.or_comm _ _

/-- one shared bond object per bond on both sides: the comparison does not depend on the direction -/
theorem bondOkOf_symm (g : QGraph) (m : Mol) (sssr : List (List Nat)) (hm : m.WF = true) (u v x y : Nat) :
    bondOkOf g m sssr u v x y = bondOkOf g m sssr v u y x := by
  unfold bondOkOf mBondAt
  rw [qBondAt_symm g u v, bond?_symm m hm x y, bondInRing_symm sssr x y]

/-- a pattern bond is found by `qBondAt` -/
theorem qBondAt_isSome (g : QGraph) (u v : Nat) (h : PatBond g u v) : ∃ qb, qBondAt g u v = some qb := by
  obtain ⟨qb, h⟩ := h
  unfold qBondAt
  have : (g.bonds.find? fun (x : Nat × Nat × QBond) => (x.1 == u && x.2.1 == v) || (x.1 == v && x.2.1 == u)).isSome = true := by
    rw [List.find?_isSome]
    rcases h with h | h
    · exact ⟨_, h, by simp⟩
    · exact ⟨_, h, by simp⟩
  cases hf : g.bonds.find? fun (x : Nat × Nat × QBond) => (x.1 == u && x.2.1 == v) || (x.1 == v && x.2.1 == u) with
  | none => rw [hf] at this; cases this
  | some x => exact ⟨x.2.2, by simp⟩

/-- the labelled atom carries the element of the stored atom -/
theorem mAtomOf_awf (m : Mol) (sssr : List (List Nat)) (hz : ∀ p ∈ m.atoms, 1 ≤ p.2.z ∧ p.2.z ≤ 118) (x : Nat) (a : MAtom)
    (h : mAtomOf m sssr x = some a) : AWF a := by
  unfold mAtomOf at h
  cases ha : m.atom? x with
  | none => simp [ha] at h
  | some at0 =>
    cases hl : labelsOf m x with
    | none => simp [ha, hl] at h
    | some l =>
      simp only [ha, hl, Option.bind_eq_bind, Option.bind_some, Option.some.injEq] at h
      subst h
      have hmem := lookup_mem _ _ _ (show m.atoms.lookup x = some at0 from ha)
      exact hz _ hmem

theorem mAtomOf_in_ids (m : Mol) (sssr : List (List Nat)) (x : Nat) (a : MAtom) (h : mAtomOf m sssr x = some a) : x ∈ m.ids := by
  unfold mAtomOf at h
  cases ha : m.atom? x with
  | none => simp [ha] at h
  | some at0 =>
    have := lookup_mem _ _ _ (show m.atoms.lookup x = some at0 from ha)
    unfold Mol.ids
    exact List.mem_map.2 ⟨_, this, rfl⟩

theorem qAtomAt_mem (g : QGraph) (u : Nat) (q : QAtom) (h : qAtomAt g u = some q) : (u, q) ∈ g.atoms :=
  lookup_mem _ _ _ h

set_option linter.unusedSimpArgs false in
/-- a well-formed molecule gives a well-formed target graph for the matcher -/
theorem molIso_wf (m : Mol) (hm : m.WF = true) : (molIsoGraph m).WF = true := by
  have hm' := hm
  simp only [Mol.WF, Bool.and_eq_true, List.all_eq_true, decide_eq_true_eq] at hm'
  obtain ⟨⟨h1, h2⟩, h3⟩ := hm'
  simp only [Iso.Graph.WF, Bool.and_eq_true, List.all_eq_true, decide_eq_true_eq]
  refine ⟨⟨by simpa [molIsoGraph] using h1, ?_⟩, ?_⟩
  · simp only [molIsoGraph, List.map_map]
    have : ((fun p : Nat × List Nat => p.1) ∘ fun p : Nat × List (Nat × Bond) => (p.1, p.2.map (·.1))) = (·.1) := by
      funext p; rfl
    simpa [this] using h2
  · rintro ⟨n, ms'⟩ hmem
    simp only [molIsoGraph, List.mem_map] at hmem
    obtain ⟨⟨n', l⟩, hl, heq⟩ := hmem
    simp only [Prod.mk.injEq] at heq
    obtain ⟨rfl, rfl⟩ := heq
    have hn := h3 _ hl
    simp only [Bool.and_eq_true, List.all_eq_true, decide_eq_true_eq] at hn
    refine ⟨hn.1, ?_⟩
    intro k hk
    obtain ⟨⟨k', b⟩, hkb, rfl⟩ := List.mem_map.1 hk
    have := hn.2 _ hkb
    simp only [Bool.and_eq_true, bne_iff_ne, ne_eq, beq_iff_eq] at this
    obtain ⟨⟨hne, hat⟩, hbond⟩ := this
    refine ⟨⟨by simpa using hne, ?_⟩, ?_⟩
    · simp only [Mol.hasAtom, List.any_eq_true, beq_iff_eq] at hat
      obtain ⟨p, hp, rfl⟩ := hat
      simp only [molIsoGraph, Mol.ids, List.contains_iff_mem]
      exact List.mem_map.2 ⟨p, hp, rfl⟩
    · simp only [Iso.Graph.hasBond, List.contains_iff_mem]
      rw [molIso_mem_nbrs, hbond]; rfl

end ChythonModel.Proofs.C08
