import ChythonModel.Proofs.C07Multi2
/-!
From the family of per-component embeddings to the global specification `IsEmbedding` and back.
-/
namespace ChythonModel.Proofs.C07
open ChythonModel.Model.Iso ChythonModel.Spec.Embedding

/-! ### more about `checkComponents` -/

theorem reachN_sound (t : Graph) (x0 : Nat) : ∀ (k : Nat) (s : List Nat), (∀ z ∈ s, Reach t x0 z) →
    ∀ z ∈ reachN t k s, Reach t x0 z := by
  intro k
  induction k with
  | zero => intro s h z hz; exact h z hz
  | succ k ih =>
    intro s h z hz
    refine ih (expand t s) ?_ z hz
    intro w hw
    unfold expand at hw
    rcases List.mem_append.1 hw with hw | hw
    · exact h w hw
    · obtain ⟨hw, _⟩ := List.mem_filter.1 hw
      obtain ⟨v, hv, hwv⟩ := List.mem_flatMap.1 hw
      exact Reach.step (h v hv) hwv

theorem partition_extra (t : Graph) (hs : ∀ x y, y ∈ t.nbrs x → x ∈ t.nbrs y) (comps : List (List Nat))
    (h : checkComponents t comps = true) :
    (∀ c ∈ comps, c ≠ []) ∧ (∀ c ∈ comps, ∀ x ∈ c, ∀ y ∈ c, Reach t x y) := by
  simp only [checkComponents, Bool.and_eq_true, decide_eq_true_eq, List.all_eq_true, List.contains_iff_mem] at h
  obtain ⟨_, h4⟩ := h
  constructor
  · intro c hc hnil
    have := (h4 c hc).2
    rw [hnil] at this
    simp at this
  · intro c hc x hx y hy
    have := (h4 c hc).2
    cases c with
    | nil => simp at hx
    | cons x0 c' =>
      simp only [List.all_eq_true, List.contains_iff_mem] at this
      have hr : ∀ z ∈ x0 :: c', Reach t x0 z := fun z hz =>
        reachN_sound t x0 _ [x0] (by intro w hw; simp at hw; rw [hw]; exact Reach.refl _) z (this z hz)
      exact reach_trans (reach_symm hs (hr x hx)) (hr y hy)

/-! ### list helpers -/

theorem disjoint_symm' {α} {a b : List α} (h : List.Disjoint a b) : List.Disjoint b a := fun _ hx hy => h hy hx

theorem pairwise_cases {α} {R : α → α → Prop} (hsym : ∀ a b, R a b → R b a) :
    ∀ (l : List α), l.Pairwise R → ∀ a ∈ l, ∀ b ∈ l, a = b ∨ R a b := by
  intro l
  induction l with
  | nil => intro _ a ha; simp at ha
  | cons x l ih =>
    intro h a ha b hb
    rw [List.pairwise_cons] at h
    rcases List.mem_cons.1 ha with hax | hal
    · rcases List.mem_cons.1 hb with hbx | hbl
      · left; rw [hax, hbx]
      · right; rw [hax]; exact h.1 b hbl
    · rcases List.mem_cons.1 hb with hbx | hbl
      · right; rw [hbx]; exact hsym _ _ (h.1 a hal)
      · exact ih h.2 a hal b hbl

theorem zip_pairwise {α β} {R1 : α → α → Prop} {R2 : β → β → Prop} :
    ∀ (l1 : List α) (l2 : List β), l1.Pairwise R1 → l2.Pairwise R2 →
      (l1.zip l2).Pairwise (fun a b => R1 a.1 b.1 ∧ R2 a.2 b.2) := by
  intro l1
  induction l1 with
  | nil => intro l2 _ _; simp
  | cons a l1 ih =>
    intro l2 h1 h2
    cases l2 with
    | nil => simp
    | cons b l2 =>
      rw [List.pairwise_cons] at h1 h2
      rw [List.zip_cons_cons, List.pairwise_cons]
      refine ⟨?_, ih l2 h1.2 h2.2⟩
      intro pr hpr
      have := List.of_mem_zip hpr
      exact ⟨h1.1 _ this.1, h2.1 _ this.2⟩

theorem mem_zip_of_left {α β} : ∀ (l1 : List α) (l2 : List β), l1.length ≤ l2.length → ∀ a ∈ l1, ∃ b, (a, b) ∈ l1.zip l2 := by
  intro l1
  induction l1 with
  | nil => intro _ _ a ha; simp at ha
  | cons x l1 ih =>
    intro l2 hlen a ha
    cases l2 with
    | nil => simp at hlen
    | cons y l2 =>
      rcases List.mem_cons.1 ha with rfl | ha
      · exact ⟨y, by simp⟩
      · obtain ⟨b, hb⟩ := ih l2 (by simpa using hlen) a ha
        exact ⟨b, by simp [hb]⟩

theorem nodup_of_pairwise_disjoint {α} (L : List (List α)) (hpw : L.Pairwise List.Disjoint) (hne : ∀ l ∈ L, l ≠ []) :
    L.Nodup := by
  refine List.Pairwise.imp_of_mem ?_ hpw
  intro a b ha _ hab heq
  subst heq
  cases a with
  | nil => exact hne [] ha rfl
  | cons x a => exact hab (List.mem_cons_self) (List.mem_cons_self)

theorem mem_zip_map {α β} (g : α → β) : ∀ (l : List α) (pr : α × β), pr ∈ l.zip (l.map g) → pr.1 ∈ l ∧ pr.2 = g pr.1 := by
  intro l
  induction l with
  | nil => intro pr h; simp at h
  | cons a l ih =>
    intro pr h
    simp only [List.map_cons, List.zip_cons_cons, List.mem_cons] at h
    rcases h with rfl | h
    · simp
    · obtain ⟨h1, h2⟩ := ih pr h
      exact ⟨List.mem_cons_of_mem _ h1, h2⟩

/-! ### facts about an accepted linearisation, per component -/

structure CompsFacts (q : Graph) (comps : List (List Step)) (cl : Closures) : Prop where
  ok : ∀ lq ∈ comps, CompOK q cl lq
  disj : comps.Pairwise (fun a b => List.Disjoint (frontsOf a) (frontsOf b))
  nodup : ∀ lq ∈ comps, (frontsOf lq).Nodup
  cover : ∀ u ∈ q.atoms, ∃ lq ∈ comps, u ∈ frontsOf lq
  sub : ∀ lq ∈ comps, ∀ u ∈ frontsOf lq, u ∈ q.atoms

theorem compsFacts_of (q : Graph) (comps : List (List Step)) (cl : Closures) (hc : CompiledOK q comps cl) :
    CompsFacts q comps cl := by
  have hflat : comps.flatten.map (·.front) = (comps.map frontsOf).flatten := by
    rw [List.map_flatten]; rfl
  have hnd := hc.nodup
  rw [hflat, List.nodup_flatten] at hnd
  refine ⟨hc.comp, ?_, ?_, ?_, ?_⟩
  · have := hnd.2
    rw [List.pairwise_map] at this
    exact this
  · intro lq hlq; exact hnd.1 _ (List.mem_map.2 ⟨lq, hlq, rfl⟩)
  · intro u hu
    have := hc.cover u hu
    rw [hflat, List.mem_flatten] at this
    obtain ⟨l, hl, hul⟩ := this
    obtain ⟨lq, hlq, rfl⟩ := List.mem_map.1 hl
    exact ⟨lq, hlq, hul⟩
  · intro lq hlq u hu
    apply hc.sub
    rw [hflat, List.mem_flatten]
    exact ⟨_, List.mem_map.2 ⟨lq, hlq, rfl⟩, hu⟩

/-! ### soundness: one function embedding every pair ⇒ the global specification -/

theorem allEmb_sound (p : Problem) (cl : Closures) (comps : List (List Step)) (hF : CompsFacts p.q comps cl)
    (hqs : ∀ x y, y ∈ p.q.nbrs x → x ∈ p.q.nbrs y) (hP : PartitionOK p.t p.tComps)
    (cands : List (List Nat)) (hlen : cands.length = comps.length) (hcn : cands.Nodup) (hct : ∀ c ∈ cands, c ∈ p.tComps)
    (f : Nat → Nat) (hall : AllEmb p comps cands f) :
    IsEmbedding p.q p.t (scopeFn p.scope) p.atomOk p.bondOk f := by
  -- distinct candidates are disjoint
  have hcd : cands.Pairwise List.Disjoint := by
    refine List.Pairwise.imp_of_mem ?_ hcn
    intro a b ha hb hab
    rcases pairwise_cases (fun _ _ (h : List.Disjoint _ _) => disjoint_symm' h) _ hP.disjoint a (hct a ha) b (hct b hb) with h | h
    · exact absurd h hab
    · exact h
  have hpw := zip_pairwise comps cands hF.disj hcd
  have hsymR : ∀ a b : List Step × List Nat,
      (List.Disjoint (frontsOf a.1) (frontsOf b.1) ∧ List.Disjoint a.2 b.2) →
      (List.Disjoint (frontsOf b.1) (frontsOf a.1) ∧ List.Disjoint b.2 a.2) :=
    fun _ _ h => ⟨disjoint_symm' h.1, disjoint_symm' h.2⟩
  -- the pair of an atom
  have hpair : ∀ u ∈ p.q.atoms, ∃ pr ∈ comps.zip cands, u ∈ frontsOf pr.1 := by
    intro u hu
    obtain ⟨lq, hlq, hul⟩ := hF.cover u hu
    obtain ⟨cand, hc⟩ := mem_zip_of_left comps cands (by omega) lq hlq
    exact ⟨(lq, cand), hc, hul⟩
  have himg : ∀ pr ∈ comps.zip cands, ∀ u ∈ frontsOf pr.1, f u ∈ pr.2 := by
    intro pr hpr u hu
    have := (hall pr hpr).in_scope u hu
    simp only [restrict_contains, Bool.and_eq_true, List.contains_iff_mem] at this
    exact this.1
  have hclosed : ∀ pr ∈ comps.zip cands, ∀ u ∈ frontsOf pr.1, ∀ v ∈ p.q.nbrs u, v ∈ frontsOf pr.1 := by
    intro pr hpr
    exact comp_closed p.q cl pr.1 (hF.ok pr.1 (List.of_mem_zip hpr).1)
  refine ⟨?_, ?_, ?_, ?_, ?_, ?_, ?_⟩
  · intro u hu v hv h
    obtain ⟨pu, hpu, hu'⟩ := hpair u hu
    obtain ⟨pv, hpv, hv'⟩ := hpair v hv
    rcases pairwise_cases hsymR _ hpw pu hpu pv hpv with heq | hd
    · subst heq; exact (hall pu hpu).injective u hu' v hv' h
    · exact absurd (h ▸ himg pu hpu u hu') (fun hh => hd.2 hh (himg pv hpv v hv'))
  · intro u hu
    obtain ⟨pu, hpu, hu'⟩ := hpair u hu
    exact (hall pu hpu).atom_in_target u hu'
  · intro u hu
    obtain ⟨pu, hpu, hu'⟩ := hpair u hu
    exact (hall pu hpu).atom_matches u hu'
  · intro u hu v hv
    obtain ⟨pu, hpu, hu'⟩ := hpair u hu
    exact (hall pu hpu).bond_matches u hu' v hv
  · intro u hu v _ hr h
    obtain ⟨pu, hpu, hu'⟩ := hpair u hu
    have hv' : v ∈ frontsOf pu.1 := reach_closed (fun w => w ∈ frontsOf pu.1) (hclosed pu hpu) hu' hr
    exact (hall pu hpu).no_extra_bond u hu' v hv' h
  · intro u hu v hv hnr hr
    obtain ⟨pu, hpu, hu'⟩ := hpair u hu
    obtain ⟨pv, hpv, hv'⟩ := hpair v hv
    rcases pairwise_cases hsymR _ hpw pu hpu pv hpv with heq | hd
    · subst heq
      exact hnr (comp_connected p.q hqs cl pu.1 (hF.ok pu.1 (List.of_mem_zip hpu).1) u v hu' hv')
    · have hcu : pu.2 ∈ p.tComps := hct _ (List.of_mem_zip hpu).2
      have : f v ∈ pu.2 := reach_closed (fun y => y ∈ pu.2) (fun x hx y hy => hP.closed pu.2 hcu x hx y hy)
        (himg pu hpu u hu') hr
      exact hd.2 this (himg pv hpv v hv')
  · intro u hu
    obtain ⟨pu, hpu, hu'⟩ := hpair u hu
    have := (hall pu hpu).in_scope u hu'
    simp only [restrict_contains, Bool.and_eq_true] at this
    exact this.2

/-! ### completeness: a global embedding determines the assignment of target components -/

/-- first atom of a component (0 for the impossible empty component) -/
def headFront (lq : List Step) : Nat := (lq.head?.map (·.front)).getD 0

/-- the target component the image of the first atom lies in -/
def candOf (tComps : List (List Nat)) (f : Nat → Nat) (lq : List Step) : List Nat :=
  (tComps.find? fun c => c.contains (f (headFront lq))).getD []

theorem isEmbedding_comp (p : Problem) (cl : Closures) (lq : List Step) (hok : CompOK p.q cl lq)
    (hsub : ∀ u ∈ frontsOf lq, u ∈ p.q.atoms) (hqs : ∀ x y, y ∈ p.q.nbrs x → x ∈ p.q.nbrs y)
    (hP : PartitionOK p.t p.tComps) (f : Nat → Nat)
    (isE : IsEmbedding p.q p.t (scopeFn p.scope) p.atomOk p.bondOk f) :
    candOf p.tComps f lq ∈ p.tComps ∧ headFront lq ∈ frontsOf lq ∧ f (headFront lq) ∈ candOf p.tComps f lq ∧
    EmbedsComp p.q p.t (frontsOf lq) (fun n => (restrict p.scope (candOf p.tComps f lq)).contains n) p.atomOk p.bondOk f := by
  obtain ⟨s0, h0⟩ : ∃ s0, lq[0]? = some s0 := by
    cases hl : lq with
    | nil => exact absurd hl hok.ne
    | cons a l => exact ⟨a, rfl⟩
  have hhead : headFront lq = s0.front := by
    unfold headFront
    cases lq with
    | nil => simp at h0
    | cons a l => simp at h0; simp [h0]
  have hu0 : s0.front ∈ frontsOf lq := front_mem lq 0 s0 h0
  obtain ⟨c, hc, hfc⟩ := hP.cover _ (isE.atom_in_target _ (hsub _ hu0))
  -- `find?` finds a component containing the image
  have hfind : ∃ c', p.tComps.find? (fun c => c.contains (f (headFront lq))) = some c' := by
    cases hf : p.tComps.find? (fun c => c.contains (f (headFront lq))) with
    | some c' => exact ⟨c', rfl⟩
    | none =>
      rw [List.find?_eq_none] at hf
      have := hf c hc
      rw [hhead] at this
      simp [hfc] at this
  obtain ⟨c', hc'⟩ := hfind
  have hc'mem : c' ∈ p.tComps := List.mem_of_find?_eq_some hc'
  have hc'has : f s0.front ∈ c' := by
    have := List.find?_some hc'
    rw [hhead] at this
    exact List.contains_iff_mem.1 this
  have hcand : candOf p.tComps f lq = c' := by unfold candOf; rw [hc']; rfl
  rw [hcand, hhead]
  have hclosed := comp_closed p.q cl lq hok
  have hconn := comp_connected p.q hqs cl lq hok
  have himg : ∀ u ∈ frontsOf lq, f u ∈ c' := by
    intro u hu
    have hr : Reach p.t (f s0.front) (f u) :=
      reach_map (fun w => w ∈ frontsOf lq) hclosed f
        (fun w hw v hv => (isE.bond_matches w (hsub w hw) v hv).1) hu0 (hconn _ _ hu0 hu)
    exact reach_closed (fun y => y ∈ c') (fun x hx y hy => hP.closed c' hc'mem x hx y hy) hc'has hr
  refine ⟨hc'mem, hu0, hc'has, ?_, ?_, ?_, ?_, ?_, ?_⟩
  · intro u hu v hv h; exact isE.injective u (hsub u hu) v (hsub v hv) h
  · intro u hu; exact isE.atom_in_target u (hsub u hu)
  · intro u hu; exact isE.atom_matches u (hsub u hu)
  · intro u hu v hv; exact isE.bond_matches u (hsub u hu) v hv
  · intro u hu v hv h
    exact isE.no_extra_bond u (hsub u hu) v (hsub v hv) (hconn u v hu hv) h
  · intro u hu
    simp only [restrict_contains, Bool.and_eq_true, List.contains_iff_mem]
    exact ⟨himg u hu, isE.in_scope u (hsub u hu)⟩

theorem allEmb_complete (p : Problem) (cl : Closures) (comps : List (List Step)) (hF : CompsFacts p.q comps cl)
    (hqs : ∀ x y, y ∈ p.q.nbrs x → x ∈ p.q.nbrs y) (hP : PartitionOK p.t p.tComps)
    (hconn : ∀ c ∈ p.tComps, ∀ x ∈ c, ∀ y ∈ c, Reach p.t x y)
    (f : Nat → Nat) (isE : IsEmbedding p.q p.t (scopeFn p.scope) p.atomOk p.bondOk f) :
    ∃ cands, cands.length = comps.length ∧ cands.Nodup ∧ (∀ c ∈ cands, c ∈ p.tComps) ∧ AllEmb p comps cands f := by
  have hcomp := fun lq (hlq : lq ∈ comps) =>
    isEmbedding_comp p cl lq (hF.ok lq hlq) (hF.sub lq hlq) hqs hP f isE
  have hcompsnd : comps.Nodup := by
    refine List.Pairwise.imp_of_mem ?_ hF.disj
    intro a b ha _ hab heq
    subst heq
    exact hab (hcomp a ha).2.1 (hcomp a ha).2.1
  refine ⟨comps.map (candOf p.tComps f), by simp, ?_, ?_, ?_⟩
  · refine List.Nodup.map_on ?_ hcompsnd
    intro a ha b hb heq
    rcases pairwise_cases (R := fun a b : List Step => List.Disjoint (frontsOf a) (frontsOf b))
        (fun _ _ h => disjoint_symm' h) _ hF.disj a ha b hb with h | h
    · exact h
    · exfalso
      obtain ⟨hca, hua, hfa, _⟩ := hcomp a ha
      obtain ⟨_, hub, hfb, _⟩ := hcomp b hb
      -- the two first atoms are not connected in the pattern …
      have hnr : ¬ Reach p.q (headFront a) (headFront b) := by
        intro hr
        have := reach_closed (fun w => w ∈ frontsOf a) (comp_closed p.q cl a (hF.ok a ha)) hua hr
        exact h this hub
      -- … but their images lie in one connected target component
      rw [← heq] at hfb
      exact isE.components_apart _ (hF.sub a ha _ hua) _ (hF.sub b hb _ hub) hnr (hconn _ hca _ hfa _ hfb)
  · intro c hc
    obtain ⟨lq, hlq, rfl⟩ := List.mem_map.1 hc
    exact (hcomp lq hlq).1
  · intro pr hpr
    obtain ⟨h1, h2⟩ := mem_zip_map (candOf p.tComps f) comps pr hpr
    rw [h2]
    exact (hcomp pr.1 h1).2.2.2

end ChythonModel.Proofs.C07
