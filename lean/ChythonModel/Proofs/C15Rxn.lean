import ChythonModel.Proofs.C15Compose
/-!
`ReactionContainer.compose` on role lists whose molecules carry pairwise different atom numbers inside a side:
`reduce(or_, …)` is concatenation (no remapping), and the concatenation is well-formed, so every `compose` theorem
applies to `~reaction`.
-/
namespace ChythonModel.Proofs.C15
open ChythonModel.Model ChythonModel.Model.C15

/-- molecules of one side carry pairwise different atom numbers -/
def DisjointIds (ms : List Mol) : Prop := ms.Pairwise (fun a b => ∀ n, n ∈ a.ids → n ∉ b.ids)

/-- concatenation of the `_atoms` / `_bonds` dicts -/
def concat (ms : List Mol) : Mol := ⟨(ms.map (·.atoms)).flatten, (ms.map (·.adj)).flatten⟩

theorem union_disjoint (a b : Mol) (h : ∀ n, n ∈ a.ids → n ∉ b.ids) :
    union a b = ⟨a.atoms ++ b.atoms, a.adj ++ b.adj⟩ := by
  unfold union
  have : a.ids.any (fun n => b.hasAtom n) = false := by
    rw [List.any_eq_false]
    intro n hn
    have := h n hn
    rw [← hasAtom_iff] at this
    simpa using this
  simp only [this, Bool.false_eq_true, if_false]

theorem foldl_union_disjoint (rest : List Mol) :
    ∀ acc : Mol, (∀ b ∈ rest, ∀ n, n ∈ acc.ids → n ∉ b.ids) → DisjointIds rest →
      rest.foldl union acc = ⟨acc.atoms ++ (rest.map (·.atoms)).flatten, acc.adj ++ (rest.map (·.adj)).flatten⟩ := by
  induction rest with
  | nil => intro acc _ _; simp
  | cons b tl ih =>
    intro acc hacc hd
    have hp := List.pairwise_cons.mp hd
    simp only [List.foldl_cons]
    rw [union_disjoint acc b (hacc b List.mem_cons_self)]
    rw [ih _ (by
      intro b' hb' n hn
      simp only [Mol.ids, List.map_append, List.mem_append] at hn
      rcases hn with h | h
      · exact hacc b' (List.mem_cons_of_mem _ hb') n h
      · exact hp.1 b' hb' n h) hp.2]
    simp

theorem unionAll_disjoint (ms : List Mol) (hd : DisjointIds ms) : unionAll ms = concat ms := by
  cases ms with
  | nil => rfl
  | cons m rest =>
    have hp := List.pairwise_cons.mp hd
    show rest.foldl union m = concat (m :: rest)
    rw [foldl_union_disjoint rest m (fun b hb n hn => hp.1 b hb n hn) hp.2]
    simp [concat]

theorem concat_ids (ms : List Mol) : (concat ms).ids = (ms.map (·.ids)).flatten := by
  simp [concat, Mol.ids, List.map_flatten, List.map_map, Function.comp_def]

theorem lookup_append_of_not_mem {α : Type} (l₁ l₂ : List (Nat × α)) (k : Nat) (h : k ∉ l₁.map (·.1)) :
    (l₁ ++ l₂).lookup k = l₂.lookup k := by
  rw [List.lookup_append]
  have : l₁.lookup k = none := by
    rw [lookup_none_iff]
    intro v hv
    exact h (List.mem_map.mpr ⟨(k, v), hv, rfl⟩)
  simp [this]

theorem lookup_append_of_mem {α : Type} (l₁ l₂ : List (Nat × α)) (k : Nat) (h : k ∈ l₁.map (·.1)) :
    (l₁ ++ l₂).lookup k = l₁.lookup k := by
  rw [List.lookup_append]
  cases hl : l₁.lookup k with
  | some v => simp
  | none =>
    exfalso
    obtain ⟨⟨k', v⟩, hm, e⟩ := List.mem_map.mp h
    simp only at e; subst e
    exact (lookup_none_iff l₁ k').mp hl v hm

/-- in a concatenation of well-formed molecules with different numbers, the adjacency row of an atom of `m` is its
    row in `m` -/
theorem concat_adj_lookup (ms : List Mol) (hw : ∀ m ∈ ms, WFp m) (hd : DisjointIds ms) :
    ∀ m ∈ ms, ∀ n ∈ m.ids, (concat ms).adj.lookup n = m.adj.lookup n := by
  induction ms with
  | nil => intro m hm; cases hm
  | cons a tl ih =>
    intro m hm n hn
    have hp := List.pairwise_cons.mp hd
    have ha := hw a List.mem_cons_self
    simp only [concat, List.map_cons, List.flatten_cons]
    rcases List.mem_cons.mp hm with e | e
    · subst e
      exact lookup_append_of_mem _ _ n (by rw [(hw m List.mem_cons_self).adjKeys]; exact hn)
    · have hna : n ∉ a.ids := fun h => hp.1 m e n h hn
      rw [lookup_append_of_not_mem _ _ n (by rw [ha.adjKeys]; exact hna)]
      exact ih (fun m' hm' => hw m' (List.mem_cons_of_mem _ hm')) hp.2 m e n hn

theorem concat_wfp (ms : List Mol) (hw : ∀ m ∈ ms, WFp m) (hd : DisjointIds ms) : WFp (concat ms) := by
  have hids := concat_ids ms
  have memIds : ∀ n, n ∈ (concat ms).ids ↔ ∃ m ∈ ms, n ∈ m.ids := by
    intro n; rw [hids]; simp only [List.mem_flatten, List.mem_map]
    constructor
    · rintro ⟨l, ⟨m, hm, e⟩, hn⟩; exact ⟨m, hm, e ▸ hn⟩
    · rintro ⟨m, hm, hn⟩; exact ⟨m.ids, ⟨m, hm, rfl⟩, hn⟩
  refine ⟨?_, ?_, ?_, ?_⟩
  · rw [hids]
    unfold List.Nodup
    rw [List.pairwise_flatten]
    refine ⟨?_, ?_⟩
    · intro l hl
      obtain ⟨m, hm, e⟩ := List.mem_map.mp hl
      subst e; exact (hw m hm).idsNodup
    · rw [List.pairwise_map]
      exact hd.imp (by intro a b h x hx y hy e; exact h x hx (e ▸ hy))
  · rw [hids]
    simp only [concat, List.map_flatten, List.map_map, Function.comp_def]
    congr 1
    apply List.map_congr_left
    intro m hm
    exact (hw m hm).adjKeys
  · intro n row hmem
    simp only [concat, List.mem_flatten, List.mem_map] at hmem
    obtain ⟨l, ⟨m, hm, e⟩, hl⟩ := hmem
    subst e
    exact (hw m hm).rowNodup n row hl
  · intro n row hmem k b hk
    simp only [concat, List.mem_flatten, List.mem_map] at hmem
    obtain ⟨l, ⟨m, hm, e⟩, hl⟩ := hmem
    subst e
    have ok := (hw m hm).rowOk n row hl k b hk
    have hkm : k ∈ m.ids := (hasAtom_iff m k).mp ok.2.1
    refine ⟨ok.1, (hasAtom_iff _ k).mpr ((memIds k).mpr ⟨m, hm, hkm⟩), ?_⟩
    unfold Mol.bond? Mol.nbrs
    rw [concat_adj_lookup ms hw hd m hm k hkm]
    exact ok.2.2

/-- `Mol.WF` (Bool) from the propositional form -/
theorem WF_of_wfp (g : Mol) (w : WFp g) : g.WF = true := by
  simp only [Mol.WF, Bool.and_eq_true, List.all_eq_true, decide_eq_true_eq, beq_iff_eq, bne_iff_ne, ne_eq]
  refine ⟨⟨w.idsNodup, w.adjKeys⟩, ?_⟩
  intro ⟨n, row⟩ hm
  refine ⟨w.rowNodup n row hm, ?_⟩
  intro ⟨k, b⟩ hk
  have := w.rowOk n row hm k b hk
  exact ⟨⟨this.1, this.2.1⟩, this.2.2⟩

end ChythonModel.Proofs.C15
