import ChythonModel.Proofs.C02Closures
import Mathlib.Data.List.Perm.Subperm
/-!
# C02 — the fuel of the DFS stack machine is sufficient

`dfsRun` is run by `traverse` with fuel `2 * (degreeSum m + m.atoms.length) + 2`.  The potential
`dfsPotential` (stack size + pending children + `deg + 1` for every unvisited atom) drops at every `dfsStep` of a
well-formed molecule, so `dfsRun` never answers `.error .fuel`.
-/
namespace ChythonModel.Proofs.C02
open ChythonModel.Model ChythonModel.Model.SmilesWriter

set_option linter.unnecessarySeqFocus false

/-! ## 1. more fuel never changes a result -/

namespace Fuel

theorem dfsRun_of_empty (m : Mol) (env : Env) (opts : Opts) (groups : List (Int × Int)) (seen : List (Nat × Int))
    (fuel : Nat) (s : Dfs) (h : s.stack.isEmpty = true) : dfsRun m env opts groups seen fuel s = .ok s := by
  cases fuel <;> simp [dfsRun, h]

end Fuel

theorem dfsRun_fuel_mono (m : Mol) (env : Env) (opts : Opts) (groups : List (Int × Int)) (seen : List (Nat × Int)) :
    ∀ (fuel k : Nat) (s r : Dfs), dfsRun m env opts groups seen fuel s = .ok r →
      dfsRun m env opts groups seen (fuel + k) s = .ok r := by
  intro fuel
  induction fuel with
  | zero =>
    intro k s r h
    simp only [dfsRun] at h
    split at h
    · rename_i he
      rw [Fuel.dfsRun_of_empty _ _ _ _ _ _ _ he]
      exact h
    · cases h
  | succ fuel ih =>
    intro k s r h
    have e : fuel + 1 + k = (fuel + k) + 1 := by omega
    rw [e]
    simp only [dfsRun] at h ⊢
    split at h
    · rename_i he
      simp only [he, if_true]
      exact h
    · rename_i he
      simp only [he]
      split at h
      · cases h
      · rename_i s' hs
        simp only [Bool.false_eq_true, if_false]
        exact ih k s' r h

theorem dfsRun_error_mono (m : Mol) (env : Env) (opts : Opts) (groups : List (Int × Int)) (seen : List (Nat × Int)) :
    ∀ (fuel k : Nat) (s : Dfs) (e : Err), dfsRun m env opts groups seen fuel s = .error e → e ≠ .fuel →
      dfsRun m env opts groups seen (fuel + k) s = .error e := by
  intro fuel
  induction fuel with
  | zero =>
    intro k s e h hne
    simp only [dfsRun] at h
    split at h
    · cases h
    · cases h
      exact absurd rfl hne
  | succ fuel ih =>
    intro k s e h hne
    have e' : fuel + 1 + k = (fuel + k) + 1 := by omega
    rw [e']
    simp only [dfsRun] at h ⊢
    split at h
    · cases h
    · rename_i he
      simp only [he]
      split at h
      · rename_i e1 hs
        simp only [Bool.false_eq_true, if_false]
        exact h
      · rename_i s' hs
        simp only [Bool.false_eq_true, if_false]
        exact ih k s' e h hne

/-! ## 2. the potential -/

def dfsPotential (m : Mol) (s : Dfs) : Nat :=
  (s.stack.map fun f => f.children.length + 1).sum +
  ((m.ids.filter fun a => !alHas s.visited a).map fun a => (m.nbrs a).length + 1).sum

namespace Fuel

theorem alHas_snoc {α} (v : List (Nat × α)) (c : Nat) (x : α) (a : Nat) :
    alHas (v ++ [(c, x)]) a = (alHas v a || c == a) := by
  simp [alHas, List.any_append]

theorem filter_sum_mono (g : Nat → Nat) (p q : Nat → Bool) (hqp : ∀ a, q a = true → p a = true) : ∀ l : List Nat,
    ((l.filter q).map g).sum ≤ ((l.filter p).map g).sum := by
  intro l
  induction l with
  | nil => simp
  | cons a tl ih =>
    have := hqp a
    cases h1 : p a <;> cases h2 : q a <;> simp_all <;> omega

theorem filter_sum_drop (g : Nat → Nat) (p q : Nat → Bool) (hqp : ∀ a, q a = true → p a = true) (c : Nat)
    (hq : q c = false) (hp : p c = true) : ∀ l : List Nat, c ∈ l →
    ((l.filter q).map g).sum + g c ≤ ((l.filter p).map g).sum := by
  intro l
  induction l with
  | nil => intro h; cases h
  | cons a tl ih =>
    intro hmem
    have hm := filter_sum_mono g p q hqp tl
    by_cases hca : c = a
    · subst hca
      simp only [List.filter_cons, hq, hp, if_true, List.map_cons, List.sum_cons]
      simp only [Bool.false_eq_true, if_false]
      omega
    · have hin : c ∈ tl := by
        cases hmem with
        | head => exact absurd rfl hca
        | tail _ h => exact h
      have h3 := ih hin
      have := hqp a
      cases h1 : p a <;> cases h2 : q a <;> simp_all <;> omega

/-- marking one more atom as visited never increases the unvisited sum -/
theorem unv_mono {α} (g : Nat → Nat) (vis : List (Nat × α)) (c : Nat) (x : α) (l : List Nat) :
    ((l.filter fun a => !alHas (vis ++ [(c, x)]) a).map g).sum ≤ ((l.filter fun a => !alHas vis a).map g).sum := by
  apply filter_sum_mono
  intro a
  simp only [alHas_snoc]
  cases alHas vis a <;> simp

/-- … and drops it by `g c` when `c` is a listed, unvisited atom -/
theorem unv_drop {α} (g : Nat → Nat) (vis : List (Nat × α)) (c : Nat) (x : α) (hv : alHas vis c = false)
    (l : List Nat) (hc : c ∈ l) :
    ((l.filter fun a => !alHas (vis ++ [(c, x)]) a).map g).sum + g c ≤ ((l.filter fun a => !alHas vis a).map g).sum := by
  apply filter_sum_drop g _ _ _ c _ _ l hc
  · intro a
    simp only [alHas_snoc]
    cases alHas vis a <;> simp
  · simp [alHas_snoc]
  · simp [hv]

/-! ### `frontOf`, `keysFor`, `sortKeyed`: lengths and errors -/

theorem frontOf_length {m : Mol} {env : Env} {opts : Opts} {child parent : Nat} {l : List Nat}
    (h : frontOf m env opts child parent = .ok l) : l.length ≤ (m.nbrs child).length := by
  have hw : ((m.nbrs child).filterMap fun (p : Nat × Bond) => if p.1 == parent then none else some p.1).length
      ≤ (m.nbrs child).length := List.length_filterMap_le _ _
  unfold frontOf at h
  simp only at h
  split at h
  · cases h; exact hw
  · split at h
    · split at h
      · rename_i hc
        cases h
        have h1 := eq_of_beq ((Bool.and_eq_true _ _).mp hc).1
        rw [h1]
        exact hw
      · cases h
    · split at h
      · cases h; exact hw
      · cases h

theorem frontOf_not_fuel {m : Mol} {env : Env} {opts : Opts} {child parent : Nat}
    (h : frontOf m env opts child parent = .error .fuel) : False := by
  unfold frontOf at h
  simp only at h
  split at h
  · cases h
  · split at h
    · split at h <;> cases h
    · split at h <;> cases h

theorem mapM_except_length {ε α β} (f : α → Except ε β) : ∀ (l : List α) (out : List β),
    l.mapM f = .ok out → out.length = l.length := by
  intro l
  induction l with
  | nil => intro out h; simp [pure, Except.pure] at h; subst h; rfl
  | cons a tl ih =>
    intro out h
    simp only [List.mapM_cons, bind, Except.bind, pure, Except.pure] at h
    split at h
    · cases h
    · split at h
      · cases h
      · rename_i bs hbs
        cases h
        simp [ih bs hbs]

theorem mapM_except_error {ε α β} (f : α → Except ε β) (e : ε) : ∀ (l : List α),
    l.mapM f = .error e → ∃ a ∈ l, f a = .error e := by
  intro l
  induction l with
  | nil => intro h; simp [pure, Except.pure] at h
  | cons a tl ih =>
    intro h
    simp only [List.mapM_cons, bind, Except.bind, pure, Except.pure] at h
    split at h
    · rename_i e1 he1
      cases h
      exact ⟨a, List.mem_cons_self, he1⟩
    · split at h
      · rename_i e1 he1
        cases h
        obtain ⟨b, hb, hfb⟩ := ih he1
        exact ⟨b, List.mem_cons_of_mem _ hb, hfb⟩
      · cases h

theorem keysFor_length {env : Env} {opts : Opts} {groups seen useSeen draws} {cands : List Nat} {ks draws'}
    (h : keysFor env opts groups seen useSeen draws cands = .ok (ks, draws')) : ks.length = cands.length := by
  unfold keysFor at h
  split at h
  · unfold takeDraws at h
    simp only at h
    split at h
    · rename_i hc
      cases h
      simp only [Bool.and_eq_true, beq_iff_eq, List.length_take] at hc
      simp only [List.length_map, List.length_take]
      exact hc.1.1
    · cases h
  · simp only [bind, Except.bind, pure, Except.pure] at h
    split at h
    · cases h
    · rename_i ks' hks
      cases h
      exact mapM_except_length _ _ _ hks

theorem keysFor_not_fuel {env : Env} {opts : Opts} {groups seen useSeen draws} {cands : List Nat}
    (h : keysFor env opts groups seen useSeen draws cands = .error .fuel) : False := by
  unfold keysFor at h
  split at h
  · unfold takeDraws at h
    simp only at h
    split at h <;> cases h
  · simp only [bind, Except.bind, pure, Except.pure] at h
    split at h
    · rename_i e he
      cases h
      obtain ⟨a, _, ha⟩ := mapM_except_error _ _ _ he
      cases hl : List.lookup a env.weights <;> cases useSeen <;> cases hl2 : List.lookup a seen <;>
        simp [weightOf, hl, hl2] at ha
    · cases h

theorem sortKeyed_map_length {α} (ks : List (α × Key)) : ((sortKeyed ks).map (·.1)).length = ks.length := by
  simp only [List.length_map, sortKeyed]
  exact (sortBy_perm _ ks).length_eq

/-! ### well-formed molecules: the adjacency is keyed by exactly the atoms -/

theorem wf_ids_nodup' {m : Mol} (h : m.WF = true) : m.ids.Nodup := by
  simp only [Mol.WF, Bool.and_eq_true, decide_eq_true_eq] at h
  exact h.1.1

theorem wf_adj_keys {m : Mol} (h : m.WF = true) : m.adj.map (·.1) = m.ids := by
  simp only [Mol.WF, Bool.and_eq_true, beq_iff_eq] at h
  exact h.1.2

theorem lookup_none_of_not_mem {β} : ∀ (d : List (Nat × β)) (c : Nat), c ∉ d.map (·.1) → d.lookup c = none := by
  intro d
  induction d with
  | nil => intro c _; rfl
  | cons p tl ih =>
    intro c hc
    obtain ⟨k, v⟩ := p
    simp only [List.map_cons, List.mem_cons, not_or] at hc
    have hb : (c == k) = false := by simpa using hc.1
    simp only [List.lookup_cons, hb]
    exact ih c hc.2

theorem nbrs_nil_of_not_mem {m : Mol} (h : m.WF = true) {c : Nat} (hc : c ∉ m.ids) : m.nbrs c = [] := by
  rw [← wf_adj_keys h] at hc
  simp [Mol.nbrs, lookup_none_of_not_mem _ _ hc]

theorem map_lookup_keys {β γ} (f : Option β → γ) : ∀ d : List (Nat × β), (d.map (·.1)).Nodup →
    (d.map (·.1)).map (fun a => f (d.lookup a)) = d.map (fun p => f (some p.2)) := by
  intro d
  induction d with
  | nil => intro _; rfl
  | cons p tl ih =>
    intro hn
    obtain ⟨k, v⟩ := p
    simp only [List.map_cons, List.nodup_cons] at hn
    simp only [List.map_cons, List.lookup_cons, beq_self_eq_true]
    congr 1
    rw [← ih hn.2]
    apply List.map_congr_left
    intro a ha
    have hb : (a == k) = false := by
      simp only [beq_eq_false_iff_ne, ne_eq]
      intro e; subst e; exact hn.1 ha
    simp only [hb]

theorem degreeSum_eq {m : Mol} (h : m.WF = true) : degreeSum m = (m.ids.map fun a => (m.nbrs a).length).sum := by
  have hn : (m.adj.map (·.1)).Nodup := by rw [wf_adj_keys h]; exact wf_ids_nodup' h
  have := map_lookup_keys (fun (o : Option (List (Nat × Bond))) => (o.getD []).length) m.adj hn
  rw [wf_adj_keys h] at this
  simp only [degreeSum, Mol.nbrs]
  rw [this]
  simp

theorem nbrs_length_le_degreeSum (m : Mol) (a : Nat) : (m.nbrs a).length ≤ degreeSum m := by
  simp only [Mol.nbrs, degreeSum]
  generalize m.adj = d
  induction d with
  | nil => simp
  | cons p tl ih =>
    obtain ⟨k, v⟩ := p
    simp only [List.lookup_cons, List.map_cons, List.sum_cons]
    cases a == k <;> simp <;> omega

end Fuel

theorem dfsStep_potential {m : Mol} {env : Env} {opts : Opts} {groups : List (Int × Int)} {seen : List (Nat × Int)}
    {s s' : Dfs} (hwf : m.WF = true) (hne : s.stack ≠ [])
    (h : dfsStep m env opts groups seen s = .ok s') : dfsPotential m s' + 1 ≤ dfsPotential m s := by
  obtain ⟨stack, visited, edges, disc, cycle, tokens, draws⟩ := s
  cases stack with
  | nil => exact absurd rfl hne
  | cons f rest =>
    obtain ⟨parent, depth, children⟩ := f
    cases children with
    | nil =>
      simp only [dfsStep] at h
      cases h
      simp only [dfsPotential, List.map_cons, List.sum_cons, List.length_nil]
      omega
    | cons child cs =>
      simp only [dfsStep, bind, Except.bind, pure, Except.pure] at h
      have hmono := Fuel.unv_mono (fun a => (m.nbrs a).length + 1) visited child [parent] m.ids
      split at h
      · rename_i hv
        have hv' : alHas visited child = false := by simpa using hv
        split at h
        · split at h
          · cases h
          · rename_i front hfront
            split at h
            · cases h
              simp only [dfsPotential, List.map_cons, List.sum_cons, List.length_cons]
              omega
            · rename_i hfe
              split at h
              · cases h
              · rename_i x hx
                cases h
                have hlen := Fuel.frontOf_length hfront
                have hk := Fuel.keysFor_length (ks := x.1) (draws' := x.2) hx
                have hs := Fuel.sortKeyed_map_length x.1
                have hin : child ∈ m.ids := by
                  by_cases hc : child ∈ m.ids
                  · exact hc
                  exfalso
                  rw [Fuel.nbrs_nil_of_not_mem hwf hc] at hlen
                  apply hfe
                  cases front with
                  | nil => rfl
                  | cons a tl => simp at hlen
                have hdrop := Fuel.unv_drop (fun a => (m.nbrs a).length + 1) visited child [parent] hv' m.ids hin
                simp only [dfsPotential, List.map_cons, List.sum_cons, List.length_cons] at hdrop ⊢
                omega
        · cases h
          simp only [dfsPotential, List.map_cons, List.sum_cons, List.length_cons]
          omega
      · split at h <;>
        · cases h
          simp only [dfsPotential, List.map_cons, List.sum_cons, List.length_cons]
          omega

/-- `dfsStep` itself has no fuel: it never answers `.error .fuel` -/
theorem dfsStep_not_fuel {m : Mol} {env : Env} {opts : Opts} {groups : List (Int × Int)} {seen : List (Nat × Int)}
    {s : Dfs} : dfsStep m env opts groups seen s ≠ .error .fuel := by
  intro h
  obtain ⟨stack, visited, edges, disc, cycle, tokens, draws⟩ := s
  cases stack with
  | nil => simp only [dfsStep] at h; cases h
  | cons f rest =>
    obtain ⟨parent, depth, children⟩ := f
    cases children with
    | nil => simp only [dfsStep] at h; cases h
    | cons child cs =>
      simp only [dfsStep, bind, Except.bind, pure, Except.pure] at h
      split at h
      · split at h
        · split at h
          · rename_i e he
            cases h
            exact Fuel.frontOf_not_fuel he
          · split at h
            · cases h
            · split at h
              · rename_i e he
                cases h
                exact Fuel.keysFor_not_fuel he
              · cases h
        · cases h
      · split at h <;> cases h

/-! ## 3. enough fuel: no `.error .fuel` -/

theorem dfsRun_no_fuel_error {m : Mol} {env : Env} {opts : Opts} {groups : List (Int × Int)} {seen : List (Nat × Int)}
    (hwf : m.WF = true) : ∀ (fuel : Nat) (s : Dfs), dfsPotential m s ≤ fuel →
      dfsRun m env opts groups seen fuel s ≠ .error .fuel := by
  intro fuel
  induction fuel with
  | zero =>
    intro s hp h
    simp only [dfsRun] at h
    split at h
    · cases h
    · rename_i he
      apply he
      cases hs : s.stack with
      | nil => rfl
      | cons f rest =>
        simp only [dfsPotential, hs, List.map_cons, List.sum_cons] at hp
        omega
  | succ fuel ih =>
    intro s hp h
    simp only [dfsRun] at h
    split at h
    · cases h
    · rename_i he
      split at h
      · rename_i e hs
        cases h
        exact dfsStep_not_fuel hs
      · rename_i s' hs
        have hne : s.stack ≠ [] := by
          intro h0
          apply he
          simp [h0]
        have := dfsStep_potential hwf hne hs
        exact ih s' (by omega) h

/-! ## 4. the initial state of `traverse` -/

namespace Fuel

theorem unvisited_start_le {m : Mol} (hwf : m.WF = true) (start : Nat) (x : List Nat) (hs : start ∈ m.ids) :
    ((m.ids.filter fun a => !alHas [(start, x)] a).map fun a => (m.nbrs a).length + 1).sum +
      ((m.nbrs start).length + 1) ≤ degreeSum m + m.atoms.length := by
  have h := unv_drop (fun a => (m.nbrs a).length + 1) ([] : List (Nat × List Nat)) start x (by simp [alHas]) m.ids hs
  have e : (m.ids.filter fun a => !alHas ([] : List (Nat × List Nat)) a) = m.ids := by simp [alHas]
  rw [e] at h
  have hsum : (m.ids.map fun a => (m.nbrs a).length + 1).sum = degreeSum m + m.atoms.length := by
    rw [degreeSum_eq hwf]
    have : m.atoms.length = m.ids.length := by simp [Mol.ids]
    rw [this]
    generalize m.ids = l
    induction l with
    | nil => rfl
    | cons a tl ih => simp only [List.map_cons, List.sum_cons, List.length_cons] at ih ⊢; omega
  simp only [List.nil_append] at h
  omega

end Fuel

theorem traverse_dfs_potential_le {m : Mol} (hwf : m.WF = true) (start D c : Nat) (ch : List Nat) (dr : List (Nat × Nat))
    (hs : start ∈ m.ids) (hlen : ch.length ≤ (m.nbrs start).length) :
    dfsPotential m { stack := [{ parent := start, depth := D, children := ch }], visited := [(start, [])],
                     cycle := c, draws := dr } ≤ degreeSum m + m.atoms.length := by
  have := Fuel.unvisited_start_le hwf start [] hs
  simp only [dfsPotential, List.map_cons, List.map_nil, List.sum_cons, List.sum_nil]
  omega

theorem traverse_dfs_fuel_sufficient {m : Mol} {env : Env} {opts : Opts} {groups : List (Int × Int)}
    {seen : List (Nat × Int)} (hwf : m.WF = true) (start D c : Nat) (ch : List Nat) (dr : List (Nat × Nat))
    (hs : start ∈ m.ids) (hlen : ch.length ≤ (m.nbrs start).length) :
    dfsRun m env opts groups seen (2 * (degreeSum m + m.atoms.length) + 2)
      { stack := [{ parent := start, depth := D, children := ch }], visited := [(start, [])],
        cycle := c, draws := dr } ≠ .error .fuel := by
  apply dfsRun_no_fuel_error hwf
  have := traverse_dfs_potential_le hwf start D c ch dr hs hlen
  omega

/-! ## 5. the frame invariant (parents are atoms, children are neighbours of the parent) -/

/-- every frame's parent is an atom and its pending children are neighbours of the parent -/
def FramesOk (m : Mol) (s : Dfs) : Prop :=
  ∀ f ∈ s.stack, f.parent ∈ m.ids ∧ ∀ c ∈ f.children, c ∈ (m.nbrs f.parent).map (·.1)

namespace Fuel

theorem lookup_mem_of_some {α} : ∀ (d : List (Nat × α)) (k : Nat) (v : α), d.lookup k = some v → (k, v) ∈ d := by
  intro d
  induction d with
  | nil => intro k v h; simp at h
  | cons hd tl ih =>
    intro k v h
    obtain ⟨a, x⟩ := hd
    simp only [List.lookup_cons] at h
    split at h
    · rename_i hka
      have : k = a := by simpa using hka
      subst this
      cases h; simp
    · exact List.mem_cons_of_mem _ (ih k v h)

/-- neighbour keys of a well-formed molecule are distinct atoms -/
theorem wf_nbr_keys {m : Mol} (h : m.WF = true) (a : Nat) :
    ((m.nbrs a).map (·.1)).Nodup ∧ ∀ k ∈ (m.nbrs a).map (·.1), k ∈ m.ids := by
  simp only [Mol.nbrs]
  cases hl : m.adj.lookup a with
  | none => simp
  | some ms =>
    have hmem := lookup_mem_of_some m.adj a ms hl
    simp only [Mol.WF, Bool.and_eq_true, List.all_eq_true, decide_eq_true_eq] at h
    have h2 := h.2 (a, ms) hmem
    simp only at h2
    refine ⟨by simpa using h2.1, ?_⟩
    intro k hk
    simp only [Option.getD_some, List.mem_map] at hk
    obtain ⟨⟨k', b⟩, hkb, rfl⟩ := hk
    have h3 := h2.2 (k', b) hkb
    simp only [bne_iff_ne, ne_eq, beq_iff_eq] at h3
    have := h3.1.2
    simp only [Mol.hasAtom, List.any_eq_true, beq_iff_eq] at this
    obtain ⟨x, hx, rfl⟩ := this
    exact List.mem_map.2 ⟨x, hx, rfl⟩

theorem want_eq_filter (l : List (Nat × Bond)) (q : Nat → Bool) :
    (l.filterMap fun (p : Nat × Bond) => if q p.1 then none else some p.1) = (l.map (·.1)).filter (fun k => !q k) := by
  induction l with
  | nil => rfl
  | cons hd tl ih =>
    obtain ⟨k, b⟩ := hd
    simp only [List.filterMap_cons, List.map_cons, List.filter_cons]
    cases q k <;> simp [ih]

theorem frontOf_mem {m : Mol} {env : Env} {opts : Opts} {child parent : Nat} {l : List Nat} (hwf : m.WF = true)
    (h : frontOf m env opts child parent = .ok l) : ∀ x ∈ l, x ∈ (m.nbrs child).map (·.1) := by
  have hw := want_eq_filter (m.nbrs child) (fun k => k == parent)
  have hnd : (((m.nbrs child).map (·.1)).filter (fun k => !(k == parent))).Nodup :=
    (wf_nbr_keys hwf child).1.sublist List.filter_sublist
  have hsub : ∀ x ∈ ((m.nbrs child).map (·.1)).filter (fun k => !(k == parent)), x ∈ (m.nbrs child).map (·.1) :=
    fun x hx => (List.mem_filter.1 hx).1
  unfold frontOf at h
  simp only at h
  rw [hw] at h
  split at h
  · cases h; exact hsub
  · split at h
    · split at h
      · rename_i hc
        cases h
        simp only [Bool.and_eq_true, beq_iff_eq, List.all_eq_true, List.contains_iff_mem] at hc
        have hp : (((m.nbrs child).map (·.1)).filter (fun k => !(k == parent))).Perm l :=
          (List.subperm_of_subset hnd (fun x hx => hc.2 x hx)).perm_of_length_le (by omega)
        intro x hx
        exact hsub x (hp.mem_iff.2 hx)
      · cases h
    · split at h
      · cases h; exact hsub
      · cases h

theorem mapM_except_fst {ε} (F : Nat → Except ε (Nat × Key)) (hF : ∀ n r, F n = .ok r → r.1 = n) :
    ∀ (cands : List Nat) (ks : List (Nat × Key)), cands.mapM F = .ok ks → ks.map (·.1) = cands := by
  intro cands
  induction cands with
  | nil => intro ks h; simp [pure, Except.pure] at h; subst h; rfl
  | cons c tl ih =>
    intro ks h
    simp only [List.mapM_cons, bind, Except.bind, pure, Except.pure] at h
    split at h
    · cases h
    · rename_i v hv
      split at h
      · cases h
      · rename_i ks' hks'
        cases h
        simp [ih ks' hks', hF c v hv]

theorem keysFor_mem {env : Env} {opts : Opts} {groups seen useSeen draws} {cands : List Nat} {ks draws'}
    (h : keysFor env opts groups seen useSeen draws cands = .ok (ks, draws')) : ∀ p ∈ ks, p.1 ∈ cands := by
  unfold keysFor at h
  split at h
  · unfold takeDraws at h
    simp only at h
    split at h
    · rename_i hcond
      cases h
      simp only [Bool.and_eq_true, beq_iff_eq, List.all_eq_true, List.contains_iff_mem, List.any_eq_true] at hcond
      intro p hp
      obtain ⟨q, hq, rfl⟩ := List.mem_map.1 hp
      exact hcond.1.2 q hq
    · cases h
  · simp only [bind, Except.bind, pure, Except.pure] at h
    split at h
    · cases h
    · rename_i ks0 hks
      cases h
      have := mapM_except_fst _ ?_ cands ks hks
      · intro p hp
        rw [← this]
        exact List.mem_map.2 ⟨p, hp, rfl⟩
      · intro n r hr
        split at hr
        · cases hr
        · split at hr
          · split at hr
            · cases hr
            · cases hr; rfl
          · cases hr; rfl

end Fuel

theorem dfsStep_frames {m : Mol} {env : Env} {opts : Opts} {groups : List (Int × Int)} {seen : List (Nat × Int)}
    {s s' : Dfs} (hwf : m.WF = true) (hinv : FramesOk m s)
    (h : dfsStep m env opts groups seen s = .ok s') : FramesOk m s' := by
  obtain ⟨stack, visited, edges, disc, cycle, tokens, draws⟩ := s
  cases stack with
  | nil => simp only [dfsStep] at h; cases h; exact hinv
  | cons f rest =>
    obtain ⟨parent, depth, children⟩ := f
    have hrest : ∀ f ∈ rest, f.parent ∈ m.ids ∧ ∀ c ∈ f.children, c ∈ (m.nbrs f.parent).map (·.1) :=
      fun f hf => hinv f (List.mem_cons_of_mem _ hf)
    have htop := hinv _ List.mem_cons_self
    simp only at htop
    cases children with
    | nil =>
      simp only [dfsStep] at h
      cases h
      exact hrest
    | cons child cs =>
      have hpop : ∀ f ∈ ({ parent := parent, depth := depth, children := cs } : Frame) :: rest,
          f.parent ∈ m.ids ∧ ∀ c ∈ f.children, c ∈ (m.nbrs f.parent).map (·.1) := by
        intro f hf
        cases hf with
        | head => exact ⟨htop.1, fun c hc => htop.2 c (List.mem_cons_of_mem _ hc)⟩
        | tail _ hf => exact hrest f hf
      simp only [dfsStep, bind, Except.bind, pure, Except.pure] at h
      split at h
      · split at h
        · split at h
          · cases h
          · rename_i front hfront
            split at h
            · cases h; exact hpop
            · split at h
              · cases h
              · rename_i x hx
                cases h
                intro f hf
                cases hf with
                | head =>
                  refine ⟨(Fuel.wf_nbr_keys hwf parent).2 child (htop.2 child List.mem_cons_self), ?_⟩
                  intro c hc
                  obtain ⟨p, hp, rfl⟩ := List.mem_map.1 hc
                  have hp' : p ∈ x.1 := (sortBy_perm _ x.1).mem_iff.1 hp
                  exact Fuel.frontOf_mem hwf hfront _ (Fuel.keysFor_mem (ks := x.1) (draws' := x.2) hx p hp')
                | tail _ hf => exact hpop f hf
        · cases h; exact hpop
      · split at h <;> · cases h; exact hpop

/-- the form asked for: potential drop and invariant together -/
theorem dfsStep_potential_frames {m : Mol} {env : Env} {opts : Opts} {groups : List (Int × Int)} {seen : List (Nat × Int)}
    {s s' : Dfs} (hwf : m.WF = true) (hne : s.stack ≠ []) (hinv : FramesOk m s)
    (h : dfsStep m env opts groups seen s = .ok s') : dfsPotential m s' + 1 ≤ dfsPotential m s ∧ FramesOk m s' :=
  ⟨dfsStep_potential hwf hne h, dfsStep_frames hwf hinv h⟩

theorem dfsRun_frames {m : Mol} {env : Env} {opts : Opts} {groups : List (Int × Int)} {seen : List (Nat × Int)}
    (hwf : m.WF = true) : ∀ (fuel : Nat) (s r : Dfs), FramesOk m s →
      dfsRun m env opts groups seen fuel s = .ok r → FramesOk m r := by
  intro fuel
  induction fuel with
  | zero =>
    intro s r hinv h
    simp only [dfsRun] at h
    split at h
    · cases h; exact hinv
    · cases h
  | succ fuel ih =>
    intro s r hinv h
    simp only [dfsRun] at h
    split at h
    · cases h; exact hinv
    · split at h
      · cases h
      · rename_i s' hs
        exact ih s' r (dfsStep_frames hwf hinv hs) h

/-! ## 6. no hypothesis on the start atom; the BFS fuel; `traverse` -/

namespace Fuel

theorem unvisited_le_total {m : Mol} (hwf : m.WF = true) (vis : List (Nat × List Nat)) :
    ((m.ids.filter fun a => !alHas vis a).map fun a => (m.nbrs a).length + 1).sum ≤ degreeSum m + m.atoms.length := by
  have h := filter_sum_mono (fun a => (m.nbrs a).length + 1) (fun _ => true) (fun a => !alHas vis a)
    (fun _ _ => rfl) m.ids
  have hsum : (m.ids.map fun a => (m.nbrs a).length + 1).sum = degreeSum m + m.atoms.length := by
    rw [degreeSum_eq hwf]
    have : m.atoms.length = m.ids.length := by simp [Mol.ids]
    rw [this]
    generalize m.ids = l
    induction l with
    | nil => rfl
    | cons a tl ih => simp only [List.map_cons, List.sum_cons, List.length_cons] at ih ⊢; omega
  simp only [List.filter_true] at h
  omega

end Fuel

/-- the bound of `traverse` holds whatever the start atom is -/
theorem traverse_dfs_fuel_sufficient' {m : Mol} {env : Env} {opts : Opts} {groups : List (Int × Int)}
    {seen : List (Nat × Int)} (hwf : m.WF = true) (start D c : Nat) (ch : List Nat) (dr : List (Nat × Nat))
    (hlen : ch.length ≤ (m.nbrs start).length) :
    dfsRun m env opts groups seen (2 * (degreeSum m + m.atoms.length) + 2)
      { stack := [{ parent := start, depth := D, children := ch }], visited := [(start, [])],
        cycle := c, draws := dr } ≠ .error .fuel := by
  apply dfsRun_no_fuel_error hwf
  have h1 := Fuel.unvisited_le_total hwf [(start, ([] : List Nat))]
  have h2 := Fuel.nbrs_length_le_degreeSum m start
  simp only [dfsPotential, List.map_cons, List.map_nil, List.sum_cons, List.sum_nil]
  omega

namespace Fuel

/-- number of atoms without a BFS distance yet -/
def unseen (m : Mol) (seen : List (Nat × Int)) : Nat :=
  ((m.ids.filter fun a => !alHas seen a).map fun _ => 1).sum

theorem fresh_drop (l : List Nat) (d : Int) : ∀ (F : List Nat) (seen : List (Nat × Int)), F.Nodup →
    (∀ k ∈ F, k ∈ l) → (∀ k ∈ F, alHas seen k = false) →
    ((l.filter fun a => !alHas (seen ++ F.map (·, d)) a).map fun _ => 1).sum + F.length
      ≤ ((l.filter fun a => !alHas seen a).map fun _ => 1).sum := by
  intro F
  induction F with
  | nil => intro seen _ _ _; simp
  | cons c F' ih =>
    intro seen hnd hl hs
    have hnd' := List.nodup_cons.1 hnd
    have e : seen ++ (c :: F').map (·, d) = (seen ++ [(c, d)]) ++ F'.map (·, d) := by simp
    rw [e]
    have h1 := ih (seen ++ [(c, d)]) hnd'.2 (fun k hk => hl k (List.mem_cons_of_mem _ hk)) (by
      intro k hk
      rw [alHas_snoc, hs k (List.mem_cons_of_mem _ hk)]
      have : c ≠ k := fun e => hnd'.1 (e ▸ hk)
      simpa using this)
    have h2 := unv_drop (fun _ => 1) seen c d (hs c List.mem_cons_self) l (hl c List.mem_cons_self)
    simp only [List.length_cons]
    omega

theorem bfs_no_fuel {m : Mol} (hwf : m.WF = true) : ∀ (fuel : Nat) (queue seen : List (Nat × Int)),
    queue.length + unseen m seen ≤ fuel → bfs m fuel queue seen ≠ .error .fuel := by
  intro fuel
  induction fuel with
  | zero =>
    intro queue seen hp h
    cases queue with
    | nil => simp [bfs] at h
    | cons q tl => simp at hp
  | succ fuel ih =>
    intro queue seen hp h
    cases queue with
    | nil => simp [bfs] at h
    | cons q tl =>
      obtain ⟨n, d⟩ := q
      simp only [bfs] at h
      refine ih _ _ ?_ h
      have hw := want_eq_filter (m.nbrs n) (fun k => alHas seen k)
      rw [hw]
      have hk := wf_nbr_keys hwf n
      have hd := fresh_drop m.ids d (((m.nbrs n).map (·.1)).filter fun k => !alHas seen k) seen
        (hk.1.sublist List.filter_sublist)
        (fun k hk' => hk.2 k (List.mem_filter.1 hk').1)
        (fun k hk' => by simpa using (List.mem_filter.1 hk').2)
      simp only [unseen, List.length_append, List.length_map, List.length_cons] at hp hd ⊢
      omega

theorem unseen_le (m : Mol) (seen : List (Nat × Int)) : unseen m seen ≤ m.atoms.length := by
  have h := filter_sum_mono (fun _ => 1) (fun _ => true) (fun a => !alHas seen a) (fun _ _ => rfl) m.ids
  have : ((m.ids).map fun _ => 1).sum = m.atoms.length := by
    simp only [Mol.ids]
    generalize m.atoms = l
    induction l with
    | nil => rfl
    | cons a tl ih => simp only [List.map_cons, List.sum_cons, List.length_cons] at ih ⊢; omega
  simp only [List.filter_true] at h
  simp only [unseen]
  omega

end Fuel

/-- the BFS of `traverse` has enough fuel -/
theorem bfs_no_fuel_error {m : Mol} (hwf : m.WF = true) (start : Nat) (d : Int) (seen : List (Nat × Int)) :
    bfs m (m.atoms.length + 1) [(start, d)] seen ≠ .error .fuel := by
  apply Fuel.bfs_no_fuel hwf
  have := Fuel.unseen_le m seen
  simp only [List.length_cons, List.length_nil]
  omega

namespace Fuel

theorem bind_error {ε α β} {x : Except ε α} {f : α → Except ε β} {e : ε} (h : x >>= f = .error e) :
    x = .error e ∨ ∃ a, x = .ok a ∧ f a = .error e := by
  cases x with
  | error e' =>
    left
    simpa [bind, Except.bind] using h
  | ok a => exact Or.inr ⟨a, rfl, h⟩

end Fuel

/-- the first half of a writer round never runs out of fuel on a well-formed molecule -/
theorem traverse_no_fuel_error {m : Mol} {env : Env} {opts : Opts} {groups : List (Int × Int)} (hwf : m.WF = true)
    (g : Global) : traverse m env opts groups g ≠ .error .fuel := by
  intro h
  unfold traverse at h
  extract_lets nA jpIter at h
  have hjp : ∀ iter, jpIter iter ≠ .error .fuel := by
    intro iter h
    simp -zeta only [jpIter] at h
    rcases Fuel.bind_error h with h | ⟨⟨ks, draws1⟩, _, h⟩
    · exact Fuel.keysFor_not_fuel h
    simp -zeta only at h
    extract_lets jpStart at h
    have hjs : ∀ start, jpStart start ≠ .error .fuel := by
      intro start h
      simp -zeta only [jpStart] at h
      extract_lets jpSeen at h
      have hjn : ∀ seen, jpSeen seen ≠ .error .fuel := by
        intro seen h
        simp -zeta only [jpSeen] at h
        rcases Fuel.bind_error h with h | ⟨⟨ks0, draws2⟩, hk, h⟩
        · exact Fuel.keysFor_not_fuel h
        simp only at h
        rcases Fuel.bind_error h with h | ⟨d, _, h⟩
        · refine traverse_dfs_fuel_sufficient' hwf _ _ _ _ _ ?_ h
          rw [Fuel.sortKeyed_map_length, Fuel.keysFor_length hk, List.length_map]
          exact Nat.le_refl _
        · simp [pure, Except.pure] at h
      split at h
      · exact hjn _ h
      · rcases Fuel.bind_error h with h | ⟨seen, _, h⟩
        · exact bfs_no_fuel_error hwf _ _ _ h
        · exact hjn _ h
    split at h
    · exact hjs _ h
    · simp [bind, Except.bind] at h
  split at h
  · exact hjp _ h
  · split at h
    · split at h
      · exact hjp _ h
      · simp [bind, Except.bind] at h
    · split at h
      · exact hjp _ h
      · simp [bind, Except.bind] at h

end ChythonModel.Proofs.C02
