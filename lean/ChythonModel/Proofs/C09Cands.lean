import ChythonModel.Proofs.C09Transport
namespace ChythonModel.Proofs.C09
open ChythonModel.Model.Bits ChythonModel.Gen.Bits ChythonModel.Model.Query ChythonModel.Model

/-- the environment of the reference matcher for one component and one candidate target component -/
def envOfP (q : LQuery) (m : LMol) (cl : Iso.Closures) (lq : List Iso.Step) (cand : List Nat) : Iso.Env :=
  { lq := lq, cl := cl, oAtoms := m.ids, t := m.graph, scope := fun n => cand.contains n,
    atomOk := atomOkPy q m, bondOk := bondOkPy q m }

/-- everything the transport needs about one (query component, molecule) pair and its two buffers -/
structure Ctx (q : LQuery) (m : LMol) (cl : Iso.Closures) (lq : List Iso.Step) (cm : CMol) (cq : CQuery) : Prop where
  hm : MolOK m
  hq : QueryOK q
  hme : encStructure m = .ok cm
  hqe : encComponent q cl lq = .ok cq
  hF : (lq.map (·.front)).Nodup
  hcl : (cl.map (·.1)).Nodup
  hcomp : ChythonModel.Proofs.C07.CompOK q.graph cl lq

theorem Ctx.natoms {q m cl lq cm cq} (c : Ctx q m cl lq cm cq) : cm.atoms.length = m.atoms.length :=
  (encStructure_layout m cm c.hme c.hm.keys c.hm.nodup).1

theorem Ctx.nq {q m cl lq cm cq} (c : Ctx q m cl lq cm cq) : cq.atoms.length = lq.length :=
  (encComponent_layout q cl lq cq c.hqe c.hF c.hcl).1

/-- every atom index has an encoded bond row -/
theorem Ctx.row {q m cl lq cm cq} (c : Ctx q m cl lq cm cq) (i : Nat) (hi : i < m.atoms.length) :
    ∃ ca row, cm.atoms[i]? = some ca ∧ slice? cm.bonds ca.from_ ca.to_ = some row := by
  obtain ⟨_, hlay⟩ := encStructure_layout m cm c.hme c.hm.keys c.hm.nodup
  obtain ⟨n, a, ms, h1, h2⟩ := mol_row m c.hm.keys i hi
  obtain ⟨ca, _, _, bs, g1, _, _, _, _, _, g7⟩ := hlay i n a ms h1 h2
  exact ⟨ca, bs, g1, g7⟩

theorem getLast_map {α β} (f : α → β) (l : List α) : (l.map f).getLast? = l.getLast?.map f := by
  induction l with
  | nil => rfl
  | cons a l ih =>
    cases l with
    | nil => rfl
    | cons b l => simp only [List.map_cons, List.getLast?_cons_cons] at ih ⊢; exact ih


theorem atomOkPy_eq (q : LQuery) (m : LMol) (u x : Nat) (qa : QAtom) (a : MAtom) (h1 : q.atom? u = some qa)
    (h2 : m.atom? x = some a) : atomOkPy q m u x = pyEq qa a := by
  simp only [atomOkPy, h1, h2]

/-- **candidates, index level vs number level**: one expansion step of the reference search on the decoded buffers yields, renumbered,
    what one expansion step of `_get_mapping` yields -/
theorem cands_transport {q : LQuery} {m : LMol} {cl : Iso.Closures} {lq : List Iso.Step} {cm : CMol} {cq : CQuery}
    (c : Ctx q m cl lq cm cq) (cand : List Nat) (d : Nat) (path' : List Nat)
    (hlt : ∀ x ∈ path', x < m.atoms.length) (hlen : path'.length = d + 1) :
    candsOfP (envOfP q m cl lq cand) d (path'.map (numOf m)) =
      (candsOfR (decodeOf q m lq) cm cq (scopeArray m cand) d path').map (List.map (numOf m)) := by
  have hN := c.natoms
  have hL := c.nq
  have hinj : ∀ a b, a < m.atoms.length → b < m.atoms.length → numOf m a = numOf m b → a = b :=
    fun a b ha hb h => numOf_inj m c.hm.nodup a b ha hb h
  -- last element of the path
  cases hlast : path'.getLast? with
  | none =>
    have : path' = [] := List.getLast?_eq_none_iff.mp hlast
    rw [this] at hlen; simp at hlen
  | some n =>
    have hnmem : n ∈ path' := List.mem_of_getLast? hlast
    have hnlt := hlt n hnmem
    unfold candsOfP candsOfR
    rw [getLast_map, hlast]
    simp only [Option.map_some, show ¬ (n ≥ cm.atoms.length) by omega, if_false]
    unfold expandP expandR
    simp only [envOfP]
    cases hnx : lq[d + 1]? with
    | none =>
      have : cq.atoms[d + 1]? = none := by
        rw [List.getElem?_eq_none_iff] at hnx ⊢; omega
      rw [this]
      cases lq[d]? <;> rfl
    | some nxt =>
      have hdl : d + 1 < lq.length := (List.getElem?_eq_some_iff.mp hnx).1
      have hcur : lq[d]? = some lq[d] := List.getElem?_eq_getElem (by omega)
      obtain ⟨qa, back, qb, g1, g2, g3, g4, g5, g6, g7, g8, g9⟩ :=
        comp_step q m cl lq cq c.hq c.hqe c.hF c.hcl c.hcomp d nxt hnx
      rw [hcur, g1]
      simp only [g2]
      -- the parent: same position in the path on both levels
      have hFback : (lq.map (·.front))[qa.back]? = some back := by
        rw [orderDepth_eq_indexOf] at g3; exact indexOf_get _ _ _ g3
      have hFd : (lq.map (·.front))[d]? = some (lq[d]).front := by simp [hcur]
      have hcond : (back != (lq[d]).front) = (qa.back != d) := by
        by_cases hb : qa.back = d
        · rw [hb] at hFback; rw [hFd] at hFback
          have h2 := Option.some.inj hFback
          have e1 : (back != (lq[d]).front) = false := by simp [bne, h2]
          have e2 : (qa.back != d) = false := by simp [bne, hb]
          rw [e1, e2]
        · have h2 : back ≠ (lq[d]).front := by
            intro e
            rw [e] at hFback
            obtain ⟨l1, e1⟩ := List.getElem?_eq_some_iff.mp hFback
            obtain ⟨l2, e2⟩ := List.getElem?_eq_some_iff.mp hFd
            exact hb ((List.Nodup.getElem_inj_iff c.hF).mp (e1.trans e2.symm))
          have e1 : (back != (lq[d]).front) = true := by simp [bne, h2]
          have e2 : (qa.back != d) = true := by simp [bne, hb]
          rw [e1, e2]
      have himg : Iso.img lq (path'.map (numOf m)) back = (path'[qa.back]?).map (numOf m) := by
        unfold Iso.img; simp [g3]
      have hn'eq : (if back != (lq[d]).front then Iso.img lq (path'.map (numOf m)) back else some (numOf m n)) =
          (if qa.back != d then path'[qa.back]? else some n).map (numOf m) := by
        rw [hcond, himg]; split <;> rfl
      rw [hn'eq]
      cases hn' : (if qa.back != d then path'[qa.back]? else some n) with
      | none => rfl
      | some n' =>
        simp only [Option.map_some]
        have hn'mem : n' ∈ path' := by
          by_cases hb : (qa.back != d) = true
          · simp only [hb, if_true] at hn'; exact List.mem_of_getElem? hn'
          · simp only [hb, Bool.false_eq_true, if_false] at hn'; obtain rfl := Option.some.inj hn'; exact hnmem
        have hn'lt := hlt n' hn'mem
        obtain ⟨nAtom, row, hna, hrow⟩ := c.row n' hn'lt
        rw [hna]; simp only
        rw [hrow]; simp only
        obtain ⟨hnbrs, hrowlt⟩ := mol_nbrs m cm c.hm c.hme n' nAtom row hna hrow
        obtain ⟨hwant, hclo⟩ := closure_transport q m lq cl cm cq c.hm c.hme d nxt qa qb g7 g8 g9 path' hlt hlen
        -- number level as a filter (C07)
        have hP := ChythonModel.Proofs.C07.candidates_eq (envOfP q m cl lq cand) nxt back (numOf m n') (path'.map (numOf m))
          (wantOf m qb path') (by simp [envOfP]; omega) hwant ((envOfP q m cl lq cand).t.nbrs (numOf m n'))
        simp only [envOfP] at hP
        have hmz : mappingOf lq (path'.map (numOf m)) = (lq.map (·.front)).zip (path'.map (numOf m)) := rfl
        have hrz : rmappingOf lq (path'.map (numOf m)) = (path'.map (numOf m)).zip (lq.map (·.front)) := rfl
        rw [hmz, hrz, hP]
        -- index level as a filter
        have hR := candidatesR_filter (decodeOf q m lq) cm cq (scopeArray m cand) (d + 1) qa n' (ind cm.atoms.length path') path'
          (fun i => cand.contains (numOf m i)) (fun i => path'.contains i)
          (fun ib => Iso.setEq (((m.graph.nbrs (numOf m ib.index)).filter fun y => (path'.map (numOf m)).contains y).filter
              (· != numOf m n')) (wantOf m qb path') &&
            ((Iso.Closures.get cl nxt.front).zip (wantOf m qb path')).all fun (mq, y) => bondOkPy q m nxt.front mq (numOf m ib.index) y)
          row (by
            intro ib hib
            have hil := hrowlt ib hib
            obtain ⟨mAtom, nb, hma, hnb⟩ := c.row ib.index hil
            exact ⟨mAtom, hma, scopeArray_get m cand ib.index hil, by rw [hN]; exact ind_get _ _ _ hil,
              hclo ib.index n' mAtom nb hil hn'lt hma hnb⟩)
        rw [hR]
        simp only [Option.map_some, Option.some.injEq]
        rw [hnbrs]
        have : (row.map fun ib => numOf m ib.index) = (row.map (·.index)).map (numOf m) := by rw [List.map_map]; rfl
        rw [this, filter_map_comm, List.map_map, filter_map_comm, List.map_map]
        congr 1
        apply List.filter_congr
        intro ib hib
        have hil := hrowlt ib hib
        simp only [Function.comp, ChythonModel.Proofs.C07.childPred]
        rw [contains_map_inj (numOf m) m.atoms.length hinj path' hlt ib.index hil,
          bondOkPy_eq q m back nxt.front (numOf m n') (numOf m ib.index) _ _ g6
            (mol_bond q m lq cm c.hm c.hme n' nAtom row hna hrow ib hib),
          atomOkPy_eq q m nxt.front (numOf m ib.index) _ _ g5 (mol_atom q m lq c.hm ib.index hil)]
        simp only [refNext]
        cases cand.contains (numOf m ib.index) <;> cases path'.contains ib.index <;>
          cases pyEq ((decodeOf q m lq).qat (d + 1)) ((decodeOf q m lq).mat ib.index) <;>
          cases bondEq ((decodeOf q m lq).qbd (d + 1)) ((decodeOf q m lq).mbd n' ib.index) <;> simp

end ChythonModel.Proofs.C09
