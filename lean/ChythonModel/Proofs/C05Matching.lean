import ChythonModel.Proofs.C05Sound
/-!
# C05 — `checkMatching` is sound: the new double bonds of an accepted Kekulé form are a matching that covers the
acceptor atoms and avoids the fixed-single atoms
-/
namespace ChythonModel.Proofs.C05
open ChythonModel.Model ChythonModel.Model.Valence ChythonModel.Spec.Kekule

theorem all2_and {α β : Type} {f g : α → β → Bool} :
    ∀ {xs : List α} {ys : List β}, all2 f xs ys = true → all2 g xs ys = true →
      all2 (fun x y => f x y && g x y) xs ys = true := by
  intro xs
  induction xs with
  | nil => intro ys h _; rw [all2_nil_left h]; rfl
  | cons x xs ih =>
    intro ys h1 h2
    obtain ⟨y, ys', rfl, hf, hr⟩ := all2_cons h1
    simp only [all2, Bool.and_eq_true] at h2 ⊢
    exact ⟨⟨hf, h2.1⟩, ih hr h2.2⟩

/-- aligned rows: a neighbour whose bond went 4 → 2 (by look-up) is listed by `newDoubles` -/
theorem newDoubles_mem :
    ∀ {ms ms' : List (Nat × Bond)}, all2 (fun p q => bondOk p q) ms ms' = true →
      ∀ {m : Nat} {b b' : Bond}, ms.lookup m = some b → b.order = 4 → ms'.lookup m = some b' → b'.order = 2 →
        m ∈ newDoubles ms ms' := by
  intro ms
  induction ms with
  | nil => intro ms' _ m b b' hl; simp at hl
  | cons p ps ih =>
    intro ms' h m b b' hl hb hl' hb'
    obtain ⟨q, qs, rfl, hpq, hrest⟩ := all2_cons h
    have hkey := bondOk_key p q hpq
    obtain ⟨pk, pb⟩ := p
    obtain ⟨qk, qb⟩ := q
    simp only at hkey
    subst hkey
    by_cases hm : m = pk
    · subst hm
      simp only [List.lookup_cons_self, Option.some.injEq] at hl hl'
      subst hl; subst hl'
      simp [newDoubles, hb, hb']
    · have hne : (m == pk) = false := by simpa using hm
      rw [List.lookup_cons, hne] at hl hl'
      have := ih hrest hl hb hl' hb'
      unfold newDoubles
      split
      · exact List.mem_cons_of_mem _ this
      · exact this

/-- conversely, with unique neighbour keys, a listed neighbour really went 4 → 2 -/
theorem newDoubles_spec :
    ∀ {ms ms' : List (Nat × Bond)}, all2 (fun p q => bondOk p q) ms ms' = true → (ms.map (·.1)).Nodup →
      ∀ {m : Nat}, m ∈ newDoubles ms ms' →
        ∃ b b', ms.lookup m = some b ∧ b.order = 4 ∧ ms'.lookup m = some b' ∧ b'.order = 2 := by
  intro ms
  induction ms with
  | nil => intro ms' _ _ m hm; simp [newDoubles] at hm
  | cons p ps ih =>
    intro ms' h hnd m hm
    obtain ⟨q, qs, rfl, hpq, hrest⟩ := all2_cons h
    have hkey := bondOk_key p q hpq
    obtain ⟨pk, pb⟩ := p
    obtain ⟨qk, qb⟩ := q
    simp only at hkey
    subst hkey
    simp only [List.map_cons, List.nodup_cons] at hnd
    have tail : m ∈ newDoubles ps qs → ∃ b b', ((pk, pb) :: ps).lookup m = some b ∧ b.order = 4 ∧
        ((pk, qb) :: qs).lookup m = some b' ∧ b'.order = 2 := by
      intro hm'
      obtain ⟨b, b', h1, h2, h3, h4⟩ := ih hrest hnd.2 hm'
      have hne : m ≠ pk := by
        intro e
        subst e
        exact hnd.1 (List.mem_map.mpr ⟨(m, b), mem_of_lookup h1, rfl⟩)
      have hne' : (m == pk) = false := by simpa using hne
      exact ⟨b, b', by rw [List.lookup_cons, hne']; exact h1, h2, by rw [List.lookup_cons, hne']; exact h3, h4⟩
    unfold newDoubles at hm
    split at hm
    · rename_i hc
      simp only [Bool.and_eq_true, beq_iff_eq] at hc
      rcases List.mem_cons.mp hm with rfl | hm'
      · exact ⟨pb, qb, by simp, hc.1, by simp, hc.2⟩
      · exact tail hm'
    · exact tail hm

theorem lookup_of_any_key {α : Type} {l : List (Nat × α)} {n : Nat} (h : l.any (·.1 == n) = true) :
    ∃ v, l.lookup n = some v := by
  induction l with
  | nil => simp at h
  | cons x xs ih =>
    obtain ⟨xk, xv⟩ := x
    by_cases hk : n = xk
    · subst hk; exact ⟨xv, by simp⟩
    · have hne : (n == xk) = false := by simpa using hk
      simp only [List.any_cons, Bool.or_eq_true, beq_iff_eq] at h
      rcases h with h | h
      · exact absurd h.symm hk
      · obtain ⟨v, hv⟩ := ih h
        exact ⟨v, by rw [List.lookup_cons, hne]; exact hv⟩

theorem mem_of_len_le_one {α : Type} {l : List α} (h : l.length ≤ 1) {x y : α} (hx : x ∈ l) (hy : y ∈ l) : x = y := by
  match l, h with
  | [], _ => cases hx
  | [z], _ =>
    rw [List.mem_singleton] at hx hy
    rw [hx, hy]

/-- the per-row facts `checkMatching` establishes, for the row of atom `n` -/
theorem row_facts {a k : Mol} {must never : List Nat} (hb : checkBonds a k = true)
    (hm : checkMatching a k must never = true) {n : Nat} {ms : List (Nat × Bond)} (hl : a.adj.lookup n = some ms) :
    ∃ ms', k.adj.lookup n = some ms' ∧ all2 (fun p q => bondOk p q) ms ms' = true ∧
      rowMatch must never (n, ms) (n, ms') = true ∧ (ms.map (·.1)).Nodup := by
  unfold checkBonds at hb
  unfold checkMatching at hm
  simp only [Bool.and_eq_true, decide_eq_true_eq, List.all_eq_true] at hm
  obtain ⟨⟨⟨hrm, hnd⟩, _⟩, _⟩ := hm
  have hboth := all2_and hb hrm
  obtain ⟨ms', hms', hf⟩ := lookup_all2 (f := fun r s => rowOk r s && rowMatch must never r s)
    (fun r s h => by simp only [Bool.and_eq_true] at h; exact rowOk_key r s h.1) hboth hl
  simp only [Bool.and_eq_true] at hf
  exact ⟨ms', hms', rowOk_rows n ms ms' hf.1, hf.2, hnd (n, ms) (mem_of_lookup hl)⟩

theorem newDouble_mem {a k : Mol} {n m : Nat} {ms ms' : List (Nat × Bond)} (hl : a.adj.lookup n = some ms)
    (hl' : k.adj.lookup n = some ms') (hal : all2 (fun p q => bondOk p q) ms ms' = true) (h : NewDouble a k n m) :
    m ∈ newDoubles ms ms' := by
  obtain ⟨b, b', h1, h2, h3, h4⟩ := h
  unfold Mol.bond? at h1 h3
  rw [nbrs_of_lookup hl] at h1
  rw [nbrs_of_lookup hl'] at h3
  exact newDoubles_mem hal h1 h2 h3 h4

theorem checkMatching_sound (a k : Mol) (must never : List Nat) (hb : checkBonds a k = true)
    (hm : checkMatching a k must never = true) : IsMatchingOn a k must never := by
  refine ⟨?_, ?_, ?_⟩
  · intro n m m' h1 h2
    have ⟨b, _, hb1, _, _, _⟩ := h1
    cases hl : a.adj.lookup n with
    | none => unfold Mol.bond? at hb1; simp [Mol.nbrs, hl] at hb1
    | some ms =>
      obtain ⟨ms', hl', hal, hrow, _⟩ := row_facts hb hm hl
      have i1 := newDouble_mem hl hl' hal h1
      have i2 := newDouble_mem hl hl' hal h2
      unfold rowMatch at hrow
      simp only [Bool.and_eq_true, decide_eq_true_eq] at hrow
      exact mem_of_len_le_one hrow.1.1 i1 i2
  · intro n hn
    have hm' := hm
    unfold checkMatching at hm'
    simp only [Bool.and_eq_true, List.all_eq_true] at hm'
    obtain ⟨ms, hl⟩ := lookup_of_any_key (hm'.2 n hn)
    obtain ⟨ms', hl', hal, hrow, hnd⟩ := row_facts hb hm hl
    unfold rowMatch at hrow
    simp only [Bool.and_eq_true, Bool.or_eq_true, Bool.not_eq_true', beq_iff_eq] at hrow
    have hc : must.contains n = true := List.contains_iff_mem.mpr hn
    have hd : (newDoubles ms ms').length = 1 := by
      rcases hrow.1.2 with h | h
      · rw [hc] at h; cases h
      · exact h
    match hnd2 : newDoubles ms ms', hd with
    | [m], _ =>
      obtain ⟨b, b', h1, h2, h3, h4⟩ := newDoubles_spec hal hnd (m := m) (by rw [hnd2]; exact List.mem_singleton.mpr rfl)
      refine ⟨m, b, b', ?_, h2, ?_, h4⟩
      · unfold Mol.bond?; rw [nbrs_of_lookup hl]; exact h1
      · unfold Mol.bond?; rw [nbrs_of_lookup hl']; exact h3
  · intro n hn m h
    have ⟨b, _, hb1, _, _, _⟩ := h
    cases hl : a.adj.lookup n with
    | none => unfold Mol.bond? at hb1; simp [Mol.nbrs, hl] at hb1
    | some ms =>
      obtain ⟨ms', hl', hal, hrow, _⟩ := row_facts hb hm hl
      have i1 := newDouble_mem hl hl' hal h
      unfold rowMatch at hrow
      simp only [Bool.and_eq_true, Bool.or_eq_true, Bool.not_eq_true', beq_iff_eq] at hrow
      have hc : never.contains n = true := List.contains_iff_mem.mpr hn
      rcases hrow.2 with h0 | h0
      · rw [hc] at h0; cases h0
      · rw [List.length_eq_zero_iff] at h0
        rw [h0] at i1
        cases i1

end ChythonModel.Proofs.C05
