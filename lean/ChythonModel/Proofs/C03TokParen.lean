import ChythonModel.Proofs.C03Tokenize
import ChythonModel.Proofs.C03Reject
/-!
# C03 — `_tokenize` never emits `(` directly followed by `(` or `)` (helper lemmas)
-/
set_option linter.unusedSimpArgs false
namespace ChythonModel.Proofs.C03
open ChythonModel.Model.C03 ChythonModel.Gen.C03

def isOpen (t : RTok) : Bool := t.ty == 2
def isParen (t : RTok) : Bool := t.ty == 2 || t.ty == 3

/-- on the reversed token list (head = last emitted): no parenthesis whose predecessor in time is `(` -/
def rawNEO : List RTok → Bool
  | [] => true
  | [_] => true
  | t :: u :: tl => !(isParen t && isOpen u) && rawNEO (u :: tl)

def headOpen : List RTok → Bool
  | [] => false
  | t :: _ => isOpen t

/-- if the last emitted token is `(` then either something is pending (it will be flushed first) or the machine is in
    one of the states that can follow `(` without emitting: just opened (2), inside `[` (5), after `!` (11) -/
structure LInv (st : TState) : Prop where
  neo : rawNEO st.toks = true
  head : headOpen st.toks = true → st.token.truthy = true ∨ st.ttype = 2 ∨ st.ttype = 5 ∨ st.ttype = 11

theorem rawNEO_tail {t : RTok} {l : List RTok} (h : rawNEO (t :: l) = true) : rawNEO l = true := by
  cases l with
  | nil => rfl
  | cons u tl => unfold rawNEO at h; simp only [Bool.and_eq_true] at h; exact h.2

theorem rawNEO_push {t : RTok} {l : List RTok} (h : rawNEO l = true) (ht : isParen t = false ∨ headOpen l = false) :
    rawNEO (t :: l) = true := by
  cases l with
  | nil => rfl
  | cons u tl =>
    unfold rawNEO
    simp only [Bool.and_eq_true, Bool.not_eq_true', Bool.and_eq_false_iff]
    refine ⟨?_, h⟩
    rcases ht with ht | ht
    · exact Or.inl ht
    · exact Or.inr ht

/-- the pending token, when flushed, is never a parenthesis -/
theorem flush_LInv (st : TState) (hi : TInv st) (h : LInv st) (h5 : st.ttype ≠ 5) (h11 : st.ttype ≠ 11) :
    rawNEO st.flush.toks = true ∧ (headOpen st.flush.toks = true → st.ttype = 2) := by
  unfold TState.flush
  by_cases htr : st.token.truthy = true
  · rw [if_pos htr]
    have hnp : isParen ⟨st.ttype, st.token.toVal⟩ = false := by
      obtain ⟨_, hp, _⟩ := hi
      cases hk : st.token <;> simp_all [pendOK, Pend.truthy, isParen]
    refine ⟨rawNEO_push h.neo (Or.inl hnp), ?_⟩
    intro ho
    simp only [TState.push, headOpen, isOpen] at ho
    simp only [isParen, Bool.or_eq_false_iff] at hnp
    simp [hnp.1] at ho
  · rw [if_neg htr]
    refine ⟨h.neo, ?_⟩
    intro ho
    rcases h.head ho with h1 | h1 | h1 | h1
    · exact absurd h1 htr
    · exact h1
    · exact absurd h1 h5
    · exact absurd h1 h11

/-- emitting a token that is not a parenthesis -/
theorem emit_LInv (st : TState) (hi : TInv st) (h : LInv st) (h5 : st.ttype ≠ 5) (h11 : st.ttype ≠ 11)
    (t : RTok) (ty : Nat) (hnp : isParen t = false) : LInv (st.emit t ty) := by
  obtain ⟨f1, _⟩ := flush_LInv st hi h h5 h11
  refine ⟨rawNEO_push f1 (Or.inl hnp), ?_⟩
  intro ho
  simp only [TState.emit, TState.push, headOpen, isOpen] at ho
  simp only [isParen, Bool.or_eq_false_iff] at hnp
  simp [hnp.1] at ho

/-- emitting `(` or `)` when the machine is not in state 2 -/
theorem emit_paren_LInv (st : TState) (hi : TInv st) (h : LInv st) (h5 : st.ttype ≠ 5) (h11 : st.ttype ≠ 11)
    (h2 : st.ttype ≠ 2) (t : RTok) (ty : Nat) (hty : headOpen [t] = true → ty = 2) : LInv (st.emit t ty) := by
  obtain ⟨f1, f2⟩ := flush_LInv st hi h h5 h11
  have hno : headOpen st.flush.toks = false := by
    cases hk : headOpen st.flush.toks with
    | false => rfl
    | true => exact absurd (f2 hk) h2
  refine ⟨rawNEO_push f1 (Or.inr hno), ?_⟩
  intro ho
  right; left
  exact hty (by simpa [TState.emit, TState.push, headOpen] using ho)

theorem not_isParen_of_ty {t : RTok} (h2 : t.ty ≠ 2) (h3 : t.ty ≠ 3) : isParen t = false := by
  simp [isParen, h2, h3]

/-- states in which the last token cannot be an unflushed `(`: used for the branches that keep the token list -/
theorem head_not_open (st : TState) (_hi : TInv st) (h : LInv st) (hfalsy : st.token.truthy = false)
    (h2 : st.ttype ≠ 2) (h5 : st.ttype ≠ 5) (h11 : st.ttype ≠ 11) : headOpen st.toks = false := by
  cases hk : headOpen st.toks with
  | false => rfl
  | true =>
    rcases h.head hk with h1 | h1 | h1 | h1
    · rw [hfalsy] at h1; cases h1
    · exact absurd h1 h2
    · exact absurd h1 h5
    · exact absurd h1 h11

theorem step_LInv (st st' : TState) (c : Nat) (hi : TInv st) (hl : LInv st) (h : step st c = .ok st') : LInv st' := by
  unfold step at h
  by_cases h12 : (st.ttype == 12) = true
  · rw [if_pos h12] at h
    unfold stepRing at h
    simp only [beq_iff_eq] at h12
    split at h
    · split at h
      · cases h
      · cases h
        exact ⟨hl.neo, fun _ => Or.inl rfl⟩
    · split at h
      · split at h
        · cases h
        · rename_i t rest heq
          split at h
          · cases h
          · split at h
            · cases h
              have hn := hl.neo
              rw [heq] at hn
              refine ⟨rawNEO_push (rawNEO_tail hn) (Or.inl rfl), ?_⟩
              intro ho; simp [headOpen, isOpen] at ho
            · cases h
      · cases h
  rw [if_neg h12] at h
  have h12' : st.ttype ≠ 12 := by simpa using h12
  by_cases c1 : (c == 91) = true
  · rw [if_pos c1] at h
    unfold stepOpen at h
    dsimp only at h
    split at h
    · cases h
    · rename_i h5
      split at h
      · cases h
      · rename_i h1011
        split at h
        · cases h
        · cases h
          simp only [beq_iff_eq, Bool.or_eq_true, not_or] at h5 h1011
          obtain ⟨f1, _⟩ := flush_LInv st hi hl h5 h1011.2
          exact ⟨f1, fun _ => Or.inr (Or.inr (Or.inl rfl))⟩
  rw [if_neg c1] at h
  by_cases c2 : (c == 93) = true
  · rw [if_pos c2] at h
    unfold stepClose at h
    split at h
    · cases h
    · split at h
      · cases h
      · split at h
        · cases h
          refine ⟨rawNEO_push hl.neo (Or.inl rfl), ?_⟩
          intro ho; simp [TState.push, headOpen, isOpen] at ho
        · cases h
  rw [if_neg c2] at h
  by_cases h5 : (st.ttype == 5) = true
  · rw [if_pos h5] at h
    unfold stepInside at h
    simp only [beq_iff_eq] at h5
    split at h
    · cases h
      exact ⟨hl.neo, fun _ => Or.inr (Or.inr (Or.inl h5))⟩
    · cases h
  rw [if_neg h5] at h
  have h5' : st.ttype ≠ 5 := by simpa using h5
  by_cases c3 : isDigit c = true
  · rw [if_pos c3] at h
    unfold stepDigit at h
    dsimp only at h
    split at h
    · cases h
    · rename_i h1011
      simp only [beq_iff_eq, Bool.or_eq_true, not_or] at h1011
      split at h
      · cases h
      · rename_i h2
        simp only [beq_iff_eq] at h2
        split at h
        · rename_i h7
          simp only [beq_iff_eq] at h7
          split at h
          · cases h
          · split at h
            · rename_i l hl'
              split at h
              · cases h
                refine ⟨rawNEO_push hl.neo (Or.inl rfl), ?_⟩
                intro ho; simp [TState.push, headOpen, isOpen] at ho
              · cases h
                exact ⟨hl.neo, fun _ => Or.inl (by simp [Pend.truthy])⟩
            · cases h
        · split at h
          · cases h
          · cases h
            exact emit_LInv st hi hl h5' h1011.2 _ 6 rfl
  rw [if_neg c3] at h
  by_cases h7 : (st.ttype == 7) = true
  · rw [if_pos h7] at h; cases h
  rw [if_neg h7] at h
  have h7' : st.ttype ≠ 7 := by simpa using h7
  by_cases c4 : (c == 37) = true
  · rw [if_pos c4] at h
    unfold stepPercent at h
    dsimp only at h
    split at h
    · cases h
    · rename_i h1011
      simp only [beq_iff_eq, Bool.or_eq_true, not_or] at h1011
      split at h
      · cases h
      · rename_i h2
        simp only [beq_iff_eq] at h2
        cases h
        obtain ⟨f1, f2⟩ := flush_LInv st hi hl h5' h1011.2
        refine ⟨f1, ?_⟩
        intro ho
        exact absurd (f2 ho) h2
  rw [if_neg c4] at h
  by_cases c5 : bondChars.contains c = true
  · rw [if_pos c5] at h
    unfold stepBond at h
    dsimp only at h
    split at h
    · split at h
      · cases h
        refine ⟨rawNEO_push hl.neo (Or.inl rfl), ?_⟩
        intro ho; simp [headOpen, isOpen] at ho
      · cases h
      · cases h
    · rename_i h10
      split at h
      · split at h
        · cases h
        · cases h
          refine ⟨rawNEO_push hl.neo (Or.inl rfl), ?_⟩
          intro ho; simp [TState.push, headOpen, isOpen] at ho
      · rename_i h11
        split at h
        · cases h
        · cases h
          exact emit_LInv st hi hl h5' (by simpa using h11) _ 1 rfl
  rw [if_neg c5] at h
  by_cases c6 : (st.ttype == 10 || st.ttype == 11) = true
  · rw [if_pos c6] at h; cases h
  rw [if_neg c6] at h
  simp only [Bool.or_eq_true, beq_iff_eq, not_or] at c6
  have h11' := c6.2
  by_cases c7 : slashChars.contains c = true
  · rw [if_pos c7] at h; cases h; exact emit_LInv st hi hl h5' h11' _ 9 rfl
  rw [if_neg c7] at h
  by_cases c8 : (c == 46) = true
  · rw [if_pos c8] at h; cases h; exact emit_LInv st hi hl h5' h11' _ 4 rfl
  rw [if_neg c8] at h
  by_cases c9 : (c == 59) = true
  · rw [if_pos c9] at h
    unfold stepSemi at h
    split at h
    · cases h
    · rename_i hc
      cases h
      simp only [bne_iff_ne, ne_eq, Bool.and_eq_true, not_and, Decidable.not_not] at hc
      -- token_type is None or 1, hence nothing pending and the last token is not an unflushed `(`
      have hf : st.token.truthy = false := by
        obtain ⟨_, hp, _⟩ := hi
        by_cases hn : st.ttype = noneTy
        · cases hk : st.token <;> simp_all [pendOK, noneTy, Pend.truthy]
        · have := hc hn
          cases hk : st.token <;> simp_all [pendOK, Pend.truthy]
      have h2 : st.ttype ≠ 2 := by
        by_cases hn : st.ttype = noneTy
        · rw [hn]; decide
        · rw [hc hn]; decide
      have := head_not_open st hi hl hf h2 h5' h11'
      exact ⟨hl.neo, fun ho => by rw [this] at ho; cases ho⟩
  rw [if_neg c9] at h
  by_cases c10 : (c == 44) = true
  · rw [if_pos c10] at h
    unfold stepComma at h
    split at h
    · cases h
    · split at h
      · cases h
      · rename_i t rest heq
        split at h
        · cases h
          have hn := hl.neo
          rw [heq] at hn
          exact ⟨rawNEO_tail hn, fun _ => Or.inl (by simp [Pend.truthy])⟩
        · cases h
  rw [if_neg c10] at h
  by_cases c11 : (c == 33) = true
  · rw [if_pos c11] at h
    unfold stepBang at h
    dsimp only at h
    split at h
    · cases h
    · cases h
      obtain ⟨f1, _⟩ := flush_LInv st hi hl h5' h11'
      exact ⟨f1, fun _ => Or.inr (Or.inr (Or.inr rfl))⟩
  rw [if_neg c11] at h
  by_cases c12 : (c == 40) = true
  · rw [if_pos c12] at h
    split at h
    · cases h
    · rename_i h2
      cases h
      exact emit_paren_LInv st hi hl h5' h11' (by simpa using h2) _ 2 (fun _ => rfl)
  rw [if_neg c12] at h
  by_cases c13 : (c == 41) = true
  · rw [if_pos c13] at h
    split at h
    · cases h
    · rename_i h2
      cases h
      exact emit_paren_LInv st hi hl h5' h11' (by simpa using h2) _ 3 (fun ho => by simp [headOpen, isOpen] at ho)
  rw [if_neg c13] at h
  by_cases c14 : organicChars.contains c = true
  · rw [if_pos c14] at h; cases h; exact emit_LInv st hi hl h5' h11' _ 0 rfl
  rw [if_neg c14] at h
  by_cases c15 : aromaticChars.contains c = true
  · rw [if_pos c15] at h; cases h; exact emit_LInv st hi hl h5' h11' _ 8 rfl
  rw [if_neg c15] at h
  by_cases c16 : clBrChars.contains c = true
  · rw [if_pos c16] at h
    cases h
    obtain ⟨f1, _⟩ := flush_LInv st hi hl h5' h11'
    exact ⟨f1, fun _ => Or.inl (by simp [Pend.truthy])⟩
  rw [if_neg c16] at h
  by_cases h0 : (st.ttype == 0) = true
  · rw [if_pos h0] at h
    unfold stepSecond at h
    have push0 : ∀ z : Str, LInv { (st.push ⟨0, .str z⟩) with token := .none } := by
      intro z
      refine ⟨rawNEO_push hl.neo (Or.inl rfl), ?_⟩
      intro ho; simp [TState.push, headOpen, isOpen] at ho
    split at h
    · split at h
      · cases h; exact push0 _
      · cases h
    · split at h
      · split at h
        · cases h; exact push0 _
        · cases h
      · cases h
  rw [if_neg h0] at h
  cases h

theorem linv_init : LInv {} := ⟨rfl, fun h => by simp [headOpen] at h⟩

theorem run_LInv : ∀ (s : Str) (st st' : TState), TInv st → LInv st → run st s = .ok st' → TInv st' ∧ LInv st'
  | [], st, st', hi, hl, h => by simp only [run] at h; cases h; exact ⟨hi, hl⟩
  | c :: cs, st, st', hi, hl, h => by
    unfold run at h
    cases hk : step st c with
    | error e => rw [hk] at h; cases h
    | ok st1 =>
      rw [hk] at h
      have g := step_inv st c hi
      rw [hk] at g
      exact run_LInv cs st1 st' g (step_LInv st st1 c hi hl hk) h

/-- forward version: no `(` directly followed by a parenthesis -/
def fwdNEO : List RTok → Bool
  | [] => true
  | [_] => true
  | t :: u :: tl => !(isOpen t && isParen u) && fwdNEO (u :: tl)

def lastOpen (l : List RTok) : Bool :=
  match l.getLast? with
  | some u => isOpen u
  | none => false

theorem fwdNEO_snoc : ∀ (l : List RTok) (t : RTok), fwdNEO (l ++ [t]) = (fwdNEO l && !(lastOpen l && isParen t))
  | [], t => by simp [fwdNEO, lastOpen]
  | [x], t => by simp [fwdNEO, lastOpen]
  | x :: y :: tl, t => by
    have ih := fwdNEO_snoc (y :: tl) t
    have hl : lastOpen (x :: y :: tl) = lastOpen (y :: tl) := by simp [lastOpen, List.getLast?_cons_cons]
    simp only [List.cons_append] at ih ⊢
    cases tl with
    | nil =>
      simp only [List.nil_append] at ih ⊢
      simp only [fwdNEO, lastOpen, List.getLast?_cons_cons, List.getLast?_singleton] at ih ⊢
      simp [Bool.and_assoc]
    | cons z tl2 =>
      simp only [List.cons_append] at ih ⊢
      rw [show fwdNEO (x :: y :: z :: (tl2 ++ [t])) = (!(isOpen x && isParen y) && fwdNEO (y :: z :: (tl2 ++ [t]))) from rfl,
        ih, show fwdNEO (x :: y :: z :: tl2) = (!(isOpen x && isParen y) && fwdNEO (y :: z :: tl2)) from rfl, hl]
      simp [Bool.and_assoc]

theorem rawNEO_eq_fwd : ∀ (l : List RTok), rawNEO l = fwdNEO l.reverse
  | [] => rfl
  | [_] => rfl
  | t :: u :: tl => by
    have ih := rawNEO_eq_fwd (u :: tl)
    rw [show rawNEO (t :: u :: tl) = (!(isParen t && isOpen u) && rawNEO (u :: tl)) from rfl, ih,
      show (t :: u :: tl).reverse = (u :: tl).reverse ++ [t] by simp, fwdNEO_snoc]
    have : lastOpen (u :: tl).reverse = isOpen u := by simp [lastOpen]
    rw [this]
    cases isParen t <;> cases isOpen u <;> simp

theorem finish_fwdNEO (st : TState) (hi : TInv st) (hl : LInv st) (l : List RTok) (h : finish st = .ok l) :
    fwdNEO l = true := by
  unfold finish at h
  dsimp only at h
  split at h
  · cases h
  rename_i h5
  split at h
  · split at h
    · split at h
      · cases h
        rw [← rawNEO_eq_fwd]
        exact rawNEO_push hl.neo (Or.inl rfl)
      · cases h
    · cases h
  rename_i h7
  split at h
  · cases h
  rename_i hc
  simp only [beq_iff_eq, Bool.or_eq_true, Bool.and_eq_true, Bool.not_eq_true', not_or, not_and,
    Bool.not_eq_false] at h5 hc
  cases h
  rw [← rawNEO_eq_fwd]
  exact (flush_LInv st hi hl h5 hc.1).1

theorem tokenizeRaw_fwdNEO (s : Str) (l : List RTok) (h : tokenizeRaw s = .ok l) : fwdNEO l = true := by
  unfold tokenizeRaw at h
  cases hk : run {} s with
  | error e => rw [hk] at h; cases h
  | ok st =>
    rw [hk] at h
    obtain ⟨hi, hl⟩ := run_LInv s {} st tinv_init linv_init hk
    exact finish_fwdNEO st hi hl l h

/-! ### through `smiles_tokenize` -/

theorem atomParse_ty (s : Str) (p : Nat × AtomTok) (hp : atomParse s = .ok p) : p.1 = 0 ∨ p.1 = 8 := by
  unfold atomParse at hp
  split at hp
  · cases hp
  · dsimp only at hp
    split at hp
    · cases hp
    · cases hp
      dsimp only
      split
      · exact Or.inr rfl
      · exact Or.inl rfl
  · cases hp

theorem convTok_paren (t : RTok) (x : Tok) (h : convTok t = .ok x) :
    (x = .lpar → t.ty = 2) ∧ (x = .rpar → t.ty = 3) ∧ (∀ ty a, x = .atom ty a → ty = 0 ∨ ty = 8) := by
  obtain ⟨ty, v⟩ := t
  unfold convTok at h
  dsimp only at h
  split at h
  · rename_i h08
    simp only [Bool.or_eq_true, beq_iff_eq] at h08
    split at h
    · cases h; simp [h08]
    · cases h; simp
  · split at h
    · split at h
      · rename_i s
        cases hp : atomParse s with
        | error e => simp [hp, Except.map] at h
        | ok p =>
          simp only [hp, Except.map] at h
          cases h
          have := atomParse_ty s p hp
          simp [this]
      · cases h
    · split at h
      · cases h
      · split at h <;> cases h <;> simp

theorem convToks_cons {t : RTok} {tl : List RTok} {l : List Tok} (h : convToks (t :: tl) = .ok l) :
    ∃ x xs, convTok t = .ok x ∧ convToks tl = .ok xs ∧ l = x :: xs := by
  unfold convToks at h
  cases hx : convTok t with
  | error e => rw [hx] at h; cases h
  | ok x =>
    rw [hx] at h
    dsimp only at h
    cases hxs : convToks tl with
    | error e => rw [hxs] at h; cases h
    | ok xs => rw [hxs] at h; cases h; exact ⟨x, xs, rfl, rfl, rfl⟩

theorem convToks_neo : ∀ (raw : List RTok) (l : List Tok), convToks raw = .ok l → fwdNEO raw = true →
    noEmptyOpen l = true
  | [], l, h, _ => by simp [convToks] at h; subst h; rfl
  | [t], l, h, _ => by
    obtain ⟨x, xs, _, h2, rfl⟩ := convToks_cons h
    simp [convToks] at h2; subst h2; rfl
  | t :: u :: tl, l, h, hn => by
    obtain ⟨x, xs, hx, h2, rfl⟩ := convToks_cons h
    obtain ⟨y, ys, hy, h3, rfl⟩ := convToks_cons h2
    have hn' : (!(isOpen t && isParen u)) = true ∧ fwdNEO (u :: tl) = true := by
      have : fwdNEO (t :: u :: tl) = (!(isOpen t && isParen u) && fwdNEO (u :: tl)) := rfl
      rw [this] at hn
      simpa using hn
    have ih := convToks_neo (u :: tl) (y :: ys) h2 hn'.2
    have px := convTok_paren t x hx
    have py := convTok_paren u y hy
    have key : pairOK x y = true := by
      cases x <;> cases y <;> try rfl
      · -- lpar, lpar
        have h1 := px.1 rfl
        have h2' := py.1 rfl
        simp [isOpen, isParen, h1, h2'] at hn'
      · -- lpar, rpar
        have h1 := px.1 rfl
        have h2' := py.2.1 rfl
        simp [isOpen, isParen, h1, h2'] at hn'
    show noEmptyOpen (x :: y :: ys) = true
    unfold noEmptyOpen
    rw [key, ih]; rfl

theorem convToks_core : ∀ (raw : List RTok) (l : List Tok), convToks raw = .ok l →
    ∀ x ∈ l, noOther x = true → (∀ n, x ≠ .cyc n) → coreTok x = true
  | [], l, h, x, hx, _, _ => by simp [convToks] at h; subst h; simp at hx
  | t :: tl, l, h, x, hx, hno, hnc => by
    obtain ⟨y, ys, hy, h2, rfl⟩ := convToks_cons h
    simp only [List.mem_cons] at hx
    rcases hx with rfl | hx
    · have p := convTok_paren t x hy
      cases x with
      | atom ty a => rcases p.2.2 ty a rfl with rfl | rfl <;> rfl
      | cyc n => exact absurd rfl (hnc n)
      | other ty v => cases hno
      | _ => rfl
    · exact convToks_core tl ys h2 x hx hno hnc

end ChythonModel.Proofs.C03
