import ChythonModel.Props.C12
import Mathlib.Data.List.Nodup
/-!
# Helper lemmas for C20: the relative parity `relOdd` of arrangements of the same 3 / 4 atoms is a cocycle
(`relOdd x z = relOdd x y ^^ relOdd y z`), symmetric and zero on the diagonal.  Built on the C12 enumeration lemmas.
-/
set_option linter.unusedSimpArgs false
namespace ChythonModel.Proofs.C20
open ChythonModel.Gen ChythonModel.Spec ChythonModel.Model.Stereo ChythonModel.Proofs.C12 ChythonModel.Props.C12

/-- a list that is an arrangement of four distinct atoms is itself a literal 4-list without duplicates -/
theorem perm4_literal {a b c d : Nat} (hnd : [a, b, c, d].Nodup) {o : List Nat} (hp : o.Perm [a, b, c, d]) :
    ∃ w x y z, o = [w, x, y, z] ∧ [w, x, y, z].Nodup := by
  have hn : o.Nodup := hp.nodup_iff.mpr hnd
  have hl : o.length = 4 := by rw [hp.length_eq]; rfl
  match o, hl with
  | [w, x, y, z], _ => exact ⟨w, x, y, z, rfl, hn⟩

theorem perm3_literal {a b c : Nat} (hnd : [a, b, c].Nodup) {o : List Nat} (hp : o.Perm [a, b, c]) :
    ∃ x y z, o = [x, y, z] ∧ [x, y, z].Nodup := by
  have hn : o.Nodup := hp.nodup_iff.mpr hnd
  have hl : o.length = 3 := by rw [hp.length_eq]; rfl
  match o, hl with
  | [x, y, z], _ => exact ⟨x, y, z, rfl, hn⟩

/-- cocycle with the base written as a literal list -/
theorem relOdd_cocycle4_lit (w x y z : Nat) (hnd : [w, x, y, z].Nodup) (e1 e2 : List Nat)
    (h1 : e1.Perm [w, x, y, z]) (h2 : e2.Perm [w, x, y, z]) :
    relOdd e1 e2 = (relOdd [w, x, y, z] e1 ^^ relOdd [w, x, y, z] e2) := by
  have m1 := idx_mem_allPerms4 hnd h1
  have m2 := idx_mem_allPerms4 hnd h2
  have hc := oddPerm_comp _ m1 _ m2
  have hi := idx_comp [w, x, y, z] e1 e2 (fun x hx => h1.subset hx) (fun x hx => h2.subset hx)
  unfold relOdd at *
  rw [hi, ← hc]

/-- `relOdd` of three arrangements of the same four distinct atoms -/
theorem relOdd_cocycle4 {a b c d : Nat} (hnd : [a, b, c, d].Nodup) (o e1 e2 : List Nat)
    (ho : o.Perm [a, b, c, d]) (h1 : e1.Perm [a, b, c, d]) (h2 : e2.Perm [a, b, c, d]) :
    relOdd e1 e2 = (relOdd o e1 ^^ relOdd o e2) := by
  obtain ⟨w, x, y, z, rfl, hn⟩ := perm4_literal hnd ho
  exact relOdd_cocycle4_lit w x y z hn e1 e2 (h1.trans ho.symm) (h2.trans ho.symm)

theorem relOdd_self4 {a b c d : Nat} (hnd : [a, b, c, d].Nodup) (e : List Nat) (h : e.Perm [a, b, c, d]) :
    relOdd e e = false := by
  have := relOdd_cocycle4 hnd e e e h h h
  cases hh : relOdd e e <;> simp [hh] at this ⊢

theorem relOdd_symm4 {a b c d : Nat} (hnd : [a, b, c, d].Nodup) (e1 e2 : List Nat)
    (h1 : e1.Perm [a, b, c, d]) (h2 : e2.Perm [a, b, c, d]) : relOdd e1 e2 = relOdd e2 e1 := by
  have := relOdd_cocycle4 hnd e2 e1 e2 h2 h1 h2
  rw [relOdd_self4 hnd e2 h2] at this
  simpa using this

/-- the chain rule used by the round-trip theorems: going `o → e → e' ← o'` is the parity between `o` and `o'` -/
theorem relOdd_chain4 {a b c d : Nat} (hnd : [a, b, c, d].Nodup) (o o' e e' : List Nat)
    (ho : o.Perm [a, b, c, d]) (ho' : o'.Perm [a, b, c, d]) (he : e.Perm [a, b, c, d]) (he' : e'.Perm [a, b, c, d]) :
    (relOdd o e ^^ relOdd e e' ^^ relOdd o' e') = relOdd o o' := by
  have c1 := relOdd_cocycle4 hnd e o e' he ho he'       -- o e' = e o ^^ e e'
  have c2 := relOdd_cocycle4 hnd e' o o' he' ho ho'     -- o o' = e' o ^^ e' o'
  rw [relOdd_symm4 hnd e o he ho] at c1
  rw [relOdd_symm4 hnd e' o he' ho, relOdd_symm4 hnd e' o' he' ho'] at c2
  rw [c2, c1]

/-- lifting a 3-arrangement to a 4-arrangement by appending one fresh atom keeps the relative parity -/
theorem relOdd_append_fresh (x y z h : Nat) (hnd : [x, y, z, h].Nodup) (env : List Nat) (hp : env.Perm [x, y, z]) :
    relOdd [x, y, z] env = relOdd [x, y, z, h] (env ++ [h]) := implicitH_is_H_last x y z h hnd env hp

theorem fresh3 (a b c : Nat) : ∃ h, h ≠ a ∧ h ≠ b ∧ h ≠ c := ⟨a + b + c + 1, by omega, by omega, by omega⟩

theorem nodup4_of_fresh {a b c h : Nat} (hnd : [a, b, c].Nodup) (ha : h ≠ a) (hb : h ≠ b) (hc : h ≠ c) :
    [a, b, c, h].Nodup := by
  simp only [List.nodup_cons, List.mem_cons, List.not_mem_nil, not_or, or_false, List.nodup_nil, and_true,
    not_false_eq_true] at hnd ⊢
  exact ⟨⟨hnd.1.1, hnd.1.2, Ne.symm ha⟩, ⟨hnd.2, Ne.symm hb⟩, Ne.symm hc⟩

theorem perm_append_single {e l : List Nat} (h : Nat) (hp : e.Perm l) : (e ++ [h]).Perm (l ++ [h]) :=
  List.Perm.append_right [h] hp

/-- relative parity of two arrangements of three atoms = that of their extensions by a common last atom -/
theorem relOdd_lift3 {a b c : Nat} (hnd : [a, b, c].Nodup) (h : Nat) (hf : [a, b, c, h].Nodup) (o e : List Nat)
    (ho : o.Perm [a, b, c]) (he : e.Perm [a, b, c]) :
    relOdd o e = relOdd (o ++ [h]) (e ++ [h]) := by
  obtain ⟨x, y, z, rfl, hn⟩ := perm3_literal hnd ho
  have hn4 : [x, y, z, h].Nodup := by
    have : ([x, y, z] ++ [h]).Perm ([a, b, c] ++ [h]) := perm_append_single h ho
    exact this.nodup_iff.mpr hf
  exact relOdd_append_fresh x y z h hn4 e (he.trans ho.symm)

theorem relOdd_chain3 {a b c : Nat} (hnd : [a, b, c].Nodup) (o o' e e' : List Nat)
    (ho : o.Perm [a, b, c]) (ho' : o'.Perm [a, b, c]) (he : e.Perm [a, b, c]) (he' : e'.Perm [a, b, c]) :
    (relOdd o e ^^ relOdd e e' ^^ relOdd o' e') = relOdd o o' := by
  obtain ⟨h, ha, hb, hc⟩ := fresh3 a b c
  have hf := nodup4_of_fresh hnd ha hb hc
  rw [relOdd_lift3 hnd h hf o e ho he, relOdd_lift3 hnd h hf e e' he he', relOdd_lift3 hnd h hf o' e' ho' he',
    relOdd_lift3 hnd h hf o o' ho ho']
  exact relOdd_chain4 hf _ _ _ _ (perm_append_single h ho) (perm_append_single h ho') (perm_append_single h he)
    (perm_append_single h he')

/-- renaming atoms injectively does not change relative parity -/
theorem relOdd_map_inj (f : Nat → Nat) (o e : List Nat) (hinj : ∀ x ∈ o, ∀ y ∈ o, f x = f y → x = y)
    (he : ∀ x ∈ e, x ∈ o) : relOdd (o.map f) (e.map f) = relOdd o e := by
  unfold relOdd
  congr 1
  rw [List.map_map]
  apply List.map_congr_left
  intro x hx
  simp only [Function.comp]
  exact pos_map_inj f o x (fun y hy h => hinj y hy x (he x hx) h)

/-- the four-neighbour translation commutes with an injective renumbering of the atoms -/
theorem translateTetra_map4 (f : Nat → Nat) (a b c d : Nat) (hnd : [a, b, c, d].Nodup)
    (hinj : ∀ x ∈ [a, b, c, d], ∀ y ∈ [a, b, c, d], f x = f y → x = y) (order env : List Nat)
    (ho : order.Perm [a, b, c, d]) (he : env.Perm [a, b, c, d]) (isH isH' : Nat → Bool) (st st' : Option Bool) (s : Bool) :
    translateTetra (order.map f) (env.map f) isH' st' (some s) = translateTetra order env isH st (some s) := by
  obtain ⟨w, x, y, z, rfl, hn⟩ := perm4_literal hnd ho
  have hn' : ([w, x, y, z].map f).Nodup := by
    refine List.Nodup.map_on ?_ hn
    intro p hp q hq h
    exact hinj p (ho.subset hp) q (ho.subset hq) h
  rw [translateTetra_perm4 w x y z hn env (he.trans ho.symm) isH st s]
  have := translateTetra_perm4 (f w) (f x) (f y) (f z) hn' (env.map f) ((he.trans ho.symm).map f) isH' st' s
  simp only [List.map_cons, List.map_nil] at this ⊢
  rw [this]
  have r := relOdd_map_inj f [w, x, y, z] env (fun p hp q hq h => hinj p (ho.subset hp) q (ho.subset hq) h)
    (fun p hp => (he.trans ho.symm).subset hp)
  simp only [List.map_cons, List.map_nil] at r
  rw [r]

/-- same with three neighbours and an implicit hydrogen -/
theorem translateTetra_map3 (f : Nat → Nat) (a b c : Nat) (hnd : [a, b, c].Nodup)
    (hinj : ∀ x ∈ [a, b, c], ∀ y ∈ [a, b, c], f x = f y → x = y) (order env : List Nat)
    (ho : order.Perm [a, b, c]) (he : env.Perm [a, b, c]) (isH isH' : Nat → Bool) (st st' : Option Bool) (s : Bool) :
    translateTetra (order.map f) (env.map f) isH' st' (some s) = translateTetra order env isH st (some s) := by
  obtain ⟨x, y, z, rfl, hn⟩ := perm3_literal hnd ho
  have hn' : ([x, y, z].map f).Nodup := by
    refine List.Nodup.map_on ?_ hn
    intro p hp q hq h
    exact hinj p (ho.subset hp) q (ho.subset hq) h
  rw [translateTetra_implicitH x y z hn env (he.trans ho.symm) isH st s]
  have := translateTetra_implicitH (f x) (f y) (f z) hn' (env.map f) ((he.trans ho.symm).map f) isH' st' s
  simp only [List.map_cons, List.map_nil] at this ⊢
  rw [this]
  have r := relOdd_map_inj f [x, y, z] env (fun p hp q hq h => hinj p (ho.subset hp) q (ho.subset hq) h)
    (fun p hp => (he.trans ho.symm).subset hp)
  simp only [List.map_cons, List.map_nil] at r
  rw [r]

end ChythonModel.Proofs.C20
