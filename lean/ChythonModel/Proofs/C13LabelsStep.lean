import ChythonModel.Proofs.C13Labels
/-!
# C13 — "stored labels are fresh in every object outside a transaction (and in every transaction snapshot)" is an
invariant of `step`

Relabelling operations (`add_*`, `delete_*`, `fix_structure`, `calc_labels`, successful `__exit__`, the calls `substructure`
makes): by the soundness of the static analysis (`Gamma.lab`).  Operations that do not relabel (`remap`, `union`,
`fix_stereo`, `clean_stereo`, `__enter__`, `copy`): by a frame argument over their event lists plus the snapshot
lemmas of `Proofs/C13Labels.lean` (this is where well-formedness of the graph is needed).  Aborted `__exit__`: the
snapshot's labels were fresh when it was taken.
-/
namespace ChythonModel.Proofs.C13
open ChythonModel.Model ChythonModel.Model.C13 ChythonModel.Gen.CacheEffects ChythonModel.Spec.Deps

structure LInv (o : Obj) : Prop where
  live : o.backup = some none → labelsFresh o.toCore = true
  snap : ∀ bk, o.backup = some (some bk) → labelsFresh bk = true

/-- methods run by operations other than `__enter__` / `__exit__` -/
def nonTxnFns : List (String × List (String × Bool)) :=
  [("MoleculeContainer.add_atom", []), ("MoleculeContainer.add_bond", []), ("MoleculeContainer.delete_atom", []),
   ("MoleculeContainer.delete_bond", []), ("Graph.remap", []),
   ("MoleculeContainer.fix_structure", [("recalculate_hydrogens", true)]),
   ("MoleculeContainer.fix_structure", [("recalculate_hydrogens", false)]),
   ("MoleculeStereo.fix_stereo", []), ("MoleculeStereo.clean_stereo", []), ("MoleculeContainer.calc_labels", []),
   ("MoleculeContainer.union", [("copy", false), ("remap", true)]),
   ("MoleculeContainer.union", [("copy", false), ("remap", false)])]

/-- methods that do not relabel: their event lists must contain neither `calc_labels`' write nor a `restore` -/
def frameFns : List (String × List (String × Bool)) :=
  [("Graph.remap", []), ("MoleculeStereo.fix_stereo", []), ("MoleculeStereo.clean_stereo", []),
   ("MoleculeContainer.union", [("copy", false), ("remap", true)]),
   ("MoleculeContainer.union", [("copy", false), ("remap", false)])]

/-- decidable side conditions on the regenerated table for the label invariant -/
def LabelsOK (T : Tables) : Bool :=
  (nonTxnFns.all fun fe => noBkWrites (expand T.fns expandFuel fe.1 fe.2)) &&
  (frameFns.all fun fe => noLabTouch (expand T.fns expandFuel fe.1 fe.2)) &&
  quietList (expand T.fns expandFuel "MoleculeContainer.__enter__" []) &&
  [false, true].all fun recalc => match subRun T recalc with
    | some A => !A.lab
    | none => false

/-- domain of the label theorem beyond `stepPre`: `copy()` is taken of a molecule outside a transaction, and a union does
not pull the (possibly unlabelled) atoms of a molecule that is inside a transaction into one that is outside -/
def labelPre (w : World) (op : Op) : Bool :=
  match op with
  | .copy o _ _ => match w.objs[o]? with
      | some x => !inTxn x
      | none => true
  | .union o p _ cp => match w.objs[o]?, w.objs[p]? with
      | some x, some y => if cp then !inTxn x && !inTxn y else inTxn x || !inTxn y
      | _, _ => true
  | _ => true

theorem inTxn_false_iff {o : Obj} (hb : o.backup = some none ∨ ∃ b, o.backup = some (some b)) :
    inTxn o = false ↔ o.backup = some none := by
  rcases hb with hb | ⟨b, hb⟩ <;> simp [inTxn, hb]

theorem linv_congr {o o' : Obj} (hm : o'.mol = o.mol) (hl : o'.labels = o.labels) (hb : o'.backup = o.backup) (h : LInv o) :
    LInv o' :=
  ⟨fun hn => by rw [labelsFresh_congr (c2 := o.toCore) hm hl]; exact h.live (by rw [← hb]; exact hn),
   fun bk hbk => h.snap bk (by rw [← hb]; exact hbk)⟩

theorem linv_txn {o o' : Obj} (hb : o'.backup = o.backup) (hin : ∃ b, o.backup = some (some b)) (h : LInv o) : LInv o' := by
  obtain ⟨b, hb'⟩ := hin
  exact ⟨fun hn => (by rw [hb, hb'] at hn; cases hn), fun bk hbk => h.snap bk (by rw [← hb]; exact hbk)⟩

theorem linv_set {w : World} {i : Nat} {o : Obj} (v : List (Int × Int)) (hw : ∀ x ∈ w.objs, LInv x) (ho : LInv o) :
    ∀ x ∈ (setObj { w with vecs := v } i o).objs, LInv x := by
  intro x hx
  simp only [setObj] at hx
  rcases List.mem_or_eq_of_mem_set hx with h | h
  · exact hw x h
  · rw [h]; exact ho

theorem linv_append {w : World} {o : Obj} (hw : ∀ x ∈ w.objs, LInv x) (ho : LInv o) :
    ∀ x ∈ w.objs ++ [o], LInv x := by
  intro x hx
  simp only [List.mem_append, List.mem_singleton] at hx
  rcases hx with h | h
  · exact hw x h
  · rw [h]; exact ho

theorem runFn_world (T : Tables) (w : World) (i : Nat) (o : Obj) (cx : Ctx) (f : String) (env : List (String × Bool)) :
    (runFn T w i o cx f env).w =
      setObj { w with vecs := (interp T cx (expand T.fns expandFuel f env) { o := o, vecs := w.vecs }).cfg.vecs } i
        (interp T cx (expand T.fns expandFuel f env) { o := o, vecs := w.vecs }).cfg.o := by
  unfold runFn
  split <;> (rename_i heq; rw [heq]; rfl)

theorem runFn_ok {T : Tables} {w : World} {i : Nat} {o : Obj} {cx : Ctx} {f : String} {env : List (String × Bool)}
    (herr : (runFn T w i o cx f env).err = none) :
    ∃ c, interp T cx (expand T.fns expandFuel f env) { o := o, vecs := w.vecs } = .ok c := by
  unfold runFn at herr
  split at herr
  · rename_i c heq; exact ⟨c, heq⟩
  · simp at herr

/-- generic wrapper: an operation that runs a method without snapshot writes keeps `LInv` of every object as soon as the
labels are fresh afterwards whenever the object is outside a transaction -/
theorem runFn_linv {T : Tables} {w : World} {i : Nat} {o : Obj} {cx : Ctx} {f : String} {env : List (String × Bool)}
    (hno : noBkWrites (expand T.fns expandFuel f env) = true) (hl : LInv o)
    (hbk : o.backup = some none ∨ ∃ b, o.backup = some (some b))
    (hout : o.backup = some none →
      labelsFresh (interp T cx (expand T.fns expandFuel f env) { o := o, vecs := w.vecs }).cfg.o.toCore = true)
    (hws : ∀ x ∈ w.objs, LInv x) : ∀ x ∈ (runFn T w i o cx f env).w.objs, LInv x := by
  rw [runFn_world]
  have hb := interp_backup (T := T) (cx := cx) _ { o := o, vecs := w.vecs } hno
  refine linv_set _ hws ?_
  rcases hbk with hbk | hbk
  · exact ⟨fun _ => hout hbk, fun bk hb' => by rw [hb, hbk] at hb'; cases hb'⟩
  · exact linv_txn hb hbk hl

theorem lab_noBk {T : Tables} (hL : LabelsOK T = true) (fe : String × List (String × Bool)) (h : fe ∈ nonTxnFns) :
    noBkWrites (expand T.fns expandFuel fe.1 fe.2) = true := by
  simp only [LabelsOK, Bool.and_eq_true, List.all_eq_true] at hL
  exact hL.1.1.1 fe h

theorem lab_frame {T : Tables} (hL : LabelsOK T = true) (fe : String × List (String × Bool)) (h : fe ∈ frameFns) :
    noLabTouch (expand T.fns expandFuel fe.1 fe.2) = true := by
  simp only [LabelsOK, Bool.and_eq_true, List.all_eq_true] at hL
  exact hL.1.1.2 fe h

/-- a relabelling entry point of the analysis, run outside a transaction without error, ends with fresh labels -/
theorem relabel_fresh {T : Tables} (hK : keepOK T = true) (hM : mutatorsOK T = true) (e : Entry13) (he : e ∈ entryPoints)
    (hrel : e.relabels = true) {w : World} {i : Nat} {o : Obj} {cx : Ctx} (hskip : cx.skip = false) (ho : Inv o)
    (hl : e.needsLabels = true → labelsFresh o.toCore = true) (hout : o.backup = some none)
    (herr : (runFn T w i o cx e.fn e.env).err = none) :
    labelsFresh (interp T cx (expand T.fns expandFuel e.fn e.env) { o := o, vecs := w.vecs }).cfg.o.toCore = true := by
  obtain ⟨c, hi⟩ := runFn_ok herr
  have htx : inTxn o = false := by simp [inTxn, hout]
  have hacc := mutators_accept hM e he cx.special (inTxn o)
  unfold accepts analyse at hacc
  cases han : absRun T false cx.special (expand T.fns expandFuel e.fn e.env) (entryAbs (inTxn o) e.needsLabels) with
  | none => simp [han] at hacc
  | some A' =>
    simp only [han, Bool.and_eq_true, beq_iff_eq] at hacc
    have hg := gamma_entry ho e.needsLabels hl
    have hg' := interp_sound hK _ _ { o := o, vecs := w.vecs } A' c hg (by rw [hskip]; exact han) hi
    rw [hi]
    apply hg'.lab
    have := hacc.1.1.2
    simpa [htx, hrel] using this

/-- a non-relabelling method: labels stay fresh if the edit (if any) carries a fresh snapshot over -/
theorem frame_fresh {T : Tables} {cx : Ctx} {o : Obj} {v : List (Int × Int)} {es : List GEv} (hnt : noLabTouch es = true)
    (hf : labelsFresh o.toCore = true) (hedit : ∀ m', cx.editMol = some m' → editLabels cx o.labels = some (snapOf m')) :
    labelsFresh (interp T cx es { o := o, vecs := v }).cfg.o.toCore = true := by
  have := interp_fr (T := T) (cx := cx) (m0 := o.mol) (l0 := o.labels) es { o := o, vecs := v } hnt (Or.inl ⟨rfl, rfl⟩)
  rcases this with ⟨hm, hl⟩ | ⟨_, hm, hl⟩
  · rw [labelsFresh_congr (c2 := o.toCore) hm hl]; exact hf
  · rw [labelsFresh_iff]
    show (interp T cx es { o := o, vecs := v }).cfg.o.labels = _
    rw [hl, hedit _ hm]

theorem gRemap_eq {m m' : Mol} {mp : List (Nat × Nat)} (hg : gRemap m mp = .ok m') :
    m' = mapMol (mapId mp) m ∧ ∀ x ∈ m.ids, ∀ y ∈ m.ids, mapId mp x = mapId mp y → x = y := by
  unfold gRemap at hg
  split at hg; · cases hg
  rename_i hok
  cases hg
  refine ⟨rfl, ?_⟩
  simp only [remapOk, Bool.not_eq_false, Bool.and_eq_true, decide_eq_true_eq, List.all_eq_true,
    List.mem_filter, Bool.not_eq_true', and_imp] at hok
  refine mapId_injOn hok.1 ?_
  intro n hn hnone hmem
  have h1 : (mp.any fun p => p.1 == n) = false := by
    cases hq : (mp.any fun p => p.1 == n) with
    | false => rfl
    | true => exact absurd (any_fst_iff.mp hq) (lookup_none_iff.mp hnone)
  have := hok.2 n hn h1
  obtain ⟨p, hp, rfl⟩ := List.mem_map.mp hmem
  have hc : (mp.any fun q => q.2 == p.2) = true := List.any_eq_true.mpr ⟨p, hp, by simp⟩
  rw [hc] at this; cases this

theorem inj_of_nodup_map {α β} {f : α → β} {l : List α} (hn : (l.map f).Nodup) {x y : α} (hx : x ∈ l) (hy : y ∈ l)
    (hxy : f x = f y) : x = y := by
  induction l with
  | nil => cases hx
  | cons a rest ih =>
    simp only [List.map_cons, List.nodup_cons, List.mem_map, not_exists, not_and] at hn
    rcases List.mem_cons.mp hx with rfl | hx' <;> rcases List.mem_cons.mp hy with rfl | hy'
    · rfl
    · exact (hn.1 y hy' hxy.symm).elim
    · exact (hn.1 x hx' hxy).elim
    · exact ih hn.2 hx' hy'

/-- the label snapshot `union` gives the merged molecule is fresh when both parts' snapshots are -/
theorem union_labels {self other : Mol} (hs : MolWF self) (ho : MolWF other) (rmp : Bool)
    (hov : (self.ids.any other.hasAtom && !rmp) = false) :
    let mp := if self.ids.any other.hasAtom then unionMap self other else []
    mergeLabels (some (snapOf self)) ((some (snapOf other)).map (LSnap.remap mp)) =
      some (snapOf ⟨self.atoms ++ (mapMol (mapId mp) other).atoms, self.adj ++ (mapMol (mapId mp) other).adj⟩) := by
  intro mp
  obtain ⟨hom, hdis⟩ := unionOther_wf (self := self) ho rmp hov
  have hinj : ∀ x ∈ other.ids, ∀ y ∈ other.ids, mapId mp x = mapId mp y → x = y := by
    intro x hx y hy hxy
    have hnd := hom.nodup
    have hids : (mapMol (mapId mp) other).ids = other.ids.map (mapId mp) := by
      simp [mapMol, Mol.ids, List.map_map, Function.comp_def]
    rw [hids] at hnd
    exact inj_of_nodup_map hnd hx hy hxy
  simp only [Option.map_some, mergeLabels]
  rw [remap_snap ho hinj, merge_snap hs hom hdis]

theorem union_edit_labels (T : Tables) {o other : Obj} (v : List (Int × Int)) (rmp : Bool) (hs : MolWF o.mol)
    (ho : MolWF other.mol) (hov : (o.mol.ids.any other.mol.hasAtom && !rmp) = false)
    (hfo : labelsFresh o.toCore = true) (hfother : labelsFresh other.toCore = true) :
    mergeLabels o.labels ((copyObj T other v false false).1.labels.map
        (LSnap.remap (if o.mol.ids.any other.mol.hasAtom then unionMap o.mol other.mol else []))) =
      some (snapOf ⟨o.mol.atoms ++ (mapMol (mapId (if o.mol.ids.any other.mol.hasAtom then unionMap o.mol other.mol else [])) other.mol).atoms,
        o.mol.adj ++ (mapMol (mapId (if o.mol.ids.any other.mol.hasAtom then unionMap o.mol other.mol else [])) other.mol).adj⟩) := by
  have h1 : o.labels = some (snapOf o.mol) := (labelsFresh_iff _).mp hfo
  have h2 : (copyObj T other v false false).1.labels = some (snapOf other.mol) := (labelsFresh_iff _).mp hfother
  rw [h1, h2]
  exact union_labels hs ho rmp hov

/-- the three invariants together -/
structure W3 (w : World) : Prop where
  inv : WInv w
  wf : WorldWF w
  lab : ∀ o ∈ w.objs, LInv o

theorem inv_out {o : Obj} (h : Inv o) (htx : inTxn o = false) : o.backup = some none := (inTxn_false_iff h.bk).mp htx

theorem step_lab {T : Tables} (hT : TablesOK T = true) (hL : LabelsOK T = true) {w : World} {op : Op} {obs : List String}
    (hw : W3 w) (hp : StepPre T w op) (hlp : labelPre w op = true) (herr : (step T w op obs).err = none) :
    ∀ x ∈ (step T w op obs).w.objs, LInv x := by
  obtain ⟨hK, hM, hEn, hEx, hSub, hR, hS⟩ := tables_parts hT
  obtain ⟨hpub, hpre⟩ := hp
  unfold step at herr ⊢
  cases hget : w.objs[op.target]? with
  | none => simp only [hget]; exact hw.lab
  | some o =>
    have ho : Inv o := hw.inv o (mem_of_get hget)
    have hwf : ObjWF o := hw.wf o (mem_of_get hget)
    have hl : LInv o := hw.lab o (mem_of_get hget)
    have hpre' := hpre o hget
    simp only [hget] at herr ⊢
    cases op with
    | addAtom oi z n skip =>
      have : skip = false := by simpa [isPublic] using hpub
      subst this
      simp only at herr ⊢
      cases hg : gAddAtom o.mol z n with
      | error e => simp [hg] at herr
      | ok r =>
        obtain ⟨m', k⟩ := r
        simp only [hg] at herr ⊢
        exact runFn_linv (lab_noBk hL ("MoleculeContainer.add_atom", []) (by decide)) hl ho.bk
          (fun hout => relabel_fresh hK hM ⟨"MoleculeContainer.add_atom", [], false, true⟩ (by decide) rfl rfl ho (by simp)
            hout herr) hw.lab
    | addBond oi a b order skip =>
      have : skip = false := by simpa [isPublic] using hpub
      subst this
      simp only at herr ⊢
      cases hg : gAddBond o.mol a b order with
      | error e => simp [hg] at herr
      | ok m' =>
        simp only [hg] at herr ⊢
        exact runFn_linv (lab_noBk hL ("MoleculeContainer.add_bond", []) (by decide)) hl ho.bk
          (fun hout => relabel_fresh hK hM ⟨"MoleculeContainer.add_bond", [], false, true⟩ (by decide) rfl rfl ho (by simp)
            hout herr) hw.lab
    | delAtom oi n skip =>
      have : skip = false := by simpa [isPublic] using hpub
      subst this
      simp only at herr ⊢
      cases hg : gDelAtom o.mol n with
      | error e => simp [hg] at herr
      | ok m' =>
        simp only [hg] at herr ⊢
        exact runFn_linv (lab_noBk hL ("MoleculeContainer.delete_atom", []) (by decide)) hl ho.bk
          (fun hout => relabel_fresh hK hM ⟨"MoleculeContainer.delete_atom", [], false, true⟩ (by decide) rfl rfl ho (by simp)
            hout herr) hw.lab
    | delBond oi a b skip =>
      have : skip = false := by simpa [isPublic] using hpub
      subst this
      simp only at herr ⊢
      cases hg : gDelBond o.mol a b with
      | error e => simp [hg] at herr
      | ok m' =>
        simp only [hg] at herr ⊢
        exact runFn_linv (lab_noBk hL ("MoleculeContainer.delete_bond", []) (by decide)) hl ho.bk
          (fun hout => relabel_fresh hK hM ⟨"MoleculeContainer.delete_bond", [], false, true⟩ (by decide) rfl rfl ho (by simp)
            hout herr) hw.lab
    | remap oi mp =>
      simp only at herr ⊢
      cases hg : gRemap o.mol mp with
      | error e => simp [hg] at herr
      | ok m' =>
        simp only [hg] at herr ⊢
        obtain ⟨hm', hinj⟩ := gRemap_eq hg
        refine runFn_linv (lab_noBk hL ("Graph.remap", []) (by decide)) hl ho.bk (fun hout => ?_) hw.lab
        refine frame_fresh (lab_frame hL ("Graph.remap", []) (by decide)) (hl.live hout) ?_
        intro m'' hm''
        simp only [Option.some.injEq] at hm''
        subst hm''
        have h1 : o.labels = some (snapOf o.mol) := (labelsFresh_iff _).mp (hl.live hout)
        simp only [editLabels, h1, Option.map_some]
        rw [remap_snap hwf.1 hinj, hm']
    | fixStructure oi r =>
      simp only at herr ⊢
      cases r with
      | true =>
        exact runFn_linv (lab_noBk hL ("MoleculeContainer.fix_structure", [("recalculate_hydrogens", true)]) (by decide)) hl ho.bk
          (fun hout => relabel_fresh hK hM ⟨"MoleculeContainer.fix_structure", [("recalculate_hydrogens", true)], false, true⟩
            (by decide) rfl rfl ho (by simp) hout herr) hw.lab
      | false =>
        exact runFn_linv (lab_noBk hL ("MoleculeContainer.fix_structure", [("recalculate_hydrogens", false)]) (by decide)) hl ho.bk
          (fun hout => relabel_fresh hK hM ⟨"MoleculeContainer.fix_structure", [("recalculate_hydrogens", false)], true, true⟩
            (by decide) rfl rfl ho (fun _ => hpre') hout herr) hw.lab
    | calcLabels oi =>
      exact runFn_linv (lab_noBk hL ("MoleculeContainer.calc_labels", []) (by decide)) hl ho.bk
        (fun hout => relabel_fresh hK hM ⟨"MoleculeContainer.calc_labels", [], true, true⟩ (by decide) rfl rfl ho
          (fun _ => hpre') hout herr) hw.lab
    | fixStereo oi =>
      refine runFn_linv (lab_noBk hL ("MoleculeStereo.fix_stereo", []) (by decide)) hl ho.bk (fun hout => ?_) hw.lab
      exact frame_fresh (lab_frame hL ("MoleculeStereo.fix_stereo", []) (by decide)) (hl.live hout)
        (fun m' hm' => by simp at hm')
    | cleanStereo oi =>
      refine runFn_linv (lab_noBk hL ("MoleculeStereo.clean_stereo", []) (by decide)) hl ho.bk (fun hout => ?_) hw.lab
      exact frame_fresh (lab_frame hL ("MoleculeStereo.clean_stereo", []) (by decide)) (hl.live hout)
        (fun m' hm' => by simp at hm')
    | copy oi kS kC =>
      have hget' : w.objs[oi]? = some o := hget
      simp only [labelPre, hget', Bool.not_eq_true'] at hlp
      have hout := inv_out ho hlp
      simp only at herr ⊢
      split at herr
      · simp at herr
      · rename_i hdeep
        simp only [hdeep, if_false, Bool.false_eq_true]
        simp only [slotsOK, Bool.and_eq_true] at hS
        have h2 : "_backup" ∈ T.copySlots := by simpa using hS.1.1.1.1.1.1.1.1.1.2
        refine linv_append hw.lab ⟨fun _ => ?_, fun bk hbk => ?_⟩
        · obtain ⟨hm, _, hlab, _⟩ := copyCore_fields T o.toCore w.vecs kS kC
          rw [labelsFresh_congr (c2 := o.toCore) (by simp only [copyObj]; exact hm) (by simp only [copyObj]; exact hlab)]
          exact hl.live hout
        · simp [copyObj, h2] at hbk
    | flush oi kS kC =>
      exact linv_set w.vecs hw.lab (linv_congr (o := o) rfl rfl rfl hl)
    | setMeta oi k v =>
      exact linv_set w.vecs hw.lab (linv_congr (o := o) rfl rfl rfl hl)
    | read oi k =>
      refine linv_set w.vecs hw.lab (linv_congr (o := o) (readKey_mol _ _ _ _ _) ?_ (readKey_backup _ _ _ _ _) hl)
      unfold readKey; split <;> rfl
    | setXY oi n x y =>
      simp only at herr ⊢
      cases hlk : o.xy.lookup n with
      | none => simp [hlk] at herr
      | some a => simp only [hlk]; exact hw.lab
    | setCharge oi n ch =>
      simp only at herr ⊢
      split at herr
      · simp at herr
      · split at herr
        · simp at herr
        · rename_i h1 h2
          simp only [h1, h2, if_false, Bool.false_eq_true]
          have hin : ∃ b, o.backup = some (some b) := by
            rcases ho.bk with hb | hb
            · simp [inTxn, hb] at hpre'
            · exact hb
          exact linv_set w.vecs hw.lab (linv_txn (o := o) rfl hin hl)
    | setRadical oi n r =>
      simp only at herr ⊢
      split at herr
      · simp at herr
      · rename_i h1
        simp only [h1, if_false, Bool.false_eq_true]
        have hin : ∃ b, o.backup = some (some b) := by
          rcases ho.bk with hb | hb
          · simp [inTxn, hb] at hpre'
          · exact hb
        exact linv_set w.vecs hw.lab (linv_txn (o := o) rfl hin hl)
    | enter oi =>
      simp only at herr ⊢
      have hout := inv_out ho hpre'
      rw [runFn_world]
      refine linv_set _ hw.lab ?_
      simp only [LabelsOK, Bool.and_eq_true] at hL
      have hk := interp_K (T := T) (cx := { obs := obs }) _ { o := o, vecs := w.vecs } hL.1.2
        ⟨hl.live hout, fun bk hbk => by rw [hout] at hbk; cases hbk⟩
      exact ⟨fun _ => hk.1, hk.2⟩
    | exitOk oi =>
      simp only at herr ⊢
      have hacc := hEx
      unfold exitOK analyse at hacc
      simp only [Bool.and_eq_true] at hacc
      cases han : absRun T false false (expand T.fns expandFuel "MoleculeContainer.__exit__#ok" []) (entryAbs true false) with
      | none => simp [han] at hacc
      | some A' =>
        have hacc1 := hacc.1
        simp only [han, Bool.and_eq_true, beq_iff_eq, Bool.not_eq_true'] at hacc1
        have hg := gamma_entry ho false (by simp)
        rw [hpre'] at hg
        obtain ⟨c, hi⟩ := runFn_ok herr
        have hg' := interp_sound hK _ _ { o := o, vecs := w.vecs } A' c hg han hi
        rw [runFn_world, hi]
        refine linv_set _ hw.lab ⟨fun _ => hg'.lab hacc1.1.2, fun bk hbk => ?_⟩
        have hb := hg'.bk
        rw [hacc1.1.1.2] at hb
        simp only [bkRel, Res.cfg] at hb hbk
        rw [hb] at hbk; cases hbk
    | exitExc oi =>
      have hget' : w.objs[oi]? = some o := hget
      have hin : ∃ b, o.backup = some (some b) := by
        rcases ho.bk with hb | hb
        · simp [inTxn, hb] at hpre'
        · exact hb
      obtain ⟨bk, hbk⟩ := hin
      have herr' : (step T w (.exitExc oi) obs).err = none := by
        unfold step; simp only [Op.target, hget']; exact herr
      obtain ⟨o', hg', hcore, _, hbn⟩ := exitExc_restores hT hget' hbk herr'
      unfold step at hg'
      simp only [Op.target, hget'] at hg'
      simp only at herr ⊢
      rw [runFn_world] at hg' ⊢
      rw [getElem?_setObj_self _ hget'] at hg'
      simp only [Option.some.injEq] at hg'
      rw [hg']
      refine linv_set _ hw.lab ⟨fun _ => ?_, fun b hb => by rw [hbn] at hb; cases hb⟩
      rw [hcore]
      exact hl.snap bk hbk
    | union oi p rmp cp =>
      have hget' : w.objs[oi]? = some o := hget
      simp only at herr ⊢
      cases hgp : w.objs[p]? with
      | none => simp [hgp] at herr
      | some other =>
        have hoth : Inv other := hw.inv other (mem_of_get hgp)
        have hwfo : ObjWF other := hw.wf other (mem_of_get hgp)
        have hlo : LInv other := hw.lab other (mem_of_get hgp)
        simp only [labelPre, hget', hgp] at hlp
        simp only [hgp] at herr ⊢
        split at herr
        · simp at herr
        · rename_i h1
          split at herr
          · simp at herr
          · rename_i h2
            simp only [h1, h2, if_false, Bool.false_eq_true]
            have hov' : (o.mol.ids.any other.mol.hasAtom && !rmp) = false := by
              cases hq : (o.mol.ids.any other.mol.hasAtom && !rmp) with
              | false => rfl
              | true => exact absurd hq h1
            simp only [slotsOK, Bool.and_eq_true] at hS
            have hs2 : "_backup" ∈ T.copySlots := by simpa using hS.1.1.1.1.1.1.1.1.1.2
            cases cp with
            | true =>
              simp only [if_true, Bool.and_eq_true, Bool.not_eq_true'] at hlp ⊢
              have hfo := hl.live (inv_out ho hlp.1)
              have hfother := hlo.live (inv_out hoth hlp.2)
              refine linv_append hw.lab ⟨fun _ => ?_, fun bk hbk => ?_⟩
              · rw [labelsFresh_iff]
                exact union_edit_labels T w.vecs rmp hwf.1 hwfo.1 hov' hfo hfother
              · simp [copyObj, hs2] at hbk
            | false =>
              simp only [if_false, Bool.false_eq_true, Bool.or_eq_true, Bool.not_eq_true'] at hlp herr ⊢
              have key : ∀ (f : String × List (String × Bool)), f ∈ nonTxnFns → f ∈ frameFns →
                  (∀ x ∈ (runFn T { w with vecs := (copyObj T other w.vecs false false).2 } oi o
                    { editMol := some ⟨o.mol.atoms ++ (mapMol (mapId (if o.mol.ids.any other.mol.hasAtom then unionMap o.mol other.mol else [])) other.mol).atoms,
                        o.mol.adj ++ (mapMol (mapId (if o.mol.ids.any other.mol.hasAtom then unionMap o.mol other.mol else [])) other.mol).adj⟩,
                      editExtra := some { (copyObj T other w.vecs false false).1.toCore with
                        mol := mapMol (mapId (if o.mol.ids.any other.mol.hasAtom then unionMap o.mol other.mol else [])) other.mol,
                        xy := remapKeys (if o.mol.ids.any other.mol.hasAtom then unionMap o.mol other.mol else []) (copyObj T other w.vecs false false).1.xy,
                        hs := remapKeys (if o.mol.ids.any other.mol.hasAtom then unionMap o.mol other.mol else []) (copyObj T other w.vecs false false).1.hs,
                        labels := (copyObj T other w.vecs false false).1.labels.map
                          (LSnap.remap (if o.mol.ids.any other.mol.hasAtom then unionMap o.mol other.mol else [])) },
                      obs := obs } f.1 f.2).w.objs, LInv x) := by
                intro f hf1 hf2
                refine runFn_linv (lab_noBk hL f hf1) hl ho.bk (fun hout => ?_) hw.lab
                have htx : inTxn o = false := by simp [inTxn, hout]
                have hothout : other.backup = some none := by
                  rcases hlp with hlp | hlp
                  · rw [htx] at hlp; cases hlp
                  · exact inv_out hoth hlp
                refine frame_fresh (lab_frame hL f hf2) (hl.live hout) ?_
                intro m'' hm''
                simp only [Option.some.injEq] at hm''
                subst hm''
                simp only [editLabels]
                exact union_edit_labels T w.vecs rmp hwf.1 hwfo.1 hov' (hl.live hout) (hlo.live hothout)
              cases rmp with
              | true => exact key ("MoleculeContainer.union", [("copy", false), ("remap", true)]) (by decide) (by decide)
              | false => exact key ("MoleculeContainer.union", [("copy", false), ("remap", false)]) (by decide) (by decide)
    | substructure oi atoms recalc =>
      simp only at herr ⊢
      split at herr
      · simp at herr
      · rename_i h1
        split at herr
        · simp at herr
        · rename_i h2
          split at herr
          · simp at herr
          · rename_i h3
            simp only [h1, h2, h3, if_false, Bool.false_eq_true]
            split at herr
            · simp at herr
            · rename_i h4
              simp only [h4, if_false, Bool.false_eq_true] at herr ⊢
              simp only [slotsOK, Bool.and_eq_true] at hS
              have hs3 : "_changed" ∈ T.subSlots := by simpa using hS.1.1.1.1.1.1.1.1.2
              have hs4 : "_backup" ∈ T.subSlots := by simpa using hS.1.1.1.1.1.1.1.2
              simp only [subOK, Bool.and_eq_true, List.all_eq_true] at hSub
              have hso := hSub.2 recalc (by cases recalc <;> simp)
              simp only [LabelsOK, Bool.and_eq_true, List.all_eq_true] at hL
              have hlo := hL.2 recalc (by cases recalc <;> simp)
              unfold subRun at hso hlo
              generalize hsub : (subObj T o w.vecs atoms recalc).1 = sub at herr ⊢
              have hsc : sub.cache = [] := by rw [← hsub]; rfl
              have hsch : sub.changed = some none := by rw [← hsub]; simp [subObj, hs3]
              have hsb : sub.backup = some none := by rw [← hsub]; simp [subObj, hs4]
              have hgs : Gamma newAbs sub := by
                refine ⟨fun K _ e he => ?_, fun K _ e he => ?_, fun hl => by simp [newAbs] at hl, ?_, fun _ => by rw [hsch]; simp,
                  fun bk hbk => by rw [hsb] at hbk; cases hbk⟩
                · have : e ∈ sub.cache := he
                  rw [hsc] at this; cases this
                · have : e ∈ sub.cache := he
                  rw [hsc] at this; cases this
                · simp [newAbs, bkRel, hsb]
              generalize hv : (subObj T o w.vecs atoms recalc).2 = v' at herr ⊢
              cases ha1 : absRun T false false (expand T.fns expandFuel "MoleculeContainer.fix_structure"
                  [("recalculate_hydrogens", recalc)]) newAbs with
              | none => simp [ha1] at hso
              | some A1 =>
                simp only [ha1, Option.bind_some] at hso hlo
                cases ha2 : absRun T false false (expand T.fns expandFuel "MoleculeStereo.fix_stereo" []) A1 with
                | none => simp [ha2] at hso
                | some A2 =>
                  simp only [ha2, Bool.and_eq_true, beq_iff_eq, Bool.not_eq_true'] at hso hlo
                  generalize hr1 : runFn T { objs := w.objs ++ [sub], vecs := v' } w.objs.length sub { obs := obs }
                    "MoleculeContainer.fix_structure" [("recalculate_hydrogens", recalc)] = r1 at herr ⊢
                  cases he1 : r1.err with
                  | some e1 => simp [he1] at herr
                  | none =>
                    obtain ⟨o1, v1, hw1, hg1⟩ := runFn_gamma (cx := { obs := obs }) (w := { objs := w.objs ++ [sub], vecs := v' })
                      (i := w.objs.length) hK hgs ha1 (by rw [hr1]; exact he1)
                    rw [hr1] at hw1
                    have hj : r1.w.objs[w.objs.length]? = some o1 := by
                      rw [hw1]; exact get_setObj_last w sub o1 v1 v'
                    simp only [he1, hj] at herr ⊢
                    obtain ⟨o2, v2, hw2, hg2⟩ := runFn_gamma (cx := { obs := obs }) (w := r1.w) (i := w.objs.length) hK hg1 ha2 herr
                    rw [hw2, hw1, setObj_setObj]
                    have hb2 := hg2.bk
                    rw [hso.1.2] at hb2
                    simp only [bkRel] at hb2
                    have hset : (w.objs ++ [sub]).set w.objs.length o2 = w.objs ++ [o2] := by simp
                    show ∀ x ∈ (w.objs ++ [sub]).set w.objs.length o2, LInv x
                    rw [hset]
                    exact linv_append hw.lab ⟨fun _ => hg2.lab hlo, fun bk hbk => by rw [hb2] at hbk; cases hbk⟩

end ChythonModel.Proofs.C13
