import ChythonModel.Spec.CycleBasisMin
import ChythonModel.Proofs.C06Exchange
import ChythonModel.Proofs.C06Gauss


/-!
# C06 — minimality relative to the Horton family: ring-level corollaries of the exchange criterion
-/
namespace ChythonModel.Proofs.C06
open ChythonModel.Model.C06 ChythonModel.Spec.CycleBasis
theorem wvecs_snd (g : Adj) (R : List (List Nat)) : (wvecs g R).map (·.2) = R.map (ringVec (edgeList g)) := by
  simp [wvecs, List.map_map, Function.comp_def]

theorem totalLen_wvecs (g : Adj) (R : List (List Nat)) : totalLen (wvecs g R) = totalSize R := by
  simp [wvecs, totalLen, totalSize, List.map_map, Function.comp_def]

theorem sssr_minimal_wrt_horton_proof (g : Adj) (rings : List (List Nat))
    (hi : Independent (rings.map (ringVec (edgeList g)))) (hm : checkMinimalHorton g rings = true)
    (R' : List (List Nat)) (hsub : ∀ r ∈ R', r ∈ hortonFamily g)
    (hi' : Independent (R'.map (ringVec (edgeList g)))) (hlen : R'.length = rings.length) :
    totalSize rings ≤ totalSize R' := by
  have := checkMinimalWrt_sound (wvecs g rings) (wvecs g (hortonFamily g)) (by rw [wvecs_snd]; exact hi) hm
    (wvecs g R') ?_ (by rw [wvecs_snd]; exact hi') (by simp [wvecs, hlen])
  · rwa [totalLen_wvecs, totalLen_wvecs] at this
  · intro c hc
    simp only [wvecs, List.mem_map] at hc ⊢
    obtain ⟨r, hr, rfl⟩ := hc
    exact ⟨r, hsub r hr, rfl⟩

theorem sssr_minimum_of_horton_complete_proof (g : Adj) (rings : List (List Nat)) (hH : HortonComplete g)
    (hb : IsCycleBasis g rings) (hm : checkMinimalHorton g rings = true) (R : List (List Nat))
    (hR : IsCycleBasis g R) : totalSize rings ≤ totalSize R := by
  obtain ⟨R', hsub, hR', hle⟩ := hH R hR
  have hlen : R'.length = rings.length := by
    have h1 := hR'.2.2
    have h2 := hb.2.2
    rw [h1] at h2
    have h3 : (R'.length : Int) = (rings.length : Int) := Option.some.inj h2
    omega
  exact Nat.le_trans (sssr_minimal_wrt_horton_proof g rings hb.2.1 hm R' hsub hR'.2.1 hlen) hle

end ChythonModel.Proofs.C06
