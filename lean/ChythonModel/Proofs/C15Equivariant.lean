import ChythonModel.Proofs.C15Compose
/-!
Equivariance of `composeWith` / `compose` under an injective renumbering applied to both sides.
-/
namespace ChythonModel.Proofs.C15
open ChythonModel.Model ChythonModel.Model.C15

/-- renumbering of a condensed graph -/
def renameCGR (f : Nat → Nat) (h : CGR) : CGR :=
  ⟨h.atoms.map fun na => (f na.1, na.2), h.adj.map fun nl => (f nl.1, nl.2.map fun kb => (f kb.1, kb.2))⟩

def mapExcept {α β : Type} (g : α → β) : Except String α → Except String β
  | .ok a => .ok (g a)
  | .error e => .error e

section
variable (f : Nat → Nat) (hf : Function.Injective f)
include hf

theorem beq_inj (a b : Nat) : (f a == f b) = (a == b) := by
  by_cases h : a = b
  · rw [h, beq_self_eq_true, beq_self_eq_true]
  · have : f a ≠ f b := fun e => h (hf e)
    rw [beq_eq_false_iff_ne.mpr h, beq_eq_false_iff_ne.mpr this]

theorem contains_map_inj (l : List Nat) (m : Nat) : (l.map f).contains (f m) = l.contains m := by
  induction l with
  | nil => rfl
  | cons a tl ih =>
    simp only [List.map_cons, List.contains_cons, ih]
    rw [beq_inj f hf m a]

theorem lookup_map_inj {α : Type} (l : List (Nat × α)) (n : Nat) :
    (l.map fun e => (f e.1, e.2)).lookup (f n) = l.lookup n := by
  induction l with
  | nil => rfl
  | cons a tl ih =>
    obtain ⟨k, v⟩ := a
    simp only [List.map_cons, List.lookup, beq_inj f hf n k, ih]

theorem lookup_map_inj2 {α β : Type} (g : α → β) (l : List (Nat × α)) (n : Nat) :
    (l.map fun e => (f e.1, g e.2)).lookup (f n) = (l.lookup n).map g := by
  induction l with
  | nil => rfl
  | cons a tl ih =>
    obtain ⟨k, v⟩ := a
    simp only [List.map_cons, List.lookup, beq_inj f hf n k, ih]
    split <;> simp

theorem atom_rename (g : Mol) (n : Nat) : (rename f g).atom? (f n) = g.atom? n := by
  unfold Mol.atom? rename
  exact lookup_map_inj f hf g.atoms n

theorem hasAtom_rename (g : Mol) (n : Nat) : (rename f g).hasAtom (f n) = g.hasAtom n := by
  unfold Mol.hasAtom rename
  simp only [List.any_map]
  congr 1
  funext x
  simp only [Function.comp]
  exact beq_inj f hf x.1 n

theorem ids_rename (g : Mol) : (rename f g).ids = g.ids.map f := by
  simp [Mol.ids, rename, List.map_map, Function.comp_def]

theorem nbrs_rename (g : Mol) (n : Nat) :
    (rename f g).nbrs (f n) = (g.nbrs n).map fun kb => (f kb.1, kb.2) := by
  unfold Mol.nbrs rename
  simp only
  rw [lookup_map_inj2 f hf (fun (l : List (Nat × Bond)) => l.map fun kb => (f kb.1, kb.2)) g.adj n]
  cases g.adj.lookup n <;> simp

theorem sideRow_rename (g : Mol) (cs : List Nat) (formed : Bool) (n : Nat) :
    sideRow (rename f g) (cs.map f) formed (f n) = (sideRow g cs formed n).map fun e => (f e.1, e.2) := by
  unfold sideRow
  rw [nbrs_rename f hf]
  simp only [List.map_map, Function.comp_def, contains_map_inj f hf]

theorem filter_map_key {α : Type} (l : List (Nat × α)) (P : Nat → Bool) (Q : Nat → Bool) (h : ∀ k, Q (f k) = P k) :
    (l.map fun e => (f e.1, e.2)).filter (fun e => Q e.1) = (l.filter fun e => P e.1).map fun e => (f e.1, e.2) := by
  induction l with
  | nil => rfl
  | cons a tl ih =>
    simp only [List.map_cons, List.filter_cons, h a.1]
    split <;> simp [ih]

theorem adjRow_rename (r p : Mol) (cs : List Nat) (n : Nat) :
    adjRow (rename f r) (rename f p) (cs.map f) (f n) = (adjRow r p cs n).map fun e => (f e.1, e.2) := by
  unfold adjRow
  simp only [nbrs_rename f hf]
  rw [filter_map_key f hf (r.nbrs n) (fun k => cs.contains k) (fun k => (cs.map f).contains k)
        (fun k => contains_map_inj f hf cs k),
      filter_map_key f hf (p.nbrs n) (fun k => cs.contains k) (fun k => (cs.map f).contains k)
        (fun k => contains_map_inj f hf cs k)]
  simp only [List.map_append, List.map_map, Function.comp_def]
  congr 1
  · apply List.map_congr_left
    intro e _
    simp only [lookup_map_inj f hf]
  · have hany : ∀ k, ((List.filter (fun mb => cs.contains mb.1) (r.nbrs n)).map fun e => (f e.1, e.2)).any
        (fun x => x.1 == f k) = (List.filter (fun mb => cs.contains mb.1) (r.nbrs n)).any (fun x => x.1 == k) := by
      intro k
      simp only [List.any_map, Function.comp_def, beq_inj f hf]
    rw [filter_map_key f hf _ (fun k => !(List.filter (fun mb => cs.contains mb.1) (r.nbrs n)).any (fun x => x.1 == k))
      (fun k' => !((List.filter (fun mb => cs.contains mb.1) (r.nbrs n)).map fun e => (f e.1, e.2)).any (fun x => x.1 == k'))
      (fun k => by simp only [hany])]
    simp only [List.map_map, Function.comp_def]

theorem pairLoop_inner_rename {β : Type} (a : Nat) (ha : List Nat) (l : List (Nat × β)) :
    (l.map fun e => (f e.1, e.2)).filterMap
        (fun e => if (f a :: ha.map f).contains e.1 then none else some (f a, e.1, e.2)) =
      (l.filterMap fun e => if (a :: ha).contains e.1 then none else some (a, e.1, e.2)).map
        fun t => (f t.1, f t.2.1, t.2.2) := by
  have hc : ∀ k, (f a :: ha.map f).contains (f k) = (a :: ha).contains k := by
    intro k
    have := contains_map_inj f hf (a :: ha) k
    simpa using this
  induction l with
  | nil => rfl
  | cons e tl ih =>
    simp only [List.map_cons, List.filterMap_cons, hc e.1]
    by_cases hm : (a :: ha).contains e.1 = true
    · simp only [hm, if_true]; exact ih
    · simp only [hm, Bool.false_eq_true, if_false, List.map_cons, ih]

theorem pairLoop_rename {β : Type} (row row' : Nat → List (Nat × β))
    (hrow : ∀ n, row' (f n) = (row n).map fun e => (f e.1, e.2)) (ns : List Nat) :
    ∀ ha, pairLoop row' (ha.map f) (ns.map f) = (pairLoop row ha ns).map fun t => (f t.1, f t.2.1, t.2.2) := by
  induction ns with
  | nil => intro ha; rfl
  | cons a rest ih =>
    intro ha
    simp only [List.map_cons, pairLoop, List.map_append]
    have := ih (a :: ha)
    simp only [List.map_cons] at this
    rw [this, hrow a, pairLoop_inner_rename f hf a ha (row a)]

omit hf in
theorem mapE_map_comm {α α' β β' : Type} (f1 : α → Except String β) (f2 : α' → Except String β') (g : α → α')
    (G : β → β') (h : ∀ a, f2 (g a) = mapExcept G (f1 a)) (l : List α) :
    mapE f2 (l.map g) = mapExcept (List.map G) (mapE f1 l) := by
  induction l with
  | nil => rfl
  | cons a tl ih =>
    simp only [List.map_cons, mapE, h a, ih]
    cases f1 a with
    | error e => rfl
    | ok b =>
      simp only [mapExcept]
      cases mapE f1 tl with
      | error e => rfl
      | ok bs => rfl

theorem sideAtom_rename (g : Mol) (n : Nat) :
    sideAtom (rename f g) (f n) = mapExcept (fun y => (f y.1, y.2)) (sideAtom g n) := by
  unfold sideAtom
  rw [atom_rename f hf]
  cases g.atom? n <;> rfl

theorem commonAtom_rename (r p : Mol) (n : Nat) :
    commonAtom (rename f r) (rename f p) (f n) = mapExcept (fun y => (f y.1, y.2)) (commonAtom r p n) := by
  unfold commonAtom
  rw [atom_rename f hf, atom_rename f hf]
  cases r.atom? n <;> cases p.atom? n <;> try rfl
  rename_i a b
  simp only
  cases fromAtoms a b <;> rfl

omit hf in
theorem commonBond_rename (t : Nat × Nat × Option Nat × Option Nat) :
    commonBond (f t.1, f t.2.1, t.2.2) = mapExcept (fun y => (f y.1, f y.2.1, y.2.2)) (commonBond t) := by
  unfold commonBond
  simp only
  cases mkDynBond t.2.2.1 t.2.2.2 <;> rfl

theorem adjOf_rename (keys : List Nat) (B : List (Nat × Nat × DynBond)) :
    adjOf (keys.map f) (B.map fun t => (f t.1, f t.2.1, t.2.2)) =
      (adjOf keys B).map fun nl => (f nl.1, nl.2.map fun kb => (f kb.1, kb.2)) := by
  unfold adjOf
  simp only [List.map_map, Function.comp_def]
  apply List.map_congr_left
  intro k _
  simp only [Prod.mk.injEq, true_and]
  induction B with
  | nil => rfl
  | cons t tl ih =>
    simp only [List.map_cons, List.filterMap_cons, beq_inj f hf]
    by_cases h1 : t.1 = k
    · simp only [h1, beq_self_eq_true, if_true, List.map_cons, ih]
    · by_cases h2 : t.2.1 = k
      · simp only [beq_eq_false_iff_ne.mpr h1, h2, beq_self_eq_true, if_true, Bool.false_eq_true, if_false,
          List.map_cons, ih]
      · simp only [beq_eq_false_iff_ne.mpr h1, beq_eq_false_iff_ne.mpr h2, Bool.false_eq_true, if_false, ih]

/-- **equivariance of `composeWith`**: renumbering both sides (and the iteration orders) renumbers the result -/
theorem composeWith_rename (ls fs cs : List Nat) (r p : Mol) :
    composeWith (ls.map f) (fs.map f) (cs.map f) (rename f r) (rename f p) =
      mapExcept (renameCGR f) (composeWith ls fs cs r p) := by
  unfold composeWith
  rw [mapE_map_comm (sideAtom r) (sideAtom (rename f r)) f _ (sideAtom_rename f hf r) ls,
      mapE_map_comm (sideAtom p) (sideAtom (rename f p)) f _ (sideAtom_rename f hf p) fs,
      mapE_map_comm (commonAtom r p) (commonAtom (rename f r) (rename f p)) f _ (commonAtom_rename f hf r p) cs]
  have hrev : (fs.map f).reverse ++ (ls.map f).reverse = (fs.reverse ++ ls.reverse).map f := by
    simp [List.map_reverse]
  rw [hrev, pairLoop_rename f hf (adjRow r p cs) (adjRow (rename f r) (rename f p) (cs.map f))
        (adjRow_rename f hf r p cs) cs (fs.reverse ++ ls.reverse),
      mapE_map_comm commonBond commonBond (fun t => (f t.1, f t.2.1, t.2.2)) _ (commonBond_rename f)]
  have hb1 := pairLoop_rename f hf (sideRow r cs false) (sideRow (rename f r) (cs.map f) false)
    (sideRow_rename f hf r cs false) ls []
  have hb2 := pairLoop_rename f hf (sideRow p cs true) (sideRow (rename f p) (cs.map f) true)
    (sideRow_rename f hf p cs true) fs ls.reverse
  simp only [List.map_nil, List.map_reverse] at hb1 hb2
  cases mapE (sideAtom r) ls with
  | error e => rfl
  | ok la =>
    cases mapE (sideAtom p) fs with
    | error e => rfl
    | ok fa =>
      cases mapE (commonAtom r p) cs with
      | error e => rfl
      | ok ca =>
        cases mapE commonBond (pairLoop (adjRow r p cs) (fs.reverse ++ ls.reverse) cs) with
        | error e => rfl
        | ok b3 =>
          simp only [mapExcept, renameCGR, Except.ok.injEq, CGR.mk.injEq, List.map_append, true_and]
          rw [hb1, hb2, ← List.map_append, ← List.map_append, ← List.map_append, ← List.map_append,
            adjOf_rename f hf]

theorem filter_ids_rename (l : List Nat) (g : Mol) (neg : Bool) :
    (l.map f).filter (fun n => (rename f g).hasAtom n != neg) = (l.filter fun n => g.hasAtom n != neg).map f := by
  induction l with
  | nil => rfl
  | cons a tl ih =>
    simp only [List.map_cons, List.filter_cons, hasAtom_rename f hf, ih]
    split <;> simp

/-- **equivariance of `compose`** (dict iteration order) -/
theorem compose_rename (r p : Mol) :
    compose (rename f r) (rename f p) = mapExcept (renameCGR f) (compose r p) := by
  unfold compose
  have h1 : cleavedIds (rename f r) (rename f p) = (cleavedIds r p).map f := by
    unfold cleavedIds
    rw [ids_rename f hf]
    have := filter_ids_rename f hf r.ids p true
    simpa [bne] using this
  have h2 : formedIds (rename f r) (rename f p) = (formedIds r p).map f := by
    unfold formedIds
    rw [ids_rename f hf]
    have := filter_ids_rename f hf p.ids r true
    simpa [bne] using this
  have h3 : commonIds (rename f r) (rename f p) = (commonIds r p).map f := by
    unfold commonIds
    rw [ids_rename f hf]
    have := filter_ids_rename f hf r.ids p false
    simpa [bne] using this
  rw [h1, h2, h3, composeWith_rename f hf]

theorem center_rename (h : CGR) (n : Nat) : f n ∈ (renameCGR f h).centerAtoms ↔ n ∈ h.centerAtoms := by
  unfold CGR.centerAtoms renameCGR
  simp only [List.mem_eraseDups, List.mem_append, List.mem_filterMap, List.mem_map]
  constructor
  · rintro (⟨a, ⟨b, hb, rfl⟩, ha⟩ | ⟨a, ⟨b, hb, rfl⟩, ha⟩)
    · left
      simp only at ha
      split at ha
      · rename_i hd; simp only [Option.some.injEq] at ha
        exact ⟨b, hb, by simp [hd, hf ha]⟩
      · cases ha
    · right
      simp only [List.any_map, Function.comp_def] at ha
      split at ha
      · rename_i hd; simp only [Option.some.injEq] at ha
        exact ⟨b, hb, by simp [hd, hf ha]⟩
      · cases ha
  · rintro (⟨b, hb, ha⟩ | ⟨b, hb, ha⟩)
    · left
      refine ⟨_, ⟨b, hb, rfl⟩, ?_⟩
      simp only
      split at ha
      · rename_i hd; simp only [Option.some.injEq] at ha; simp [hd, ha]
      · cases ha
    · right
      refine ⟨_, ⟨b, hb, rfl⟩, ?_⟩
      simp only [List.any_map, Function.comp_def]
      split at ha
      · rename_i hd; simp only [Option.some.injEq] at ha; simp [hd, ha]
      · cases ha

end

end ChythonModel.Proofs.C15
