import ChythonModel.Model.Standardize
/-!
# C14 — the lazily resumed matcher is C07's stack machine

`resume` (what `__standardize` drives between its mutations) performs exactly the transitions of `Iso.runLoop`, the model of
`_get_mapping` that C07's soundness / completeness theorems are about. On an environment that does not change — between
two mutations, for rules that never fire, for `_neutralize` — draining the generator with `resume` yields exactly the
list `Iso.runLoop` returns.
-/
namespace ChythonModel.Proofs.C14
open ChythonModel.Model ChythonModel.Model.Std

/-- drain a generator whose environment is not mutated: all dicts it yields, in order (`k` bounds the number of yields,
    `F` the work between two yields) -/
def collect (e : Iso.Env) (size F : Nat) : Nat → MState → Option (List Iso.Dict)
  | 0, _ => none
  | k+1, ms =>
    match resume e size F ms with
    | none => none
    | some none => some []
    | some (some (d, ms')) => (collect e size F k ms').map (d :: ·)

/-- one iteration of `Iso.runLoop` is `step` -/
theorem runLoop_step (e : Iso.Env) (size fuel n depth : Nat) (stack : List (Nat × Nat)) (path : List Nat)
    (mapping rmapping : Iso.Dict) (acc : List Iso.Dict) :
    Iso.runLoop e size (fuel + 1) ((n, depth) :: stack) path mapping rmapping acc =
      match step e size n depth stack path mapping rmapping with
      | none => none
      | some (.yield d) => Iso.runLoop e size fuel stack path mapping rmapping (d :: acc)
      | some (.next ms) => Iso.runLoop e size fuel ms.stack ms.path ms.mapping ms.rmapping acc := by
  rw [Iso.runLoop, step]
  cases e.lq[depth]? with
  | none => rfl
  | some cur =>
    simp only
    by_cases hd : (depth == size) = true
    · simp only [hd, if_true]
    · simp only [hd, Bool.false_eq_true, if_false]
      cases Iso.stepDown e depth n cur.front path mapping rmapping with
      | none => rfl
      | some r => rfl

theorem resume_succ (e : Iso.Env) (size : Nat) : ∀ (F : Nat) (ms : MState) (r : Option (Iso.Dict × MState)),
    resume e size F ms = some r → resume e size (F + 1) ms = some r := by
  intro F
  induction F with
  | zero => intro ms r h; simp [resume] at h
  | succ F ih =>
    intro ms r h
    obtain ⟨stack, path, mapping, rmapping⟩ := ms
    cases stack with
    | nil => simpa [resume] using h
    | cons top rest =>
      obtain ⟨n, depth⟩ := top
      rw [resume] at h ⊢
      cases hs : step e size n depth rest path mapping rmapping with
      | none => simp [hs] at h
      | some st =>
        cases st with
        | yield d => simpa [hs] using h
        | next ms' =>
          simp only [hs] at h ⊢
          exact ih ms' r h

theorem collect_succ (e : Iso.Env) (size F : Nat) : ∀ (k : Nat) (ms : MState) (ys : List Iso.Dict),
    collect e size F k ms = some ys → collect e size (F + 1) k ms = some ys := by
  intro k
  induction k with
  | zero => intro ms ys h; simp [collect] at h
  | succ k ih =>
    intro ms ys h
    rw [collect] at h ⊢
    cases hr : resume e size F ms with
    | none => simp [hr] at h
    | some r =>
      rw [resume_succ e size F ms r hr]
      cases r with
      | none => simpa [hr] using h
      | some dm =>
        obtain ⟨d, ms'⟩ := dm
        simp only [hr] at h ⊢
        cases hc : collect e size F k ms' with
        | none => simp [hc] at h
        | some tl =>
          rw [ih ms' tl hc]
          simpa [hc] using h

/-- **The lazily resumed generator yields what C07's machine returns.** If `Iso.runLoop` terminates with fuel `f`, draining
    the generator with `resume` (any fuel ≥ `f` between yields, any bound ≥ `f` on the number of yields) gives exactly the
    dicts `runLoop` still had to append, in the same order. -/
theorem collect_eq_runLoop (e : Iso.Env) (size : Nat) : ∀ (f : Nat) (stack : List (Nat × Nat)) (path : List Nat)
    (mapping rmapping : Iso.Dict) (acc res : List Iso.Dict),
    Iso.runLoop e size f stack path mapping rmapping acc = some res →
    ∀ F k, f ≤ F → f ≤ k → ∃ ys, collect e size F k ⟨stack, path, mapping, rmapping⟩ = some ys ∧ res = acc.reverse ++ ys := by
  intro f
  induction f with
  | zero => intro stack path mapping rmapping acc res h; simp [Iso.runLoop] at h
  | succ f ih =>
    intro stack path mapping rmapping acc res h F k hF hk
    obtain ⟨F', rfl⟩ : ∃ F', F = F' + 1 := ⟨F - 1, by omega⟩
    obtain ⟨k', rfl⟩ : ∃ k', k = k' + 1 := ⟨k - 1, by omega⟩
    cases stack with
    | nil =>
      simp only [Iso.runLoop, Option.some.injEq] at h
      exact ⟨[], by simp [collect, resume], by simp [h]⟩
    | cons top rest =>
      obtain ⟨n, depth⟩ := top
      rw [runLoop_step] at h
      rw [collect, resume]
      cases hs : step e size n depth rest path mapping rmapping with
      | none => simp [hs] at h
      | some st =>
        cases st with
        | yield d =>
          simp only [hs] at h ⊢
          obtain ⟨ys, hc, hr⟩ := ih rest path mapping rmapping (d :: acc) res h (F' + 1) k' (by omega) (by omega)
          exact ⟨d :: ys, by simp [hc], by simp [hr]⟩
        | next ms' =>
          simp only [hs] at h ⊢
          obtain ⟨ys, hc, hr⟩ := ih ms'.stack ms'.path ms'.mapping ms'.rmapping acc res h F' (k' + 1) (by omega) (by omega)
          refine ⟨ys, ?_, hr⟩
          -- `collect F' (k'+1) ms'` and the goal differ only in the fuel of the continuation
          have hc' := collect_succ e size F' (k' + 1) ms' ys hc
          rw [collect] at hc hc'
          -- the first `resume` of both is `resume F' ms'`
          cases hr1 : resume e size F' ms' with
          | none => simp [hr1] at hc
          | some r =>
            have hr2 := resume_succ e size F' ms' r hr1
            simp only [hr2] at hc'
            cases r with
            | none => simpa using hc'
            | some dm => simpa using hc'

/-- for the generator as `__standardize` creates it (`getMapping`'s initial state and fuel): on an unchanged environment the
    drained generator is `Iso.getMapping` -/
theorem collect_eq_getMapping (e : Iso.Env) (res : List Iso.Dict) (h : Iso.getMapping e = some res) :
    collect e (e.lq.length - 1) (Iso.machineFuel e) (Iso.machineFuel e) ⟨(Iso.roots e).reverse.map (·, 0), [], [], []⟩ = some res := by
  unfold Iso.getMapping at h
  split at h
  · simp at h
  · obtain ⟨ys, hc, hr⟩ := collect_eq_runLoop e (e.lq.length - 1) (Iso.machineFuel e) _ [] [] [] [] res (by simpa using h)
      (Iso.machineFuel e) (Iso.machineFuel e) (Nat.le_refl _) (Nat.le_refl _)
    simp only [List.reverse_nil, List.nil_append] at hr
    rw [hr]
    rename_i heq
    simpa [heq] using hc

/-! ## a rule without a match is the identity -/

theorem resume_none_of_collect_nil (e : Iso.Env) (size F k : Nat) (ms : MState)
    (h : collect e size F (k + 1) ms = some []) : resume e size F ms = some none := by
  rw [collect] at h
  cases hr : resume e size F ms with
  | none => simp [hr] at h
  | some r =>
    cases r with
    | none => rfl
    | some dm =>
      obtain ⟨d, ms'⟩ := dm
      simp only [hr] at h
      cases hc : collect e size F k ms' with
      | none => simp [hc] at h
      | some tl => simp [hc] at h

/-- if C07's `getMapping` finds no mapping of the pattern into any component (with the labels / charges as they are), the
    rule loop returns the state it was given: nothing is touched, nothing is logged -/
theorem ruleLoop_no_match (r : Gen.Rules.StdRule) (ri : Nat) (lq : List Iso.Step) (cl : Iso.Closures) (L : Labels)
    (hlq : lq ≠ []) : ∀ (comps : List (List Nat)) (st : RState),
    (∀ cand ∈ comps, Iso.getMapping (envOf ⟨r.toPattern, lq, cl, L, cand⟩ st.mol) = some []) →
    ruleLoop r ri lq cl L comps st = some st := by
  intro comps
  induction comps with
  | nil => intro st _; rfl
  | cons cand rest ih =>
    intro st hall
    have h0 := hall cand (List.mem_cons_self)
    have hc := collect_eq_getMapping _ _ h0
    have hF : ∃ F, Iso.machineFuel (envOf ⟨r.toPattern, lq, cl, L, cand⟩ st.mol) = F + 1 := ⟨_, rfl⟩
    obtain ⟨F, hF⟩ := hF
    rw [ruleLoop.eq_def]
    simp only
    cases lq with
    | nil => exact absurd rfl hlq
    | cons s tl =>
      simp only
      have hres : resume (envOf ⟨r.toPattern, s :: tl, cl, L, cand⟩ st.mol) ((s :: tl).length - 1)
          (Iso.machineFuel (envOf ⟨r.toPattern, s :: tl, cl, L, cand⟩ st.mol))
          ⟨(Iso.roots (envOf ⟨r.toPattern, s :: tl, cl, L, cand⟩ st.mol)).reverse.map (·, 0), [], [], []⟩ = some none := by
        have := hc
        rw [hF] at this ⊢
        have e1 : (envOf ⟨r.toPattern, s :: tl, cl, L, cand⟩ st.mol).lq = s :: tl := rfl
        rw [e1] at this
        exact resume_none_of_collect_nil _ _ _ _ _ this
      rw [hF, drain]
      simp only
      rw [hres]
      exact ih st (fun c hcm => hall c (List.mem_cons_of_mem _ hcm))

end ChythonModel.Proofs.C14
