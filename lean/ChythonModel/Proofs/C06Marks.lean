import ChythonModel.Model.C06Rings
/-!
# `atoms_rings`, `atoms_rings_sizes` and the ring marks of `calc_labels` agree with the reported ring list
-/
namespace ChythonModel.Proofs.C06
open ChythonModel.Model ChythonModel.Model.C06

/-- `d.get(n) or []` -/
def ringsAt (d : List (Nat × List Ring)) (n : Nat) : List Ring := (d.lookup n).getD []

theorem lookup_ddAppend (d : List (Nat × List Ring)) (k : Nat) (r : Ring) (n : Nat) :
    (ddAppend d k r).lookup n = if n = k then some (ringsAt d k ++ [r]) else d.lookup n := by
  induction d with
  | nil =>
    simp only [ddAppend, List.lookup_cons, List.lookup_nil, ringsAt, Option.getD_none, List.nil_append]
    by_cases h : n = k
    · simp [h]
    · have h1 : (n == k) = false := by simpa using h
      simp [h, h1]
  | cons p tl ih =>
    obtain ⟨k', rs⟩ := p
    simp only [ddAppend]
    by_cases hk : k' = k
    · subst hk
      simp only [beq_self_eq_true, ↓reduceIte, List.lookup_cons, ringsAt, Option.getD_some]
      by_cases h : n = k'
      · simp [h]
      · have h1 : (n == k') = false := by simpa using h
        simp [h, h1]
    · have hk' : (k' == k) = false := by simpa using hk
      simp only [hk', Bool.false_eq_true, ↓reduceIte, List.lookup_cons, ih, ringsAt]
      by_cases h : n = k'
      · subst h
        have : ¬ n = k := hk
        simp [this]
      · have h1 : (n == k') = false := by simpa using h
        have h2 : (k == k') = false := by simpa using fun e : k = k' => hk e.symm
        simp [h1, h2]

theorem ringsAt_ddAppend (d : List (Nat × List Ring)) (k : Nat) (r : Ring) (n : Nat) :
    ringsAt (ddAppend d k r) n = if n = k then ringsAt d k ++ [r] else ringsAt d n := by
  unfold ringsAt
  rw [lookup_ddAppend]
  by_cases h : n = k <;> simp [h, ringsAt]

/-- the inner loop `for n in r: rings[n].append(r)` -/
def innerFold (r : Ring) (as : List Nat) (d : List (Nat × List Ring)) : List (Nat × List Ring) :=
  as.foldl (fun d n => ddAppend d n r) d

theorem mem_innerFold (r : Ring) (as : List Nat) (d : List (Nat × List Ring)) (n : Nat) (x : Ring) :
    x ∈ ringsAt (innerFold r as d) n ↔ x ∈ ringsAt d n ∨ (x = r ∧ n ∈ as) := by
  induction as generalizing d with
  | nil => simp [innerFold]
  | cons a as ih =>
    have : innerFold r (a :: as) d = innerFold r as (ddAppend d a r) := rfl
    rw [this, ih, ringsAt_ddAppend]
    by_cases h : n = a
    · subst h
      simp only [↓reduceIte, List.mem_append, List.mem_cons, List.not_mem_nil, or_false, true_or, and_true]
      constructor
      · rintro ((h | h) | h)
        · exact Or.inl h
        · exact Or.inr h
        · exact Or.inr h.1
      · rintro (h | h)
        · exact Or.inl (Or.inl h)
        · exact Or.inl (Or.inr h)
    · simp only [h, ↓reduceIte, List.mem_cons, false_or]

theorem atomsRings_eq (sssr : List Ring) :
    atomsRings sssr = sssr.foldl (fun d r => innerFold r r d) [] := rfl

theorem mem_outerFold (sssr : List Ring) (d : List (Nat × List Ring)) (n : Nat) (x : Ring) :
    x ∈ ringsAt (sssr.foldl (fun d r => innerFold r r d) d) n ↔ x ∈ ringsAt d n ∨ (x ∈ sssr ∧ n ∈ x) := by
  induction sssr generalizing d with
  | nil => simp
  | cons r rs ih =>
    simp only [List.foldl_cons, ih, mem_innerFold, List.mem_cons]
    constructor
    · rintro ((h | ⟨rfl, h⟩) | h)
      · exact Or.inl h
      · exact Or.inr ⟨Or.inl rfl, h⟩
      · exact Or.inr ⟨Or.inr h.1, h.2⟩
    · rintro (h | ⟨rfl | h, h2⟩)
      · exact Or.inl (Or.inl h)
      · exact Or.inl (Or.inr ⟨rfl, h2⟩)
      · exact Or.inr ⟨h, h2⟩

/-- `atoms_rings[n]` lists exactly the reported rings through `n` -/
theorem atomsRings_mem (sssr : List Ring) (n : Nat) (r : Ring) :
    r ∈ ((atomsRings sssr).lookup n).getD [] ↔ r ∈ sssr ∧ n ∈ r := by
  have := mem_outerFold sssr [] n r
  simpa [ringsAt, atomsRings_eq] using this

/-! ## keys -/

theorem any_key_iff {β : Type} (d : List (Nat × β)) (n : Nat) :
    d.any (·.1 == n) = true ↔ (d.lookup n).isSome = true := by
  induction d with
  | nil => simp
  | cons p tl ih =>
    obtain ⟨k, v⟩ := p
    simp only [List.any_cons, Bool.or_eq_true, beq_iff_eq, List.lookup_cons, ih]
    by_cases h : n = k
    · subst h; simp
    · have h1 : (n == k) = false := by simpa using h
      have h2 : ¬ k = n := fun e => h e.symm
      simp [h1, h2]

theorem isSome_innerFold (r : Ring) (as : List Nat) (d : List (Nat × List Ring)) (n : Nat) :
    ((innerFold r as d).lookup n).isSome = true ↔ (d.lookup n).isSome = true ∨ n ∈ as := by
  induction as generalizing d with
  | nil => simp [innerFold]
  | cons a as ih =>
    have : innerFold r (a :: as) d = innerFold r as (ddAppend d a r) := rfl
    rw [this, ih, lookup_ddAppend]
    by_cases h : n = a
    · subst h; simp
    · simp [h]

theorem isSome_outerFold (sssr : List Ring) (d : List (Nat × List Ring)) (n : Nat) :
    ((sssr.foldl (fun d r => innerFold r r d) d).lookup n).isSome = true ↔
      (d.lookup n).isSome = true ∨ ∃ r ∈ sssr, n ∈ r := by
  induction sssr generalizing d with
  | nil => simp
  | cons r rs ih =>
    simp only [List.foldl_cons, ih, isSome_innerFold, List.mem_cons, exists_eq_or_imp]
    constructor
    · rintro ((h | h) | h)
      · exact Or.inl h
      · exact Or.inr (Or.inl h)
      · exact Or.inr (Or.inr h)
    · rintro (h | h | h)
      · exact Or.inl (Or.inl h)
      · exact Or.inl (Or.inr h)
      · exact Or.inr h

/-- `n` is a key of `atoms_rings` iff some reported ring passes through it -/
theorem atomsRings_key (sssr : List Ring) (n : Nat) :
    (atomsRings sssr).any (·.1 == n) = true ↔ ∃ r ∈ sssr, n ∈ r := by
  rw [any_key_iff, atomsRings_eq, isSome_outerFold]
  simp

/-! ## sizes -/

theorem mem_dedup (l : List Nat) (x : Nat) : x ∈ dedup l ↔ x ∈ l := by
  induction l with
  | nil => simp [dedup]
  | cons a l ih =>
    simp only [dedup]
    split
    · next h =>
      have ha : a ∈ l := by simpa using h
      rw [ih, List.mem_cons]
      constructor
      · exact Or.inr
      · rintro (rfl | h)
        · exact ha
        · exact h
    · simp [ih]

theorem dedup_nodup (l : List Nat) : (dedup l).Nodup := by
  induction l with
  | nil => simp [dedup]
  | cons a l ih =>
    simp only [dedup]
    split
    · exact ih
    · next h =>
      have ha : a ∉ l := by simpa using h
      exact List.nodup_cons.2 ⟨fun hm => ha ((mem_dedup l a).1 hm), ih⟩

theorem lookup_map_snd {β γ : Type} (f : Nat → β → γ) (d : List (Nat × β)) (n : Nat) :
    (d.map fun p => (p.1, f p.1 p.2)).lookup n = (d.lookup n).map (f n) := by
  induction d with
  | nil => rfl
  | cons p tl ih =>
    obtain ⟨k, v⟩ := p
    simp only [List.map_cons, List.lookup_cons, ih]
    by_cases h : n = k
    · subst h; simp
    · have h1 : (n == k) = false := by simpa using h
      simp [h1]

theorem atomsRingsSizes_lookup (sssr : List Ring) (n : Nat) :
    (atomsRingsSizes sssr).lookup n = ((atomsRings sssr).lookup n).map fun (rs : List Ring) => dedup (rs.map (·.length)) := by
  unfold atomsRingsSizes
  exact lookup_map_snd (fun _ (rs : List Ring) => dedup (rs.map (·.length))) _ n

/-- `atoms_rings_sizes[n]` is exactly the set of sizes of the reported rings through `n` -/
theorem atomsRingsSizes_mem (sssr : List Ring) (n s : Nat) :
    s ∈ ((atomsRingsSizes sssr).lookup n).getD [] ↔ ∃ r ∈ sssr, n ∈ r ∧ r.length = s := by
  rw [atomsRingsSizes_lookup]
  have hm := atomsRings_mem sssr n
  cases hl : (atomsRings sssr).lookup n with
  | none =>
    simp only [hl, Option.getD_none, List.not_mem_nil, false_iff] at hm
    simp only [Option.map_none, Option.getD_none, List.not_mem_nil, false_iff]
    rintro ⟨r, hr, hn, _⟩
    exact hm r ⟨hr, hn⟩
  | some rs =>
    simp only [hl, Option.getD_some] at hm
    simp only [Option.map_some, Option.getD_some, mem_dedup, List.mem_map]
    constructor
    · rintro ⟨r, hr, rfl⟩
      exact ⟨r, ((hm r).1 hr).1, ((hm r).1 hr).2, rfl⟩
    · rintro ⟨r, hr, hn, rfl⟩
      exact ⟨r, (hm r).2 ⟨hr, hn⟩, rfl⟩

theorem atomsRingsSizes_nodup (sssr : List Ring) (n : Nat) :
    (((atomsRingsSizes sssr).lookup n).getD []).Nodup := by
  rw [atomsRingsSizes_lookup]
  cases (atomsRings sssr).lookup n with
  | none => simp
  | some rs => simpa using dedup_nodup _

theorem atomsRingsSizes_key (sssr : List Ring) (n : Nat) :
    (atomsRingsSizes sssr).any (·.1 == n) = true ↔ ∃ r ∈ sssr, n ∈ r := by
  rw [← atomsRings_key]
  unfold atomsRingsSizes
  simp [List.any_map]

/-! ## marks -/

/-- the record `calc_labels` writes for adjacency row `p` -/
def markOf (sssr : List Ring) (p : Nat × List (Nat × Bond)) : AtomMark :=
  let ar := atomsRings sssr
  let ars := atomsRingsSizes sssr
  let anr := (ar.lookup p.1).getD []
  { n := p.1
    inRing := ars.any (·.1 == p.1)
    ringSizes := (ars.lookup p.1).getD []
    bonds := p.2.map fun mb =>
      let amr := (ar.lookup mb.1).getD []
      (mb.1, anr.any fun r => amr.contains r) }

theorem ringMarks_eq (m : Mol) (sssr : List Ring) : ringMarks m sssr = m.adj.map (markOf sssr) := rfl

theorem markOf_spec (sssr : List Ring) (p : Nat × List (Nat × Bond)) :
    (markOf sssr p).n = p.1 ∧
    ((markOf sssr p).inRing = true ↔ ∃ r ∈ sssr, p.1 ∈ r) ∧
    (∀ s, s ∈ (markOf sssr p).ringSizes ↔ ∃ r ∈ sssr, p.1 ∈ r ∧ r.length = s) ∧
    (markOf sssr p).ringSizes.Nodup ∧
    (markOf sssr p).bonds.map (·.1) = p.2.map (·.1) ∧
    (∀ kb ∈ (markOf sssr p).bonds, (kb.2 = true ↔ ∃ r ∈ sssr, p.1 ∈ r ∧ kb.1 ∈ r)) := by
  refine ⟨rfl, atomsRingsSizes_key sssr p.1, fun s => atomsRingsSizes_mem sssr p.1 s,
    atomsRingsSizes_nodup sssr p.1, ?_, ?_⟩
  · simp [markOf, List.map_map, Function.comp_def]
  · intro kb hkb
    simp only [markOf, List.mem_map] at hkb
    obtain ⟨mb, _, rfl⟩ := hkb
    simp only [List.any_eq_true, List.contains_iff_mem]
    constructor
    · rintro ⟨r, h1, h2⟩
      exact ⟨r, ((atomsRings_mem sssr p.1 r).1 h1).1, ((atomsRings_mem sssr p.1 r).1 h1).2,
        ((atomsRings_mem sssr mb.1 r).1 h2).2⟩
    · rintro ⟨r, hr, h1, h2⟩
      exact ⟨r, (atomsRings_mem sssr p.1 r).2 ⟨hr, h1⟩, (atomsRings_mem sssr mb.1 r).2 ⟨hr, h2⟩⟩

end ChythonModel.Proofs.C06
