import ChythonModel.Proofs.C03RingUnprint
/-!
# C03 — the printing `printR` of ANY syntax tree has the shape the inversion theorem (`parse_unprintR`) assumes

It starts with an atom, consists of ring-language tokens only, has no `((` / `()`, and no ring bond directly after a `)`.
-/
set_option linter.unusedSimpArgs false
namespace ChythonModel.Proofs.C03
open ChythonModel.Model.C03 ChythonModel.Spec.Smiles

/-! ## token form of the printing -/

theorem toksKR_done : toToksB (printKR (·.2) (.done : K B)) = [] := rfl

theorem toksKR_next (l : Link) (a : B) (rest : K B) :
    toToksB (printKR (·.2) (.next l a rest)) =
      toToksB (printLink l) ++ Tok.atom (tyOf a.1) a.1.2 ::
        (toToksB (printRings a.2) ++ toToksB (printKR (·.2) rest)) := by
  simp [printKR, printAtomR, toToksB, symTokB]

theorem toksKR_side (l : Link) (a : B) (inner rest : K B) :
    toToksB (printKR (·.2) (.side l a inner rest)) =
      Tok.lpar :: (toToksB (printLink l) ++ Tok.atom (tyOf a.1) a.1.2 ::
        (toToksB (printRings a.2) ++ (toToksB (printKR (·.2) inner) ++
          Tok.rpar :: toToksB (printKR (·.2) rest)))) := by
  simp [printKR, printAtomR, toToksB, symTokB]

theorem toksR (c : Chain B) :
    toToksB (printR (·.2) c) =
      Tok.atom (tyOf c.start.1) c.start.1.2 :: (toToksB (printRings c.start.2) ++ toToksB (printKR (·.2) c.k)) := by
  simp [printR, printAtomR, toToksB, symTokB]

/-- the tokens of a link: nothing, or one bond / direction mark / dot -/
theorem toksLink_cases (l : Link) :
    toToksB (printLink l : List (Sym B)) = [] ∨ (∃ o, toToksB (printLink l : List (Sym B)) = [Tok.bond o]) ∨
      (∃ b, toToksB (printLink l : List (Sym B)) = [Tok.dir b]) ∨ toToksB (printLink l : List (Sym B)) = [Tok.dot] := by
  cases l with
  | implicit => exact Or.inl rfl
  | explicit o => exact Or.inr (Or.inl ⟨o, rfl⟩)
  | dir b => exact Or.inr (Or.inr (Or.inl ⟨b, rfl⟩))
  | dot => exact Or.inr (Or.inr (Or.inr rfl))

theorem toksRings_cons (rb : RingBond) (tl : List RingBond) :
    toToksB (printRings (rb :: tl)) = toToksB (printRing rb : List (Sym B)) ++ toToksB (printRings tl) := by
  simp [printRings, toToksB]

theorem toksRing_cases (rb : RingBond) :
    toToksB (printRing rb : List (Sym B)) = [Tok.cyc rb.num] ∨
      (∃ o, toToksB (printRing rb : List (Sym B)) = [Tok.bond o, Tok.cyc rb.num]) ∨
      (∃ b, toToksB (printRing rb : List (Sym B)) = [Tok.dir b, Tok.cyc rb.num]) := by
  obtain ⟨sym, n⟩ := rb
  cases sym with
  | none => exact Or.inl rfl
  | order o => exact Or.inr (Or.inl ⟨o, rfl⟩)
  | dir b => exact Or.inr (Or.inr ⟨b, rfl⟩)

/-! ## starts with an atom, ring-language tokens only -/

theorem printR_starts_atom (c : Chain B) : ∃ ty a rest, toToksB (printR (·.2) c) = Tok.atom ty a :: rest :=
  ⟨_, _, _, toksR c⟩

theorem ringTok_symTokB (s : Sym B) : ringTok (symTokB s) = true := by
  cases s with
  | atom b =>
    obtain ⟨⟨ar, tk⟩, r⟩ := b
    cases ar <;> rfl
  | _ => rfl

theorem toToksB_ringTok (l : List (Sym B)) : ∀ t ∈ toToksB l, ringTok t = true := by
  intro t ht
  simp only [toToksB, List.mem_map] at ht
  obtain ⟨s, _, rfl⟩ := ht
  exact ringTok_symTokB s

theorem printR_ringTok (c : Chain B) : ∀ t ∈ toToksB (printR (·.2) c), ringTok t = true :=
  toToksB_ringTok _

/-! ## no `((` / `()` -/

theorem noEmptyOpen_cons_ne {x : Tok} (hx : x ≠ .lpar) (w : List Tok) :
    noEmptyOpen (x :: w) = noEmptyOpen w := by
  cases w with
  | nil => rfl
  | cons u tl =>
    have : pairOK x u = true := by
      cases x <;> first | rfl | exact absurd rfl hx
    simp [noEmptyOpen, this]

theorem noEmptyOpen_append_ne : ∀ (x : List Tok), (∀ t ∈ x, t ≠ Tok.lpar) → ∀ (w : List Tok),
    noEmptyOpen (x ++ w) = noEmptyOpen w
  | [], _, _ => rfl
  | t :: x, h, w => by
    rw [List.cons_append, noEmptyOpen_cons_ne (h t (by simp))]
    exact noEmptyOpen_append_ne x (fun u hu => h u (by simp [hu])) w

theorem noEmptyOpen_lpar {y : Tok} (h1 : y ≠ .lpar) (h2 : y ≠ .rpar) (w : List Tok) :
    noEmptyOpen (Tok.lpar :: y :: w) = noEmptyOpen w := by
  have : pairOK .lpar y = true := by
    cases y <;> first | rfl | exact absurd rfl h1 | exact absurd rfl h2
  rw [noEmptyOpen, this, Bool.true_and, noEmptyOpen_cons_ne h1]

theorem toksLink_ne_lpar (l : Link) : ∀ t ∈ toToksB (printLink l : List (Sym B)), t ≠ Tok.lpar := by
  intro t ht
  rcases toksLink_cases l with h | ⟨o, h⟩ | ⟨b, h⟩ | h <;> rw [h] at ht <;> simp at ht <;> subst ht <;> simp

theorem toksRings_ne_lpar : ∀ (r : List RingBond), ∀ t ∈ toToksB (printRings r : List (Sym B)), t ≠ Tok.lpar
  | [], t, ht => by simp [printRings, toToksB] at ht
  | rb :: tl, t, ht => by
    rw [toksRings_cons, List.mem_append] at ht
    rcases ht with ht | ht
    · rcases toksRing_cases rb with h | ⟨o, h⟩ | ⟨b, h⟩ <;> rw [h] at ht <;> simp at ht <;>
        rcases ht with rfl | rfl <;> simp
    · exact toksRings_ne_lpar tl t ht

/-- `link atom ringbond*` in front of a list -/
theorem noEmptyOpen_link_atom (l : Link) (ty : Nat) (a : AtomTok) (r : List RingBond) (w : List Tok) :
    noEmptyOpen (toToksB (printLink l : List (Sym B)) ++ Tok.atom ty a :: (toToksB (printRings r : List (Sym B)) ++ w)) =
      noEmptyOpen w := by
  rw [noEmptyOpen_append_ne _ (toksLink_ne_lpar l), noEmptyOpen_cons_ne (by simp),
    noEmptyOpen_append_ne _ (toksRings_ne_lpar r)]

/-- `( link atom ringbond*` in front of a list -/
theorem noEmptyOpen_lpar_link_atom (l : Link) (ty : Nat) (a : AtomTok) (r : List RingBond) (w : List Tok) :
    noEmptyOpen (Tok.lpar :: (toToksB (printLink l : List (Sym B)) ++
      Tok.atom ty a :: (toToksB (printRings r : List (Sym B)) ++ w))) = noEmptyOpen w := by
  rcases toksLink_cases l with h | ⟨o, h⟩ | ⟨b, h⟩ | h <;> rw [h]
  · rw [List.nil_append, noEmptyOpen_lpar (by simp) (by simp), noEmptyOpen_append_ne _ (toksRings_ne_lpar r)]
  · show noEmptyOpen (Tok.lpar :: Tok.bond o :: Tok.atom ty a :: _) = _
    rw [noEmptyOpen_lpar (by simp) (by simp), noEmptyOpen_cons_ne (by simp),
      noEmptyOpen_append_ne _ (toksRings_ne_lpar r)]
  · show noEmptyOpen (Tok.lpar :: Tok.dir b :: Tok.atom ty a :: _) = _
    rw [noEmptyOpen_lpar (by simp) (by simp), noEmptyOpen_cons_ne (by simp),
      noEmptyOpen_append_ne _ (toksRings_ne_lpar r)]
  · show noEmptyOpen (Tok.lpar :: Tok.dot :: Tok.atom ty a :: _) = _
    rw [noEmptyOpen_lpar (by simp) (by simp), noEmptyOpen_cons_ne (by simp),
      noEmptyOpen_append_ne _ (toksRings_ne_lpar r)]

theorem printKR_noEmptyOpen : ∀ (k : K B) (tail : List Tok), noEmptyOpen tail = true →
    noEmptyOpen (toToksB (printKR (·.2) k) ++ tail) = true
  | .done, tail, h => by simpa [toksKR_done] using h
  | .next l a rest, tail, h => by
    rw [toksKR_next]
    simp only [List.append_assoc, List.cons_append]
    rw [noEmptyOpen_link_atom]
    exact printKR_noEmptyOpen rest tail h
  | .side l a inner rest, tail, h => by
    rw [toksKR_side]
    simp only [List.append_assoc, List.cons_append]
    rw [noEmptyOpen_lpar_link_atom]
    apply printKR_noEmptyOpen inner
    rw [noEmptyOpen_cons_ne (by simp)]
    exact printKR_noEmptyOpen rest tail h

theorem printR_noEmptyOpen (c : Chain B) : noEmptyOpen (toToksB (printR (·.2) c)) = true := by
  rw [toksR]
  have := noEmptyOpen_link_atom .implicit (tyOf c.start.1) c.start.1.2 c.start.2 (toToksB (printKR (·.2) c.k))
  have e : toToksB (printLink Link.implicit : List (Sym B)) = [] := rfl
  rw [e, List.nil_append] at this
  rw [this]
  simpa using printKR_noEmptyOpen c.k [] rfl

/-! ## no ring bond directly after `)` -/

theorem noRingAfterClose_cons_ne {x : Tok} (hx : x ≠ .rpar) (w : List Tok) :
    noRingAfterClose (x :: w) = noRingAfterClose w := by
  cases x <;> first | rfl | exact absurd rfl hx

theorem noRingAfterClose_append_ne : ∀ (x : List Tok), (∀ t ∈ x, t ≠ Tok.rpar) → ∀ (w : List Tok),
    noRingAfterClose (x ++ w) = noRingAfterClose w
  | [], _, _ => rfl
  | t :: x, h, w => by
    rw [List.cons_append, noRingAfterClose_cons_ne (h t (by simp))]
    exact noRingAfterClose_append_ne x (fun u hu => h u (by simp [hu])) w

theorem toksLink_ne_rpar (l : Link) : ∀ t ∈ toToksB (printLink l : List (Sym B)), t ≠ Tok.rpar := by
  intro t ht
  rcases toksLink_cases l with h | ⟨o, h⟩ | ⟨b, h⟩ | h <;> rw [h] at ht <;> simp at ht <;> subst ht <;> simp

theorem toksRings_ne_rpar : ∀ (r : List RingBond), ∀ t ∈ toToksB (printRings r : List (Sym B)), t ≠ Tok.rpar
  | [], t, ht => by simp [printRings, toToksB] at ht
  | rb :: tl, t, ht => by
    rw [toksRings_cons, List.mem_append] at ht
    rcases ht with ht | ht
    · rcases toksRing_cases rb with h | ⟨o, h⟩ | ⟨b, h⟩ <;> rw [h] at ht <;> simp at ht <;>
        rcases ht with rfl | rfl <;> simp
    · exact toksRings_ne_rpar tl t ht

theorem noRingAfterClose_link_atom (l : Link) (ty : Nat) (a : AtomTok) (r : List RingBond) (w : List Tok) :
    noRingAfterClose (toToksB (printLink l : List (Sym B)) ++
      Tok.atom ty a :: (toToksB (printRings r : List (Sym B)) ++ w)) = noRingAfterClose w := by
  rw [noRingAfterClose_append_ne _ (toksLink_ne_rpar l), noRingAfterClose_cons_ne (by simp),
    noRingAfterClose_append_ne _ (toksRings_ne_rpar r)]

/-- `link atom …` never starts a ring bond: after the optional bond symbol comes an atom -/
theorem startsRing_link_atom (l : Link) (ty : Nat) (a : AtomTok) (w : List Tok) :
    startsRing (toToksB (printLink l : List (Sym B)) ++ Tok.atom ty a :: w) = false := by
  rcases toksLink_cases l with h | ⟨o, h⟩ | ⟨b, h⟩ | h <;> rw [h] <;> rfl

theorem printKR_noRingAfterClose : ∀ (k : K B) (tail : List Tok),
    noRingAfterClose tail = true → startsRing tail = false →
    noRingAfterClose (toToksB (printKR (·.2) k) ++ tail) = true ∧
      startsRing (toToksB (printKR (·.2) k) ++ tail) = false
  | .done, tail, h1, h2 => by simpa [toksKR_done] using ⟨h1, h2⟩
  | .next l a rest, tail, h1, h2 => by
    rw [toksKR_next]
    simp only [List.append_assoc, List.cons_append]
    refine ⟨?_, startsRing_link_atom _ _ _ _⟩
    rw [noRingAfterClose_link_atom]
    exact (printKR_noRingAfterClose rest tail h1 h2).1
  | .side l a inner rest, tail, h1, h2 => by
    rw [toksKR_side]
    simp only [List.append_assoc, List.cons_append]
    refine ⟨?_, rfl⟩
    rw [noRingAfterClose_cons_ne (by simp), noRingAfterClose_link_atom]
    obtain ⟨r1, r2⟩ := printKR_noRingAfterClose rest tail h1 h2
    refine (printKR_noRingAfterClose inner _ ?_ rfl).1
    simp only [noRingAfterClose, r1, r2, Bool.not_false, Bool.and_self]

theorem printR_noRingAfterClose (c : Chain B) : noRingAfterClose (toToksB (printR (·.2) c)) = true := by
  rw [toksR]
  have := noRingAfterClose_link_atom .implicit (tyOf c.start.1) c.start.1.2 c.start.2 (toToksB (printKR (·.2) c.k))
  have e : toToksB (printLink Link.implicit : List (Sym B)) = [] := rfl
  rw [e, List.nil_append] at this
  rw [this]
  simpa using (printKR_noRingAfterClose c.k [] rfl rfl).1

end ChythonModel.Proofs.C03
