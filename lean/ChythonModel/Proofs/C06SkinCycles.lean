import ChythonModel.Proofs.C06Skin
import ChythonModel.Proofs.C06Components
import ChythonModel.Proofs.C06RingVec
/-!
# Pruning the acyclic parts loses no ring

`skin_preserves_cycles`: the simple cycles of a well-formed symmetric graph are exactly the simple cycles of the result
of `_skin_graph` — so running the ring search on the pruned graph (`_sssr` does) is without loss.
-/
namespace ChythonModel.Proofs.C06
open ChythonModel.Model.C06 ChythonModel.Spec.CycleBasis

/-- a duplicate-free list with two distinct members that satisfy `P` has ≥ 2 members satisfying `P` -/
theorem two_le_filter_length {L : List Nat} (hL : L.Nodup) (P : Nat → Bool) {p q : Nat} (hp : p ∈ L) (hq : q ∈ L)
    (hpq : p ≠ q) (h1 : P p = true) (h2 : P q = true) : 2 ≤ (L.filter P).length := by
  have hF : (L.filter P).Nodup := List.Nodup.sublist List.filter_sublist hL
  have m1 : p ∈ L.filter P := List.mem_filter.2 ⟨hp, h1⟩
  have m2 : q ∈ L.filter P := List.mem_filter.2 ⟨hq, h2⟩
  match hm : L.filter P, m1, m2 with
  | [], m1, _ => cases m1
  | [x], m1, m2 =>
    simp only [List.mem_singleton] at m1 m2
    exact absurd (m1.trans m2.symm) hpq
  | _ :: _ :: _, _, _ => simp

/-- in a simple cycle every atom has its successor and its predecessor as two distinct ring neighbours -/
theorem cycle_two_neighbours {g : Adj} (hsym : Sym g) {r : List Nat} (hc : IsSimpleCycle g r) (i : Nat)
    (hi : i < r.length) :
    ∃ p q, p ∈ r ∧ q ∈ r ∧ p ≠ q ∧ p ∈ nbrsOf g r[i] ∧ q ∈ nbrsOf g r[i] := by
  obtain ⟨h3, hnd, hadj⟩ := hc
  have hinj : ∀ (a b : Nat) (ha : a < r.length) (hb : b < r.length), r[a] = r[b] → a = b :=
    fun a b ha hb e => (List.getElem_inj hnd).mp e
  have pair : ∀ k (hk : k < r.length),
      (if h : k + 1 < r.length then r[k + 1] else r[0]'(by omega)) ∈ nbrsOf g r[k] := by
    intro k hk
    have hm : (cyclePairs r)[k]'(by rw [cyclePairs_length]; exact hk) ∈ cyclePairs r := List.getElem_mem _
    have := hadj _ hm
    rw [cyclePairs_getElem r k hk] at this
    exact this
  -- successor index s, predecessor index k
  by_cases hs : i + 1 < r.length
  · have hsucc := pair i hi
    simp only [hs, ↓reduceDIte] at hsucc
    by_cases h0 : i = 0
    · -- predecessor is the last atom
      subst h0
      have hk : r.length - 1 < r.length := by omega
      have hpred := pair (r.length - 1) hk
      have : ¬ (r.length - 1 + 1 < r.length) := by omega
      simp only [this, ↓reduceDIte] at hpred
      refine ⟨r[0 + 1], r[r.length - 1], List.getElem_mem _, List.getElem_mem _, ?_, hsucc, hsym _ _ hpred⟩
      intro e
      have := hinj _ _ hs hk e
      omega
    · have hk : i - 1 < r.length := by omega
      have hpred := pair (i - 1) hk
      have h1 : i - 1 + 1 < r.length := by omega
      simp only [h1, ↓reduceDIte] at hpred
      have e1 : r[i - 1 + 1] = r[i] := by congr 1; omega
      rw [e1] at hpred
      refine ⟨r[i + 1], r[i - 1], List.getElem_mem _, List.getElem_mem _, ?_, hsucc, hsym _ _ hpred⟩
      intro e
      have := hinj _ _ hs hk e
      omega
  · -- i is the last index: successor is r[0], predecessor r[i-1]
    have hsucc := pair i hi
    simp only [hs, ↓reduceDIte] at hsucc
    have hk : i - 1 < r.length := by omega
    have hpred := pair (i - 1) hk
    have h1 : i - 1 + 1 < r.length := by omega
    simp only [h1, ↓reduceDIte] at hpred
    have e1 : r[i - 1 + 1] = r[i] := by congr 1; omega
    rw [e1] at hpred
    refine ⟨r[0], r[i - 1], List.getElem_mem _, List.getElem_mem _, ?_, hsucc, hsym _ _ hpred⟩
    intro e
    have := hinj 0 (i - 1) (by omega) hk e
    omega

theorem nbrsOf_sub_of_skin {g s : Adj} (hn : (keys g).Nodup) (h : skinGraph g = some s) (a b : Nat)
    (hb : b ∈ nbrsOf s a) : b ∈ nbrsOf g a := by
  unfold nbrsOf at hb
  cases hl : s.lookup a with
  | none => simp [hl] at hb
  | some ms =>
    simp only [hl, Option.getD_some] at hb
    obtain ⟨q, hq, e, hsub⟩ := skin_sub h (a, ms) (mem_of_lookup hl)
    obtain ⟨qa, qms⟩ := q
    simp only at e hsub
    subst e
    rw [nbrsOf_of_mem hn hq]
    exact hsub b hb

/-- **pruning loses no ring**: the simple cycles of `g` are exactly the simple cycles of `_skin_graph g` -/
theorem skin_preserves_cycles (g s : Adj) (hwf : wfAdj g = true) (hsym : symAdj g = true)
    (h : skinGraph g = some s) (r : List Nat) : IsSimpleCycle g r ↔ IsSimpleCycle s r := by
  have hW := wf_of_wfAdj hwf
  have hS := sym_of_symAdj hsym
  constructor
  · intro hc
    have hkeep := skin_keeps hW.keysNodup h r (by
      intro a ha
      obtain ⟨i, hi, rfl⟩ := List.getElem_of_mem ha
      obtain ⟨p, q, hp, hq, hpq, hpn, hqn⟩ := cycle_two_neighbours hS hc i hi
      exact two_le_filter_length (hW.nbrsNodup _) (fun x => r.contains x) hpn hqn hpq (by simpa using hp)
        (by simpa using hq))
    obtain ⟨h3, hnd, hadj⟩ := hc
    refine ⟨h3, hnd, ?_⟩
    intro ab hab
    have hmem : ab.1 ∈ r ∧ ab.2 ∈ r := by
      cases r with
      | nil => simp [cyclePairs] at hab
      | cons x tl =>
        simp only [cyclePairs] at hab
        have := List.of_mem_zip hab
        refine ⟨this.1, ?_⟩
        rcases List.mem_append.1 this.2 with h' | h'
        · exact List.mem_cons_of_mem _ h'
        · simp only [List.mem_singleton] at h'; rw [h']; exact List.mem_cons_self ..
    exact (hkeep ab.1 hmem.1).2 ab.2 hmem.2 (hadj ab hab)
  · rintro ⟨h3, hnd, hadj⟩
    exact ⟨h3, hnd, fun ab hab => nbrsOf_sub_of_skin hW.keysNodup h _ _ (hadj ab hab)⟩

end ChythonModel.Proofs.C06
