import Mathlib.Data.List.Nodup
import Mathlib.Data.List.Basic
import ChythonModel.Spec.Embedding
import ChythonModel.Proofs.C07Extend
import ChythonModel.Proofs.C07Check
/-!
The heart of C07: a complete path accepted step by step by `children` is exactly an embedding of the
component (`Spec.Embedding.EmbedsComp`), for every accepted linearisation (`CompOK`).
-/
namespace ChythonModel.Proofs.C07
open ChythonModel.Model.Iso ChythonModel.Spec.Embedding

/-! ### small list facts -/

theorem mapM_option_some {α β} (g : α → Option β) (d : β) :
    ∀ (l : List α) (w : List β), l.mapM g = some w →
      w = l.map (fun m => (g m).getD d) ∧ ∀ m ∈ l, ∃ y, g m = some y := by
  intro l
  induction l with
  | nil => intro w h; simp at h; simp [h]
  | cons a l ih =>
    intro w h
    rw [List.mapM_cons] at h
    cases hga : g a with
    | none => simp [hga] at h
    | some y =>
      cases hl : l.mapM g with
      | none => simp [hga, hl] at h
      | some w' =>
        simp [hga, hl] at h
        obtain ⟨hw, hall⟩ := ih w' hl
        subst h
        refine ⟨by simp [hga, ← hw], ?_⟩
        intro m hm
        rcases List.mem_cons.1 hm with rfl | hm
        · exact ⟨y, hga⟩
        · exact hall m hm

theorem mapM_option_of_forall {α β} (g : α → Option β) (h : α → β) :
    ∀ (l : List α), (∀ m ∈ l, g m = some (h m)) → l.mapM g = some (l.map h) := by
  intro l
  induction l with
  | nil => intro _; simp
  | cons a l ih =>
    intro hall
    rw [List.mapM_cons, hall a (by simp), ih (fun m hm => hall m (by simp [hm]))]
    simp

theorem all_zip_map {α β} (l : List α) (h : α → β) (P : α × β → Bool) :
    ((l.zip (l.map h)).all P) = true ↔ ∀ m ∈ l, P (m, h m) = true := by
  induction l with
  | nil => simp
  | cons a l ih => simp [ih]

/-! ### `orderDepth`, `img` on a duplicate-free linearisation -/

theorem orderDepth_of_getElem? : ∀ (lq : List Step), (lq.map (·.front)).Nodup →
    ∀ i s, lq[i]? = some s → orderDepth lq s.front = some i := by
  intro lq
  induction lq with
  | nil => intro _ i s h; simp at h
  | cons a lq ih =>
    intro hnd i s hi
    simp only [List.map_cons, List.nodup_cons] at hnd
    unfold orderDepth
    rw [List.findIdx?_cons]
    cases i with
    | zero =>
      simp at hi
      subst hi
      simp
    | succ i =>
      simp at hi
      have hne : (a.front == s.front) = false := by
        apply beq_false_of_ne
        intro heq
        apply hnd.1
        rw [heq]
        exact List.mem_map.2 ⟨s, List.mem_of_getElem? hi, rfl⟩
      have := ih hnd.2 i s hi
      unfold orderDepth at this
      simp [hne, this]

theorem orderDepth_some_front (lq : List Step) (m j : Nat) (h : orderDepth lq m = some j) :
    ∃ s, lq[j]? = some s ∧ s.front = m := by
  unfold orderDepth at h
  have := List.findIdx?_eq_some_iff_getElem.1 h
  obtain ⟨hj, hp, _⟩ := this
  exact ⟨lq[j], by simp [hj], by simpa using hp⟩

/-- the function a (partial or complete) path denotes -/
def fOf (lq : List Step) (p : List Nat) (u : Nat) : Nat := (img lq p u).getD 0

theorem img_take (lq : List Step) (hnd : (lq.map (·.front)).Nodup) (p : List Nat) (i j : Nat) (s : Step) (c : Nat)
    (hs : lq[j]? = some s) (hji : j < i) (hc : p[j]? = some c) : img lq (p.take i) s.front = some c := by
  unfold img
  rw [orderDepth_of_getElem? lq hnd j s hs]
  simp [List.getElem?_take, hji, hc]

theorem img_full (lq : List Step) (hnd : (lq.map (·.front)).Nodup) (p : List Nat) (j : Nat) (s : Step) (c : Nat)
    (hs : lq[j]? = some s) (hc : p[j]? = some c) : img lq p s.front = some c := by
  unfold img
  rw [orderDepth_of_getElem? lq hnd j s hs]
  simp [hc]

theorem fOf_front (lq : List Step) (hnd : (lq.map (·.front)).Nodup) (p : List Nat) (j : Nat) (s : Step) (c : Nat)
    (hs : lq[j]? = some s) (hc : p[j]? = some c) : fOf lq p s.front = c := by
  simp [fOf, img_full lq hnd p j s c hs hc]

/-- an image under a prefix of the path is the image under the whole path, and it lies in the prefix -/
theorem img_take_some (lq : List Step) (p : List Nat) (i m c : Nat) (h : img lq (p.take i) m = some c) :
    img lq p m = some c ∧ c ∈ p.take i ∧ ∃ j s, j < i ∧ lq[j]? = some s ∧ s.front = m ∧ p[j]? = some c := by
  unfold img at h ⊢
  cases hod : orderDepth lq m with
  | none => simp [hod] at h
  | some j =>
    simp only [hod, Option.bind_eq_bind, Option.bind_some, List.getElem?_take] at h ⊢
    by_cases hji : j < i
    · simp only [hji, if_true] at h
      obtain ⟨s, hs, hsm⟩ := orderDepth_some_front lq m j hod
      refine ⟨h, ?_, j, s, hji, hs, hsm, h⟩
      rw [List.mem_iff_getElem?]
      exact ⟨j, by simp [List.getElem?_take, hji, h]⟩
    · simp [hji] at h

theorem mem_take_iff {α} (p : List α) (i : Nat) (c : α) : c ∈ p.take i ↔ ∃ j, j < i ∧ p[j]? = some c := by
  rw [List.mem_iff_getElem?]
  constructor
  · rintro ⟨j, hj⟩
    rw [List.getElem?_take] at hj
    split at hj
    · exact ⟨j, by assumption, hj⟩
    · simp at hj
  · rintro ⟨j, hji, hj⟩
    exact ⟨j, by simp [List.getElem?_take, hji, hj]⟩

/-! ### membership in `children`, spelled out -/

theorem mem_children (e : Env) (depth : Nat) (path : List Nat) (oN : Nat) :
    oN ∈ children e depth path ↔
      ∃ s b n want, e.lq[depth]? = some s ∧ s.back = some b ∧ img e.lq path b = some n ∧
        oN ∈ e.t.nbrs n ∧ e.scope oN = true ∧ oN ∉ path ∧ e.bondOk b s.front n oN = true ∧
        e.atomOk s.front oN = true ∧ (e.cl.get s.front).mapM (img e.lq path) = some want ∧
        setEq (((e.t.nbrs oN).filter fun y => path.contains y).filter (· != n)) want = true ∧
        (((e.cl.get s.front).zip want).all fun (m, y) => e.bondOk s.front m oN y) = true := by
  unfold children
  cases hs : e.lq[depth]? with
  | none => simp
  | some s =>
    cases hb : s.back with
    | none => simp [hb]
    | some b =>
      cases hn : img e.lq path b with
      | none => simp [hb, hn]
      | some n =>
        cases hw : (e.cl.get s.front).mapM (img e.lq path) with
        | none => simp [hb, hn, hw, List.mem_filter]
        | some want =>
          simp only [hb, hn, hw, List.mem_filter, Bool.and_eq_true, Bool.not_eq_true', Option.some.injEq,
            exists_and_left, exists_eq_left']
          constructor
          · rintro ⟨h1, ⟨⟨⟨⟨h2, h3⟩, h4⟩, h5⟩, h6, h7⟩⟩
            refine ⟨h1, h2, ?_, h4, h5, h6, h7⟩
            intro hm
            have := List.contains_iff_mem.2 hm
            rw [h3] at this
            exact Bool.noConfusion this
          · rintro ⟨h1, h2, h3, h4, h5, h6, h7⟩
            refine ⟨h1, ⟨⟨⟨⟨h2, ?_⟩, h4⟩, h5⟩, h6, h7⟩⟩
            cases hc : path.contains oN with
            | false => rfl
            | true => exact absurd (List.contains_iff_mem.1 hc) h3


/-! ### one step of the search, in terms of the function the path denotes -/

/-- what accepting candidate `c` for step `s` means, given the images `pre` of the earlier steps and `f` -/
def StepFacts (e : Env) (f : Nat → Nat) (pre : List Nat) (s : Step) (c : Nat) : Prop :=
  ∃ b, s.back = some b ∧ c ∈ e.t.nbrs (f b) ∧ e.scope c = true ∧ c ∉ pre ∧ e.bondOk b s.front (f b) c = true ∧
    e.atomOk s.front c = true ∧
    (∀ y, (y ∈ e.t.nbrs c ∧ y ≠ f b ∧ y ∈ pre) ↔ y ∈ (e.cl.get s.front).map f) ∧
    ∀ m ∈ e.cl.get s.front, e.bondOk s.front m c (f m) = true

theorem mem_fronts_take (lq : List Step) (j m : Nat) (h : m ∈ (lq.take j).map (·.front)) :
    ∃ k s, k < j ∧ lq[k]? = some s ∧ s.front = m := by
  obtain ⟨s, hs, hsm⟩ := List.mem_map.1 h
  obtain ⟨k, hk, hks⟩ := (mem_take_iff lq j s).1 hs
  exact ⟨k, s, hk, hks, hsm⟩

theorem getElem?_of_len {α β} (l : List α) (p : List β) (hlen : p.length = l.length) (k : Nat) (s : α)
    (h : l[k]? = some s) : ∃ c, p[k]? = some c := by
  have hk : k < l.length := by
    by_contra hcon
    rw [List.getElem?_eq_none (by omega)] at h
    simp at h
  exact ⟨p[k]'(by omega), by simp [hlen, hk]⟩

theorem earlier_img (e : Env) (hnd : (e.lq.map (·.front)).Nodup) (p : List Nat) (hlen : p.length = e.lq.length)
    (j m : Nat) (h : m ∈ (e.lq.take j).map (·.front)) :
    img e.lq (p.take j) m = some (fOf e.lq p m) ∧ fOf e.lq p m ∈ p.take j := by
  obtain ⟨k, s, hk, hks, hsm⟩ := mem_fronts_take e.lq j m h
  obtain ⟨c, hc⟩ := getElem?_of_len e.lq p hlen k s hks
  subst hsm
  rw [fOf_front e.lq hnd p k s c hks hc]
  exact ⟨img_take e.lq hnd p j k s c hks hk hc, (mem_take_iff p j c).2 ⟨k, hk, hc⟩⟩

theorem children_iff_facts (q : Graph) (e : Env) (hok : CompOK q e.cl e.lq) (hnd : (e.lq.map (·.front)).Nodup)
    (p : List Nat) (hlen : p.length = e.lq.length) (j : Nat) (hj : 0 < j) (s : Step) (hs : e.lq[j]? = some s) (c : Nat) :
    c ∈ children e j (p.take j) ↔ StepFacts e (fOf e.lq p) (p.take j) s c := by
  have hst := hok.step j s hs
  have hjlen : j < e.lq.length := by
    by_contra hcon
    rw [List.getElem?_eq_none (by omega)] at hs
    simp at hs
  -- the step has a parent
  have hback : ∃ b, s.back = some b := by
    cases hb : s.back with
    | some b => exact ⟨b, rfl⟩
    | none =>
      have := hst.back_none hb
      have hl : ((e.lq.take j).map (·.front)).length = 0 := by rw [this]; rfl
      have hl2 : ((e.lq.take j).map (·.front)).length = min j e.lq.length := by simp
      omega
  obtain ⟨b, hb⟩ := hback
  obtain ⟨hbe, _, _⟩ := hst.back_some b hb
  have himgb := (earlier_img e hnd p hlen j b hbe).1
  have hcl_earlier : ∀ m ∈ e.cl.get s.front, m ∈ (e.lq.take j).map (·.front) := by
    intro m hm
    exact ((hst.cls m).1 (by simp [hm])).2
  have hmapM : (e.cl.get s.front).mapM (img e.lq (p.take j)) = some ((e.cl.get s.front).map (fOf e.lq p)) :=
    mapM_option_of_forall _ _ _ (fun m hm => (earlier_img e hnd p hlen j m (hcl_earlier m hm)).1)
  rw [mem_children]
  constructor
  · rintro ⟨s', b', n, want, hs', hb', hn, h1, h2, h3, h4, h5, h6, h7, h8⟩
    rw [hs] at hs'
    cases hs'
    rw [hb] at hb'
    cases hb'
    rw [himgb] at hn
    cases hn
    rw [hmapM] at h6
    cases h6
    refine ⟨b, hb, h1, h2, h3, h4, h5, ?_, ?_⟩
    · intro y
      have := (setEq_iff _ _).1 h7 y
      simpa [List.mem_filter, and_assoc] using this
    · have := (all_zip_map _ _ _).1 h8
      exact this
  · rintro ⟨b', hb', h1, h2, h3, h4, h5, h6, h7⟩
    rw [hb] at hb'
    cases hb'
    refine ⟨s, b, fOf e.lq p b, (e.cl.get s.front).map (fOf e.lq p), hs, hb, himgb, h1, h2, h3, h4, h5, hmapM, ?_, ?_⟩
    · rw [setEq_iff]
      intro y
      have := h6 y
      simpa [List.mem_filter, and_assoc] using this
    · exact (all_zip_map _ _ _).2 h7

end ChythonModel.Proofs.C07
