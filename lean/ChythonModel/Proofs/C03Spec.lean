import ChythonModel.Spec.SmilesGrammar
import ChythonModel.Model.C03Parser
/-!
# C03 — `parser` computes the denotation of `Spec/SmilesGrammar.lean` on every syntax tree (helper lemmas)
-/
set_option linter.unusedSimpArgs false
namespace ChythonModel.Proofs.C03
open ChythonModel.Model.C03 ChythonModel.Spec.Smiles

/-- atom payload: (written as aromatic symbol?, the atom token) -/
abbrev A := Bool × AtomTok

def tyOf (a : A) : Nat := if a.1 then 8 else 0
/-- what `parser` stores: the chirality mark is moved to `stereo_atoms` -/
def strip (a : A) : AtomTok := { a.2 with stereo := none }

def symTok : Sym A → Tok
  | .atom a => .atom (tyOf a) a.2
  | .bond o => .bond o
  | .dir b => .dir b
  | .dot => .dot
  | .lpar => .lpar
  | .rpar => .rpar
  | .ring n => .cyc n

def toToks (l : List (Sym A)) : List Tok := l.map symTok

theorem arom4_tyOf (a b : A) : arom4 (tyOf a) (tyOf b) = if a.1 && b.1 then 4 else 1 := by
  obtain ⟨x, _⟩ := a
  obtain ⟨y, _⟩ := b
  cases x <;> cases y <;> rfl

/-- the parser is between two tokens of a chain whose current atom has payload `pa` -/
structure Ready (st : PState) (pa : A) : Prop where
  prev : st.previous = none
  alen : st.atoms.length = st.atomNum
  tlen : st.types.length = st.atomNum
  last : st.lastNum < st.atomNum
  lty : st.types[st.lastNum]? = some (tyOf pa)

/-- `st'` extends `st` by the atoms `as` and bonds `bs`, everything else that matters unchanged -/
structure Ext (st st' : PState) (as : List A) (bs : List (Nat × Nat × Nat)) : Prop where
  atoms : st'.atoms = st.atoms ++ as.map strip
  types : st'.types = st.types ++ as.map tyOf
  bonds : st'.bonds = st.bonds ++ bs
  num : st'.atomNum = st.atomNum + as.length
  stack : st'.stack = st.stack
  cycles : st'.cycles = st.cycles
  prev : st'.previous = none

theorem prun_append (strong : Bool) : ∀ (ts rest : List Tok) (st : PState),
    prun strong st (ts ++ rest) = match prun strong st ts with
      | .ok st' => prun strong st' rest
      | .error e => .error e
  | [], rest, st => rfl
  | t :: ts, rest, st => by
    simp only [List.cons_append, prun]
    cases pstep strong st t with
    | ok st' => exact prun_append strong ts rest st'
    | error e => rfl

/-- reading `link atom`: one new atom, bonded to the current atom as the link says -/
theorem link_atom_step (strong : Bool) (st : PState) (pa a : A) (l : Link) (rest : List Tok) (h : Ready st pa) :
    ∃ st1, prun strong st (toToks (printLink l) ++ symTok (.atom a) :: rest) = prun strong st1 rest ∧
      Ext st st1 [a] (linkBonds (·.1) l st.atomNum st.lastNum a pa) ∧ st1.lastNum = st.atomNum := by
  have hne : st.atoms.isEmpty = false := by
    have := h.last
    have h2 := h.alen
    cases hk : st.atoms with
    | nil => simp [hk] at h2; omega
    | cons _ _ => rfl
  have hp := h.prev
  have hl := h.lty
  cases l with
  | implicit =>
    refine ⟨_, by simp [toToks, printLink, symTok, prun, pstep, hne, hp, hl]; rfl, ?_, rfl⟩
    exact ⟨by simp [strip], by simp, by simp [linkBonds, arom4_tyOf], by simp, rfl, rfl, rfl⟩
  | explicit o =>
    refine ⟨_, by simp [toToks, printLink, symTok, prun, pstep, hne, hp, hl]; rfl, ?_, rfl⟩
    exact ⟨by simp [strip], by simp, by simp [linkBonds], by simp, rfl, rfl, rfl⟩
  | dir b =>
    refine ⟨_, by simp [toToks, printLink, symTok, prun, pstep, hne, hp, hl]; rfl, ?_, rfl⟩
    exact ⟨by simp [strip], by simp, by simp [linkBonds, arom4_tyOf], by simp, rfl, rfl, rfl⟩
  | dot =>
    refine ⟨_, by simp [toToks, printLink, symTok, prun, pstep, hne, hp, hl]; rfl, ?_, rfl⟩
    exact ⟨by simp [strip], by simp, by simp [linkBonds], by simp, rfl, rfl, rfl⟩

theorem getElem?_append_left' {α} (l l2 : List α) (i : Nat) (x : α) (h : l[i]? = some x) : (l ++ l2)[i]? = some x := by
  have hi : i < l.length := by
    by_cases hlt : i < l.length
    · exact hlt
    · simp [List.getElem?_eq_none (Nat.le_of_not_lt hlt)] at h
  rw [List.getElem?_append_left hi]; exact h

/-- **simulation**: from a state between two tokens, reading the symbols of a continuation `k` extends the atom and
    bond lists by exactly `denoteK`, leaves stack / closure table untouched and ends between two tokens -/
theorem prun_printK (strong : Bool) : ∀ (k : K A) (st : PState) (pa : A) (rest : List Tok), Ready st pa →
    ∃ st', prun strong st (toToks (printK k) ++ rest) = prun strong st' rest ∧
      Ext st st' (denoteK (·.1) st.lastNum pa st.atomNum k).1 (denoteK (·.1) st.lastNum pa st.atomNum k).2 ∧
      st'.lastNum < st'.atomNum
  | .done, st, pa, rest, h => by
    refine ⟨st, rfl, ?_, h.last⟩
    exact ⟨by simp [denoteK], by simp [denoteK], by simp [denoteK], by simp [denoteK], rfl, rfl, h.prev⟩
  | .next l a k, st, pa, rest, h => by
    obtain ⟨st1, e1, x1, hl1⟩ := link_atom_step strong st pa a l (toToks (printK k) ++ rest) h
    have r1 : Ready st1 a := by
      refine ⟨x1.prev, ?_, ?_, ?_, ?_⟩
      · rw [x1.atoms, x1.num]; simp [h.alen]
      · rw [x1.types, x1.num]; simp [h.tlen]
      · rw [hl1, x1.num]; simp
      · rw [hl1, x1.types]
        have : st.atomNum = st.types.length := h.tlen.symm
        rw [this]; simp
    obtain ⟨st2, e2, x2, hl2⟩ := prun_printK strong k st1 a rest r1
    refine ⟨st2, ?_, ?_, hl2⟩
    · simp only [printK, toToks, List.map_append, List.map_cons, List.append_assoc, List.cons_append] at e1 ⊢
      rw [e1]; exact e2
    · rw [hl1, x1.num] at x2
      simp only [List.length_cons, List.length_nil, Nat.zero_add] at x2
      exact ⟨by rw [x2.atoms, x1.atoms]; simp [denoteK],
             by rw [x2.types, x1.types]; simp [denoteK],
             by rw [x2.bonds, x1.bonds]; simp [denoteK],
             by rw [x2.num, x1.num]; simp [denoteK]; omega,
             by rw [x2.stack, x1.stack], by rw [x2.cycles, x1.cycles], x2.prev⟩
  | .side l a inner k, st, pa, rest, h => by
    -- '('
    have hp := h.prev
    obtain ⟨st0, hst0⟩ : ∃ st0 : PState, st0 = { st with stack := st.lastNum :: st.stack, opened := true } := ⟨_, rfl⟩
    have e0 : prun strong st (toToks (printK (.side l a inner k)) ++ rest) =
        prun strong st0
          (toToks (printLink l) ++ symTok (.atom a) :: (toToks (printK inner) ++ (Tok.rpar :: (toToks (printK k) ++ rest)))) := by
      rw [hst0]; simp [printK, toToks, symTok, prun, pstep, hp]
    have n0 : st0.atomNum = st.atomNum := by rw [hst0]
    have l0 : st0.lastNum = st.lastNum := by rw [hst0]
    have a0 : st0.atoms = st.atoms := by rw [hst0]
    have t0 : st0.types = st.types := by rw [hst0]
    have b0 : st0.bonds = st.bonds := by rw [hst0]
    have s0 : st0.stack = st.lastNum :: st.stack := by rw [hst0]
    have c0 : st0.cycles = st.cycles := by rw [hst0]
    have r0 : Ready st0 pa := by rw [hst0]; exact ⟨h.prev, h.alen, h.tlen, h.last, h.lty⟩
    clear hst0
    obtain ⟨st1, e1, x1, hl1⟩ := link_atom_step strong st0 pa a l
      (toToks (printK inner) ++ (Tok.rpar :: (toToks (printK k) ++ rest))) r0
    rw [n0] at hl1
    have x1n : st1.atomNum = st.atomNum + 1 := by rw [x1.num, n0]; rfl
    have x1a : st1.atoms = st.atoms ++ [strip a] := by rw [x1.atoms, a0]; rfl
    have x1t : st1.types = st.types ++ [tyOf a] := by rw [x1.types, t0]; rfl
    have x1b : st1.bonds = st.bonds ++ linkBonds (·.1) l st.atomNum st.lastNum a pa := by rw [x1.bonds, b0, n0, l0]
    have r1 : Ready st1 a := by
      refine ⟨x1.prev, ?_, ?_, ?_, ?_⟩
      · rw [x1a, x1n]; simp [h.alen]
      · rw [x1t, x1n]; simp [h.tlen]
      · rw [hl1, x1n]; simp
      · rw [hl1, x1t]
        have : st.atomNum = st.types.length := h.tlen.symm
        rw [this]; simp
    obtain ⟨st2, e2, x2, hl2⟩ := prun_printK strong inner st1 a (Tok.rpar :: (toToks (printK k) ++ rest)) r1
    rw [hl1, x1n] at x2
    -- ')'
    have hstack : st2.stack = st.lastNum :: st.stack := by rw [x2.stack, x1.stack, s0]
    obtain ⟨st3, hst3⟩ : ∃ st3 : PState, st3 = { st2 with lastNum := st.lastNum, stack := st.stack } := ⟨_, rfl⟩
    have e3 : prun strong st2 (Tok.rpar :: (toToks (printK k) ++ rest)) = prun strong st3 (toToks (printK k) ++ rest) := by
      rw [hst3]; simp [prun, pstep, x2.prev, hstack]
    have hnum2 : st2.atomNum = st.atomNum + 1 + (denoteK (·.1) st.atomNum a (st.atomNum + 1) inner).1.length := by
      rw [x2.num, x1n]
    have hty2 : st2.types = st.types ++ (tyOf a :: (denoteK (·.1) st.atomNum a (st.atomNum + 1) inner).1.map tyOf) := by
      rw [x2.types, x1t]; simp
    have hat2 : st2.atoms = st.atoms ++ (strip a :: (denoteK (·.1) st.atomNum a (st.atomNum + 1) inner).1.map strip) := by
      rw [x2.atoms, x1a]; simp
    have hb2 : st2.bonds = st.bonds ++ (linkBonds (·.1) l st.atomNum st.lastNum a pa ++
        (denoteK (·.1) st.atomNum a (st.atomNum + 1) inner).2) := by
      rw [x2.bonds, x1b]; simp
    have n3 : st3.atomNum = st2.atomNum := by rw [hst3]
    have l3 : st3.lastNum = st.lastNum := by rw [hst3]
    have a3 : st3.atoms = st2.atoms := by rw [hst3]
    have t3 : st3.types = st2.types := by rw [hst3]
    have b3 : st3.bonds = st2.bonds := by rw [hst3]
    have s3 : st3.stack = st.stack := by rw [hst3]
    have c3 : st3.cycles = st2.cycles := by rw [hst3]
    have p3 : st3.previous = st2.previous := by rw [hst3]
    clear hst3
    have r3 : Ready st3 pa := by
      refine ⟨by rw [p3]; exact x2.prev, ?_, ?_, ?_, ?_⟩
      · rw [a3, n3, hat2, hnum2]; simp [h.alen]; omega
      · rw [t3, n3, hty2, hnum2]; simp [h.tlen]; omega
      · rw [l3, n3, hnum2]; have := h.last; omega
      · rw [l3, t3, hty2]; exact getElem?_append_left' _ _ _ _ h.lty
    obtain ⟨st4, e4, x4, hl4⟩ := prun_printK strong k st3 pa rest r3
    rw [l3, n3, hnum2] at x4
    refine ⟨st4, ?_, ?_, hl4⟩
    · rw [e0, e1, e2, e3]; exact e4
    · exact ⟨by rw [x4.atoms, a3, hat2]; simp [denoteK],
             by rw [x4.types, t3, hty2]; simp [denoteK],
             by rw [x4.bonds, b3, hb2]; simp [denoteK],
             by rw [x4.num, n3, hnum2]; simp [denoteK]; omega,
             by rw [x4.stack, s3], by rw [x4.cycles, c3, x2.cycles, x1.cycles, c0], x4.prev⟩

/-- **the parser builds exactly the denoted graph** for every syntax tree of the core grammar -/
theorem parse_print (strong : Bool) (c : Chain A) :
    ∃ st, parse strong (toToks (print c)) = .ok st ∧
      st.atoms = (denote (·.1) c).atoms.map strip ∧ st.types = (denote (·.1) c).atoms.map tyOf ∧
      st.bonds = (denote (·.1) c).bonds := by
  obtain ⟨a0, k⟩ := c
  -- first atom
  obtain ⟨st1, hst1⟩ : ∃ st1 : PState, pstep strong {} (Tok.atom (tyOf a0) a0.2) = .ok st1 ∧
      st1.atoms = [strip a0] ∧ st1.types = [tyOf a0] ∧ st1.bonds = [] ∧ st1.atomNum = 1 ∧ st1.lastNum = 0 ∧
      st1.stack = [] ∧ st1.cycles = [] ∧ st1.previous = none := ⟨_, rfl, rfl, rfl, rfl, rfl, rfl, rfl, rfl, rfl⟩
  obtain ⟨e1, a1, t1, b1, n1, l1, s1, c1, p1⟩ := hst1
  have r1 : Ready st1 a0 := ⟨p1, by rw [a1, n1]; rfl, by rw [t1, n1]; rfl, by rw [l1, n1]; exact Nat.one_pos,
    by rw [l1, t1]; rfl⟩
  obtain ⟨st2, e2, x2, _⟩ := prun_printK strong k st1 a0 [] r1
  rw [l1, n1] at x2
  refine ⟨st2, ?_, ?_, ?_, ?_⟩
  · have hrun : prun strong {} (toToks (print ⟨a0, k⟩)) = .ok st2 := by
      simp only [print, toToks, List.map_cons, symTok, prun, e1]
      have := e2
      simp only [List.append_nil, toToks, prun] at this
      exact this
    unfold parse
    simp only [print, toToks, List.map_cons, symTok, startCheck, Tok.isAtom, if_true]
    have hrun' := hrun
    simp only [print, toToks, List.map_cons, symTok] at hrun'
    rw [hrun']
    simp [endCheck, x2.stack, s1, x2.cycles, c1, x2.prev]
  · rw [x2.atoms, a1]; simp [denote]
  · rw [x2.types, t1]; simp [denote]
  · rw [x2.bonds, b1]; simp [denote]

end ChythonModel.Proofs.C03
