import ChythonModel.Proofs.C04
import ChythonModel.Model.C04Standardize
/-!
# Helper lemmas for the `__standardize` loop-body theorems of Props/C04.lean (core Lean only)

`Unch hs m m'` — "`m'` is `m` rewritten at atoms of `hs` only": same keys in the same order, elements and hydrogen marks
untouched, the atom entry and the neighbour dict of every atom outside `hs` identical. The loop body of `__standardize`
(`atomFixLoop`, `bondsFixLoop`, `processMapping`, `applyMappings`) establishes `Unch` for the `hs` it collects, and `Unch`
implies that `calc_implicit` reads the same context for every atom outside `hs`.
-/
namespace ChythonModel.Proofs.C04Standardize
open ChythonModel.Model ChythonModel.Model.Valence ChythonModel.Model.C04Standardize ChythonModel.Proofs.C04

/-- reading a dict through a rewrite that keeps the keys -/
theorem lookup_map_key {β : Type} (f : Nat × β → Nat × β) (hf : ∀ p, (f p).1 = p.1) (l : List (Nat × β)) (k : Nat) :
    (l.map f).lookup k = (l.lookup k).map fun b => (f (k, b)).2 := by
  induction l with
  | nil => rfl
  | cons p tl ih =>
    obtain ⟨k0, b⟩ := p
    have e : f (k0, b) = (k0, (f (k0, b)).2) := Prod.ext (hf (k0, b)) rfl
    rw [List.map_cons, e]
    cases hb : (k == k0) with
    | true =>
      have : k = k0 := by simpa using hb
      subst this
      simp only [List.lookup, hb, Option.map_some]
    | false =>
      simp only [List.lookup, hb, ih]

structure Unch (hs : List Nat) (m m' : Mol) : Prop where
  atoms : ∃ f : Nat × Atom → Nat × Atom, m'.atoms = m.atoms.map f ∧
    ∀ p, (f p).1 = p.1 ∧ (f p).2.z = p.2.z ∧ (f p).2.implH = p.2.implH ∧ (p.1 ∉ hs → f p = p)
  adj : ∃ g : Nat × List (Nat × Bond) → Nat × List (Nat × Bond), m'.adj = m.adj.map g ∧
    ∀ r, (g r).1 = r.1 ∧ (r.1 ∉ hs → g r = r)

theorem Unch.refl (hs : List Nat) (m : Mol) : Unch hs m m :=
  ⟨⟨id, by simp, fun _ => ⟨rfl, rfl, rfl, fun _ => rfl⟩⟩, ⟨id, by simp, fun _ => ⟨rfl, fun _ => rfl⟩⟩⟩

theorem Unch.mono {hs hs' : List Nat} {m m' : Mol} (h : ∀ x, x ∈ hs → x ∈ hs') (u : Unch hs m m') : Unch hs' m m' := by
  obtain ⟨f, hf, pf⟩ := u.atoms
  obtain ⟨g, hg, pg⟩ := u.adj
  exact ⟨⟨f, hf, fun p => ⟨(pf p).1, (pf p).2.1, (pf p).2.2.1, fun hn => (pf p).2.2.2 (fun hx => hn (h _ hx))⟩⟩,
         ⟨g, hg, fun r => ⟨(pg r).1, fun hn => (pg r).2 (fun hx => hn (h _ hx))⟩⟩⟩

theorem Unch.trans {hs : List Nat} {m m1 m2 : Mol} (u1 : Unch hs m m1) (u2 : Unch hs m1 m2) : Unch hs m m2 := by
  obtain ⟨f1, hf1, pf1⟩ := u1.atoms
  obtain ⟨g1, hg1, pg1⟩ := u1.adj
  obtain ⟨f2, hf2, pf2⟩ := u2.atoms
  obtain ⟨g2, hg2, pg2⟩ := u2.adj
  refine ⟨⟨f2 ∘ f1, by rw [hf2, hf1, List.map_map], fun p => ?_⟩, ⟨g2 ∘ g1, by rw [hg2, hg1, List.map_map], fun r => ?_⟩⟩
  · obtain ⟨a1, a2, a3, a4⟩ := pf1 p
    obtain ⟨b1, b2, b3, b4⟩ := pf2 (f1 p)
    refine ⟨by simp only [Function.comp]; rw [b1, a1], by simp only [Function.comp]; rw [b2, a2],
            by simp only [Function.comp]; rw [b3, a3], fun hn => ?_⟩
    simp only [Function.comp]
    rw [b4 (by rw [a1]; exact hn), a4 hn]
  · obtain ⟨a1, a4⟩ := pg1 r
    obtain ⟨b1, b4⟩ := pg2 (g1 r)
    refine ⟨by simp only [Function.comp]; rw [b1, a1], fun hn => ?_⟩
    simp only [Function.comp]
    rw [b4 (by rw [a1]; exact hn), a4 hn]

/-- the ids (keys of `_atoms`, in order) are untouched -/
theorem Unch.ids {hs : List Nat} {m m' : Mol} (u : Unch hs m m') : m'.ids = m.ids := by
  obtain ⟨f, hf, pf⟩ := u.atoms
  simp only [Mol.ids, hf, List.map_map]
  apply List.map_congr_left
  intro p _
  exact (pf p).1

/-- `calc_implicit` reads the same context for every atom outside `hs` -/
theorem ctxOf_unch {hs : List Nat} {m m' : Mol} (u : Unch hs m m') (n : Nat) (hn : n ∉ hs) : ctxOf m' n = ctxOf m n := by
  obtain ⟨f, hf, pf⟩ := u.atoms
  obtain ⟨g, hg, pg⟩ := u.adj
  have hl : ∀ j, m'.atoms.lookup j = (m.atoms.lookup j).map fun a => (f (j, a)).2 := fun j => by
    rw [hf]; exact lookup_map_key f (fun p => (pf p).1) m.atoms j
  have hla : ∀ j, m'.adj.lookup j = (m.adj.lookup j).map fun r => (g (j, r)).2 := fun j => by
    rw [hg]; exact lookup_map_key g (fun p => (pg p).1) m.adj j
  have hne : nbrEntry m'.atoms = nbrEntry m.atoms := by
    funext kb
    simp only [nbrEntry, hl]
    cases m.atoms.lookup kb.1 with
    | none => rfl
    | some a =>
      have := (pf (kb.1, a)).2.1
      simp only [Option.map_some] at this ⊢
      rw [this]
  have h1 : m'.atoms.lookup n = m.atoms.lookup n := by
    rw [hl]
    cases m.atoms.lookup n with
    | none => rfl
    | some a => simp only [Option.map_some]; rw [(pf (n, a)).2.2.2 hn]
  have h2 : m'.adj.lookup n = m.adj.lookup n := by
    rw [hla]
    cases m.adj.lookup n with
    | none => rfl
    | some r => simp only [Option.map_some]; rw [(pg (n, r)).2 hn]
  simp only [ctxOf, h1, h2, hne]

theorem calcImplicitMol_unch {hs : List Nat} {m m' : Mol} (u : Unch hs m m') (n : Nat) (hn : n ∉ hs) :
    calcImplicitMol m' n = calcImplicitMol m n := by
  simp only [calcImplicitMol, ctxOf_unch u n hn]

/-- with an empty `hs` nothing was rewritten at all -/
theorem Unch.eq_of_nil {m m' : Mol} (u : Unch [] m m') : m' = m := by
  obtain ⟨f, hf, pf⟩ := u.atoms
  obtain ⟨g, hg, pg⟩ := u.adj
  have ha : m'.atoms = m.atoms := by
    rw [hf]
    conv => rhs; rw [← List.map_id m.atoms]
    apply List.map_congr_left
    intro p _
    exact (pf p).2.2.2 (by simp)
  have hb : m'.adj = m.adj := by
    rw [hg]
    conv => rhs; rw [← List.map_id m.adj]
    apply List.map_congr_left
    intro r _
    exact (pg r).2 (by simp)
  cases m; cases m'; simp_all

/-! ### the loops -/

theorem atomStep_unch (m : Mol) (n : Nat) (ch : Int) (ir : Option Bool) (hs : List Nat) :
    Unch (n :: hs) m { m with atoms := m.atoms.map (fixAtomEntry n ch ir) } := by
  refine ⟨⟨fixAtomEntry n ch ir, rfl, fun p => ?_⟩, ⟨id, by simp, fun _ => ⟨rfl, fun _ => rfl⟩⟩⟩
  refine ⟨?_, ?_, ?_, ?_⟩
  · simp only [fixAtomEntry]; split <;> rfl
  · simp only [fixAtomEntry]; split <;> rfl
  · simp only [fixAtomEntry]; split <;> rfl
  · intro hn
    have : (p.1 == n) = false := by
      simp only [beq_eq_false_iff_ne, ne_eq]
      intro e; exact hn (by simp [e])
    simp only [fixAtomEntry, this]
    rfl

theorem bondStep_unch (m : Mol) (n k : Nat) (fn fk : List (Nat × Bond) → List (Nat × Bond)) (hs : List Nat) :
    Unch (k :: n :: hs) m { m with adj := mapRows n k fn fk m.adj } := by
  refine ⟨⟨id, by simp, fun _ => ⟨rfl, rfl, rfl, fun _ => rfl⟩⟩,
          ⟨fun p => if p.1 == n then (p.1, fn p.2) else if p.1 == k then (p.1, fk p.2) else p, rfl, fun r => ⟨?_, ?_⟩⟩⟩
  · dsimp only
    split
    · rfl
    · split <;> rfl
  · intro hn
    have h1 : (r.1 == n) = false := by
      simp only [beq_eq_false_iff_ne, ne_eq]
      intro e; exact hn (by simp [e])
    have h2 : (r.1 == k) = false := by
      simp only [beq_eq_false_iff_ne, ne_eq]
      intro e; exact hn (by simp [e])
    simp only [h1, h2]
    rfl

theorem atomFixLoop_unch (mp : List (Nat × Nat)) : ∀ (af : List (Nat × Int × Option Bool)) (m : Mol) (hs : List Nat)
    (m1 : Mol) (hs1 : List Nat) (fl : Bool), atomFixLoop mp af m hs = some (m1, hs1, fl) →
    Unch hs1 m m1 ∧ ∀ x, x ∈ hs → x ∈ hs1 := by
  intro af
  induction af with
  | nil =>
    intro m hs m1 hs1 fl h
    simp only [atomFixLoop, Option.some.injEq, Prod.mk.injEq] at h
    obtain ⟨rfl, rfl, _⟩ := h
    exact ⟨Unch.refl _ _, fun _ hx => hx⟩
  | cons e tl ih =>
    intro m hs m1 hs1 fl h
    obtain ⟨pn, ch, ir⟩ := e
    simp only [atomFixLoop] at h
    cases hl : mp.lookup pn with
    | none => simp [hl] at h
    | some n =>
      cases ha : m.atoms.lookup n with
      | none => simp [hl, ha] at h
      | some a =>
        simp only [hl, ha] at h
        by_cases hc : a.charge + ch > 4
        · simp only [hc, if_true, Option.some.injEq, Prod.mk.injEq] at h
          obtain ⟨rfl, rfl, _⟩ := h
          exact ⟨Unch.refl _ _, fun x hx => List.mem_cons_of_mem _ hx⟩
        · simp only [hc, if_false] at h
          obtain ⟨u, hsub⟩ := ih _ _ _ _ _ h
          exact ⟨((atomStep_unch m n ch ir hs).mono hsub).trans u, fun x hx => hsub x (List.mem_cons_of_mem _ hx)⟩

theorem bondsFixLoop_unch (mp : List (Nat × Nat)) : ∀ (bf : List (Nat × Nat × Nat)) (m : Mol) (hs : List Nat)
    (m1 : Mol) (hs1 : List Nat), bondsFixLoop mp bf m hs = some (m1, hs1) →
    Unch hs1 m m1 ∧ ∀ x, x ∈ hs → x ∈ hs1 := by
  intro bf
  induction bf with
  | nil =>
    intro m hs m1 hs1 h
    simp only [bondsFixLoop, Option.some.injEq, Prod.mk.injEq] at h
    obtain ⟨rfl, rfl⟩ := h
    exact ⟨Unch.refl _ _, fun _ hx => hx⟩
  | cons e tl ih =>
    intro m hs m1 hs1 h
    obtain ⟨pn, pm, bo⟩ := e
    simp only [bondsFixLoop] at h
    cases hn : mp.lookup pn with
    | none => simp [hn] at h
    | some n =>
      cases hk : mp.lookup pm with
      | none => simp [hn, hk] at h
      | some k =>
        cases hr : m.adj.lookup n with
        | none => simp [hn, hk, hr] at h
        | some row =>
          simp only [hn, hk, hr] at h
          have sub : ∀ x, x ∈ hs → x ∈ k :: n :: hs := fun x hx => List.mem_cons_of_mem _ (List.mem_cons_of_mem _ hx)
          by_cases hany : row.any (·.1 == k) = true
          · simp only [hany, if_true] at h
            obtain ⟨u, hsub⟩ := ih _ _ _ _ h
            exact ⟨((bondStep_unch m n k _ _ hs).mono hsub).trans u, fun x hx => hsub x (sub x hx)⟩
          · simp only [hany] at h
            cases hr2 : m.adj.lookup k with
            | none => simp [hr2] at h
            | some row2 =>
              simp only [hr2] at h
              obtain ⟨u, hsub⟩ := ih _ _ _ _ h
              exact ⟨((bondStep_unch m n k _ _ hs).mono hsub).trans u, fun x hx => hsub x (sub x hx)⟩

theorem processMapping_unch (fx : RuleFix) (st st' : St) (mp : List (Nat × Nat)) (h : processMapping fx st mp = some st') :
    Unch st'.hs st.mol st'.mol ∧ ∀ x, x ∈ st.hs → x ∈ st'.hs := by
  simp only [processMapping] at h
  by_cases hseen : (mp.map (·.2)).any (st.seen.contains ·) = true
  · simp only [hseen, if_true, Option.some.injEq] at h
    subst h
    exact ⟨Unch.refl _ _, fun _ hx => hx⟩
  · simp only [hseen, Bool.false_eq_true, if_false] at h
    cases hany : fx.anyAtoms.mapM (mp.lookup ·) with
    | none => simp [hany] at h
    | some anyIds =>
      simp only [hany] at h
      cases ha : atomFixLoop mp fx.atomFix st.mol st.hs with
      | none => simp [ha] at h
      | some res =>
        obtain ⟨m1, hs1, fl⟩ := res
        obtain ⟨u1, sub1⟩ := atomFixLoop_unch mp _ _ _ _ _ _ ha
        cases fl with
        | true =>
          simp only [ha, Option.some.injEq] at h
          subst h
          exact ⟨u1, sub1⟩
        | false =>
          simp only [ha] at h
          cases hb : bondsFixLoop mp fx.bondsFix m1 hs1 with
          | none => simp [hb] at h
          | some res2 =>
            obtain ⟨m2, hs2⟩ := res2
            obtain ⟨u2, sub2⟩ := bondsFixLoop_unch mp _ _ _ _ _ hb
            simp only [hb, Option.some.injEq] at h
            subst h
            exact ⟨(u1.mono sub2).trans u2, fun x hx => sub2 x (sub1 x hx)⟩

theorem applyMappings_unch (fx : RuleFix) : ∀ (maps : List (List (Nat × Nat))) (st st' : St),
    applyMappings fx maps st = some st' → Unch st'.hs st.mol st'.mol ∧ ∀ x, x ∈ st.hs → x ∈ st'.hs := by
  intro maps
  induction maps with
  | nil =>
    intro st st' h
    simp only [applyMappings, Option.some.injEq] at h
    subst h
    exact ⟨Unch.refl _ _, fun _ hx => hx⟩
  | cons mp tl ih =>
    intro st st' h
    simp only [applyMappings] at h
    cases hp : processMapping fx st mp with
    | none => simp [hp] at h
    | some st1 =>
      simp only [hp] at h
      obtain ⟨u1, sub1⟩ := processMapping_unch fx st st1 mp hp
      obtain ⟨u2, sub2⟩ := ih st1 st' h
      exact ⟨(u1.mono sub2).trans u2, fun x hx => sub2 x (sub1 x hx)⟩

/-- the recount loop changes nothing `calc_implicit` reads -/
theorem fixLoop_calc : ∀ (ns : List Nat) (m m' : Mol), fixLoop ns m = some m' →
    ∀ k, calcImplicitMol m' k = calcImplicitMol m k := by
  intro ns
  induction ns with
  | nil =>
    intro m m' h k
    simp only [fixLoop, Option.some.injEq] at h
    subst h; rfl
  | cons n tl ih =>
    intro m m' h k
    simp only [fixLoop] at h
    cases hc : calcImplicitMol m n with
    | none => simp [hc] at h
    | some v =>
      simp only [hc] at h
      rw [ih _ _ h k, calcImplicitMol_setH]

/-- closed form of the recount loop: it succeeds iff `calc_implicit` raises for no atom of the list, and the result depends on
    the list only through membership -/
theorem fixLoop_eq (m0 : Mol) : ∀ (ns : List Nat) (m : Mol), (∀ k, calcImplicitMol m k = calcImplicitMol m0 k) →
    fixLoop ns m = if ns.all (fun n => (calcImplicitMol m0 n).isSome) then some ⟨m.atoms.map (fixEntry m0 ns), m.adj⟩ else none := by
  intro ns
  induction ns with
  | nil =>
    intro m _
    have : fixEntry m0 [] = id := by funext p; simp [fixEntry]
    simp [fixLoop, this]
  | cons n tl ih =>
    intro m hinv
    simp only [fixLoop, hinv n]
    cases hc : calcImplicitMol m0 n with
    | none => simp [hc]
    | some h =>
      have hinv' : ∀ k, calcImplicitMol (setH m n h) k = calcImplicitMol m0 k := fun k => by
        rw [calcImplicitMol_setH, hinv]
      show fixLoop tl (setH m n h) = _
      rw [ih (setH m n h) hinv']
      simp only [List.all_cons, hc, Option.isSome_some, Bool.true_and]
      have hmap : (setH m n h).atoms.map (fixEntry m0 tl) = m.atoms.map (fixEntry m0 (n :: tl)) := by
        simp only [setH, List.map_map]
        apply List.map_congr_left
        intro p _
        obtain ⟨k, a⟩ := p
        simp only [Function.comp, fixEntry, setHEntry, List.contains_cons]
        by_cases hk : k = n
        · subst hk
          simp only [beq_self_eq_true, if_true, Bool.true_or, hc, Option.join_some]
          split <;> simp [withH]
        · have hb : (k == n) = false := by simp [hk]
          simp [hb]
      have hadj : (setH m n h).adj = m.adj := rfl
      rw [hmap, hadj]

/-! ### numbering of the atoms `explicify_hydrogens` adds -/

theorem le_foldl_max : ∀ (l : List Nat) (acc : Nat), acc ≤ l.foldl max acc ∧ ∀ x ∈ l, x ≤ l.foldl max acc := by
  intro l
  induction l with
  | nil => intro acc; exact ⟨Nat.le_refl _, by simp⟩
  | cons y tl ih =>
    intro acc
    obtain ⟨h1, h2⟩ := ih (max acc y)
    refine ⟨Nat.le_trans (Nat.le_max_left acc y) h1, ?_⟩
    intro x hx
    cases List.mem_cons.mp hx with
    | inl e => subst e; exact Nat.le_trans (Nat.le_max_right acc x) h1
    | inr e => exact h2 x e

theorem ids_setH (atoms : List (Nat × Atom)) (n : Nat) (h : Option Nat) :
    (atoms.map (setHEntry n h)).map (·.1) = atoms.map (·.1) := by
  rw [List.map_map]
  apply List.map_congr_left
  intro p _
  simp only [Function.comp, setHEntry]
  split <;> rfl

/-- the loop of `explicify_hydrogens` keeps every existing key (same order) and appends `nxt, nxt+1, …` -/
theorem addHydrogens_ids : ∀ (l : List Nat) (nxt : Nat) (m : Mol),
    (addHydrogens l nxt m).ids = m.ids ++ List.range' nxt l.length ∧
    (addHydrogens l nxt m).adj.map (·.1) = m.adj.map (·.1) ++ List.range' nxt l.length := by
  intro l
  induction l with
  | nil => intro nxt m; simp [addHydrogens]
  | cons n tl ih =>
    intro nxt m
    simp only [addHydrogens]
    obtain ⟨h1, h2⟩ := ih (nxt + 1)
      ⟨m.atoms.map (setHEntry n (some 0)) ++ [(nxt, { z := 1, implH := some 0 })],
       (m.adj.map fun p => if p.1 == n then (p.1, p.2 ++ [(nxt, (⟨1, none⟩ : Bond))]) else p) ++ [(nxt, [(n, ⟨1, none⟩)])]⟩
    constructor
    · rw [h1]
      simp only [Mol.ids, List.map_append, ids_setH, List.map_cons, List.map_nil, List.length_cons, List.range'_succ,
        List.append_assoc, List.singleton_append]
    · rw [h2]
      have : (m.adj.map fun p => if p.1 == n then (p.1, p.2 ++ [(nxt, (⟨1, none⟩ : Bond))]) else p).map (·.1) = m.adj.map (·.1) := by
        rw [List.map_map]
        apply List.map_congr_left
        intro p _
        simp only [Function.comp]
        split <;> rfl
      simp only [List.map_append, this, List.map_cons, List.map_nil, List.length_cons, List.range'_succ,
        List.append_assoc, List.singleton_append]

theorem lookup_append_some {β : Type} (l1 l2 : List (Nat × β)) (k : Nat) (v : β) (h : l1.lookup k = some v) :
    (l1 ++ l2).lookup k = some v := by
  induction l1 with
  | nil => simp [List.lookup] at h
  | cons p tl ih =>
    obtain ⟨k0, b⟩ := p
    simp only [List.cons_append, List.lookup] at h ⊢
    cases hb : (k == k0) with
    | true => simp only [hb] at h ⊢; exact h
    | false => simp only [hb] at h ⊢; exact ih h

/-- the loop of `explicify_hydrogens` never overwrites a neighbour dict: each existing one is kept as a prefix, and what is
    appended are single bonds to atoms numbered `nxt` or higher -/
theorem addHydrogens_rows : ∀ (l : List Nat) (nxt : Nat) (m : Mol) (n : Nat) (row : List (Nat × Bond)),
    m.adj.lookup n = some row →
    ∃ ext, (addHydrogens l nxt m).adj.lookup n = some (row ++ ext) ∧ ∀ kb ∈ ext, nxt ≤ kb.1 ∧ kb.2 = ⟨1, none⟩ := by
  intro l
  induction l with
  | nil => intro nxt m n row h; exact ⟨[], by simp [addHydrogens, h], by simp⟩
  | cons a tl ih =>
    intro nxt m n row h
    simp only [addHydrogens]
    let f : Nat × List (Nat × Bond) → Nat × List (Nat × Bond) :=
      fun p => if p.1 == a then (p.1, p.2 ++ [(nxt, (⟨1, none⟩ : Bond))]) else p
    have hf : ∀ p, (f p).1 = p.1 := by intro p; simp only [f]; split <;> rfl
    have h1 : ((m.adj.map f) ++ [(nxt, [(a, (⟨1, none⟩ : Bond))])]).lookup n = some (f (n, row)).2 :=
      lookup_append_some _ _ n _ (by rw [lookup_map_key f hf, h]; rfl)
    obtain ⟨ext, he, hall⟩ := ih (nxt + 1)
      ⟨m.atoms.map (setHEntry a (some 0)) ++ [(nxt, { z := 1, implH := some 0 })], (m.adj.map f) ++ [(nxt, [(a, ⟨1, none⟩)])]⟩
      n (f (n, row)).2 h1
    by_cases hna : (n == a) = true
    · refine ⟨(nxt, ⟨1, none⟩) :: ext, ?_, ?_⟩
      · rw [he]; simp only [f, hna, if_true, List.append_assoc, List.singleton_append]
      · intro kb hkb
        cases List.mem_cons.mp hkb with
        | inl e => subst e; exact ⟨Nat.le_refl _, rfl⟩
        | inr e => exact ⟨Nat.le_of_succ_le (hall kb e).1, (hall kb e).2⟩
    · refine ⟨ext, ?_, fun kb hkb => ⟨Nat.le_of_succ_le (hall kb hkb).1, (hall kb hkb).2⟩⟩
      rw [he]; simp only [f, hna]; rfl

/-- everything of an atom entry except the hydrogen mark and the stereo label -/
def atomCore (p : Nat × Atom) : Nat × Nat × Option Nat × Int × Bool := (p.1, p.2.z, p.2.isotope, p.2.charge, p.2.radical)

theorem core_setH (atoms : List (Nat × Atom)) (n : Nat) (h : Option Nat) :
    (atoms.map (setHEntry n h)).map atomCore = atoms.map atomCore := by
  rw [List.map_map]
  apply List.map_congr_left
  intro p _
  simp only [Function.comp, setHEntry, atomCore]
  split <;> rfl

/-- the loop of `explicify_hydrogens` keeps every atom (number, element, isotope, charge, radical state, in order) and appends
    plain neutral hydrogens -/
theorem addHydrogens_core : ∀ (l : List Nat) (nxt : Nat) (m : Mol),
    (addHydrogens l nxt m).atoms.map atomCore =
      m.atoms.map atomCore ++ (List.range' nxt l.length).map fun i => (i, 1, none, 0, false) := by
  intro l
  induction l with
  | nil => intro nxt m; simp [addHydrogens]
  | cons n tl ih =>
    intro nxt m
    simp only [addHydrogens]
    rw [ih]
    simp only [List.map_append, core_setH, List.map_cons, List.map_nil, List.length_cons, List.range'_succ,
      List.append_assoc, List.singleton_append, atomCore]

end ChythonModel.Proofs.C04Standardize
