import ChythonModel.Proofs.C03Front
import ChythonModel.Spec.SmilesGrammar
/-!
# C03 — the bond loop of `create_molecule` succeeds exactly on simple graphs with valid bond orders
-/
namespace ChythonModel.Proofs.C03
open ChythonModel.Model.C03 ChythonModel.Spec.Smiles

/-! ## `lookupNat` after `adjAdd` -/

theorem lookupNat_adjAdd (adj : List (Nat × List (Nat × Nat))) (n m b x : Nat) :
    lookupNat x (adjAdd adj n m b) =
      if x = n then (lookupNat n adj).map (· ++ [(m, b)]) else lookupNat x adj := by
  induction adj with
  | nil => simp [adjAdd, lookupNat]
  | cons p tl ih =>
    obtain ⟨a, l⟩ := p
    unfold adjAdd
    by_cases han : a = n
    · subst han
      by_cases hx : x = a
      · subst hx; simp [lookupNat]
      · have : (a == x) = false := by simpa using fun h => hx h.symm
        simp [lookupNat, this, hx]
    · have h1 : (a == n) = false := by simpa using han
      simp only [h1, Bool.false_eq_true, if_false]
      by_cases hx : x = a
      · subst hx
        have : ¬ x = n := han
        simp [lookupNat, this]
      · have h2 : (a == x) = false := by simpa using fun h => hx h.symm
        simp only [lookupNat, h2, Bool.false_eq_true, if_false, ih, h1]

theorem lookupNat_snoc_isSome (l : List (Nat × Nat)) (m b y : Nat) :
    (lookupNat y (l ++ [(m, b)])).isSome = true ↔ (lookupNat y l).isSome = true ∨ y = m := by
  induction l with
  | nil =>
    simp only [List.nil_append, lookupNat]
    by_cases h : m = y
    · subst h; simp
    · have h2 : (m == y) = false := by simpa using h
      have h3 : ¬ y = m := fun e => h e.symm
      simp [h2, h3]
  | cons p tl ih =>
    obtain ⟨a, c⟩ := p
    simp only [List.cons_append, lookupNat]
    by_cases h : a = y
    · simp [h]
    · have : (a == y) = false := by simpa using h
      simp only [this, Bool.false_eq_true, if_false, ih]

/-! ## the adjacency relation stored in the accumulator -/

/-- `y in bonds[x]` -/
def Adj (adj : List (Nat × List (Nat × Nat))) (x y : Nat) : Prop :=
  ∃ ml, lookupNat x adj = some ml ∧ (lookupNat y ml).isSome = true

theorem Adj_adjAdd (adj : List (Nat × List (Nat × Nat))) (n m b x y : Nat)
    (hn : (lookupNat n adj).isSome = true) :
    Adj (adjAdd adj n m b) x y ↔ Adj adj x y ∨ (x = n ∧ y = m) := by
  unfold Adj
  rw [lookupNat_adjAdd]
  by_cases hx : x = n
  · subst hx
    obtain ⟨l, hl⟩ := Option.isSome_iff_exists.mp hn
    simp only [hl, if_true, Option.map_some, Option.some.injEq, true_and]
    constructor
    · rintro ⟨ml, rfl, h⟩
      rcases (lookupNat_snoc_isSome l m b y).mp h with h | h
      · exact Or.inl ⟨l, rfl, h⟩
      · exact Or.inr h
    · rintro (⟨ml, rfl, h⟩ | h)
      · exact ⟨_, rfl, (lookupNat_snoc_isSome _ m b y).mpr (Or.inl h)⟩
      · exact ⟨_, rfl, (lookupNat_snoc_isSome l m b y).mpr (Or.inr h)⟩
  · simp [hx]

theorem Adj_init (mapping : List Nat) (x y : Nat) : ¬ Adj (mapping.map fun n => (n, [])) x y := by
  rintro ⟨ml, h1, h2⟩
  induction mapping with
  | nil => simp [lookupNat] at h1
  | cons a tl ih =>
    simp only [List.map_cons, lookupNat] at h1
    split at h1
    · cases h1; simp [lookupNat] at h2
    · exact ih h1

/-! ## `simpleBonds` as a pairwise statement -/

theorem simpleBonds_iff (bs : List (Nat × Nat × Nat)) :
    simpleBonds bs = true ↔
      (∀ b ∈ bs, b.1 ≠ b.2.1) ∧ bs.Pairwise (fun a b => samePair a b = false) := by
  induction bs with
  | nil => simp [simpleBonds]
  | cons b tl ih =>
    simp only [simpleBonds, Bool.and_eq_true, ih, List.pairwise_cons, List.mem_cons, forall_eq_or_imp,
      bne_iff_ne, ne_eq, Bool.not_eq_true', List.any_eq_false, Bool.not_eq_true]
    constructor
    · rintro ⟨⟨h1, h2⟩, h3, h4⟩; exact ⟨⟨h1, h3⟩, h2, h4⟩
    · rintro ⟨⟨h1, h3⟩, h2, h4⟩; exact ⟨⟨h1, h2⟩, h3, h4⟩

/-! ## one step of the loop, in terms of indices -/

theorem lookupNat_adjAdd_isSome (adj : List (Nat × List (Nat × Nat))) (n m b x : Nat)
    (h : (lookupNat x adj).isSome = true) : (lookupNat x (adjAdd adj n m b)).isSome = true := by
  rw [lookupNat_adjAdd]
  split
  · rename_i hx; subst hx
    obtain ⟨l, hl⟩ := Option.isSome_iff_exists.mp h
    simp [hl]
  · exact h

theorem Adj_step (mapping : List Nat) (hnd : mapping.Nodup) (adj : List (Nat × List (Nat × Nat)))
    (i j b i' j' b' : Nat) (hi : i < mapping.length) (hj : j < mapping.length)
    (hi' : i' < mapping.length) (hj' : j' < mapping.length)
    (h1 : (lookupNat mapping[i] adj).isSome = true) (h2 : (lookupNat mapping[j] adj).isSome = true) :
    Adj (adjAdd (adjAdd adj mapping[i] mapping[j] b) mapping[j] mapping[i] b) mapping[j'] mapping[i'] ↔
      Adj adj mapping[j'] mapping[i'] ∨ samePair (i, j, b) (i', j', b') = true := by
  rw [Adj_adjAdd _ _ _ _ _ _ (lookupNat_adjAdd_isSome _ _ _ _ _ h2), Adj_adjAdd _ _ _ _ _ _ h1]
  simp only [List.getElem_inj hnd, samePair, Bool.or_eq_true, Bool.and_eq_true, beq_iff_eq]
  constructor
  · rintro ((h | ⟨rfl, rfl⟩) | ⟨rfl, rfl⟩)
    · exact Or.inl h
    · exact Or.inr (Or.inr ⟨rfl, rfl⟩)
    · exact Or.inr (Or.inl ⟨rfl, rfl⟩)
  · rintro (h | ⟨rfl, rfl⟩ | ⟨rfl, rfl⟩)
    · exact Or.inl (Or.inl h)
    · exact Or.inr ⟨rfl, rfl⟩
    · exact Or.inl (Or.inr ⟨rfl, rfl⟩)

/-- the bond `b` is not yet present in the accumulator (the test `n in bonds[m]`) -/
def Free (mapping : List Nat) (adj : List (Nat × List (Nat × Nat))) (b : Nat × Nat × Nat) : Prop :=
  ∀ n m, mapping[b.1]? = some n → mapping[b.2.1]? = some m → ¬ Adj adj m n

theorem Free_iff (mapping : List Nat) (adj : List (Nat × List (Nat × Nat))) (b : Nat × Nat × Nat)
    (hi : b.1 < mapping.length) (hj : b.2.1 < mapping.length) :
    Free mapping adj b ↔ ¬ Adj adj mapping[b.2.1] mapping[b.1] := by
  unfold Free
  constructor
  · intro h; exact h _ _ (by simp [hi]) (by simp [hj])
  · intro h n m hn hm
    rw [List.getElem?_eq_getElem hi] at hn
    rw [List.getElem?_eq_getElem hj] at hm
    cases hn; cases hm; exact h

theorem Free_step (mapping : List Nat) (hnd : mapping.Nodup) (adj : List (Nat × List (Nat × Nat)))
    (i j b : Nat) (b' : Nat × Nat × Nat) (hi : i < mapping.length) (hj : j < mapping.length)
    (hi' : b'.1 < mapping.length) (hj' : b'.2.1 < mapping.length)
    (h1 : (lookupNat mapping[i] adj).isSome = true) (h2 : (lookupNat mapping[j] adj).isSome = true) :
    Free mapping (adjAdd (adjAdd adj mapping[i] mapping[j] b) mapping[j] mapping[i] b) b' ↔
      Free mapping adj b' ∧ samePair (i, j, b) b' = false := by
  obtain ⟨i', j', c⟩ := b'
  rw [Free_iff _ _ _ hi' hj', Free_iff _ _ _ hi' hj', Adj_step mapping hnd adj i j b i' j' c hi hj hi' hj' h1 h2]
  simp only [not_or, Bool.not_eq_true]

/-! ## the loop, for an arbitrary accumulator -/

theorem buildBonds_ok_gen (mapping : List Nat) (hnd : mapping.Nodup) :
    ∀ (bs : List (Nat × Nat × Nat)) (adj : List (Nat × List (Nat × Nat))),
    (∀ b ∈ bs, b.1 < mapping.length ∧ b.2.1 < mapping.length) → adj.map (·.1) = mapping →
    ((∃ adj', buildBonds mapping bs adj = .ok adj') ↔
      ((∀ b ∈ bs, b.1 ≠ b.2.1 ∧ validOrder b.2.2 = true ∧ Free mapping adj b) ∧
        bs.Pairwise (fun a b => samePair a b = false)))
  | [], adj, _, _ => by simp [buildBonds]
  | (i, j, b) :: tl, adj, hb, hk => by
    obtain ⟨hi, hj⟩ := hb (i, j, b) (by simp)
    have hi' : mapping[i]? = some mapping[i] := by simp [hi]
    have hj' : mapping[j]? = some mapping[j] := by simp [hj]
    obtain ⟨v1, h1⟩ := lookupNat_of_key mapping[i] adj (by rw [hk]; exact List.getElem_mem hi)
    obtain ⟨v2, h2⟩ := lookupNat_of_key mapping[j] adj (by rw [hk]; exact List.getElem_mem hj)
    have htl : ∀ x ∈ tl, x.1 < mapping.length ∧ x.2.1 < mapping.length := fun x hx => hb x (by simp [hx])
    have ih := buildBonds_ok_gen mapping hnd tl
      (adjAdd (adjAdd adj mapping[i] mapping[j] b) mapping[j] mapping[i] b) htl
      (by rw [adjAdd_keys, adjAdd_keys]; exact hk)
    have hfree : Free mapping adj (i, j, b) ↔ (lookupNat mapping[i] v2).isSome = false := by
      rw [Free_iff _ _ _ hi hj]
      unfold Adj
      simp only [h2, Option.some.injEq, exists_eq_left']
      simp
    have hstep : ∀ x ∈ tl,
        (Free mapping (adjAdd (adjAdd adj mapping[i] mapping[j] b) mapping[j] mapping[i] b) x ↔
          Free mapping adj x ∧ samePair (i, j, b) x = false) := fun x hx =>
      Free_step mapping hnd adj i j b x hi hj (htl x hx).1 (htl x hx).2 (by simp [h1]) (by simp [h2])
    unfold buildBonds
    rw [hi', hj']; dsimp only
    simp only [List.mem_cons, forall_eq_or_imp, List.pairwise_cons, hfree]
    by_cases hij : i = j
    · subst hij; simp
    · have hnm : (mapping[i] == mapping[j]) = false := by
        simpa [List.getElem_inj hnd] using hij
      simp only [hnm, Bool.false_eq_true, if_false, h1, h2]
      cases hl : (lookupNat mapping[i] v2).isSome with
      | true => simp
      | false =>
        cases hv : validOrder b with
        | false => simp
        | true =>
          simp only [Bool.false_eq_true, if_false, Bool.not_true, ih, ne_eq, hij, not_false_eq_true, true_and]
          constructor
          · rintro ⟨h3, h4⟩
            refine ⟨fun x hx => ?_, fun x hx => ?_, h4⟩
            · obtain ⟨a1, a2, a3⟩ := h3 x hx
              exact ⟨a1, a2, ((hstep x hx).mp a3).1⟩
            · exact ((hstep x hx).mp (h3 x hx).2.2).2
          · rintro ⟨h3, h5, h4⟩
            refine ⟨fun x hx => ?_, h4⟩
            obtain ⟨a1, a2, a3⟩ := h3 x hx
            exact ⟨a1, a2, (hstep x hx).mpr ⟨a3, h5 x hx⟩⟩

/-! ## the statements about `create_molecule`'s bond loop -/

/-- With pairwise distinct atom numbers and bond end indices in range, the bond loop of `create_molecule`
    succeeds exactly when the bond list is a simple graph (no loop, no repeated pair) with valid orders. -/
theorem buildBonds_ok_iff (mapping : List Nat) (hnd : mapping.Nodup) (bs : List (Nat × Nat × Nat))
    (hin : ∀ b ∈ bs, b.1 < mapping.length ∧ b.2.1 < mapping.length) :
    (∃ adj, buildBonds mapping bs (mapping.map fun n => (n, [])) = .ok adj) ↔
      (simpleBonds bs = true ∧ ∀ b ∈ bs, validOrder b.2.2 = true) := by
  rw [buildBonds_ok_gen mapping hnd bs _ hin (by simp [List.map_map, Function.comp_def]), simpleBonds_iff]
  constructor
  · rintro ⟨h1, h2⟩
    exact ⟨⟨fun b hb => (h1 b hb).1, h2⟩, fun b hb => (h1 b hb).2.1⟩
  · rintro ⟨⟨h1, h2⟩, h3⟩
    exact ⟨fun b hb => ⟨h1 b hb, h3 b hb, fun n m _ _ => Adj_init mapping m n⟩, h2⟩

/-- … and otherwise it raises a `ValueError` (never anything else). -/
theorem buildBonds_lib_error (mapping : List Nat) (bs : List (Nat × Nat × Nat))
    (hin : ∀ b ∈ bs, b.1 < mapping.length ∧ b.2.1 < mapping.length) :
    (∃ adj, buildBonds mapping bs (mapping.map fun n => (n, [])) = .ok adj) ∨
      ∃ msg, buildBonds mapping bs (mapping.map fun n => (n, [])) = .error (.lib "ValueError" msg) := by
  have key : ∀ (bs : List (Nat × Nat × Nat)) (adj : List (Nat × List (Nat × Nat))),
      (∀ b ∈ bs, b.1 < mapping.length ∧ b.2.1 < mapping.length) → adj.map (·.1) = mapping →
      (∃ adj', buildBonds mapping bs adj = .ok adj') ∨
        ∃ msg, buildBonds mapping bs adj = .error (.lib "ValueError" msg) := by
    intro bs
    induction bs with
    | nil => intro adj _ _; exact Or.inl ⟨adj, rfl⟩
    | cons p tl ih =>
      obtain ⟨i, j, b⟩ := p
      intro adj hb hk
      obtain ⟨hi, hj⟩ := hb (i, j, b) (by simp)
      have hi' : mapping[i]? = some mapping[i] := by simp [hi]
      have hj' : mapping[j]? = some mapping[j] := by simp [hj]
      obtain ⟨v1, h1⟩ := lookupNat_of_key mapping[i] adj (by rw [hk]; exact List.getElem_mem hi)
      obtain ⟨v2, h2⟩ := lookupNat_of_key mapping[j] adj (by rw [hk]; exact List.getElem_mem hj)
      unfold buildBonds
      rw [hi', hj']; dsimp only
      split
      · exact Or.inr ⟨_, rfl⟩
      · rw [h1, h2]; dsimp only
        split
        · exact Or.inr ⟨_, rfl⟩
        · split
          · exact Or.inr ⟨_, rfl⟩
          · exact ih _ (fun x hx => hb x (by simp [hx])) (by rw [adjAdd_keys, adjAdd_keys]; exact hk)
  exact key bs _ hin (by simp [List.map_map, Function.comp_def])

end ChythonModel.Proofs.C03
