import ChythonModel.Proofs.C10Layout
/-!
# C10: atom block and connection table conform to the documented layout
-/
namespace ChythonModel.Proofs.C10
open ChythonModel.Model.Pack ChythonModel.Spec.PackLayout ChythonModel.Gen

theorem mdl_common : ∀ z < 119, 1 ≤ z →
    (mdlIsotope z).isSome = true ∧ (mdlIsotope z).map (fun (mdl : Nat) => ((mdl : Int) - 16)) = commonAt packCommon z := by
  decide +kernel

theorem fieldsOK_cons {f : Field} {fs : List Field} (h1 : f.2 < 2 ^ f.1) (h2 : FieldsOK fs) : FieldsOK (f :: fs) := by
  intro x hx
  rcases List.mem_cons.mp hx with rfl | hx
  · exact h1
  · exact h2 x hx

theorem fieldsOK_nil : FieldsOK [] := by intro x hx; simp at hx

theorem fieldsOK_append {a b : List Field} (ha : FieldsOK a) (hb : FieldsOK b) : FieldsOK (a ++ b) := by
  intro x hx
  rcases List.mem_append.mp hx with h | h
  · exact ha x h
  · exact hb x h

theorem atom_layout (a : PAtom) (h : AtomOK a) :
    ∃ fs bs, atomFields a = some fs ∧ atomRecord a = some bs ∧ fieldsBytes fs = bs ∧ width fs = 72 ∧ FieldsOK fs := by
  obtain ⟨hmdl, hcm⟩ := mdl_common a.z (by have := h.z; omega) h.z.1
  obtain ⟨mdl, hm⟩ := Option.isSome_iff_exists.mp hmdl
  rw [hm] at hcm
  have hcm : some ((mdl : Int) - 16) = commonAt packCommon a.z := hcm
  -- the isotope field, both ways
  have hiso : ∃ k, isoField a.z a.iso = some k ∧ isotopeField a.z a.iso = some k ∧ k < 32 := by
    cases hi : a.iso with
    | none => exact ⟨0, by simp [isoField], by simp [isotopeField], by decide⟩
    | some i =>
      obtain ⟨c', hc', h1, h2⟩ := h.iso i hi
      rw [← hcm] at hc'; cases hc'
      have e1 : ((i - ((mdl : Int) - 16)) % 256).toNat = (i - ((mdl : Int) - 16)).toNat := by omega
      have e2 : (i - (mdl : Int) + 16).toNat = (i - ((mdl : Int) - 16)).toNat := by omega
      have e3 : (i - ((mdl : Int) - 16)).toNat < 32 := by omega
      refine ⟨(i - ((mdl : Int) - 16)).toNat, ?_, ?_, e3⟩
      · simp only [isoField, ← hcm, Option.map_some, e1]
      · simp only [isotopeField, hm, Option.map_some, e2]
  obtain ⟨k, hk1, hk2, hk32⟩ := hiso
  have hn : u16 a.num = a.num := u16_id (Nat.lt_trans h.num (by decide))
  have hd : u8 a.nbrs.length = a.nbrs.length := u8_id (Nat.lt_trans h.deg (by decide))
  generalize hsign : signField a.stereo = sign
  generalize hhv : hydrogenField a.h = hv
  refine ⟨[(12, a.num), (4, a.nbrs.length), (2, if (a.nbrs.length == 2) = true then 0 else sign),
          (2, if (a.nbrs.length == 2) = true then sign else 0), (5, k), (7, a.z), (16, a.x), (16, a.y), (3, hv),
          (4, (a.charge + 4).toNat), (1, if a.radical = true then 1 else 0)],
      [u8 (a.num >>> 4), u8 (a.num <<< 4 ||| a.nbrs.length), u8 (stereoNibble a.stereo a.nbrs.length ||| k >>> 1),
        u8 (k <<< 7 ||| u8 a.z), u8 (a.x >>> 8), u8 a.x, u8 (a.y >>> 8), u8 a.y, hcrByte a.h a.charge a.radical],
    by simp only [atomFields, hk2, Option.map_some, hsign, hhv], by simp only [atomRecord, hk1, Option.map_some, hn, hd],
    ?_, by simp [width], ?_⟩
  · -- split the 72 bits into the five byte-aligned groups
    have hdeg := h.deg
    have hz := h.z
    have hsign2 : sign < 4 := by
      rw [← hsign]; rcases a.stereo with _ | _ | _ <;> simp [signField]
    have hhv8 : hv < 8 := by
      rw [← hhv]; cases hh : a.h with
      | none => simp [hydrogenField]
      | some v => have := h.h v hh; simp [hydrogenField]; omega
    have hcv : (a.charge + 4).toNat < 16 := by have := h.charge; omega
    have okE : FieldsOK [(3, hv), (4, (a.charge + 4).toNat), (1, if a.radical then 1 else 0)] :=
      fieldsOK_cons (by simpa using hhv8) (fieldsOK_cons (by simpa using hcv)
        (fieldsOK_cons (by cases a.radical <;> simp) fieldsOK_nil))
    have okD : FieldsOK ([(16, a.y)] ++ [(3, hv), (4, (a.charge + 4).toNat), (1, if a.radical then 1 else 0)]) :=
      fieldsOK_append (fieldsOK_cons (by simpa using h.y) fieldsOK_nil) okE
    have okC := fieldsOK_append (fieldsOK_cons (f := (16, a.x)) (by simpa using h.x) fieldsOK_nil) okD
    have okB : FieldsOK [(2, if (a.nbrs.length == 2) = true then 0 else sign), (2, if (a.nbrs.length == 2) = true then sign else 0),
        (5, k), (7, a.z)] :=
      fieldsOK_cons (by split <;> simp <;> omega) (fieldsOK_cons (by split <;> simp <;> omega)
        (fieldsOK_cons (by simpa using hk32) (fieldsOK_cons (by simp; omega) fieldsOK_nil)))
    have okBC := fieldsOK_append okB okC
    have e : [(12, a.num), (4, a.nbrs.length), (2, if (a.nbrs.length == 2) = true then 0 else sign),
          (2, if (a.nbrs.length == 2) = true then sign else 0), (5, k), (7, a.z), (16, a.x), (16, a.y), (3, hv),
          (4, (a.charge + 4).toNat), (1, if a.radical = true then 1 else 0)] =
        [(12, a.num), (4, a.nbrs.length)] ++ ([(2, if (a.nbrs.length == 2) = true then 0 else sign),
          (2, if (a.nbrs.length == 2) = true then sign else 0), (5, k), (7, a.z)] ++ ([(16, a.x)] ++ ([(16, a.y)] ++
          [(3, hv), (4, (a.charge + 4).toNat), (1, if a.radical then 1 else 0)]))) := rfl
    rw [e, fieldsBytes_append _ _ (by simp [width]) okBC, fieldsBytes_append _ _ (by simp [width]) okC,
      fieldsBytes_append _ _ (by simp [width]) okD, fieldsBytes_append _ _ (by simp [width]) okE]
    rw [numdeg_layout a.num a.nbrs.length h.num h.deg, coord_layout a.x h.x, coord_layout a.y h.y]
    subst hsign hhv
    have hst : a.stereo ∈ [none, some true, some false] := by rcases a.stereo with _ | _ | _ <;> simp
    have hzz : a.z = (a.z / 16) * 16 + a.z % 16 := by omega
    have hB : fieldsBytes [(2, if (a.nbrs.length == 2) = true then 0 else signField a.stereo),
        (2, if (a.nbrs.length == 2) = true then signField a.stereo else 0), (5, k), (7, a.z)] =
        [u8 (stereoNibble a.stereo a.nbrs.length ||| k >>> 1), u8 (k <<< 7 ||| u8 a.z)] := by
      by_cases hd2 : a.nbrs.length = 2
      · have := stereo_iso_z_layout a.stereo hst 2 (by simp) k hk32 (a.z / 16) (by omega) (a.z % 16) (by omega)
        rw [← hzz] at this; rw [hd2]; exact this
      · have := stereo_iso_z_layout a.stereo hst 0 (by simp) k hk32 (a.z / 16) (by omega) (a.z % 16) (by omega)
        rw [← hzz] at this
        have hb : (a.nbrs.length == 2) = false := by simp [hd2]
        have hs0 : stereoNibble a.stereo a.nbrs.length = stereoNibble a.stereo 0 := by simp [stereoNibble, hb]
        rw [hb, hs0]; exact this
    have hh : a.h ∈ [none, some 0, some 1, some 2, some 3, some 4, some 5, some 6] := by
      cases hh : a.h with
      | none => simp
      | some v =>
        have := h.h v hh
        have : v = 0 ∨ v = 1 ∨ v = 2 ∨ v = 3 ∨ v = 4 ∨ v = 5 ∨ v = 6 := by omega
        rcases this with rfl | rfl | rfl | rfl | rfl | rfl | rfl <;> simp
    have hc : a.charge ∈ [(-4 : Int), -3, -2, -1, 0, 1, 2, 3, 4] := by
      have := h.charge
      have : a.charge = -4 ∨ a.charge = -3 ∨ a.charge = -2 ∨ a.charge = -1 ∨ a.charge = 0 ∨ a.charge = 1 ∨
          a.charge = 2 ∨ a.charge = 3 ∨ a.charge = 4 := by omega
      rcases this with e | e | e | e | e | e | e | e | e <;> simp [e]
    have hr : a.radical ∈ [false, true] := by cases a.radical <;> simp
    have hE := hcr_layout a.h hh a.charge hc a.radical hr
    rw [hB, hE]; rfl
  · subst hsign hhv
    have hdeg := h.deg
    have hz := h.z
    have hsign2 : signField a.stereo < 4 := by rcases a.stereo with _ | _ | _ <;> simp [signField]
    have hhv8 : hydrogenField a.h < 8 := by
      cases hh : a.h with
      | none => simp [hydrogenField]
      | some v => have := h.h v hh; simp [hydrogenField]; omega
    have hcv : (a.charge + 4).toNat < 16 := by have := h.charge; omega
    exact fieldsOK_cons (by simpa using h.num) (fieldsOK_cons (by simpa using hdeg)
      (fieldsOK_cons (by split <;> simp <;> omega) (fieldsOK_cons (by split <;> simp <;> omega)
      (fieldsOK_cons (by simpa using hk32) (fieldsOK_cons (by simp; omega)
      (fieldsOK_cons (by simpa using h.x) (fieldsOK_cons (by simpa using h.y)
      (fieldsOK_cons (by simpa using hhv8) (fieldsOK_cons (by simpa using hcv)
      (fieldsOK_cons (by cases a.radical <;> simp) fieldsOK_nil))))))))))


theorem fieldsBytes_nil : fieldsBytes [] = [] := rfl

theorem atoms_layout : ∀ (atoms : List PAtom), (∀ a ∈ atoms, AtomOK a) →
    ∃ af ab, atomsFields atoms = some af ∧ atomBlock atoms = some ab ∧ fieldsBytes af = ab ∧
      width af = 72 * atoms.length ∧ FieldsOK af
  | [], _ => ⟨[], [], rfl, rfl, rfl, rfl, fieldsOK_nil⟩
  | a :: rest, h => by
    obtain ⟨fs, bs, h1, h2, h3, h4, h5⟩ := atom_layout a (h a (by simp))
    obtain ⟨af, ab, i1, i2, i3, i4, i5⟩ := atoms_layout rest (fun x hx => h x (by simp [hx]))
    refine ⟨fs ++ af, bs ++ ab, by simp [atomsFields, h1, i1], by simp [atomBlock, h2, i2], ?_, ?_, fieldsOK_append h5 i5⟩
    · rw [fieldsBytes_append _ _ (by omega) i5, h3, i3]
    · rw [width_append, h4, i4, List.length_cons]; omega

theorem conn_layout : ∀ (l : List Nat) (buf : Nat), (∀ m ∈ l, m < 4096) → l.length % 2 = 0 →
    pairEnc true buf l = fieldsBytes (l.map fun m => (12, m))
  | [], _, _, _ => rfl
  | [_], _, _, h => by simp at h
  | p :: q :: rest, buf, hb, hl => by
    have hp : p < 4096 := hb p (by simp)
    have hq : q < 4096 := hb q (by simp)
    have hrest : ∀ m ∈ rest, m < 4096 := fun m hm => hb m (by simp [hm])
    have ih := conn_layout rest (u8 (p <<< 4)) hrest (by simp at hl; omega)
    have hok : FieldsOK (rest.map fun m => ((12, m) : Field)) := by
      intro f hf
      obtain ⟨m, hm, rfl⟩ := List.mem_map.mp hf
      exact hrest m hm
    have e : (p :: q :: rest).map (fun m => ((12, m) : Field)) = [(12, p), (12, q)] ++ rest.map fun m => (12, m) := rfl
    rw [e, fieldsBytes_append _ _ (by simp [width]) hok, pair_layout p q hp hq, ← ih]
    simp only [pairEnc, List.cons_append, List.nil_append]

theorem conn_width (l : List Nat) : width (l.map fun m => ((12, m) : Field)) = 12 * l.length := by
  induction l with
  | nil => rfl
  | cons x l ih => simp only [width, List.map_cons, List.sum_cons, List.length_cons] at ih ⊢; omega

end ChythonModel.Proofs.C10
